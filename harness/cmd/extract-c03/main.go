// Command extract-c03 determines the three source facts of property C03
// behaviourally, by running the waddrmgr built from the repository through the
// witness scenarios of each fact (lib/extract_c03.py, probe_facts, explains why
// each scenario determines its fact).  It prints one JSON object.
package main

import (
	"crypto/sha256"
	"encoding/json"
	"fmt"
	"os"
	"path/filepath"
	"time"

	"github.com/btcsuite/btcd/btcutil"
	"github.com/btcsuite/btcd/btcutil/hdkeychain"
	"github.com/btcsuite/btcd/chaincfg"
	"github.com/btcsuite/btcwallet/waddrmgr"
	"github.com/btcsuite/btcwallet/walletdb"
	_ "github.com/btcsuite/btcwallet/walletdb/bdb"
)

var (
	params  = &chaincfg.MainNetParams
	pubPass = []byte("public")
	prvPass = []byte("private")
	nsKey   = []byte("waddrmgr")
)

type wallet struct {
	db  walletdb.DB
	mgr *waddrmgr.Manager
}

func seedBytes(tag string, n int) []byte {
	h := sha256.Sum256([]byte(fmt.Sprintf("verif-c03-probe-%s-%d", tag, n)))
	return h[:]
}

func newWallet(dir string, n int) (*wallet, error) {
	path := filepath.Join(dir, fmt.Sprintf("p%d.db", n))
	os.Remove(path)
	db, err := walletdb.Create("bdb", path, true, time.Minute, false)
	if err != nil {
		return nil, err
	}
	root, err := hdkeychain.NewMaster(seedBytes("seed", n), params)
	if err != nil {
		return nil, err
	}
	w := &wallet{db: db}
	err = walletdb.Update(db, func(tx walletdb.ReadWriteTx) error {
		ns, err := tx.CreateTopLevelBucket(nsKey)
		if err != nil {
			return err
		}
		if err := waddrmgr.Create(ns, root, pubPass, prvPass, params, &waddrmgr.FastScryptOptions, time.Time{}); err != nil {
			return err
		}
		w.mgr, err = waddrmgr.Open(ns, pubPass, params)
		return err
	})
	return w, err
}

func (w *wallet) close() { w.mgr.Close(); w.db.Close() }

// update runs f in a read-write transaction; a panic becomes ("panic", nil).
func (w *wallet) update(f func(ns walletdb.ReadWriteBucket) error) (res string, err error) {
	defer func() {
		if r := recover(); r != nil {
			res, err = "panic", nil
		}
	}()
	err = walletdb.Update(w.db, func(tx walletdb.ReadWriteTx) error { return f(tx.ReadWriteBucket(nsKey)) })
	if err != nil {
		return "error", err
	}
	return "ok", nil
}

func xpub(n int) *hdkeychain.ExtendedKey {
	m, err := hdkeychain.NewMaster(seedBytes("xpub", n), params)
	if err != nil {
		panic(err)
	}
	k := m
	for _, i := range []uint32{84, 0, uint32(n)} {
		k, err = k.Derive(i + hdkeychain.HardenedKeyStart)
		if err != nil {
			panic(err)
		}
	}
	p, _ := k.Neuter()
	return p
}

// privAfterExtend: extend (scope, account, branch) to index last in the given
// lock state, optionally unlock afterwards, then ask PrivKey() of every address
// of that branch through Manager.Address.  Result: "ok" (every key returned and
// matching its public key), "watching", "locked", "panic:<where>", "error:<what>".
func privAfterExtend(w *wallet, scope waddrmgr.KeyScope, account uint32, internal bool, last uint32,
	unlocked bool, unlockAfter bool) string {

	sm, err := w.mgr.FetchScopedKeyManager(scope)
	if err != nil {
		return "error:" + err.Error()
	}
	if unlocked {
		if r, err := w.update(func(ns walletdb.ReadWriteBucket) error { return w.mgr.Unlock(ns, prvPass) }); r != "ok" {
			return fmt.Sprintf("%s:unlock-before:%v", r, err)
		}
	}
	r, err := w.update(func(ns walletdb.ReadWriteBucket) error {
		if internal {
			return sm.ExtendInternalAddresses(ns, account, last)
		}
		return sm.ExtendExternalAddresses(ns, account, last)
	})
	if r != "ok" {
		return fmt.Sprintf("%s:extend:%v", r, err)
	}
	if unlockAfter {
		if r, err := w.update(func(ns walletdb.ReadWriteBucket) error { return w.mgr.Unlock(ns, prvPass) }); r != "ok" {
			return fmt.Sprintf("%s:unlock-after:%v", r, err)
		}
	}
	// the addresses of the branch (read from the database), then the managed
	// addresses the running manager hands out for them (its cache)
	var addrs []btcutil.Address
	r, err = w.update(func(ns walletdb.ReadWriteBucket) error {
		return sm.ForEachAccountAddress(ns, account, func(ma waddrmgr.ManagedAddress) error {
			if ma.Internal() == internal {
				addrs = append(addrs, ma.Address())
			}
			return nil
		})
	})
	if r != "ok" {
		return fmt.Sprintf("%s:list:%v", r, err)
	}
	if uint32(len(addrs)) != last+1 {
		return fmt.Sprintf("error:%d addresses listed, %d expected", len(addrs), last+1)
	}
	out := "ok"
	for _, a := range addrs {
		var ma waddrmgr.ManagedAddress
		r, err = w.update(func(ns walletdb.ReadWriteBucket) error {
			var err error
			ma, err = w.mgr.Address(ns, a)
			return err
		})
		if r != "ok" {
			return fmt.Sprintf("%s:address:%v", r, err)
		}
		pka, ok := ma.(waddrmgr.ManagedPubKeyAddress)
		if !ok {
			return "error:not a pubkey address"
		}
		pk, err := pka.PrivKey()
		switch {
		case err == nil && pk.PubKey().IsEqual(pka.PubKey()):
		case err == nil:
			return "error:private key does not match"
		case waddrmgr.IsError(err, waddrmgr.ErrWatchingOnly):
			out = "watching"
		case waddrmgr.IsError(err, waddrmgr.ErrLocked):
			out = "locked"
		default:
			return "error:" + err.Error()
		}
	}
	return out
}

type report struct {
	// extend: per instance the outcome of the four (lock state, kind of account) combinations
	ExtendSeedUnlocked   []string `json:"extend_seed_unlocked"`
	ExtendSeedLocked     []string `json:"extend_seed_locked_then_unlock"`
	ExtendImportUnlocked []string `json:"extend_imported_unlocked"`
	ExtendImportLocked   []string `json:"extend_imported_locked_then_unlock"`
	// first account number handed out in a freshly created custom scope
	NewScopeFirstAccount []string `json:"new_scope_first_account"`
	// DeriveFromKeyPathCache on a cached imported account while unlocked
	DeriveCacheImported []string `json:"derive_cache_imported"`
	// ... and on a seed account (sanity: must return the key)
	DeriveCacheSeed []string `json:"derive_cache_seed"`
	NProbes         int      `json:"nprobes"`
}

func main() {
	dir, err := os.MkdirTemp("", "vh-extract-c03-")
	if err != nil {
		fmt.Fprintln(os.Stderr, err)
		os.Exit(3)
	}
	defer os.RemoveAll(dir)
	n := 0
	fresh := func() *wallet {
		n++
		w, err := newWallet(dir, n)
		if err != nil {
			fmt.Fprintln(os.Stderr, "extract-c03:", err)
			os.Exit(3)
		}
		return w
	}
	var rep report
	s84, s44, s86, s49 := waddrmgr.KeyScopeBIP0084, waddrmgr.KeyScopeBIP0044, waddrmgr.KeyScopeBIP0086, waddrmgr.KeyScopeBIP0049Plus

	// ---- fact 1: extendAddresses, the four combinations, several instances each
	for _, c := range []struct {
		scope    waddrmgr.KeyScope
		internal bool
		last     uint32
	}{{s84, false, 2}, {s44, true, 0}, {s86, false, 4}, {s49, true, 1}} {
		w := fresh()
		rep.ExtendSeedUnlocked = append(rep.ExtendSeedUnlocked, privAfterExtend(w, c.scope, 0, c.internal, c.last, true, false))
		w.close()
		w = fresh()
		rep.ExtendSeedLocked = append(rep.ExtendSeedLocked, privAfterExtend(w, c.scope, 0, c.internal, c.last, false, true))
		w.close()
		rep.NProbes += 2
	}
	for i, c := range []struct {
		scope    waddrmgr.KeyScope
		internal bool
		last     uint32
	}{{s84, false, 1}, {s44, true, 2}} {
		for _, unlocked := range []bool{true, false} {
			w := fresh()
			sm, _ := w.mgr.FetchScopedKeyManager(c.scope)
			var acct uint32
			r, err := w.update(func(ns walletdb.ReadWriteBucket) error {
				var err error
				acct, err = sm.NewAccountWatchingOnly(ns, "imported-xpub", xpub(i), 7, nil)
				return err
			})
			res := fmt.Sprintf("%s:import:%v", r, err)
			if r == "ok" {
				res = privAfterExtend(w, c.scope, acct, c.internal, c.last, unlocked, !unlocked)
			}
			if unlocked {
				rep.ExtendImportUnlocked = append(rep.ExtendImportUnlocked, res)
			} else {
				rep.ExtendImportLocked = append(rep.ExtendImportLocked, res)
			}
			w.close()
			rep.NProbes++
		}
	}

	// ---- fact 2: the first account created in a new custom scope
	for i, c := range []struct {
		scope waddrmgr.KeyScope
		watch bool
	}{{waddrmgr.KeyScope{Purpose: 1017, Coin: 0}, false}, {waddrmgr.KeyScope{Purpose: 45, Coin: 1}, false},
		{waddrmgr.KeyScope{Purpose: 2017, Coin: 3}, true}} {
		w := fresh()
		var acct uint32
		r, err := w.update(func(ns walletdb.ReadWriteBucket) error {
			if err := w.mgr.Unlock(ns, prvPass); err != nil {
				return err
			}
			sm, err := w.mgr.NewScopedKeyManager(ns, c.scope, waddrmgr.ScopeAddrSchema{
				ExternalAddrType: waddrmgr.WitnessPubKey, InternalAddrType: waddrmgr.WitnessPubKey})
			if err != nil {
				return err
			}
			if c.watch {
				acct, err = sm.NewAccountWatchingOnly(ns, "first", xpub(10+i), 7, nil)
			} else {
				acct, err = sm.NewAccount(ns, "first")
			}
			return err
		})
		if r == "ok" {
			rep.NewScopeFirstAccount = append(rep.NewScopeFirstAccount, fmt.Sprint(acct))
		} else {
			rep.NewScopeFirstAccount = append(rep.NewScopeFirstAccount, fmt.Sprintf("%s:%v", r, err))
		}
		w.close()
		rep.NProbes++
	}

	// ---- fact 3: DeriveFromKeyPathCache
	for i, c := range []struct {
		scope  waddrmgr.KeyScope
		branch uint32
		index  uint32
	}{{s44, 0, 1}, {s84, 1, 0}} {
		w := fresh()
		sm, _ := w.mgr.FetchScopedKeyManager(c.scope)
		var acct uint32
		r, err := w.update(func(ns walletdb.ReadWriteBucket) error {
			var err error
			if acct, err = sm.NewAccountWatchingOnly(ns, "imported-xpub", xpub(20+i), 7, nil); err != nil {
				return err
			}
			if err = w.mgr.Unlock(ns, prvPass); err != nil {
				return err
			}
			// load both accounts into the account cache
			if _, err = sm.AccountProperties(ns, acct); err != nil {
				return err
			}
			_, err = sm.AccountProperties(ns, 0)
			return err
		})
		if r != "ok" {
			rep.DeriveCacheImported = append(rep.DeriveCacheImported, fmt.Sprintf("%s:setup:%v", r, err))
			rep.DeriveCacheSeed = append(rep.DeriveCacheSeed, fmt.Sprintf("%s:setup:%v", r, err))
			w.close()
			continue
		}
		call := func(account uint32) (res string) {
			defer func() {
				if rc := recover(); rc != nil {
					res = "panic"
				}
			}()
			_, err := sm.DeriveFromKeyPathCache(waddrmgr.DerivationPath{InternalAccount: account,
				Account: hdkeychain.HardenedKeyStart, Branch: c.branch, Index: c.index})
			if err != nil {
				return "error"
			}
			return "key"
		}
		rep.DeriveCacheImported = append(rep.DeriveCacheImported, call(acct))
		rep.DeriveCacheSeed = append(rep.DeriveCacheSeed, call(0))
		w.close()
		rep.NProbes += 2
	}
	json.NewEncoder(os.Stdout).Encode(rep)
}
