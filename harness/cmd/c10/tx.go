package main

import (
	"fmt"
	"os"
	"path/filepath"
	"sort"
	"strings"
	"sync/atomic"
	"time"

	"github.com/btcsuite/btcd/chaincfg"
	"github.com/btcsuite/btcwallet/walletdb"
	_ "github.com/btcsuite/btcwallet/walletdb/bdb"
	"github.com/btcsuite/btcwallet/wtxmgr"
	"github.com/lightningnetwork/lnd/clock"

	"verifharness/internal/faultdb"
	"verifharness/internal/gen"
	"verifharness/internal/txsim"
)

var txNS = []byte("wtxmgr")

// txEnv is one real wtxmgr.Store over one bbolt file, reached through the
// fault-injecting wrapper.  The txsim driver (events -> store calls, API-level
// observation) is reused as is: it only needs its exported fields.
type txEnv struct {
	path  string
	raw   walletdb.DB
	fdb   *faultdb.DB
	drv   *txsim.Driver
	store *wtxmgr.Store
	u     *txsim.Universe
}

func (e *txEnv) close() {
	if e.raw != nil {
		e.raw.Close()
	}
	os.Remove(e.path)
}

func createTxEnv(dir string, u *txsim.Universe) (*txEnv, error) {
	e := &txEnv{path: filepath.Join(dir, "main.db")}
	var err error
	e.raw, err = walletdb.Create("bdb", e.path, true, time.Minute, false)
	if err != nil {
		return nil, err
	}
	e.fdb = faultdb.Wrap(e.raw)
	var store *wtxmgr.Store
	err = walletdb.Update(e.fdb, func(tx walletdb.ReadWriteTx) error {
		ns, err := tx.CreateTopLevelBucket(txNS)
		if err != nil {
			return err
		}
		if err := wtxmgr.Create(ns); err != nil {
			return err
		}
		store, err = wtxmgr.Open(ns, &chaincfg.MainNetParams)
		return err
	})
	if err != nil {
		e.close()
		return nil, err
	}
	clk := clock.NewTestClock(txsim.Epoch)
	store.VerifSetClock(clk)
	e.drv = &txsim.Driver{DB: e.fdb, Store: store, Clock: clk, U: u}
	e.store, e.u = store, u
	return e, nil
}

var copySeq int64

// openTxCopy copies the snapshot file and opens a fresh store on the copy.
func openTxCopy(dir, snapshot string, u *txsim.Universe, nowMs int64) (*txEnv, error) {
	e := &txEnv{path: filepath.Join(dir, fmt.Sprintf("copy%d.db", atomic.AddInt64(&copySeq, 1)))}
	if err := copyFile(snapshot, e.path); err != nil {
		return nil, err
	}
	var err error
	e.raw, err = walletdb.Open("bdb", e.path, true, time.Minute, false)
	if err != nil {
		return nil, err
	}
	e.fdb = faultdb.Wrap(e.raw)
	var store *wtxmgr.Store
	err = walletdb.View(e.fdb, func(tx walletdb.ReadTx) error {
		var err error
		store, err = wtxmgr.Open(tx.ReadBucket(txNS), &chaincfg.MainNetParams)
		return err
	})
	if err != nil {
		e.close()
		return nil, err
	}
	clk := clock.NewTestClock(txsim.Epoch.Add(time.Duration(nowMs) * time.Millisecond))
	store.VerifSetClock(clk)
	e.drv = &txsim.Driver{DB: e.fdb, Store: store, Clock: clk, U: u, NowMs: nowMs}
	e.store, e.u = store, u
	return e, nil
}

func txTip(f *txsim.Facts) int64 {
	tip := int64(-1)
	for _, b := range f.Conf {
		if b[0] > tip {
			tip = b[0]
		}
	}
	return tip
}

func txBlockIDs(evs ...[]txsim.Event) txsim.BlockIDs {
	m := txsim.BlockIDs{}
	for _, es := range evs {
		for _, e := range es {
			if e.K == "confirm" {
				m[txsim.BlockHash(e.B)] = e.B
			}
		}
	}
	return m
}

// observeTx asks the store everything the property names: balances, spendable
// outputs, the unmined set, per-transaction details, the lease list.
func observeTx(e *txEnv, tip int64, blocks txsim.BlockIDs) items {
	it := items{}
	o, err := e.drv.Observe(tip, txsim.ObserveOpts{MinConfs: []int64{0, 1, 6, 100}, SyncOffs: []int64{0, 100},
		Details: true, Blocks: blocks})
	if err != nil {
		it["query_error"] = err.Error()
		return it
	}
	it["balance"] = js(o.Bal)
	it["utxos"] = js(o.Utxos)
	it["watched_outputs"] = js(o.Watch)
	it["unmined"] = js(o.Unmined)
	it["locked"] = js(o.Locked)
	it["details"] = js(o.Details) + js(o.Unique)
	// the labels of the transactions of the universe
	var labels []string
	walletdb.View(e.raw, func(tx walletdb.ReadTx) error {
		ns := tx.ReadBucket(txNS)
		for _, t := range e.u.Txs {
			if l, err := wtxmgr.FetchTxLabel(ns, t.Hash()); err == nil {
				labels = append(labels, fmt.Sprintf("%d=%s", t.ID, l))
			}
		}
		return nil
	})
	it["labels"] = strings.Join(labels, ",")
	return it
}

func labelText(id int64) string {
	switch {
	case id == 0:
		return ""
	case id < 0:
		return strings.Repeat("x", wtxmgr.TxLabelLimit+1)
	}
	return fmt.Sprintf("c10-label-%d", id)
}

func applyTx(e *txEnv, ev txsim.Event) (string, bool) {
	switch ev.K {
	case "label":
		err := walletdb.Update(e.fdb, func(tx walletdb.ReadWriteTx) error {
			return e.store.PutTxLabel(tx.ReadWriteBucket(txNS), e.u.HashOf(ev.T), labelText(ev.ID))
		})
		if err != nil {
			return err.Error() + "||0", true
		}
		return "||0", false
	case "create":
		err := walletdb.Update(e.fdb, func(tx walletdb.ReadWriteTx) error {
			return wtxmgr.Create(tx.ReadWriteBucket(txNS))
		})
		if err != nil {
			return err.Error() + "||0", true
		}
		return "||0", false
	}
	so := e.drv.Apply(ev)
	return fmt.Sprintf("%s|%s|%d", so.Err, so.Lock, so.Expiry), so.Err != ""
}

func callList(cs []faultdb.Call) []string {
	out := make([]string, len(cs))
	for i, c := range cs {
		out[i] = c.Op + ":" + c.Callee
	}
	return out
}

func txOpName(ev txsim.Event) string {
	switch ev.K {
	case "seen":
		return "InsertTx(unmined)+AddCredit"
	case "confirm":
		return "InsertTx(mined)+AddCredit"
	case "redeliver":
		return "InsertTx+AddCredit(again)"
	case "disconnect":
		return "Rollback"
	case "abandon":
		return "RemoveUnminedTx"
	case "lease":
		return "LockOutput"
	case "release":
		return "UnlockOutput"
	case "sweep":
		return "DeleteExpiredLockedOutputs"
	case "label":
		return "PutTxLabel"
	case "create":
		return "wtxmgr.Create"
	}
	return ev.K
}

func runTxCase(in input) (*caseOut, error) {
	if in.Fresh {
		return runFreshTxCase(in)
	}
	co := &caseOut{In: in}
	u := txsim.Rebuild(in.Universe)
	dir, err := tempDir("vh-c10-tx-")
	if err != nil {
		return nil, err
	}
	defer os.RemoveAll(dir)
	main, err := createTxEnv(dir, u)
	if err != nil {
		return nil, err
	}
	facts := txsim.NewFacts()
	for _, ev := range in.Events {
		if ev.K == "label" {
			applyTx(main, ev)
			continue
		}
		main.drv.Apply(ev)
		facts.Apply(u, ev)
	}
	nowMs := main.drv.NowMs
	snapshot := filepath.Join(dir, "snapshot.db")
	f, err := os.Create(snapshot)
	if err != nil {
		return nil, err
	}
	if err := main.raw.Copy(f); err != nil {
		return nil, err
	}
	f.Close()
	tip := txTip(facts)
	blocks := txBlockIDs(in.Events, in.TxOps)
	ids := newTxIDs(u, blocks)
	state, err := dumpTxStore(main.raw, ids)
	if err != nil {
		return nil, err
	}
	fixTxRecordValues(state)
	co.Obs.State = state
	main.close()

	for idx, ev := range in.TxOps {
		p := probe{Idx: idx, Name: txOpName(ev), Ks: []kOut{}}
		if ev.K == "tick" {
			p.Skip = "not a database operation"
			co.Obs.Probes = append(co.Obs.Probes, p)
			continue
		}
		// clean run
		ce, err := openTxCopy(dir, snapshot, u, nowMs)
		if err != nil {
			return nil, err
		}
		pre := observeTx(ce, tip, blocks)
		preDump, err := faultdb.Dump(ce.raw)
		if err != nil {
			return nil, err
		}
		res, failed := applyTx(ce, ev)
		p.N = ce.fdb.Writes()
		p.Calls = callList(ce.fdb.Calls)
		p.Result = res
		p.Clean = "ok"
		if failed {
			p.Clean = "err"
		}
		cleanPost := observeTx(ce, tip, blocks)
		cleanDump, err := dumpTxStore(ce.raw, ids)
		if err != nil {
			return nil, err
		}
		fixTxRecordValues(cleanDump)
		p.Delta = diffDumps(state, cleanDump)
		ce.close()

		for k := 1; k <= p.N; k++ {
			if !wantK(&in, k) {
				continue
			}
			ke, err := openTxCopy(dir, snapshot, u, nowMs)
			if err != nil {
				return nil, err
			}
			ko := kOut{K: k, Cats: []string{}}
			site := p.Name
			if d := pre.diff(observeTx(ke, tip, blocks)); len(d) > 0 {
				ke.close()
				return nil, fmt.Errorf("harness: a fresh store on a copy of the same file answers differently: %v", d)
			}
			ke.fdb.FailAt = k
			kres, kfailed := applyTx(ke, ev)
			ke.fdb.FailAt = 0
			ko.Fired, ko.Err, ko.Text = ke.fdb.Fired, kfailed, kres
			if fc := ke.fdb.FailedCall(); fc != nil {
				ko.Callee = fc.Callee
				ko.Below = sitesBelow(fc.Sites)
			}
			switch {
			case !ko.Fired:
				ko.Kinds = append(ko.Kinds, "write_count_not_reproducible@"+site)
			case !kfailed:
				ko.Kinds = append(ko.Kinds, "success_with_failed_write@"+site+"/"+ko.Callee)
				if d := cleanPost.diff(observeTx(ke, tip, blocks)); len(d) > 0 {
					ko.Detail = append(ko.Detail, fmt.Sprintf("committed effect differs from the clean run in: %v", d))
				}
			default:
				dump, err := faultdb.Dump(ke.raw)
				if err != nil {
					return nil, err
				}
				if d := faultdb.DiffDump(preDump, dump, 6); len(d) > 0 {
					ko.Kinds = append(ko.Kinds, "database_changed_after_rollback@"+site)
					ko.Detail = append(ko.Detail, d...)
				}
				for _, it := range pre.diff(observeTx(ke, tip, blocks)) {
					ko.Cats = appendUniq(ko.Cats, category(it))
					ko.Kinds = appendUniq(ko.Kinds, "memory_not_restored:"+category(it)+"@"+site)
					ko.Detail = append(ko.Detail, "differs after rollback: "+it)
				}
				rres, _ := applyTx(ke, ev)
				if rres != res {
					ko.Kinds = append(ko.Kinds, "retry_differs@"+site)
					ko.Detail = append(ko.Detail, fmt.Sprintf("retry result %q, clean result %q", rres, res))
				} else if d := cleanPost.diff(observeTx(ke, tip, blocks)); len(d) > 0 {
					ko.Kinds = append(ko.Kinds, "retry_differs@"+site)
					ko.Detail = append(ko.Detail, fmt.Sprintf("after retry differs from the clean run in: %v", d))
				}
			}
			ke.close()
			p.Ks = append(p.Ks, ko)
		}
		co.Obs.Probes = append(co.Obs.Probes, p)
	}
	finish(co)
	return co, nil
}

// runFreshTxCase probes wtxmgr.Create: the file holds nothing but the (empty)
// namespace bucket.
func runFreshTxCase(in input) (*caseOut, error) {
	co := &caseOut{In: in}
	dir, err := tempDir("vh-c10-newtx-")
	if err != nil {
		return nil, err
	}
	defer os.RemoveAll(dir)
	snapshot := filepath.Join(dir, "fresh.db")
	raw, err := walletdb.Create("bdb", snapshot, true, time.Minute, false)
	if err != nil {
		return nil, err
	}
	err = walletdb.Update(raw, func(tx walletdb.ReadWriteTx) error {
		_, err := tx.CreateTopLevelBucket(txNS)
		return err
	})
	if err != nil {
		return nil, err
	}
	u := txsim.NewUniverse()
	ids := newTxIDs(u, txsim.BlockIDs{})
	state, err := dumpTxStore(raw, ids)
	if err != nil {
		return nil, err
	}
	raw.Close()
	co.Obs.State = state
	open := func() (*txEnv, error) {
		e := &txEnv{path: filepath.Join(dir, fmt.Sprintf("copy%d.db", atomic.AddInt64(&copySeq, 1))), u: u}
		if err := copyFile(snapshot, e.path); err != nil {
			return nil, err
		}
		var err error
		e.raw, err = walletdb.Open("bdb", e.path, true, time.Minute, false)
		if err != nil {
			return nil, err
		}
		e.fdb = faultdb.Wrap(e.raw)
		return e, nil
	}
	observe := func(e *txEnv) items {
		it := items{}
		walletdb.View(e.raw, func(tx walletdb.ReadTx) error {
			if _, err := wtxmgr.Open(tx.ReadBucket(txNS), &chaincfg.MainNetParams); err != nil {
				it["open"] = err.Error()
			} else {
				it["open"] = "ok"
			}
			return nil
		})
		return it
	}
	for idx, ev := range in.TxOps {
		p := probe{Idx: idx, Name: txOpName(ev), Ks: []kOut{}}
		ce, err := open()
		if err != nil {
			return nil, err
		}
		preDump, err := faultdb.Dump(ce.raw)
		if err != nil {
			return nil, err
		}
		res, failed := applyTx(ce, ev)
		p.N = ce.fdb.Writes()
		p.Calls = callList(ce.fdb.Calls)
		p.Result = res
		p.Clean = "ok"
		if failed {
			p.Clean = "err"
		}
		cleanPost := observe(ce)
		cleanDump, err := dumpTxStore(ce.raw, ids)
		if err != nil {
			return nil, err
		}
		p.Delta = diffDumps(state, cleanDump)
		ce.close()
		for k := 1; k <= p.N; k++ {
			if !wantK(&in, k) {
				continue
			}
			ke, err := open()
			if err != nil {
				return nil, err
			}
			ko := kOut{K: k, Cats: []string{}}
			ke.fdb.FailAt = k
			kres, kfailed := applyTx(ke, ev)
			ke.fdb.FailAt = 0
			ko.Fired, ko.Err, ko.Text = ke.fdb.Fired, kfailed, kres
			if fc := ke.fdb.FailedCall(); fc != nil {
				ko.Callee = fc.Callee
				ko.Below = sitesBelow(fc.Sites)
			}
			switch {
			case !ko.Fired:
				ko.Kinds = append(ko.Kinds, "write_count_not_reproducible@"+p.Name)
			case !kfailed:
				ko.Kinds = append(ko.Kinds, "success_with_failed_write@"+p.Name+"/"+ko.Callee)
			default:
				dump, err := faultdb.Dump(ke.raw)
				if err != nil {
					return nil, err
				}
				if d := faultdb.DiffDump(preDump, dump, 6); len(d) > 0 {
					ko.Kinds = append(ko.Kinds, "database_changed_after_rollback@"+p.Name)
					ko.Detail = append(ko.Detail, d...)
				}
				rres, _ := applyTx(ke, ev)
				rdump, err := dumpTxStore(ke.raw, ids)
				if err != nil {
					return nil, err
				}
				dd := diffDumps(cleanDump, rdump)
				if rres != res || len(cleanPost.diff(observe(ke))) > 0 || len(dd.Put)+len(dd.Del)+len(dd.NewB)+len(dd.GoneB) > 0 {
					ko.Kinds = append(ko.Kinds, "retry_differs@"+p.Name)
					ko.Detail = append(ko.Detail, fmt.Sprintf("retry result %q, clean result %q, file differs in %v", rres, res, dd))
				}
			}
			ke.close()
			p.Ks = append(p.Ks, ko)
		}
		co.Obs.Probes = append(co.Obs.Probes, p)
	}
	finish(co)
	return co, nil
}

func appendUniq(xs []string, x string) []string {
	for _, y := range xs {
		if y == x {
			return xs
		}
	}
	return append(xs, x)
}

// genTxStates generates one history and returns up to `want` states of it
// (prefix + operations to probe there).
func genTxStates(r *gen.R, perHist, want int) []input {
	s := txsim.NewSim(r)
	s.Run(txsim.GenConfig{MaxTxs: r.Range(3, 10), MaxEvents: r.Range(6, 30), Leases: r.Chance(1, 2)})
	evs := s.Events
	if len(evs) < 2 {
		return nil
	}
	var out []input
	n := perHist
	if n > want {
		n = want
	}
	// sample positions, biased to the later part of the history
	pos := map[int]bool{}
	for len(pos) < n && len(pos) < len(evs) {
		p := r.Range(0, len(evs)-1)
		if r.Chance(1, 2) {
			p = r.Range(len(evs)/2, len(evs)-1)
		}
		pos[p] = true
	}
	var ps []int
	for p := range pos {
		ps = append(ps, p)
	}
	sort.Ints(ps)
	for _, p := range ps {
		in := input{Kind: "tx", Universe: s.U.Txs, Events: append([]txsim.Event{}, evs[:p]...)}
		f := txsim.NewFacts()
		for _, e := range evs[:p] {
			f.Apply(s.U, e)
		}
		// sometimes the state additionally holds a lease (still running, or
		// expired but not swept) so that release / sweep have work to do
		var leased *[2]int64
		if r.Chance(1, 2) {
			var known [][2]int64
			for _, t := range s.U.Txs {
				if f.Known(t.ID) {
					for _, c := range t.Creds {
						known = append(known, [2]int64{t.ID, c[0]})
					}
				}
			}
			if len(known) > 0 {
				op := known[r.Intn(len(known))]
				leased = &op
				in.Events = append(in.Events, txsim.Event{K: "lease", ID: 1, Op: op, Dur: 500})
				if r.Chance(1, 2) {
					in.Events = append(in.Events, txsim.Event{K: "tick", Dt: 600})
				}
			}
		}
		// sometimes a transaction carries a label already (the label bucket exists)
		if len(s.U.Txs) > 0 && r.Chance(1, 3) {
			in.Events = append(in.Events, txsim.Event{K: "label", T: s.U.Txs[r.Intn(len(s.U.Txs))].ID, ID: 100 + int64(r.Range(1, 9))})
		}
		add := func(e txsim.Event) {
			if e.K == "tick" {
				return
			}
			if !f.EventOK(s.U, e) {
				return
			}
			for _, x := range in.TxOps {
				if js(x) == js(e) {
					return
				}
			}
			e.Label = ""
			in.TxOps = append(in.TxOps, e)
		}
		// the event the history continues with, and the next few chain events
		extra := 0
		for j := p; j < len(evs) && extra < 4; j++ {
			if j == p || evs[j].K == "seen" || evs[j].K == "confirm" || evs[j].K == "redeliver" {
				before := len(in.TxOps)
				add(evs[j])
				if len(in.TxOps) > before {
					extra++
				}
			}
		}
		// detach the tip block, and everything from a lower block on
		var heights []int64
		hs := map[int64]bool{}
		for _, b := range f.Conf {
			if !hs[b[0]] {
				hs[b[0]] = true
				heights = append(heights, b[0])
			}
		}
		sort.Slice(heights, func(i, j int) bool { return heights[i] > heights[j] })
		if len(heights) > 0 {
			add(txsim.Event{K: "disconnect", H: heights[0]})
			if len(heights) > 1 {
				add(txsim.Event{K: "disconnect", H: heights[r.Range(1, len(heights)-1)]})
			}
		} else {
			add(txsim.Event{K: "disconnect", H: 1})
		}
		// abandon unconfirmed transactions
		var uc []int64
		for t := range f.Unconf {
			uc = append(uc, t)
		}
		sort.Slice(uc, func(i, j int) bool { return uc[i] < uc[j] })
		for i := 0; i < len(uc) && i < 2; i++ {
			add(txsim.Event{K: "abandon", T: uc[r.Intn(len(uc))]})
		}
		// lease / release / sweep on a credited output of a known transaction
		var cands [][2]int64
		for _, t := range s.U.Txs {
			if f.Known(t.ID) {
				for _, c := range t.Creds {
					cands = append(cands, [2]int64{t.ID, c[0]})
				}
			}
		}
		if len(cands) > 0 {
			op := cands[r.Intn(len(cands))]
			if leased != nil {
				op = *leased
			}
			add(txsim.Event{K: "lease", ID: 1, Op: op, Dur: 1000})
			add(txsim.Event{K: "release", ID: 1, Op: op})
			add(txsim.Event{K: "release", ID: 2, Op: op})
		}
		add(txsim.Event{K: "sweep"})
		// labels: on a known transaction, on one the store does not hold, and
		// the two refused ones (empty, too long); creating the store again
		if len(s.U.Txs) > 0 {
			t := s.U.Txs[r.Intn(len(s.U.Txs))].ID
			in.TxOps = append(in.TxOps, txsim.Event{K: "label", T: t, ID: int64(r.Range(1, 9))})
			if r.Chance(1, 2) {
				in.TxOps = append(in.TxOps, txsim.Event{K: "label", T: t, ID: []int64{0, -1}[r.Intn(2)]})
			}
		}
		if r.Chance(1, 3) {
			in.TxOps = append(in.TxOps, txsim.Event{K: "create"})
		}
		if len(in.TxOps) == 0 {
			continue
		}
		out = append(out, in)
	}
	return out
}
