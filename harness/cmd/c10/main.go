// Command c10 injects a failure into every database write of every mutating
// operation of the REAL transaction store (wtxmgr) and address manager
// (waddrmgr), from states reached by generated histories (property C10).
//
// For a state S (a history prefix, replayed on a fresh bbolt file) and an
// operation O, on separate copies of the database file (fresh store / manager
// opened from each copy, so probes cannot contaminate each other):
//
//	clean run   O inside walletdb.Update, committed: n = number of mutating
//	            walletdb calls, result, observables afterwards;
//	for k=1..n  O with the k-th mutating call failing (internal/faultdb):
//	            - O must report an error            -> success_with_failed_write
//	            - after the rollback the file holds the same bucket tree
//	                                                -> database_changed_after_rollback
//	            - and every query answers as before -> memory_not_restored:<item>
//	            - O retried without fault gives the clean run's result and
//	              observables                       -> retry_differs
//
// Output: one JSON object per state:
//
//	{"in": state + operations, "obs": {"probes": [per operation: n, clean
//	 result, callee of every write, per-k outcome]}, "oracle": ["kind@site"...],
//	 "tags": [...]}
package main

import (
	"bytes"
	"encoding/json"
	"flag"
	"fmt"
	"io"
	"os"
	"os/exec"
	"path/filepath"
	"runtime"
	"runtime/pprof"
	"sort"
	"strings"
	"sync"
	"sync/atomic"

	"verifharness/internal/core"
	"verifharness/internal/gen"
	"verifharness/internal/txsim"
)

type input struct {
	Kind string `json:"kind"` // "tx" | "mgr"
	// transaction store
	Universe []*txsim.Tx   `json:"universe,omitempty"`
	Events   []txsim.Event `json:"events,omitempty"` // committed prefix
	TxOps    []txsim.Event `json:"txops,omitempty"`  // operations probed at the state
	// address manager
	MgrTxs [][]mop `json:"mgrtxs,omitempty"` // committed prefix: one list per db transaction
	MgrOps [][]mop `json:"mgrops,omitempty"` // operations probed (each list = one db transaction)
	// the probes run with the manager locked
	Locked bool `json:"locked,omitempty"`
	// the file holds nothing but the empty namespace bucket (probes of Create)
	Fresh bool `json:"fresh,omitempty"`
	// restrict the fault positions (shrunk replays); empty = all of 1..n
	Ks []int `json:"ks,omitempty"`
}

type kOut struct {
	K      int      `json:"k"`
	Err    bool     `json:"err"`   // the operation reported an error
	Fired  bool     `json:"fired"` // the selected write was reached
	Callee string   `json:"callee"`
	Call   int      `json:"call,omitempty"`  // index of the call of the transaction during which the fault fired
	Cats   []string `json:"cats"`            // categories of queries that answer differently after the rollback
	Below  []string `json:"below,omitempty"` // call sites the extractor could not classify that lie above the failing write
	Text   string   `json:"text,omitempty"`
	Kinds  []string `json:"kinds,omitempty"` // kind@site
	Detail []string `json:"detail,omitempty"`
}

type probe struct {
	Idx    int      `json:"idx"`  // index into txops / mgrops
	Name   string   `json:"name"` // operation name (distribution, site)
	N      int      `json:"n"`
	Clean  string   `json:"clean"` // "ok" | "err"
	Result string   `json:"result"`
	Calls  []string `json:"calls"` // Op:callee of every mutating call of the clean run
	Delta  adelta   `json:"delta"` // what the committed clean run changed in the file (abstract view)
	Ks     []kOut   `json:"ks"`
	Skip   string   `json:"skip,omitempty"`
}

type obsOut struct {
	State  *adump  `json:"state"` // the file the probes start from (abstract view)
	Probes []probe `json:"probes"`
}

type caseOut struct {
	In     input    `json:"in"`
	Obs    obsOut   `json:"obs"`
	Oracle []string `json:"oracle"`
	Tags   []string `json:"tags"`
}

// items is a set of named observables; the name up to the first ':' is the
// category used in the violation kind.
type items map[string]string

func (a items) diff(b items) []string {
	var out []string
	for k, v := range a {
		if w, ok := b[k]; !ok || w != v {
			out = append(out, k)
		}
	}
	for k := range b {
		if _, ok := a[k]; !ok {
			out = append(out, k)
		}
	}
	sort.Strings(out)
	return out
}

func category(item string) string {
	for i := 0; i < len(item); i++ {
		if item[i] == ':' {
			return item[:i]
		}
	}
	return item
}

func js(v interface{}) string {
	b, _ := json.Marshal(v)
	return string(b)
}

func copyFile(src, dst string) error {
	in, err := os.Open(src)
	if err != nil {
		return err
	}
	defer in.Close()
	out, err := os.Create(dst)
	if err != nil {
		return err
	}
	if _, err := io.Copy(out, in); err != nil {
		out.Close()
		return err
	}
	return out.Close()
}

// tempDir makes the work directory of one state.  A memory file system is
// preferred: every committed transaction ends in an fsync, and the check makes
// thousands of them on throw-away files.
func tempDir(pattern string) (string, error) {
	if st, err := os.Stat("/dev/shm"); err == nil && st.IsDir() {
		if d, err := os.MkdirTemp("/dev/shm", pattern); err == nil {
			return d, nil
		}
	}
	return os.MkdirTemp("", pattern)
}

func wantK(in *input, k int) bool {
	if len(in.Ks) == 0 {
		return true
	}
	for _, x := range in.Ks {
		if x == k {
			return true
		}
	}
	return false
}

func finish(co *caseOut) {
	seen := map[string]bool{}
	co.Oracle = []string{}
	tags := map[string]bool{"kind_" + co.In.Kind: true}
	if co.In.Locked {
		tags["manager_locked"] = true
	}
	if co.In.Fresh {
		tags["fresh_file"] = true
	}
	for _, p := range co.Obs.Probes {
		tags["op_"+p.Name] = true
		tags[fmt.Sprintf("writes_%s", bucketN(p.N))] = true
		if p.Clean == "err" {
			tags["clean_error"] = true
		}
		for _, k := range p.Ks {
			for _, kd := range k.Kinds {
				if !seen[kd] {
					seen[kd] = true
					co.Oracle = append(co.Oracle, kd)
				}
			}
		}
	}
	sort.Strings(co.Oracle)
	for t := range tags {
		co.Tags = append(co.Tags, t)
	}
	sort.Strings(co.Tags)
}

// watchedSites: the call sites the disposition reader of extract-c10 could not
// classify (ids of ./errflow_c10.json with disposition "unknown", written by
// lib/extract_c10.py into the work directory the check runs the harness in).
// For every fired fault the harness reports which of them lie above the
// failing write: the check decides such a site by the sweep.
var (
	watchOnce sync.Once
	watchIDs  []string
)

func watchedSites() []string {
	watchOnce.Do(func() {
		b, err := os.ReadFile("errflow_c10.json")
		if err != nil {
			return
		}
		var res struct {
			Sites []struct {
				ID      string `json:"id"`
				Disp    string `json:"disp"`
				Allowed string `json:"allowed"`
			} `json:"sites"`
		}
		if json.Unmarshal(b, &res) != nil {
			return
		}
		seen := map[string]bool{}
		for _, s := range res.Sites {
			if s.Disp == "unknown" && s.Allowed == "" && !seen[s.ID] {
				seen[s.ID] = true
				watchIDs = append(watchIDs, s.ID)
			}
		}
	})
	return watchIDs
}

// sitesBelow: which watched sites are on the chain of call sites of the failed call.
func sitesBelow(chain []string) []string {
	var out []string
	for _, w := range watchedSites() {
		alt := ""
		if i := strings.Index(w, ">"); i >= 0 && strings.Contains(w[i:], "(") {
			alt = w[:i] + ">(callback)"
		}
		for _, c := range chain {
			if c == w || (alt != "" && c == alt) {
				out = append(out, w)
				break
			}
		}
	}
	return out
}

// runInChild runs one state in a worker process (this binary, -child -replay).
func runInChild(in input) (*caseOut, error) {
	dir, err := tempDir("vh-c10-job-")
	if err != nil {
		return nil, err
	}
	defer os.RemoveAll(dir)
	job := filepath.Join(dir, "job.jsonl")
	b, err := json.Marshal(struct {
		In input `json:"in"`
	}{in})
	if err != nil {
		return nil, err
	}
	if err := os.WriteFile(job, append(b, '\n'), 0o600); err != nil {
		return nil, err
	}
	exe, err := os.Executable()
	if err != nil {
		return nil, err
	}
	cmd := exec.Command(exe, "-child", "-replay", job)
	// one state is sequential work; the forced collections are cheaper with few threads
	cmd.Env = append(os.Environ(), "GOMAXPROCS=2")
	var stderr bytes.Buffer
	cmd.Stderr = &stderr
	outb, err := cmd.Output()
	if err != nil {
		return nil, fmt.Errorf("worker process: %v: %s", err, strings.TrimSpace(stderr.String()))
	}
	co := &caseOut{}
	if err := json.Unmarshal(bytes.TrimSpace(outb), co); err != nil {
		return nil, fmt.Errorf("worker process output: %v", err)
	}
	return co, nil
}

func bucketN(n int) string {
	switch {
	case n == 0:
		return "0"
	case n <= 2:
		return "1-2"
	case n <= 5:
		return "3-5"
	case n <= 10:
		return "6-10"
	case n <= 20:
		return "11-20"
	case n <= 40:
		return "21-40"
	}
	return "41+"
}

func main() {
	var kind, cpuprof string
	var perHist int
	var child, inproc bool
	core.Main("c10", func(fs *flag.FlagSet) {
		fs.BoolVar(&child, "child", false, "internal: run the cases of the replay file as a worker process")
		fs.BoolVar(&inproc, "inproc", false, "run every state in this process (no worker processes)")
		fs.StringVar(&cpuprof, "cpuprofile", "", "write a CPU profile (development aid)")
		fs.StringVar(&kind, "kind", "both", "tx|mgr|both")
		fs.IntVar(&perHist, "states", 2, "states sampled per generated history")
	}, func(c *core.Common, out *core.Emitter) error {
		if cpuprof != "" {
			pf, err := os.Create(cpuprof)
			if err != nil {
				return err
			}
			if err := pprof.StartCPUProfile(pf); err != nil {
				return err
			}
			defer pprof.StopCPUProfile()
		}
		if c.Replay != "" {
			return core.ReadReplay(c.Replay, func(raw json.RawMessage) error {
				var cs struct {
					In input `json:"in"`
				}
				if err := json.Unmarshal(raw, &cs); err != nil {
					return err
				}
				var co *caseOut
				var err error
				switch cs.In.Kind {
				case "tx":
					co, err = runTxCase(cs.In)
				case "mgr":
					co, err = runMgrCase(cs.In)
				default:
					err = fmt.Errorf("unknown case kind %q", cs.In.Kind)
				}
				if err != nil {
					return err
				}
				if !child {
					co.Tags = append(co.Tags, "replay")
				}
				out.Emit(co)
				return nil
			})
		}
		// c.N = number of states in total; a manager state costs about ten
		// times a store state (every fresh manager derives its keys), so a
		// quarter of the states are manager states
		nMgr := (c.N + 3) / 4
		nTx := c.N - nMgr
		switch kind {
		case "tx":
			nTx, nMgr = c.N, 0
		case "mgr":
			nTx, nMgr = 0, c.N
		}
		var ins []input
		// the two creation probes do not depend on a history: once per run
		if kind != "mgr" {
			ins = append(ins, input{Kind: "tx", Fresh: true, TxOps: []txsim.Event{{K: "create"}}})
		}
		if kind != "tx" {
			ins = append(ins, input{Kind: "mgr", Fresh: true, MgrOps: [][]mop{{{K: "create"}}, {{K: "create", Wo: true}}}})
		}
		for i, done := 0, 0; done < nTx; i++ {
			r := gen.New(c.Seed, int64(10000+i))
			g := genTxStates(r, perHist, nTx-done)
			ins = append(ins, g...)
			done += len(g)
			if i > 50*nTx+100 {
				return fmt.Errorf("tx generator does not produce states")
			}
		}
		for i, done := 0, 0; done < nMgr; i++ {
			r := gen.New(c.Seed, int64(20000+i))
			g := genMgrStates(r, perHist, nMgr-done)
			ins = append(ins, g...)
			done += len(g)
			if i > 50*nMgr+100 {
				return fmt.Errorf("mgr generator does not produce states")
			}
		}
		// the states are independent: run them on a few workers, emit in order.
		// A manager state goes to a worker PROCESS: every fresh manager
		// derives its keys through snacl, which forces a garbage collection
		// that stops every goroutine of the process.
		outs := make([]*caseOut, len(ins))
		errs := make([]error, len(ins))
		workers := runtime.NumCPU()
		if workers > 12 {
			workers = 12
		}
		// the costly states first
		order := make([]int, 0, len(ins))
		for i := range ins {
			if ins[i].Kind == "mgr" {
				order = append(order, i)
			}
		}
		for i := range ins {
			if ins[i].Kind != "mgr" {
				order = append(order, i)
			}
		}
		var wg sync.WaitGroup
		next := int64(-1)
		for w := 0; w < workers; w++ {
			wg.Add(1)
			go func() {
				defer wg.Done()
				for {
					j := int(atomic.AddInt64(&next, 1))
					if j >= len(order) {
						return
					}
					i := order[j]
					switch {
					case ins[i].Kind == "tx":
						outs[i], errs[i] = runTxCase(ins[i])
					case inproc:
						outs[i], errs[i] = runMgrCase(ins[i])
					default:
						outs[i], errs[i] = runInChild(ins[i])
					}
				}
			}()
		}
		wg.Wait()
		for i := range ins {
			if errs[i] != nil {
				return errs[i]
			}
			out.Emit(outs[i])
		}
		return nil
	})
}
