package main

// Abstract view of the database file, in the terms of the Coq model
// (coq/Fault/FaultTx.v, coq/Fault/FaultMgr.v): bucket numbers, integer keys,
// integer values.  What cannot be decoded without a key (ciphertexts) is
// reduced to its presence; times of day are dropped.  The check compares the
// state a case starts from and the change the committed clean run of every
// probed operation makes with the model's store (property C10, review (e):
// final bucket contents instead of the number of writes).

import (
	"bytes"
	"crypto/sha256"
	"encoding/binary"
	"fmt"
	"sort"
	"strconv"
	"strings"

	"github.com/btcsuite/btcd/chaincfg/chainhash"
	"github.com/btcsuite/btcwallet/waddrmgr"
	"github.com/btcsuite/btcwallet/walletdb"

	"verifharness/internal/txsim"
)

type arow struct {
	B int64   `json:"b"`
	K []int64 `json:"k"`
	V []int64 `json:"v"`
}

type adump struct {
	Rows    []arow  `json:"rows"`
	Buckets []int64 `json:"buckets"`
}

func (r arow) id() string  { return fmt.Sprint(r.B, r.K) }
func (r arow) all() string { return fmt.Sprint(r.B, r.K, r.V) }

// adelta: rows added or changed, rows removed, buckets created / deleted.
type adelta struct {
	Put   []arow  `json:"put"`
	Del   []arow  `json:"del"`
	NewB  []int64 `json:"newb"`
	GoneB []int64 `json:"goneb"`
}

func diffDumps(a, b *adump) adelta {
	d := adelta{Put: []arow{}, Del: []arow{}, NewB: []int64{}, GoneB: []int64{}}
	am, bm := map[string]arow{}, map[string]arow{}
	for _, r := range a.Rows {
		am[r.id()] = r
	}
	for _, r := range b.Rows {
		bm[r.id()] = r
		if o, ok := am[r.id()]; !ok || o.all() != r.all() {
			d.Put = append(d.Put, r)
		}
	}
	for _, r := range a.Rows {
		if _, ok := bm[r.id()]; !ok {
			d.Del = append(d.Del, r)
		}
	}
	ab, bb := map[int64]bool{}, map[int64]bool{}
	for _, x := range a.Buckets {
		ab[x] = true
	}
	for _, x := range b.Buckets {
		bb[x] = true
		if !ab[x] {
			d.NewB = append(d.NewB, x)
		}
	}
	for _, x := range a.Buckets {
		if !bb[x] {
			d.GoneB = append(d.GoneB, x)
		}
	}
	return d
}

func (d *adump) add(b int64, k, v []int64) {
	if k == nil {
		k = []int64{}
	}
	if v == nil {
		v = []int64{}
	}
	d.Rows = append(d.Rows, arow{b, k, v})
}

func (d *adump) finish() *adump {
	sort.Slice(d.Rows, func(i, j int) bool { return d.Rows[i].id() < d.Rows[j].id() })
	sort.Slice(d.Buckets, func(i, j int) bool { return d.Buckets[i] < d.Buckets[j] })
	if d.Rows == nil {
		d.Rows = []arow{}
	}
	if d.Buckets == nil {
		d.Buckets = []int64{}
	}
	return d
}

// undecodable marks a key / value the decoder does not understand: it can
// never equal anything the model holds.
func undecodable(b []byte) []int64 {
	out := []int64{-777}
	for i := 0; i < len(b) && i < 4; i++ {
		out = append(out, int64(b[i]))
	}
	return out
}

func be32(b []byte) int64 { return int64(int32(binary.BigEndian.Uint32(b))) }
func be64(b []byte) int64 { return int64(binary.BigEndian.Uint64(b)) }
func le32(b []byte) int64 { return int64(binary.LittleEndian.Uint32(b)) }

// ---------------------------------------------------------------- wtxmgr

const (
	bRoot = iota
	bBlocks
	bTxRecords
	bCredits
	bUnspent
	bDebits
	bUnmined
	bUnminedCredits
	bUnminedInputs
	bLocked
	bLabels
)

var txBucketNo = map[string]int64{"b": bBlocks, "t": bTxRecords, "c": bCredits, "u": bUnspent, "d": bDebits,
	"m": bUnmined, "mc": bUnminedCredits, "mi": bUnminedInputs, "lo": bLocked, "l": bLabels}

type txIDs struct {
	u      *txsim.Universe
	ext    map[chainhash.Hash]int64
	blocks txsim.BlockIDs
}

func newTxIDs(u *txsim.Universe, blocks txsim.BlockIDs) *txIDs {
	x := &txIDs{u: u, ext: map[chainhash.Hash]int64{}, blocks: blocks}
	for _, t := range u.Txs {
		for _, in := range t.Ins {
			if u.Get(in[0]) == nil {
				x.ext[u.HashOf(in[0])] = in[0]
			}
		}
	}
	return x
}

func (x *txIDs) tx(b []byte) int64 {
	var h chainhash.Hash
	copy(h[:], b)
	if id := x.u.IDOf(h); id != 0 {
		return id
	}
	if id, ok := x.ext[h]; ok {
		return id
	}
	if h == (chainhash.Hash{}) {
		return 0
	}
	return -777000 - int64(b[0])
}

func (x *txIDs) block(b []byte) int64 {
	var h chainhash.Hash
	copy(h[:], b)
	if id, ok := x.blocks[h]; ok {
		return id
	}
	return -777000 - int64(b[0])
}

func labelID(s string) int64 {
	if strings.HasPrefix(s, "c10-label-") {
		if n, err := strconv.ParseInt(s[len("c10-label-"):], 10, 64); err == nil {
			return n
		}
	}
	return -777
}

// dumpTxStore: the abstract content of the wtxmgr namespace.
func dumpTxStore(db walletdb.DB, x *txIDs) (*adump, error) {
	d := &adump{}
	err := walletdb.View(db, func(tx walletdb.ReadTx) error {
		ns := tx.ReadBucket(txNS)
		if ns == nil {
			return nil
		}
		d.Buckets = append(d.Buckets, bRoot)
		return ns.ForEach(func(k, v []byte) error {
			if v != nil {
				switch string(k) {
				case "bal":
					d.add(bRoot, []int64{0}, []int64{be64(v)})
				case "vers":
					d.add(bRoot, []int64{1}, nil)
				case "date":
					d.add(bRoot, []int64{2}, nil)
				default:
					d.add(bRoot, undecodable(k), nil)
				}
				return nil
			}
			no, ok := txBucketNo[string(k)]
			if !ok {
				d.Buckets = append(d.Buckets, -777)
				return nil
			}
			d.Buckets = append(d.Buckets, no)
			return ns.NestedReadBucket(k).ForEach(func(k, v []byte) error {
				d.add(no, x.txKey(no, k), x.txVal(no, v))
				return nil
			})
		})
	})
	return d.finish(), err
}

func (x *txIDs) txKey(no int64, k []byte) []int64 {
	switch {
	case no == bBlocks && len(k) == 4:
		return []int64{be32(k)}
	case no == bTxRecords && len(k) == 68:
		return []int64{x.tx(k[:32]), be32(k[32:36]), x.block(k[36:68])}
	case (no == bCredits || no == bDebits) && len(k) == 72:
		return []int64{x.tx(k[:32]), be32(k[32:36]), x.block(k[36:68]), int64(binary.BigEndian.Uint32(k[68:72]))}
	case (no == bUnspent || no == bUnminedCredits || no == bUnminedInputs || no == bLocked) && len(k) == 36:
		return []int64{x.tx(k[:32]), int64(binary.BigEndian.Uint32(k[32:36]))}
	case (no == bUnmined || no == bLabels) && len(k) == 32:
		return []int64{x.tx(k)}
	}
	return undecodable(k)
}

func (x *txIDs) txVal(no int64, v []byte) []int64 {
	switch {
	case no == bBlocks && len(v) >= 44 && (len(v)-44)%32 == 0:
		out := []int64{x.block(v[:32]), be64(v[32:40])}
		for o := 44; o < len(v); o += 32 {
			out = append(out, x.tx(v[o:o+32]))
		}
		return out
	case no == bTxRecords && len(v) > 8:
		// received time + serialized transaction: which transaction it is, is in the key
		return []int64{-1}
	case no == bCredits && len(v) >= 9:
		return []int64{be64(v[:8]), int64(v[8] & 1), int64((v[8] >> 1) & 1)}
	case no == bUnspent && len(v) == 36:
		return []int64{be32(v[:4]), x.block(v[4:36])}
	case no == bDebits && len(v) == 80:
		ck := v[8:80]
		return []int64{be64(v[:8]), x.tx(ck[:32]), be32(ck[32:36]), x.block(ck[36:68]), int64(binary.BigEndian.Uint32(ck[68:72]))}
	case no == bUnmined && len(v) > 8:
		return []int64{-1}
	case no == bUnminedCredits && len(v) == 9:
		return []int64{be64(v[:8]), int64((v[8] >> 1) & 1)}
	case no == bUnminedInputs && len(v)%32 == 0:
		out := []int64{}
		for o := 0; o < len(v); o += 32 {
			out = append(out, x.tx(v[o:o+32]))
		}
		return out
	case no == bLocked && len(v) == 40:
		return []int64{int64(v[0]), (be64(v[32:40]) - txsim.Epoch.Unix()) * 1000}
	case no == bLabels && len(v) >= 2:
		return []int64{labelID(string(v[2:]))}
	}
	return undecodable(v)
}

// fixTxRecordValues: the model stores the transaction id as the value of a
// record ([t]); the decoder above cannot know it from the value alone.
func fixTxRecordValues(d *adump) *adump {
	for i, r := range d.Rows {
		if (r.B == bTxRecords || r.B == bUnmined) && len(r.V) == 1 && r.V[0] == -1 && len(r.K) > 0 {
			d.Rows[i].V = []int64{r.K[0]}
		}
	}
	return d
}

// ---------------------------------------------------------------- waddrmgr

const (
	gNS      = 9
	gMain    = 10
	gSync    = 11
	gScope   = 12
	gSchemas = 13
)

// what waddrmgr.Create stores for mgrBirthday (48 hours of margin)
const birthdayBase = 1600000000 - 48*3600

func sbNo(sc, off int64) int64    { return 100 + 16*sc + off }
func acctSubNo(sc, a int64) int64 { return 1000000*(sc+1) + a + 1 }

var mainKeyNo = map[string]int64{"mpriv": 1, "mpub": 2, "cpriv": 3, "cscript": 4, "cpub": 5, "watchonly": 6,
	"mhdpriv": 7, "mhdpub": 8, "mgrver": 9, "mgrcreated": 10}
var syncKeyNo = map[string]int64{"syncedto": -1, "startblock": -2, "birthdayblock": -3, "birthdayblockverified": -4, "birthday": -5}
var scopeSubNo = map[string]int64{"acct": 1, "addr": 2, "usedaddrs": 3, "addracctidx": 4, "acctnameidx": 5, "acctididx": 6, "meta": 7}

func acctNo(a uint32) int64 {
	if a == waddrmgr.ImportedAddrAccount {
		return -1
	}
	return int64(a)
}

func nameID(s string) int64 {
	switch s {
	case "":
		return 0
	case waddrmgr.ImportedAddrAccountName:
		return 1
	case "default":
		return 2
	}
	if strings.HasPrefix(s, "acct") {
		if n, err := strconv.ParseInt(s[4:], 10, 64); err == nil {
			return n
		}
	}
	if strings.HasPrefix(s, "act:") {
		if n, err := strconv.ParseInt(s[4:], 10, 64); err == nil {
			return 1000 + n
		}
	}
	return -777
}

func hashNo(b []byte) int64 {
	var h chainhash.Hash
	copy(h[:], b)
	return int64(hashID(h))
}

// mgrIDs resolves the hashes under which addresses are stored back to paths.
type mgrIDs struct {
	paths map[[32]byte]path4
}

func (x *mgrIDs) path(k []byte) []int64 {
	var h [32]byte
	copy(h[:], k)
	if p, ok := x.paths[h]; ok && len(k) == 32 {
		return []int64{p[0], p[1], p[2], p[3]}
	}
	return undecodable(k)
}

func scopeNoOfKey(k []byte) int64 {
	if len(k) != 8 {
		return -777
	}
	s := waddrmgr.KeyScope{Purpose: binary.LittleEndian.Uint32(k[:4]), Coin: binary.LittleEndian.Uint32(k[4:])}
	return int64(scopeID(s))
}

func decodeAccountRow(v []byte) []int64 {
	if len(v) < 5 {
		return undecodable(v)
	}
	typ := v[0]
	raw := v[5:]
	if int(le32(v[1:5])) != len(raw) {
		return undecodable(v)
	}
	rd := bytes.NewReader(raw)
	u32 := func() (uint32, bool) {
		var b [4]byte
		if _, err := rd.Read(b[:]); err != nil {
			return 0, false
		}
		return binary.LittleEndian.Uint32(b[:]), true
	}
	skip := func(n uint32) bool {
		if int64(n) > int64(rd.Len()) {
			return false
		}
		rd.Seek(int64(n), 1)
		return true
	}
	pubLen, ok := u32()
	if !ok || !skip(pubLen) {
		return undecodable(v)
	}
	kind := int64(2)
	if typ == 0 {
		privLen, ok := u32()
		if !ok || !skip(privLen) {
			return undecodable(v)
		}
		kind = 1
		if privLen > 0 {
			kind = 0
		}
	} else {
		if _, ok := u32(); !ok { // master key fingerprint
			return undecodable(v)
		}
	}
	ne, ok1 := u32()
	ni, ok2 := u32()
	nl, ok3 := u32()
	if !ok1 || !ok2 || !ok3 || int64(nl) > int64(rd.Len()) {
		return undecodable(v)
	}
	name := make([]byte, nl)
	rd.Read(name)
	return []int64{int64(ne), int64(ni), nameID(string(name)), kind}
}

func decodeAddressRow(v []byte) []int64 {
	if len(v) < 18 {
		return undecodable(v)
	}
	typ := v[0]
	acct := acctNo(binary.LittleEndian.Uint32(v[1:5]))
	raw := v[18:]
	if int(le32(v[14:18])) != len(raw) {
		return undecodable(v)
	}
	second := func(off int) int64 { // length of the second length-prefixed field
		if len(raw) < off+4 {
			return -1
		}
		l1 := int(le32(raw[off : off+4]))
		if len(raw) < off+4+l1+4 {
			return -1
		}
		return le32(raw[off+4+l1 : off+8+l1])
	}
	secret := int64(0)
	switch typ {
	case 0: // chained
	case 1, 2: // imported key: private key present; script: script present
		n := second(0)
		if n < 0 {
			return undecodable(v)
		}
		if n > 0 {
			secret = 1
		}
	case 3, 4: // witness / taproot script
		if len(raw) < 2 {
			return undecodable(v)
		}
		n := second(2)
		if n < 0 {
			return undecodable(v)
		}
		if raw[1] == 1 && n > 0 {
			secret = 1
		}
	default:
		return undecodable(v)
	}
	return []int64{acct, secret}
}

func parseName(v []byte) int64 {
	if len(v) < 4 || int(le32(v[:4])) != len(v)-4 {
		return -777
	}
	return nameID(string(v[4:]))
}

// dumpMgr: the abstract content of the waddrmgr namespace.
func dumpMgr(db walletdb.DB, x *mgrIDs) (*adump, error) {
	d := &adump{}
	err := walletdb.View(db, func(tx walletdb.ReadTx) error {
		ns := tx.ReadBucket(mgrNS)
		if ns == nil {
			return nil
		}
		d.Buckets = append(d.Buckets, gNS)
		return ns.ForEach(func(k, v []byte) error {
			if v != nil {
				d.add(gNS, undecodable(k), nil)
				return nil
			}
			b := ns.NestedReadBucket(k)
			switch string(k) {
			case "main":
				d.Buckets = append(d.Buckets, gMain)
				return b.ForEach(func(k, v []byte) error {
					no, ok := mainKeyNo[string(k)]
					switch {
					case !ok:
						d.add(gMain, undecodable(k), nil)
					case no == 6 && len(v) == 1:
						d.add(gMain, []int64{no}, []int64{int64(v[0])})
					default:
						d.add(gMain, []int64{no}, nil)
					}
					return nil
				})
			case "sync":
				d.Buckets = append(d.Buckets, gSync)
				return b.ForEach(func(k, v []byte) error {
					no, ok := syncKeyNo[string(k)]
					switch {
					case ok && no == -1 && len(v) == 40:
						d.add(gSync, []int64{no}, []int64{le32(v[:4]), hashNo(v[4:36])})
					case ok && no == -2 && len(v) == 36:
						d.add(gSync, []int64{no}, []int64{le32(v[:4])})
					case ok && no == -3 && len(v) == 44:
						d.add(gSync, []int64{no}, []int64{be32(v[:4]), hashNo(v[4:36])})
					case ok && no == -4 && len(v) == 2:
						d.add(gSync, []int64{no}, []int64{int64(binary.BigEndian.Uint16(v))})
					case ok && no == -5 && len(v) == 8:
						// relative to what Create stores for the harness's birthday
						d.add(gSync, []int64{no}, []int64{be64(v) - birthdayBase})
					case !ok && len(k) == 4 && len(v) == 32:
						d.add(gSync, []int64{be32(k)}, []int64{hashNo(v)})
					default:
						d.add(gSync, undecodable(k), undecodable(v))
					}
					return nil
				})
			case "scope-schema":
				d.Buckets = append(d.Buckets, gSchemas)
				return b.ForEach(func(k, v []byte) error {
					d.add(gSchemas, []int64{scopeNoOfKey(k)}, nil)
					return nil
				})
			case "scope":
				d.Buckets = append(d.Buckets, gScope)
				return b.ForEach(func(k, v []byte) error {
					if v != nil {
						d.add(gScope, undecodable(k), nil)
						return nil
					}
					return dumpScope(d, b.NestedReadBucket(k), scopeNoOfKey(k), x)
				})
			}
			d.Buckets = append(d.Buckets, -777)
			return nil
		})
	})
	return d.finish(), err
}

func dumpScope(d *adump, b walletdb.ReadBucket, sc int64, x *mgrIDs) error {
	d.Buckets = append(d.Buckets, sbNo(sc, 0))
	return b.ForEach(func(k, v []byte) error {
		if v != nil {
			switch string(k) {
			case "ctpub":
				d.add(sbNo(sc, 0), []int64{1}, nil)
			case "ctpriv":
				d.add(sbNo(sc, 0), []int64{2}, nil)
			default:
				d.add(sbNo(sc, 0), undecodable(k), nil)
			}
			return nil
		}
		off, ok := scopeSubNo[string(k)]
		if !ok {
			d.Buckets = append(d.Buckets, -777)
			return nil
		}
		no := sbNo(sc, off)
		d.Buckets = append(d.Buckets, no)
		sub := b.NestedReadBucket(k)
		return sub.ForEach(func(k, v []byte) error {
			switch off {
			case 1: // acct: account number -> row
				if len(k) != 4 {
					d.add(no, undecodable(k), nil)
					return nil
				}
				d.add(no, []int64{acctNo(binary.LittleEndian.Uint32(k))}, decodeAccountRow(v))
			case 2: // addr
				d.add(no, x.path(k), decodeAddressRow(v))
			case 3: // used
				d.add(no, x.path(k), []int64{0})
			case 4: // address -> account index, and one bucket per account
				if v == nil {
					if len(k) != 4 {
						d.Buckets = append(d.Buckets, -777)
						return nil
					}
					an := acctSubNo(sc, acctNo(binary.LittleEndian.Uint32(k)))
					d.Buckets = append(d.Buckets, an)
					return sub.NestedReadBucket(k).ForEach(func(k, v []byte) error {
						d.add(an, x.path(k), nil)
						return nil
					})
				}
				if len(v) != 4 {
					d.add(no, x.path(k), undecodable(v))
					return nil
				}
				d.add(no, x.path(k), []int64{acctNo(binary.LittleEndian.Uint32(v))})
			case 5: // name -> account
				if len(v) != 4 {
					d.add(no, []int64{parseName(k)}, undecodable(v))
					return nil
				}
				d.add(no, []int64{parseName(k)}, []int64{acctNo(binary.LittleEndian.Uint32(v))})
			case 6: // account -> name
				if len(k) != 4 {
					d.add(no, undecodable(k), nil)
					return nil
				}
				d.add(no, []int64{acctNo(binary.LittleEndian.Uint32(k))}, []int64{parseName(v)})
			case 7: // meta
				if string(k) == "lastaccount" && len(v) == 4 {
					d.add(no, []int64{0}, []int64{acctNo(binary.LittleEndian.Uint32(v))})
				} else {
					d.add(no, undecodable(k), nil)
				}
			}
			return nil
		})
	})
}

func addrHashOf(scriptAddress []byte) [32]byte { return sha256.Sum256(scriptAddress) }
