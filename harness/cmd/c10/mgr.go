package main

import (
	"bytes"
	"crypto/sha256"
	"encoding/binary"
	"errors"
	"fmt"
	"os"
	"path/filepath"
	"sort"
	"strings"
	"sync"
	"sync/atomic"
	"time"

	"github.com/btcsuite/btcd/btcec/v2"
	"github.com/btcsuite/btcd/btcec/v2/schnorr"
	"github.com/btcsuite/btcd/btcutil"
	"github.com/btcsuite/btcd/btcutil/hdkeychain"
	"github.com/btcsuite/btcd/chaincfg"
	"github.com/btcsuite/btcd/chaincfg/chainhash"
	"github.com/btcsuite/btcd/txscript"
	"github.com/btcsuite/btcwallet/waddrmgr"
	"github.com/btcsuite/btcwallet/walletdb"

	"verifharness/internal/faultdb"
	"verifharness/internal/gen"
)

// ---------------------------------------------------------------- operations

// mop is one manager call in model terms.
//
//	K: newscope newacct newacctwo newrawacctwo rename next extend markused
//	   impkey impscript imppub impwit imptap setsynced setbdayblock setbirthday
//	   chpass convertwo create
type mop struct {
	K    string `json:"k"`
	Sc   int    `json:"sc"`             // scope id (0 BIP84, 1 BIP44, 2 BIP49+, 3 BIP86, 4.. custom)
	Acct int64  `json:"acct,omitempty"` // account number (-1: imported)
	Name int    `json:"name,omitempty"` // interned account name
	Br   int64  `json:"br,omitempty"`   // 0 external, 1 internal
	N    int64  `json:"n,omitempty"`    // next: count; extend: last index
	Idx  int64  `json:"idx,omitempty"`  // markused: index; impkey/impscript: key id
	Imp  int    `json:"imp,omitempty"`  // markused: 0 chained, 1 imported key, 2 imported script
	H    int32  `json:"h,omitempty"`
	Hash int    `json:"hash,omitempty"`
	T    int64  `json:"t,omitempty"`
	Ver  bool   `json:"ver,omitempty"`
	Priv bool   `json:"priv,omitempty"`
	Old  int    `json:"old,omitempty"` // chpass: old / new passphrase ids
	New  int    `json:"new,omitempty"`
	Sec  bool   `json:"sec,omitempty"` // impwit / imptap: isSecretScript
	Wo   bool   `json:"wo,omitempty"`  // create: without root key (watching-only)
}

// kinds of imported addresses (third component of their path)
const (
	kImpKey = iota
	kImpScript
	kImpPub
	kImpWit
	kImpTap
)

var impKindOf = map[string]int64{"impkey": kImpKey, "impscript": kImpScript, "imppub": kImpPub, "impwit": kImpWit, "imptap": kImpTap}

var (
	mgrParams    = &chaincfg.MainNetParams
	mgrSeed      = bytes.Repeat([]byte{0x10, 0xc1, 0x0f, 0xa7}, 8)
	mgrNS        = []byte("waddrmgr")
	mgrBirthday  = time.Unix(1600000000, 0)
	customSchema = waddrmgr.ScopeAddrSchema{ExternalAddrType: waddrmgr.WitnessPubKey, InternalAddrType: waddrmgr.WitnessPubKey}
)

const (
	impScope  = 1 // imports go to the BIP44 scope (P2PKH keys, P2SH scripts)
	nImpKeys  = 3
	nImpScrs  = 2
	maxScopes = 6
)

var nImp = map[int64]int64{kImpKey: nImpKeys, kImpScript: nImpScrs, kImpPub: 2, kImpWit: 2, kImpTap: 2}

// the account public key handed to NewAccountWatchingOnly: account k of a
// key tree that is not the wallet's
func foreignXpub(k uint32) (*hdkeychain.ExtendedKey, error) {
	root, err := hdkeychain.NewMaster(bytes.Repeat([]byte{0xf0, 0x4e, 0x16, 0x17}, 8), mgrParams)
	if err != nil {
		return nil, err
	}
	key := root
	for _, i := range []uint32{hdkeychain.HardenedKeyStart + 84, hdkeychain.HardenedKeyStart, hdkeychain.HardenedKeyStart + k} {
		key, err = key.Derive(i)
		if err != nil {
			return nil, err
		}
	}
	return key.Neuter()
}

func scopeOf(id int) waddrmgr.KeyScope {
	switch id {
	case 0:
		return waddrmgr.KeyScopeBIP0084
	case 1:
		return waddrmgr.KeyScopeBIP0044
	case 2:
		return waddrmgr.KeyScopeBIP0049Plus
	case 3:
		return waddrmgr.KeyScopeBIP0086
	}
	return waddrmgr.KeyScope{Purpose: uint32(1013 + id), Coin: 0}
}

func scopeID(s waddrmgr.KeyScope) int {
	for i := 0; i < maxScopes; i++ {
		if scopeOf(i) == s {
			return i
		}
	}
	return -1
}

func nameOf(id int) string {
	if id >= 1000 {
		return fmt.Sprintf("act:%d", id-1000)
	}
	switch id {
	case 0:
		return ""
	case 1:
		return waddrmgr.ImportedAddrAccountName
	case 2:
		return "default"
	}
	return fmt.Sprintf("acct%d", id)
}

func passOf(priv bool, id int) []byte {
	if priv {
		return []byte(fmt.Sprintf("c10-private-%d", id))
	}
	return []byte(fmt.Sprintf("c10-public-%d", id))
}

func hashOf(id int) chainhash.Hash {
	if id == 0 {
		return *mgrParams.GenesisHash
	}
	var h chainhash.Hash
	copy(h[:4], "C10H")
	binary.LittleEndian.PutUint32(h[4:8], uint32(id))
	return h
}

func hashID(h chainhash.Hash) int {
	if h == *mgrParams.GenesisHash {
		return 0
	}
	if string(h[:4]) == "C10H" {
		return int(binary.LittleEndian.Uint32(h[4:8]))
	}
	return -1
}

func impKey(i int64) (*btcutil.WIF, btcutil.Address, error) {
	d := sha256.Sum256([]byte(fmt.Sprintf("c10-key-%d", i)))
	priv, _ := btcec.PrivKeyFromBytes(d[:])
	wif, err := btcutil.NewWIF(priv, mgrParams, true)
	if err != nil {
		return nil, nil, err
	}
	a, err := btcutil.NewAddressPubKeyHash(btcutil.Hash160(priv.PubKey().SerializeCompressed()), mgrParams)
	return wif, a, err
}

func impScript(i int64) ([]byte, btcutil.Address, error) {
	s, err := txscript.NewScriptBuilder().AddInt64(i + 2).AddOp(txscript.OP_DROP).AddOp(txscript.OP_TRUE).Script()
	if err != nil {
		return nil, nil, err
	}
	a, err := btcutil.NewAddressScriptHash(s, mgrParams)
	return s, a, err
}

func impPub(i int64) (*btcec.PublicKey, btcutil.Address, error) {
	d := sha256.Sum256([]byte(fmt.Sprintf("c10-pubkey-%d", i)))
	priv, _ := btcec.PrivKeyFromBytes(d[:])
	a, err := btcutil.NewAddressPubKeyHash(btcutil.Hash160(priv.PubKey().SerializeCompressed()), mgrParams)
	return priv.PubKey(), a, err
}

func impWitScript(i int64) ([]byte, btcutil.Address, error) {
	s, err := txscript.NewScriptBuilder().AddInt64(i + 7).AddOp(txscript.OP_DROP).AddOp(txscript.OP_TRUE).Script()
	if err != nil {
		return nil, nil, err
	}
	d := sha256.Sum256(s)
	a, err := btcutil.NewAddressWitnessScriptHash(d[:], mgrParams)
	return s, a, err
}

func impTapscript(i int64) (*waddrmgr.Tapscript, btcutil.Address, error) {
	s, err := txscript.NewScriptBuilder().AddInt64(i + 11).AddOp(txscript.OP_DROP).AddOp(txscript.OP_TRUE).Script()
	if err != nil {
		return nil, nil, err
	}
	leaf := txscript.NewBaseTapLeaf(s)
	d := sha256.Sum256([]byte(fmt.Sprintf("c10-tapkey-%d", i)))
	priv, _ := btcec.PrivKeyFromBytes(d[:])
	ik := priv.PubKey()
	ts := &waddrmgr.Tapscript{Type: waddrmgr.TapscriptTypeFullTree,
		ControlBlock: &txscript.ControlBlock{InternalKey: ik}, Leaves: []txscript.TapLeaf{leaf}}
	tree := txscript.AssembleTaprootScriptTree(leaf)
	rh := tree.RootNode.TapHash()
	ok := txscript.ComputeTaprootOutputKey(ik, rh[:])
	a, err := btcutil.NewAddressTaproot(schnorr.SerializePubKey(ok), mgrParams)
	return ts, a, err
}

func impAddr(kind, i int64) (btcutil.Address, error) {
	var a btcutil.Address
	var err error
	switch kind {
	case kImpKey:
		_, a, err = impKey(i)
	case kImpScript:
		_, a, err = impScript(i)
	case kImpPub:
		_, a, err = impPub(i)
	case kImpWit:
		_, a, err = impWitScript(i)
	default:
		_, a, err = impTapscript(i)
	}
	return a, err
}

func errClass(err error) string {
	if err == nil {
		return ""
	}
	var me waddrmgr.ManagerError
	if errors.As(err, &me) {
		return "mgr:" + me.ErrorCode.String()
	}
	if errors.Is(err, faultdb.ErrInjected) {
		return "injected"
	}
	s := err.Error()
	if len(s) > 60 {
		s = s[:60]
	}
	return "other:" + s
}

func mopName(o mop) string {
	switch o.K {
	case "newscope":
		return "NewScopedKeyManager"
	case "newacct":
		return "NewAccount"
	case "newacctwo":
		return "NewAccountWatchingOnly"
	case "newrawacctwo":
		return "NewRawAccountWatchingOnly"
	case "imppub":
		return "ImportPublicKey"
	case "impwit":
		return "ImportWitnessScript"
	case "imptap":
		return "ImportTaprootScript"
	case "convertwo":
		return "ConvertToWatchingOnly"
	case "create":
		return "waddrmgr.Create"
	case "rename":
		return "RenameAccount"
	case "next":
		if o.Br == 1 {
			return "NextInternalAddresses"
		}
		return "NextExternalAddresses"
	case "extend":
		if o.Br == 1 {
			return "ExtendInternalAddresses"
		}
		return "ExtendExternalAddresses"
	case "markused":
		return "MarkUsed"
	case "impkey":
		return "ImportPrivateKey"
	case "impscript":
		return "ImportScript"
	case "setsynced":
		return "SetSyncedTo"
	case "setbdayblock":
		return "SetBirthdayBlock"
	case "setbirthday":
		return "SetBirthday"
	case "chpass":
		if o.Priv {
			return "ChangePassphrase(private)"
		}
		return "ChangePassphrase(public)"
	}
	return o.K
}

// what the locked manager must refuse before any write
func refusedWhenLocked(o mop) bool {
	switch o.K {
	case "newscope", "newacct", "impkey", "impscript":
		return true
	case "impwit", "imptap":
		return o.Sec
	}
	return false
}

func mopsName(ops []mop) string {
	var ns []string
	for _, o := range ops {
		ns = append(ns, mopName(o))
	}
	return strings.Join(ns, "+")
}

// ---------------------------------------------------------------- facts (pure simulation)

type path4 [4]int64 // sc, acct, branch, index (imports: sc, -1, kind 0/1, id)

type gfacts struct {
	scopes   map[int]bool
	accts    map[int][]int64
	next     map[[3]int64]int64
	nameOfA  map[[2]int64]int
	names    map[int]map[int]bool
	lastAcct map[int]int64
	issued   []path4
	used     map[path4]bool
	imported map[path4]bool
	synced   int32
	bdaySet  bool
	priv     int
	pub      int
}

func newFacts() *gfacts {
	f := &gfacts{scopes: map[int]bool{}, accts: map[int][]int64{}, next: map[[3]int64]int64{}, nameOfA: map[[2]int64]int{},
		names: map[int]map[int]bool{}, lastAcct: map[int]int64{}, used: map[path4]bool{}, imported: map[path4]bool{}}
	for sc := 0; sc < 4; sc++ {
		f.addScope(sc)
		f.lastAcct[sc] = 0
	}
	return f
}

func (f *gfacts) addScope(sc int) {
	f.scopes[sc] = true
	f.accts[sc] = []int64{0}
	f.names[sc] = map[int]bool{1: true, 2: true}
	f.nameOfA[[2]int64{int64(sc), 0}] = 2
	f.lastAcct[sc] = 0 // createManagerKeyScope records the default account as last account
}

func (f *gfacts) hasAcct(sc int, a int64) bool {
	for _, x := range f.accts[sc] {
		if x == a {
			return true
		}
	}
	return false
}

// apply mirrors the effect of a successful call; returns false when the call
// is expected to be refused.
func (f *gfacts) apply(o mop) bool {
	switch o.K {
	case "newscope":
		if f.scopes[o.Sc] {
			return false
		}
		f.addScope(o.Sc)
	case "newrawacctwo":
		name := 1000 + int(o.Acct)
		if !f.scopes[o.Sc] || f.names[o.Sc][name] {
			return false
		}
		f.lastAcct[o.Sc] = o.Acct
		if !f.hasAcct(o.Sc, o.Acct) {
			f.accts[o.Sc] = append(f.accts[o.Sc], o.Acct)
		}
		f.names[o.Sc][name] = true
		f.nameOfA[[2]int64{int64(o.Sc), o.Acct}] = name
		f.next[[3]int64{int64(o.Sc), o.Acct, 0}] = 0
		f.next[[3]int64{int64(o.Sc), o.Acct, 1}] = 0
	case "newacct", "newacctwo":
		if !f.scopes[o.Sc] || f.names[o.Sc][o.Name] || o.Name < 3 {
			return false
		}
		a := f.lastAcct[o.Sc] + 1
		f.lastAcct[o.Sc] = a
		if !f.hasAcct(o.Sc, a) {
			f.accts[o.Sc] = append(f.accts[o.Sc], a)
		}
		f.names[o.Sc][o.Name] = true
		f.nameOfA[[2]int64{int64(o.Sc), a}] = o.Name
		f.next[[3]int64{int64(o.Sc), a, 0}] = 0
		f.next[[3]int64{int64(o.Sc), a, 1}] = 0
	case "rename":
		if !f.scopes[o.Sc] || o.Acct < 0 || !f.hasAcct(o.Sc, o.Acct) || f.names[o.Sc][o.Name] || o.Name < 3 {
			return false
		}
		delete(f.names[o.Sc], f.nameOfA[[2]int64{int64(o.Sc), o.Acct}])
		f.names[o.Sc][o.Name] = true
		f.nameOfA[[2]int64{int64(o.Sc), o.Acct}] = o.Name
	case "next":
		if !f.scopes[o.Sc] || !f.hasAcct(o.Sc, o.Acct) || o.N < 1 {
			return false
		}
		k := [3]int64{int64(o.Sc), o.Acct, o.Br}
		for i := int64(0); i < o.N; i++ {
			f.issued = append(f.issued, path4{int64(o.Sc), o.Acct, o.Br, f.next[k] + i})
		}
		f.next[k] += o.N
	case "extend":
		if !f.scopes[o.Sc] || !f.hasAcct(o.Sc, o.Acct) {
			return false
		}
		k := [3]int64{int64(o.Sc), o.Acct, o.Br}
		for i := f.next[k]; i <= o.N; i++ {
			f.issued = append(f.issued, path4{int64(o.Sc), o.Acct, o.Br, i})
		}
		if o.N >= f.next[k] {
			f.next[k] = o.N + 1
		}
	case "markused":
		p := o.path()
		known := f.imported[p]
		for _, q := range f.issued {
			if q == p {
				known = true
			}
		}
		if !known {
			return false
		}
		f.used[p] = true
	case "impkey", "impscript", "imppub", "impwit", "imptap":
		p := o.path()
		if f.imported[p] {
			return false
		}
		f.imported[p] = true
	case "convertwo", "create":
		return false // probed only, never part of a history
	case "setsynced":
		if o.H > 0 && f.bdaySet && o.H != f.synced+1 && o.H != f.synced {
			// the previous block hash is only known for consecutive heights
			return false
		}
		f.synced = o.H
	case "setbdayblock":
		f.bdaySet = true
	case "setbirthday":
	case "chpass":
		if o.Priv {
			if o.Old != f.priv {
				return false
			}
			f.priv = o.New
		} else {
			if o.Old != f.pub {
				return false
			}
			f.pub = o.New
		}
	}
	return true
}

func (o mop) path() path4 {
	switch o.K {
	case "impkey", "impscript", "imppub", "impwit", "imptap":
		return path4{int64(o.Sc), -1, impKindOf[o.K], o.Idx}
	case "markused":
		if o.Imp > 0 {
			return path4{int64(o.Sc), -1, int64(o.Imp - 1), o.Idx}
		}
		return path4{int64(o.Sc), o.Acct, o.Br, o.Idx}
	}
	return path4{}
}

// ---------------------------------------------------------------- environment

type mgrEnv struct {
	path string
	raw  walletdb.DB
	fdb  *faultdb.DB
	mgr  *waddrmgr.Manager
}

func (e *mgrEnv) close() {
	if e.mgr != nil {
		e.mgr.Close()
	}
	if e.raw != nil {
		e.raw.Close()
	}
	os.Remove(e.path)
}

func createMgrEnv(dir string) (*mgrEnv, error) {
	e := &mgrEnv{path: filepath.Join(dir, "main.db")}
	var err error
	e.raw, err = walletdb.Create("bdb", e.path, true, time.Minute, false)
	if err != nil {
		return nil, err
	}
	e.fdb = faultdb.Wrap(e.raw)
	root, err := hdkeychain.NewMaster(mgrSeed, mgrParams)
	if err != nil {
		return nil, err
	}
	err = walletdb.Update(e.fdb, func(tx walletdb.ReadWriteTx) error {
		ns, err := tx.CreateTopLevelBucket(mgrNS)
		if err != nil {
			return err
		}
		return waddrmgr.Create(ns, root, passOf(false, 0), passOf(true, 0), mgrParams, &waddrmgr.FastScryptOptions, mgrBirthday)
	})
	if err != nil {
		e.close()
		return nil, err
	}
	if err := e.open(0, 0); err != nil {
		e.close()
		return nil, err
	}
	return e, nil
}

func (e *mgrEnv) open(pub, priv int) error {
	return walletdb.View(e.fdb, func(tx walletdb.ReadTx) error {
		ns := tx.ReadBucket(mgrNS)
		var err error
		e.mgr, err = waddrmgr.Open(ns, passOf(false, pub), mgrParams)
		if err != nil {
			return fmt.Errorf("open manager: %w", err)
		}
		if err := e.mgr.Unlock(ns, passOf(true, priv)); err != nil {
			return fmt.Errorf("unlock manager: %w", err)
		}
		return nil
	})
}

func openMgrCopy(dir, snapshot string, pub, priv int) (*mgrEnv, error) {
	e := &mgrEnv{path: filepath.Join(dir, fmt.Sprintf("copy%d.db", atomic.AddInt64(&copySeq, 1)))}
	if err := copyFile(snapshot, e.path); err != nil {
		return nil, err
	}
	var err error
	e.raw, err = walletdb.Open("bdb", e.path, true, time.Minute, false)
	if err != nil {
		return nil, err
	}
	e.fdb = faultdb.Wrap(e.raw)
	if err := e.open(pub, priv); err != nil {
		e.close()
		return nil, err
	}
	return e, nil
}

// resolver turns paths into real addresses (derived by an instance that is
// not the one under test).
type resolver struct {
	mu    sync.Mutex
	env   *mgrEnv
	cache map[path4]btcutil.Address
}

func (r *resolver) addr(p path4) (btcutil.Address, error) {
	r.mu.Lock()
	defer r.mu.Unlock()
	if a, ok := r.cache[p]; ok {
		return a, nil
	}
	var a btcutil.Address
	var err error
	if p[1] == -1 {
		a, err = impAddr(p[2], p[3])
	} else {
		err = walletdb.View(r.env.raw, func(tx walletdb.ReadTx) error {
			sm, err := r.env.mgr.FetchScopedKeyManager(scopeOf(int(p[0])))
			if err != nil {
				return err
			}
			ma, err := sm.DeriveFromKeyPath(tx.ReadBucket(mgrNS), waddrmgr.DerivationPath{
				InternalAccount: uint32(p[1]), Account: uint32(p[1]), Branch: uint32(p[2]), Index: uint32(p[3])})
			if err != nil {
				return err
			}
			a = ma.Address()
			return nil
		})
	}
	if err != nil {
		return nil, err
	}
	r.cache[p] = a
	return a, nil
}

// applyMop runs one manager call on ns.
func (e *mgrEnv) applyMop(ns walletdb.ReadWriteBucket, o mop, res *resolver) (string, error) {
	stamp := func() *waddrmgr.BlockStamp {
		return &waddrmgr.BlockStamp{Height: o.H, Hash: hashOf(o.Hash), Timestamp: time.Unix(1600000000+int64(o.H)*600, 0)}
	}
	scoped := func() (*waddrmgr.ScopedKeyManager, error) { return e.mgr.FetchScopedKeyManager(scopeOf(o.Sc)) }
	switch o.K {
	case "newscope":
		_, err := e.mgr.NewScopedKeyManager(ns, scopeOf(o.Sc), customSchema)
		return "", err
	case "newacct":
		sm, err := scoped()
		if err != nil {
			return "", err
		}
		a, err := sm.NewAccount(ns, nameOf(o.Name))
		if err != nil {
			return "", err
		}
		return fmt.Sprintf("account %d", a), nil
	case "newacctwo":
		sm, err := scoped()
		if err != nil {
			return "", err
		}
		xpub, err := foreignXpub(uint32(o.Name))
		if err != nil {
			return "", fmt.Errorf("harness: %w", err)
		}
		a, err := sm.NewAccountWatchingOnly(ns, nameOf(o.Name), xpub, 0x0c100c10, nil)
		if err != nil {
			return "", err
		}
		return fmt.Sprintf("account %d", a), nil
	case "newrawacctwo":
		sm, err := scoped()
		if err != nil {
			return "", err
		}
		xpub, err := foreignXpub(uint32(1000 + o.Acct))
		if err != nil {
			return "", fmt.Errorf("harness: %w", err)
		}
		return "", sm.NewRawAccountWatchingOnly(ns, uint32(o.Acct), xpub, 0x0c100c10, nil)
	case "imppub":
		sm, err := scoped()
		if err != nil {
			return "", err
		}
		pk, _, err := impPub(o.Idx)
		if err != nil {
			return "", err
		}
		ma, err := sm.ImportPublicKey(ns, pk, stamp())
		if err != nil {
			return "", err
		}
		return ma.Address().EncodeAddress(), nil
	case "impwit":
		sm, err := scoped()
		if err != nil {
			return "", err
		}
		sc, _, err := impWitScript(o.Idx)
		if err != nil {
			return "", err
		}
		ma, err := sm.ImportWitnessScript(ns, sc, stamp(), 0, o.Sec)
		if err != nil {
			return "", err
		}
		return ma.Address().EncodeAddress(), nil
	case "imptap":
		sm, err := scoped()
		if err != nil {
			return "", err
		}
		ts, _, err := impTapscript(o.Idx)
		if err != nil {
			return "", err
		}
		ma, err := sm.ImportTaprootScript(ns, ts, stamp(), 1, o.Sec)
		if err != nil {
			return "", err
		}
		return ma.Address().EncodeAddress(), nil
	case "convertwo":
		return "", e.mgr.ConvertToWatchingOnly(ns)
	case "create":
		var root *hdkeychain.ExtendedKey
		if !o.Wo {
			var err error
			root, err = hdkeychain.NewMaster(mgrSeed, mgrParams)
			if err != nil {
				return "", err
			}
		}
		return "", waddrmgr.Create(ns, root, passOf(false, 0), passOf(true, 0), mgrParams, &waddrmgr.FastScryptOptions, mgrBirthday)
	case "rename":
		sm, err := scoped()
		if err != nil {
			return "", err
		}
		return "", sm.RenameAccount(ns, uint32(o.Acct), nameOf(o.Name))
	case "next":
		sm, err := scoped()
		if err != nil {
			return "", err
		}
		var as []waddrmgr.ManagedAddress
		if o.Br == 1 {
			as, err = sm.NextInternalAddresses(ns, uint32(o.Acct), uint32(o.N))
		} else {
			as, err = sm.NextExternalAddresses(ns, uint32(o.Acct), uint32(o.N))
		}
		if err != nil {
			return "", err
		}
		var ss []string
		for _, a := range as {
			ss = append(ss, a.Address().EncodeAddress())
		}
		return strings.Join(ss, ","), nil
	case "extend":
		sm, err := scoped()
		if err != nil {
			return "", err
		}
		if o.Br == 1 {
			return "", sm.ExtendInternalAddresses(ns, uint32(o.Acct), uint32(o.N))
		}
		return "", sm.ExtendExternalAddresses(ns, uint32(o.Acct), uint32(o.N))
	case "markused":
		a, err := res.addr(o.path())
		if err != nil {
			return "", fmt.Errorf("harness: cannot derive %v: %w", o.path(), err)
		}
		return "", e.mgr.MarkUsed(ns, a)
	case "impkey":
		sm, err := scoped()
		if err != nil {
			return "", err
		}
		wif, _, err := impKey(o.Idx)
		if err != nil {
			return "", err
		}
		ma, err := sm.ImportPrivateKey(ns, wif, stamp())
		if err != nil {
			return "", err
		}
		return ma.Address().EncodeAddress(), nil
	case "impscript":
		sm, err := scoped()
		if err != nil {
			return "", err
		}
		s, _, err := impScript(o.Idx)
		if err != nil {
			return "", err
		}
		ma, err := sm.ImportScript(ns, s, stamp())
		if err != nil {
			return "", err
		}
		return ma.Address().EncodeAddress(), nil
	case "setsynced":
		return "", e.mgr.SetSyncedTo(ns, stamp())
	case "setbdayblock":
		return "", e.mgr.SetBirthdayBlock(ns, *stamp(), o.Ver)
	case "setbirthday":
		return "", e.mgr.SetBirthday(ns, time.Unix(o.T, 0))
	case "chpass":
		return "", e.mgr.ChangePassphrase(ns, passOf(o.Priv, o.Old), passOf(o.Priv, o.New), o.Priv, &waddrmgr.FastScryptOptions)
	}
	return "", fmt.Errorf("unknown manager op %q", o.K)
}

// runTx runs the calls of one database transaction inside walletdb.Update.
// It returns the joined results, the error Update returned, the index of the
// call during which the injected fault fired (-1: none) and the index of the
// call that returned the error (-1: none).
func (e *mgrEnv) runTx(ops []mop, res *resolver) (string, error, int, int) {
	var results []string
	firedAt, errAt := -1, -1
	err := walletdb.Update(e.fdb, func(tx walletdb.ReadWriteTx) error {
		ns := tx.ReadWriteBucket(mgrNS)
		for i, o := range ops {
			r, err := e.applyMop(ns, o, res)
			if firedAt < 0 && e.fdb.Fired {
				firedAt = i
			}
			if err != nil {
				errAt = i
				return err
			}
			results = append(results, r)
		}
		return nil
	})
	return strings.Join(results, ";"), err, firedAt, errAt
}

// ---------------------------------------------------------------- observation

type watch struct {
	fetch  []int // scopes whose presence is asked
	scopes []int // existing scopes asked in full
	accts  map[int][]int64
	names  []int
	addrs  []watched
	priv   []int // candidate private passphrases, the expected one first
	locked bool  // the case runs on a locked manager: lock again after asking for the passphrase
}

type watched struct {
	label string
	addr  btcutil.Address
}

func observeMgr(e *mgrEnv, w *watch) items {
	it := items{}
	m := e.mgr
	err := walletdb.View(e.raw, func(tx walletdb.ReadTx) error {
		ns := tx.ReadBucket(mgrNS)
		st := m.SyncedTo()
		it["synced_to"] = fmt.Sprintf("%d/%d", st.Height, hashID(st.Hash))
		it["birthday"] = fmt.Sprint(m.Birthday().Unix())
		it["watch_only"] = fmt.Sprint(m.WatchOnly())
		it["locked"] = fmt.Sprint(m.IsLocked())
		// which of the manager's own private key buffers hold material
		var km []string
		for _, b := range m.VerifSecretBuffers() {
			switch b.Name {
			case "masterKeyPriv", "cryptoKeyPriv", "cryptoKeyScript", "hashedPrivPassphrase":
				km = append(km, fmt.Sprintf("%s=%v", b.Name, b.Live))
			}
		}
		sort.Strings(km)
		it["key_material"] = strings.Join(km, ",")
		if bb, ver, err := m.BirthdayBlock(ns); err != nil {
			it["birthday_block"] = errClass(err)
		} else {
			it["birthday_block"] = fmt.Sprintf("%d/%d/%v", bb.Height, hashID(bb.Hash), ver)
		}
		var ids []string
		for _, sm := range m.ActiveScopedKeyManagers() {
			ids = append(ids, fmt.Sprint(scopeID(sm.Scope())))
		}
		sort.Strings(ids)
		it["scopes"] = strings.Join(ids, ",")
		for _, sc := range w.fetch {
			if _, err := m.FetchScopedKeyManager(scopeOf(sc)); err != nil {
				it[fmt.Sprintf("scopes:fetch/%d", sc)] = errClass(err)
			} else {
				it[fmt.Sprintf("scopes:fetch/%d", sc)] = "ok"
			}
		}
		for _, sc := range w.scopes {
			sm, err := m.FetchScopedKeyManager(scopeOf(sc))
			if err != nil {
				continue
			}
			if la, err := sm.LastAccount(ns); err != nil {
				it[fmt.Sprintf("last_account:%d", sc)] = errClass(err)
			} else {
				it[fmt.Sprintf("last_account:%d", sc)] = fmt.Sprint(la)
			}
			for _, a := range w.accts[sc] {
				key := fmt.Sprintf("%d/%d", sc, a)
				props, err := sm.AccountProperties(ns, uint32(a))
				if err != nil {
					it["account_name:"+key] = errClass(err)
					it["next_index:"+key] = errClass(err)
				} else {
					it["account_name:"+key] = props.AccountName
					it["next_index:"+key] = fmt.Sprintf("%d/%d", props.ExternalKeyCount, props.InternalKeyCount)
				}
				if n, err := sm.AccountName(ns, uint32(a)); err != nil {
					it["account_name:byid/"+key] = errClass(err)
				} else {
					it["account_name:byid/"+key] = n
				}
			}
			if props, err := sm.AccountProperties(ns, waddrmgr.ImportedAddrAccount); err == nil {
				it[fmt.Sprintf("imported_count:%d", sc)] = fmt.Sprint(props.ImportedKeyCount)
			}
			for _, n := range w.names {
				key := fmt.Sprintf("account_name:lookup/%d/%d", sc, n)
				if a, err := sm.LookupAccount(ns, nameOf(n)); err != nil {
					it[key] = errClass(err)
				} else {
					it[key] = fmt.Sprint(a)
				}
			}
		}
		for _, wa := range w.addrs {
			ma, err := m.Address(ns, wa.addr)
			if err != nil {
				it["address_lookup:"+wa.label] = errClass(err)
				continue
			}
			it["address_lookup:"+wa.label] = fmt.Sprintf("found acct=%d internal=%v imported=%v", ma.InternalAccount(), ma.Internal(), ma.Imported())
			if _, acct, err := m.AddrAccount(ns, wa.addr); err != nil {
				it["address_lookup:account/"+wa.label] = errClass(err)
			} else {
				it["address_lookup:account/"+wa.label] = fmt.Sprint(acct)
			}
			it["used_flag:"+wa.label] = fmt.Sprint(ma.Used(ns))
		}
		// the private passphrase the running manager accepts (asked only at
		// states where some probed call changes it: every Lock/Unlock costs a
		// key derivation and a forced garbage collection inside snacl)
		if len(w.priv) < 2 || m.WatchOnly() {
			return nil
		}
		wasLocked := m.IsLocked()
		if !wasLocked {
			if err := m.Lock(); err != nil {
				it["passphrase"] = "lock: " + errClass(err)
				return nil
			}
		}
		it["passphrase"] = "none accepted"
		for _, id := range w.priv {
			if err := m.Unlock(ns, passOf(true, id)); err == nil {
				it["passphrase"] = fmt.Sprintf("private-%d", id)
				break
			}
		}
		if wasLocked && !m.IsLocked() {
			m.Lock()
		}
		return nil
	})
	if err != nil {
		it["query_error"] = err.Error()
	}
	return it
}

// buildWatch decides what is asked at a state: everything issued so far, the
// next indices of every account, the next not-yet-issued addresses, the
// importable keys and scripts, the account names in play.
func buildWatch(f *gfacts, res *resolver, probes [][]mop) (*watch, error) {
	w := &watch{accts: map[int][]int64{}}
	inPlay := map[int]bool{impScope: true}
	for _, ops := range probes {
		for _, o := range ops {
			switch o.K {
			case "setsynced", "setbdayblock", "setbirthday", "chpass", "convertwo", "create":
			default:
				inPlay[o.Sc] = true
			}
		}
	}
	for sc := 0; sc < maxScopes; sc++ {
		if !inPlay[sc] {
			continue
		}
		w.fetch = append(w.fetch, sc)
		if !f.scopes[sc] {
			continue // a scope some probe creates: only its presence is asked
		}
		w.scopes = append(w.scopes, sc)
		as := append([]int64{}, f.accts[sc]...)
		as = append(as, f.lastAcct[sc]+1) // the account a NewAccount would create
		for _, ops := range probes {
			for _, o := range ops {
				if o.K == "newrawacctwo" && o.Sc == sc {
					as = append(as, o.Acct)
				}
			}
		}
		w.accts[sc] = as
	}
	names := map[int]bool{2: true}
	for sc := range f.names {
		for n := range f.names[sc] {
			names[n] = true
		}
	}
	for _, ops := range probes {
		for _, o := range ops {
			switch o.K {
			case "newacct", "rename", "newacctwo":
				names[o.Name] = true
			case "newrawacctwo":
				names[1000+int(o.Acct)] = true
			}
		}
	}
	for n := range names {
		w.names = append(w.names, n)
	}
	sort.Ints(w.names)
	add := func(label string, p path4) {
		a, err := res.addr(p)
		if err != nil {
			return
		}
		w.addrs = append(w.addrs, watched{fmt.Sprintf("%s/%d/%d/%d/%d", label, p[0], p[1], p[2], p[3]), a})
	}
	issued := f.issued
	if len(issued) > 10 {
		issued = issued[len(issued)-10:]
	}
	for _, p := range issued {
		add("issued", p)
	}
	for _, sc := range w.scopes {
		if !f.scopes[sc] {
			continue
		}
		for _, a := range f.accts[sc] {
			for br := int64(0); br < 2; br++ {
				n := f.next[[3]int64{int64(sc), a, br}]
				for i := int64(0); i < 3; i++ {
					add("next", path4{int64(sc), a, br, n + i})
				}
			}
		}
	}
	for kind := int64(0); kind <= kImpTap; kind++ {
		for i := int64(0); i < nImp[kind]; i++ {
			add(fmt.Sprintf("imp%d", kind), path4{impScope, -1, kind, i})
		}
	}
	w.priv = []int{f.priv}
	return w, nil
}

// addrIDs: the paths an address row of this case can belong to.
func addrIDs(f *gfacts, res *resolver, probes [][]mop) *mgrIDs {
	x := &mgrIDs{paths: map[[32]byte]path4{}}
	add := func(p path4) {
		if a, err := res.addr(p); err == nil {
			x.paths[addrHashOf(a.ScriptAddress())] = p
		}
	}
	reach := map[[3]int64]int64{}
	for sc := range f.scopes {
		for _, a := range f.accts[sc] {
			for br := int64(0); br < 2; br++ {
				k := [3]int64{int64(sc), a, br}
				reach[k] = f.next[k] + 4
			}
		}
	}
	for _, ops := range probes {
		for _, o := range ops {
			k := [3]int64{int64(o.Sc), o.Acct, o.Br}
			switch o.K {
			case "extend":
				if o.N+2 > reach[k] {
					reach[k] = o.N + 2
				}
			case "next":
				if f.next[k]+o.N+1 > reach[k] {
					reach[k] = f.next[k] + o.N + 1
				}
			}
		}
	}
	for k, n := range reach {
		if !f.scopes[int(k[0])] {
			continue
		}
		for i := int64(0); i < n; i++ {
			add(path4{k[0], k[1], k[2], i})
		}
	}
	for kind := int64(0); kind <= kImpTap; kind++ {
		for i := int64(0); i < nImp[kind]; i++ {
			add(path4{impScope, -1, kind, i})
		}
	}
	return x
}

// ---------------------------------------------------------------- one state

// siteOf names where a finding arose: the fault fired inside the (first)
// call itself, or in a later call of the same database transaction after the
// named calls had completed.
func siteOf(names []string, firedAt int) string {
	if firedAt <= 0 {
		return names[0] + ":own-write"
	}
	return strings.Join(names[:firedAt], "+") + ":later-write"
}

func runMgrCase(in input) (*caseOut, error) {
	if in.Fresh {
		return runFreshMgrCase(in)
	}
	co := &caseOut{In: in}
	dir, err := tempDir("vh-c10-mgr-")
	if err != nil {
		return nil, err
	}
	defer os.RemoveAll(dir)
	main, err := createMgrEnv(dir)
	if err != nil {
		return nil, err
	}
	mainRes := &resolver{env: main, cache: map[path4]btcutil.Address{}}
	facts := newFacts()
	for _, ops := range in.MgrTxs {
		_, err, _, _ := main.runTx(ops, mainRes)
		if err == nil {
			for _, o := range ops {
				facts.apply(o)
			}
			continue
		}
		// A transaction of the history that is refused part-way (e.g. a
		// duplicate import after a passphrase change) is rolled back by
		// walletdb.Update.  The state of a case is the COMMITTED history,
		// so the manager is restarted from the file here: what an early
		// in-memory update leaves behind after a rollback is what the
		// probes below report (known findings), it must not leak into the
		// state the probes start from.
		main.mgr.Close()
		main.mgr = nil
		if err := main.open(facts.pub, facts.priv); err != nil {
			return nil, fmt.Errorf("harness: restart after refused history transaction: %w", err)
		}
		mainRes.cache = map[path4]btcutil.Address{}
	}
	snapshot := filepath.Join(dir, "snapshot.db")
	f, err := os.Create(snapshot)
	if err != nil {
		return nil, err
	}
	if err := main.raw.Copy(f); err != nil {
		return nil, err
	}
	f.Close()
	main.close()

	// the instance that derives addresses for paths (never under test)
	oracle, err := openMgrCopy(dir, snapshot, facts.pub, facts.priv)
	if err != nil {
		return nil, err
	}
	defer oracle.close()
	res := &resolver{env: oracle, cache: map[path4]btcutil.Address{}}
	w0, err := buildWatch(facts, res, in.MgrOps)
	if err != nil {
		return nil, err
	}
	w0.locked = in.Locked
	ids := addrIDs(facts, res, in.MgrOps)
	state, err := dumpMgr(oracle.raw, ids)
	if err != nil {
		return nil, err
	}
	co.Obs.State = state

	open := func() (*mgrEnv, error) {
		e, err := openMgrCopy(dir, snapshot, facts.pub, facts.priv)
		if err != nil {
			return nil, err
		}
		if in.Locked {
			if err := e.mgr.Lock(); err != nil {
				e.close()
				return nil, err
			}
		}
		return e, nil
	}

	for idx, ops := range in.MgrOps {
		p := probe{Idx: idx, Name: mopsName(ops), Ks: []kOut{}}
		names := make([]string, len(ops))
		for i, o := range ops {
			names[i] = mopName(o)
		}
		// the accepted private passphrase is asked only when this probe
		// changes it
		w := *w0
		for _, o := range ops {
			if o.K == "chpass" && o.Priv {
				w.priv = append([]int{facts.priv}, o.New)
			}
		}
		w1 := &w
		// clean run
		ce, err := open()
		if err != nil {
			return nil, err
		}
		pre := observeMgr(ce, w1)
		preDump, err := faultdb.Dump(ce.raw)
		if err != nil {
			return nil, err
		}
		cres, cerr, _, _ := ce.runTx(ops, res)
		if cerr != nil && strings.HasPrefix(cerr.Error(), "harness:") {
			ce.close()
			p.Skip = cerr.Error()
			co.Obs.Probes = append(co.Obs.Probes, p)
			continue
		}
		p.N = ce.fdb.Writes()
		p.Calls = callList(ce.fdb.Calls)
		p.Result = cres + "|" + errClass(cerr)
		p.Clean = "ok"
		if cerr != nil {
			p.Clean = "err"
		}
		cleanPost := observeMgr(ce, w1)
		cleanDump, err := dumpMgr(ce.raw, ids)
		if err != nil {
			return nil, err
		}
		p.Delta = diffDumps(state, cleanDump)
		ce.close()

		for k := 1; k <= p.N; k++ {
			if !wantK(&in, k) {
				continue
			}
			ke, err := open()
			if err != nil {
				return nil, err
			}
			ko := kOut{K: k, Cats: []string{}}
			if d := pre.diff(observeMgr(ke, w1)); len(d) > 0 {
				ke.close()
				return nil, fmt.Errorf("harness: a fresh manager on a copy of the same file answers differently: %v", d)
			}
			ke.fdb.FailAt = k
			kres, kerr, firedAt, _ := ke.runTx(ops, res)
			ke.fdb.FailAt = 0
			ko.Fired, ko.Err, ko.Text = ke.fdb.Fired, kerr != nil, kres+"|"+errClass(kerr)
			if fc := ke.fdb.FailedCall(); fc != nil {
				ko.Callee = fc.Callee
				ko.Below = sitesBelow(fc.Sites)
			}
			if firedAt > 0 {
				ko.Call = firedAt
			}
			site := siteOf(names, firedAt)
			failing := p.Name
			if firedAt >= 0 {
				failing = names[firedAt]
			}
			switch {
			case !ko.Fired:
				ko.Kinds = append(ko.Kinds, "write_count_not_reproducible@"+p.Name)
			case kerr == nil:
				ko.Kinds = append(ko.Kinds, "success_with_failed_write@"+failing+"/"+ko.Callee)
				if d := cleanPost.diff(observeMgr(ke, w1)); len(d) > 0 {
					ko.Detail = append(ko.Detail, fmt.Sprintf("committed effect differs from the clean run in: %v", d))
				}
			default:
				dump, err := faultdb.Dump(ke.raw)
				if err != nil {
					return nil, err
				}
				if d := faultdb.DiffDump(preDump, dump, 6); len(d) > 0 {
					ko.Kinds = append(ko.Kinds, "database_changed_after_rollback@"+p.Name)
					ko.Detail = append(ko.Detail, d...)
				}
				after := observeMgr(ke, w1)
				for _, it := range pre.diff(after) {
					if _, ok := pre[it]; !ok && category(it) == "used_flag" {
						continue // a flag of an address that was not known before: reported as address_lookup
					}
					ko.Cats = appendUniq(ko.Cats, category(it))
					ko.Kinds = appendUniq(ko.Kinds, "memory_not_restored:"+category(it)+"@"+site)
					ko.Detail = append(ko.Detail, fmt.Sprintf("differs after rollback: %s: %q -> %q", it, pre[it], after[it]))
				}
				rres, rerr, _, _ := ke.runTx(ops, res)
				if r := rres + "|" + errClass(rerr); r != p.Result {
					ko.Kinds = append(ko.Kinds, "retry_differs@"+site)
					ko.Detail = append(ko.Detail, fmt.Sprintf("retry result %q, clean result %q", r, p.Result))
				} else {
					post := observeMgr(ke, w1)
					rdump, err := dumpMgr(ke.raw, ids)
					if err != nil {
						return nil, err
					}
					d := cleanPost.diff(post)
					dd := diffDumps(cleanDump, rdump)
					if len(d) > 0 || len(dd.Put)+len(dd.Del)+len(dd.NewB)+len(dd.GoneB) > 0 {
						ko.Kinds = append(ko.Kinds, "retry_differs@"+site)
						for _, it := range d {
							ko.Detail = append(ko.Detail, fmt.Sprintf("after retry: %s: %q, clean run: %q", it, post[it], cleanPost[it]))
						}
						for _, r := range dd.Put {
							ko.Detail = append(ko.Detail, fmt.Sprintf("after retry the file holds %v, after the clean run not", r))
						}
						for _, r := range dd.Del {
							ko.Detail = append(ko.Detail, fmt.Sprintf("after retry the file lacks %v", r))
						}
					}
				}
			}
			ke.close()
			p.Ks = append(p.Ks, ko)
		}
		co.Obs.Probes = append(co.Obs.Probes, p)
	}
	finish(co)
	return co, nil
}

// runFreshMgrCase probes waddrmgr.Create: the file holds nothing but the
// (empty) namespace bucket.
func runFreshMgrCase(in input) (*caseOut, error) {
	co := &caseOut{In: in}
	dir, err := tempDir("vh-c10-new-")
	if err != nil {
		return nil, err
	}
	defer os.RemoveAll(dir)
	snapshot := filepath.Join(dir, "fresh.db")
	raw, err := walletdb.Create("bdb", snapshot, true, time.Minute, false)
	if err != nil {
		return nil, err
	}
	err = walletdb.Update(raw, func(tx walletdb.ReadWriteTx) error {
		_, err := tx.CreateTopLevelBucket(mgrNS)
		return err
	})
	if err != nil {
		return nil, err
	}
	ids := &mgrIDs{paths: map[[32]byte]path4{}}
	state, err := dumpMgr(raw, ids)
	if err != nil {
		return nil, err
	}
	raw.Close()
	co.Obs.State = state
	open := func() (*mgrEnv, error) {
		e := &mgrEnv{path: filepath.Join(dir, fmt.Sprintf("copy%d.db", atomic.AddInt64(&copySeq, 1)))}
		if err := copyFile(snapshot, e.path); err != nil {
			return nil, err
		}
		var err error
		e.raw, err = walletdb.Open("bdb", e.path, true, time.Minute, false)
		if err != nil {
			return nil, err
		}
		e.fdb = faultdb.Wrap(e.raw)
		return e, nil
	}
	// what a created manager is asked: does it open, unlock (unless watching-only), and a few answers
	observe := func(e *mgrEnv, wo bool) items {
		it := items{}
		err := walletdb.View(e.raw, func(tx walletdb.ReadTx) error {
			ns := tx.ReadBucket(mgrNS)
			m, err := waddrmgr.Open(ns, passOf(false, 0), mgrParams)
			if err != nil {
				it["open"] = errClass(err)
				return nil
			}
			defer m.Close()
			it["open"] = "ok"
			it["watch_only"] = fmt.Sprint(m.WatchOnly())
			if !wo {
				if err := m.Unlock(ns, passOf(true, 0)); err != nil {
					it["unlock"] = errClass(err)
				} else {
					it["unlock"] = "ok"
				}
			}
			st := m.SyncedTo()
			it["synced_to"] = fmt.Sprintf("%d/%d", st.Height, hashID(st.Hash))
			it["birthday"] = fmt.Sprint(m.Birthday().Unix())
			var sids []string
			for _, sm := range m.ActiveScopedKeyManagers() {
				sids = append(sids, fmt.Sprint(scopeID(sm.Scope())))
				if la, err := sm.LastAccount(ns); err == nil {
					it[fmt.Sprintf("last_account:%d", scopeID(sm.Scope()))] = fmt.Sprint(la)
				}
			}
			sort.Strings(sids)
			it["scopes"] = strings.Join(sids, ",")
			return nil
		})
		if err != nil {
			it["query_error"] = err.Error()
		}
		return it
	}
	for idx, ops := range in.MgrOps {
		p := probe{Idx: idx, Name: mopsName(ops), Ks: []kOut{}}
		wo := len(ops) > 0 && ops[0].Wo
		ce, err := open()
		if err != nil {
			return nil, err
		}
		preDump, err := faultdb.Dump(ce.raw)
		if err != nil {
			return nil, err
		}
		cres, cerr, _, _ := ce.runTx(ops, nil)
		p.N = ce.fdb.Writes()
		p.Calls = callList(ce.fdb.Calls)
		p.Result = cres + "|" + errClass(cerr)
		p.Clean = "ok"
		if cerr != nil {
			p.Clean = "err"
		}
		cleanPost := observe(ce, wo)
		cleanDump, err := dumpMgr(ce.raw, ids)
		if err != nil {
			return nil, err
		}
		p.Delta = diffDumps(state, cleanDump)
		ce.raw.Close()
		os.Remove(ce.path)
		for k := 1; k <= p.N; k++ {
			if !wantK(&in, k) {
				continue
			}
			ke, err := open()
			if err != nil {
				return nil, err
			}
			ko := kOut{K: k, Cats: []string{}}
			ke.fdb.FailAt = k
			kres, kerr, _, _ := ke.runTx(ops, nil)
			ke.fdb.FailAt = 0
			ko.Fired, ko.Err, ko.Text = ke.fdb.Fired, kerr != nil, kres+"|"+errClass(kerr)
			if fc := ke.fdb.FailedCall(); fc != nil {
				ko.Callee = fc.Callee
				ko.Below = sitesBelow(fc.Sites)
			}
			site := p.Name + ":own-write"
			switch {
			case !ko.Fired:
				ko.Kinds = append(ko.Kinds, "write_count_not_reproducible@"+p.Name)
			case kerr == nil:
				ko.Kinds = append(ko.Kinds, "success_with_failed_write@"+p.Name+"/"+ko.Callee)
			default:
				dump, err := faultdb.Dump(ke.raw)
				if err != nil {
					return nil, err
				}
				if d := faultdb.DiffDump(preDump, dump, 6); len(d) > 0 {
					ko.Kinds = append(ko.Kinds, "database_changed_after_rollback@"+p.Name)
					ko.Detail = append(ko.Detail, d...)
				}
				rres, rerr, _, _ := ke.runTx(ops, nil)
				if r := rres + "|" + errClass(rerr); r != p.Result {
					ko.Kinds = append(ko.Kinds, "retry_differs@"+site)
					ko.Detail = append(ko.Detail, fmt.Sprintf("retry result %q, clean result %q", r, p.Result))
				} else {
					post := observe(ke, wo)
					rdump, err := dumpMgr(ke.raw, ids)
					if err != nil {
						return nil, err
					}
					dd := diffDumps(cleanDump, rdump)
					if d := cleanPost.diff(post); len(d) > 0 || len(dd.Put)+len(dd.Del)+len(dd.NewB)+len(dd.GoneB) > 0 {
						ko.Kinds = append(ko.Kinds, "retry_differs@"+site)
						ko.Detail = append(ko.Detail, fmt.Sprintf("after retry differs from the clean run in: %v %v", d, dd))
					}
				}
			}
			ke.raw.Close()
			os.Remove(ke.path)
			p.Ks = append(p.Ks, ko)
		}
		co.Obs.Probes = append(co.Obs.Probes, p)
	}
	finish(co)
	return co, nil
}

// ---------------------------------------------------------------- generator

func genMgrStates(r *gen.R, perHist, want int) []input {
	f := newFacts()
	var txs [][]mop
	hashSeq, passSeq, nameSeq := 0, 0, 2
	newName := func() int { nameSeq++; return nameSeq }
	pickScope := func() int {
		var cs []int
		for _, sc := range []int{0, 1, 4, 5} {
			if f.scopes[sc] {
				cs = append(cs, sc)
			}
		}
		return cs[r.Intn(len(cs))]
	}
	pickAcct := func(sc int) int64 { return f.accts[sc][r.Intn(len(f.accts[sc]))] }
	pickIssued := func(used bool) (path4, bool) {
		var cs []path4
		for _, p := range f.issued {
			if f.used[p] == used {
				cs = append(cs, p)
			}
		}
		for p := range f.imported {
			if f.used[p] == used {
				cs = append(cs, p)
			}
		}
		if len(cs) == 0 {
			return path4{}, false
		}
		sort.Slice(cs, func(i, j int) bool { return fmt.Sprint(cs[i]) < fmt.Sprint(cs[j]) })
		return cs[r.Intn(len(cs))], true
	}
	nextSynced := func() mop {
		hashSeq++
		h := f.synced + 1
		if !f.bdaySet && r.Chance(1, 3) {
			h = []int32{1, 5, 9999, 10000, 10001, 10007}[r.Intn(6)]
		}
		return mop{K: "setsynced", H: h, Hash: hashSeq}
	}
	genOp := func() mop {
		switch r.Pick(3, 2, 6, 2, 3, 2, 2, 4, 1, 1, 1, 1, 2, 1) {
		case 0:
			return mop{K: "newacct", Sc: pickScopeNoCustom(f, r), Name: newName()}
		case 1:
			sc := pickScope()
			return mop{K: "rename", Sc: sc, Acct: pickAcct(sc), Name: newName()}
		case 2:
			sc := pickScope()
			return mop{K: "next", Sc: sc, Acct: pickAcct(sc), Br: int64(r.Intn(2)), N: int64(r.Pick(0, 5, 3, 1))}
		case 3:
			sc := pickScope()
			a := pickAcct(sc)
			br := int64(r.Intn(2))
			return mop{K: "extend", Sc: sc, Acct: a, Br: br, N: f.next[[3]int64{int64(sc), a, br}] + int64(r.Range(0, 2))}
		case 4:
			if p, ok := pickIssued(false); ok {
				return markOp(p)
			}
			return mop{K: "next", Sc: 0, Acct: 0, N: 1}
		case 5:
			return mop{K: "impkey", Sc: impScope, Idx: int64(r.Intn(nImpKeys)), H: int32(r.Range(0, 3))}
		case 6:
			return mop{K: "impscript", Sc: impScope, Idx: int64(r.Intn(nImpScrs)), H: int32(r.Range(0, 3))}
		case 7:
			return nextSynced()
		case 8:
			hashSeq++
			return mop{K: "setbdayblock", H: f.synced, Hash: hashSeq, Ver: r.Chance(1, 2)}
		case 9:
			return mop{K: "setbirthday", T: 1500000000 + int64(r.Range(0, 1000))*86400}
		case 10:
			passSeq++
			if r.Chance(2, 3) {
				return mop{K: "chpass", Priv: true, Old: f.priv, New: passSeq}
			}
			return mop{K: "chpass", Priv: false, Old: f.pub, New: passSeq}
		case 11:
			for _, sc := range []int{4, 5} {
				if !f.scopes[sc] {
					return mop{K: "newscope", Sc: sc}
				}
			}
			return nextSynced()
		case 12:
			// a public key, a witness script or a taproot script
			k := []string{"imppub", "impwit", "imptap"}[r.Intn(3)]
			return mop{K: k, Sc: impScope, Idx: int64(r.Intn(2)), H: int32(r.Range(0, 3)), Sec: r.Chance(1, 2)}
		default:
			return mop{K: "newacctwo", Sc: pickScopeNoCustom(f, r), Name: newName()}
		}
	}
	nTx := r.Range(2, 14)
	for i := 0; i < nTx; i++ {
		ops := []mop{genOp()}
		if r.Chance(1, 5) {
			ops = append(ops, genOp())
		}
		// the simulated facts decide whether the whole transaction commits
		ok := true
		trial := cloneFacts(f)
		for _, o := range ops {
			if !trial.apply(o) {
				ok = false
				break
			}
		}
		txs = append(txs, ops)
		if ok {
			f = trial
		}
	}
	// states: after some prefix of the history
	n := perHist
	if n > want {
		n = want
	}
	pos := map[int]bool{len(txs): true}
	for len(pos) < n && len(pos) <= len(txs) {
		pos[r.Range(0, len(txs))] = true
	}
	var ps []int
	for p := range pos {
		ps = append(ps, p)
	}
	sort.Ints(ps)
	if len(ps) > n {
		ps = ps[len(ps)-n:]
	}
	var out []input
	for _, p := range ps {
		in := input{Kind: "mgr", MgrTxs: txs[:p]}
		sf := newFacts()
		for _, ops := range txs[:p] {
			trial := cloneFacts(sf)
			ok := true
			for _, o := range ops {
				if !trial.apply(o) {
					ok = false
					break
				}
			}
			if ok {
				sf = trial
			}
		}
		// one state in four is probed with the manager locked
		in.Locked = r.Chance(1, 4)
		in.MgrOps = genMgrProbes(r, sf, in.Locked, &hashSeq, &passSeq, &nameSeq)
		out = append(out, in)
	}
	return out
}

func markOp(p path4) mop {
	o := mop{K: "markused", Sc: int(p[0]), Acct: p[1], Br: p[2], Idx: p[3]}
	if p[1] == -1 {
		o.Imp, o.Acct, o.Br = int(p[2])+1, 0, 0
	}
	return o
}

func pickScopeNoCustom(f *gfacts, r *gen.R) int { return r.Intn(2) }

func cloneFacts(f *gfacts) *gfacts {
	g := &gfacts{scopes: map[int]bool{}, accts: map[int][]int64{}, next: map[[3]int64]int64{}, nameOfA: map[[2]int64]int{},
		names: map[int]map[int]bool{}, lastAcct: map[int]int64{}, used: map[path4]bool{}, imported: map[path4]bool{},
		synced: f.synced, bdaySet: f.bdaySet, priv: f.priv, pub: f.pub}
	for k, v := range f.scopes {
		g.scopes[k] = v
	}
	for k, v := range f.accts {
		g.accts[k] = append([]int64{}, v...)
	}
	for k, v := range f.next {
		g.next[k] = v
	}
	for k, v := range f.nameOfA {
		g.nameOfA[k] = v
	}
	for k, v := range f.names {
		g.names[k] = map[int]bool{}
		for n, b := range v {
			g.names[k][n] = b
		}
	}
	for k, v := range f.lastAcct {
		g.lastAcct[k] = v
	}
	g.issued = append([]path4{}, f.issued...)
	for k, v := range f.used {
		g.used[k] = v
	}
	for k, v := range f.imported {
		g.imported[k] = v
	}
	return g
}

// genMgrProbes: every kind of mutating call with arguments that fit the
// state (plus a few that are refused), and every call with a memory effect
// followed by one more call in the same database transaction.  With the
// manager locked the calls that need the private keys are refused before any
// write; the others run as usual.
func genMgrProbes(r *gen.R, f *gfacts, locked bool, hashSeq, passSeq, nameSeq *int) [][]mop {
	var out [][]mop
	name := func() int { *nameSeq++; return *nameSeq }
	hash := func() int { *hashSeq++; return *hashSeq }
	scs := []int{0, 1}
	for _, sc := range []int{4, 5} {
		if f.scopes[sc] {
			scs = append(scs, sc)
		}
	}
	sc := scs[r.Intn(len(scs))]
	acct := f.accts[sc][r.Intn(len(f.accts[sc]))]
	br := int64(r.Intn(2))
	nx := f.next[[3]int64{int64(sc), acct, br}]
	tail := func() mop { return mop{K: "setbdayblock", H: f.synced, Hash: hash(), Ver: true} }

	newacct := mop{K: "newacct", Sc: sc % 2, Name: name()}
	out = append(out, []mop{newacct})
	// an account name that is taken: refused before any write
	out = append(out, []mop{{K: "newacct", Sc: sc, Name: 2}})
	newacctwo := mop{K: "newacctwo", Sc: sc % 2, Name: name()}
	out = append(out, []mop{newacctwo})
	out = append(out, []mop{{K: "newrawacctwo", Sc: sc % 2, Acct: f.lastAcct[sc%2] + int64(r.Range(2, 5))}})
	var renamable []int64
	for _, a := range f.accts[sc] {
		renamable = append(renamable, a)
	}
	rename := mop{K: "rename", Sc: sc, Acct: renamable[r.Intn(len(renamable))], Name: name()}
	out = append(out, []mop{rename})
	next1 := mop{K: "next", Sc: sc, Acct: acct, Br: br, N: 1}
	next2 := mop{K: "next", Sc: sc, Acct: acct, Br: 1 - br, N: int64(r.Range(2, 3))}
	out = append(out, []mop{next1}, []mop{next2})
	extend := mop{K: "extend", Sc: sc, Acct: acct, Br: br, N: nx + int64(r.Range(0, 1))}
	out = append(out, []mop{extend})
	if nx > 0 {
		out = append(out, []mop{{K: "extend", Sc: sc, Acct: acct, Br: br, N: nx - 1}}) // nothing to do
	}
	var unused, used []path4
	for _, p := range f.issued {
		if f.used[p] {
			used = append(used, p)
		} else {
			unused = append(unused, p)
		}
	}
	if len(unused) > 0 {
		out = append(out, []mop{markOp(unused[r.Intn(len(unused))])})
	}
	if len(used) > 0 {
		out = append(out, []mop{markOp(used[r.Intn(len(used))])})
	}
	// an address that was never issued: refused
	out = append(out, []mop{markOp(path4{int64(sc), acct, br, nx + 5})})
	impk := mop{K: "impkey", Sc: impScope, Idx: int64(r.Intn(nImpKeys)), H: int32(r.Range(0, 2))}
	imps := mop{K: "impscript", Sc: impScope, Idx: int64(r.Intn(nImpScrs)), H: int32(r.Range(0, 2))}
	impp := mop{K: "imppub", Sc: impScope, Idx: int64(r.Intn(2)), H: int32(r.Range(0, 2))}
	impw := mop{K: "impwit", Sc: impScope, Idx: int64(r.Intn(2)), H: int32(r.Range(0, 2)), Sec: r.Chance(1, 2)}
	impt := mop{K: "imptap", Sc: impScope, Idx: int64(r.Intn(2)), H: int32(r.Range(0, 2)), Sec: r.Chance(1, 2)}
	out = append(out, []mop{impk}, []mop{imps}, []mop{impp}, []mop{impw}, []mop{impt})
	synced := mop{K: "setsynced", H: f.synced + 1, Hash: hash()}
	out = append(out, []mop{synced})
	if !f.bdaySet {
		out = append(out, []mop{{K: "setsynced", H: 10000 + int32(r.Range(1, 9)), Hash: hash()}})
	}
	out = append(out, []mop{tail()})
	birthday := mop{K: "setbirthday", T: 1500000000 + int64(r.Range(0, 1000))*86400}
	out = append(out, []mop{birthday})
	*passSeq++
	chpriv := mop{K: "chpass", Priv: true, Old: f.priv, New: *passSeq}
	*passSeq++
	chpub := mop{K: "chpass", Priv: false, Old: f.pub, New: *passSeq}
	out = append(out, []mop{chpriv}, []mop{chpub})
	// wrong old passphrase: refused before any write
	out = append(out, []mop{{K: "chpass", Priv: true, Old: f.priv + 1000, New: *passSeq}})
	var newscope *mop
	for _, s := range []int{4, 5} {
		if !f.scopes[s] {
			newscope = &mop{K: "newscope", Sc: s}
			break
		}
	}
	if newscope != nil {
		out = append(out, []mop{*newscope})
	} else {
		out = append(out, []mop{{K: "newscope", Sc: 4}}) // exists: the backend refuses the first CreateBucket
	}
	convert := mop{K: "convertwo"}
	out = append(out, []mop{convert})
	// a manager exists already: refused before any write
	out = append(out, []mop{{K: "create"}})
	// several calls in one database transaction: the first one completes,
	// a write of a later one fails
	firsts := []mop{rename, synced, extend, next1, impk, imps, impp, impw, impt, chpriv, chpub, birthday, newacct, newacctwo, convert}
	for _, first := range firsts {
		if locked && refusedWhenLocked(first) {
			continue
		}
		out = append(out, []mop{first, tail()})
	}
	if newscope != nil && !locked {
		out = append(out, []mop{*newscope, tail()})
	}
	if len(unused) > 0 {
		out = append(out, []mop{synced, markOp(unused[0])})
	}
	return out
}
