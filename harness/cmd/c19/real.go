package main

import (
	"crypto/sha256"
	"encoding/hex"
	"errors"
	"fmt"
	"time"

	"github.com/btcsuite/btcd/chaincfg/chainhash"
	"github.com/btcsuite/btcd/txscript"
	"github.com/btcsuite/btcd/wire"
	"github.com/btcsuite/btcwallet/waddrmgr"
	"github.com/btcsuite/btcwallet/wallet"
	"github.com/btcsuite/btcwallet/walletdb"
	"github.com/btcsuite/btcwallet/walletdb/migration"
	"github.com/btcsuite/btcwallet/wtxmgr"

	"verifharness/internal/core"
	"verifharness/internal/simchain"
	"verifharness/internal/walletenv"
)

// realCase exercises the REAL migration managers of wtxmgr and waddrmgr
// through wallet.Open (both upgrades inside one database transaction).
type realCase struct {
	In struct {
		Real      string `json:"real"`
		TxDelta   int    `json:"txmgr_version_delta"`   // stored = latest + delta
		AddrDelta int    `json:"addrmgr_version_delta"` // stored = latest + delta
	} `json:"in"`
	Obs struct {
		OpenErr    string `json:"open_err"`
		Reversion  bool   `json:"is_reversion"`
		Unchanged  bool   `json:"db_unchanged"`
		TxVerAfter uint32 `json:"txmgr_version_after"`
		AdVerAfter uint32 `json:"addrmgr_version_after"`
		TxLatest   uint32 `json:"txmgr_latest"`
		AdLatest   uint32 `json:"addrmgr_latest"`
	} `json:"obs"`
	Oracle []string `json:"oracle"`
	Tags   []string `json:"tags"`
}

var (
	wtxNS = []byte("wtxmgr")
	wadNS = []byte("waddrmgr")
)

func dumpBucket(h interface{ Write([]byte) (int, error) }, b walletdb.ReadBucket, depth int) error {
	return b.ForEach(func(k, v []byte) error {
		fmt.Fprintf(h, "%d|%x|", depth, k)
		if v == nil {
			if nb := b.NestedReadBucket(k); nb != nil {
				h.Write([]byte("B\n"))
				return dumpBucket(h, nb, depth+1)
			}
		}
		fmt.Fprintf(h, "%x\n", v)
		return nil
	})
}

func dumpDB(db walletdb.DB) (string, error) {
	h := sha256.New()
	err := walletdb.View(db, func(tx walletdb.ReadTx) error {
		for _, ns := range [][]byte{wadNS, wtxNS} {
			b := tx.ReadBucket(ns)
			if b == nil {
				return fmt.Errorf("namespace %s missing", ns)
			}
			fmt.Fprintf(h, "NS %s\n", ns)
			if err := dumpBucket(h, b, 0); err != nil {
				return err
			}
		}
		return nil
	})
	return hex.EncodeToString(h.Sum(nil)), err
}

func latestOf(vs []migration.Version) uint32 {
	l := uint32(0)
	for _, v := range vs {
		if v.Number > l {
			l = v.Number
		}
	}
	return l
}

func runReal(name string, txDelta, addrDelta int) (*realCase, error) {
	rc := &realCase{Oracle: []string{}, Tags: []string{"real_components", name}}
	rc.In.Real, rc.In.TxDelta, rc.In.AddrDelta = name, txDelta, addrDelta
	seed := make([]byte, 32)
	seed[0] = 19
	e, err := walletenv.New(seed, time.Unix(1600000000, 0), 0, nil)
	if err != nil {
		return nil, err
	}
	defer e.Close()
	// give the store a transaction so that dropping the history is visible
	c := simchain.New(e.Params)
	e.W.VerifSetChainClient(c)
	e.W.SetChainSynced(true)
	addr, err := e.W.NewAddress(0, waddrmgr.KeyScopeBIP0084)
	if err != nil {
		return nil, err
	}
	pk, _ := txscript.PayToAddrScript(addr)
	tx := wire.NewMsgTx(2)
	tx.AddTxIn(wire.NewTxIn(wire.NewOutPoint(&chainhash.Hash{1}, 0), nil, nil))
	tx.AddTxOut(wire.NewTxOut(100000, pk))
	b := c.Extend([]*wire.MsgTx{tx}, nil)
	if err := e.W.VerifConnectBlock(b.Meta()); err != nil {
		return nil, err
	}
	rec, _ := wtxmgr.NewTxRecordFromMsgTx(tx, b.Time)
	m := b.Meta()
	if err := e.W.VerifAddRelevantTx(rec, &m); err != nil {
		return nil, err
	}
	e.W.Stop()
	e.W.WaitForShutdown()
	e.W = nil

	// set the stored versions
	err = walletdb.Update(e.DB, func(dbtx walletdb.ReadWriteTx) error {
		tm := wtxmgr.NewMigrationManager(dbtx.ReadWriteBucket(wtxNS))
		am := waddrmgr.NewMigrationManager(dbtx.ReadWriteBucket(wadNS))
		rc.Obs.TxLatest, rc.Obs.AdLatest = latestOf(tm.Versions()), latestOf(am.Versions())
		if err := tm.SetVersion(nil, uint32(int(rc.Obs.TxLatest)+txDelta)); err != nil {
			return err
		}
		return am.SetVersion(nil, uint32(int(rc.Obs.AdLatest)+addrDelta))
	})
	if err != nil {
		return nil, err
	}
	before, err := dumpDB(e.DB)
	if err != nil {
		return nil, err
	}
	w, oerr := wallet.OpenWithRetry(e.DB, walletenv.PubPass, nil, e.Params, 0, 10*time.Millisecond)
	if oerr != nil {
		rc.Obs.OpenErr = oerr.Error()
		rc.Obs.Reversion = errors.Is(oerr, migration.ErrReversion)
	} else {
		w.Start()
		w.Stop()
		w.WaitForShutdown()
	}
	after, err := dumpDB(e.DB)
	if err != nil {
		return nil, err
	}
	rc.Obs.Unchanged = before == after
	// (wtxmgr's CurrentVersion reads the manager's own namespace and ignores
	// its argument, so the managers are built on the namespaces)
	_ = walletdb.Update(e.DB, func(dbtx walletdb.ReadWriteTx) error {
		rc.Obs.TxVerAfter, _ = wtxmgr.NewMigrationManager(dbtx.ReadWriteBucket(wtxNS)).CurrentVersion(nil)
		rc.Obs.AdVerAfter, _ = waddrmgr.NewMigrationManager(dbtx.ReadWriteBucket(wadNS)).CurrentVersion(nil)
		return errors.New("read only: roll back")
	})

	// the property, stated directly
	newer := txDelta > 0 || addrDelta > 0
	switch {
	case newer:
		if oerr == nil || !rc.Obs.Reversion {
			rc.Oracle = append(rc.Oracle, "newer_database_not_refused")
		}
		if !rc.Obs.Unchanged {
			// includes: an upgrade of the OTHER component applied in the
			// same database transaction must have been rolled back
			rc.Oracle = append(rc.Oracle, "newer_database_modified")
		}
	default:
		if oerr != nil {
			rc.Oracle = append(rc.Oracle, "clean_upgrade_reported_error")
		} else if rc.Obs.TxVerAfter != rc.Obs.TxLatest || rc.Obs.AdVerAfter != rc.Obs.AdLatest {
			rc.Oracle = append(rc.Oracle, "latest_version_not_recorded")
		}
		if txDelta == 0 && addrDelta == 0 && !rc.Obs.Unchanged {
			rc.Oracle = append(rc.Oracle, "up_to_date_database_modified")
		}
	}
	return rc, nil
}

func realCases(out *core.Emitter) error {
	for _, c := range []struct {
		name         string
		tx, addr int
	}{
		{"up_to_date", 0, 0},
		{"addrmgr_newer", 0, 1},
		{"txmgr_newer", 1, 0},
		{"both_newer", 2, 3},
		{"txmgr_older_addrmgr_newer", -1, 1}, // the txmgr migration runs first and must be rolled back
		{"txmgr_older", -1, 0},               // real migration 2 (drop history) applies, version recorded
	} {
		rc, err := runReal(c.name, c.tx, c.addr)
		if err != nil {
			return fmt.Errorf("real case %s: %w", c.name, err)
		}
		out.Emit(rc)
	}
	return nil
}
