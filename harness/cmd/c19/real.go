package main

// The REAL migration managers of wtxmgr and waddrmgr on databases whose
// stored versions are older than, equal to or newer than what the code knows:
//
//   - through the repository's own call site, wallet.Open (both services in
//     one walletdb.Update),
//   - through migration.Upgrade called by the harness inside its own
//     walletdb.Update (address manager alone, transaction manager alone, both
//     in the order opposite to wallet.Open's),
//   - waddrmgr.Open / wtxmgr.Open directly (their own version checks),
//
// with a write failure injected at the k-th mutating call of the run (fdb.go),
// i.e. inside whichever real migration (or SetVersion) performs that write.
//
// Old address-manager layouts are produced from a freshly created wallet by
// writing the version key and undoing what the later migrations add
// (waddrmgr/migrations.go):
//   version 7  every block hash since genesis is still stored (migration 8,
//              storeMaxReorgDepth, prunes them), synced far enough for the
//              pruning to delete something;
//   version 6  as 7; the birthday block exists (migration 7 resets the synced
//              block to it);
//   version 5  as 6 without the birthday block and its verification flag
//              (migration 6, populateBirthdayBlock, estimates it from the
//              birthday timestamp and the stored block hashes).
// Versions below 5 have another bucket layout altogether and are not built.
// The transaction manager's version 1 has the layout of version 2 (migration
// 2 drops and re-creates the history).

import (
	"bytes"
	"crypto/sha256"
	"encoding/binary"
	"encoding/hex"
	"errors"
	"fmt"
	"io"
	"os"
	"path/filepath"
	"reflect"
	"runtime"
	"sort"
	"strconv"
	"strings"
	"time"

	"github.com/btcsuite/btcd/chaincfg"
	"github.com/btcsuite/btcd/chaincfg/chainhash"
	"github.com/btcsuite/btcd/txscript"
	"github.com/btcsuite/btcd/wire"
	"github.com/btcsuite/btcwallet/waddrmgr"
	"github.com/btcsuite/btcwallet/wallet"
	"github.com/btcsuite/btcwallet/walletdb"
	"github.com/btcsuite/btcwallet/walletdb/migration"
	"github.com/btcsuite/btcwallet/wtxmgr"

	"verifharness/internal/core"
	"verifharness/internal/simchain"
	"verifharness/internal/walletenv"
)

var (
	wtxNS = []byte("wtxmgr")
	wadNS = []byte("waddrmgr")
)

const (
	tipHeight      = 10012 // synced height of the old address-manager layouts
	birthdayHeight = 10005 // their birthday block
)

type realIn struct {
	Real   string `json:"real"`    // scenario label
	Entry  string `json:"entry"`   // wallet_open | upgrade_both | upgrade_addr | upgrade_tx | open_addr | open_tx
	Tx     string `json:"txmgr"`   // stored version: "1", "latest", "latest+1", ...
	Addr   string `json:"addrmgr"` // stored version: "5", "6", "7", "latest", "latest+1", ...
	FailAt int    `json:"fail_at"` // the k-th mutating call of the run fails; 0 = none
}

type realVersion struct {
	Num uint32 `json:"num"`
	Nil bool   `json:"nil"`
	Fn  string `json:"fn,omitempty"`
}

type realMgr struct {
	NS           string        `json:"ns"`
	Table        []realVersion `json:"table"`
	Latest       uint32        `json:"latest"`
	StoredBefore uint32        `json:"stored_before"`
	VerAfter     uint32        `json:"version_after"`     // the manager's own CurrentVersion
	RawVerAfter  int64         `json:"raw_version_after"` // read from the raw bucket; -1 = key missing / malformed
	Unchanged    bool          `json:"namespace_unchanged"`
	Invoked      []uint32      `json:"invoked"`
	SetVersion   int           `json:"set_version_writes"`
	OpenAfter    string        `json:"open_after"` // "" = the component's own Open accepts the database afterwards
	Effects      string        `json:"effects,omitempty"`
}

type realFault struct {
	NS         string `json:"ns"`
	Fn         string `json:"fn"`
	Version    uint32 `json:"version"`
	SetVersion bool   `json:"set_version"`
}

type realObs struct {
	Err        string     `json:"err"`
	Class      string     `json:"class"` // ok | reversion | error
	Writes     int        `json:"writes"`
	Txs        int        `json:"rw_transactions"`
	Fault      *realFault `json:"fault,omitempty"`
	Mgrs       []realMgr  `json:"mgrs"` // the services the call upgrades, in the order it does
	Unchanged  bool       `json:"db_unchanged"`
	Unattrib   int        `json:"unattributed_writes"`
	RepoSite   bool       `json:"through_repo_call_site"`
	ModelCheck bool       `json:"model_compared"`
}

type realCase struct {
	In     realIn   `json:"in"`
	Obs    realObs  `json:"obs"`
	Oracle []string `json:"oracle"`
	Tags   []string `json:"tags"`
}

// ---------------------------------------------------------------- version tables

func fnName(f func(walletdb.ReadWriteBucket) error) string {
	if f == nil {
		return ""
	}
	return runtime.FuncForPC(reflect.ValueOf(f).Pointer()).Name()
}

func tableOf(vs []migration.Version) ([]realVersion, uint32) {
	out := make([]realVersion, 0, len(vs))
	latest := uint32(0)
	for _, v := range vs {
		out = append(out, realVersion{Num: v.Number, Nil: v.Migration == nil, Fn: fnName(v.Migration)})
		if v.Number > latest {
			latest = v.Number
		}
	}
	sort.SliceStable(out, func(i, j int) bool { return out[i].Num < out[j].Num })
	return out, latest
}

func tables() (tx, addr []realVersion, txLatest, addrLatest uint32) {
	tx, txLatest = tableOf(wtxmgr.NewMigrationManager(nil).Versions())
	addr, addrLatest = tableOf(waddrmgr.NewMigrationManager(nil).Versions())
	return
}

func resolveVersion(s string, latest uint32) (uint32, error) {
	switch {
	case s == "latest":
		return latest, nil
	case strings.HasPrefix(s, "latest+"):
		k, err := strconv.Atoi(s[len("latest+"):])
		if err != nil || k <= 0 {
			return 0, fmt.Errorf("bad version %q", s)
		}
		return latest + uint32(k), nil
	}
	k, err := strconv.Atoi(s)
	if err != nil || k <= 0 {
		return 0, fmt.Errorf("bad version %q", s)
	}
	return uint32(k), nil
}

// ---------------------------------------------------------------- raw layout

func fakeHash(h int32) chainhash.Hash {
	var b [8]byte
	binary.BigEndian.PutUint64(b[:], uint64(h)+0xC19C19)
	return chainhash.Hash(sha256.Sum256(b[:]))
}

func heightKey(h int32) []byte {
	var k [4]byte
	binary.BigEndian.PutUint32(k[:], uint32(h))
	return k[:]
}

func rawTxVersion(ns walletdb.ReadBucket) int64 {
	v := ns.Get([]byte("vers"))
	if len(v) != 4 {
		return -1
	}
	return int64(binary.BigEndian.Uint32(v))
}

func rawAddrVersion(ns walletdb.ReadBucket) int64 {
	m := ns.NestedReadBucket([]byte("main"))
	if m == nil {
		return -1
	}
	v := m.Get([]byte("mgrver"))
	if len(v) != 4 {
		return -1
	}
	return int64(binary.LittleEndian.Uint32(v))
}

// degrade rewrites a freshly created wallet database into the layout of the
// requested versions.
func degrade(db walletdb.DB, txVer, addrVer, addrLatest uint32) error {
	return walletdb.Update(db, func(dbtx walletdb.ReadWriteTx) error {
		txns, adns := dbtx.ReadWriteBucket(wtxNS), dbtx.ReadWriteBucket(wadNS)
		if txns == nil || adns == nil {
			return errors.New("namespace missing")
		}
		// (bbolt keeps the value slices until the commit: one buffer each)
		tv, av := make([]byte, 4), make([]byte, 4)
		binary.BigEndian.PutUint32(tv, txVer)
		if err := txns.Put([]byte("vers"), tv); err != nil {
			return err
		}
		binary.LittleEndian.PutUint32(av, addrVer)
		if err := adns.NestedReadWriteBucket([]byte("main")).Put([]byte("mgrver"), av); err != nil {
			return err
		}
		if addrVer >= addrLatest {
			return nil
		}
		if addrVer < 5 || addrVer > 7 || addrLatest != 8 {
			return fmt.Errorf("no recipe for the address-manager layout of version %d (latest %d)", addrVer, addrLatest)
		}
		sync := adns.NestedReadWriteBucket([]byte("sync"))
		for h := int32(2); h <= tipHeight; h++ {
			hash := fakeHash(h)
			if err := sync.Put(heightKey(h), hash[:]); err != nil {
				return err
			}
		}
		var st [40]byte
		binary.LittleEndian.PutUint32(st[0:4], uint32(tipHeight))
		th := fakeHash(tipHeight)
		copy(st[4:36], th[:])
		binary.LittleEndian.PutUint32(st[36:], 1600000000)
		if err := sync.Put([]byte("syncedto"), st[:]); err != nil {
			return err
		}
		if addrVer >= 6 {
			return waddrmgr.PutBirthdayBlock(adns, waddrmgr.BlockStamp{Height: birthdayHeight, Hash: fakeHash(birthdayHeight)})
		}
		if err := sync.Delete([]byte("birthdayblock")); err != nil {
			return err
		}
		return sync.Delete([]byte("birthdayblockverified"))
	})
}

// ---------------------------------------------------------------- templates

type realEnv struct {
	dir       string
	templates map[string]string
	params    *chaincfg.Params
}

func newRealEnv() (*realEnv, error) {
	dir, err := os.MkdirTemp("", "vh-c19-real-")
	if err != nil {
		return nil, err
	}
	return &realEnv{dir: dir, templates: map[string]string{}, params: &chaincfg.RegressionNetParams}, nil
}

func (r *realEnv) close() { os.RemoveAll(r.dir) }

func copyFile(src, dst string) error {
	in, err := os.Open(src)
	if err != nil {
		return err
	}
	defer in.Close()
	out, err := os.Create(dst)
	if err != nil {
		return err
	}
	if _, err := io.Copy(out, in); err != nil {
		out.Close()
		return err
	}
	return out.Close()
}

// template returns the path of a database file with the given stored versions
// (built once): a wallet with one address, one block and one confirmed
// transaction (so that dropping the history is visible), degraded.
func (r *realEnv) template(txVer, addrVer, addrLatest uint32) (string, error) {
	key := fmt.Sprintf("%d-%d", txVer, addrVer)
	if p, ok := r.templates[key]; ok {
		return p, nil
	}
	seed := make([]byte, 32)
	seed[0] = 19
	// stored birthday = this - 48h; populateBirthdayBlock estimates
	// (birthday - genesis time) / 600 = birthdayHeight
	gen := chaincfg.RegressionNetParams.GenesisBlock.Header.Timestamp
	birthday := gen.Add(48*time.Hour + time.Duration(birthdayHeight)*600*time.Second + 300*time.Second)
	e, err := walletenv.New(seed, birthday, 0, nil)
	if err != nil {
		return "", err
	}
	defer e.Close()
	c := simchain.New(e.Params)
	e.W.VerifSetChainClient(c)
	e.W.SetChainSynced(true)
	addr, err := e.W.NewAddress(0, waddrmgr.KeyScopeBIP0084)
	if err != nil {
		return "", err
	}
	pk, _ := txscript.PayToAddrScript(addr)
	tx := wire.NewMsgTx(2)
	tx.AddTxIn(wire.NewTxIn(wire.NewOutPoint(&chainhash.Hash{1}, 0), nil, nil))
	tx.AddTxOut(wire.NewTxOut(100000, pk))
	b := c.Extend([]*wire.MsgTx{tx}, nil)
	if err := e.W.VerifConnectBlock(b.Meta()); err != nil {
		return "", err
	}
	rec, _ := wtxmgr.NewTxRecordFromMsgTx(tx, b.Time)
	m := b.Meta()
	if err := e.W.VerifAddRelevantTx(rec, &m); err != nil {
		return "", err
	}
	e.W.Stop()
	e.W.WaitForShutdown()
	e.W = nil
	if err := degrade(e.DB, txVer, addrVer, addrLatest); err != nil {
		return "", err
	}
	if err := e.DB.Close(); err != nil {
		return "", err
	}
	e.DB = nil
	p := filepath.Join(r.dir, "template-"+key+".db")
	if err := copyFile(e.Path, p); err != nil {
		return "", err
	}
	r.templates[key] = p
	return p, nil
}

// ---------------------------------------------------------------- observation

func dumpBucket(w io.Writer, b walletdb.ReadBucket, depth int) error {
	return b.ForEach(func(k, v []byte) error {
		fmt.Fprintf(w, "%d|%x|", depth, k)
		if v == nil {
			if nb := b.NestedReadBucket(k); nb != nil {
				io.WriteString(w, "B\n")
				return dumpBucket(w, nb, depth+1)
			}
		}
		fmt.Fprintf(w, "%x\n", v)
		return nil
	})
}

// dumpNS: a digest of each of the two namespaces.
func dumpNS(db walletdb.DB) (map[string]string, error) {
	out := map[string]string{}
	err := walletdb.View(db, func(tx walletdb.ReadTx) error {
		for _, ns := range [][]byte{wadNS, wtxNS} {
			b := tx.ReadBucket(ns)
			if b == nil {
				return fmt.Errorf("namespace %s missing", ns)
			}
			h := sha256.New()
			if err := dumpBucket(h, b, 0); err != nil {
				return err
			}
			out[string(ns)] = hex.EncodeToString(h.Sum(nil))
		}
		return nil
	})
	return out, err
}

func addrEffects(ns walletdb.ReadBucket) string {
	var b bytes.Buffer
	if bb, err := waddrmgr.FetchBirthdayBlock(ns); err == nil {
		fmt.Fprintf(&b, "birthday_block=%d ", bb.Height)
	} else {
		b.WriteString("birthday_block=none ")
	}
	sync := ns.NestedReadBucket([]byte("sync"))
	if st := sync.Get([]byte("syncedto")); len(st) >= 4 {
		fmt.Fprintf(&b, "synced=%d ", binary.LittleEndian.Uint32(st[:4]))
	}
	n := 0
	_ = sync.ForEach(func(k, v []byte) error {
		if len(k) == 4 && len(v) == 32 {
			n++
		}
		return nil
	})
	fmt.Fprintf(&b, "block_hashes=%d", n)
	return b.String()
}

func txEffects(ns walletdb.ReadBucket) string {
	n := 0
	if t := ns.NestedReadBucket([]byte("t")); t != nil {
		_ = t.ForEach(func(k, v []byte) error { n++; return nil })
	}
	return fmt.Sprintf("mined_tx_records=%d", n)
}

// ---------------------------------------------------------------- one case

var entries = map[string][]string{ // the services the entry touches, in the order it upgrades them
	"wallet_open":  {"wtxmgr", "waddrmgr"}, // corrected from the observed order of writes
	"upgrade_both": {"waddrmgr", "wtxmgr"},
	"upgrade_addr": {"waddrmgr"},
	"upgrade_tx":   {"wtxmgr"},
	"open_addr":    {"waddrmgr"},
	"open_tx":      {"wtxmgr"},
}

// execEntry performs the call of the case on db.
func execEntry(entry string, db walletdb.DB, params *chaincfg.Params) error {
	switch entry {
	case "wallet_open":
		w, err := wallet.OpenWithRetry(db, walletenv.PubPass, nil, params, 0, 10*time.Millisecond)
		if err != nil {
			return err
		}
		w.Start()
		w.Stop()
		w.WaitForShutdown()
		return nil
	case "upgrade_both", "upgrade_addr", "upgrade_tx":
		return walletdb.Update(db, func(dbtx walletdb.ReadWriteTx) error {
			am := waddrmgr.NewMigrationManager(dbtx.ReadWriteBucket(wadNS))
			tm := wtxmgr.NewMigrationManager(dbtx.ReadWriteBucket(wtxNS))
			switch entry {
			case "upgrade_addr":
				return migration.Upgrade(am)
			case "upgrade_tx":
				return migration.Upgrade(tm)
			}
			return migration.Upgrade(am, tm)
		})
	case "open_addr":
		return walletdb.View(db, func(dbtx walletdb.ReadTx) error {
			m, err := waddrmgr.Open(dbtx.ReadBucket(wadNS), walletenv.PubPass, params)
			if err == nil {
				m.Close()
			}
			return err
		})
	case "open_tx":
		return walletdb.View(db, func(dbtx walletdb.ReadTx) error {
			_, err := wtxmgr.Open(dbtx.ReadBucket(wtxNS), params)
			return err
		})
	}
	return fmt.Errorf("unknown entry %q", entry)
}

func versionOfFn(table []realVersion, fn string) (uint32, bool) {
	for _, v := range table {
		if !v.Nil && v.Fn == fn {
			return v.Num, true
		}
	}
	return 0, false
}

func sameU32(a, b []uint32) bool {
	if len(a) != len(b) {
		return false
	}
	for i := range a {
		if a[i] != b[i] {
			return false
		}
	}
	return true
}

// runReal runs one case on a copy of its template.
func (r *realEnv) runReal(in realIn) (*realCase, error) {
	rc := &realCase{In: in, Oracle: []string{}, Tags: []string{"real_components", "entry_" + in.Entry}}
	names, ok := entries[in.Entry]
	if !ok {
		return nil, fmt.Errorf("unknown entry %q", in.Entry)
	}
	txTable, adTable, txLatest, adLatest := tables()
	txVer, err := resolveVersion(in.Tx, txLatest)
	if err != nil {
		return nil, err
	}
	adVer, err := resolveVersion(in.Addr, adLatest)
	if err != nil {
		return nil, err
	}
	tmpl, err := r.template(txVer, adVer, adLatest)
	if err != nil {
		return nil, fmt.Errorf("building the database (txmgr %d, addrmgr %d): %w", txVer, adVer, err)
	}
	path := filepath.Join(r.dir, "case.db")
	if err := copyFile(tmpl, path); err != nil {
		return nil, err
	}
	defer os.Remove(path)
	raw, err := walletenv.OpenDB(path, false)
	if err != nil {
		return nil, err
	}
	defer raw.Close()
	db := &fdb{DB: raw}

	before, err := dumpNS(raw)
	if err != nil {
		return nil, err
	}
	db.failAt = in.FailAt
	db.clear()
	cerr := execEntry(in.Entry, db, r.params)
	db.failAt = 0
	calls := db.calls
	rc.Obs.Writes, rc.Obs.Txs = len(calls), db.txs
	rc.Obs.RepoSite = in.Entry == "wallet_open"
	switch {
	case cerr == nil:
		rc.Obs.Class = "ok"
	case errors.Is(cerr, migration.ErrReversion):
		rc.Obs.Class, rc.Obs.Err = "reversion", cerr.Error()
	default:
		rc.Obs.Class, rc.Obs.Err = "error", cerr.Error()
	}
	after, err := dumpNS(raw)
	if err != nil {
		return nil, err
	}
	rc.Obs.Unchanged = before[string(wadNS)] == after[string(wadNS)] && before[string(wtxNS)] == after[string(wtxNS)]

	// order in which the call upgraded the services: as written, corrected by
	// the order of the first attributed write of each
	seen := map[string]bool{}
	var order []string
	for _, c := range calls {
		if c.Fn != "" && !seen[c.NS] {
			seen[c.NS] = true
			order = append(order, c.NS)
		}
	}
	for _, n := range names {
		if !seen[n] {
			order = append(order, n)
			seen[n] = true
		}
	}
	info := map[string]*realMgr{
		"wtxmgr":   {NS: "wtxmgr", Table: txTable, Latest: txLatest, StoredBefore: txVer},
		"waddrmgr": {NS: "waddrmgr", Table: adTable, Latest: adLatest, StoredBefore: adVer},
	}
	for _, c := range calls {
		m := info[c.NS]
		if m == nil || c.Fn == "" {
			rc.Obs.Unattrib++
			continue
		}
		if strings.HasSuffix(c.Fn, ".SetVersion") {
			m.SetVersion++
			if c.Failed {
				rc.Obs.Fault = &realFault{NS: c.NS, Fn: c.Fn, SetVersion: true}
			}
			continue
		}
		n, ok := versionOfFn(m.Table, c.Fn)
		if !ok {
			rc.Obs.Unattrib++
			continue
		}
		if len(m.Invoked) == 0 || m.Invoked[len(m.Invoked)-1] != n {
			m.Invoked = append(m.Invoked, n)
		}
		if c.Failed {
			rc.Obs.Fault = &realFault{NS: c.NS, Fn: c.Fn, Version: n}
		}
	}
	if f := db.failed(); f != nil && rc.Obs.Fault == nil {
		rc.Obs.Fault = &realFault{NS: f.NS, Fn: f.Fn}
	}
	// versions as the managers read them, from the raw buckets, and what the
	// components' own Open says about the database now
	_ = walletdb.Update(raw, func(dbtx walletdb.ReadWriteTx) error {
		tns, ans := dbtx.ReadWriteBucket(wtxNS), dbtx.ReadWriteBucket(wadNS)
		info["wtxmgr"].VerAfter, _ = wtxmgr.NewMigrationManager(tns).CurrentVersion(nil)
		info["waddrmgr"].VerAfter, _ = waddrmgr.NewMigrationManager(ans).CurrentVersion(nil)
		info["wtxmgr"].RawVerAfter, info["waddrmgr"].RawVerAfter = rawTxVersion(tns), rawAddrVersion(ans)
		info["wtxmgr"].Effects, info["waddrmgr"].Effects = txEffects(tns), addrEffects(ans)
		if _, err := wtxmgr.Open(tns, r.params); err != nil {
			info["wtxmgr"].OpenAfter = err.Error()
		}
		if m, err := waddrmgr.Open(ans, walletenv.PubPass, r.params); err != nil {
			info["waddrmgr"].OpenAfter = err.Error()
		} else {
			m.Close()
		}
		return errors.New("read only: roll back")
	})
	for _, n := range order {
		if m := info[n]; m != nil && contains(names, n) {
			m.Unchanged = before[n] == after[n]
			if m.Invoked == nil {
				m.Invoked = []uint32{}
			}
			rc.Obs.Mgrs = append(rc.Obs.Mgrs, *m)
		}
	}
	rc.Obs.ModelCheck = strings.HasPrefix(in.Entry, "upgrade_") || in.Entry == "wallet_open"
	rc.Oracle = realOracle(in, &rc.Obs)
	// tags
	for _, m := range rc.Obs.Mgrs {
		switch {
		case m.StoredBefore > m.Latest:
			rc.Tags = append(rc.Tags, m.NS+"_newer")
		case m.StoredBefore < m.Latest:
			rc.Tags = append(rc.Tags, m.NS+"_older")
		}
	}
	if rc.Obs.Fault != nil {
		rc.Tags = append(rc.Tags, "real_write_failure")
	}
	return rc, nil
}

func contains(xs []string, x string) bool {
	for _, y := range xs {
		if x == y {
			return true
		}
	}
	return false
}

// expectedInvoked: the non-nil entries of the table numbered above stored,
// ascending, up to and including the version the injected failure landed in.
func expectedInvoked(m *realMgr, upTo uint32, cut bool) []uint32 {
	out := []uint32{}
	for _, v := range m.Table { // sorted by number
		if v.Num <= m.StoredBefore || v.Nil {
			continue
		}
		out = append(out, v.Num)
		if cut && v.Num == upTo {
			break
		}
	}
	return out
}

// realOracle: the property, stated directly on what was observed.
func realOracle(in realIn, o *realObs) []string {
	bad := []string{}
	add := func(k string) {
		for _, b := range bad {
			if b == k {
				return
			}
		}
		bad = append(bad, k)
	}
	newer, pending := false, false
	for _, m := range o.Mgrs {
		if m.StoredBefore > m.Latest {
			newer = true
		}
		if m.StoredBefore < m.Latest {
			pending = true
		}
	}
	if in.Entry == "open_addr" || in.Entry == "open_tx" {
		// the component's own version check
		m := o.Mgrs[0]
		if newer {
			if o.Class == "ok" {
				add("newer_database_not_refused")
			}
			if !o.Unchanged {
				add("newer_database_modified")
			}
		} else if !pending && o.Class != "ok" {
			add("up_to_date_database_refused")
		}
		_ = m
		return bad
	}
	switch {
	case newer:
		if o.Class == "ok" {
			add("newer_database_not_refused")
		}
		if !o.Unchanged {
			// includes: an upgrade of the OTHER service applied by the
			// same call must not survive the refusal
			add("newer_database_modified")
		}
	case o.Fault != nil:
		if o.Class == "ok" {
			add("failed_migration_reported_success")
		}
		for i := range o.Mgrs {
			m := &o.Mgrs[i]
			if m.NS != o.Fault.NS {
				continue
			}
			if m.VerAfter != m.StoredBefore || m.RawVerAfter != int64(m.StoredBefore) {
				add("version_changed_on_error")
			}
			if !m.Unchanged {
				add("data_changed_on_error")
			}
			if !sameU32(m.Invoked, expectedInvoked(m, o.Fault.Version, !o.Fault.SetVersion)) {
				add("invoked_migrations_not_exactly_pending_in_order")
			}
		}
	default:
		if o.Class != "ok" {
			add("clean_upgrade_reported_error")
			break
		}
		for i := range o.Mgrs {
			m := &o.Mgrs[i]
			if m.VerAfter != m.Latest || m.RawVerAfter != int64(m.Latest) {
				add("latest_version_not_recorded")
			}
			if m.OpenAfter != "" {
				add("upgraded_database_not_accepted_by_open")
			}
			if !sameU32(m.Invoked, expectedInvoked(m, 0, false)) {
				add("invoked_migrations_not_exactly_pending_in_order")
			}
		}
		if !pending && !o.Unchanged {
			add("up_to_date_database_modified")
		}
	}
	return bad
}

// writesOf: number of mutating calls the entry makes on the layout when
// nothing fails (run on a scratch copy of the database).
func (r *realEnv) writesOf(in realIn) (int, error) {
	_, _, txLatest, adLatest := tables()
	txVer, err := resolveVersion(in.Tx, txLatest)
	if err != nil {
		return 0, err
	}
	adVer, err := resolveVersion(in.Addr, adLatest)
	if err != nil {
		return 0, err
	}
	tmpl, err := r.template(txVer, adVer, adLatest)
	if err != nil {
		return 0, err
	}
	path := filepath.Join(r.dir, "probe.db")
	if err := copyFile(tmpl, path); err != nil {
		return 0, err
	}
	defer os.Remove(path)
	raw, err := walletenv.OpenDB(path, false)
	if err != nil {
		return 0, err
	}
	defer raw.Close()
	db := &fdb{DB: raw}
	_ = execEntry(in.Entry, db, r.params)
	return len(db.calls), nil
}

// realPlan: the cases of a run.
func (r *realEnv) realPlan(thorough bool) ([]realIn, error) {
	var plan []realIn
	add := func(name, entry, tx, addr string, fails ...int) {
		for _, f := range fails {
			plan = append(plan, realIn{Real: name, Entry: entry, Tx: tx, Addr: addr, FailAt: f})
		}
	}
	// every write of the deepest upgrade through the repository's call site
	deep := realIn{Entry: "wallet_open", Tx: "1", Addr: "5"}
	w, err := r.writesOf(deep)
	if err != nil {
		return nil, err
	}
	add("both_older", "wallet_open", "1", "5", 0)
	for k := 1; k <= w; k++ {
		add("both_older", "wallet_open", "1", "5", k)
	}
	// the other layouts through wallet.Open
	for _, l := range []struct{ name, tx, addr string }{
		{"up_to_date", "latest", "latest"},
		{"addrmgr_v5", "latest", "5"}, {"addrmgr_v6", "latest", "6"}, {"addrmgr_v7", "latest", "7"},
		{"txmgr_older", "1", "latest"},
		{"addrmgr_newer", "latest", "latest+1"}, {"txmgr_newer", "latest+1", "latest"},
		{"both_newer", "latest+2", "latest+3"},
		{"txmgr_older_addrmgr_newer", "1", "latest+1"}, // the txmgr migration runs first and must be rolled back
		{"txmgr_newer_addrmgr_older", "latest+1", "5"},
		{"addrmgr_v6_txmgr_older", "1", "6"},
	} {
		add(l.name, "wallet_open", l.tx, l.addr, 0)
		n, err := r.writesOf(realIn{Entry: "wallet_open", Tx: l.tx, Addr: l.addr})
		if err != nil {
			return nil, err
		}
		if n > 0 {
			ks := []int{1, n}
			if n > 2 {
				ks = append(ks, n/2, n-1)
			}
			if thorough {
				ks = nil
				for k := 1; k <= n; k++ {
					ks = append(ks, k)
				}
			}
			done := map[int]bool{}
			for _, k := range ks {
				if k >= 1 && !done[k] {
					done[k] = true
					add(l.name, "wallet_open", l.tx, l.addr, k)
				}
			}
		}
	}
	// migration.Upgrade called directly
	for _, l := range []struct{ name, entry, tx, addr string }{
		{"direct_both_older", "upgrade_both", "1", "5"},
		{"direct_both_up_to_date", "upgrade_both", "latest", "latest"},
		{"direct_addr_older_tx_newer", "upgrade_both", "latest+1", "6"}, // addrmgr first here: must be rolled back
		{"direct_addr_newer_tx_older", "upgrade_both", "1", "latest+1"},
		{"direct_addr_v5", "upgrade_addr", "latest", "5"}, {"direct_addr_v6", "upgrade_addr", "latest", "6"},
		{"direct_addr_v7", "upgrade_addr", "latest", "7"}, {"direct_addr_newer", "upgrade_addr", "latest", "latest+1"},
		{"direct_addr_up_to_date", "upgrade_addr", "latest", "latest"},
		{"direct_tx_older", "upgrade_tx", "1", "latest"}, {"direct_tx_newer", "upgrade_tx", "latest+1", "latest"},
		{"direct_tx_up_to_date", "upgrade_tx", "latest", "latest"},
	} {
		add(l.name, l.entry, l.tx, l.addr, 0)
		n, err := r.writesOf(realIn{Entry: l.entry, Tx: l.tx, Addr: l.addr})
		if err != nil {
			return nil, err
		}
		if n > 0 {
			add(l.name, l.entry, l.tx, l.addr, n) // the last write: SetVersion of the last service
			if n > 3 {
				add(l.name, l.entry, l.tx, l.addr, n/2)
			}
		}
	}
	// the components' own Open
	for _, l := range []struct{ name, entry, tx, addr string }{
		{"open_addr_up_to_date", "open_addr", "latest", "latest"}, {"open_addr_newer", "open_addr", "latest", "latest+1"},
		{"open_addr_older", "open_addr", "latest", "7"},
		{"open_tx_up_to_date", "open_tx", "latest", "latest"}, {"open_tx_newer", "open_tx", "latest+1", "latest"},
		{"open_tx_older", "open_tx", "1", "latest"},
	} {
		add(l.name, l.entry, l.tx, l.addr, 0)
	}
	return plan, nil
}

func realCases(out *core.Emitter, thorough bool) error {
	r, err := newRealEnv()
	if err != nil {
		return err
	}
	defer r.close()
	plan, err := r.realPlan(thorough)
	if err != nil {
		return fmt.Errorf("real cases: %w", err)
	}
	for _, in := range plan {
		rc, err := r.runReal(in)
		if err != nil {
			return fmt.Errorf("real case %s/%s fail_at=%d: %w", in.Real, in.Entry, in.FailAt, err)
		}
		out.Emit(rc)
	}
	return nil
}
