package main

// A walletdb.DB wrapper for the real-manager cases of C19: it counts the
// mutating calls made inside a read/write transaction, can make the k-th one
// fail (the call does not reach bbolt), and attributes every mutating call to
//   - the top-level namespace it happens in, and
//   - the function that walletdb/migration called to get there: a migration
//     function of a service's version table, or its SetVersion method
// (read off the call stack; nothing in the code under test is touched).
// Same idea as internal/faultdb (property C10), which has no namespace tag.

import (
	"errors"
	"runtime"
	"strings"

	"github.com/btcsuite/btcwallet/walletdb"
)

var errInjected = errors.New("c19: injected write failure")

type fcall struct {
	N      int    `json:"n"`
	Op     string `json:"op"`
	NS     string `json:"ns"`
	Fn     string `json:"fn"` // full name of the function migration.upgrade called, "" outside an upgrade
	Failed bool   `json:"failed,omitempty"`
}

type fdb struct {
	walletdb.DB
	failAt int // 1-based mutating call that fails in every following rw transaction; 0 = none
	calls  []fcall
	txs    int // read/write transactions begun since the last clear
}

func (d *fdb) clear() { d.calls, d.txs = nil, 0 }

func (d *fdb) failed() *fcall {
	for i := range d.calls {
		if d.calls[i].Failed {
			return &d.calls[i]
		}
	}
	return nil
}

const migrationPkg = "btcwallet/walletdb/migration."

// calledByMigration: the frame just inside the innermost frame of package
// walletdb/migration.
func calledByMigration() string {
	var pcs [64]uintptr
	n := runtime.Callers(3, pcs[:])
	frames := runtime.CallersFrames(pcs[:n])
	prev := ""
	for {
		fr, more := frames.Next()
		if strings.Contains(fr.Function, migrationPkg) {
			return prev
		}
		prev = fr.Function
		if !more {
			return ""
		}
	}
}

func (d *fdb) before(op, ns string) error {
	c := fcall{N: len(d.calls) + 1, Op: op, NS: ns, Fn: calledByMigration()}
	if d.failAt > 0 && c.N == d.failAt {
		c.Failed = true
		d.calls = append(d.calls, c)
		return errInjected
	}
	d.calls = append(d.calls, c)
	return nil
}

func (d *fdb) BeginReadWriteTx() (walletdb.ReadWriteTx, error) {
	tx, err := d.DB.BeginReadWriteTx()
	if err != nil {
		return nil, err
	}
	d.txs++
	return &ftx{ReadWriteTx: tx, d: d}, nil
}

// Update commits when f returned nil and rolls back
// otherwise, like the bdb backend does.  The counter of mutating calls runs
// on across transactions until clear().
func (d *fdb) Update(f func(tx walletdb.ReadWriteTx) error, reset func()) error {
	reset()
	tx, err := d.BeginReadWriteTx()
	if err != nil {
		return err
	}
	done := false
	defer func() {
		if !done {
			_ = tx.Rollback()
		}
	}()
	err = f(tx)
	done = true
	if err != nil {
		_ = tx.Rollback()
		return err
	}
	return tx.Commit()
}

type ftx struct {
	walletdb.ReadWriteTx
	d *fdb
}

func (t *ftx) wrap(b walletdb.ReadWriteBucket, ns string) walletdb.ReadWriteBucket {
	if b == nil {
		return nil
	}
	return &fbucket{ReadWriteBucket: b, t: t, ns: ns}
}

func (t *ftx) ReadBucket(key []byte) walletdb.ReadBucket {
	b := t.ReadWriteTx.ReadWriteBucket(key)
	if b == nil {
		return nil
	}
	return &fbucket{ReadWriteBucket: b, t: t, ns: string(key)}
}

func (t *ftx) ReadWriteBucket(key []byte) walletdb.ReadWriteBucket {
	return t.wrap(t.ReadWriteTx.ReadWriteBucket(key), string(key))
}

func (t *ftx) CreateTopLevelBucket(key []byte) (walletdb.ReadWriteBucket, error) {
	if err := t.d.before("CreateTopLevelBucket", string(key)); err != nil {
		return nil, err
	}
	b, err := t.ReadWriteTx.CreateTopLevelBucket(key)
	if err != nil {
		return nil, err
	}
	return t.wrap(b, string(key)), nil
}

func (t *ftx) DeleteTopLevelBucket(key []byte) error {
	if err := t.d.before("DeleteTopLevelBucket", string(key)); err != nil {
		return err
	}
	return t.ReadWriteTx.DeleteTopLevelBucket(key)
}

type fbucket struct {
	walletdb.ReadWriteBucket
	t  *ftx
	ns string
}

func (b *fbucket) NestedReadBucket(key []byte) walletdb.ReadBucket {
	n := b.ReadWriteBucket.NestedReadWriteBucket(key)
	if n == nil {
		return nil
	}
	return &fbucket{ReadWriteBucket: n, t: b.t, ns: b.ns}
}

func (b *fbucket) NestedReadWriteBucket(key []byte) walletdb.ReadWriteBucket {
	return b.t.wrap(b.ReadWriteBucket.NestedReadWriteBucket(key), b.ns)
}

func (b *fbucket) CreateBucket(key []byte) (walletdb.ReadWriteBucket, error) {
	if err := b.t.d.before("CreateBucket", b.ns); err != nil {
		return nil, err
	}
	n, err := b.ReadWriteBucket.CreateBucket(key)
	if err != nil {
		return nil, err
	}
	return b.t.wrap(n, b.ns), nil
}

func (b *fbucket) CreateBucketIfNotExists(key []byte) (walletdb.ReadWriteBucket, error) {
	if err := b.t.d.before("CreateBucketIfNotExists", b.ns); err != nil {
		return nil, err
	}
	n, err := b.ReadWriteBucket.CreateBucketIfNotExists(key)
	if err != nil {
		return nil, err
	}
	return b.t.wrap(n, b.ns), nil
}

func (b *fbucket) DeleteNestedBucket(key []byte) error {
	if err := b.t.d.before("DeleteNestedBucket", b.ns); err != nil {
		return err
	}
	return b.ReadWriteBucket.DeleteNestedBucket(key)
}

func (b *fbucket) Put(key, value []byte) error {
	if err := b.t.d.before("Put", b.ns); err != nil {
		return err
	}
	return b.ReadWriteBucket.Put(key, value)
}

func (b *fbucket) Delete(key []byte) error {
	if err := b.t.d.before("Delete", b.ns); err != nil {
		return err
	}
	return b.ReadWriteBucket.Delete(key)
}

func (b *fbucket) NextSequence() (uint64, error) {
	if err := b.t.d.before("NextSequence", b.ns); err != nil {
		return 0, err
	}
	return b.ReadWriteBucket.NextSequence()
}

func (b *fbucket) SetSequence(v uint64) error {
	if err := b.t.d.before("SetSequence", b.ns); err != nil {
		return err
	}
	return b.ReadWriteBucket.SetSequence(v)
}

func (b *fbucket) ReadWriteCursor() walletdb.ReadWriteCursor {
	return &fcursor{ReadWriteCursor: b.ReadWriteBucket.ReadWriteCursor(), b: b}
}

func (b *fbucket) Tx() walletdb.ReadWriteTx { return b.t }

type fcursor struct {
	walletdb.ReadWriteCursor
	b *fbucket
}

func (c *fcursor) Delete() error {
	if err := c.b.t.d.before("Cursor.Delete", c.b.ns); err != nil {
		return err
	}
	return c.ReadWriteCursor.Delete()
}
