package main

import (
	"encoding/binary"
	"encoding/json"
	"errors"
	"fmt"
	"os"
	"path/filepath"
	"sort"
	"time"

	"github.com/btcsuite/btcwallet/walletdb"
	_ "github.com/btcsuite/btcwallet/walletdb/bdb"
	"github.com/btcsuite/btcwallet/walletdb/migration"

	"verifharness/internal/core"
	"verifharness/internal/gen"
)

// c19Version: Kind is "nil", "ok" or "fail"; ID is the effect key the
// migration writes into the namespace.
type c19Version struct {
	Num  uint32 `json:"num"`
	Kind string `json:"kind"`
	ID   uint32 `json:"id"`
}

type c19Input struct {
	Versions []c19Version `json:"versions"`
	Stored   uint32       `json:"stored"`
	Data     []uint32     `json:"data"`
}

type c19Obs struct {
	Outcome  string   `json:"outcome"` // ok | reversion | migfail:<n> | other:<msg>
	Invoked  []uint32 `json:"invoked"`
	StoredTx uint32   `json:"stored_in_tx"`
	Stored   uint32   `json:"stored"` // after the enclosing Update returned
	Data     []uint32 `json:"data"`   // namespace effect log after the Update returned
	SetCalls int      `json:"set_version_calls"`
}

type c19Case struct {
	In  c19Input `json:"in"`
	Obs c19Obs   `json:"obs"`
	// Oracle: direct statement of the property on what the implementation
	// did (empty = property holds on this case).
	Oracle []string `json:"oracle"`
	Tags   []string `json:"tags"`
}

var (
	c19NS      = []byte("svc")
	c19VerKey  = []byte("version")
	c19DataBkt = []byte("data")
)

type c19Mgr struct {
	ns       walletdb.ReadWriteBucket
	versions []migration.Version
	invoked  *[]uint32
	setCalls *int
}

func (m *c19Mgr) Name() string                          { return "svc" }
func (m *c19Mgr) Namespace() walletdb.ReadWriteBucket   { return m.ns }
func (m *c19Mgr) Versions() []migration.Version         { return m.versions }
func (m *c19Mgr) CurrentVersion(ns walletdb.ReadBucket) (uint32, error) {
	if ns == nil {
		ns = m.ns
	}
	v := ns.Get(c19VerKey)
	if v == nil {
		return 0, nil
	}
	return binary.BigEndian.Uint32(v), nil
}
func (m *c19Mgr) SetVersion(ns walletdb.ReadWriteBucket, v uint32) error {
	*m.setCalls++
	var b [4]byte
	binary.BigEndian.PutUint32(b[:], v)
	return ns.Put(c19VerKey, b[:])
}

type c19MigErr struct{ n uint32 }

func (e c19MigErr) Error() string { return fmt.Sprintf("migration %d failed", e.n) }

func c19AppendData(ns walletdb.ReadWriteBucket, id uint32) error {
	b, err := ns.CreateBucketIfNotExists(c19DataBkt)
	if err != nil {
		return err
	}
	seq, err := b.NextSequence()
	if err != nil {
		return err
	}
	var k [8]byte
	var v [4]byte
	binary.BigEndian.PutUint64(k[:], seq)
	binary.BigEndian.PutUint32(v[:], id)
	return b.Put(k[:], v[:])
}

func c19ReadData(ns walletdb.ReadBucket) []uint32 {
	out := []uint32{}
	b := ns.NestedReadBucket(c19DataBkt)
	if b == nil {
		return out
	}
	_ = b.ForEach(func(k, v []byte) error {
		out = append(out, binary.BigEndian.Uint32(v))
		return nil
	})
	return out
}

func c19Run(dir string, in c19Input) (c19Obs, error) {
	obs := c19Obs{Invoked: []uint32{}}
	path := filepath.Join(dir, "c19.db")
	os.Remove(path)
	db, err := walletdb.Create("bdb", path, true, time.Minute, false)
	if err != nil {
		return obs, err
	}
	defer func() { db.Close(); os.Remove(path) }()

	// initial state
	err = walletdb.Update(db, func(tx walletdb.ReadWriteTx) error {
		ns, err := tx.CreateTopLevelBucket(c19NS)
		if err != nil {
			return err
		}
		var b [4]byte
		binary.BigEndian.PutUint32(b[:], in.Stored)
		if err := ns.Put(c19VerKey, b[:]); err != nil {
			return err
		}
		for _, d := range in.Data {
			if err := c19AppendData(ns, d); err != nil {
				return err
			}
		}
		return nil
	})
	if err != nil {
		return obs, err
	}

	setCalls := 0
	uerr := walletdb.Update(db, func(tx walletdb.ReadWriteTx) error {
		ns := tx.ReadWriteBucket(c19NS)
		vs := make([]migration.Version, len(in.Versions))
		for i, v := range in.Versions {
			v := v
			vs[i].Number = v.Num
			switch v.Kind {
			case "nil":
			case "ok":
				vs[i].Migration = func(b walletdb.ReadWriteBucket) error {
					obs.Invoked = append(obs.Invoked, v.Num)
					return c19AppendData(b, v.ID)
				}
			case "fail":
				vs[i].Migration = func(b walletdb.ReadWriteBucket) error {
					obs.Invoked = append(obs.Invoked, v.Num)
					if err := c19AppendData(b, v.ID); err != nil {
						return err
					}
					return c19MigErr{v.Num}
				}
			}
		}
		m := &c19Mgr{ns: ns, versions: vs, invoked: &obs.Invoked, setCalls: &setCalls}
		err := migration.Upgrade(m)
		cur, _ := m.CurrentVersion(ns)
		obs.StoredTx = cur
		return err
	})
	obs.SetCalls = setCalls
	var me c19MigErr
	switch {
	case uerr == nil:
		obs.Outcome = "ok"
	case errors.Is(uerr, migration.ErrReversion):
		obs.Outcome = "reversion"
	case errors.As(uerr, &me):
		obs.Outcome = fmt.Sprintf("migfail:%d", me.n)
	default:
		obs.Outcome = "other:" + uerr.Error()
	}
	err = walletdb.View(db, func(tx walletdb.ReadTx) error {
		ns := tx.ReadBucket(c19NS)
		obs.Stored = binary.BigEndian.Uint32(ns.Get(c19VerKey))
		obs.Data = c19ReadData(ns)
		return nil
	})
	return obs, err
}

// c19Oracle states the property directly on the observation.
func c19Oracle(in c19Input, o c19Obs) []string {
	var bad []string
	latest := uint32(0)
	for _, v := range in.Versions {
		if v.Num > latest {
			latest = v.Num
		}
	}
	// pending numbers ascending (non-nil only are observable)
	var pend []c19Version
	for _, v := range in.Versions {
		if v.Num > in.Stored {
			pend = append(pend, v)
		}
	}
	sort.SliceStable(pend, func(i, j int) bool { return pend[i].Num < pend[j].Num })
	same := func(a, b []uint32) bool {
		if len(a) != len(b) {
			return false
		}
		for i := range a {
			if a[i] != b[i] {
				return false
			}
		}
		return true
	}
	switch {
	case in.Stored > latest:
		if o.Outcome != "reversion" {
			bad = append(bad, "newer_database_not_refused")
		}
		if len(o.Invoked) != 0 || o.SetCalls != 0 {
			bad = append(bad, "newer_database_modified")
		}
	default:
		want := []uint32{}
		failed := false
		for _, v := range pend {
			if v.Kind == "nil" {
				continue
			}
			want = append(want, v.Num)
			if v.Kind == "fail" {
				failed = true
				break
			}
		}
		if !same(want, o.Invoked) {
			bad = append(bad, "invoked_migrations_not_exactly_pending_in_order")
		}
		if failed {
			if o.Outcome == "ok" {
				bad = append(bad, "failed_migration_reported_success")
			}
		} else {
			if o.Outcome != "ok" {
				bad = append(bad, "clean_upgrade_reported_error")
			} else if o.Stored != latest {
				bad = append(bad, "latest_version_not_recorded")
			}
		}
	}
	if o.Outcome != "ok" {
		if o.Stored != in.Stored {
			bad = append(bad, "version_changed_on_error")
		}
		if !same(o.Data, in.Data) {
			bad = append(bad, "data_changed_on_error")
		}
	}
	return bad
}

func c19Gen(r *gen.R) (c19Input, []string) {
	var in c19Input
	var tags []string
	in.Versions = []c19Version{}
	n := r.Pick(1, 2, 3, 4, 4, 3, 2, 1) // 0..7 entries
	nums := map[uint32]bool{}
	nextID := uint32(100)
	hasFail, hasNil := false, false
	for i := 0; i < n; i++ {
		var num uint32
		for {
			num = uint32(r.Range(0, 12))
			if r.Chance(1, 20) {
				num = uint32(4000000000 + r.Range(0, 5))
			}
			if !nums[num] {
				break
			}
		}
		nums[num] = true
		k := r.Pick(6, 2, 1)
		kind := []string{"ok", "nil", "fail"}[k]
		if kind == "fail" {
			hasFail = true
		}
		if kind == "nil" {
			hasNil = true
		}
		nextID++
		in.Versions = append(in.Versions, c19Version{Num: num, Kind: kind, ID: nextID})
	}
	// duplicate numbers: only nil duplicates (sort.Slice is not stable, so
	// the relative order of equal numbers is unspecified in the code)
	if n > 0 && r.Chance(1, 8) {
		v := in.Versions[r.Intn(n)]
		if v.Kind == "nil" {
			in.Versions = append(in.Versions, c19Version{Num: v.Num, Kind: "nil", ID: 0})
			tags = append(tags, "dup_nil")
		}
	}
	latest := uint32(0)
	for _, v := range in.Versions {
		if v.Num > latest {
			latest = v.Num
		}
	}
	switch r.Pick(5, 2, 2, 1) {
	case 0:
		in.Stored = uint32(r.Range(0, int(min64(int64(latest), 13))))
	case 1:
		in.Stored = latest
	case 2:
		in.Stored = latest + uint32(r.Range(1, 3))
	case 3:
		in.Stored = 0
	}
	in.Data = []uint32{}
	for i := r.Range(0, 3); i > 0; i-- {
		in.Data = append(in.Data, uint32(r.Range(1, 50)))
	}
	sorted := sort.SliceIsSorted(in.Versions, func(i, j int) bool { return in.Versions[i].Num < in.Versions[j].Num })
	if !sorted {
		tags = append(tags, "unordered")
	}
	if hasFail {
		tags = append(tags, "has_fail")
	}
	if hasNil {
		tags = append(tags, "has_nil")
	}
	switch {
	case in.Stored > latest:
		tags = append(tags, "stored_above")
	case in.Stored == latest:
		tags = append(tags, "stored_at")
	default:
		tags = append(tags, "stored_below")
	}
	return in, tags
}

func min64(a, b int64) int64 {
	if a < b {
		return a
	}
	return b
}

func main() {
	core.Main("c19", nil, func(c *core.Common, out *core.Emitter) error {
		dir, err := os.MkdirTemp("", "vh-c19-")
		if err != nil {
			return err
		}
		defer os.RemoveAll(dir)
		runOne := func(in c19Input, tags []string) error {
			obs, err := c19Run(dir, in)
			if err != nil {
				return err
			}
			out.Emit(c19Case{In: in, Obs: obs, Oracle: append([]string{}, c19Oracle(in, obs)...), Tags: tags})
			return nil
		}
		if c.Replay != "" {
			return core.ReadReplay(c.Replay, func(raw json.RawMessage) error {
				var cs struct {
					In c19Input `json:"in"`
				}
				if err := json.Unmarshal(raw, &cs); err != nil {
					return err
				}
				return runOne(cs.In, []string{"replay"})
			})
		}
		// The real migration managers of wtxmgr and waddrmgr through
		// wallet.Open (one database transaction for both components).
		if err := realCases(out); err != nil {
			return err
		}
		r := gen.New(c.Seed, 19)
		// Systematic part: a failure injected at every position of a fixed
		// unordered table, for every stored version around the range.
		base := []c19Version{{5, "ok", 1}, {2, "nil", 2}, {9, "ok", 3}, {3, "ok", 4}, {7, "ok", 5}, {1, "ok", 6}}
		for pos := -1; pos < len(base); pos++ {
			for stored := uint32(0); stored <= 11; stored++ {
				vs := append([]c19Version{}, base...)
				tags := []string{"systematic"}
				if pos >= 0 {
					if vs[pos].Kind == "nil" {
						continue
					}
					vs[pos].Kind = "fail"
				}
				if err := runOne(c19Input{Versions: vs, Stored: stored, Data: []uint32{42}}, tags); err != nil {
					return err
				}
			}
		}
		for i := 0; i < c.N; i++ {
			in, tags := c19Gen(r)
			if err := runOne(in, tags); err != nil {
				return err
			}
		}
		return nil
	})
}
