package main

import (
	"encoding/binary"
	"encoding/json"
	"errors"
	"flag"
	"fmt"
	"os"
	"path/filepath"
	"sort"
	"time"

	"github.com/btcsuite/btcwallet/walletdb"
	_ "github.com/btcsuite/btcwallet/walletdb/bdb"
	"github.com/btcsuite/btcwallet/walletdb/migration"

	"verifharness/internal/core"
	"verifharness/internal/gen"
)

// c19Version: Kind is "nil", "ok" or "fail"; ID is the effect key the
// migration writes into the namespace ("fail": writes it, then returns an error).
type c19Version struct {
	Num  uint32 `json:"num"`
	Kind string `json:"kind"`
	ID   uint32 `json:"id"`
}

// c19Svc is one service handed to migration.Upgrade: its version table, the
// state of its namespace, and whether its SetVersion fails.
type c19Svc struct {
	Versions  []c19Version `json:"versions"`
	Stored    uint32       `json:"stored"`
	Data      []uint32     `json:"data"`
	SetvFails bool         `json:"setv_fails,omitempty"`
}

// c19Input: Upgrade(mgrs...) inside one walletdb.Update.  (Replay files of
// the single-service format {"versions","stored","data"} are still read.)
type c19Input struct {
	Mgrs []c19Svc `json:"mgrs"`
	// legacy single-service fields
	Versions []c19Version `json:"versions,omitempty"`
	Stored   uint32       `json:"stored,omitempty"`
	Data     []uint32     `json:"data,omitempty"`
}

type c19SvcObs struct {
	Invoked  []uint32 `json:"invoked"`
	StoredTx uint32   `json:"stored_in_tx"`
	Stored   uint32   `json:"stored"` // after the enclosing Update returned
	Data     []uint32 `json:"data"`   // namespace effect log after the Update returned
	SetCalls int      `json:"set_version_calls"`
}

type c19Obs struct {
	Outcome string      `json:"outcome"` // ok | reversion | migfail:<n> | setvfail | other:<msg>
	FailMgr int         `json:"failing_mgr"`
	Mgrs    []c19SvcObs `json:"mgrs"`
}

type c19Case struct {
	In  c19Input `json:"in"`
	Obs c19Obs   `json:"obs"`
	// Oracle: direct statement of the property on what the implementation
	// did (empty = property holds on this case).
	Oracle []string `json:"oracle"`
	Tags   []string `json:"tags"`
}

var (
	c19VerKey  = []byte("version")
	c19DataBkt = []byte("data")
)

func c19NS(i int) []byte { return []byte(fmt.Sprintf("svc%d", i)) }

type c19Mgr struct {
	idx      int
	ns       walletdb.ReadWriteBucket
	versions []migration.Version
	setCalls *int
	setFails bool
}

func (m *c19Mgr) Name() string                        { return fmt.Sprintf("svc%d", m.idx) }
func (m *c19Mgr) Namespace() walletdb.ReadWriteBucket { return m.ns }
func (m *c19Mgr) Versions() []migration.Version       { return m.versions }
func (m *c19Mgr) CurrentVersion(ns walletdb.ReadBucket) (uint32, error) {
	if ns == nil {
		ns = m.ns
	}
	v := ns.Get(c19VerKey)
	if v == nil {
		return 0, nil
	}
	return binary.BigEndian.Uint32(v), nil
}
func (m *c19Mgr) SetVersion(ns walletdb.ReadWriteBucket, v uint32) error {
	*m.setCalls++
	if m.setFails {
		return c19SetvErr{m.idx}
	}
	var b [4]byte
	binary.BigEndian.PutUint32(b[:], v)
	return ns.Put(c19VerKey, b[:])
}

type c19MigErr struct {
	mgr int
	n   uint32
}

func (e c19MigErr) Error() string { return fmt.Sprintf("service %d: migration %d failed", e.mgr, e.n) }

type c19SetvErr struct{ mgr int }

func (e c19SetvErr) Error() string { return fmt.Sprintf("service %d: SetVersion failed", e.mgr) }

func c19AppendData(ns walletdb.ReadWriteBucket, id uint32) error {
	b, err := ns.CreateBucketIfNotExists(c19DataBkt)
	if err != nil {
		return err
	}
	seq, err := b.NextSequence()
	if err != nil {
		return err
	}
	var k [8]byte
	var v [4]byte
	binary.BigEndian.PutUint64(k[:], seq)
	binary.BigEndian.PutUint32(v[:], id)
	return b.Put(k[:], v[:])
}

func c19ReadData(ns walletdb.ReadBucket) []uint32 {
	out := []uint32{}
	b := ns.NestedReadBucket(c19DataBkt)
	if b == nil {
		return out
	}
	_ = b.ForEach(func(k, v []byte) error {
		out = append(out, binary.BigEndian.Uint32(v))
		return nil
	})
	return out
}

func (in *c19Input) normalize() {
	if len(in.Mgrs) == 0 {
		in.Mgrs = []c19Svc{{Versions: in.Versions, Stored: in.Stored, Data: in.Data}}
	}
	in.Versions, in.Stored, in.Data = nil, 0, nil
	for i := range in.Mgrs {
		if in.Mgrs[i].Versions == nil {
			in.Mgrs[i].Versions = []c19Version{}
		}
		if in.Mgrs[i].Data == nil {
			in.Mgrs[i].Data = []uint32{}
		}
	}
}

func c19Run(dir string, in c19Input) (c19Obs, error) {
	obs := c19Obs{FailMgr: -1, Mgrs: make([]c19SvcObs, len(in.Mgrs))}
	for i := range obs.Mgrs {
		obs.Mgrs[i].Invoked = []uint32{}
	}
	path := filepath.Join(dir, "c19.db")
	os.Remove(path)
	db, err := walletdb.Create("bdb", path, true, time.Minute, false)
	if err != nil {
		return obs, err
	}
	defer func() { db.Close(); os.Remove(path) }()

	// initial state
	err = walletdb.Update(db, func(tx walletdb.ReadWriteTx) error {
		for i, s := range in.Mgrs {
			ns, err := tx.CreateTopLevelBucket(c19NS(i))
			if err != nil {
				return err
			}
			var b [4]byte
			binary.BigEndian.PutUint32(b[:], s.Stored)
			if err := ns.Put(c19VerKey, b[:]); err != nil {
				return err
			}
			for _, d := range s.Data {
				if err := c19AppendData(ns, d); err != nil {
					return err
				}
			}
		}
		return nil
	})
	if err != nil {
		return obs, err
	}

	// the call under test: ONE walletdb.Update around ONE Upgrade(mgrs...)
	// whose error the closure returns
	uerr := walletdb.Update(db, func(tx walletdb.ReadWriteTx) error {
		mgrs := make([]migration.Manager, len(in.Mgrs))
		own := make([]*c19Mgr, len(in.Mgrs))
		for i, s := range in.Mgrs {
			i := i
			vs := make([]migration.Version, len(s.Versions))
			for j, v := range s.Versions {
				v := v
				vs[j].Number = v.Num
				switch v.Kind {
				case "nil":
				case "ok":
					vs[j].Migration = func(b walletdb.ReadWriteBucket) error {
						obs.Mgrs[i].Invoked = append(obs.Mgrs[i].Invoked, v.Num)
						return c19AppendData(b, v.ID)
					}
				case "fail":
					vs[j].Migration = func(b walletdb.ReadWriteBucket) error {
						obs.Mgrs[i].Invoked = append(obs.Mgrs[i].Invoked, v.Num)
						if err := c19AppendData(b, v.ID); err != nil {
							return err
						}
						return c19MigErr{i, v.Num}
					}
				}
			}
			own[i] = &c19Mgr{idx: i, ns: tx.ReadWriteBucket(c19NS(i)), versions: vs,
				setCalls: &obs.Mgrs[i].SetCalls, setFails: s.SetvFails}
			mgrs[i] = own[i]
		}
		err := migration.Upgrade(mgrs...)
		for i, m := range own {
			obs.Mgrs[i].StoredTx, _ = m.CurrentVersion(nil)
		}
		return err
	})
	var me c19MigErr
	var se c19SetvErr
	switch {
	case uerr == nil:
		obs.Outcome = "ok"
	case errors.Is(uerr, migration.ErrReversion):
		obs.Outcome = "reversion"
	case errors.As(uerr, &me):
		obs.Outcome, obs.FailMgr = fmt.Sprintf("migfail:%d", me.n), me.mgr
	case errors.As(uerr, &se):
		obs.Outcome, obs.FailMgr = "setvfail", se.mgr
	default:
		obs.Outcome = "other:" + uerr.Error()
	}
	err = walletdb.View(db, func(tx walletdb.ReadTx) error {
		for i := range in.Mgrs {
			ns := tx.ReadBucket(c19NS(i))
			obs.Mgrs[i].Stored = binary.BigEndian.Uint32(ns.Get(c19VerKey))
			obs.Mgrs[i].Data = c19ReadData(ns)
		}
		return nil
	})
	return obs, err
}

func sameList(a, b []uint32) bool {
	if len(a) != len(b) {
		return false
	}
	for i := range a {
		if a[i] != b[i] {
			return false
		}
	}
	return true
}

func isPrefix(a, b []uint32) bool { return len(a) <= len(b) && sameList(a, b[:len(a)]) }

func latestOfSvc(s c19Svc) uint32 {
	l := uint32(0)
	for _, v := range s.Versions {
		if v.Num > l {
			l = v.Num
		}
	}
	return l
}

// wantInvoked: the non-nil entries numbered above the stored version,
// ascending, up to and including the first failing one.
func wantInvoked(s c19Svc) (want []uint32, failed bool) {
	var pend []c19Version
	for _, v := range s.Versions {
		if v.Num > s.Stored {
			pend = append(pend, v)
		}
	}
	sort.SliceStable(pend, func(i, j int) bool { return pend[i].Num < pend[j].Num })
	want = []uint32{}
	for _, v := range pend {
		if v.Kind == "nil" {
			continue
		}
		want = append(want, v.Num)
		if v.Kind == "fail" {
			return want, true
		}
	}
	return want, false
}

// c19Oracle states the property directly on the observation.  Nothing is
// demanded about the order in which the services of one call are upgraded.
func c19Oracle(in c19Input, o c19Obs) []string {
	var bad []string
	add := func(k string) {
		for _, b := range bad {
			if b == k {
				return
			}
		}
		bad = append(bad, k)
	}
	newer, mustFail := false, false
	for _, s := range in.Mgrs {
		l := latestOfSvc(s)
		if s.Stored > l {
			newer = true
		} else if s.Stored < l {
			if _, f := wantInvoked(s); f || s.SetvFails {
				mustFail = true
			}
		}
	}
	if newer {
		if o.Outcome == "ok" {
			add("newer_database_not_refused")
		}
		for i, s := range in.Mgrs {
			if o.Mgrs[i].Stored != s.Stored || !sameList(o.Mgrs[i].Data, s.Data) {
				add("newer_database_modified")
			}
		}
	}
	for i, s := range in.Mgrs {
		l := latestOfSvc(s)
		if s.Stored > l {
			if len(o.Mgrs[i].Invoked) != 0 || o.Mgrs[i].SetCalls != 0 {
				add("newer_database_modified")
			}
			continue
		}
		want, _ := wantInvoked(s)
		exact := o.Outcome == "ok" || o.FailMgr == i
		if exact && !sameList(want, o.Mgrs[i].Invoked) || !exact && !isPrefix(o.Mgrs[i].Invoked, want) {
			add("invoked_migrations_not_exactly_pending_in_order")
		}
		if o.Outcome == "ok" && o.Mgrs[i].Stored != l {
			add("latest_version_not_recorded")
		}
	}
	if !newer {
		if mustFail && o.Outcome == "ok" {
			add("failed_migration_reported_success")
		}
		if !mustFail && o.Outcome != "ok" {
			add("clean_upgrade_reported_error")
		}
	}
	if o.Outcome != "ok" {
		for i, s := range in.Mgrs {
			if o.Mgrs[i].Stored != s.Stored {
				add("version_changed_on_error")
			}
			if !sameList(o.Mgrs[i].Data, s.Data) {
				add("data_changed_on_error")
			}
		}
	}
	return bad
}

func c19GenSvc(r *gen.R, nextID *uint32) (c19Svc, []string) {
	var s c19Svc
	var tags []string
	s.Versions = []c19Version{}
	n := r.Pick(1, 2, 3, 4, 4, 3, 2, 1) // 0..7 entries
	nums := map[uint32]bool{}
	hasFail, hasNil := false, false
	for i := 0; i < n; i++ {
		var num uint32
		for {
			num = uint32(r.Range(0, 12))
			if r.Chance(1, 20) {
				num = uint32(4000000000 + r.Range(0, 5))
			}
			if !nums[num] {
				break
			}
		}
		nums[num] = true
		k := r.Pick(6, 2, 1)
		kind := []string{"ok", "nil", "fail"}[k]
		if kind == "fail" {
			hasFail = true
		}
		if kind == "nil" {
			hasNil = true
		}
		*nextID++
		s.Versions = append(s.Versions, c19Version{Num: num, Kind: kind, ID: *nextID})
	}
	// duplicate numbers: only nil duplicates (sort.Slice is not stable, so
	// the relative order of equal numbers is unspecified in the code)
	if n > 0 && r.Chance(1, 8) {
		v := s.Versions[r.Intn(n)]
		if v.Kind == "nil" {
			s.Versions = append(s.Versions, c19Version{Num: v.Num, Kind: "nil", ID: 0})
			tags = append(tags, "dup_nil")
		}
	}
	latest := latestOfSvc(s)
	switch r.Pick(5, 2, 2, 1) {
	case 0:
		s.Stored = uint32(r.Range(0, int(min64(int64(latest), 13))))
	case 1:
		s.Stored = latest
	case 2:
		s.Stored = latest + uint32(r.Range(1, 3))
	case 3:
		s.Stored = 0
	}
	s.Data = []uint32{}
	for i := r.Range(0, 3); i > 0; i-- {
		s.Data = append(s.Data, uint32(r.Range(1, 50)))
	}
	if r.Chance(1, 10) {
		s.SetvFails = true
		tags = append(tags, "setversion_fails")
	}
	sorted := sort.SliceIsSorted(s.Versions, func(i, j int) bool { return s.Versions[i].Num < s.Versions[j].Num })
	if !sorted {
		tags = append(tags, "unordered")
	}
	if hasFail {
		tags = append(tags, "has_fail")
	}
	if hasNil {
		tags = append(tags, "has_nil")
	}
	switch {
	case s.Stored > latest:
		tags = append(tags, "stored_above")
	case s.Stored == latest:
		tags = append(tags, "stored_at")
	default:
		tags = append(tags, "stored_below")
	}
	return s, tags
}

func c19Gen(r *gen.R) (c19Input, []string) {
	var in c19Input
	nextID := uint32(100)
	n := 1 + r.Pick(6, 3, 1) // 1..3 services
	tagset := map[string]bool{}
	for i := 0; i < n; i++ {
		s, tags := c19GenSvc(r, &nextID)
		in.Mgrs = append(in.Mgrs, s)
		for _, t := range tags {
			tagset[t] = true
		}
	}
	tags := []string{fmt.Sprintf("services_%d", n)}
	for t := range tagset {
		tags = append(tags, t)
	}
	sort.Strings(tags)
	return in, tags
}

func min64(a, b int64) int64 {
	if a < b {
		return a
	}
	return b
}

func main() {
	probe := false
	core.Main("c19", func(fs *flag.FlagSet) {
		fs.BoolVar(&probe, "probe", false, "determine the facts of Generated/MigrateFacts.v behaviourally and print them")
	}, func(c *core.Common, out *core.Emitter) error {
		dir, err := os.MkdirTemp("", "vh-c19-")
		if err != nil {
			return err
		}
		defer os.RemoveAll(dir)
		if probe {
			return runProbe(dir)
		}
		runOne := func(in c19Input, tags []string) error {
			in.normalize()
			obs, err := c19Run(dir, in)
			if err != nil {
				return err
			}
			out.Emit(c19Case{In: in, Obs: obs, Oracle: append([]string{}, c19Oracle(in, obs)...), Tags: tags})
			return nil
		}
		if c.Replay != "" {
			var renv *realEnv
			defer func() {
				if renv != nil {
					renv.close()
				}
			}()
			return core.ReadReplay(c.Replay, func(raw json.RawMessage) error {
				var rs struct {
					In realIn `json:"in"`
				}
				if err := json.Unmarshal(raw, &rs); err == nil && rs.In.Real != "" {
					if renv == nil {
						if renv, err = newRealEnv(); err != nil {
							return err
						}
					}
					rc, err := renv.runReal(rs.In)
					if err != nil {
						return err
					}
					rc.Tags = append(rc.Tags, "replay")
					out.Emit(rc)
					return nil
				}
				var cs struct {
					In c19Input `json:"in"`
				}
				if err := json.Unmarshal(raw, &cs); err != nil {
					return err
				}
				return runOne(cs.In, []string{"replay"})
			})
		}
		// The real migration managers of wtxmgr and waddrmgr: through
		// wallet.Open, through migration.Upgrade, and their own Open.
		if err := realCases(out, c.Tier == "thorough"); err != nil {
			return err
		}
		r := gen.New(c.Seed, 19)
		// Systematic part 1: a failure injected at every position of a fixed
		// unordered table, for every stored version around the range.
		base := []c19Version{{5, "ok", 1}, {2, "nil", 2}, {9, "ok", 3}, {3, "ok", 4}, {7, "ok", 5}, {1, "ok", 6}}
		for pos := -1; pos < len(base); pos++ {
			for stored := uint32(0); stored <= 11; stored++ {
				vs := append([]c19Version{}, base...)
				if pos >= 0 {
					if vs[pos].Kind == "nil" {
						continue
					}
					vs[pos].Kind = "fail"
				}
				in := c19Input{Mgrs: []c19Svc{{Versions: vs, Stored: stored, Data: []uint32{42}}}}
				if err := runOne(in, []string{"systematic", "services_1"}); err != nil {
					return err
				}
			}
		}
		// Systematic part 2: two services in one call; a failing migration at
		// every position of either table, or a failing SetVersion of either,
		// for stored versions below, inside, at and above each table.
		ta := []c19Version{{4, "ok", 11}, {2, "ok", 12}, {6, "ok", 13}}
		tb := []c19Version{{3, "ok", 21}, {1, "nil", 22}, {8, "ok", 23}, {5, "ok", 24}}
		for pos := -3; pos < len(ta)+len(tb); pos++ {
			for _, sa := range []uint32{0, 3, 6, 7} {
				for _, sb := range []uint32{0, 4, 8, 9} {
					a := c19Svc{Versions: append([]c19Version{}, ta...), Stored: sa, Data: []uint32{7}}
					b := c19Svc{Versions: append([]c19Version{}, tb...), Stored: sb, Data: []uint32{}}
					switch {
					case pos == -2:
						a.SetvFails = true
					case pos == -1:
						b.SetvFails = true
					case pos >= 0 && pos < len(ta):
						a.Versions[pos].Kind = "fail"
					case pos >= len(ta):
						if b.Versions[pos-len(ta)].Kind == "nil" {
							continue
						}
						b.Versions[pos-len(ta)].Kind = "fail"
					}
					in := c19Input{Mgrs: []c19Svc{a, b}}
					if err := runOne(in, []string{"systematic", "services_2"}); err != nil {
						return err
					}
				}
			}
		}
		for i := 0; i < c.N; i++ {
			in, tags := c19Gen(r)
			if err := runOne(in, tags); err != nil {
				return err
			}
		}
		return nil
	})
}
