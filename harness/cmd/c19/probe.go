package main

// `c19 -probe`: the facts of Generated/MigrateFacts.v determined by RUNNING
// the code built from the repository (lib/extract_c19.py falls back to this
// when the source-shape reader does not recognise a shape).  Every fact is a
// statement about what one call does, and the scenarios are that call:
//
//   mig_error_returned   Upgrade on an instrumented service whose k-th of four
//       pending migrations fails (k = 1..4; alone, and as first / second of two
//       services).  true iff in every instance Upgrade returns that
//       migration's error, no later migration runs and SetVersion is not
//       called; false iff in every instance all four run, SetVersion is called
//       and Upgrade returns nil.  Anything else: the probe fails.
//   setv_error_returned  the service's SetVersion fails (alone / first /
//       second of two): true iff Upgrade returns that error in every instance;
//       false iff it returns nil in every instance.
//   mgr_error_returned   two services, the first refuses (stored version above
//       its table) or has a failing SetVersion; the second has pending
//       migrations: true iff Upgrade returns the first one's error and the
//       second is not touched; false iff the second is upgraded and Upgrade
//       returns nil.
//   one_update / update_gets_error   the repository's call site,
//       wallet.OpenWithRetry, on real databases whose transaction manager and
//       address manager are both older (versions 1 / 5), older / newer and
//       newer / older, with a write failure injected at EVERY mutating call of
//       the upgrade: both true iff every instance returns an error, leaves the
//       database file's two namespaces byte-for-byte unchanged and uses one
//       read/write transaction.  An instance that returns nil after the
//       injected failure makes update_gets_error false, one that returns an
//       error but leaves something changed (or uses several transactions)
//       makes one_update false.
//       This says nothing about any OTHER function calling migration.Upgrade:
//       "sites_exercised" names what was run and lib/extract_c19.py refuses
//       the probe when the source has a call site outside that list.

import (
	"encoding/json"
	"fmt"
	"os"
)

type probeFact struct {
	OK    bool   `json:"ok"`
	Value bool   `json:"value"`
	Why   string `json:"why"`
}

type probeOut struct {
	Mig       probeFact `json:"mig_error_returned"`
	Setv      probeFact `json:"setv_error_returned"`
	Mgr       probeFact `json:"mgr_error_returned"`
	One       probeFact `json:"one_update"`
	Gets      probeFact `json:"update_gets_error"`
	Sites     []string  `json:"sites_exercised"`
	Scenarios int       `json:"scenarios"`
}

// verdict: all instances say "returned" -> true, all say "dropped" -> false.
func verdict(what string, returned, dropped, other int, detail string) probeFact {
	switch {
	case other == 0 && returned > 0 && dropped == 0:
		return probeFact{OK: true, Value: true, Why: fmt.Sprintf("probe: %s in all %d instances", what, returned)}
	case other == 0 && dropped > 0 && returned == 0:
		return probeFact{OK: true, Value: false, Why: fmt.Sprintf("probe: NOT %s in all %d instances", what, dropped)}
	}
	return probeFact{Why: fmt.Sprintf("probe: instances disagree on '%s' (%d yes, %d no, %d neither): %s",
		what, returned, dropped, other, detail)}
}

func okTable(fail int) []c19Version {
	vs := []c19Version{{3, "ok", 3}, {1, "ok", 1}, {4, "ok", 4}, {2, "ok", 2}}
	for i := range vs {
		if int(vs[i].Num) == fail {
			vs[i].Kind = "fail"
		}
	}
	return vs
}

func runProbe(dir string) error {
	var out probeOut
	other := c19Svc{Versions: []c19Version{{1, "ok", 9}, {2, "ok", 8}}, Stored: 0, Data: []uint32{}}

	// mig_error_returned
	ret, drop, oth, detail := 0, 0, 0, ""
	for k := 1; k <= 4; k++ {
		for shape := 0; shape < 3; shape++ {
			f := c19Svc{Versions: okTable(k), Stored: 0, Data: []uint32{}}
			in := c19Input{Mgrs: []c19Svc{f}}
			at := 0
			switch shape {
			case 1:
				in.Mgrs = []c19Svc{f, other}
			case 2:
				in.Mgrs, at = []c19Svc{other, f}, 1
			}
			in.normalize()
			o, err := c19Run(dir, in)
			if err != nil {
				return err
			}
			out.Scenarios++
			m := o.Mgrs[at]
			switch {
			case o.Outcome == fmt.Sprintf("migfail:%d", k) && len(m.Invoked) == k && m.SetCalls == 0:
				ret++
			case o.Outcome == "ok" && len(m.Invoked) == 4 && m.SetCalls == 1:
				drop++
			default:
				oth++
				detail = fmt.Sprintf("k=%d shape=%d outcome=%s invoked=%v set=%d", k, shape, o.Outcome, m.Invoked, m.SetCalls)
			}
		}
	}
	out.Mig = verdict("a failing migration's error is returned at once", ret, drop, oth, detail)

	// setv_error_returned
	ret, drop, oth, detail = 0, 0, 0, ""
	for shape := 0; shape < 3; shape++ {
		f := c19Svc{Versions: okTable(0), Stored: 1, Data: []uint32{}, SetvFails: true}
		in := c19Input{Mgrs: []c19Svc{f}}
		switch shape {
		case 1:
			in.Mgrs = []c19Svc{f, other}
		case 2:
			in.Mgrs = []c19Svc{other, f}
		}
		in.normalize()
		o, err := c19Run(dir, in)
		if err != nil {
			return err
		}
		out.Scenarios++
		switch o.Outcome {
		case "setvfail":
			ret++
		case "ok":
			drop++
		default:
			oth++
			detail = fmt.Sprintf("shape=%d outcome=%s", shape, o.Outcome)
		}
	}
	out.Setv = verdict("SetVersion's error is returned", ret, drop, oth, detail)

	// mgr_error_returned
	ret, drop, oth, detail = 0, 0, 0, ""
	for shape := 0; shape < 2; shape++ {
		first := c19Svc{Versions: okTable(0), Stored: 9, Data: []uint32{}}
		want := "reversion"
		if shape == 1 {
			first = c19Svc{Versions: okTable(0), Stored: 2, Data: []uint32{}, SetvFails: true}
			want = "setvfail"
			if out.Setv.OK && !out.Setv.Value {
				continue // that error does not exist in this code
			}
		}
		in := c19Input{Mgrs: []c19Svc{first, other}}
		in.normalize()
		o, err := c19Run(dir, in)
		if err != nil {
			return err
		}
		out.Scenarios++
		second := o.Mgrs[1]
		switch {
		case o.Outcome == want && len(second.Invoked) == 0 && second.SetCalls == 0:
			ret++
		case o.Outcome == "ok" && len(second.Invoked) == 2 && second.SetCalls == 1:
			drop++
		default:
			oth++
			detail = fmt.Sprintf("shape=%d outcome=%s second: invoked=%v set=%d", shape, o.Outcome, second.Invoked, second.SetCalls)
		}
	}
	out.Mgr = verdict("a service's error is returned at once", ret, drop, oth, detail)

	// the call site
	r, err := newRealEnv()
	if err != nil {
		return err
	}
	defer r.close()
	out.Sites = []string{"wallet/wallet.go:OpenWithRetry"}
	good, hidden, partial, detail2 := 0, 0, 0, ""
	for _, l := range []struct{ tx, addr string }{{"1", "5"}, {"1", "latest+1"}, {"latest+1", "5"}} {
		base := realIn{Real: "probe", Entry: "wallet_open", Tx: l.tx, Addr: l.addr}
		n, err := r.writesOf(base)
		if err != nil {
			return err
		}
		lo := 1
		if n == 0 {
			lo = 0 // nothing is written before the refusal: run it once as it is
		}
		for k := lo; k <= n; k++ {
			in := base
			in.FailAt = k
			rc, err := r.runReal(in)
			if err != nil {
				return err
			}
			out.Scenarios++
			o := rc.Obs
			switch {
			case o.Class != "ok" && o.Unchanged && o.Txs == 1:
				good++
			case o.Class == "ok":
				hidden++
				detail2 = fmt.Sprintf("txmgr %s addrmgr %s write %d fails: wallet.Open returns nil", l.tx, l.addr, k)
			default:
				partial++
				detail2 = fmt.Sprintf("txmgr %s addrmgr %s write %d fails: error returned, database unchanged=%v, %d read/write transactions",
					l.tx, l.addr, k, o.Unchanged, o.Txs)
			}
		}
	}
	switch {
	case good > 0 && hidden == 0 && partial == 0:
		why := fmt.Sprintf("probe: wallet.OpenWithRetry with a write failure at every mutating call of the upgrade "+
			"(%d instances): error returned, database unchanged, one read/write transaction", good)
		out.One = probeFact{OK: true, Value: true, Why: why}
		out.Gets = probeFact{OK: true, Value: true, Why: why}
	case good == 0 && hidden == 0 && partial == 0:
		out.One = probeFact{Why: "probe: the upgrade through wallet.OpenWithRetry made no write"}
		out.Gets = out.One
	default:
		out.One = probeFact{OK: true, Value: partial == 0, Why: "probe: " + detail2}
		out.Gets = probeFact{OK: true, Value: hidden == 0, Why: "probe: " + detail2}
	}
	enc := json.NewEncoder(os.Stdout)
	return enc.Encode(out)
}
