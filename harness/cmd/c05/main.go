// c05 drives the REAL waddrmgr (Manager + ScopedKeyManager, bbolt file,
// FastScryptOptions) over histories of lock-discipline operations and prints
// one JSON object per history:
//
//	{"in": {pub, priv, ops, probe, probe_seed}, "obs": {"trace": [...]},
//	 "oracle": ["kind@site", ...], "tags": [...], "site": "..."}
//
// A history is a list of MAIN operations (unlock with right / wrong / near-miss
// passphrases, lock, private and public passphrase changes, restarts, account
// creation, address issuance, key and script imports, conversion to
// watching-only, ...).  After every main operation the harness probes private
// material accessors (PrivKey/ExportPrivKey on every known address, Script on
// every known script, DeriveFromKeyPath(+PrivKey) and DeriveFromKeyPathCache
// on known accounts, Encrypt/Decrypt for the three key types, and - while
// locked or watching-only - NewAccount, ImportPrivateKey, ImportScript).  The
// probes are operations too (Address() loads and caches, PrivKey() decrypts
// lazily, ...): the trace lists every call in execution order with its result
// class, so that the model (coq/Addr/Lock.v) replays exactly the same calls.
// Snapshots (IsLocked, WatchOnly, liveness of every clear-text buffer from
// the hook Manager.VerifSecretBuffers plus accountInfo.last{External,
// Internal}Addr read by reflection) are taken after every main operation and
// after its probes.
//
// The oracle is the property stated on what the implementation did; it keeps
// its own book of the current passphrases and never consults the model.
package main

import (
	"crypto/sha256"
	"encoding/json"
	"errors"
	"flag"
	"fmt"
	"os"
	"path/filepath"
	"reflect"
	"sort"
	"strings"
	"time"

	"github.com/btcsuite/btcd/btcec/v2"
	"github.com/btcsuite/btcd/btcutil"
	"github.com/btcsuite/btcd/btcutil/hdkeychain"
	"github.com/btcsuite/btcd/chaincfg"
	"github.com/btcsuite/btcwallet/waddrmgr"
	"github.com/btcsuite/btcwallet/walletdb"
	_ "github.com/btcsuite/btcwallet/walletdb/bdb"

	"verifharness/internal/core"
	"verifharness/internal/gen"
)

// ---------------------------------------------------------------- inputs

// Passphrases are referred to by index.  None is longer than 64 bytes or ends
// in a NUL byte (C17's known finding is out of scope here).  1..5 and 11 are
// near misses of each other; 0 is the empty passphrase (Create refuses it as
// a private passphrase, ChangePassphrase does not).
var passTable = []string{
	0:  "", // the model's empty_pass
	1:  "private-pass-1",
	2:  "private-pass-1 ",
	3:  "Private-pass-1",
	4:  "private-pass-",
	5:  "rivate-pass-1",
	6:  "new-private-2",
	7:  "new-private-3",
	8:  "public-pass-B",
	9:  "public-pass-0",
	10: "x",
	11: "private-pass-1private-pass-1",
	12: "public-pass-0 ",
}

var scopes = []waddrmgr.KeyScope{
	waddrmgr.KeyScopeBIP0084, waddrmgr.KeyScopeBIP0086, waddrmgr.KeyScopeBIP0044, waddrmgr.KeyScopeBIP0049Plus,
}

type c05Key struct {
	T    string `json:"t"` // c(hain) | i(mported key) | s(cript)
	Acct uint32 `json:"acct,omitempty"`
	Br   uint32 `json:"br,omitempty"`
	Idx  uint32 `json:"idx,omitempty"`
	N    int    `json:"n,omitempty"`
}

func (k c05Key) String() string { return fmt.Sprintf("%s/%d/%d/%d/%d", k.T, k.Acct, k.Br, k.Idx, k.N) }

// c05Op: K is one of open unlock lock chpriv chpub newacct newwatch props next
// imppriv impscript load privkey script derive dcache encrypt decrypt convert.
type c05Op struct {
	K    string  `json:"k"`
	P    int     `json:"p,omitempty"`    // passphrase (open, unlock) / old passphrase
	Q    int     `json:"q,omitempty"`    // new passphrase
	Sc   int     `json:"sc,omitempty"`   // scope index
	Acct uint32  `json:"acct,omitempty"` // account
	Int  bool    `json:"int,omitempty"`  // internal branch (next)
	N    int     `json:"n,omitempty"`    // key / script number (imppriv, impscript)
	Kind string  `json:"kind,omitempty"` // p2sh | witness | taproot (impscript)
	Sec  bool    `json:"sec,omitempty"`  // secret script (impscript)
	A    *c05Key `json:"a,omitempty"`    // address (load, privkey, script)
	Br   uint32  `json:"br,omitempty"`   // derive, dcache
	Idx  uint32  `json:"idx,omitempty"`
	Kt   string  `json:"kt,omitempty"` // priv | script | pub
}

type c05Input struct {
	Pub       int     `json:"pub"`
	Priv      int     `json:"priv"`
	Ops       []c05Op `json:"ops"`
	Probe     string  `json:"probe"` // all | some | none
	ProbeSeed int64   `json:"probe_seed"`
}

// ---------------------------------------------------------------- observations

type c05Slot struct {
	T      string  `json:"t"` // master cpriv cscript hashed acct last addr script cache
	Sc     int     `json:"sc,omitempty"`
	Acct   uint32  `json:"acct,omitempty"`
	Int    bool    `json:"int,omitempty"`
	A      *c05Key `json:"a,omitempty"`
	Secret bool    `json:"secret,omitempty"`
	Live   bool    `json:"live"`
	Cat    string  `json:"-"`
}

type c05Snap struct {
	Locked bool `json:"l"`
	Watch  bool `json:"w"`
	// Relaxed: an Unlock failed half-way (ErrCrypto) earlier in this manager's
	// life.  Go's map iteration order then decided which scoped managers had
	// their deriveOnUnlock queue processed before the failure; the only
	// buffers that can show it are the last{External,Internal}Addr ones, which
	// the comparison with the model ignores until the next restart (the
	// oracle does not).
	Relaxed bool      `json:"x,omitempty"`
	Slots   []c05Slot `json:"b"`
}

// one entry of the trace: either an executed call or a snapshot
type c05Entry struct {
	O    *c05Op   `json:"o,omitempty"`
	R    string   `json:"r,omitempty"` // ok locked watchonly wrongpass notcached dup notfound crypto other panic
	Main bool     `json:"m,omitempty"`
	Err  string   `json:"e,omitempty"` // error text (diagnostics; only for main operations and unexpected results)
	S    *c05Snap `json:"s,omitempty"`
}

type c05Obs struct {
	Trace []c05Entry `json:"trace"`
}

type c05Case struct {
	In     c05Input `json:"in"`
	Obs    c05Obs   `json:"obs"`
	Oracle []string `json:"oracle"`
	Tags   []string `json:"tags"`
	Site   string   `json:"site"`
}

// ---------------------------------------------------------------- world

var nsKey = []byte("waddrmgr")

type addrRec struct {
	sc   int
	key  c05Key
	addr btcutil.Address
}

type scriptRec struct {
	kind   string
	secret bool
}

type acctRec struct {
	num   uint32
	watch bool
}

type world struct {
	dir string
	db  walletdb.DB
	mgr *waddrmgr.Manager

	// the oracle's own book
	curPub, curPriv  int
	formerPriv       map[int]bool // passphrases replaced by a successful private change
	formerPub        map[int]bool
	privFromChange   bool // the current private passphrase was set by ChangePassphrase
	pubFromChange    bool
	everUnlocked     bool
	acctNameCounter  int
	probeImportCount int

	accts   [][]acctRec        // per scope
	addrs   []addrRec          // in creation order
	byAddr  map[string]addrRec // scope-string ":" address-string
	scripts map[int]scriptRec  // script number -> kind
	blobs   map[string][]byte  // last valid ciphertext per key type

	trace   []c05Entry
	oracle  map[string]bool
	tags    map[string]int
	dead    bool // a panic left the manager in an undefined state: stop
	relaxed bool // see c05Snap.Relaxed
}

func (w *world) flag(kind, site string) { w.oracle[kind+"@"+site] = true }
func (w *world) tag(t string)           { w.tags[t]++ }

func pass(i int) []byte {
	if i < 0 || i >= len(passTable) {
		return []byte(fmt.Sprintf("out-of-table-%d", i))
	}
	return []byte(passTable[i])
}

func newWorld(base string, in c05Input) (*world, error) {
	dir, err := os.MkdirTemp(base, "c05-")
	if err != nil {
		return nil, err
	}
	w := &world{dir: dir, curPub: in.Pub, curPriv: in.Priv, formerPriv: map[int]bool{}, formerPub: map[int]bool{},
		byAddr: map[string]addrRec{}, scripts: map[int]scriptRec{}, blobs: map[string][]byte{},
		oracle: map[string]bool{}, tags: map[string]int{}}
	w.accts = make([][]acctRec, len(scopes))
	for i := range scopes {
		w.accts[i] = []acctRec{{0, false}}
	}
	w.db, err = walletdb.Create("bdb", filepath.Join(dir, "c05.db"), true, time.Minute, false)
	if err != nil {
		return nil, err
	}
	seed := sha256.Sum256([]byte("c05 wallet seed"))
	root, err := hdkeychain.NewMaster(seed[:], &chaincfg.MainNetParams)
	if err != nil {
		return nil, err
	}
	err = walletdb.Update(w.db, func(tx walletdb.ReadWriteTx) error {
		ns, err := tx.CreateTopLevelBucket(nsKey)
		if err != nil {
			return err
		}
		err = waddrmgr.Create(ns, root, pass(in.Pub), pass(in.Priv), &chaincfg.MainNetParams,
			&waddrmgr.FastScryptOptions, time.Time{})
		if err != nil {
			return err
		}
		w.mgr, err = waddrmgr.Open(ns, pass(in.Pub), &chaincfg.MainNetParams)
		return err
	})
	if err != nil {
		return nil, err
	}
	return w, nil
}

func (w *world) close() {
	if w.mgr != nil && !w.dead {
		w.mgr.Close()
	}
	if w.db != nil {
		w.db.Close()
	}
	os.RemoveAll(w.dir)
}

func classify(err error) string {
	if err == nil {
		return "ok"
	}
	var me waddrmgr.ManagerError
	if errors.As(err, &me) {
		switch me.ErrorCode {
		case waddrmgr.ErrLocked:
			return "locked"
		case waddrmgr.ErrWatchingOnly:
			return "watchonly"
		case waddrmgr.ErrWrongPassphrase:
			return "wrongpass"
		case waddrmgr.ErrAccountNotCached:
			return "notcached"
		case waddrmgr.ErrDuplicateAddress:
			return "dup"
		case waddrmgr.ErrAddressNotFound, waddrmgr.ErrAccountNotFound:
			return "notfound"
		case waddrmgr.ErrCrypto:
			return "crypto"
		}
	}
	return "other"
}

func (w *world) view(f func(ns walletdb.ReadBucket) error) error {
	return walletdb.View(w.db, func(tx walletdb.ReadTx) error { return f(tx.ReadBucket(nsKey)) })
}

func (w *world) update(f func(ns walletdb.ReadWriteBucket) error) error {
	return walletdb.Update(w.db, func(tx walletdb.ReadWriteTx) error { return f(tx.ReadWriteBucket(nsKey)) })
}

func (w *world) scoped(sc int) (*waddrmgr.ScopedKeyManager, error) {
	if sc < 0 || sc >= len(scopes) {
		return nil, fmt.Errorf("scope index %d out of range", sc)
	}
	return w.mgr.FetchScopedKeyManager(scopes[sc])
}

func (w *world) lookup(sc int, k c05Key) (addrRec, bool) {
	for _, a := range w.addrs {
		if a.sc == sc && a.key == k {
			return a, true
		}
	}
	return addrRec{}, false
}

func (w *world) remember(sc int, k c05Key, a btcutil.Address) {
	if _, ok := w.lookup(sc, k); ok {
		return
	}
	r := addrRec{sc, k, a}
	w.addrs = append(w.addrs, r)
	w.byAddr[scopes[sc].String()+":"+a.String()] = r
}

func wifFor(n int) *btcutil.WIF {
	h := sha256.Sum256([]byte(fmt.Sprintf("c05 imported key %d", n)))
	priv, _ := btcec.PrivKeyFromBytes(h[:])
	wif, err := btcutil.NewWIF(priv, &chaincfg.MainNetParams, true)
	if err != nil {
		panic(err)
	}
	return wif
}

func scriptFor(n int) []byte {
	// OP_DATA_8 <n as 8 bytes> OP_DROP OP_TRUE
	b := []byte{0x08, 0, 0, 0, 0, 0, 0, 0, 0, 0x75, 0x51}
	for i := 0; i < 8; i++ {
		b[1+i] = byte(uint64(n) >> (8 * uint(i)))
	}
	return b
}

func xpubFor(sc, k int) *hdkeychain.ExtendedKey {
	seed := sha256.Sum256([]byte(fmt.Sprintf("c05 watch-only account %d %d", sc, k)))
	m, err := hdkeychain.NewMaster(seed[:], &chaincfg.MainNetParams)
	if err != nil {
		panic(err)
	}
	p, err := m.Neuter()
	if err != nil {
		panic(err)
	}
	return p
}

var ktypes = map[string]waddrmgr.CryptoKeyType{"priv": waddrmgr.CKTPrivate, "script": waddrmgr.CKTScript, "pub": waddrmgr.CKTPublic}

// exec runs one call against the real manager.  executed=false: the call
// cannot be expressed (e.g. the address of that key is not known) and is
// dropped from the trace.  material: a private key / secret script / clear
// text came back.
func (w *world) exec(o c05Op) (rc string, errText string, material bool, executed bool) {
	defer func() {
		if r := recover(); r != nil {
			rc, errText, material, executed = "panic", fmt.Sprint(r), false, true
		}
	}()
	var err error
	executed = true
	switch o.K {
	case "open":
		var nm *waddrmgr.Manager
		err = w.view(func(ns walletdb.ReadBucket) error {
			var e error
			nm, e = waddrmgr.Open(ns, pass(o.P), &chaincfg.MainNetParams)
			return e
		})
		if err == nil {
			w.mgr.Close()
			w.mgr = nm
			w.relaxed = false
		}
	case "unlock":
		err = w.view(func(ns walletdb.ReadBucket) error { return w.mgr.Unlock(ns, pass(o.P)) })
		if classify(err) == "crypto" {
			w.relaxed = true
		}
	case "lock":
		err = w.mgr.Lock()
	case "chpriv", "chpub":
		err = w.update(func(ns walletdb.ReadWriteBucket) error {
			return w.mgr.ChangePassphrase(ns, pass(o.P), pass(o.Q), o.K == "chpriv", &waddrmgr.FastScryptOptions)
		})
	case "convert":
		err = w.update(func(ns walletdb.ReadWriteBucket) error { return w.mgr.ConvertToWatchingOnly(ns) })
	case "encrypt":
		kt, ok := ktypes[o.Kt]
		if !ok {
			return "", "", false, false
		}
		var out []byte
		out, err = w.mgr.Encrypt(kt, []byte("c05 clear text"))
		if err == nil {
			w.blobs[o.Kt] = out
		}
	case "decrypt":
		kt, ok := ktypes[o.Kt]
		if !ok {
			return "", "", false, false
		}
		blob := w.blobs[o.Kt]
		if blob == nil {
			blob = make([]byte, 64)
		}
		var out []byte
		out, err = w.mgr.Decrypt(kt, blob)
		material = out != nil
	default:
		sm, e := w.scoped(o.Sc)
		if e != nil {
			return "", "", false, false
		}
		switch o.K {
		case "newacct":
			w.acctNameCounter++
			name := fmt.Sprintf("acct-%d", w.acctNameCounter)
			var num uint32
			err = w.update(func(ns walletdb.ReadWriteBucket) error {
				var e error
				num, e = sm.NewAccount(ns, name)
				return e
			})
			if err == nil {
				w.accts[o.Sc] = append(w.accts[o.Sc], acctRec{num, false})
				material = true
			}
		case "newwatch":
			w.acctNameCounter++
			name := fmt.Sprintf("acct-%d", w.acctNameCounter)
			var num uint32
			err = w.update(func(ns walletdb.ReadWriteBucket) error {
				var e error
				num, e = sm.NewAccountWatchingOnly(ns, name, xpubFor(o.Sc, w.acctNameCounter), 0, nil)
				return e
			})
			if err == nil {
				w.accts[o.Sc] = append(w.accts[o.Sc], acctRec{num, true})
			}
		case "props":
			err = w.view(func(ns walletdb.ReadBucket) error {
				_, e := sm.AccountProperties(ns, o.Acct)
				return e
			})
		case "next":
			var mas []waddrmgr.ManagedAddress
			err = w.update(func(ns walletdb.ReadWriteBucket) error {
				var e error
				if o.Int {
					mas, e = sm.NextInternalAddresses(ns, o.Acct, 1)
				} else {
					mas, e = sm.NextExternalAddresses(ns, o.Acct, 1)
				}
				return e
			})
			if err == nil {
				pka, ok := mas[0].(waddrmgr.ManagedPubKeyAddress)
				if !ok {
					return "other", "issued address is not a pubkey address", false, true
				}
				_, path, ok := pka.DerivationInfo()
				if !ok {
					return "other", "issued address has no derivation info", false, true
				}
				w.remember(o.Sc, c05Key{T: "c", Acct: o.Acct, Br: path.Branch, Idx: path.Index}, mas[0].Address())
			}
		case "imppriv":
			var ma waddrmgr.ManagedPubKeyAddress
			err = w.update(func(ns walletdb.ReadWriteBucket) error {
				var e error
				ma, e = sm.ImportPrivateKey(ns, wifFor(o.N), &waddrmgr.BlockStamp{Height: 100})
				return e
			})
			if err == nil {
				w.remember(o.Sc, c05Key{T: "i", N: o.N}, ma.Address())
			}
		case "impscript":
			var ma waddrmgr.ManagedScriptAddress
			bs := &waddrmgr.BlockStamp{Height: 100}
			if prev, ok := w.scripts[o.N]; ok && prev.kind != o.Kind {
				return "", "", false, false // a script number has one kind
			}
			err = w.update(func(ns walletdb.ReadWriteBucket) error {
				var e error
				switch o.Kind {
				case "p2sh":
					ma, e = sm.ImportScript(ns, scriptFor(o.N), bs)
				case "witness":
					ma, e = sm.ImportWitnessScript(ns, scriptFor(o.N), bs, 0, o.Sec)
				case "taproot":
					ts := &waddrmgr.Tapscript{Type: waddrmgr.TaprootFullKeyOnly, FullOutputKey: wifFor(1000000 + o.N).PrivKey.PubKey()}
					var ta waddrmgr.ManagedTaprootScriptAddress
					ta, e = sm.ImportTaprootScript(ns, ts, bs, 1, o.Sec)
					if e == nil {
						ma = ta
					}
				default:
					e = fmt.Errorf("unknown script kind %q", o.Kind)
				}
				return e
			})
			if err == nil {
				w.scripts[o.N] = scriptRec{o.Kind, o.Kind == "p2sh" || o.Sec}
				w.remember(o.Sc, c05Key{T: "s", N: o.N}, ma.Address())
			}
		case "load", "privkey", "script":
			if o.A == nil {
				return "", "", false, false
			}
			rec, ok := w.lookup(o.Sc, *o.A)
			if !ok {
				return "", "", false, false
			}
			var ma waddrmgr.ManagedAddress
			err = w.view(func(ns walletdb.ReadBucket) error {
				var e error
				ma, e = sm.Address(ns, rec.addr)
				return e
			})
			if err != nil || o.K == "load" {
				break
			}
			if o.K == "privkey" {
				pka, ok := ma.(waddrmgr.ManagedPubKeyAddress)
				if !ok {
					return "other", "not a pubkey address", false, true
				}
				var pk *btcec.PrivateKey
				pk, err = pka.PrivKey()
				wif, err2 := pka.ExportPrivKey()
				material = pk != nil || wif != nil
				if classify(err) != classify(err2) {
					return "other", fmt.Sprintf("PrivKey and ExportPrivKey disagree: %v / %v", err, err2), material, true
				}
			} else {
				sa, ok := ma.(waddrmgr.ManagedScriptAddress)
				if !ok {
					return "other", "not a script address", false, true
				}
				var s []byte
				s, err = sa.Script()
				material = s != nil
				if ta, ok := ma.(waddrmgr.ManagedTaprootScriptAddress); ok {
					t2, err2 := ta.TaprootScript()
					material = material || t2 != nil
					if classify(err) != classify(err2) {
						return "other", fmt.Sprintf("Script and TaprootScript disagree: %v / %v", err, err2), material, true
					}
				}
			}
		case "derive":
			kp := waddrmgr.DerivationPath{InternalAccount: o.Acct, Account: o.Acct, Branch: o.Br, Index: o.Idx}
			var ma waddrmgr.ManagedAddress
			err = w.view(func(ns walletdb.ReadBucket) error {
				var e error
				ma, e = sm.DeriveFromKeyPath(ns, kp)
				return e
			})
			if err == nil {
				pka, ok := ma.(waddrmgr.ManagedPubKeyAddress)
				if !ok {
					return "other", "derived address is not a pubkey address", false, true
				}
				var pk *btcec.PrivateKey
				pk, err = pka.PrivKey()
				material = pk != nil
			}
		case "dcache":
			kp := waddrmgr.DerivationPath{InternalAccount: o.Acct, Account: o.Acct, Branch: o.Br, Index: o.Idx}
			var pk *btcec.PrivateKey
			pk, err = sm.DeriveFromKeyPathCache(kp)
			material = pk != nil
		default:
			return "", "", false, false
		}
	}
	rc = classify(err)
	if err != nil {
		errText = err.Error()
	}
	return rc, errText, material, true
}

// ---------------------------------------------------------------- snapshots

func anyNonZero(b []byte) bool {
	for _, x := range b {
		if x != 0 {
			return true
		}
	}
	return false
}

func scopeIndex(s string) int {
	for i, sc := range scopes {
		if sc.String() == s {
			return i
		}
	}
	return -1
}

// lastAddrLive reads accountInfo.last{External,Internal}Addr.privKeyCT of
// every cached account by reflection (the objects are not in the addrs map,
// so the hook does not see them).
func lastAddrLive(sm *waddrmgr.ScopedKeyManager) map[uint32][2]bool {
	out := map[uint32][2]bool{}
	v := reflect.ValueOf(sm).Elem().FieldByName("acctInfo")
	if !v.IsValid() || v.Kind() != reflect.Map {
		panic("c05: ScopedKeyManager.acctInfo is not a map any more")
	}
	it := v.MapRange()
	for it.Next() {
		acct := uint32(it.Key().Uint())
		ai := it.Value()
		if ai.Kind() == reflect.Ptr {
			ai = ai.Elem()
		}
		var r [2]bool
		for i, name := range []string{"lastExternalAddr", "lastInternalAddr"} {
			f := ai.FieldByName(name)
			if !f.IsValid() {
				panic("c05: accountInfo." + name + " does not exist any more")
			}
			if f.Kind() == reflect.Interface {
				if f.IsNil() {
					continue
				}
				f = f.Elem()
			}
			if f.Kind() == reflect.Ptr {
				if f.IsNil() {
					continue
				}
				f = f.Elem()
			}
			if f.Kind() != reflect.Struct {
				continue
			}
			ct := f.FieldByName("privKeyCT")
			if ct.IsValid() && ct.Kind() == reflect.Slice {
				r[i] = anyNonZero(ct.Bytes())
			}
		}
		out[acct] = r
	}
	return out
}

func (w *world) snapshot() *c05Snap {
	sn := &c05Snap{Locked: w.mgr.IsLocked(), Watch: w.mgr.WatchOnly(), Relaxed: w.relaxed}
	glob := map[string]bool{}
	var rest []c05Slot
	last := map[int]map[uint32][2]bool{}
	for i := range scopes {
		if sm, err := w.scoped(i); err == nil {
			last[i] = lastAddrLive(sm)
		}
	}
	for _, b := range w.mgr.VerifSecretBuffers() {
		parts := strings.SplitN(b.Name, ":", 3)
		switch parts[0] {
		case "masterKeyPriv", "cryptoKeyPriv", "cryptoKeyScript", "hashedPrivPassphrase":
			glob[parts[0]] = b.Live
		case "acctKeyPriv":
			sc := scopeIndex(parts[1])
			var acct uint32
			fmt.Sscanf(parts[2], "%d", &acct)
			rest = append(rest, c05Slot{T: "acct", Sc: sc, Acct: acct, Live: b.Live, Secret: true, Cat: "acctKeyPriv"})
			l := last[sc][acct]
			rest = append(rest, c05Slot{T: "last", Sc: sc, Acct: acct, Int: false, Live: l[0], Secret: true, Cat: "lastAddrCT"})
			rest = append(rest, c05Slot{T: "last", Sc: sc, Acct: acct, Int: true, Live: l[1], Secret: true, Cat: "lastAddrCT"})
		case "privKeyCT", "scriptClearText":
			sc := scopeIndex(parts[1])
			rec, ok := w.byAddr[parts[1]+":"+parts[2]]
			key := c05Key{T: "?", N: 999999}
			if ok {
				key = rec.key
			}
			k := key
			if parts[0] == "privKeyCT" {
				rest = append(rest, c05Slot{T: "addr", Sc: sc, A: &k, Live: b.Live, Secret: true, Cat: "privKeyCT"})
			} else {
				cat := "scriptClearText:" + w.scripts[key.N].kind
				rest = append(rest, c05Slot{T: "script", Sc: sc, A: &k, Live: b.Live, Secret: b.Secret, Cat: cat})
			}
		case "privKeyCache":
			sc := scopeIndex(parts[1])
			rest = append(rest, c05Slot{T: "cache", Sc: sc, Live: b.Live, Secret: true, Cat: "privKeyCache"})
		default:
			rest = append(rest, c05Slot{T: "unknown:" + b.Name, Live: b.Live, Secret: b.Secret, Cat: parts[0]})
		}
	}
	sn.Slots = []c05Slot{
		{T: "master", Live: glob["masterKeyPriv"], Secret: true, Cat: "masterKeyPriv"},
		{T: "cpriv", Live: glob["cryptoKeyPriv"], Secret: true, Cat: "cryptoKeyPriv"},
		{T: "cscript", Live: glob["cryptoKeyScript"], Secret: true, Cat: "cryptoKeyScript"},
		{T: "hashed", Live: glob["hashedPrivPassphrase"], Secret: true, Cat: "hashedPrivPassphrase"},
	}
	sort.SliceStable(rest, func(i, j int) bool {
		a, b := rest[i], rest[j]
		if a.Sc != b.Sc {
			return a.Sc < b.Sc
		}
		if a.T != b.T {
			return a.T < b.T
		}
		if a.Acct != b.Acct {
			return a.Acct < b.Acct
		}
		as, bs := "", ""
		if a.A != nil {
			as = a.A.String()
		}
		if b.A != nil {
			bs = b.A.String()
		}
		if as != bs {
			return as < bs
		}
		return !a.Int && b.Int
	})
	sn.Slots = append(sn.Slots, rest...)

	// oracle: a locked (or watching-only) manager holds no secret clear text
	if sn.Locked || sn.Watch {
		for _, s := range sn.Slots {
			if s.Live && s.Secret {
				w.flag("cleartext_survives_lock", s.Cat)
			}
		}
	}
	return sn
}

// ---------------------------------------------------------------- oracle on calls

var accessorName = map[string]string{
	"privkey": "PrivKey", "script": "Script", "derive": "DeriveFromKeyPath", "dcache": "DeriveFromKeyPathCache",
	"decrypt": "Decrypt", "encrypt": "Encrypt", "newacct": "NewAccount", "imppriv": "ImportPrivateKey", "impscript": "ImportScript",
}

// isPrivateAccess: the call would reveal or use private material.
func (w *world) isPrivateAccess(o c05Op) bool {
	switch o.K {
	case "privkey", "derive", "dcache", "newacct", "imppriv":
		return true
	case "script":
		if o.A == nil {
			return false
		}
		s, ok := w.scripts[o.A.N]
		return ok && s.secret
	case "impscript":
		return o.Kind == "p2sh" || o.Sec
	case "decrypt", "encrypt":
		return o.Kt == "priv" || o.Kt == "script"
	}
	return false
}

func (w *world) judge(o c05Op, wasLocked, wasWatch bool, rc string, material bool) {
	name := accessorName[o.K]
	if o.K == "decrypt" || o.K == "encrypt" {
		name += "(" + o.Kt + ")"
	}
	if o.K == "impscript" && o.Kind != "p2sh" {
		name = map[string]string{"witness": "ImportWitnessScript", "taproot": "ImportTaprootScript"}[o.Kind]
	}
	if (wasLocked || wasWatch) && w.isPrivateAccess(o) {
		kind, other := "private_access_while_locked", "not_a_locked_error_while_locked"
		if wasWatch {
			kind, other = "private_access_while_watching_only", "not_a_locked_error_while_watching_only"
		}
		switch {
		case o.K == "imppriv" && wasWatch:
			// ImportPrivateKey on a watching-only manager stores the PUBLIC key
			// only (documented); the address it creates is probed like every
			// other one, so private material coming back would be flagged there.
		case rc == "ok" || material:
			w.flag(kind, name)
		case rc == "locked" || rc == "watchonly":
		case rc == "notcached" || rc == "notfound" || rc == "dup":
			// precondition failures that do not depend on the lock state
		default:
			w.flag(other, name)
		}
	}
	switch o.K {
	case "unlock":
		if wasWatch {
			return
		}
		right := o.P == w.curPriv
		if right {
			w.tag("unlock_right")
			if rc != "ok" {
				if w.privFromChange && rc == "wrongpass" {
					w.flag("new_passphrase_rejected_after_change", "Unlock")
				} else {
					w.flag("right_passphrase_rejected", "Unlock")
				}
			} else if w.mgr.IsLocked() {
				w.flag("right_passphrase_rejected", "Unlock")
			} else {
				w.everUnlocked = true
			}
		} else {
			w.tag("unlock_wrong")
			if !wasLocked {
				w.tag("unlock_wrong_while_unlocked")
			}
			if rc == "ok" {
				if w.formerPriv[o.P] {
					w.flag("old_passphrase_works_after_change", "Unlock")
				} else {
					w.flag("wrong_passphrase_accepted", "Unlock")
				}
			}
			if !w.mgr.IsLocked() {
				w.flag("unlocked_after_wrong_passphrase", "Unlock")
			}
		}
	case "open":
		right := o.P == w.curPub
		if right {
			w.tag("restart")
			if rc != "ok" {
				if w.pubFromChange && rc == "wrongpass" {
					w.flag("new_passphrase_rejected_after_change", "Open")
				} else {
					w.flag("right_passphrase_rejected", "Open")
				}
			}
		} else if rc == "ok" {
			if w.formerPub[o.P] {
				w.flag("old_passphrase_works_after_change", "Open")
			} else {
				w.flag("wrong_passphrase_accepted", "Open")
			}
		}
	case "chpriv":
		if rc == "ok" {
			if wasLocked {
				w.tag("change_private_while_locked")
			} else {
				w.tag("change_private_while_unlocked")
			}
			if o.P != w.curPriv && !wasWatch {
				w.flag("wrong_passphrase_accepted", "ChangePassphrase(private)")
			}
			if o.Q != w.curPriv {
				w.formerPriv[w.curPriv] = true
				delete(w.formerPriv, o.Q)
				w.curPriv = o.Q
				w.privFromChange = true
			}
			// changing the passphrase must not change the lock state
			if w.mgr.IsLocked() != wasLocked {
				w.flag("lock_state_changed_by_passphrase_change", "ChangePassphrase(private)")
			}
		} else if o.P == w.curPriv && !wasWatch && rc == "wrongpass" {
			// (an empty NEW passphrase may be refused: that is not a rejection of the old one)
			w.flag("right_passphrase_rejected", "ChangePassphrase(private)")
		}
	case "chpub":
		if rc == "ok" {
			w.tag("change_public")
			if o.P != w.curPub {
				w.flag("wrong_passphrase_accepted", "ChangePassphrase(public)")
			}
			if o.Q != w.curPub {
				w.formerPub[w.curPub] = true
				delete(w.formerPub, o.Q)
				w.curPub = o.Q
				w.pubFromChange = true
			}
		} else if o.P == w.curPub && rc == "wrongpass" {
			w.flag("right_passphrase_rejected", "ChangePassphrase(public)")
		}
	case "convert":
		if rc == "ok" {
			w.tag("convert")
		}
	case "lock":
		if rc == "ok" {
			w.tag("lock")
			if !w.mgr.IsLocked() {
				w.flag("unlocked_after_lock", "Lock")
			}
		}
	}
}

// ---------------------------------------------------------------- probes

func (w *world) probes(in c05Input, step int) []c05Op {
	if in.Probe == "none" {
		return nil
	}
	var ps []c05Op
	for _, a := range w.addrs {
		k := a.key
		if k.T == "s" {
			ps = append(ps, c05Op{K: "script", Sc: a.sc, A: &k})
		} else {
			ps = append(ps, c05Op{K: "privkey", Sc: a.sc, A: &k})
		}
	}
	for sc := range scopes {
		for _, ac := range w.accts[sc] {
			if sc > 1 && ac.num == 0 && len(w.accts[sc]) == 1 {
				// keep the volume down: untouched scopes get one path only
				ps = append(ps, c05Op{K: "dcache", Sc: sc, Acct: 0, Br: 0, Idx: 0})
				continue
			}
			ps = append(ps, c05Op{K: "derive", Sc: sc, Acct: ac.num, Br: 0, Idx: 0})
			ps = append(ps, c05Op{K: "dcache", Sc: sc, Acct: ac.num, Br: 0, Idx: 0})
			ps = append(ps, c05Op{K: "dcache", Sc: sc, Acct: ac.num, Br: 1, Idx: 1})
		}
	}
	for _, kt := range []string{"priv", "script", "pub"} {
		ps = append(ps, c05Op{K: "encrypt", Kt: kt}, c05Op{K: "decrypt", Kt: kt})
	}
	if w.mgr.IsLocked() || w.mgr.WatchOnly() {
		r := gen.New(in.ProbeSeed, int64(1000+step))
		ps = append(ps, c05Op{K: "newacct", Sc: r.Intn(len(scopes))})
		ps = append(ps, c05Op{K: "impscript", Sc: r.Intn(len(scopes)), N: 900000 + step, Kind: []string{"p2sh", "witness", "taproot"}[r.Intn(3)], Sec: true})
		if !w.mgr.WatchOnly() || w.probeImportCount < 2 {
			if w.mgr.WatchOnly() {
				w.probeImportCount++
			}
			ps = append(ps, c05Op{K: "imppriv", Sc: r.Intn(len(scopes)), N: 800000 + step})
		}
	}
	if in.Probe == "some" || len(ps) > 48 {
		r := gen.New(in.ProbeSeed, int64(step))
		keep := 48
		if in.Probe == "some" {
			keep = len(ps) / 3
			if keep > 24 {
				keep = 24
			}
		}
		// a random subset, order preserved; encrypt stays in front of its decrypt
		idx := r.Perm(len(ps))[:keep]
		sort.Ints(idx)
		var sub []c05Op
		for _, i := range idx {
			if ps[i].K == "decrypt" && (len(sub) == 0 || sub[len(sub)-1].K != "encrypt" || sub[len(sub)-1].Kt != ps[i].Kt) {
				sub = append(sub, c05Op{K: "encrypt", Kt: ps[i].Kt})
			}
			sub = append(sub, ps[i])
		}
		ps = sub
	}
	return ps
}

// ---------------------------------------------------------------- running a history

func (w *world) call(o c05Op, main bool) {
	if w.dead {
		return
	}
	wasLocked, wasWatch := w.mgr.IsLocked(), w.mgr.WatchOnly()
	rc, errText, material, executed := w.exec(o)
	if !executed {
		return
	}
	oc := o
	e := c05Entry{O: &oc, R: rc, Main: main}
	if main || rc == "other" || rc == "panic" || rc == "crypto" {
		e.Err = errText
	}
	w.trace = append(w.trace, e)
	if rc == "panic" {
		w.tag("panic:" + o.K)
		if o.K != "dcache" {
			// a panic inside Unlock etc. leaves the manager half-updated:
			// judge this call, then stop the history
			w.dead = true
		}
	}
	w.judge(o, wasLocked, wasWatch, rc, material)
	if w.dead {
		return
	}
	if main {
		w.tag("op:" + o.K)
	} else {
		w.tag("probe:" + o.K)
		if wasLocked || wasWatch {
			if w.isPrivateAccess(o) {
				w.tag("private_probe_while_locked_or_watching")
				if o.K == "dcache" && w.everUnlocked {
					w.tag("dcache_probe_while_locked_after_unlock")
				}
			}
		}
	}
}

func runCase(base string, in c05Input, tags []string) (c05Case, error) {
	cs := c05Case{In: in, Oracle: []string{}, Tags: []string{}}
	w, err := newWorld(base, in)
	if err != nil {
		return cs, err
	}
	defer w.close()
	for _, t := range tags {
		w.tag(t)
	}
	w.trace = append(w.trace, c05Entry{S: w.snapshot()})
	for i, o := range in.Ops {
		if w.dead {
			break
		}
		w.call(o, true)
		if w.dead {
			break
		}
		w.trace = append(w.trace, c05Entry{S: w.snapshot()})
		ps := w.probes(in, i)
		for _, p := range ps {
			w.call(p, false)
		}
		if len(ps) > 0 && !w.dead {
			w.trace = append(w.trace, c05Entry{S: w.snapshot()})
		}
	}
	cs.Obs.Trace = w.trace
	for k := range w.oracle {
		cs.Oracle = append(cs.Oracle, k)
	}
	sort.Strings(cs.Oracle)
	if len(cs.Oracle) > 0 {
		cs.Site = cs.Oracle[0][strings.Index(cs.Oracle[0], "@")+1:]
	}
	for k, n := range w.tags {
		_ = n
		cs.Tags = append(cs.Tags, k)
	}
	sort.Strings(cs.Tags)
	return cs, nil
}

// ---------------------------------------------------------------- generator

type belief struct {
	locked, watch bool
	pub, priv     int
	accts         [][]acctRec
	next          map[string]uint32 // "sc/acct/br" -> issued count
	imps          []int
	impSc         map[int]int
	scripts       []int
	scrSc         map[int]int
	scrKind       map[int]string
	nextN         int
}

func genCase(r *gen.R, maxOps int) (c05Input, []string) {
	in := c05Input{Pub: 9, Priv: 1, ProbeSeed: int64(r.Intn(1 << 30))}
	switch r.Pick(6, 3, 1) {
	case 0:
		in.Probe = "all"
	case 1:
		in.Probe = "some"
	default:
		in.Probe = "none"
	}
	if r.Chance(1, 6) {
		in.Priv = []int{6, 10, 3}[r.Intn(3)]
	}
	b := &belief{locked: true, pub: in.Pub, priv: in.Priv, next: map[string]uint32{}, impSc: map[int]int{}, scrSc: map[int]int{},
		scrKind: map[int]string{}, nextN: 1}
	b.accts = make([][]acctRec, len(scopes))
	for i := range scopes {
		b.accts[i] = []acctRec{{0, false}}
	}
	privPool := []int{1, 2, 3, 4, 5, 6, 7, 10, 11, 1, 2, 3, 4, 5, 6, 7, 10, 11, 0}
	pubPool := []int{9, 8, 12, 0}
	wrongPriv := func() int {
		// near misses of the current passphrase first
		for tries := 0; tries < 20; tries++ {
			p := privPool[r.Intn(len(privPool))]
			if p != b.priv {
				return p
			}
		}
		return 10
	}
	sc := func() int { return r.Pick(5, 3, 2, 2) }
	acct := func(s int) uint32 { return b.accts[s][r.Intn(len(b.accts[s]))].num }
	n := r.Range(maxOps/2, maxOps)
	converted := false
	for i := 0; i < n; i++ {
		var o c05Op
		wUnlock, wLock := 3, 8
		if b.locked {
			wUnlock, wLock = 14, 1
		}
		wConvert := 0
		if !converted && i > n/2 {
			wConvert = 1
		}
		switch r.Pick(wUnlock, 6, wLock, 4, 2, 2, 1, 5, 1, 4, 2, 3, 12, 4, 7, 2, 2, 2, 2, 1, wConvert) {
		case 0:
			o = c05Op{K: "unlock", P: b.priv}
			if !b.watch {
				b.locked = false
			}
		case 1:
			o = c05Op{K: "unlock", P: wrongPriv()}
			b.locked = true
		case 2:
			o = c05Op{K: "lock"}
			b.locked = true
		case 3:
			q := privPool[r.Intn(len(privPool))]
			o = c05Op{K: "chpriv", P: b.priv, Q: q}
			if !b.watch {
				b.priv = q
			}
		case 4:
			o = c05Op{K: "chpriv", P: wrongPriv(), Q: privPool[r.Intn(len(privPool))]}
		case 5:
			q := pubPool[r.Intn(len(pubPool))]
			o = c05Op{K: "chpub", P: b.pub, Q: q}
			b.pub = q
		case 6:
			o = c05Op{K: "chpub", P: pubPool[r.Intn(len(pubPool))], Q: pubPool[r.Intn(len(pubPool))]}
			if o.P == b.pub {
				b.pub = o.Q
			}
		case 7:
			o = c05Op{K: "open", P: b.pub}
			b.locked = true
		case 8:
			p := pubPool[r.Intn(len(pubPool))]
			o = c05Op{K: "open", P: p}
			if p == b.pub {
				b.locked = true
			}
		case 9:
			s := sc()
			o = c05Op{K: "newacct", Sc: s}
			if !b.locked && !b.watch {
				last := b.accts[s][len(b.accts[s])-1].num
				b.accts[s] = append(b.accts[s], acctRec{last + 1, false})
			}
		case 10:
			s := sc()
			o = c05Op{K: "newwatch", Sc: s}
			last := b.accts[s][len(b.accts[s])-1].num
			b.accts[s] = append(b.accts[s], acctRec{last + 1, true})
		case 11:
			s := sc()
			o = c05Op{K: "props", Sc: s, Acct: acct(s)}
		case 12:
			s := sc()
			a := acct(s)
			internal := r.Chance(1, 3)
			o = c05Op{K: "next", Sc: s, Acct: a, Int: internal}
			br := 0
			if internal {
				br = 1
			}
			b.next[fmt.Sprintf("%d/%d/%d", s, a, br)]++
		case 13:
			s := sc()
			k := b.nextN
			if len(b.imps) > 0 && r.Chance(1, 5) {
				k = b.imps[r.Intn(len(b.imps))] // duplicate (maybe in another scope)
				if r.Chance(1, 2) {
					s = b.impSc[k]
				}
			} else {
				b.nextN++
			}
			o = c05Op{K: "imppriv", Sc: s, N: k}
			if (!b.locked || b.watch) && b.impSc[k] == 0 {
				b.imps = append(b.imps, k)
				b.impSc[k] = s
			}
		case 14:
			s := sc()
			k := b.nextN
			kind := []string{"p2sh", "witness", "taproot"}[r.Pick(2, 3, 3)]
			if len(b.scripts) > 0 && r.Chance(1, 6) {
				k = b.scripts[r.Intn(len(b.scripts))]
				kind = b.scrKind[k]
				s = b.scrSc[k]
			} else {
				b.nextN++
			}
			sec := kind == "p2sh" || r.Chance(3, 4)
			o = c05Op{K: "impscript", Sc: s, N: k, Kind: kind, Sec: sec}
			if _, ok := b.scrKind[k]; !ok && (!sec || (!b.locked && !b.watch)) {
				b.scripts = append(b.scripts, k)
				b.scrSc[k] = s
				b.scrKind[k] = kind
			}
		case 15, 16:
			// an issued chained address
			s := sc()
			a := acct(s)
			br := uint32(r.Intn(2))
			cnt := b.next[fmt.Sprintf("%d/%d/%d", s, a, br)]
			if cnt == 0 {
				o = c05Op{K: "props", Sc: s, Acct: a}
				break
			}
			k := &c05Key{T: "c", Acct: a, Br: br, Idx: uint32(r.Intn(int(cnt)))}
			o = c05Op{K: []string{"load", "privkey"}[r.Intn(2)], Sc: s, A: k}
		case 17:
			if len(b.scripts) == 0 {
				o = c05Op{K: "lock"}
				b.locked = true
				break
			}
			k := b.scripts[r.Intn(len(b.scripts))]
			o = c05Op{K: "script", Sc: b.scrSc[k], A: &c05Key{T: "s", N: k}}
		case 18:
			s := sc()
			o = c05Op{K: "derive", Sc: s, Acct: acct(s), Br: uint32(r.Intn(2)), Idx: uint32(r.Intn(4))}
		case 19:
			s := sc()
			o = c05Op{K: "dcache", Sc: s, Acct: acct(s), Br: uint32(r.Intn(2)), Idx: uint32(r.Intn(4))}
		case 20:
			o = c05Op{K: "convert"}
			converted = true
			b.watch, b.locked = true, true
		}
		in.Ops = append(in.Ops, o)
	}
	return in, []string{"probe:" + in.Probe}
}

// scenario cases that every run contains (they reach the situations the
// property names directly; the generated histories vary them)
func fixedCases() []c05Input {
	key := func(a, br, idx uint32) *c05Key { return &c05Key{T: "c", Acct: a, Br: br, Idx: idx} }
	return []c05Input{
		// cached derived key, then lock, then the cache variant again
		{Pub: 9, Priv: 1, Probe: "none", Ops: []c05Op{{K: "unlock", P: 1}, {K: "props", Acct: 0}, {K: "dcache", Acct: 0, Br: 0, Idx: 7},
			{K: "lock"}, {K: "dcache", Acct: 0, Br: 0, Idx: 7}, {K: "dcache", Acct: 0, Br: 0, Idx: 8}}},
		// secret scripts of the three kinds, then lock
		{Pub: 9, Priv: 1, Probe: "all", Ops: []c05Op{{K: "unlock", P: 1}, {K: "impscript", N: 1, Kind: "p2sh", Sec: true},
			{K: "impscript", N: 2, Kind: "witness", Sec: true}, {K: "impscript", N: 3, Kind: "taproot", Sec: true},
			{K: "impscript", N: 4, Kind: "witness"}, {K: "lock"}, {K: "unlock", P: 2}, {K: "unlock", P: 1}, {K: "open", P: 9}, {K: "unlock", P: 1}, {K: "lock"}}},
		// passphrase change while unlocked and while locked, restart in between
		{Pub: 9, Priv: 1, Probe: "all", Ops: []c05Op{{K: "next", Acct: 0}, {K: "unlock", P: 1}, {K: "chpriv", P: 1, Q: 6}, {K: "unlock", P: 1},
			{K: "unlock", P: 6}, {K: "open", P: 9}, {K: "unlock", P: 1}, {K: "unlock", P: 6}, {K: "lock"}, {K: "chpriv", P: 6, Q: 2},
			{K: "unlock", P: 6}, {K: "unlock", P: 2}, {K: "chpub", P: 9, Q: 8}, {K: "open", P: 9}, {K: "open", P: 8}, {K: "unlock", P: 1}, {K: "unlock", P: 2}}},
		// wrong passphrase on an unlocked manager
		{Pub: 9, Priv: 1, Probe: "all", Ops: []c05Op{{K: "unlock", P: 1}, {K: "next", Acct: 0}, {K: "imppriv", N: 1}, {K: "unlock", P: 3},
			{K: "privkey", A: key(0, 0, 0)}, {K: "unlock", P: 1}, {K: "unlock", P: 1}}},
		// account loaded while unlocked, then lock (last address objects)
		{Pub: 9, Priv: 1, Probe: "none", Ops: []c05Op{{K: "next", Acct: 0}, {K: "open", P: 9}, {K: "unlock", P: 1}, {K: "props", Acct: 0}, {K: "lock"}}},
		// watch-only (imported xpub) account loaded, then lock / unlock
		{Pub: 9, Priv: 1, Probe: "some", ProbeSeed: 5, Ops: []c05Op{{K: "unlock", P: 1}, {K: "newwatch", Sc: 2}, {K: "next", Sc: 2, Acct: 1}, {K: "lock"}, {K: "unlock", P: 1},
			{K: "open", P: 9}, {K: "unlock", P: 1}}},
		// addresses issued while locked get their keys on unlock
		{Pub: 9, Priv: 1, Probe: "all", Ops: []c05Op{{K: "next", Acct: 0}, {K: "next", Acct: 0, Int: true}, {K: "newacct", Sc: 1}, {K: "unlock", P: 1},
			{K: "newacct", Sc: 1}, {K: "next", Sc: 1, Acct: 1}, {K: "lock"}, {K: "next", Sc: 1, Acct: 1}, {K: "unlock", P: 1}, {K: "lock"}}},
		// an empty private passphrase (only reachable through ChangePassphrase)
		{Pub: 9, Priv: 1, Probe: "none", Ops: []c05Op{{K: "unlock", P: 1}, {K: "chpriv", P: 1, Q: 0}, {K: "unlock", P: 0}, {K: "unlock", P: 0},
			{K: "unlock", P: 0}, {K: "lock"}, {K: "open", P: 9}, {K: "unlock", P: 0}, {K: "unlock", P: 0}}},
		// conversion to watching-only while unlocked
		{Pub: 9, Priv: 1, Probe: "all", Ops: []c05Op{{K: "unlock", P: 1}, {K: "next", Acct: 0}, {K: "imppriv", N: 1}, {K: "impscript", N: 2, Kind: "p2sh", Sec: true},
			{K: "impscript", N: 3, Kind: "witness", Sec: true}, {K: "impscript", N: 4, Kind: "taproot"}, {K: "dcache", Acct: 0, Br: 0, Idx: 0}, {K: "convert"},
			{K: "unlock", P: 1}, {K: "lock"}, {K: "chpriv", P: 1, Q: 6}, {K: "imppriv", N: 5}, {K: "next", Acct: 0}, {K: "open", P: 9}, {K: "unlock", P: 1},
			{K: "impscript", N: 6, Kind: "witness"}, {K: "newwatch", Sc: 1}}},
	}
}

func main() {
	var maxOps int
	core.Main("c05", func(fs *flag.FlagSet) {
		fs.IntVar(&maxOps, "maxops", 26, "maximum number of main operations per generated history")
	}, func(c *core.Common, out *core.Emitter) error {
		base := ""
		if st, err := os.Stat("/dev/shm"); err == nil && st.IsDir() {
			base = "/dev/shm"
		}
		runOne := func(in c05Input, tags []string) error {
			cs, err := runCase(base, in, tags)
			if err != nil {
				return err
			}
			out.Emit(cs)
			return nil
		}
		if c.Replay != "" {
			return core.ReadReplay(c.Replay, func(raw json.RawMessage) error {
				var cs struct {
					In c05Input `json:"in"`
				}
				if err := json.Unmarshal(raw, &cs); err != nil {
					return err
				}
				return runOne(cs.In, []string{"replay"})
			})
		}
		for _, in := range fixedCases() {
			if err := runOne(in, []string{"scenario"}); err != nil {
				return err
			}
		}
		r := gen.New(c.Seed, 5)
		for i := 0; i < c.N; i++ {
			in, tags := genCase(r, maxOps)
			if err := runOne(in, tags); err != nil {
				return err
			}
		}
		return nil
	})
}
