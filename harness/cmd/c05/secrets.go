// Generic observation of clear-text secret buffers (C05, review round 3).
//
// The hook Manager.VerifSecretBuffers names a fixed list of buffers and, for
// several of them, reports only whether the FIELD is nil / the cache empty.
// That cannot see a buffer that is dropped without being zeroed
// (`acctKeyPriv = nil` without Zero(), `privKeyCT = nil` without zero.Bytes,
// `privKeyCache.Delete` without key.Zero()), a new secret-bearing field, or an
// object that left the manager's maps while it still held its clear text.
//
// This file walks, by reflection, EVERY field of the object graph that hangs
// off the *waddrmgr.Manager (scoped managers, account infos, address objects,
// derive-on-unlock entries, the LRU of derived keys, crypto keys, ...), with no
// list of field names to follow.  While it walks it
//
//   - registers every waddrmgr object it meets (by identity) and keeps it, so
//     that an object the manager later drops (MarkUsed, InvalidateAccountCache,
//     the derive-on-unlock queue, LRU eviction, a replaced last address) can
//     still be inspected after Lock;
//   - records a REFERENCE to the backing array of every buffer that can hold
//     secret clear text (the []byte itself, the key bytes of a private
//     *hdkeychain.ExtendedKey, the scalar of a btcec.PrivateKey, a
//     snacl.CryptoKey, byte arrays), so that after Lock the retained reference
//     shows whether the BYTES were zeroed, not whether the field was cleared.
//
// Classification is by TYPE, so a new field is picked up without touching
// this file: a private extended key, an EC private key and a crypto key are
// secret wherever they appear (the public-passphrase keys masterKeyPub /
// cryptoKeyPub, which lock() documents as intentionally kept, are the only
// exemption); plain byte fields are secret when they are one of the clear-text
// fields the property names (privKeyCT, scriptClearText of a secret script,
// hashedPrivPassphrase) and otherwise - encrypted blobs, salts, and any field
// this file has never heard of - they are SCANNED for the bytes of the secrets
// seen while unlocked (and of the account keys the harness derives on its own
// from the wallet seed): a copy of a private key parked in a new []byte field
// is found by content.
//
// The oracle (checkSecrets) is the property text: once the manager is locked
// (Lock, a failed Unlock, ConvertToWatchingOnly) no buffer the manager ever
// owned still holds clear-text secret bytes.  Objects that were only ever
// handed to a caller (results of DeriveFromKeyPath / ForEachAccountAddress
// while unlocked: never stored in the manager) are the caller's copy, like a
// returned *btcec.PrivateKey: they are not covered by "Locking clears", and
// PrivKey()/Script() on them is covered by the access-control clause.
package main

import (
	"bytes"
	"fmt"
	"reflect"
	"sort"
	"strings"
	"unsafe"

	"github.com/btcsuite/btcd/btcutil/hdkeychain"
	"github.com/btcsuite/btcd/chaincfg"
)

const (
	polMustZero = iota // secret clear text: all zero once locked
	polScan            // not secret by itself: must not CONTAIN a known secret once locked
)

// objRec is one waddrmgr object (struct reached through a pointer) that was,
// at some point, part of the object graph of the manager or handed to the
// harness.
type objRec struct {
	ptr      unsafe.Pointer
	val      reflect.Value // the struct (addressable)
	typ      string        // managedAddress, accountInfo, cachedKey, ...
	path     string        // how it was first reached
	owned    bool          // was reachable from the Manager at some capture (false: only ever held by the caller)
	reach    bool          // reachable from the Manager at the latest capture
	leftAt   string        // main operation during which it left the manager's graph ("" while reachable)
	heldFrom string        // origin if the harness holds it (next, derive, address, import, foreach)
}

// bufRec is a retained reference to the backing memory of one buffer.
type bufRec struct {
	ptr    unsafe.Pointer
	n      int
	class  string // <owner type>.<field path>
	policy int
	owner  *objRec
}

func (b *bufRec) bytes() []byte { return unsafe.Slice((*byte)(b.ptr), b.n) }

type secretBook struct {
	objs    map[unsafe.Pointer]*objRec
	bufs    map[unsafe.Pointer]*bufRec
	needles map[string]string // secret bytes -> class they were seen in
	// statistics for the evidence
	nCaptures, nChecks int
}

func newSecretBook() *secretBook {
	return &secretBook{objs: map[unsafe.Pointer]*objRec{}, bufs: map[unsafe.Pointer]*bufRec{}, needles: map[string]string{}}
}

const waddrmgrPkg = "github.com/btcsuite/btcwallet/waddrmgr"
const snaclPkg = "github.com/btcsuite/btcwallet/snacl"

// packages whose values cannot hold wallet secrets and are not worth walking
func skipType(t reflect.Type) bool {
	p := t.PkgPath()
	switch {
	case p == "sync", p == "sync/atomic", p == "time", p == "math/big":
		return true
	case strings.HasSuffix(p, "/chaincfg"), strings.HasSuffix(p, "/chaincfg/chainhash"), strings.HasSuffix(p, "/wire"),
		strings.HasSuffix(p, "/btcutil"), strings.HasSuffix(p, "/walletdb"), strings.HasPrefix(p, "go.etcd.io/"):
		return true
	}
	return false
}

func isExtendedKey(t reflect.Type) bool {
	return t.Name() == "ExtendedKey" && strings.HasSuffix(t.PkgPath(), "/hdkeychain")
}

func isECPrivateKey(t reflect.Type) bool {
	return t.Name() == "PrivateKey" && (strings.HasSuffix(t.PkgPath(), "/secp256k1/v4") || strings.HasSuffix(t.PkgPath(), "/btcec/v2"))
}

func isByteArray(t reflect.Type) bool { return t.Kind() == reflect.Array && t.Elem().Kind() == reflect.Uint8 }
func isByteSlice(t reflect.Type) bool { return t.Kind() == reflect.Slice && t.Elem().Kind() == reflect.Uint8 }

// ownerType: a waddrmgr struct that is an object of its own (cryptoKey is a
// thin wrapper around the key bytes and counts as part of its holder).
func ownerType(t reflect.Type) bool {
	return t.Kind() == reflect.Struct && t.PkgPath() == waddrmgrPkg && t.Name() != "cryptoKey"
}

// publicClass: buffers that are not clear-text secrets by design.  They are
// still scanned for the bytes of known secrets.
func publicClass(class string) bool {
	switch {
	case strings.HasPrefix(class, "Manager.masterKeyPub"), strings.HasPrefix(class, "Manager.cryptoKeyPub"):
		// lock(): "m.cryptoKeyPub is intentionally not cleared here"
		return true
	case strings.Contains(class, ".Parameters."): // snacl.Parameters: salt, digest
		return true
	case strings.HasSuffix(class, "Encrypted"): // sealed blobs
		return true
	case class == "Manager.privPassphraseSalt":
		return true
	}
	return false
}

// namedSecretBytes: the plain byte fields the property names as clear text.
func namedSecretBytes(class string) bool {
	switch {
	case class == "managedAddress.privKeyCT", class == "Manager.hashedPrivPassphrase":
		return true
	case strings.HasSuffix(class, ".scriptClearText"):
		return true // (the walker drops it for public witness scripts)
	}
	return false
}

type walkCtx struct {
	book    *secretBook
	seen    map[unsafe.Pointer]map[reflect.Type]bool
	fromMgr bool
	held    string
	learn   bool // record the contents of must-zero buffers as needles (manager unlocked)
	// script objects: is the script of the current owner secret?
	secretScript bool
}

func (c *walkCtx) visited(p unsafe.Pointer, t reflect.Type) bool {
	m := c.seen[p]
	if m == nil {
		m = map[reflect.Type]bool{}
		c.seen[p] = m
	}
	if m[t] {
		return true
	}
	m[t] = true
	return false
}

func allZero(b []byte) bool {
	for _, x := range b {
		if x != 0 {
			return false
		}
	}
	return true
}

func (c *walkCtx) record(ptr unsafe.Pointer, n int, class string, policy int, owner *objRec) {
	if ptr == nil || n == 0 {
		return
	}
	if _, ok := c.book.bufs[ptr]; !ok {
		if allZero(unsafe.Slice((*byte)(ptr), n)) {
			return // nothing in it (yet); it is found again when it holds something
		}
		c.book.bufs[ptr] = &bufRec{ptr: ptr, n: n, class: class, policy: policy, owner: owner}
	} else if policy == polMustZero {
		c.book.bufs[ptr].policy = polMustZero
		c.book.bufs[ptr].class = class
	}
	if policy == polMustZero && c.learn && n >= 8 {
		b := unsafe.Slice((*byte)(ptr), n)
		if !allZero(b) {
			if _, ok := c.book.needles[string(b)]; !ok {
				c.book.needles[string(b)] = class
			}
		}
	}
}

// scriptSecret: p2sh scripts are always secret; witness / taproot scripts
// when isSecretScript is set.
func scriptSecret(v reflect.Value) bool {
	var find func(v reflect.Value) (bool, bool)
	find = func(v reflect.Value) (bool, bool) {
		for i := 0; i < v.NumField(); i++ {
			f := v.Type().Field(i)
			if f.Name == "isSecretScript" && f.Type.Kind() == reflect.Bool {
				return v.Field(i).Bool(), true
			}
			if f.Anonymous && f.Type.Kind() == reflect.Struct {
				if s, ok := find(v.Field(i)); ok {
					return s, true
				}
			}
		}
		return false, false
	}
	if s, ok := find(v); ok {
		return s
	}
	return true
}

func (c *walkCtx) walk(v reflect.Value, owner *objRec, class string, path string) {
	switch v.Kind() {
	case reflect.Ptr:
		if v.IsNil() {
			return
		}
		et := v.Type().Elem()
		if skipType(et) {
			return
		}
		p := v.UnsafePointer()
		if isByteArray(et) {
			// *snacl.CryptoKey and friends
			c.bytesField(p, et.Len(), et, owner, class)
			return
		}
		if c.visited(p, et) {
			return
		}
		e := v.Elem()
		if ownerType(et) {
			o := c.book.objs[p]
			if o == nil {
				o = &objRec{ptr: p, val: e, typ: et.Name(), path: path}
				c.book.objs[p] = o
			}
			if c.fromMgr {
				o.owned, o.reach, o.leftAt = true, true, ""
			} else if c.held != "" && o.heldFrom == "" {
				o.heldFrom = c.held
			}
			saved := c.secretScript
			c.secretScript = scriptSecret(e)
			c.walk(e, o, et.Name(), path)
			c.secretScript = saved
			return
		}
		c.walk(e, owner, class, path)
	case reflect.Interface:
		if v.IsNil() {
			return
		}
		c.walk(v.Elem(), owner, class, path)
	case reflect.Struct:
		t := v.Type()
		if skipType(t) {
			return
		}
		if isExtendedKey(t) {
			// the private key bytes of a PRIVATE extended key (Zero() zeroes them
			// in place and drops the slice)
			if v.FieldByName("isPrivate").Bool() {
				k := v.FieldByName("key")
				if k.IsValid() && isByteSlice(k.Type()) && k.Len() > 0 {
					c.record(k.UnsafePointer(), k.Len(), class, c.policyFor(class, true), owner)
				}
			}
			return
		}
		if isECPrivateKey(t) {
			if v.CanAddr() {
				c.record(v.Addr().UnsafePointer(), int(t.Size()), class, c.policyFor(class, true), owner)
			}
			return
		}
		classify := t.PkgPath() == waddrmgrPkg || t.PkgPath() == snaclPkg
		for i := 0; i < v.NumField(); i++ {
			sf := t.Field(i)
			f := v.Field(i)
			fc, fp := class, path
			if !sf.Anonymous {
				fc, fp = class+"."+sf.Name, path+"."+sf.Name
			}
			ft := sf.Type
			switch {
			case isByteSlice(ft):
				if classify && f.Len() > 0 {
					c.bytesField(f.UnsafePointer(), f.Len(), ft, owner, fc)
				}
			case isByteArray(ft):
				if classify && f.CanAddr() {
					c.bytesField(f.Addr().UnsafePointer(), ft.Len(), ft, owner, fc)
				}
			default:
				c.walk(f, owner, fc, fp)
			}
		}
	case reflect.Slice:
		if v.IsNil() || isByteSlice(v.Type()) {
			return
		}
		for i := 0; i < v.Len(); i++ {
			c.walk(v.Index(i), owner, class, fmt.Sprintf("%s[%d]", path, i))
		}
	case reflect.Array:
		if isByteArray(v.Type()) {
			return
		}
		for i := 0; i < v.Len(); i++ {
			c.walk(v.Index(i), owner, class, fmt.Sprintf("%s[%d]", path, i))
		}
	case reflect.Map:
		if v.IsNil() {
			return
		}
		it := v.MapRange()
		for it.Next() {
			c.walk(it.Value(), owner, class, path+"[]")
		}
	}
}

// policyFor: typed secrets (private extended key, EC private key, crypto key)
// must be zero unless they hang off one of the documented public keys.
func (c *walkCtx) policyFor(class string, typedSecret bool) int {
	if publicClass(class) {
		return polScan
	}
	if typedSecret || namedSecretBytes(class) {
		return polMustZero
	}
	return polScan
}

func (c *walkCtx) bytesField(p unsafe.Pointer, n int, t reflect.Type, owner *objRec, class string) {
	// a named byte-array type of the secret-key package is a typed secret
	typed := t.Kind() == reflect.Array && t.PkgPath() == snaclPkg
	if t.PkgPath() != "" && t.PkgPath() != snaclPkg && t.PkgPath() != waddrmgrPkg {
		return // chainhash.Hash and the like
	}
	pol := c.policyFor(class, typed)
	if pol == polMustZero && strings.HasSuffix(class, ".scriptClearText") && !c.secretScript {
		pol = polScan // the script of a public witness script is not a secret
	}
	c.record(p, n, class, pol, owner)
}

// capture walks the manager's graph and the objects the harness holds.  op is
// the main operation that just ran ("" for the initial state): objects that
// were reachable before and are not any more left the graph during it.
func (w *world) captureSecrets(op string) {
	b := w.book
	b.nCaptures++
	for _, o := range b.objs {
		o.reach = false
	}
	unlocked := !w.mgr.IsLocked() && !w.mgr.WatchOnly()
	c := &walkCtx{book: b, seen: map[unsafe.Pointer]map[reflect.Type]bool{}, fromMgr: true, learn: unlocked}
	c.walk(reflect.ValueOf(w.mgr), nil, "", "Manager")
	c.fromMgr = false
	for _, h := range w.held {
		c.held = h.origin
		hv := reflect.ValueOf(h.obj)
		c.walk(hv, nil, "", "held:"+h.origin)
		if hv.Kind() == reflect.Ptr && !hv.IsNil() {
			if o := b.objs[hv.UnsafePointer()]; o != nil && o.heldFrom == "" {
				o.heldFrom = h.origin
			}
		}
	}
	for _, o := range b.objs {
		if o.owned && !o.reach && o.leftAt == "" {
			o.leftAt = op
			if op == "" {
				o.leftAt = "?"
			}
		}
	}
	if unlocked {
		w.independentNeedles()
	}
}

// independentNeedles: the account and coin-type private keys of every known
// account, derived by the harness from the wallet seed (raw scalar and the
// serialised xprv string), so that a copy kept in ANY form of buffer is found.
func (w *world) independentNeedles() {
	if w.root == nil {
		return
	}
	for sc := range scopes {
		purpose, err := w.root.DeriveNonStandard(scopes[sc].Purpose + hdkeychain.HardenedKeyStart) //nolint
		if err != nil {
			continue
		}
		coin, err := purpose.DeriveNonStandard(scopes[sc].Coin + hdkeychain.HardenedKeyStart) //nolint
		if err != nil {
			continue
		}
		add := func(k *hdkeychain.ExtendedKey, what string) {
			if w.needleDone[what] {
				return
			}
			w.needleDone[what] = true
			if pk, err := k.ECPrivKey(); err == nil {
				w.book.needles[string(pk.Serialize())] = what
			}
			w.book.needles[k.String()] = what + "(xprv)"
		}
		add(coin, fmt.Sprintf("coin-type key of scope %d", sc))
		for _, a := range w.accts[sc] {
			if a.watch {
				continue
			}
			ak, err := coin.DeriveNonStandard(a.num + hdkeychain.HardenedKeyStart) //nolint
			if err != nil {
				continue
			}
			add(ak, fmt.Sprintf("account key %d/%d", sc, a.num))
		}
	}
}

var _ = chaincfg.MainNetParams

// secretFinding: one buffer that still holds secret bytes although the manager
// is locked / watching-only.
type secretFinding struct {
	Class   string `json:"class"`
	Owner   string `json:"owner"`             // type of the object that held it
	Status  string `json:"status"`            // tracked | evicted
	LeftAt  string `json:"left_at,omitempty"` // the operation during which the object left the manager's graph
	How     string `json:"how"`               // not_zeroed | contains:<what>
	Path    string `json:"path,omitempty"`
	HeldAs  string `json:"held_as,omitempty"`
	gcClass string
}

// checkSecrets inspects every retained buffer reference and every registered
// object; called when the manager is locked or watching-only.
func (w *world) checkSecrets() []secretFinding {
	b := w.book
	b.nChecks++
	// the objects' CURRENT buffers (an object that got its clear text after it
	// was last walked - e.g. a queued address served by Unlock and dropped)
	c := &walkCtx{book: b, seen: map[unsafe.Pointer]map[reflect.Type]bool{}}
	for _, o := range b.objs {
		if !o.owned {
			continue
		}
		saved := c.secretScript
		c.secretScript = scriptSecret(o.val)
		c.walkOwn(o)
		c.secretScript = saved
	}
	var out []secretFinding
	var keys []unsafe.Pointer
	for p := range b.bufs {
		keys = append(keys, p)
	}
	sort.Slice(keys, func(i, j int) bool { return uintptr(keys[i]) < uintptr(keys[j]) })
	for _, p := range keys {
		r := b.bufs[p]
		data := r.bytes()
		if allZero(data) {
			delete(b.bufs, p) // done: zeroed (an empty buffer is recorded again when it is refilled)
			continue
		}
		if r.owner == nil || !r.owner.owned {
			continue // the caller's copy
		}
		how := ""
		if r.policy == polMustZero {
			how = "not_zeroed"
		} else if what := w.containsNeedle(data); what != "" {
			how = "contains:" + what
		} else {
			continue
		}
		f := secretFinding{Class: r.class, Owner: r.owner.typ, How: how, Path: r.owner.path, HeldAs: r.owner.heldFrom}
		if r.owner.reach {
			f.Status = "tracked"
		} else {
			f.Status, f.LeftAt = "evicted", r.owner.leftAt
		}
		out = append(out, f)
	}
	return out
}

// walkOwn walks the fields of one registered object without entering other
// owner objects (they are in the registry themselves).
func (c *walkCtx) walkOwn(o *objRec) {
	c.fromMgr = false
	c.held = ""
	c.walkNoOwners(o.val, o, o.typ, o.path)
}

func (c *walkCtx) walkNoOwners(v reflect.Value, owner *objRec, class, path string) {
	// identical to walk, except that pointers to other owner objects are not followed
	switch v.Kind() {
	case reflect.Ptr:
		if v.IsNil() {
			return
		}
		if ownerType(v.Type().Elem()) {
			return
		}
		et := v.Type().Elem()
		if skipType(et) {
			return
		}
		p := v.UnsafePointer()
		if isByteArray(et) {
			c.bytesField(p, et.Len(), et, owner, class)
			return
		}
		if c.visited(p, et) {
			return
		}
		c.walkNoOwners(v.Elem(), owner, class, path)
	case reflect.Interface:
		if v.IsNil() {
			return
		}
		c.walkNoOwners(v.Elem(), owner, class, path)
	case reflect.Struct:
		t := v.Type()
		if skipType(t) {
			return
		}
		if isExtendedKey(t) || isECPrivateKey(t) {
			c.walk(v, owner, class, path)
			return
		}
		classify := t.PkgPath() == waddrmgrPkg || t.PkgPath() == snaclPkg
		for i := 0; i < v.NumField(); i++ {
			sf := t.Field(i)
			f := v.Field(i)
			fc, fp := class, path
			if !sf.Anonymous {
				fc, fp = class+"."+sf.Name, path+"."+sf.Name
			}
			ft := sf.Type
			switch {
			case isByteSlice(ft):
				if classify && f.Len() > 0 {
					c.bytesField(f.UnsafePointer(), f.Len(), ft, owner, fc)
				}
			case isByteArray(ft):
				if classify && f.CanAddr() {
					c.bytesField(f.Addr().UnsafePointer(), ft.Len(), ft, owner, fc)
				}
			case ft.Kind() == reflect.Map || (ft.Kind() == reflect.Slice && !isByteSlice(ft)):
				// containers of other objects
			default:
				c.walkNoOwners(f, owner, fc, fp)
			}
		}
	}
}

func (w *world) containsNeedle(data []byte) string {
	for n, what := range w.book.needles {
		if len(n) <= len(data) && bytes.Contains(data, []byte(n)) {
			return what
		}
	}
	return ""
}
