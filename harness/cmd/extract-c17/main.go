// extract-c17 reads snacl/snacl.go (go/ast, no type checking) and prints, as
// one JSON object, the three facts the C17 theorems about Decrypt and
// DeriveKey take as premises (coq/Generated/SnaclFacts.v):
//
//   - pw_unchanged: (*SecretKey).deriveKey hands the bytes of its passphrase
//     parameter to scrypt.Key unchanged - argument 0 of the only scrypt.Key
//     call is `*password` (or a local defined once as `*password` and used
//     nowhere else), the parameter has no other use in deriveKey - and its
//     only callers, (*SecretKey).DeriveKey and NewSecretKey, pass their own
//     passphrase parameter straight through and use it nowhere else.
//
//   - digest_full: (*SecretKey).DeriveKey compares ALL of
//     sha256.Sum256(sk.Key[:]) with ALL of sk.Parameters.Digest
//     (subtle.ConstantTimeCompare(d[:], sk.Parameters.Digest[:]) != 1, or
//     == 0, or !bytes.Equal of the same full slices, or the two arrays with
//     !=), returns ErrInvalidPassword when they differ, and cannot return nil
//     before that comparison; NewSecretKey stores
//     sk.Parameters.Digest = sha256.Sum256(sk.Key[:]).
//
//   - open_checked: (*CryptoKey).Decrypt calls secretbox.Open once, the next
//     statement returns a non-nil error when its boolean result is false
//     (`if !ok { return nil, Err… }`, or `if ok { return opened, nil }`
//     followed by the error return), and no `return …, nil` precedes the call.
//
// usage: extract-c17 <repo>
//
// Everything is syntactic.  A recognised shape yields {"ok":true,"value":true};
// anything else {"ok":false,"why":"…"}: nothing is guessed, in particular never
// "false" - lib/extract_c17.py then determines the fact by running the code
// (harness/cmd/c17 -probe), which also yields the witness input.
package main

import (
	"encoding/json"
	"fmt"
	"go/ast"
	"go/parser"
	"go/token"
	"os"
	"path/filepath"
)

type fact struct {
	OK    bool   `json:"ok"`
	Value bool   `json:"value"`
	Why   string `json:"why"`
}

type result struct {
	PwUnchanged fact `json:"pw_unchanged"`
	DigestFull  fact `json:"digest_full"`
	OpenChecked fact `json:"open_checked"`
}

type refuse struct{ msg string }

func refusef(format string, a ...interface{}) { panic(refuse{fmt.Sprintf(format, a...)}) }

var fset = token.NewFileSet()

func pos(n ast.Node) string {
	p := fset.Position(n.Pos())
	return fmt.Sprintf("%s:%d", filepath.Base(p.Filename), p.Line)
}

func unparen(e ast.Expr) ast.Expr {
	for {
		p, ok := e.(*ast.ParenExpr)
		if !ok {
			return e
		}
		e = p.X
	}
}

func isIdent(e ast.Expr, name string) bool {
	id, ok := unparen(e).(*ast.Ident)
	return ok && id.Name == name
}

// isSel: e is <x>.<sel> with x an identifier named x
func isSel(e ast.Expr, x, sel string) bool {
	s, ok := unparen(e).(*ast.SelectorExpr)
	return ok && s.Sel.Name == sel && isIdent(s.X, x)
}

// isSel2: e is <x>.<a>.<b>
func isSel2(e ast.Expr, x, a, b string) bool {
	s, ok := unparen(e).(*ast.SelectorExpr)
	return ok && s.Sel.Name == b && isSel(s.X, x, a)
}

func isDeref(e ast.Expr, name string) bool {
	s, ok := unparen(e).(*ast.StarExpr)
	return ok && isIdent(s.X, name)
}

// fullSlice returns x for x[:] (no bounds), nil otherwise
func fullSlice(e ast.Expr) ast.Expr {
	s, ok := unparen(e).(*ast.SliceExpr)
	if !ok || s.Low != nil || s.High != nil || s.Max != nil {
		return nil
	}
	return s.X
}

func callTo(e ast.Expr, pkg, name string) *ast.CallExpr {
	c, ok := unparen(e).(*ast.CallExpr)
	if !ok || !isSel(c.Fun, pkg, name) {
		return nil
	}
	return c
}

// recvOf returns the receiver name when fd is a method on *typ
func recvOf(fd *ast.FuncDecl, typ string) (string, bool) {
	if fd.Recv == nil || len(fd.Recv.List) != 1 || len(fd.Recv.List[0].Names) != 1 {
		return "", false
	}
	st, ok := fd.Recv.List[0].Type.(*ast.StarExpr)
	if !ok || !isIdent(st.X, typ) {
		return "", false
	}
	return fd.Recv.List[0].Names[0].Name, true
}

func findMethod(f *ast.File, typ, name string) (*ast.FuncDecl, string) {
	for _, d := range f.Decls {
		if fd, ok := d.(*ast.FuncDecl); ok && fd.Name.Name == name && fd.Body != nil {
			if r, ok := recvOf(fd, typ); ok {
				return fd, r
			}
		}
	}
	refusef("method (*%s).%s not found", typ, name)
	return nil, ""
}

func findFunc(f *ast.File, name string) *ast.FuncDecl {
	for _, d := range f.Decls {
		if fd, ok := d.(*ast.FuncDecl); ok && fd.Name.Name == name && fd.Recv == nil && fd.Body != nil {
			return fd
		}
	}
	refusef("function %s not found", name)
	return nil
}

// passParam: the name of the only parameter of type *[]byte
func passParam(fd *ast.FuncDecl) string {
	var names []string
	for _, fl := range fd.Type.Params.List {
		st, ok := fl.Type.(*ast.StarExpr)
		if !ok {
			continue
		}
		at, ok := st.X.(*ast.ArrayType)
		if !ok || at.Len != nil || !isIdent(at.Elt, "byte") {
			continue
		}
		for _, n := range fl.Names {
			names = append(names, n.Name)
		}
	}
	if len(names) != 1 {
		refusef("%s: %s has %d parameters of type *[]byte, want exactly one", pos(fd), fd.Name.Name, len(names))
	}
	return names[0]
}

func countUses(body ast.Node, name string) int {
	n := 0
	ast.Inspect(body, func(x ast.Node) bool {
		if id, ok := x.(*ast.Ident); ok && id.Name == name {
			n++
		}
		return true
	})
	return n
}

func callsTo(body ast.Node, match func(*ast.CallExpr) bool) []*ast.CallExpr {
	var out []*ast.CallExpr
	ast.Inspect(body, func(x ast.Node) bool {
		if c, ok := x.(*ast.CallExpr); ok && match(c) {
			out = append(out, c)
		}
		return true
	})
	return out
}

// ---- pw_unchanged

func readPwUnchanged(f *ast.File) string {
	dk, _ := findMethod(f, "SecretKey", "deriveKey")
	p := passParam(dk)
	calls := callsTo(dk.Body, func(c *ast.CallExpr) bool { return isSel(c.Fun, "scrypt", "Key") })
	if len(calls) != 1 {
		refusef("%s: deriveKey has %d calls of scrypt.Key, want exactly one", pos(dk), len(calls))
	}
	call := calls[0]
	if len(call.Args) < 1 {
		refusef("%s: scrypt.Key without arguments", pos(call))
	}
	arg := unparen(call.Args[0])
	switch {
	case isDeref(arg, p):
		if n := countUses(dk.Body, p); n != 1 {
			refusef("%s: deriveKey uses its passphrase parameter %q in %d places, want only as `*%s` in scrypt.Key", pos(dk), p, n, p)
		}
	default:
		id, ok := arg.(*ast.Ident)
		if !ok {
			refusef("%s: argument 0 of scrypt.Key is neither `*%s` nor a local holding it", pos(call), p)
		}
		defs := 0
		ast.Inspect(dk.Body, func(x ast.Node) bool {
			as, ok := x.(*ast.AssignStmt)
			if !ok {
				return true
			}
			for _, l := range as.Lhs {
				if isIdent(l, id.Name) {
					if as.Tok == token.DEFINE && len(as.Lhs) == 1 && len(as.Rhs) == 1 && isDeref(as.Rhs[0], p) {
						defs++
					} else {
						refusef("%s: the local %q handed to scrypt.Key is assigned something other than `*%s`", pos(as), id.Name, p)
					}
				}
			}
			return true
		})
		if defs != 1 || countUses(dk.Body, id.Name) != 2 || countUses(dk.Body, p) != 1 {
			refusef("%s: the local %q handed to scrypt.Key is not a single-use copy of `*%s`", pos(call), id.Name, p)
		}
	}
	// the callers pass their passphrase straight through
	dkey, _ := findMethod(f, "SecretKey", "DeriveKey")
	nsk := findFunc(f, "NewSecretKey")
	for _, d := range f.Decls {
		fd, ok := d.(*ast.FuncDecl)
		if !ok || fd.Body == nil {
			continue
		}
		cs := callsTo(fd.Body, func(c *ast.CallExpr) bool {
			s, ok := c.Fun.(*ast.SelectorExpr)
			return ok && s.Sel.Name == "deriveKey"
		})
		if len(cs) == 0 {
			continue
		}
		if fd != dkey && fd != nsk {
			refusef("%s: deriveKey is also called from %s", pos(cs[0]), fd.Name.Name)
		}
		q := passParam(fd)
		if len(cs) != 1 || len(cs[0].Args) != 1 || !isIdent(cs[0].Args[0], q) {
			refusef("%s: %s does not hand its passphrase parameter %q to deriveKey as it is", pos(fd), fd.Name.Name, q)
		}
		if n := countUses(fd.Body, q); n != 1 {
			refusef("%s: %s uses its passphrase parameter %q in %d places, want only in the deriveKey call", pos(fd), fd.Name.Name, q, n)
		}
	}
	for _, fd := range []*ast.FuncDecl{dkey, nsk} {
		if len(callsTo(fd.Body, func(c *ast.CallExpr) bool {
			s, ok := c.Fun.(*ast.SelectorExpr)
			return ok && s.Sel.Name == "deriveKey"
		})) != 1 {
			refusef("%s: %s does not call deriveKey exactly once", pos(fd), fd.Name.Name)
		}
	}
	return fmt.Sprintf("%s: scrypt.Key(*%s, …) in deriveKey; DeriveKey and NewSecretKey pass their passphrase parameter through", pos(call), p)
}

// ---- digest_full

// isSum256OfKey: sha256.Sum256(<r>.Key[:])
func isSum256OfKey(e ast.Expr, r string) bool {
	c := callTo(e, "sha256", "Sum256")
	if c == nil || len(c.Args) != 1 {
		return false
	}
	x := fullSlice(c.Args[0])
	return x != nil && isSel(x, r, "Key")
}

func returnsNil(s ast.Stmt) bool {
	found := false
	ast.Inspect(s, func(x ast.Node) bool {
		if _, ok := x.(*ast.FuncLit); ok {
			return false
		}
		if rs, ok := x.(*ast.ReturnStmt); ok {
			if len(rs.Results) == 0 || isIdent(rs.Results[len(rs.Results)-1], "nil") {
				found = true
			}
		}
		return true
	})
	return found
}

func readDigestFull(f *ast.File) string {
	fd, r := findMethod(f, "SecretKey", "DeriveKey")
	// the pair (local digest, stored digest) compared in full
	pair := func(a, b ast.Expr, sliced bool) (string, bool) {
		get := func(e ast.Expr) ast.Expr {
			if sliced {
				return fullSlice(e)
			}
			return unparen(e)
		}
		x, y := get(a), get(b)
		if x == nil || y == nil {
			return "", false
		}
		if isSel2(y, r, "Parameters", "Digest") {
			if id, ok := unparen(x).(*ast.Ident); ok {
				return id.Name, true
			}
		}
		if isSel2(x, r, "Parameters", "Digest") {
			if id, ok := unparen(y).(*ast.Ident); ok {
				return id.Name, true
			}
		}
		return "", false
	}
	isLit := func(e ast.Expr, v string) bool {
		b, ok := unparen(e).(*ast.BasicLit)
		return ok && b.Value == v
	}
	// cond is "the digests differ"; returns the local's name
	differ := func(cond ast.Expr) (string, bool) {
		switch c := unparen(cond).(type) {
		case *ast.BinaryExpr:
			if call := callTo(c.X, "subtle", "ConstantTimeCompare"); call != nil && len(call.Args) == 2 {
				if (c.Op == token.NEQ && isLit(c.Y, "1")) || (c.Op == token.EQL && isLit(c.Y, "0")) {
					return pair(call.Args[0], call.Args[1], true)
				}
				return "", false
			}
			if c.Op == token.NEQ {
				return pair(c.X, c.Y, false)
			}
		case *ast.UnaryExpr:
			if c.Op == token.NOT {
				if call := callTo(c.X, "bytes", "Equal"); call != nil && len(call.Args) == 2 {
					return pair(call.Args[0], call.Args[1], true)
				}
			}
		}
		return "", false
	}
	idx, local := -1, ""
	for i, s := range fd.Body.List {
		if is, ok := s.(*ast.IfStmt); ok && is.Init == nil {
			if d, ok := differ(is.Cond); ok {
				if idx >= 0 {
					refusef("%s: DeriveKey compares the digest twice", pos(is))
				}
				idx, local = i, d
			}
		}
	}
	if idx < 0 {
		refusef("%s: no comparison of the whole sha256.Sum256(%s.Key[:]) with the whole %s.Parameters.Digest found in DeriveKey "+
			"(subtle.ConstantTimeCompare(d[:], %s.Parameters.Digest[:]) != 1 and equivalents are recognised)", pos(fd), r, r, r)
	}
	is := fd.Body.List[idx].(*ast.IfStmt)
	if n := len(is.Body.List); n == 0 {
		refusef("%s: empty body of the digest comparison", pos(is))
	} else if rs, ok := is.Body.List[n-1].(*ast.ReturnStmt); !ok || len(rs.Results) != 1 || !isIdent(rs.Results[0], "ErrInvalidPassword") {
		refusef("%s: the digest comparison does not end in `return ErrInvalidPassword`", pos(is))
	}
	if is.Else != nil {
		refusef("%s: the digest comparison has an else branch", pos(is))
	}
	// the local is sha256.Sum256(r.Key[:]), defined once before, used only in the comparison
	defs := 0
	for _, s := range fd.Body.List[:idx] {
		if as, ok := s.(*ast.AssignStmt); ok && len(as.Lhs) == 1 && len(as.Rhs) == 1 && isIdent(as.Lhs[0], local) {
			if !isSum256OfKey(as.Rhs[0], r) {
				refusef("%s: %q is not sha256.Sum256(%s.Key[:])", pos(as), local, r)
			}
			defs++
		}
		if returnsNil(s) {
			refusef("%s: DeriveKey can return nil before the digest comparison", pos(s))
		}
	}
	if defs != 1 || countUses(fd.Body, local) != 2 {
		refusef("%s: the compared local %q is not a single definition sha256.Sum256(%s.Key[:]) used only in the comparison", pos(is), local, r)
	}
	// NewSecretKey stores the whole digest
	nsk := findFunc(f, "NewSecretKey")
	stored := 0
	ast.Inspect(nsk.Body, func(x ast.Node) bool {
		as, ok := x.(*ast.AssignStmt)
		if !ok || len(as.Lhs) != 1 || len(as.Rhs) != 1 {
			return true
		}
		if s, ok := as.Lhs[0].(*ast.SelectorExpr); ok && s.Sel.Name == "Digest" {
			if id, ok := recvIdentOf(s); ok && isSum256OfKey(as.Rhs[0], id) && as.Tok == token.ASSIGN {
				stored++
			} else {
				refusef("%s: NewSecretKey stores something other than sha256.Sum256(<sk>.Key[:]) as the digest", pos(as))
			}
		}
		return true
	})
	if stored != 1 {
		refusef("%s: NewSecretKey does not store <sk>.Parameters.Digest = sha256.Sum256(<sk>.Key[:]) exactly once", pos(nsk))
	}
	return fmt.Sprintf("%s: whole sha256.Sum256(%s.Key[:]) against whole %s.Parameters.Digest, ErrInvalidPassword when they differ", pos(is), r, r)
}

// recvIdentOf: for <x>.Parameters.Digest returns x
func recvIdentOf(s *ast.SelectorExpr) (string, bool) {
	in, ok := unparen(s.X).(*ast.SelectorExpr)
	if !ok || in.Sel.Name != "Parameters" {
		return "", false
	}
	id, ok := unparen(in.X).(*ast.Ident)
	if !ok {
		return "", false
	}
	return id.Name, true
}

// ---- open_checked

func readOpenChecked(f *ast.File) string {
	fd, _ := findMethod(f, "CryptoKey", "Decrypt")
	if n := len(callsTo(fd.Body, func(c *ast.CallExpr) bool { return isSel(c.Fun, "secretbox", "Open") })); n != 1 {
		refusef("%s: Decrypt has %d calls of secretbox.Open, want exactly one", pos(fd), n)
	}
	list := fd.Body.List
	for i, s := range list {
		as, ok := s.(*ast.AssignStmt)
		if !ok || len(as.Rhs) != 1 || callTo(as.Rhs[0], "secretbox", "Open") == nil {
			if returnsNil(s) {
				refusef("%s: Decrypt can return a nil error before secretbox.Open", pos(s))
			}
			continue
		}
		if len(as.Lhs) != 2 {
			refusef("%s: the results of secretbox.Open are not both assigned", pos(as))
		}
		out, ok1 := unparen(as.Lhs[0]).(*ast.Ident)
		flag, ok2 := unparen(as.Lhs[1]).(*ast.Ident)
		if !ok1 || !ok2 || flag.Name == "_" {
			refusef("%s: the boolean result of secretbox.Open is not kept in a variable", pos(as))
		}
		if i+1 >= len(list) {
			refusef("%s: nothing follows secretbox.Open", pos(as))
		}
		is, ok := list[i+1].(*ast.IfStmt)
		if !ok || is.Init != nil || is.Else != nil || len(is.Body.List) == 0 {
			refusef("%s: the statement after secretbox.Open is not a plain `if` on its boolean result", pos(list[i+1]))
		}
		errReturn := func(s ast.Stmt) bool {
			rs, ok := s.(*ast.ReturnStmt)
			return ok && len(rs.Results) == 2 && isIdent(rs.Results[0], "nil") && !isIdent(rs.Results[1], "nil")
		}
		last := is.Body.List[len(is.Body.List)-1]
		if u, ok := unparen(is.Cond).(*ast.UnaryExpr); ok && u.Op == token.NOT && isIdent(u.X, flag.Name) {
			if !errReturn(last) {
				refusef("%s: `if !%s` does not end in a return of (nil, <error>)", pos(is), flag.Name)
			}
			return fmt.Sprintf("%s: `if !%s { return nil, <error> }` directly after secretbox.Open", pos(is), flag.Name)
		}
		if isIdent(is.Cond, flag.Name) {
			rs, ok := last.(*ast.ReturnStmt)
			if !ok || len(rs.Results) != 2 || !isIdent(rs.Results[0], out.Name) || !isIdent(rs.Results[1], "nil") {
				refusef("%s: `if %s` does not return (%s, nil)", pos(is), flag.Name, out.Name)
			}
			if i+2 >= len(list) || !errReturn(list[i+2]) {
				refusef("%s: `if %s {…}` is not followed by a return of (nil, <error>)", pos(is), flag.Name)
			}
			return fmt.Sprintf("%s: `if %s { return %s, nil }; return nil, <error>` directly after secretbox.Open", pos(is), flag.Name, out.Name)
		}
		refusef("%s: the statement after secretbox.Open does not test its boolean result %q", pos(is), flag.Name)
	}
	refusef("%s: secretbox.Open is not called in a top-level assignment of Decrypt", pos(fd))
	return ""
}

func try(fn func(*ast.File) string, f *ast.File) (out fact) {
	defer func() {
		if r := recover(); r != nil {
			if rf, ok := r.(refuse); ok {
				out = fact{OK: false, Why: rf.msg}
				return
			}
			panic(r)
		}
	}()
	why := fn(f)
	return fact{OK: true, Value: true, Why: why}
}

func main() {
	if len(os.Args) != 2 {
		fmt.Fprintln(os.Stderr, "usage: extract-c17 <repo>")
		os.Exit(2)
	}
	path := filepath.Join(os.Args[1], "snacl", "snacl.go")
	f, err := parser.ParseFile(fset, path, nil, 0)
	if err != nil {
		fmt.Fprintln(os.Stderr, "extract-c17:", err)
		os.Exit(1)
	}
	res := result{
		PwUnchanged: try(readPwUnchanged, f),
		DigestFull:  try(readDigestFull, f),
		OpenChecked: try(readOpenChecked, f),
	}
	b, _ := json.MarshalIndent(res, "", " ")
	fmt.Println(string(b))
}
