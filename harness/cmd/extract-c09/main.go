// extract-c09 reads the btcwallet sources (go/ast, no type checking) and
// prints, as one JSON object, the table of wallet functions that issue
// chained addresses inside a database write transaction, with for each one
// whether w.newAddrMtx is held around the whole walletdb.Update call.
//
//	usage: extract-c09 <repo>
//
// Everything here is syntactic.  The program refuses (exit status 2, message
// on stderr) every shape it does not understand instead of guessing.
package main

import (
	"encoding/json"
	"fmt"
	"go/ast"
	"go/parser"
	"go/token"
	"os"
	"path/filepath"
	"sort"
	"strings"
)

const mutexField = "newAddrMtx"

type site struct {
	Name   string   `json:"name"`
	File   string   `json:"file"`
	Held   *bool    `json:"held"` // null: locking shape of this site not understood (Why says what)
	Why    string   `json:"why"`
	Via    []string `json:"via"`    // what it reaches inside the transaction
	Unlock string   `json:"unlock"` // "defer" | "after" | ""
}

type result struct {
	Primitives   []string `json:"primitives"` // exported waddrmgr methods reaching nextAddresses
	Deferred     bool     `json:"deferred"`   // nextAddresses updates the in-memory index only in tx.OnCommit
	DeferredWhy  string   `json:"deferred_why"`
	Helpers      []string `json:"helpers"` // wallet functions issuing on the caller's transaction
	Sites        []site   `json:"sites"`
	OtherWriters []string `json:"other_index_writers"` // wallet functions calling Extend*Addresses (eager update, not in the table)
}

func die(format string, a ...interface{}) {
	fmt.Fprintf(os.Stderr, "extract-c09: "+format+"\n", a...)
	os.Exit(2)
}

func parseDir(fset *token.FileSet, dir string) []*ast.File {
	pkgs, err := parser.ParseDir(fset, dir, func(fi os.FileInfo) bool {
		return !strings.HasSuffix(fi.Name(), "_test.go")
	}, parser.ParseComments)
	if err != nil {
		die("parse %s: %v", dir, err)
	}
	var files []*ast.File
	var names []string
	for n := range pkgs {
		names = append(names, n)
	}
	sort.Strings(names)
	for _, n := range names {
		if strings.HasSuffix(n, "_test") {
			continue
		}
		var fn []string
		for f := range pkgs[n].Files {
			fn = append(fn, f)
		}
		sort.Strings(fn)
		for _, f := range fn {
			files = append(files, pkgs[n].Files[f])
		}
	}
	if len(files) == 0 {
		die("no Go files in %s", dir)
	}
	return files
}

// calleeName returns the bare name of the called function or method.
func calleeName(c *ast.CallExpr) string {
	switch f := c.Fun.(type) {
	case *ast.Ident:
		return f.Name
	case *ast.SelectorExpr:
		return f.Sel.Name
	}
	return ""
}

func funcDecls(files []*ast.File) map[string][]*ast.FuncDecl {
	m := map[string][]*ast.FuncDecl{}
	for _, f := range files {
		for _, d := range f.Decls {
			if fd, ok := d.(*ast.FuncDecl); ok && fd.Body != nil {
				m[fd.Name.Name] = append(m[fd.Name.Name], fd)
			}
		}
	}
	return m
}

// reaches computes the set of declared function names whose body contains
// (at any depth, closures included) a call to a name in seed or to another
// member of the set.
func reaches(decls map[string][]*ast.FuncDecl, seed map[string]bool, seedIsDeclared bool) map[string]bool {
	set := map[string]bool{}
	for changed := true; changed; {
		changed = false
		for name, fds := range decls {
			if set[name] {
				continue
			}
			for _, fd := range fds {
				hit := false
				ast.Inspect(fd.Body, func(n ast.Node) bool {
					if c, ok := n.(*ast.CallExpr); ok {
						cn := calleeName(c)
						if seed[cn] || set[cn] {
							hit = true
						}
					}
					return !hit
				})
				if hit {
					set[name] = true
					changed = true
				}
			}
		}
	}
	return set
}

// isMutexCall recognises  <expr>.newAddrMtx.<method>()
func isMutexCall(e ast.Expr, method string) bool {
	c, ok := e.(*ast.CallExpr)
	if !ok || len(c.Args) != 0 {
		return false
	}
	s, ok := c.Fun.(*ast.SelectorExpr)
	if !ok || s.Sel.Name != method {
		return false
	}
	s2, ok := s.X.(*ast.SelectorExpr)
	return ok && s2.Sel.Name == mutexField
}

func containsMutexCall(n ast.Node, method string, intoFuncLits bool) bool {
	found := false
	ast.Inspect(n, func(m ast.Node) bool {
		if found {
			return false
		}
		if _, ok := m.(*ast.FuncLit); ok && !intoFuncLits {
			return false
		}
		if e, ok := m.(ast.Expr); ok && isMutexCall(e, method) {
			found = true
		}
		return !found
	})
	return found
}

// containsJump: return/goto/break/continue/panic outside closures.
func containsJump(n ast.Node) bool {
	found := false
	ast.Inspect(n, func(m ast.Node) bool {
		if found {
			return false
		}
		switch x := m.(type) {
		case *ast.FuncLit:
			return false
		case *ast.ReturnStmt, *ast.BranchStmt:
			found = true
		case *ast.CallExpr:
			if id, ok := x.Fun.(*ast.Ident); ok && id.Name == "panic" {
				found = true
			}
		}
		return !found
	})
	return found
}

// updateClosure: if c is walletdb.Update(db, func..) / walletdb.Batch(db, func..)
// / <x>.Update(func.., reset) / <x>.Batch(func..) it returns the closure.
func updateClosure(c *ast.CallExpr) (*ast.FuncLit, string) {
	s, ok := c.Fun.(*ast.SelectorExpr)
	if !ok {
		return nil, ""
	}
	if s.Sel.Name != "Update" && s.Sel.Name != "Batch" {
		return nil, ""
	}
	if id, ok := s.X.(*ast.Ident); ok && id.Name == "walletdb" {
		if len(c.Args) == 2 {
			if fl, ok := c.Args[1].(*ast.FuncLit); ok {
				return fl, "walletdb." + s.Sel.Name
			}
			return nil, "walletdb." + s.Sel.Name + " with a non-literal closure"
		}
		return nil, "walletdb." + s.Sel.Name + " with unexpected arguments"
	}
	if len(c.Args) >= 1 {
		if fl, ok := c.Args[0].(*ast.FuncLit); ok {
			return fl, "db." + s.Sel.Name
		}
	}
	return nil, ""
}

func isViewCall(c *ast.CallExpr) bool {
	s, ok := c.Fun.(*ast.SelectorExpr)
	return ok && s.Sel.Name == "View"
}

func hasTxParam(fd *ast.FuncDecl) bool {
	for _, p := range fd.Type.Params.List {
		if s, ok := p.Type.(*ast.SelectorExpr); ok {
			if id, ok := s.X.(*ast.Ident); ok && id.Name == "walletdb" &&
				(s.Sel.Name == "ReadWriteTx" || s.Sel.Name == "ReadWriteBucket") {
				return true
			}
		}
	}
	return false
}

// stmtLists returns the statement lists directly nested in statement s
// (blocks of if/for/switch/select/case ...), not crossing closures.
func stmtLists(s ast.Stmt) [][]ast.Stmt {
	switch x := s.(type) {
	case *ast.BlockStmt:
		return [][]ast.Stmt{x.List}
	case *ast.IfStmt:
		r := [][]ast.Stmt{x.Body.List}
		if x.Else != nil {
			r = append(r, []ast.Stmt{x.Else})
		}
		return r
	case *ast.ForStmt:
		return [][]ast.Stmt{x.Body.List}
	case *ast.RangeStmt:
		return [][]ast.Stmt{x.Body.List}
	case *ast.SwitchStmt:
		return [][]ast.Stmt{x.Body.List}
	case *ast.TypeSwitchStmt:
		return [][]ast.Stmt{x.Body.List}
	case *ast.SelectStmt:
		return [][]ast.Stmt{x.Body.List}
	case *ast.CaseClause:
		return [][]ast.Stmt{x.Body}
	case *ast.CommClause:
		return [][]ast.Stmt{x.Body}
	case *ast.LabeledStmt:
		return [][]ast.Stmt{{x.Stmt}}
	}
	return nil
}

type level struct {
	list []ast.Stmt
	idx  int
}

// pathTo finds the chain of (statement list, index) leading from list down
// to the statement that directly contains target as an expression (without
// crossing a closure on the way down through statements).
func pathTo(list []ast.Stmt, target ast.Node) []level {
	for i, s := range list {
		if !(s.Pos() <= target.Pos() && target.End() <= s.End()) {
			continue
		}
		for _, sub := range stmtLists(s) {
			if p := pathTo(sub, target); p != nil {
				return append([]level{{list, i}}, p...)
			}
		}
		return []level{{list, i}}
	}
	return nil
}

// insideFuncLit reports whether target lies inside a closure within stmt s
// other than the closure `except`.
func crossesFuncLit(s ast.Node, target ast.Node, except *ast.FuncLit) bool {
	crossed := false
	ast.Inspect(s, func(n ast.Node) bool {
		if fl, ok := n.(*ast.FuncLit); ok && fl != except {
			if fl.Pos() <= target.Pos() && target.End() <= fl.End() {
				crossed = true
			}
		}
		return !crossed
	})
	return crossed
}

func main() {
	if len(os.Args) != 2 {
		die("usage: extract-c09 <repo>")
	}
	repo := os.Args[1]
	fset := token.NewFileSet()
	res := result{}

	// ---- waddrmgr: which exported methods hand out chained addresses through
	// the in-memory next index, and is the in-memory update deferred?
	mfiles := parseDir(fset, filepath.Join(repo, "waddrmgr"))
	mdecls := funcDecls(mfiles)
	na := mdecls["nextAddresses"]
	if len(na) != 1 {
		die("waddrmgr: expected exactly one nextAddresses, found %d", len(na))
	}
	reach := reaches(mdecls, map[string]bool{"nextAddresses": true}, true)
	for name := range reach {
		if ast.IsExported(name) {
			res.Primitives = append(res.Primitives, name)
		}
	}
	sort.Strings(res.Primitives)
	want := map[string]bool{"NextExternalAddresses": false, "NextInternalAddresses": false}
	for _, p := range res.Primitives {
		if _, ok := want[p]; ok {
			want[p] = true
		}
	}
	for p, ok := range want {
		if !ok {
			die("waddrmgr: %s no longer reaches nextAddresses; the model of C09 does not apply", p)
		}
	}
	res.Deferred, res.DeferredWhy = deferredUpdate(na[0])

	// ---- wallet
	wfiles := parseDir(fset, filepath.Join(repo, "wallet"))
	wdecls := funcDecls(wfiles)
	prim := map[string]bool{}
	for _, p := range res.Primitives {
		prim[p] = true
		if _, clash := wdecls[p]; clash {
			die("wallet declares a function named like the waddrmgr primitive %s; cannot tell them apart syntactically", p)
		}
	}
	// helpers: functions that issue on a transaction they did not open (an
	// issuing call outside every Update closure of their own body); their
	// callers inherit the obligation.  A function whose issuing calls are all
	// inside its own Update closures is a site and does not propagate.
	issuers := map[string]bool{} // helpers
	for changed := true; changed; {
		changed = false
		for name, fds := range wdecls {
			if issuers[name] {
				continue
			}
			for _, fd := range fds {
				var closures []*ast.FuncLit
				ast.Inspect(fd.Body, func(n ast.Node) bool {
					if c, ok := n.(*ast.CallExpr); ok {
						if fl, _ := updateClosure(c); fl != nil {
							closures = append(closures, fl)
						}
					}
					return true
				})
				ast.Inspect(fd.Body, func(n ast.Node) bool {
					c, ok := n.(*ast.CallExpr)
					if !ok {
						return true
					}
					cn := calleeName(c)
					if !(prim[cn] || issuers[cn]) {
						return true
					}
					inside := false
					for _, fl := range closures {
						if fl.Pos() <= c.Pos() && c.End() <= fl.End() {
							inside = true
						}
					}
					if !inside && !issuers[name] {
						issuers[name] = true
						changed = true
					}
					return true
				})
			}
		}
	}
	// relevant = helpers + functions with an issuing call inside an Update closure
	relevant := map[string]bool{}
	for name, fds := range wdecls {
		for _, fd := range fds {
			ast.Inspect(fd.Body, func(n ast.Node) bool {
				if c, ok := n.(*ast.CallExpr); ok {
					cn := calleeName(c)
					if prim[cn] || issuers[cn] {
						relevant[name] = true
					}
				}
				return true
			})
		}
	}
	for name := range relevant {
		if len(wdecls[name]) != 1 {
			die("wallet: %d declarations named %s reach address issuance; cannot tell them apart syntactically", len(wdecls[name]), name)
		}
	}
	for name := range issuers {
		if len(wdecls[name]) != 1 {
			die("wallet: %d declarations named %s; cannot tell them apart syntactically", len(wdecls[name]), name)
		}
	}
	isIssue := func(c *ast.CallExpr) bool {
		cn := calleeName(c)
		return prim[cn] || issuers[cn]
	}

	// issuing functions must only be called, never taken as values
	for _, f := range wfiles {
		callFuns := map[ast.Expr]bool{}
		declNames := map[*ast.Ident]bool{}
		selSel := map[*ast.Ident]bool{}
		ast.Inspect(f, func(n ast.Node) bool {
			switch x := n.(type) {
			case *ast.CallExpr:
				callFuns[x.Fun] = true
			case *ast.FuncDecl:
				declNames[x.Name] = true
			case *ast.SelectorExpr:
				selSel[x.Sel] = true
			}
			return true
		})
		ast.Inspect(f, func(n ast.Node) bool {
			switch x := n.(type) {
			case *ast.SelectorExpr:
				if (issuers[x.Sel.Name] || prim[x.Sel.Name]) && !callFuns[x] {
					die("%s: %s is used as a value (method value); not understood",
						fset.Position(x.Pos()), x.Sel.Name)
				}
			case *ast.Ident:
				if (issuers[x.Name] || prim[x.Name]) && !declNames[x] && !selSel[x] && !callFuns[x] {
					die("%s: identifier %s (an address-issuing function name) is used as a value; not understood",
						fset.Position(x.Pos()), x.Name)
				}
			}
			return true
		})
	}

	var names []string
	for n := range relevant {
		names = append(names, n)
	}
	sort.Strings(names)
	for _, name := range names {
		fd := wdecls[name][0]
		file := filepath.Base(fset.Position(fd.Pos()).Filename)
		hasGoto := false
		ast.Inspect(fd.Body, func(n ast.Node) bool {
			if b, ok := n.(*ast.BranchStmt); ok && b.Tok == token.GOTO {
				hasGoto = true
			}
			return true
		})
		if hasGoto {
			die("%s: goto in an address-issuing function; control flow not understood", name)
		}

		// all issuing calls of this function
		var points []*ast.CallExpr
		ast.Inspect(fd.Body, func(n ast.Node) bool {
			if c, ok := n.(*ast.CallExpr); ok && isIssue(c) {
				points = append(points, c)
			}
			return true
		})
		// the Update calls of this function, with their closures
		type upd struct {
			call *ast.CallExpr
			fl   *ast.FuncLit
			via  map[string]bool
		}
		var upds []*upd
		ast.Inspect(fd.Body, func(n ast.Node) bool {
			if c, ok := n.(*ast.CallExpr); ok {
				fl, kind := updateClosure(c)
				if fl != nil {
					upds = append(upds, &upd{c, fl, map[string]bool{}})
				} else if strings.Contains(kind, "non-literal") || strings.Contains(kind, "unexpected") {
					// only a problem if this function issues outside any closure we understand;
					// detected below because the issuing call will not be inside an Update closure.
					_ = kind
				}
				if s, ok := c.Fun.(*ast.SelectorExpr); ok &&
					(s.Sel.Name == "BeginReadWriteTx") {
					die("%s: %s opens a write transaction by hand (BeginReadWriteTx); Begin/Commit pairs are not understood",
						fset.Position(c.Pos()), name)
				}
			}
			return true
		})
		helper := false
		for _, p := range points {
			var in *upd
			for _, u := range upds {
				if u.fl.Pos() <= p.Pos() && p.End() <= u.fl.End() {
					if in != nil {
						die("%s: nested Update closures around an issuing call in %s", fset.Position(p.Pos()), name)
					}
					in = u
				}
			}
			// inside a View closure?
			ast.Inspect(fd.Body, func(n ast.Node) bool {
				if c, ok := n.(*ast.CallExpr); ok && isViewCall(c) {
					for _, a := range c.Args {
						if fl, ok := a.(*ast.FuncLit); ok && fl.Pos() <= p.Pos() && p.End() <= fl.End() {
							die("%s: address issuance inside a read transaction in %s; not understood",
								fset.Position(p.Pos()), name)
						}
					}
				}
				return true
			})
			if in != nil {
				in.via[calleeName(p)] = true
				continue
			}
			if !hasTxParam(fd) {
				die("%s: %s issues addresses (%s) outside walletdb.Update and has no walletdb.ReadWriteTx/ReadWriteBucket parameter; shape not understood",
					fset.Position(p.Pos()), name, calleeName(p))
			}
			helper = true
		}
		if helper {
			res.Helpers = append(res.Helpers, name)
		}
		k := 0
		for _, u := range upds {
			if len(u.via) == 0 {
				continue
			}
			k++
			st := site{Name: name, File: file}
			if k > 1 {
				st.Name = fmt.Sprintf("%s#%d", name, k)
			}
			for v := range u.via {
				st.Via = append(st.Via, v)
			}
			sort.Strings(st.Via)
			st.Held, st.Why, st.Unlock = heldAround(fset, fd, u.call, u.fl)
			res.Sites = append(res.Sites, st)
		}
	}
	sort.Slice(res.Sites, func(i, j int) bool {
		if res.Sites[i].File != res.Sites[j].File {
			return res.Sites[i].File < res.Sites[j].File
		}
		return res.Sites[i].Name < res.Sites[j].Name
	})
	sort.Strings(res.Helpers)
	if len(res.Sites) == 0 {
		die("no address-issuing site found in wallet/*.go; the obligation would be vacuous")
	}

	// informational: wallet functions that advance the index eagerly
	ext := reaches(wdecls, map[string]bool{"ExtendExternalAddresses": true, "ExtendInternalAddresses": true}, false)
	for n := range ext {
		direct := false
		ast.Inspect(wdecls[n][0].Body, func(m ast.Node) bool {
			if c, ok := m.(*ast.CallExpr); ok {
				cn := calleeName(c)
				if cn == "ExtendExternalAddresses" || cn == "ExtendInternalAddresses" {
					direct = true
				}
			}
			return true
		})
		if direct {
			res.OtherWriters = append(res.OtherWriters, n)
		}
	}
	sort.Strings(res.OtherWriters)

	b, _ := json.MarshalIndent(res, "", " ")
	fmt.Println(string(b))
}

// siteRefusal is raised (panic) when the locking shape of ONE site is not
// understood; the site is then reported with held = null and the reason, so
// that the caller can determine the flag some other way.  Shapes that make the
// site list itself unreliable still end the program (die).
type siteRefusal struct{ msg string }

func refuse(format string, a ...interface{}) {
	panic(siteRefusal{fmt.Sprintf(format, a...)})
}

const notTaken = "newAddrMtx is not taken"

// heldAround decides the flag of one site; nil = shape not understood.
func heldAround(fset *token.FileSet, fd *ast.FuncDecl, call *ast.CallExpr, fl *ast.FuncLit) (held *bool, why, unlock string) {
	defer func() {
		if r := recover(); r != nil {
			sr, ok := r.(siteRefusal)
			if !ok {
				panic(r)
			}
			held, why, unlock = nil, sr.msg, ""
		}
	}()
	h, w, u := heldNested(fset, fd, call, fl)
	if !h && w == notTaken {
		// no positive evidence of a wrong protocol either: the mutex may be
		// taken through an alias, a helper or by the callers
		refuse("%s: no newAddrMtx.Lock() recognised before the Update of %s (taken through an alias, a helper, or by the callers?)",
			fset.Position(call.Pos()), fd.Name.Name)
	}
	return &h, w, u
}

// heldNested handles an Update that sits inside immediately invoked function
// literals:  err = func() error { Lock(); defer Unlock(); return walletdb.Update(..) }()
// The innermost literal is analysed as a scope of its own; if the mutex is not
// touched there, the invocation of the literal takes the place of the Update
// call in the enclosing scope.
func heldNested(fset *token.FileSet, fd *ast.FuncDecl, call ast.Expr, fl *ast.FuncLit) (bool, string, string) {
	where := fset.Position(call.Pos()).String()
	// innermost function literal that encloses call
	var encl *ast.FuncLit
	ast.Inspect(fd.Body, func(n ast.Node) bool {
		if l, ok := n.(*ast.FuncLit); ok && l.Pos() < call.Pos() && call.End() <= l.End() && ast.Node(l) != ast.Node(call) {
			if c, isCall := call.(*ast.CallExpr); !(isCall && c.Fun == ast.Expr(l)) {
				encl = l // later (deeper) ones overwrite
			}
		}
		return true
	})
	if encl == nil {
		return heldIn(fset, fd, fd.Body, call, fl)
	}
	// it must be invoked on the spot, not started as a goroutine, deferred or stored
	var inv *ast.CallExpr
	bad := ""
	ast.Inspect(fd.Body, func(n ast.Node) bool {
		switch x := n.(type) {
		case *ast.GoStmt:
			if x.Call.Fun == ast.Expr(encl) {
				bad = "started as a goroutine"
			}
		case *ast.DeferStmt:
			if x.Call.Fun == ast.Expr(encl) {
				bad = "deferred"
			}
		case *ast.CallExpr:
			if x.Fun == ast.Expr(encl) {
				inv = x
			}
		}
		return true
	})
	if inv == nil || bad != "" {
		if bad == "" {
			bad = "not invoked where it is written"
		}
		refuse("%s: the Update call of %s is inside a function literal that is %s; shape not understood", where, fd.Name.Name, bad)
	}
	if len(inv.Args) != 0 {
		refuse("%s: the function literal wrapping the Update of %s takes arguments; shape not understood", where, fd.Name.Name)
	}
	h, w, u := heldIn(fset, fd, encl.Body, call, fl)
	if h {
		return true, w + " (inside an immediately invoked function literal that wraps the Update)", u
	}
	if w != notTaken && !containsMutexCall(encl, "Lock", true) && !containsMutexCall(encl, "Unlock", true) {
		w = notTaken
	}
	if w != notTaken {
		return false, w, u
	}
	if containsMutexCall(encl, "Lock", true) || containsMutexCall(encl, "Unlock", true) {
		return false, w, u
	}
	// the literal does not touch the mutex: look at where it is invoked
	return heldNested(fset, fd, inv, encl)
}

// heldIn decides whether newAddrMtx is locked before the statement that
// contains the Update call and unlocked only after it.
//
// It works on one "scope": the statement list of the function body, or of an
// immediately invoked function literal that wraps the Update (its body runs
// inline and its deferred calls run when it returns, i.e. after the Update
// returned).  call is the expression whose evaluation contains the whole
// transaction (the Update call, or the invocation of the wrapping literal);
// fl is the closure that runs inside it.
func heldIn(fset *token.FileSet, fd *ast.FuncDecl, scope *ast.BlockStmt, call ast.Expr, fl *ast.FuncLit) (bool, string, string) {
	where := fset.Position(call.Pos()).String()
	path := pathTo(scope.List, call)
	if path == nil {
		refuse("%s: cannot locate the Update call of %s in its statement list", where, fd.Name.Name)
	}
	// statements that precede the Update in program order along the path
	lockLevel, lockIdx := -1, -1
	for li, lv := range path {
		for i := 0; i < lv.idx; i++ {
			s := lv.list[i]
			if es, ok := s.(*ast.ExprStmt); ok && isMutexCall(es.X, "Lock") {
				lockLevel, lockIdx = li, i // the latest one wins
				continue
			}
			if containsMutexCall(s, "Lock", true) {
				refuse("%s: %s takes newAddrMtx inside a nested statement before the Update; shape not understood", where, fd.Name.Name)
			}
		}
	}
	if lockLevel < 0 {
		if containsMutexCall(fl, "Lock", true) {
			return false, "newAddrMtx is taken inside the transaction closure (after Begin)", ""
		}
		// a Lock somewhere else in the function (after the Update, other branch)?
		if containsMutexCall(fd.Body, "Lock", true) {
			return false, "newAddrMtx.Lock() does not precede the Update call", ""
		}
		return false, notTaken, ""
	}
	// between the Lock and the Update: a deferred Unlock, and no other Unlock
	deferred := false
	for li := lockLevel; li < len(path); li++ {
		lv := path[li]
		from := 0
		if li == lockLevel {
			from = lockIdx + 1
		}
		for i := from; i < lv.idx; i++ {
			s := lv.list[i]
			if ds, ok := s.(*ast.DeferStmt); ok && isMutexCall(ds.Call, "Unlock") {
				deferred = true
				continue
			}
			if containsMutexCall(s, "Unlock", true) {
				refuse("%s: %s releases newAddrMtx between Lock and the Update (conditionally?); shape not understood", where, fd.Name.Name)
			}
		}
	}
	if containsMutexCall(fl, "Unlock", true) {
		return false, "newAddrMtx is released inside the transaction closure", ""
	}
	if deferred {
		if lockLevel != 0 {
			// a defer in a nested block still runs at function exit; fine.
		}
		return true, "Lock before the Update, deferred Unlock", "defer"
	}
	// explicit Unlock: a later sibling of the statement holding the Update, in
	// the block where the Lock is, with no jump in between.
	lv := path[lockLevel]
	holder := lv.list[lv.idx]
	if lockLevel != len(path)-1 {
		// the Update sits deeper than the Lock: the enclosing statement must not jump out
		if containsJump(holder) {
			refuse("%s: %s: the statement enclosing the Update may leave the function/loop while newAddrMtx is held; shape not understood", where, fd.Name.Name)
		}
	}
	for i := lv.idx + 1; i < len(lv.list); i++ {
		s := lv.list[i]
		if es, ok := s.(*ast.ExprStmt); ok && isMutexCall(es.X, "Unlock") {
			return true, "Lock before the Update, Unlock after it in the same block", "after"
		}
		if containsMutexCall(s, "Unlock", true) {
			refuse("%s: %s releases newAddrMtx inside a nested statement after the Update; shape not understood", where, fd.Name.Name)
		}
		if containsJump(s) {
			refuse("%s: %s may leave the block between the Update and the Unlock of newAddrMtx; shape not understood", where, fd.Name.Name)
		}
	}
	refuse("%s: %s locks newAddrMtx before the Update but no matching Unlock was found; shape not understood", where, fd.Name.Name)
	return false, "", ""
}

// deferredUpdate checks that nextAddresses assigns acctInfo.next{External,
// Internal}Index only inside the closure registered with tx.OnCommit.
func deferredUpdate(fd *ast.FuncDecl) (bool, string) {
	// the closure(s) passed to OnCommit, directly or through a variable
	closures := map[*ast.FuncLit]bool{}
	vars := map[string]*ast.FuncLit{}
	ast.Inspect(fd.Body, func(n ast.Node) bool {
		if as, ok := n.(*ast.AssignStmt); ok && len(as.Lhs) == 1 && len(as.Rhs) == 1 {
			if id, ok := as.Lhs[0].(*ast.Ident); ok {
				if fl, ok := as.Rhs[0].(*ast.FuncLit); ok {
					vars[id.Name] = fl
				}
			}
		}
		return true
	})
	registered := false
	ast.Inspect(fd.Body, func(n ast.Node) bool {
		if c, ok := n.(*ast.CallExpr); ok && calleeName(c) == "OnCommit" && len(c.Args) == 1 {
			switch a := c.Args[0].(type) {
			case *ast.FuncLit:
				closures[a] = true
				registered = true
			case *ast.Ident:
				if fl := vars[a.Name]; fl != nil {
					closures[fl] = true
					registered = true
				}
			}
		}
		return true
	})
	isIndexField := func(e ast.Expr) bool {
		s, ok := e.(*ast.SelectorExpr)
		return ok && (s.Sel.Name == "nextExternalIndex" || s.Sel.Name == "nextInternalIndex")
	}
	writes, outside := 0, 0
	var visit func(n ast.Node, inCommit bool)
	visit = func(n ast.Node, inCommit bool) {
		ast.Inspect(n, func(m ast.Node) bool {
			if m == nil || m == n {
				return true
			}
			if fl, ok := m.(*ast.FuncLit); ok {
				visit(fl.Body, inCommit || closures[fl])
				return false
			}
			switch x := m.(type) {
			case *ast.AssignStmt:
				for _, l := range x.Lhs {
					if isIndexField(l) {
						writes++
						if !inCommit {
							outside++
						}
					}
				}
			case *ast.IncDecStmt:
				if isIndexField(x.X) {
					writes++
					if !inCommit {
						outside++
					}
				}
			}
			return true
		})
	}
	visit(fd.Body, false)
	switch {
	case !registered:
		return false, "nextAddresses registers no OnCommit handler"
	case writes == 0:
		return false, "nextAddresses never assigns the in-memory next index"
	case outside > 0:
		return false, fmt.Sprintf("%d of %d assignments to the in-memory next index are outside the OnCommit handler (eager update)", outside, writes)
	}
	return true, fmt.Sprintf("all %d assignments to the in-memory next index are inside the OnCommit handler", writes)
}
