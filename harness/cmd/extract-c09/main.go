// extract-c09 reads the WHOLE btcwallet repository (every package, found by
// walking the tree; go/ast + go/types) and prints, as one JSON object, the
// table of database write transactions that can advance an account's address
// counters, with for each one whether a wallet-level mutex is held over the
// whole transaction (commit and commit handlers included).
//
//	usage: extract-c09 <repo>
//
// Nothing is looked up by function or field NAME except the two anchors named
// in the property: package waddrmgr's type ScopedKeyManager and the uint32
// "next ... index" fields of its in-memory account record.  Everything else is
// found by type and call graph:
//
//   - counter primitives: exported methods of *ScopedKeyManager from which an
//     assignment to one of those fields is reachable (inside a closure
//     registered with OnCommit = deferred, or directly = eager).  Those that
//     return managed addresses ISSUE (Next*Addresses), the others EXTEND
//     (Extend*Addresses: recovery);
//   - transaction runners: walletdb.Update / walletdb.Batch / DB.Update /
//     DB.Batch (anything declared in package walletdb taking a
//     func(walletdb.ReadWriteTx) error) and every repository function that
//     passes such a parameter on to a runner (helpers wrapping Update);
//   - sites: every call of a runner, in any package, whose transaction
//     function (literal, declared function, or local variable holding a
//     literal) can reach a primitive through the call graph (closures are part
//     of the function that creates them; a reference to a function counts as
//     a call; an interface method call goes to every repository method of that
//     name);
//   - mutexes: any value of type sync.Mutex / sync.RWMutex (or pointer) that is
//     a struct FIELD; Lock/Unlock = exclusive, RLock/RUnlock = shared.  The
//     address mutex is the field locked (in either mode) around most sites.
//
// The lock must be taken before the statement containing the runner call and
// released after it (deferred, or a later statement of the same block): then
// it spans Begin .. Commit .. commit handlers.  The analysis is applied to
// the site itself, to the runner helper(s) the transaction function is passed
// through, and to every caller of the site's function (transitively, while the
// function itself does not touch the mutex).  A site where no function on any
// path to the transaction takes the mutex gets held = false; shapes that are
// not understood give held = null with the reason (the caller of this program
// then determines the flag by running the code).
package main

import (
	"encoding/json"
	"fmt"
	"go/ast"
	"go/build"
	"go/importer"
	"go/parser"
	"go/token"
	"go/types"
	"os"
	"path/filepath"
	"sort"
	"strings"
)

func die(format string, a ...interface{}) {
	fmt.Fprintf(os.Stderr, "extract-c09: "+format+"\n", a...)
	os.Exit(2)
}

// ---------------------------------------------------------------- output

type site struct {
	Name    string   `json:"name"`  // "<pkg>.(*Recv).Func" as the Go runtime prints it, relative to the module
	Pkg     string   `json:"pkg"`   // package directory relative to the module
	File    string   `json:"file"`  // file relative to the repository
	Line    int      `json:"line"`  // of the runner call
	Class   string   `json:"class"` // issue | extend
	Via     []string `json:"via"`   // primitives reachable from the transaction function
	Runner  string   `json:"runner"`
	Mutex   string   `json:"mutex"`  // the address mutex ("" if none was identified)
	Held    *bool    `json:"held"`   // exclusive lock spans the whole transaction; null = shape not understood
	Shared  bool     `json:"shared"` // only a read lock spans it
	Why     string   `json:"why"`
	Frames  []string `json:"frames"` // where the decision was taken
	Touches bool     `json:"touches"`
}

type result struct {
	Module        string   `json:"module"`
	Packages      []string `json:"packages"` // every package directory that was read
	Issue         []string `json:"issue_primitives"`
	Extend        []string `json:"extend_primitives"`
	Account       []string `json:"account_primitives"` // New*Account*: informational
	Deferred      bool     `json:"deferred"`           // every issuing primitive assigns the counters only in OnCommit handlers
	DeferredWhy   string   `json:"deferred_why"`
	CounterFields []string `json:"counter_fields"`
	Mutex         string   `json:"mutex"` // the address mutex: "<pkg>.<Type>.<field> (<sync type>)"
	MutexType     string   `json:"mutex_type"`
	Sites         []site   `json:"sites"`
	AccountSites  []string `json:"account_sites"` // transactions creating accounts (informational)
	OpenHelpers   []string `json:"open_helpers"`  // exported functions that issue/extend on a transaction supplied by their caller
	TypeErrors    int      `json:"type_errors"`   // go/types errors ignored (imports outside the repository are stand-ins)
}

// ---------------------------------------------------------------- loading

type pkg struct {
	path, rel, dir string
	files          []*ast.File
	tp             *types.Package
	info           *types.Info
}

type loader struct {
	repo, mod string
	fset      *token.FileSet
	dirs      map[string]string // import path -> directory
	pkgs      map[string]*pkg
	loading   map[string]bool
	std       types.Importer
	fake      map[string]*types.Package
	nerr      int
}

func (l *loader) Import(path string) (*types.Package, error) {
	if path == "unsafe" {
		return types.Unsafe, nil
	}
	if _, ok := l.dirs[path]; ok {
		p := l.load(path)
		if p == nil || p.tp == nil {
			return l.fakePkg(path), nil
		}
		return p.tp, nil
	}
	first := path
	if i := strings.IndexByte(path, '/'); i >= 0 {
		first = path[:i]
	}
	if !strings.Contains(first, ".") {
		if p, err := l.std.Import(path); err == nil && p != nil {
			return p, nil
		}
	}
	return l.fakePkg(path), nil
}

func (l *loader) fakePkg(path string) *types.Package {
	if p, ok := l.fake[path]; ok {
		return p
	}
	name := path[strings.LastIndex(path, "/")+1:]
	if len(name) >= 2 && name[0] == 'v' && name[1] >= '0' && name[1] <= '9' {
		rest := path[:strings.LastIndex(path, "/")]
		name = rest[strings.LastIndex(rest, "/")+1:]
	}
	name = strings.ReplaceAll(name, "-", "_")
	name = strings.TrimPrefix(name, "go_")
	p := types.NewPackage(path, name)
	p.MarkComplete()
	l.fake[path] = p
	return p
}

func (l *loader) load(path string) *pkg {
	if p, ok := l.pkgs[path]; ok {
		return p
	}
	if l.loading[path] {
		return nil // import cycle (cannot happen in code that builds)
	}
	l.loading[path] = true
	defer delete(l.loading, path)
	dir := l.dirs[path]
	ctxt := build.Default
	ctxt.CgoEnabled = false
	ents, err := os.ReadDir(dir)
	if err != nil {
		die("read %s: %v", dir, err)
	}
	byName := map[string][]*ast.File{}
	for _, e := range ents {
		n := e.Name()
		if e.IsDir() || !strings.HasSuffix(n, ".go") || strings.HasSuffix(n, "_test.go") {
			continue
		}
		if ok, err := ctxt.MatchFile(dir, n); err != nil || !ok {
			continue
		}
		f, err := parser.ParseFile(l.fset, filepath.Join(dir, n), nil, parser.ParseComments)
		if err != nil {
			die("parse %s: %v", filepath.Join(dir, n), err)
		}
		byName[f.Name.Name] = append(byName[f.Name.Name], f)
	}
	var name string
	for n, fs := range byName {
		if name == "" || len(fs) > len(byName[name]) || (len(fs) == len(byName[name]) && n < name) {
			name = n
		}
	}
	p := &pkg{path: path, dir: dir, files: byName[name]}
	p.rel = strings.TrimPrefix(strings.TrimPrefix(path, l.mod), "/")
	if p.rel == "" {
		p.rel = name
	}
	p.info = &types.Info{
		Types:      map[ast.Expr]types.TypeAndValue{},
		Defs:       map[*ast.Ident]types.Object{},
		Uses:       map[*ast.Ident]types.Object{},
		Selections: map[*ast.SelectorExpr]*types.Selection{},
	}
	conf := types.Config{Importer: l, Error: func(error) { l.nerr++ }, FakeImportC: true, DisableUnusedImportCheck: true}
	p.tp, _ = conf.Check(path, l.fset, p.files, p.info)
	l.pkgs[path] = p
	return p
}

func modulePath(gomod string) string {
	b, err := os.ReadFile(gomod)
	if err != nil {
		die("%v", err)
	}
	for _, line := range strings.Split(string(b), "\n") {
		f := strings.Fields(line)
		if len(f) >= 2 && f[0] == "module" {
			return strings.Trim(f[1], `"`)
		}
	}
	die("no module line in %s", gomod)
	return ""
}

func loadRepo(repo string) *loader {
	l := &loader{repo: repo, fset: token.NewFileSet(), dirs: map[string]string{}, pkgs: map[string]*pkg{},
		loading: map[string]bool{}, fake: map[string]*types.Package{}}
	l.mod = modulePath(filepath.Join(repo, "go.mod"))
	l.std = importer.ForCompiler(l.fset, "source", nil)
	err := filepath.Walk(repo, func(p string, fi os.FileInfo, err error) error {
		if err != nil {
			return err
		}
		if fi.IsDir() {
			b := fi.Name()
			if p != repo && (strings.HasPrefix(b, ".") || strings.HasPrefix(b, "_") || b == "testdata" || b == "vendor") {
				return filepath.SkipDir
			}
			return nil
		}
		if strings.HasSuffix(p, ".go") && !strings.HasSuffix(p, "_test.go") {
			dir := filepath.Dir(p)
			rel, _ := filepath.Rel(repo, dir)
			ip := l.mod
			if rel != "." {
				ip = l.mod + "/" + filepath.ToSlash(rel)
			}
			l.dirs[ip] = dir
		}
		return nil
	})
	if err != nil {
		die("walk %s: %v", repo, err)
	}
	var paths []string
	for ip := range l.dirs {
		paths = append(paths, ip)
	}
	sort.Strings(paths)
	for _, ip := range paths {
		l.load(ip)
	}
	return l
}

// ---------------------------------------------------------------- functions

// fn is a declared function or method of the repository.
type fn struct {
	obj  *types.Func
	decl *ast.FuncDecl
	p    *pkg
	name string // runtime-style name relative to the module
}

type world struct {
	l      *loader
	fns    map[*types.Func]*fn
	byName map[string][]*fn // method/function bare name -> declarations (interface dispatch)
	order  []*fn

	wdb      string // import path of walletdb
	mgrPkg   *pkg
	mgrType  *types.Named
	counters map[*types.Var]bool

	refs    map[*fn][]*fn // functions referenced (called or taken as a value) anywhere in the body
	callers map[*fn][]callRef

	fieldOf map[string]*types.Var // mutex identity -> the struct field
}

type callRef struct {
	from *fn
	call *ast.CallExpr // nil: referenced as a value
}

func runtimeName(l *loader, p *pkg, fd *ast.FuncDecl) string {
	n := p.rel + "."
	if fd.Recv != nil && len(fd.Recv.List) == 1 {
		t := fd.Recv.List[0].Type
		ptr := false
		if s, ok := t.(*ast.StarExpr); ok {
			ptr, t = true, s.X
		}
		if ix, ok := t.(*ast.IndexExpr); ok {
			t = ix.X
		}
		if ix, ok := t.(*ast.IndexListExpr); ok {
			t = ix.X
		}
		if id, ok := t.(*ast.Ident); ok {
			if ptr {
				n += "(*" + id.Name + ")."
			} else {
				n += id.Name + "."
			}
		}
	}
	return n + fd.Name.Name
}

func buildWorld(l *loader) *world {
	w := &world{l: l, fns: map[*types.Func]*fn{}, byName: map[string][]*fn{}, refs: map[*fn][]*fn{},
		callers: map[*fn][]callRef{}, counters: map[*types.Var]bool{}, fieldOf: map[string]*types.Var{}}
	var paths []string
	for ip := range l.pkgs {
		paths = append(paths, ip)
	}
	sort.Strings(paths)
	for _, ip := range paths {
		p := l.pkgs[ip]
		for _, f := range p.files {
			for _, d := range f.Decls {
				fd, ok := d.(*ast.FuncDecl)
				if !ok || fd.Body == nil {
					continue
				}
				obj, _ := p.info.Defs[fd.Name].(*types.Func)
				if obj == nil {
					continue
				}
				x := &fn{obj: obj, decl: fd, p: p, name: runtimeName(l, p, fd)}
				w.fns[obj] = x
				w.byName[fd.Name.Name] = append(w.byName[fd.Name.Name], x)
				w.order = append(w.order, x)
			}
		}
	}
	for _, x := range w.order {
		seen := map[*fn]bool{}
		ast.Inspect(x.decl.Body, func(n ast.Node) bool {
			switch e := n.(type) {
			case *ast.CallExpr:
				for _, t := range w.targets(x.p, e.Fun) {
					w.callers[t] = append(w.callers[t], callRef{x, e})
					if !seen[t] {
						seen[t] = true
						w.refs[x] = append(w.refs[x], t)
					}
				}
			}
			return true
		})
		// references that are not calls (method values, function values)
		called := map[ast.Expr]bool{}
		ast.Inspect(x.decl.Body, func(n ast.Node) bool {
			if c, ok := n.(*ast.CallExpr); ok {
				called[ast.Unparen(c.Fun)] = true
			}
			return true
		})
		var skip map[*ast.Ident]bool = map[*ast.Ident]bool{}
		ast.Inspect(x.decl.Body, func(n ast.Node) bool {
			switch e := n.(type) {
			case *ast.SelectorExpr:
				skip[e.Sel] = true
				if called[e] {
					return true
				}
				for _, t := range w.targets(x.p, e) {
					w.callers[t] = append(w.callers[t], callRef{x, nil})
					if !seen[t] {
						seen[t] = true
						w.refs[x] = append(w.refs[x], t)
					}
				}
			case *ast.Ident:
				if skip[e] || called[e] {
					return true
				}
				if f, ok := x.p.info.Uses[e].(*types.Func); ok {
					if t := w.fns[f]; t != nil {
						w.callers[t] = append(w.callers[t], callRef{x, nil})
						if !seen[t] {
							seen[t] = true
							w.refs[x] = append(w.refs[x], t)
						}
					}
				}
			}
			return true
		})
	}
	return w
}

// targets resolves the function expression of a call (or a function-valued
// expression) to repository declarations.
func (w *world) targets(p *pkg, e ast.Expr) []*fn {
	e = ast.Unparen(e)
	var obj types.Object
	switch x := e.(type) {
	case *ast.Ident:
		obj = p.info.Uses[x]
	case *ast.SelectorExpr:
		if sel := p.info.Selections[x]; sel != nil {
			obj = sel.Obj()
		} else {
			obj = p.info.Uses[x.Sel]
		}
	case *ast.IndexExpr:
		return w.targets(p, x.X)
	case *ast.IndexListExpr:
		return w.targets(p, x.X)
	}
	f, ok := obj.(*types.Func)
	if !ok {
		return nil
	}
	if o := f.Origin(); o != nil {
		f = o
	}
	if t := w.fns[f]; t != nil {
		return []*fn{t}
	}
	// interface method: every repository method of that name
	if sig, ok := f.Type().(*types.Signature); ok && sig.Recv() != nil {
		if _, isIface := sig.Recv().Type().Underlying().(*types.Interface); isIface {
			var out []*fn
			for _, t := range w.byName[f.Name()] {
				if t.decl.Recv != nil {
					out = append(out, t)
				}
			}
			return out
		}
	}
	return nil
}

// reach: declarations reachable from the given roots through refs.
func (w *world) reach(roots []*fn) map[*fn]bool {
	seen := map[*fn]bool{}
	var visit func(x *fn)
	visit = func(x *fn) {
		if seen[x] {
			return
		}
		seen[x] = true
		for _, y := range w.refs[x] {
			visit(y)
		}
	}
	for _, r := range roots {
		visit(r)
	}
	return seen
}

// refsIn: declarations referenced inside node n (a closure body, an expression).
func (w *world) refsIn(p *pkg, n ast.Node) []*fn {
	seen := map[*fn]bool{}
	var out []*fn
	ast.Inspect(n, func(m ast.Node) bool {
		var ts []*fn
		switch e := m.(type) {
		case *ast.CallExpr:
			ts = w.targets(p, e.Fun)
		case *ast.SelectorExpr:
			ts = w.targets(p, e)
		case *ast.Ident:
			if f, ok := p.info.Uses[e].(*types.Func); ok {
				if t := w.fns[f]; t != nil {
					ts = []*fn{t}
				}
			}
		}
		for _, t := range ts {
			if !seen[t] {
				seen[t] = true
				out = append(out, t)
			}
		}
		return true
	})
	return out
}

// ---------------------------------------------------------------- primitives

func (w *world) findManager() {
	for ip, p := range w.l.pkgs {
		if ip == w.l.mod+"/waddrmgr" {
			w.mgrPkg = p
		}
	}
	if w.mgrPkg == nil || w.mgrPkg.tp == nil {
		die("package %s/waddrmgr not found", w.l.mod)
	}
	obj := w.mgrPkg.tp.Scope().Lookup("ScopedKeyManager")
	tn, ok := obj.(*types.TypeName)
	if !ok {
		die("waddrmgr.ScopedKeyManager not found; the model of C09 does not apply")
	}
	w.mgrType, _ = tn.Type().(*types.Named)
	st, ok := tn.Type().Underlying().(*types.Struct)
	if !ok {
		die("waddrmgr.ScopedKeyManager is not a struct")
	}
	// the in-memory account record: the element type of a map field of the
	// manager that is a pointer to a struct with uint32 "next...Index" fields
	for i := 0; i < st.NumFields(); i++ {
		m, ok := st.Field(i).Type().Underlying().(*types.Map)
		if !ok {
			continue
		}
		el := m.Elem()
		if pt, ok := el.(*types.Pointer); ok {
			el = pt.Elem()
		}
		rec, ok := el.Underlying().(*types.Struct)
		if !ok {
			continue
		}
		for j := 0; j < rec.NumFields(); j++ {
			f := rec.Field(j)
			b, isBasic := f.Type().Underlying().(*types.Basic)
			ln := strings.ToLower(f.Name())
			if isBasic && b.Kind() == types.Uint32 && strings.Contains(ln, "next") && strings.Contains(ln, "index") {
				w.counters[f] = true
			}
		}
	}
	if len(w.counters) == 0 {
		die("no uint32 next-index field found in the account record of waddrmgr.ScopedKeyManager; the model of C09 does not apply")
	}
}

// counterWrites scans a function body: does it assign a counter field
// directly (eager) / inside a closure registered with OnCommit (deferred), and
// which declarations does it reference in either context.
type bodyFacts struct {
	eagerWrite, deferredWrite bool
	eagerRefs, deferredRefs   []*fn
}

func (w *world) bodyFacts(x *fn) bodyFacts {
	var bf bodyFacts
	p := x.p
	// closures registered with OnCommit, directly or through a local variable
	vars := map[types.Object]*ast.FuncLit{}
	ast.Inspect(x.decl.Body, func(n ast.Node) bool {
		if as, ok := n.(*ast.AssignStmt); ok && len(as.Lhs) == len(as.Rhs) {
			for i := range as.Lhs {
				if id, ok := as.Lhs[i].(*ast.Ident); ok {
					if fl, ok := as.Rhs[i].(*ast.FuncLit); ok {
						if o := p.info.Defs[id]; o != nil {
							vars[o] = fl
						} else if o := p.info.Uses[id]; o != nil {
							vars[o] = fl
						}
					}
				}
			}
		}
		return true
	})
	registered := map[*ast.FuncLit]bool{}
	ast.Inspect(x.decl.Body, func(n ast.Node) bool {
		c, ok := n.(*ast.CallExpr)
		if !ok || len(c.Args) != 1 {
			return true
		}
		s, ok := c.Fun.(*ast.SelectorExpr)
		if !ok || s.Sel.Name != "OnCommit" {
			return true
		}
		switch a := c.Args[0].(type) {
		case *ast.FuncLit:
			registered[a] = true
		case *ast.Ident:
			if fl := vars[p.info.Uses[a]]; fl != nil {
				registered[fl] = true
			}
		}
		return true
	})
	isCounter := func(e ast.Expr) bool {
		s, ok := ast.Unparen(e).(*ast.SelectorExpr)
		if !ok {
			return false
		}
		if sel := p.info.Selections[s]; sel != nil {
			if v, ok := sel.Obj().(*types.Var); ok {
				return w.counters[v]
			}
		}
		return false
	}
	var visit func(n ast.Node, deferred bool)
	visit = func(n ast.Node, deferred bool) {
		ast.Inspect(n, func(m ast.Node) bool {
			if m == nil || m == n {
				return true
			}
			if fl, ok := m.(*ast.FuncLit); ok {
				visit(fl.Body, deferred || registered[fl])
				return false
			}
			wr := false
			switch s := m.(type) {
			case *ast.AssignStmt:
				for _, lh := range s.Lhs {
					wr = wr || isCounter(lh)
				}
			case *ast.IncDecStmt:
				wr = isCounter(s.X)
			case *ast.UnaryExpr:
				if s.Op == token.AND && isCounter(s.X) {
					wr = true // address taken: may be written through the pointer
				}
			}
			if wr {
				if deferred {
					bf.deferredWrite = true
				} else {
					bf.eagerWrite = true
				}
			}
			var ts []*fn
			switch e := m.(type) {
			case *ast.CallExpr:
				ts = w.targets(p, e.Fun)
			case *ast.SelectorExpr:
				ts = w.targets(p, e)
			case *ast.Ident:
				if f, ok := p.info.Uses[e].(*types.Func); ok {
					if t := w.fns[f]; t != nil {
						ts = []*fn{t}
					}
				}
			}
			for _, t := range ts {
				if deferred {
					bf.deferredRefs = append(bf.deferredRefs, t)
				} else {
					bf.eagerRefs = append(bf.eagerRefs, t)
				}
			}
			return true
		})
	}
	visit(x.decl.Body, false)
	return bf
}

type prim struct {
	f               *fn
	eager, deferred bool
	returnsAddrs    bool
}

func (w *world) primitives() (map[*fn]*prim, []string) {
	facts := map[*fn]bodyFacts{}
	for _, x := range w.order {
		if x.p == w.mgrPkg {
			facts[x] = w.bodyFacts(x)
		}
	}
	eager := map[*fn]bool{}    // may assign a counter when called
	deferred := map[*fn]bool{} // may register a handler that assigns a counter
	for changed := true; changed; {
		changed = false
		for x, bf := range facts {
			e, d := bf.eagerWrite, bf.deferredWrite
			for _, t := range bf.eagerRefs {
				e = e || eager[t]
				d = d || deferred[t]
			}
			for _, t := range bf.deferredRefs {
				// inside a commit handler everything runs at commit time
				d = d || eager[t] || deferred[t]
			}
			if e && !eager[x] {
				eager[x], changed = true, true
			}
			if d && !deferred[x] {
				deferred[x], changed = true, true
			}
		}
	}
	var fields []string
	for v := range w.counters {
		fields = append(fields, v.Name())
	}
	sort.Strings(fields)
	out := map[*fn]*prim{}
	for _, x := range w.order {
		if x.p != w.mgrPkg || !ast.IsExported(x.decl.Name.Name) || x.decl.Recv == nil || !(eager[x] || deferred[x]) {
			continue
		}
		sig := x.obj.Type().(*types.Signature)
		rt := sig.Recv().Type()
		if pt, ok := rt.(*types.Pointer); ok {
			rt = pt.Elem()
		}
		if nt, ok := rt.(*types.Named); !ok || nt.Obj() != w.mgrType.Obj() {
			continue
		}
		pr := &prim{f: x, eager: eager[x], deferred: deferred[x]}
		for i := 0; i < sig.Results().Len(); i++ {
			t := sig.Results().At(i).Type()
			if sl, ok := t.(*types.Slice); ok {
				t = sl.Elem()
			}
			if nt, ok := t.(*types.Named); ok && nt.Obj().Pkg() == w.mgrPkg.tp && strings.Contains(nt.Obj().Name(), "Address") {
				pr.returnsAddrs = true
			}
		}
		out[x] = pr
	}
	return out, fields
}

// ---------------------------------------------------------------- runners

// txFuncParam: index of the parameter of type func(walletdb.ReadWriteTx) ..., or -1.
func (w *world) txFuncParam(sig *types.Signature) int {
	for i := 0; i < sig.Params().Len(); i++ {
		ft, ok := sig.Params().At(i).Type().Underlying().(*types.Signature)
		if !ok || ft.Params().Len() < 1 {
			continue
		}
		if nt, ok := ft.Params().At(0).Type().(*types.Named); ok && nt.Obj().Pkg() != nil &&
			nt.Obj().Pkg().Path() == w.wdb && nt.Obj().Name() == "ReadWriteTx" {
			return i
		}
	}
	return -1
}

// runnerArg: if call c (in package p) runs a write transaction, the index of
// its transaction-function argument and a printable runner name; else -1.
func (w *world) runnerArg(p *pkg, c *ast.CallExpr, helpers map[*fn]int) (int, string) {
	e := ast.Unparen(c.Fun)
	var obj types.Object
	switch x := e.(type) {
	case *ast.Ident:
		obj = p.info.Uses[x]
	case *ast.SelectorExpr:
		if sel := p.info.Selections[x]; sel != nil {
			obj = sel.Obj()
		} else {
			obj = p.info.Uses[x.Sel]
		}
	}
	f, ok := obj.(*types.Func)
	if !ok {
		return -1, ""
	}
	if t := w.fns[f]; t != nil {
		if i, ok := helpers[t]; ok {
			return i, t.name
		}
	}
	if f.Pkg() != nil && f.Pkg().Path() == w.wdb {
		sig := f.Type().(*types.Signature)
		if i := w.txFuncParam(sig); i >= 0 && i < len(c.Args) {
			return i, "walletdb." + f.Name()
		}
	}
	return -1, ""
}

// helpers: repository functions outside walletdb that take a transaction
// function and pass it on to a runner.
func (w *world) runnerHelpers() map[*fn]int {
	helpers := map[*fn]int{}
	for changed := true; changed; {
		changed = false
		for _, x := range w.order {
			if _, ok := helpers[x]; ok || strings.HasPrefix(x.p.path, w.wdb) {
				continue
			}
			sig := x.obj.Type().(*types.Signature)
			pi := w.txFuncParam(sig)
			if pi < 0 {
				continue
			}
			param := sig.Params().At(pi)
			passes := false
			ast.Inspect(x.decl.Body, func(n ast.Node) bool {
				c, ok := n.(*ast.CallExpr)
				if !ok {
					return true
				}
				ai, _ := w.runnerArg(x.p, c, helpers)
				if ai < 0 || ai >= len(c.Args) {
					return true
				}
				ast.Inspect(c.Args[ai], func(m ast.Node) bool {
					if id, ok := m.(*ast.Ident); ok && x.p.info.Uses[id] == param {
						passes = true
					}
					return true
				})
				return true
			})
			if passes {
				helpers[x] = pi
				changed = true
			}
		}
	}
	return helpers
}

// ---------------------------------------------------------------- mutexes

type lockKind int

const (
	kNone lockKind = iota
	kLock
	kUnlock
	kRLock
	kRUnlock
)

func isSyncMutex(t types.Type) (string, bool) {
	if pt, ok := t.(*types.Pointer); ok {
		t = pt.Elem()
	}
	nt, ok := t.(*types.Named)
	if !ok || nt.Obj().Pkg() == nil || nt.Obj().Pkg().Path() != "sync" {
		return "", false
	}
	if n := nt.Obj().Name(); n == "Mutex" || n == "RWMutex" {
		return "sync." + n, true
	}
	return "", false
}

// mutexCall: is e  <x>.Lock() / Unlock() / RLock() / RUnlock()  on a sync
// mutex; returns the kind and the identity of the mutex: the struct field
// ("<pkg>.<Type>.<field>") or "local:<name>" for anything else.
func (w *world) mutexCall(p *pkg, e ast.Expr) (lockKind, string, string) {
	c, ok := ast.Unparen(e).(*ast.CallExpr)
	if !ok || len(c.Args) != 0 {
		return kNone, "", ""
	}
	s, ok := c.Fun.(*ast.SelectorExpr)
	if !ok {
		return kNone, "", ""
	}
	var k lockKind
	switch s.Sel.Name {
	case "Lock":
		k = kLock
	case "Unlock":
		k = kUnlock
	case "RLock":
		k = kRLock
	case "RUnlock":
		k = kRUnlock
	default:
		return kNone, "", ""
	}
	tv, ok := p.info.Types[s.X]
	if !ok {
		return kNone, "", ""
	}
	mt, ok := isSyncMutex(tv.Type)
	if !ok {
		return kNone, "", ""
	}
	x := ast.Unparen(s.X)
	if u, ok := x.(*ast.UnaryExpr); ok && u.Op == token.AND {
		x = ast.Unparen(u.X)
	}
	if fs, ok := x.(*ast.SelectorExpr); ok {
		if sel := p.info.Selections[fs]; sel != nil && sel.Kind() == types.FieldVal {
			if v, ok := sel.Obj().(*types.Var); ok && v.IsField() {
				recv := sel.Recv()
				if pt, ok := recv.(*types.Pointer); ok {
					recv = pt.Elem()
				}
				owner := "?"
				if nt, ok := recv.(*types.Named); ok {
					owner = nt.Obj().Name()
					if nt.Obj().Pkg() != nil {
						owner = strings.TrimPrefix(strings.TrimPrefix(nt.Obj().Pkg().Path(), w.l.mod), "/") + "." + owner
					}
				}
				w.fieldOf[owner+"."+v.Name()] = v
				return k, owner + "." + v.Name(), mt
			}
		}
	}
	return k, "local:" + types.ExprString(x), mt
}

// ---------------------------------------------------------------- lock shape

// stmtLists returns the statement lists directly nested in statement s
// (blocks of if/for/switch/select/case ...), not crossing closures.
func stmtLists(s ast.Stmt) [][]ast.Stmt {
	switch x := s.(type) {
	case *ast.BlockStmt:
		return [][]ast.Stmt{x.List}
	case *ast.IfStmt:
		r := [][]ast.Stmt{x.Body.List}
		if x.Else != nil {
			r = append(r, []ast.Stmt{x.Else})
		}
		return r
	case *ast.ForStmt:
		return [][]ast.Stmt{x.Body.List}
	case *ast.RangeStmt:
		return [][]ast.Stmt{x.Body.List}
	case *ast.SwitchStmt:
		return [][]ast.Stmt{x.Body.List}
	case *ast.TypeSwitchStmt:
		return [][]ast.Stmt{x.Body.List}
	case *ast.SelectStmt:
		return [][]ast.Stmt{x.Body.List}
	case *ast.CaseClause:
		return [][]ast.Stmt{x.Body}
	case *ast.CommClause:
		return [][]ast.Stmt{x.Body}
	case *ast.LabeledStmt:
		return [][]ast.Stmt{{x.Stmt}}
	}
	return nil
}

type level struct {
	list []ast.Stmt
	idx  int
}

func pathTo(list []ast.Stmt, target ast.Node) []level {
	for i, s := range list {
		if !(s.Pos() <= target.Pos() && target.End() <= s.End()) {
			continue
		}
		for _, sub := range stmtLists(s) {
			if p := pathTo(sub, target); p != nil {
				return append([]level{{list, i}}, p...)
			}
		}
		return []level{{list, i}}
	}
	return nil
}

// containsJump: return/goto/break/continue/panic outside closures.
func containsJump(n ast.Node) bool {
	found := false
	ast.Inspect(n, func(m ast.Node) bool {
		if found {
			return false
		}
		switch x := m.(type) {
		case *ast.FuncLit:
			return false
		case *ast.ReturnStmt, *ast.BranchStmt:
			found = true
		case *ast.CallExpr:
			if id, ok := x.Fun.(*ast.Ident); ok && id.Name == "panic" {
				found = true
			}
		}
		return !found
	})
	return found
}

type verdict struct {
	state string // "excl" | "shared" | "bad" | "none" | "unknown"
	why   string
}

// hasMutexCall: does node n contain a call of the given kinds on mutex m
// (into closures if intoLits).
func (w *world) hasMutexCall(p *pkg, n ast.Node, m string, intoLits bool, kinds ...lockKind) bool {
	found := false
	ast.Inspect(n, func(x ast.Node) bool {
		if found {
			return false
		}
		if _, ok := x.(*ast.FuncLit); ok && !intoLits && x != n {
			return false
		}
		if e, ok := x.(ast.Expr); ok {
			if k, id, _ := w.mutexCall(p, e); k != kNone && id == m {
				for _, kk := range kinds {
					if k == kk {
						found = true
					}
				}
			}
		}
		return !found
	})
	return found
}

func (w *world) where(n ast.Node) string {
	pos := w.l.fset.Position(n.Pos())
	rel, err := filepath.Rel(w.l.repo, pos.Filename)
	if err != nil {
		rel = pos.Filename
	}
	return fmt.Sprintf("%s:%d", filepath.ToSlash(rel), pos.Line)
}

// around decides whether mutex m is held around expression `call` inside
// function x: locked before the statement that contains the call and released
// after it.  txLit is the transaction closure when it is written at this
// place (Lock/Unlock inside it are evidence of a wrong protocol), else nil.
func (w *world) around(x *fn, call ast.Expr, txLit *ast.FuncLit, m string) verdict {
	if !w.hasMutexCall(x.p, x.decl.Body, m, true, kLock, kUnlock, kRLock, kRUnlock) {
		return verdict{"none", ""} // the function never touches the mutex
	}
	// innermost function literal of x that encloses the call (other than the
	// transaction closure itself): it must be invoked on the spot
	scope := x.decl.Body
	var encl *ast.FuncLit
	ast.Inspect(x.decl.Body, func(n ast.Node) bool {
		if l, ok := n.(*ast.FuncLit); ok && l != txLit && l.Pos() < call.Pos() && call.End() <= l.End() {
			encl = l
		}
		return true
	})
	if encl != nil {
		var inv *ast.CallExpr
		bad := ""
		ast.Inspect(x.decl.Body, func(n ast.Node) bool {
			switch s := n.(type) {
			case *ast.GoStmt:
				if s.Call.Fun == ast.Expr(encl) {
					bad = "started as a goroutine"
				}
			case *ast.DeferStmt:
				if s.Call.Fun == ast.Expr(encl) {
					bad = "deferred"
				}
			case *ast.CallExpr:
				if s.Fun == ast.Expr(encl) {
					inv = s
				}
			}
			return true
		})
		if inv == nil || bad != "" {
			if bad == "" {
				bad = "not invoked where it is written"
			}
			return verdict{"unknown", fmt.Sprintf("%s: the transaction of %s is run inside a function literal that is %s", w.where(call), x.name, bad)}
		}
		v := w.aroundIn(x, encl.Body, call, txLit, m)
		if v.state == "excl" || v.state == "shared" {
			v.why += " (inside an immediately invoked function literal that wraps the transaction)"
			return v
		}
		if v.state != "none" {
			return v
		}
		if w.hasMutexCall(x.p, encl, m, true, kLock, kUnlock, kRLock, kRUnlock) {
			return verdict{"unknown", fmt.Sprintf("%s: %s touches %s inside the function literal that wraps the transaction in a shape that is not understood", w.where(call), x.name, m)}
		}
		return w.around(x, inv, encl, m)
	}
	return w.aroundIn(x, scope, call, txLit, m)
}

func (w *world) aroundIn(x *fn, scope *ast.BlockStmt, call ast.Expr, txLit *ast.FuncLit, m string) verdict {
	p := x.p
	at := w.where(call)
	path := pathTo(scope.List, call)
	if path == nil {
		return verdict{"unknown", fmt.Sprintf("%s: cannot locate the transaction of %s in its statement list", at, x.name)}
	}
	lockLevel, lockIdx := -1, -1
	shared := false
	for li, lv := range path {
		for i := 0; i < lv.idx; i++ {
			s := lv.list[i]
			if es, ok := s.(*ast.ExprStmt); ok {
				if k, id, _ := w.mutexCall(p, es.X); id == m && (k == kLock || k == kRLock) {
					lockLevel, lockIdx, shared = li, i, k == kRLock
					continue
				}
			}
			if w.hasMutexCall(p, s, m, true, kLock, kRLock) {
				return verdict{"unknown", fmt.Sprintf("%s: %s takes %s inside a nested statement before the transaction", at, x.name, m)}
			}
		}
	}
	unl, mode := kUnlock, "Lock"
	if shared {
		unl, mode = kRUnlock, "RLock"
	}
	if lockLevel < 0 {
		if txLit != nil && w.hasMutexCall(p, txLit, m, true, kLock, kRLock) {
			return verdict{"bad", fmt.Sprintf("%s: %s is taken inside the transaction closure (after Begin)", at, m)}
		}
		if w.hasMutexCall(p, scope, m, true, kLock, kRLock) {
			return verdict{"bad", fmt.Sprintf("%s: %s of %s does not precede the transaction", at, m, x.name)}
		}
		return verdict{"none", ""}
	}
	deferred := false
	for li := lockLevel; li < len(path); li++ {
		lv := path[li]
		from := 0
		if li == lockLevel {
			from = lockIdx + 1
		}
		for i := from; i < lv.idx; i++ {
			s := lv.list[i]
			if ds, ok := s.(*ast.DeferStmt); ok {
				if k, id, _ := w.mutexCall(p, ds.Call); id == m && k == unl {
					deferred = true
					continue
				}
			}
			if w.hasMutexCall(p, s, m, true, kUnlock, kRUnlock) {
				return verdict{"unknown", fmt.Sprintf("%s: %s releases %s between taking it and the transaction (conditionally?)", at, x.name, m)}
			}
		}
	}
	if txLit != nil && w.hasMutexCall(p, txLit, m, true, kUnlock, kRUnlock) {
		return verdict{"bad", fmt.Sprintf("%s: %s is released inside the transaction closure (before commit and commit handlers)", at, m)}
	}
	ok := verdict{"excl", ""}
	if shared {
		ok.state = "shared"
	}
	if deferred {
		ok.why = fmt.Sprintf("%s: %s() before the transaction, deferred release", at, mode)
		return ok
	}
	lv := path[lockLevel]
	holder := lv.list[lv.idx]
	if lockLevel != len(path)-1 && containsJump(holder) {
		return verdict{"unknown", fmt.Sprintf("%s: %s: the statement enclosing the transaction may leave the function/loop while %s is held", at, x.name, m)}
	}
	for i := lv.idx + 1; i < len(lv.list); i++ {
		s := lv.list[i]
		if es, isExpr := s.(*ast.ExprStmt); isExpr {
			if k, id, _ := w.mutexCall(p, es.X); id == m && k == unl {
				ok.why = fmt.Sprintf("%s: %s() before the transaction, release after it in the same block", at, mode)
				return ok
			}
		}
		if w.hasMutexCall(p, s, m, true, kUnlock, kRUnlock) {
			return verdict{"unknown", fmt.Sprintf("%s: %s releases %s inside a nested statement after the transaction", at, x.name, m)}
		}
		if containsJump(s) {
			return verdict{"unknown", fmt.Sprintf("%s: %s may leave the block between the transaction and the release of %s", at, x.name, m)}
		}
	}
	return verdict{"unknown", fmt.Sprintf("%s: %s takes %s before the transaction but no matching release was found", at, x.name, m)}
}

// ---------------------------------------------------------------- sites

type rawSite struct {
	x      *fn
	call   *ast.CallExpr
	lit    *ast.FuncLit // transaction closure if written here
	runner string
	via    map[string]bool
	class  string
	// the runner helpers the transaction function passes through below this call
	down []frame
}

type frame struct {
	x    *fn
	call *ast.CallExpr
}

func main() {
	if len(os.Args) != 2 {
		die("usage: extract-c09 <repo>")
	}
	repo, err := filepath.Abs(os.Args[1])
	if err != nil {
		die("%v", err)
	}
	l := loadRepo(repo)
	w := buildWorld(l)
	w.wdb = l.mod + "/walletdb"
	if _, ok := l.pkgs[w.wdb]; !ok {
		die("package %s not found", w.wdb)
	}
	w.findManager()
	res := result{Module: l.mod, TypeErrors: l.nerr}
	for ip := range l.pkgs {
		res.Packages = append(res.Packages, strings.TrimPrefix(strings.TrimPrefix(ip, l.mod), "/"))
	}
	sort.Strings(res.Packages)

	prims, fields := w.primitives()
	res.CounterFields = fields
	primName := func(x *fn) string { return x.decl.Name.Name }
	res.Deferred = true
	var eagerIssuers []string
	nIssue := 0
	for x, pr := range prims {
		if pr.returnsAddrs {
			res.Issue = append(res.Issue, primName(x))
			nIssue++
			if pr.eager {
				res.Deferred = false
				eagerIssuers = append(eagerIssuers, primName(x))
			}
		} else {
			res.Extend = append(res.Extend, primName(x))
		}
	}
	sort.Strings(res.Issue)
	sort.Strings(res.Extend)
	sort.Strings(eagerIssuers)
	switch {
	case nIssue == 0:
		die("no exported ScopedKeyManager method both returns managed addresses and advances %v; the model of C09 does not apply", fields)
	case res.Deferred:
		res.DeferredWhy = fmt.Sprintf("every assignment to %s reachable from %s is inside a closure registered with OnCommit",
			strings.Join(fields, "/"), strings.Join(res.Issue, ", "))
	default:
		res.DeferredWhy = fmt.Sprintf("%s can assign %s outside an OnCommit handler (eager update)",
			strings.Join(eagerIssuers, ", "), strings.Join(fields, "/"))
	}
	// account creation (informational): exported ScopedKeyManager methods New*Account*
	acct := map[*fn]bool{}
	for _, x := range w.order {
		n := x.decl.Name.Name
		if x.p == w.mgrPkg && x.decl.Recv != nil && ast.IsExported(n) && strings.HasPrefix(n, "New") && strings.Contains(n, "Account") {
			if strings.Contains(x.name, "ScopedKeyManager") {
				acct[x] = true
				res.Account = append(res.Account, n)
			}
		}
	}
	sort.Strings(res.Account)

	// which primitives does each declaration reach
	reachPrims := func(roots []*fn) (map[string]bool, string, bool) {
		via := map[string]bool{}
		class := ""
		isAcct := false
		for y := range w.reach(roots) {
			if pr := prims[y]; pr != nil {
				via[primName(y)] = true
				if pr.returnsAddrs {
					class = "issue"
				} else if class == "" {
					class = "extend"
				}
			}
			if acct[y] {
				isAcct = true
			}
		}
		return via, class, isAcct
	}

	helpers := w.runnerHelpers()

	// every runner call in the repository whose transaction function is
	// written (or named) at the call
	var sites []*rawSite
	acctSites := map[string]bool{}
	for _, x := range w.order {
		if strings.HasPrefix(x.p.path, w.wdb) {
			continue
		}
		// local variables holding closures
		vars := map[types.Object]*ast.FuncLit{}
		ast.Inspect(x.decl.Body, func(n ast.Node) bool {
			if as, ok := n.(*ast.AssignStmt); ok && len(as.Lhs) == len(as.Rhs) {
				for i := range as.Lhs {
					if id, ok := as.Lhs[i].(*ast.Ident); ok {
						if fl, ok := as.Rhs[i].(*ast.FuncLit); ok {
							o := x.p.info.Defs[id]
							if o == nil {
								o = x.p.info.Uses[id]
							}
							if o != nil {
								vars[o] = fl
							}
						}
					}
				}
			}
			return true
		})
		sig := x.obj.Type().(*types.Signature)
		ast.Inspect(x.decl.Body, func(n ast.Node) bool {
			c, ok := n.(*ast.CallExpr)
			if !ok {
				return true
			}
			ai, rname := w.runnerArg(x.p, c, helpers)
			if ai < 0 || ai >= len(c.Args) {
				return true
			}
			arg := ast.Unparen(c.Args[ai])
			var lit *ast.FuncLit
			var roots []*fn
			switch a := arg.(type) {
			case *ast.FuncLit:
				lit = a
				roots = w.refsIn(x.p, a.Body)
			case *ast.Ident:
				o := x.p.info.Uses[a]
				if fl := vars[o]; fl != nil {
					roots = w.refsIn(x.p, fl.Body)
				} else if f, ok := o.(*types.Func); ok && w.fns[f] != nil {
					roots = []*fn{w.fns[f]}
				} else if v, ok := o.(*types.Var); ok {
					// the function's own transaction-function parameter: x is
					// a runner helper, its callers are the sites
					if pi, isH := helpers[x]; isH && sig.Params().At(pi) == v {
						return true
					}
					roots = nil
					if via, _, _ := reachPrims([]*fn{x}); len(via) > 0 {
						die("%s: %s runs a write transaction whose function is the value of %s; what it can reach is not known", w.where(c), x.name, a.Name)
					}
				}
			default:
				roots = w.refsIn(x.p, arg)
			}
			via, class, isAcct := reachPrims(roots)
			if isAcct {
				acctSites[x.name] = true
			}
			if len(via) == 0 {
				return true
			}
			sites = append(sites, &rawSite{x: x, call: c, lit: lit, runner: rname, via: via, class: class})
			return true
		})
		// a write transaction opened by hand
		ast.Inspect(x.decl.Body, func(n ast.Node) bool {
			c, ok := n.(*ast.CallExpr)
			if !ok {
				return true
			}
			if s, ok := c.Fun.(*ast.SelectorExpr); ok && s.Sel.Name == "BeginReadWriteTx" {
				if via, _, _ := reachPrims(w.refsIn(x.p, x.decl.Body)); len(via) > 0 {
					die("%s: %s opens a write transaction by hand (BeginReadWriteTx) and can reach %v; Begin/Commit pairs are not understood",
						w.where(c), x.name, keys(via))
				}
			}
			return true
		})
	}
	for n := range acctSites {
		res.AccountSites = append(res.AccountSites, n)
	}
	sort.Strings(res.AccountSites)
	if len(sites) == 0 {
		die("no database transaction reaching %v found in %d packages; the obligation would be vacuous", append(res.Issue, res.Extend...), len(res.Packages))
	}

	// exported functions that issue on a transaction/bucket handed in by the caller
	for _, x := range w.order {
		if x.p == w.mgrPkg || !ast.IsExported(x.decl.Name.Name) {
			continue
		}
		sig := x.obj.Type().(*types.Signature)
		takesTx := false
		for i := 0; i < sig.Params().Len(); i++ {
			if nt, ok := sig.Params().At(i).Type().(*types.Named); ok && nt.Obj().Pkg() != nil && nt.Obj().Pkg().Path() == w.wdb &&
				(nt.Obj().Name() == "ReadWriteTx" || nt.Obj().Name() == "ReadWriteBucket") {
				takesTx = true
			}
		}
		if takesTx {
			if via, _, _ := reachPrims([]*fn{x}); len(via) > 0 {
				res.OpenHelpers = append(res.OpenHelpers, x.name)
			}
		}
	}
	sort.Strings(res.OpenHelpers)

	// ---- the address mutex: the struct-field mutex locked around most sites
	votes := map[string]int{}
	mtype := map[string]string{}
	for _, s := range sites {
		seen := map[string]bool{}
		ast.Inspect(s.x.decl.Body, func(n ast.Node) bool {
			if e, ok := n.(ast.Expr); ok {
				if k, id, mt := w.mutexCall(s.x.p, e); (k == kLock || k == kRLock) && !strings.HasPrefix(id, "local:") && !seen[id] {
					if v := w.around(s.x, s.call, s.lit, id); v.state == "excl" || v.state == "shared" {
						seen[id] = true
						votes[id]++
						mtype[id] = mt
					}
				}
			}
			return true
		})
	}
	best := ""
	for id, n := range votes {
		if best == "" || n > votes[best] || (n == votes[best] && id < best) {
			best = id
		}
	}
	if best == "" {
		// no site holds any field mutex around its transaction: look for one
		// that is at least taken somewhere in a site function
		for _, s := range sites {
			ast.Inspect(s.x.decl.Body, func(n ast.Node) bool {
				if e, ok := n.(ast.Expr); ok {
					if k, id, mt := w.mutexCall(s.x.p, e); k != kNone && !strings.HasPrefix(id, "local:") {
						votes[id]++
						mtype[id] = mt
					}
				}
				return true
			})
		}
		for id, n := range votes {
			if best == "" || n > votes[best] || (n == votes[best] && id < best) {
				best = id
			}
		}
	}
	res.Mutex, res.MutexType = best, mtype[best]

	mutexPkg := ""
	if best != "" {
		if i := strings.LastIndex(best[:strings.LastIndex(best, ".")], "."); i >= 0 {
			mutexPkg = best[:i]
		}
	}
	// functions that mention the address mutex field at all; among them the
	// self-contained ones (they lock AND unlock it themselves: calling one
	// does not leave the mutex held) and the others (lock helpers, accessors
	// returning the mutex, ...): calling one of those may be how the mutex is
	// taken
	field := w.fieldOf[best]
	touchesDirect := map[*fn]bool{}
	helperish := map[*fn]bool{}
	localMutexUse := map[*fn]bool{}
	for _, x := range w.order {
		mentions := 0
		if field != nil {
			ast.Inspect(x.decl.Body, func(n ast.Node) bool {
				if se, ok := n.(*ast.SelectorExpr); ok {
					if sel := x.p.info.Selections[se]; sel != nil && sel.Obj() == types.Object(field) {
						mentions++
					}
				}
				return true
			})
		}
		locks, unlocks := 0, 0
		ast.Inspect(x.decl.Body, func(n ast.Node) bool {
			if e, ok := n.(ast.Expr); ok {
				if k, id, _ := w.mutexCall(x.p, e); k != kNone {
					if best != "" && id == best {
						if k == kLock || k == kRLock {
							locks++
						} else {
							unlocks++
						}
					} else if strings.HasPrefix(id, "local:") && (mutexPkg == "" || x.p.rel == mutexPkg) {
						// only code of the package that owns the (unexported)
						// mutex field can hold it under another name
						localMutexUse[x] = true
					}
				}
			}
			return true
		})
		if mentions > 0 {
			touchesDirect[x] = true
			if !(locks > 0 && unlocks > 0 && mentions == locks+unlocks) {
				helperish[x] = true
			}
		}
	}
	// does x deal with the mutex: itself, or through a lock helper it refers to
	touches := func(x *fn) bool {
		if touchesDirect[x] || localMutexUse[x] {
			return true
		}
		for _, y := range w.refs[x] {
			if helperish[y] {
				return true
			}
			for _, z := range w.refs[y] {
				if helperish[z] {
					return true
				}
			}
		}
		return false
	}

	// decide walks up the callers while the function itself does not touch the mutex
	var decide func(x *fn, call ast.Expr, lit *ast.FuncLit, depth int, visiting map[*fn]bool) (verdict, []string)
	decide = func(x *fn, call ast.Expr, lit *ast.FuncLit, depth int, visiting map[*fn]bool) (verdict, []string) {
		if best == "" {
			return verdict{"none", ""}, nil
		}
		v := w.around(x, call, lit, best)
		fr := []string{x.name}
		if v.state != "none" {
			return v, fr
		}
		if touchesDirect[x] {
			return verdict{"unknown", fmt.Sprintf("%s: %s uses %s but not around this transaction in a shape that is understood", w.where(call), x.name, best)}, fr
		}
		if localMutexUse[x] {
			return verdict{"unknown", fmt.Sprintf("%s: %s locks a mutex it obtained through a local variable (alias, helper, one of several mutexes?); which one is not known statically", w.where(call), x.name)}, fr
		}
		if touches(x) {
			return verdict{"unknown", fmt.Sprintf("%s: %s refers to a function that deals with %s without releasing it itself (a lock helper?); whether it is held around this transaction is not known statically", w.where(call), x.name, best)}, fr
		}
		if depth >= 4 || visiting[x] {
			return verdict{"none", ""}, fr
		}
		cs := w.callers[x]
		if len(cs) == 0 {
			return verdict{"none", ""}, fr
		}
		visiting[x] = true
		defer delete(visiting, x)
		all := verdict{"", ""}
		for _, cr := range cs {
			if cr.call == nil {
				// taken as a value: called from somewhere we do not see
				if touches(cr.from) {
					return verdict{"unknown", fmt.Sprintf("%s is used as a function value in %s, which deals with %s", x.name, cr.from.name, best)}, fr
				}
				cv := verdict{"none", ""}
				if all.state == "" || all.state == "excl" || all.state == "shared" {
					all = cv
				}
				continue
			}
			cv, cfr := decide(cr.from, cr.call, nil, depth+1, visiting)
			fr = append(fr, cfr...)
			switch {
			case cv.state == "bad" || cv.state == "unknown":
				return cv, fr
			case all.state == "":
				all = cv
			case cv.state == "none":
				all = cv
			case cv.state == "shared" && all.state == "excl":
				all = cv
			}
		}
		if all.state == "excl" || all.state == "shared" {
			all.why += fmt.Sprintf(" (in every caller of %s)", x.name)
		}
		return all, fr
	}

	sort.Slice(sites, func(i, j int) bool {
		a, b := sites[i], sites[j]
		if a.x.name != b.x.name {
			return a.x.name < b.x.name
		}
		return a.call.Pos() < b.call.Pos()
	})
	count := map[string]int{}
	for _, s := range sites {
		count[s.x.name]++
		st := site{Name: s.x.name, Pkg: s.x.p.rel, Class: s.class, Runner: s.runner, Mutex: best}
		if count[s.x.name] > 1 {
			st.Name = fmt.Sprintf("%s#%d", s.x.name, count[s.x.name])
		}
		pos := l.fset.Position(s.call.Pos())
		rel, _ := filepath.Rel(repo, pos.Filename)
		st.File, st.Line = filepath.ToSlash(rel), pos.Line
		st.Via = keys(s.via)
		// the transaction function may pass through runner helpers: the lock
		// may be taken there, around the inner runner call
		v, frames := decide(s.x, s.call, s.lit, 0, map[*fn]bool{})
		if v.state == "none" {
			for _, t := range w.targets(s.x.p, s.call.Fun) {
				hv, hfr := w.helperHolds(t, helpers, best, 0)
				if hv.state != "none" {
					v, frames = hv, append(frames, hfr...)
					break
				}
			}
		}
		st.Frames = frames
		st.Touches = touches(s.x)
		t, f := true, false
		switch v.state {
		case "excl":
			st.Held, st.Why = &t, v.why
		case "shared":
			st.Held, st.Shared = &f, true
			st.Why = v.why + ": a read lock does not exclude another request holding a read lock"
		case "bad":
			st.Held, st.Why = &f, v.why
		case "unknown":
			st.Held, st.Why = nil, v.why
		default: // none
			switch {
			case best == "":
				st.Held, st.Why = nil, fmt.Sprintf("%s: no mutex that is a struct field is held around any transaction reaching %v; no candidate for the address mutex", w.where(s.call), st.Via)
			case mutexPkg != "" && s.x.p.rel != mutexPkg && !touchesAnyCaller(w, s.x, touches):
				st.Held, st.Why = &f, fmt.Sprintf("%s: %s is in package %s; the address mutex %s is an unexported field of package %s and no function on a path to this transaction takes it",
					w.where(s.call), s.x.name, s.x.p.rel, best, mutexPkg)
			case !touches(s.x) && !touchesAnyCaller(w, s.x, touches):
				st.Held, st.Why = &f, fmt.Sprintf("%s: neither %s, nor anything it calls, nor any of its callers takes %s", w.where(s.call), s.x.name, best)
			default:
				st.Held, st.Why = nil, fmt.Sprintf("%s: no Lock of %s recognised around the transaction of %s (taken through an alias, a helper, or by some callers only?)", w.where(s.call), best, s.x.name)
			}
		}
		res.Sites = append(res.Sites, st)
	}
	b, _ := json.MarshalIndent(res, "", " ")
	fmt.Println(string(b))
}

// helperHolds: the runner helper t takes the mutex around its own runner call.
func (w *world) helperHolds(t *fn, helpers map[*fn]int, m string, depth int) (verdict, []string) {
	if _, ok := helpers[t]; !ok || depth > 3 {
		return verdict{"none", ""}, nil
	}
	out := verdict{"none", ""}
	var frames []string
	ast.Inspect(t.decl.Body, func(n ast.Node) bool {
		c, ok := n.(*ast.CallExpr)
		if !ok || out.state != "none" {
			return true
		}
		if ai, _ := w.runnerArg(t.p, c, helpers); ai >= 0 {
			v := w.around(t, c, nil, m)
			frames = append(frames, t.name)
			if v.state != "none" {
				out = v
				if v.state == "excl" || v.state == "shared" {
					out.why += fmt.Sprintf(" (in the helper %s that runs the transaction)", t.name)
				}
				return false
			}
			for _, t2 := range w.targets(t.p, c.Fun) {
				if v2, f2 := w.helperHolds(t2, helpers, m, depth+1); v2.state != "none" {
					out, frames = v2, append(frames, f2...)
					return false
				}
			}
		}
		return true
	})
	return out, frames
}

func touchesAnyCaller(w *world, x *fn, touches func(*fn) bool) bool {
	seen := map[*fn]bool{}
	var up func(y *fn) bool
	up = func(y *fn) bool {
		if seen[y] {
			return false
		}
		seen[y] = true
		for _, cr := range w.callers[y] {
			if touches(cr.from) || up(cr.from) {
				return true
			}
		}
		return false
	}
	return up(x)
}

func keys(m map[string]bool) []string {
	var out []string
	for k := range m {
		out = append(out, k)
	}
	sort.Strings(out)
	return out
}
