// extract-c05 reads waddrmgr's sources (go/ast, no type checking) and prints,
// as one JSON object, the facts about the lock discipline that the model
// coq/Addr/Lock.v is parameterised by:
//
//	cache_checked_for_lock        DeriveFromKeyPathCache tests watch-only AND locked
//	                              (returning an error) before it consults privKeyCache
//	lock_purges_key_cache         Manager.lock() empties the privKeyCache of every scoped manager
//	lock_wipes_witness_scripts    the type switch in Manager.lock() calls lock() on
//	                              *witnessScriptAddress and *taprootScriptAddress as well
//	lock_wipes_last_addrs         Manager.lock() calls lock() on accountInfo.lastExternalAddr
//	                              and accountInfo.lastInternalAddr
//	unlock_skips_keyless_accounts Manager.Unlock skips cached accounts without acctKeyEncrypted
//	keyless_addresses_not_queued  keyToManaged queues a public-only address for derivation on
//	                              unlock only when its account has an encrypted private key
//
//	change_rejects_empty_private  ChangePassphrase returns an error for an empty new PRIVATE
//	                              passphrase (as Create does) before anything else happens
//
//	privkey_checks_lock_first     (*managedAddress).PrivKey returns the locked error before it
//	                              calls a.unlock(..), and unlock tests privKeyEncrypted before the
//	                              cached clear text.  false: PrivKey has no lock test and unlock
//	                              tests locked, then privKeyEncrypted, inside `if len(a.privKeyCT) == 0`
//	unlock_loads_queued_accounts  Manager.Unlock calls loadAccountInfo for the account of every
//	                              deriveOnUnlock entry before the loop that decrypts account keys
//
//	lock_zeroes_account_keys      Manager.lock() calls acctInfo.acctKeyPriv.Zero() before acctInfo.acctKeyPriv = nil
//	address_lock_zeroes_key       (*managedAddress).lock calls zero.Bytes(a.privKeyCT) before a.privKeyCT = nil
//	address_lock_zeroes_script    (*baseScriptAddress).lock calls zero.Bytes(a.scriptClearText) before = nil
//	lock_zeroes_cached_keys       the purge of privKeyCache calls <value>.key.Zero() on every entry it deletes
//	lock_zeroes_manager_keys      Manager.lock() calls cryptoKeyScript.Zero(), cryptoKeyPriv.Zero(),
//	                              masterKeyPriv.Zero() and zero.Bytea64(&hashedPrivPassphrase)
//	markused_wipes_evicted        MarkUsed wipes the address object it deletes from the addrs cache
//	invalidate_wipes_evicted      InvalidateAccountCache wipes the account key / last addresses it drops
//	next_wipes_replaced_last      the code that replaces accountInfo.last{External,Internal}Addr wipes the old object
//	unlock_leaves_no_cleartext_in_dropped  Unlock does not store the clear-text key in the queued objects it forgets
//	lru_eviction_zeroes           a key pushed out of privKeyCache by Put is zeroed
//	priv_key_cache_size           defaultPrivKeyCacheSize
//
// The last five "wipe" facts are decided here only in the negative (no call
// that could wipe anything is anywhere near the statement that drops the
// object); every other shape is refused, and the caller then determines the
// fact by RUNNING the code (lib/extract_c05.py, probe_facts).
//
//	usage: extract-c05 <repo>
//
// Everything is syntactic.  Shapes the program does not understand make it
// exit with status 2 and a message on stderr (never a guess).
package main

import (
	"encoding/json"
	"fmt"
	"go/ast"
	"go/parser"
	"go/token"
	"go/types"
	"os"
	"path/filepath"
	"sort"
	"strings"
)

type result struct {
	CacheChecked  bool              `json:"cache_checked_for_lock"`
	LockPurges    bool              `json:"lock_purges_key_cache"`
	LockWipesW    bool              `json:"lock_wipes_witness_scripts"`
	LockWipesLast bool              `json:"lock_wipes_last_addrs"`
	UnlockSkips   bool              `json:"unlock_skips_keyless_accounts"`
	KeylessNotQ   bool              `json:"keyless_addresses_not_queued"`
	RejectsEmpty  bool              `json:"change_rejects_empty_private"`
	PrivKeyFirst  bool              `json:"privkey_checks_lock_first"`
	UnlockLoads   bool              `json:"unlock_loads_queued_accounts"`
	ZAcct         bool              `json:"lock_zeroes_account_keys"`
	ZKey          bool              `json:"address_lock_zeroes_key"`
	ZScript       bool              `json:"address_lock_zeroes_script"`
	ZCache        bool              `json:"lock_zeroes_cached_keys"`
	ZMgr          bool              `json:"lock_zeroes_manager_keys"`
	EMarkUsed     bool              `json:"markused_wipes_evicted"`
	EInvalidate   bool              `json:"invalidate_wipes_evicted"`
	ENext         bool              `json:"next_wipes_replaced_last"`
	EUnlock       bool              `json:"unlock_leaves_no_cleartext_in_dropped"`
	ELru          bool              `json:"lru_eviction_zeroes"`
	CacheSize     int               `json:"priv_key_cache_size"`
	Why           map[string]string `json:"why"`
	LockCaseTypes []string          `json:"lock_case_types"`
}

func die(format string, a ...interface{}) {
	fmt.Fprintf(os.Stderr, "extract-c05: "+format+"\n", a...)
	os.Exit(2)
}

func str(e ast.Expr) string { return types.ExprString(e) }

type method struct {
	recvType string // "Manager", "ScopedKeyManager", ...
	recvName string
	decl     *ast.FuncDecl
	fset     *token.FileSet
}

func parseMethods(dir string) map[string][]method {
	fset := token.NewFileSet()
	pkgs, err := parser.ParseDir(fset, dir, func(fi os.FileInfo) bool {
		n := fi.Name()
		return !strings.HasSuffix(n, "_test.go") && !strings.HasPrefix(n, "verif_hooks")
	}, 0)
	if err != nil {
		die("parse %s: %v", dir, err)
	}
	out := map[string][]method{}
	var names []string
	for n := range pkgs {
		names = append(names, n)
	}
	sort.Strings(names)
	for _, n := range names {
		var fnames []string
		for fn := range pkgs[n].Files {
			fnames = append(fnames, fn)
		}
		sort.Strings(fnames)
		for _, fn := range fnames {
			f := pkgs[n].Files[fn]
			allFiles = append(allFiles, f)
			for _, d := range f.Decls {
				fd, ok := d.(*ast.FuncDecl)
				if !ok || fd.Recv == nil || len(fd.Recv.List) != 1 || fd.Body == nil {
					continue
				}
				r := fd.Recv.List[0]
				t := r.Type
				if s, ok := t.(*ast.StarExpr); ok {
					t = s.X
				}
				id, ok := t.(*ast.Ident)
				if !ok {
					continue
				}
				rn := ""
				if len(r.Names) == 1 {
					rn = r.Names[0].Name
				}
				out[fd.Name.Name] = append(out[fd.Name.Name], method{id.Name, rn, fd, fset})
			}
		}
	}
	return out
}

func one(ms map[string][]method, name, recv string) method {
	var found []method
	for _, m := range ms[name] {
		if m.recvType == recv {
			found = append(found, m)
		}
	}
	if len(found) != 1 {
		die("expected exactly one method (*%s).%s, found %d", recv, name, len(found))
	}
	if found[0].recvName == "" {
		die("(*%s).%s has no receiver name", recv, name)
	}
	return found[0]
}

// containsCall reports whether n contains a call whose callee renders as fun.
func containsCall(n ast.Node, fun string) bool {
	found := false
	ast.Inspect(n, func(x ast.Node) bool {
		if c, ok := x.(*ast.CallExpr); ok && str(c.Fun) == fun {
			found = true
		}
		return !found
	})
	return found
}

func mentions(n ast.Node, sel string) bool {
	found := false
	ast.Inspect(n, func(x ast.Node) bool {
		if s, ok := x.(*ast.SelectorExpr); ok && s.Sel.Name == sel {
			found = true
		}
		return !found
	})
	return found
}

// returnsError: the block's last statement is a return whose last result is
// not the identifier nil.
func returnsError(b *ast.BlockStmt) bool {
	if len(b.List) == 0 {
		return false
	}
	r, ok := b.List[len(b.List)-1].(*ast.ReturnStmt)
	if !ok || len(r.Results) == 0 {
		return false
	}
	last := r.Results[len(r.Results)-1]
	if id, ok := last.(*ast.Ident); ok && id.Name == "nil" {
		return false
	}
	return true
}

// disjuncts splits a || b || c.
func disjuncts(e ast.Expr) []ast.Expr {
	if p, ok := e.(*ast.ParenExpr); ok {
		return disjuncts(p.X)
	}
	if b, ok := e.(*ast.BinaryExpr); ok && b.Op == token.LOR {
		return append(disjuncts(b.X), disjuncts(b.Y)...)
	}
	return []ast.Expr{e}
}

// ---- F1 -------------------------------------------------------------------

func cacheChecked(m method) (bool, string) {
	r := m.recvName
	get := r + ".privKeyCache.Get"
	isLocked := r + ".rootManager.IsLocked()"
	watchOnly := r + ".rootManager.WatchOnly()"
	idx := -1
	for i, st := range m.decl.Body.List {
		if containsCall(st, get) {
			idx = i
			break
		}
	}
	if idx < 0 {
		die("DeriveFromKeyPathCache: no call of %s at statement level; unknown shape", get)
	}
	// the hit path must return the cached key
	hit := false
	for _, st := range m.decl.Body.List[idx:] {
		if is, ok := st.(*ast.IfStmt); ok && str(is.Cond) == "err == nil" && len(is.Body.List) > 0 {
			if rs, ok := is.Body.List[len(is.Body.List)-1].(*ast.ReturnStmt); ok && len(rs.Results) == 2 && str(rs.Results[1]) == "nil" {
				hit = true
			}
			break
		}
	}
	if !hit {
		die("DeriveFromKeyPathCache: the cache-hit path `if err == nil { ...; return key, nil }` was not found after %s; unknown shape", get)
	}
	// aliases: x := s.rootManager.WatchOnly()
	alias := map[string]string{}
	locked, watch := false, false
	for _, st := range m.decl.Body.List[:idx] {
		switch s := st.(type) {
		case *ast.AssignStmt:
			if len(s.Lhs) == 1 && len(s.Rhs) == 1 {
				if id, ok := s.Lhs[0].(*ast.Ident); ok {
					rhs := str(s.Rhs[0])
					if rhs == isLocked || rhs == watchOnly {
						alias[id.Name] = rhs
					}
				}
			}
		case *ast.IfStmt:
			touches := false
			var l, w bool
			for _, d := range disjuncts(s.Cond) {
				ds := str(d)
				if a, ok := alias[ds]; ok {
					ds = a
				}
				switch ds {
				case isLocked:
					l, touches = true, true
				case watchOnly:
					w, touches = true, true
				default:
					if strings.Contains(ds, "IsLocked") || strings.Contains(ds, "WatchOnly") {
						die("DeriveFromKeyPathCache: guard condition %q before the cache lookup is not understood", str(s.Cond))
					}
				}
			}
			if !touches {
				continue
			}
			if s.Else != nil || !returnsError(s.Body) {
				die("DeriveFromKeyPathCache: guard `if %s` before the cache lookup does not end in `return nil, <error>`", str(s.Cond))
			}
			locked = locked || l
			watch = watch || w
		case *ast.ExprStmt, *ast.DeferStmt:
			// s.mtx.Lock() / defer s.mtx.Unlock()
		default:
			if strings.Contains(fmt.Sprintf("%T", st), "Stmt") && (mentionsCallName(st, "IsLocked") || mentionsCallName(st, "WatchOnly")) {
				die("DeriveFromKeyPathCache: statement of type %T before the cache lookup mentions IsLocked/WatchOnly; unknown shape", st)
			}
		}
	}
	switch {
	case locked && watch:
		return true, "guards on WatchOnly() and IsLocked() return an error before " + get
	case !locked && !watch:
		return false, get + " is consulted before any test of IsLocked()/WatchOnly()"
	default:
		die("DeriveFromKeyPathCache: only one of IsLocked()/WatchOnly() is tested before the cache lookup (locked=%v watch=%v); the model has no such case", locked, watch)
	}
	return false, ""
}

func mentionsCallName(n ast.Node, name string) bool {
	found := false
	ast.Inspect(n, func(x ast.Node) bool {
		if c, ok := x.(*ast.CallExpr); ok {
			if s, ok := c.Fun.(*ast.SelectorExpr); ok && s.Sel.Name == name {
				found = true
			}
		}
		return !found
	})
	return found
}

// ---- lock() ---------------------------------------------------------------

// cacheZeroed is set by purgesCache: every entry the purge deletes is zeroed first.
var cacheZeroed = false

// purgesCache: node contains, for scoped manager expression x,
// x.privKeyCache.Range(func(k, v) bool { ... [v.key.Zero()] ... x.privKeyCache.Delete(k) ... }).
// Whether each deleted entry is ZEROED (v.key.Zero() as a statement of the
// callback's body in front of the Delete) is recorded in cacheZeroed.  A cache
// that is REPLACED (x.privKeyCache = lru.NewCache[..](..)) is refused: nothing
// in that statement zeroes the old entries, and whether something else does is
// for the behavioural probe to find out.
func purgesCache(n ast.Node, x string) bool {
	ok := false
	ast.Inspect(n, func(y ast.Node) bool {
		switch s := y.(type) {
		case *ast.AssignStmt:
			if len(s.Lhs) == 1 && len(s.Rhs) == 1 && str(s.Lhs[0]) == x+".privKeyCache" && s.Tok == token.ASSIGN {
				die("lock(): %s.privKeyCache is REPLACED (%s): the statement drops the old entries without zeroing them; cannot establish from the source that the cached keys are zeroed", x, str(s.Rhs[0]))
			}
		case *ast.CallExpr:
			if str(s.Fun) == x+".privKeyCache.Range" && len(s.Args) == 1 {
				if fl, isLit := s.Args[0].(*ast.FuncLit); isLit && len(fl.Type.Params.List) >= 1 && len(fl.Type.Params.List[0].Names) >= 1 {
					var names []string
					for _, f := range fl.Type.Params.List {
						for _, nm := range f.Names {
							names = append(names, nm.Name)
						}
					}
					k := names[0]
					v := ""
					if len(names) >= 2 {
						v = names[1]
					}
					zeroedAt, deletedAt := -1, -1
					for i, st := range fl.Body.List {
						es, isExpr := st.(*ast.ExprStmt)
						if !isExpr {
							continue
						}
						c, isCall := es.X.(*ast.CallExpr)
						if !isCall {
							continue
						}
						if str(c.Fun) == x+".privKeyCache.Delete" && len(c.Args) == 1 && str(c.Args[0]) == k && deletedAt < 0 {
							deletedAt = i
						}
						if v != "" && str(c.Fun) == v+".key.Zero" && len(c.Args) == 0 && zeroedAt < 0 {
							zeroedAt = i
						}
					}
					if deletedAt >= 0 {
						ok = true
						cacheZeroed = zeroedAt >= 0 && zeroedAt < deletedAt
						if !cacheZeroed && mentionsCallName(fl.Body, "Zero") {
							die("lock(): the purge of %s.privKeyCache mentions Zero() but not as the statement `%s.key.Zero()` in front of the Delete; unknown shape", x, v)
						}
					} else {
						ast.Inspect(fl.Body, func(z ast.Node) bool {
							if c, isCall := z.(*ast.CallExpr); isCall && str(c.Fun) == x+".privKeyCache.Delete" {
								die("lock(): the purge callback of %s.privKeyCache deletes entries but not as a plain statement `%s.privKeyCache.Delete(%s)`; unknown shape", x, x, k)
							}
							return true
						})
					}
				}
			}
		}
		return !ok
	})
	return ok
}

func lockFacts(ms map[string][]method, m method) (purges bool, whyP string, wipesW bool, whyW string, caseTypes []string, wipesLast bool, whyL string) {
	r := m.recvName
	body := m.decl.Body

	// every top-level loop over the scoped managers must run its whole body for
	// every scope: no continue / break / return / goto inside it
	for _, st := range body.List {
		rs, ok := st.(*ast.RangeStmt)
		if !ok || str(rs.X) != r+".scopedManagers" {
			continue
		}
		ast.Inspect(rs.Body, func(n ast.Node) bool {
			switch x := n.(type) {
			case *ast.FuncLit:
				return false
			case *ast.BranchStmt:
				die("lock(): `%s` inside the loop over %s.scopedManagers: a scope (or part of its wipes) may be skipped; the model has no such case", x.Tok, r)
			case *ast.ReturnStmt:
				die("lock(): return inside the loop over %s.scopedManagers; the model has no such case", r)
			}
			return true
		})
	}

	// --- privKeyCache
	// (a top-level loop over the scoped managers; the purge is one of its own statements, not nested in a condition)
	ast.Inspect(body, func(n ast.Node) bool {
		rs, ok := n.(*ast.RangeStmt)
		if !ok || str(rs.X) != r+".scopedManagers" || rs.Value == nil {
			return true
		}
		top := false
		for _, st := range body.List {
			if st == ast.Stmt(rs) {
				top = true
			}
		}
		if !top {
			return true
		}
		x := str(rs.Value)
		for _, st := range rs.Body.List {
			switch st.(type) {
			case *ast.ExprStmt, *ast.AssignStmt:
				if purgesCache(st, x) {
					purges = true
					whyP = "lock() purges " + x + ".privKeyCache for every scoped manager"
				}
			}
		}
		if purges {
			return true
		}
		// a helper method of ScopedKeyManager
		ast.Inspect(rs.Body, func(y ast.Node) bool {
			c, ok := y.(*ast.CallExpr)
			if !ok {
				return true
			}
			sel, ok := c.Fun.(*ast.SelectorExpr)
			if !ok || str(sel.X) != x {
				return true
			}
			for _, h := range ms[sel.Sel.Name] {
				if h.recvType == "ScopedKeyManager" && h.recvName != "" && mentions(h.decl.Body, "privKeyCache") {
					if purgesCache(h.decl.Body, h.recvName) {
						purges = true
						whyP = "lock() calls " + x + "." + sel.Sel.Name + "() which purges the cache"
					} else {
						die("lock(): helper %s touches privKeyCache in a way that is not understood", sel.Sel.Name)
					}
				}
			}
			return true
		})
		return true
	})
	if !purges {
		if mentions(body, "privKeyCache") {
			die("lock(): privKeyCache is referenced but not in a recognised purge (x.privKeyCache.Range(func(k, v) bool { v.key.Zero(); x.privKeyCache.Delete(k); .. }) inside `for _, x := range %s.scopedManagers`)", r)
		}
		whyP = "lock() never references privKeyCache"
	}

	// --- type switch over the cached addresses
	var ts *ast.TypeSwitchStmt
	nts := 0
	ast.Inspect(body, func(n ast.Node) bool {
		if t, ok := n.(*ast.TypeSwitchStmt); ok {
			ts = t
			nts++
		}
		return true
	})
	if nts != 1 {
		die("lock(): expected exactly one type switch over the cached addresses, found %d", nts)
	}
	as, ok := ts.Assign.(*ast.AssignStmt)
	if !ok || len(as.Lhs) != 1 {
		die("lock(): type switch is not of the form `switch addr := ma.(type)`")
	}
	// The wipes may sit in one loop over the scoped managers or in several
	// (the scopes are independent and the wipes idempotent), but each must
	// run for EVERY scoped manager and every entry: the type switch directly
	// in `for _, ma := range x.addrs` directly in `for _, x := range
	// m.scopedManagers` at the top level of lock(), unconditionally.
	{
		ta, ok := as.Rhs[0].(*ast.TypeAssertExpr)
		if !ok || ta.Type != nil {
			die("lock(): type switch is not of the form `switch addr := ma.(type)`")
		}
		subject := str(ta.X)
		placed := false
		for _, st := range body.List {
			outer, ok := st.(*ast.RangeStmt)
			if !ok || str(outer.X) != r+".scopedManagers" || outer.Value == nil {
				continue
			}
			x := str(outer.Value)
			for _, in := range outer.Body.List {
				inner, ok := in.(*ast.RangeStmt)
				if !ok || str(inner.X) != x+".addrs" || inner.Value == nil || str(inner.Value) != subject {
					continue
				}
				for _, b := range inner.Body.List {
					if b == ast.Stmt(ts) {
						placed = true
					}
				}
			}
		}
		if !placed {
			die("lock(): the type switch is not directly inside `for _, %s := range x.addrs` inside a top-level `for _, x := range %s.scopedManagers`; cannot establish that every cached address is wiped", subject, r)
		}
	}
	bound := str(as.Lhs[0])
	wiped := map[string]bool{}
	for _, cl := range ts.Body.List {
		cc := cl.(*ast.CaseClause)
		if cc.List == nil {
			die("lock(): the type switch has a default clause; unknown shape")
		}
		if len(cc.List) != 1 {
			die("lock(): a case of the type switch lists several types; unknown shape")
		}
		t := str(cc.List[0])
		caseTypes = append(caseTypes, t)
		calls := false
		for _, st := range cc.Body {
			if containsCall(st, bound+".lock") {
				calls = true
			}
		}
		if !calls {
			die("lock(): case %s of the type switch does not call %s.lock()", t, bound)
		}
		wiped[t] = true
	}
	sort.Strings(caseTypes)
	for t := range wiped {
		switch t {
		case "*managedAddress", "*scriptAddress", "*witnessScriptAddress", "*taprootScriptAddress":
		default:
			die("lock(): case %s of the type switch is not a known address type", t)
		}
	}
	if !wiped["*managedAddress"] || !wiped["*scriptAddress"] {
		die("lock(): the type switch no longer wipes *managedAddress and *scriptAddress; the model does not apply")
	}
	w, t := wiped["*witnessScriptAddress"], wiped["*taprootScriptAddress"]
	switch {
	case w && t:
		wipesW, whyW = true, "type switch cases: "+strings.Join(caseTypes, ", ")
	case !w && !t:
		wipesW, whyW = false, "type switch cases: "+strings.Join(caseTypes, ", ")+" (no *witnessScriptAddress, no *taprootScriptAddress)"
	default:
		die("lock(): exactly one of *witnessScriptAddress / *taprootScriptAddress is wiped; the model has no such case")
	}

	// --- lastExternalAddr / lastInternalAddr: `if a, ok := acctInfo.last..Addr.(*managedAddress); ok { a.lock() }`
	// directly in `for _, acctInfo := range x.acctInfo` directly in a top-level loop over the scoped managers
	got := map[string]bool{}
	var lastIfs []ast.Node
	for _, st := range body.List {
		outer, ok := st.(*ast.RangeStmt)
		if !ok || str(outer.X) != r+".scopedManagers" || outer.Value == nil {
			continue
		}
		x := str(outer.Value)
		for _, in := range outer.Body.List {
			inner, ok := in.(*ast.RangeStmt)
			if !ok || str(inner.X) != x+".acctInfo" || inner.Value == nil {
				continue
			}
			for _, b := range inner.Body.List {
				lastIfs = append(lastIfs, b)
			}
		}
	}
	for _, n := range lastIfs {
		func(n ast.Node) bool {
			is, ok := n.(*ast.IfStmt)
			if !ok || is.Init == nil {
				return true
			}
			a, ok := is.Init.(*ast.AssignStmt)
			if !ok || len(a.Lhs) != 2 || len(a.Rhs) != 1 {
				return true
			}
			ta, ok := a.Rhs[0].(*ast.TypeAssertExpr)
			if !ok || ta.Type == nil || str(ta.Type) != "*managedAddress" {
				return true
			}
			sel, ok := ta.X.(*ast.SelectorExpr)
			if !ok {
				return true
			}
			if str(is.Cond) != str(a.Lhs[1]) {
				return true
			}
			if containsCall(is.Body, str(a.Lhs[0])+".lock") {
				got[sel.Sel.Name] = true
			}
			return true
		}(n)
	}
	e, i := got["lastExternalAddr"], got["lastInternalAddr"]
	switch {
	case e && i:
		wipesLast, whyL = true, "lock() calls lock() on acctInfo.lastExternalAddr and acctInfo.lastInternalAddr"
	case !e && !i:
		if mentions(body, "lastExternalAddr") || mentions(body, "lastInternalAddr") {
			die("lock(): lastExternalAddr/lastInternalAddr are referenced but not as `if a, ok := x.lastExternalAddr.(*managedAddress); ok { a.lock() }`")
		}
		wipesLast, whyL = false, "lock() never references lastExternalAddr / lastInternalAddr"
	default:
		die("lock(): only one of lastExternalAddr / lastInternalAddr is wiped; the model has no such case")
	}
	return
}

// ---- F5 -------------------------------------------------------------------

func unlockSkips(m method) (bool, string) {
	r := m.recvName
	var res *bool
	why := ""
	ast.Inspect(m.decl.Body, func(n ast.Node) bool {
		rs, ok := n.(*ast.RangeStmt)
		if !ok || rs.Value == nil || !strings.HasSuffix(str(rs.X), ".acctInfo") {
			return true
		}
		v := str(rs.Value)
		dec := r + ".cryptoKeyPriv.Decrypt"
		// the encrypted key may be named directly or through ONE local that is
		// defined once, at the top level of the loop body, as `x := v.acctKeyEncrypted`
		// and never assigned again in the loop (so it denotes the same slice)
		names := map[string]bool{v + ".acctKeyEncrypted": true}
		for _, st := range rs.Body.List {
			as, ok := st.(*ast.AssignStmt)
			if !ok || as.Tok != token.DEFINE || len(as.Lhs) != 1 || len(as.Rhs) != 1 || str(as.Rhs[0]) != v+".acctKeyEncrypted" {
				continue
			}
			id, ok := as.Lhs[0].(*ast.Ident)
			if !ok {
				continue
			}
			writes := 0
			ast.Inspect(rs.Body, func(x ast.Node) bool {
				switch y := x.(type) {
				case *ast.AssignStmt:
					for _, l := range y.Lhs {
						if str(l) == id.Name {
							writes++
						}
					}
				case *ast.UnaryExpr:
					if y.Op == token.AND && str(y.X) == id.Name {
						writes += 2
					}
				}
				return true
			})
			if writes == 1 {
				names[id.Name] = true
			}
		}
		idx := -1
		for i, st := range rs.Body.List {
			found := false
			ast.Inspect(st, func(x ast.Node) bool {
				if c, ok := x.(*ast.CallExpr); ok && str(c.Fun) == dec && len(c.Args) == 1 && names[str(c.Args[0])] {
					found = true
				}
				return !found
			})
			if found {
				idx = i
				break
			}
		}
		if idx < 0 {
			return true
		}
		if res != nil {
			die("Unlock: more than one loop decrypting acctKeyEncrypted")
		}
		skip := false
		for _, st := range rs.Body.List[:idx] {
			is, ok := st.(*ast.IfStmt)
			if !ok {
				if as, isAs := st.(*ast.AssignStmt); isAs && len(as.Lhs) == 1 && names[str(as.Lhs[0])] && str(as.Rhs[0]) == v+".acctKeyEncrypted" {
					continue // the definition of the local
				}
				if mentions(st, "acctKeyEncrypted") {
					die("Unlock: statement before the account key decryption mentions acctKeyEncrypted; unknown shape")
				}
				continue
			}
			c := str(is.Cond)
			isEmptyTest := false
			for nm := range names {
				if c == "len("+nm+") == 0" || c == nm+" == nil" {
					isEmptyTest = true
				}
			}
			if isEmptyTest {
				if len(is.Body.List) == 1 && is.Else == nil {
					if b, ok := is.Body.List[0].(*ast.BranchStmt); ok && b.Tok == token.CONTINUE {
						skip = true
						continue
					}
				}
				die("Unlock: `if %s` before the account key decryption does not just `continue`", c)
			}
			usesKey := mentions(is, "acctKeyEncrypted") || mentions(is, "acctType")
			ast.Inspect(is, func(x ast.Node) bool {
				switch y := x.(type) {
				case *ast.Ident:
					if names[y.Name] {
						usesKey = true
					}
				case *ast.BranchStmt, *ast.ReturnStmt:
					// an exit from the iteration in front of the decryption that is
					// not the recognised emptiness test: do not guess what it skips
					usesKey = true
				}
				return true
			})
			if usesKey {
				die("Unlock: guard `if %s` before the account key decryption is not understood", c)
			}
		}
		res = &skip
		if skip {
			why = "the account loop of Unlock continues when len(" + v + ".acctKeyEncrypted) == 0"
		} else {
			why = "the account loop of Unlock decrypts " + v + ".acctKeyEncrypted of every cached account"
		}
		return true
	})
	if res == nil {
		die("Unlock: loop `for .., acctInfo := range x.acctInfo { .. %s.cryptoKeyPriv.Decrypt(acctInfo.acctKeyEncrypted) .. }` not found", r)
	}
	return *res, why
}

// ---- F6 -------------------------------------------------------------------

func keylessNotQueued(m method) (bool, string) {
	r := m.recvName
	ps := m.decl.Type.Params.List
	var names []string
	for _, p := range ps {
		for _, n := range p.Names {
			names = append(names, n.Name)
		}
	}
	if len(names) != 3 {
		die("keyToManaged: expected 3 parameters, found %d", len(names))
	}
	key, acct := names[0], names[2]
	var res *bool
	why := ""
	for _, st := range m.decl.Body.List {
		is, ok := st.(*ast.IfStmt)
		if !ok {
			continue
		}
		appends := false
		ast.Inspect(is.Body, func(n ast.Node) bool {
			if a, ok := n.(*ast.AssignStmt); ok && len(a.Lhs) == 1 && str(a.Lhs[0]) == r+".deriveOnUnlock" {
				appends = true
			}
			return !appends
		})
		if !appends {
			continue
		}
		if res != nil {
			die("keyToManaged: more than one statement appends to deriveOnUnlock")
		}
		c := str(is.Cond)
		base := "!" + key + ".IsPrivate()"
		var v bool
		switch c {
		case base:
			v = false
			why = "keyToManaged queues every public-only address (`if " + c + "`)"
		case base + " && len(" + acct + ".acctKeyEncrypted) > 0", base + " && len(" + acct + ".acctKeyEncrypted) != 0":
			v = true
			why = "keyToManaged queues only when the account has an encrypted private key (`if " + c + "`)"
		default:
			die("keyToManaged: condition %q guarding the append to deriveOnUnlock is not understood", c)
		}
		res = &v
	}
	if res == nil {
		die("keyToManaged: no `if ... { %s.deriveOnUnlock = append(..) }` found", r)
	}
	return *res, why
}

// ---- F7 -------------------------------------------------------------------

func changeRejectsEmpty(m method) (bool, string) {
	r := m.recvName
	var names []string
	for _, p := range m.decl.Type.Params.List {
		for _, n := range p.Names {
			names = append(names, n.Name)
		}
	}
	if len(names) != 5 {
		die("ChangePassphrase: expected 5 parameters, found %d", len(names))
	}
	newPass, private := names[2], names[3]
	derive := -1
	for i, st := range m.decl.Body.List {
		if mentionsCallName(st, "DeriveKey") {
			derive = i
			break
		}
	}
	if derive < 0 {
		die("ChangePassphrase: no DeriveKey call at statement level; unknown shape")
	}
	watchSeen, found := false, false
	for _, st := range m.decl.Body.List[:derive] {
		is, ok := st.(*ast.IfStmt)
		if !ok {
			continue
		}
		c := str(is.Cond)
		switch c {
		case private + " && " + r + ".WatchOnly()":
			if !returnsError(is.Body) {
				die("ChangePassphrase: the watching-only guard does not return an error")
			}
			watchSeen = true
		case private + " && len(" + newPass + ") == 0":
			if !returnsError(is.Body) || is.Else != nil {
				die("ChangePassphrase: `if %s` does not end in `return <error>`", c)
			}
			if !watchSeen {
				die("ChangePassphrase: the empty-passphrase guard precedes the watching-only guard; the model orders them the other way")
			}
			found = true
		default:
			if strings.Contains(c, "len("+newPass+")") {
				die("ChangePassphrase: guard `if %s` on the new passphrase is not understood", c)
			}
		}
	}
	if !watchSeen {
		die("ChangePassphrase: guard `if %s && %s.WatchOnly()` not found before DeriveKey", private, r)
	}
	if found {
		return true, "ChangePassphrase returns an error when " + private + " && len(" + newPass + ") == 0"
	}
	return false, "ChangePassphrase accepts an empty new private passphrase (Create does not)"
}

// ---- F8 -------------------------------------------------------------------

func privKeyChecksFirst(priv, unlock method) (bool, string) {
	r := priv.recvName
	wo := r + ".manager.rootManager.WatchOnly()"
	lk := r + ".manager.rootManager.IsLocked()"
	call := -1
	for i, st := range priv.decl.Body.List {
		if containsCall(st, r+".unlock") {
			call = i
			break
		}
	}
	if call < 0 {
		die("managedAddress.PrivKey: no call of %s.unlock at statement level; unknown shape", r)
	}
	woSeen, lkSeen := false, false
	for _, st := range priv.decl.Body.List[:call] {
		is, ok := st.(*ast.IfStmt)
		if !ok {
			if mentionsCallName(st, "IsLocked") || mentionsCallName(st, "WatchOnly") {
				die("managedAddress.PrivKey: a statement of type %T before unlock() mentions IsLocked/WatchOnly; unknown shape", st)
			}
			continue
		}
		switch str(is.Cond) {
		case wo:
			if !returnsError(is.Body) {
				die("managedAddress.PrivKey: the watching-only guard does not return an error")
			}
			woSeen = true
		case lk:
			if !returnsError(is.Body) {
				die("managedAddress.PrivKey: the locked guard does not return an error")
			}
			// (either order of the two guards: a watching-only manager is
			// always locked, and the property allows either error there)
			lkSeen = true
		default:
			if mentionsCallName(is, "IsLocked") || mentionsCallName(is, "WatchOnly") {
				die("managedAddress.PrivKey: guard `if %s` is not understood", str(is.Cond))
			}
		}
	}
	if !woSeen {
		die("managedAddress.PrivKey: guard `if %s` not found before unlock(); the model does not apply", wo)
	}
	// unlock(): where are the tests relative to `if len(a.privKeyCT) == 0 { decrypt }`
	u := unlock.recvName
	ctCond := "len(" + u + ".privKeyCT) == 0"
	encCond := "len(" + u + ".privKeyEncrypted) == 0"
	ulk := u + ".manager.rootManager.IsLocked()"
	var ctIf *ast.IfStmt
	encTop, ctIdx := -1, -1
	for i, st := range unlock.decl.Body.List {
		is, ok := st.(*ast.IfStmt)
		if !ok {
			continue
		}
		switch str(is.Cond) {
		case ctCond:
			ctIf, ctIdx = is, i
		case encCond:
			if !returnsError(is.Body) {
				die("managedAddress.unlock: `if %s` does not return an error", encCond)
			}
			encTop = i
		default:
			if mentionsCallName(is, "IsLocked") || mentions(is, "privKeyEncrypted") {
				die("managedAddress.unlock: guard `if %s` is not understood", str(is.Cond))
			}
		}
	}
	if ctIf == nil {
		die("managedAddress.unlock: `if %s { decrypt }` not found; unknown shape", ctCond)
	}
	var inner []string
	for _, st := range ctIf.Body.List {
		if is, ok := st.(*ast.IfStmt); ok {
			c := str(is.Cond)
			if c == ulk || c == encCond {
				if !returnsError(is.Body) {
					die("managedAddress.unlock: inner guard `if %s` does not return an error", c)
				}
				inner = append(inner, c)
			} else if mentionsCallName(is, "IsLocked") || mentionsCallName(is, "WatchOnly") {
				die("managedAddress.unlock: inner guard `if %s` is not understood", c)
			}
		}
	}
	switch {
	case lkSeen && encTop >= 0 && encTop < ctIdx && len(inner) == 0:
		return true, "PrivKey returns ErrLocked before unlock(); unlock() tests privKeyEncrypted before the cached clear text"
	case !lkSeen && encTop < 0 && len(inner) == 2 && inner[0] == ulk && inner[1] == encCond:
		return false, "PrivKey has no lock test; unlock() tests IsLocked and privKeyEncrypted only inside `if " + ctCond + "` (a cached clear text is returned without any test)"
	}
	die("managedAddress.PrivKey/unlock: lock test in PrivKey=%v, privKeyEncrypted test at top of unlock=%v, tests inside the decrypt branch=%v: the model has no such case", lkSeen, encTop >= 0, inner)
	return false, ""
}

// ---- F9 -------------------------------------------------------------------

// deferredLockOnError recognises, syntactically, the equivalent of calling
// <recv>.lock() by hand in front of every error return:
//
//	func (m *Manager) Unlock(..) (err error) {        // ONE named result of type error
//		...
//		defer func() {                               // a top-level statement
//			if err != nil {                          // exactly this statement
//				m.lock()                             // exactly this call
//			}
//		}()
//
// A `return X` assigns X to the named result before deferred functions run
// (also where a local err shadows it), so every return of a non-nil error that
// comes after the defer statement locks the manager.  Returns the index of the
// defer statement among the top-level statements, or -1.
func deferredLockOnError(m method) int {
	res := m.decl.Type.Results
	if res == nil || len(res.List) != 1 || len(res.List[0].Names) != 1 || str(res.List[0].Type) != "error" {
		return -1
	}
	name := res.List[0].Names[0].Name
	for i, st := range m.decl.Body.List {
		d, ok := st.(*ast.DeferStmt)
		if !ok || len(d.Call.Args) != 0 {
			continue
		}
		fl, ok := d.Call.Fun.(*ast.FuncLit)
		if !ok || (fl.Type.Params != nil && len(fl.Type.Params.List) != 0) || (fl.Type.Results != nil && len(fl.Type.Results.List) != 0) {
			continue
		}
		if len(fl.Body.List) != 1 {
			continue
		}
		is, ok := fl.Body.List[0].(*ast.IfStmt)
		if !ok || is.Init != nil || is.Else != nil || str(is.Cond) != name+" != nil" || len(is.Body.List) != 1 {
			continue
		}
		es, ok := is.Body.List[0].(*ast.ExprStmt)
		if !ok {
			continue
		}
		c, ok := es.X.(*ast.CallExpr)
		if !ok || str(c.Fun) != m.recvName+".lock" || len(c.Args) != 0 {
			continue
		}
		// nothing between the defer and the end of the function may call
		// recover() or re-assign the result outside a return (a bare
		// `return` would hand back whatever the named result holds)
		bad := false
		for _, later := range m.decl.Body.List[i+1:] {
			ast.Inspect(later, func(n ast.Node) bool {
				switch x := n.(type) {
				case *ast.ReturnStmt:
					if len(x.Results) == 0 {
						bad = true
					}
				case *ast.CallExpr:
					if str(x.Fun) == "recover" {
						bad = true
					}
				case *ast.FuncLit:
					return false
				}
				return !bad
			})
		}
		if bad {
			die("%s: a deferred `if %s != nil { %s.lock() }` is followed by a bare return or recover(); cannot establish that every failure locks", m.decl.Name.Name, name, m.recvName)
		}
		return i
	}
	return -1
}

func unlockLoadsQueued(m method) (bool, string) {
	r := m.recvName
	var res *bool
	why := ""
	// index of the deferred lock-on-error (if any) and of each top-level statement
	deferIdx := deferredLockOnError(m)
	topIndex := func(n ast.Node) int {
		for i, st := range m.decl.Body.List {
			if st.Pos() <= n.Pos() && n.End() <= st.End() {
				return i
			}
		}
		return -1
	}
	ast.Inspect(m.decl.Body, func(n ast.Node) bool {
		outer, ok := n.(*ast.RangeStmt)
		if !ok || str(outer.X) != r+".scopedManagers" || outer.Value == nil {
			return true
		}
		x := str(outer.Value)
		// position of the loop that decrypts the account keys
		acct := -1
		for i, st := range outer.Body.List {
			if rs, ok := st.(*ast.RangeStmt); ok && str(rs.X) == x+".acctInfo" && containsCall(rs, r+".cryptoKeyPriv.Decrypt") {
				acct = i
				break
			}
		}
		if acct < 0 {
			return true
		}
		if res != nil {
			die("Unlock: more than one loop over the scoped managers decrypts account keys")
		}
		pre := false
		for _, st := range outer.Body.List[:acct] {
			rs, ok := st.(*ast.RangeStmt)
			if !ok {
				if containsCall(st, x+".loadAccountInfo") {
					die("Unlock: loadAccountInfo is called before the account loop outside a `for .. range %s.deriveOnUnlock`; unknown shape", x)
				}
				continue
			}
			if str(rs.X) != x+".deriveOnUnlock" || rs.Value == nil {
				if containsCall(rs, x+".loadAccountInfo") {
					die("Unlock: a loop before the account loop calls loadAccountInfo but does not range over %s.deriveOnUnlock", x)
				}
				continue
			}
			v := str(rs.Value)
			okCall := false
			ast.Inspect(rs.Body, func(y ast.Node) bool {
				if c, ok := y.(*ast.CallExpr); ok && str(c.Fun) == x+".loadAccountInfo" && len(c.Args) == 2 &&
					str(c.Args[1]) == v+".managedAddr.InternalAccount()" {
					okCall = true
				}
				return !okCall
			})
			if !okCall {
				die("Unlock: the loop over %s.deriveOnUnlock before the account loop does not call %s.loadAccountInfo(ns, %s.managedAddr.InternalAccount())", x, x, v)
			}
			// on error: m.lock(); return err - by hand, or through a deferred
			// `if err != nil { m.lock() }` on the named result registered before this loop
			guard := false
			covered := deferIdx >= 0 && deferIdx < topIndex(outer)
			for _, b := range rs.Body.List {
				if is, ok := b.(*ast.IfStmt); ok && str(is.Cond) == "err != nil" && is.Else == nil && returnsError(is.Body) &&
					(containsCall(is.Body, r+".lock") || covered) {
					guard = true
				}
			}
			if !guard {
				die("Unlock: the preload loop does not `if err != nil { %s.lock(); return err }` (and no deferred `if err != nil { %s.lock() }` on a named error result precedes it)", r, r)
			}
			pre = true
		}
		res = &pre
		if pre {
			why = "Unlock calls " + x + ".loadAccountInfo for every " + x + ".deriveOnUnlock entry before it decrypts the account keys"
		} else {
			why = "Unlock decrypts the keys of the CACHED accounts only; an account dropped by InvalidateAccountCache is reloaded inside the derive-on-unlock loop while the manager is still locked"
		}
		return true
	})
	if res == nil {
		die("Unlock: `for _, manager := range %s.scopedManagers { .. for .. range manager.acctInfo { .. Decrypt .. } .. }` not found", r)
	}
	return *res, why
}

// ---- zeroing facts ----------------------------------------------------------

// zeroThenNil: in the statement list, `zeroCall` (rendered callee, with the
// given single argument rendering, "" = no argument) occurs - directly or
// inside `if <target> != nil { .. }` - in front of `<target> = nil`.
// (true, why) / (false, why) when the nil assignment is there without the
// zeroing call; dies otherwise.
func zeroThenNil(where string, list []ast.Stmt, target, zeroFun, zeroArg string) (bool, string) {
	zeroAt, nilAt := -1, -1
	isZero := func(n ast.Node) bool {
		found := false
		ast.Inspect(n, func(x ast.Node) bool {
			if c, ok := x.(*ast.CallExpr); ok && str(c.Fun) == zeroFun {
				if (zeroArg == "" && len(c.Args) == 0) || (len(c.Args) == 1 && str(c.Args[0]) == zeroArg) {
					found = true
				}
			}
			return !found
		})
		return found
	}
	for i, st := range list {
		switch s := st.(type) {
		case *ast.ExprStmt:
			if isZero(s) && zeroAt < 0 {
				zeroAt = i
			}
		case *ast.IfStmt:
			if str(s.Cond) == target+" != nil" && s.Else == nil && s.Init == nil && isZero(s.Body) && zeroAt < 0 {
				zeroAt = i
			}
		case *ast.AssignStmt:
			if len(s.Lhs) == 1 && len(s.Rhs) == 1 && str(s.Lhs[0]) == target && str(s.Rhs[0]) == "nil" && nilAt < 0 {
				nilAt = i
			}
		}
	}
	call := zeroFun + "(" + zeroArg + ")"
	switch {
	case nilAt >= 0 && zeroAt >= 0 && zeroAt < nilAt:
		return true, where + " calls " + call + " before " + target + " = nil"
	case nilAt >= 0 && zeroAt < 0:
		return false, where + " sets " + target + " = nil without " + call + ": the bytes stay in memory"
	}
	die("%s: %s / %s = nil not found in the expected order (zero at %d, nil at %d); unknown shape", where, call, target, zeroAt, nilAt)
	return false, ""
}

func lockZeroesAcct(m method) (bool, string) {
	r := m.recvName
	var res *bool
	why := ""
	for _, st := range m.decl.Body.List {
		outer, ok := st.(*ast.RangeStmt)
		if !ok || str(outer.X) != r+".scopedManagers" || outer.Value == nil {
			continue
		}
		x := str(outer.Value)
		for _, in := range outer.Body.List {
			inner, ok := in.(*ast.RangeStmt)
			if !ok || str(inner.X) != x+".acctInfo" || inner.Value == nil {
				continue
			}
			v := str(inner.Value)
			if !mentions(inner.Body, "acctKeyPriv") {
				continue
			}
			if res != nil {
				die("lock(): more than one loop over %s.acctInfo touches acctKeyPriv", x)
			}
			b, w := zeroThenNil("lock()", inner.Body.List, v+".acctKeyPriv", v+".acctKeyPriv.Zero", "")
			res, why = &b, w
		}
	}
	if res == nil {
		die("lock(): no `for _, acctInfo := range x.acctInfo` inside a top-level loop over %s.scopedManagers touches acctKeyPriv", r)
	}
	return *res, why
}

func addrLockZeroes(m method, field string) (bool, string) {
	r := m.recvName
	// the statements may sit between Lock()/Unlock() of the object's mutex
	return zeroThenNil("(*"+m.recvType+").lock", m.decl.Body.List, r+"."+field, "zero.Bytes", r+"."+field)
}

func lockZeroesMgr(m method) (bool, string) {
	r := m.recvName
	want := map[string]bool{
		r + ".cryptoKeyScript.Zero()":                   false,
		r + ".cryptoKeyPriv.Zero()":                     false,
		r + ".masterKeyPriv.Zero()":                     false,
		"zero.Bytea64(&" + r + ".hashedPrivPassphrase)": false,
	}
	for _, st := range m.decl.Body.List {
		if es, ok := st.(*ast.ExprStmt); ok {
			if _, ok := want[str(es.X)]; ok {
				want[str(es.X)] = true
			}
		}
	}
	n := 0
	var missing []string
	for k, v := range want {
		if v {
			n++
		} else {
			missing = append(missing, k)
		}
	}
	sort.Strings(missing)
	switch n {
	case 4:
		return true, "lock() calls cryptoKeyScript.Zero(), cryptoKeyPriv.Zero(), masterKeyPriv.Zero() and zero.Bytea64(&hashedPrivPassphrase)"
	case 0:
		return false, "lock() zeroes none of the crypto keys, the master key and the hashed passphrase"
	}
	die("lock(): not all of the four in-place wipes are top-level statements (missing: %s); the model has one fact for the four", strings.Join(missing, ", "))
	return false, ""
}

// ---- eviction facts (negative only) -----------------------------------------

// wipeLike: the node contains a call that could wipe a buffer.
func wipeLike(n ast.Node) bool {
	found := false
	ast.Inspect(n, func(x ast.Node) bool {
		c, ok := x.(*ast.CallExpr)
		if !ok {
			return true
		}
		name := ""
		switch f := c.Fun.(type) {
		case *ast.SelectorExpr:
			name = f.Sel.Name
			if id, ok := f.X.(*ast.Ident); ok && id.Name == "zero" {
				found = true
			}
		case *ast.Ident:
			name = f.Name
		}
		l := strings.ToLower(name)
		if name == "lock" || name == "Zero" || strings.Contains(l, "wipe") || strings.Contains(l, "zero") || strings.Contains(l, "clear") || strings.Contains(l, "scrub") {
			found = true
		}
		return !found
	})
	return found
}

// wipeLikeAddr: the node contains a call that could wipe an ADDRESS OBJECT
// (a managedAddress has no Zero(): key.Zero() on a derived extended key is
// something else): a call of a method named lock, a call whose name says wipe /
// clear / scrub, zero.Bytes(..), or any call that is handed one of the last
// address fields.
func wipeLikeAddr(n ast.Node) bool {
	found := false
	ast.Inspect(n, func(x ast.Node) bool {
		c, ok := x.(*ast.CallExpr)
		if !ok {
			return true
		}
		name := ""
		switch f := c.Fun.(type) {
		case *ast.SelectorExpr:
			name = f.Sel.Name
			if id, ok := f.X.(*ast.Ident); ok && id.Name == "zero" {
				found = true
			}
		case *ast.Ident:
			name = f.Name
		}
		l := strings.ToLower(name)
		if name == "lock" || strings.Contains(l, "wipe") || strings.Contains(l, "clear") || strings.Contains(l, "scrub") {
			found = true
		}
		for _, a := range c.Args {
			if mentions(a, "lastExternalAddr") || mentions(a, "lastInternalAddr") {
				found = true
			}
		}
		return !found
	})
	return found
}

func dropWithoutWipe(m method, what, deleted string) (bool, string) {
	r := m.recvName
	del := false
	ast.Inspect(m.decl.Body, func(x ast.Node) bool {
		if c, ok := x.(*ast.CallExpr); ok && str(c.Fun) == "delete" && len(c.Args) == 2 && str(c.Args[0]) == r+"."+deleted {
			del = true
		}
		return true
	})
	if !del {
		die("%s: no delete(%s.%s, ..); unknown shape", what, r, deleted)
	}
	if wipeLike(m.decl.Body) {
		die("%s: contains a call that may wipe the dropped object; whether it does is decided by running the code", what)
	}
	return false, what + " deletes from " + r + "." + deleted + " and calls nothing that could wipe the dropped object"
}

// every assignment to X.lastExternalAddr / X.lastInternalAddr (other than in a
// composite literal, i.e. a fresh accountInfo): the innermost function around it
func lastAddrReplaced(files []*ast.File) (bool, string) {
	found := 0
	var walk func(n ast.Node, fn ast.Node)
	walk = func(n ast.Node, fn ast.Node) {
		ast.Inspect(n, func(x ast.Node) bool {
			switch y := x.(type) {
			case *ast.FuncLit:
				if ast.Node(y) != n {
					walk(y.Body, y.Body)
					return false
				}
			case *ast.AssignStmt:
				for i, l := range y.Lhs {
					sel, ok := l.(*ast.SelectorExpr)
					if !ok || (sel.Sel.Name != "lastExternalAddr" && sel.Sel.Name != "lastInternalAddr") {
						continue
					}
					if i < len(y.Rhs) && str(y.Rhs[i]) == "nil" {
						continue
					}
					found++
					if wipeLikeAddr(fn) {
						die("the function that assigns %s contains a call that may wipe the replaced object; whether it does is decided by running the code", str(l))
					}
				}
			}
			return true
		})
	}
	for _, f := range files {
		for _, d := range f.Decls {
			if fd, ok := d.(*ast.FuncDecl); ok && fd.Body != nil {
				if fd.Name.Name == "loadAccountInfo" {
					continue // fills in a FRESH accountInfo: nothing is replaced
				}
				// a FuncDecl's own statements (outside function literals) are checked against the whole body
				walk(fd.Body, fd.Body)
			}
		}
	}
	if found == 0 {
		die("no assignment to lastExternalAddr / lastInternalAddr found; unknown shape")
	}
	return false, fmt.Sprintf("%d assignments replace accountInfo.last{External,Internal}Addr; nothing near them could wipe the replaced object", found)
}

func unlockStoresClearText(m method) (bool, string) {
	stores := false
	ast.Inspect(m.decl.Body, func(x ast.Node) bool {
		as, ok := x.(*ast.AssignStmt)
		if !ok {
			return true
		}
		for i, l := range as.Lhs {
			if sel, ok := l.(*ast.SelectorExpr); ok && sel.Sel.Name == "privKeyCT" && i < len(as.Rhs) && str(as.Rhs[i]) != "nil" {
				stores = true
			}
		}
		return true
	})
	if !stores {
		die("Unlock: no assignment to .privKeyCT; whether the queued objects it drops hold clear text is decided by running the code")
	}
	return false, "Unlock stores the clear-text key (`.privKeyCT = ..`) in every queued object and then empties the queue"
}

func lruEvictionZeroes(m method) (bool, string) {
	r := m.recvName
	put := r + ".privKeyCache.Put"
	found := false
	ignored := false
	ast.Inspect(m.decl.Body, func(x ast.Node) bool {
		as, ok := x.(*ast.AssignStmt)
		if !ok || len(as.Rhs) != 1 {
			return true
		}
		c, ok := as.Rhs[0].(*ast.CallExpr)
		if !ok || str(c.Fun) != put {
			return true
		}
		found = true
		if len(as.Lhs) == 2 && str(as.Lhs[0]) == "_" {
			ignored = true
		}
		return true
	})
	if !found || !ignored {
		die("DeriveFromKeyPathCache: `_, err = %s(..)` not found; whether an evicted key is zeroed is decided by running the code", put)
	}
	return false, "DeriveFromKeyPathCache ignores whether " + put + " evicted an entry (the LRU has no eviction hook): the evicted key is not zeroed"
}

func cacheSize(files []*ast.File) int {
	val := -1
	for _, f := range files {
		ast.Inspect(f, func(x ast.Node) bool {
			vs, ok := x.(*ast.ValueSpec)
			if !ok {
				return true
			}
			for i, nm := range vs.Names {
				if nm.Name == "defaultPrivKeyCacheSize" && i < len(vs.Values) {
					if bl, ok := vs.Values[i].(*ast.BasicLit); ok && bl.Kind == token.INT {
						var v int
						if _, err := fmt.Sscanf(strings.ReplaceAll(bl.Value, "_", ""), "%d", &v); err == nil {
							val = v
						}
					}
				}
			}
			return true
		})
	}
	if val <= 0 {
		die("constant defaultPrivKeyCacheSize (integer literal) not found")
	}
	// every cache is created with that capacity
	n := 0
	for _, f := range files {
		ast.Inspect(f, func(x ast.Node) bool {
			c, ok := x.(*ast.CallExpr)
			if !ok || !strings.HasPrefix(str(c.Fun), "lru.NewCache[") {
				return true
			}
			n++
			if len(c.Args) != 1 || str(c.Args[0]) != "defaultPrivKeyCacheSize" {
				die("lru.NewCache is called with capacity %v, not defaultPrivKeyCacheSize", c.Args)
			}
			return true
		})
	}
	if n == 0 {
		die("no lru.NewCache call found")
	}
	return val
}

var allFiles []*ast.File

func main() {
	if len(os.Args) != 2 {
		die("usage: extract-c05 <repo>")
	}
	ms := parseMethods(filepath.Join(os.Args[1], "waddrmgr"))
	res := result{Why: map[string]string{}}

	res.CacheChecked, res.Why["cache_checked_for_lock"] = cacheChecked(one(ms, "DeriveFromKeyPathCache", "ScopedKeyManager"))
	var w1, w2, w3 string
	res.LockPurges, w1, res.LockWipesW, w2, res.LockCaseTypes, res.LockWipesLast, w3 = lockFacts(ms, one(ms, "lock", "Manager"))
	res.Why["lock_purges_key_cache"] = w1
	res.Why["lock_wipes_witness_scripts"] = w2
	res.Why["lock_wipes_last_addrs"] = w3
	res.UnlockSkips, res.Why["unlock_skips_keyless_accounts"] = unlockSkips(one(ms, "Unlock", "Manager"))
	res.KeylessNotQ, res.Why["keyless_addresses_not_queued"] = keylessNotQueued(one(ms, "keyToManaged", "ScopedKeyManager"))
	res.RejectsEmpty, res.Why["change_rejects_empty_private"] = changeRejectsEmpty(one(ms, "ChangePassphrase", "Manager"))
	res.PrivKeyFirst, res.Why["privkey_checks_lock_first"] = privKeyChecksFirst(one(ms, "PrivKey", "managedAddress"), one(ms, "unlock", "managedAddress"))
	res.UnlockLoads, res.Why["unlock_loads_queued_accounts"] = unlockLoadsQueued(one(ms, "Unlock", "Manager"))

	res.ZAcct, res.Why["lock_zeroes_account_keys"] = lockZeroesAcct(one(ms, "lock", "Manager"))
	res.ZKey, res.Why["address_lock_zeroes_key"] = addrLockZeroes(one(ms, "lock", "managedAddress"), "privKeyCT")
	res.ZScript, res.Why["address_lock_zeroes_script"] = addrLockZeroes(one(ms, "lock", "baseScriptAddress"), "scriptClearText")
	res.ZCache = res.LockPurges && cacheZeroed
	if res.ZCache {
		res.Why["lock_zeroes_cached_keys"] = "the purge callback calls <value>.key.Zero() before it deletes the entry"
	} else if res.LockPurges {
		res.Why["lock_zeroes_cached_keys"] = "the purge deletes the entries without zeroing the keys"
	} else {
		res.Why["lock_zeroes_cached_keys"] = "lock() does not purge the cache at all"
	}
	res.ZMgr, res.Why["lock_zeroes_manager_keys"] = lockZeroesMgr(one(ms, "lock", "Manager"))
	res.CacheSize = cacheSize(allFiles)
	res.Why["priv_key_cache_size"] = "defaultPrivKeyCacheSize; every lru.NewCache call uses it"
	res.EMarkUsed, res.Why["markused_wipes_evicted"] = dropWithoutWipe(one(ms, "MarkUsed", "ScopedKeyManager"), "MarkUsed", "addrs")
	res.EInvalidate, res.Why["invalidate_wipes_evicted"] = dropWithoutWipe(one(ms, "InvalidateAccountCache", "ScopedKeyManager"), "InvalidateAccountCache", "acctInfo")
	res.ENext, res.Why["next_wipes_replaced_last"] = lastAddrReplaced(allFiles)
	res.EUnlock, res.Why["unlock_leaves_no_cleartext_in_dropped"] = unlockStoresClearText(one(ms, "Unlock", "Manager"))
	res.ELru, res.Why["lru_eviction_zeroes"] = lruEvictionZeroes(one(ms, "DeriveFromKeyPathCache", "ScopedKeyManager"))

	b, err := json.MarshalIndent(res, "", " ")
	if err != nil {
		die("%v", err)
	}
	fmt.Println(string(b))
}
