package main

import (
	"fmt"
	"os"
	"path/filepath"
	"time"

	"github.com/btcsuite/btcd/btcutil/hdkeychain"
	"github.com/btcsuite/btcd/chaincfg"
	"github.com/btcsuite/btcwallet/waddrmgr"
	"github.com/btcsuite/btcwallet/walletdb"
	_ "github.com/btcsuite/btcwallet/walletdb/bdb"
)

var (
	pub  = []byte("pub")
	priv = []byte("priv")
	nsK  = []byte("waddrmgr")
)

func must(err error) {
	if err != nil {
		panic(err)
	}
}

func upd(db walletdb.DB, f func(ns walletdb.ReadWriteBucket) error) (err error) {
	defer func() {
		if r := recover(); r != nil {
			err = fmt.Errorf("PANIC: %v", r)
		}
	}()
	return walletdb.Update(db, func(tx walletdb.ReadWriteTx) error {
		return f(tx.ReadWriteBucket(nsK))
	})
}

func main() {
	dir, _ := os.MkdirTemp("", "c03s")
	defer os.RemoveAll(dir)
	db, err := walletdb.Create("bdb", filepath.Join(dir, "w.db"), true, time.Minute, false)
	must(err)
	seed := make([]byte, 32)
	seed[0] = 7
	root, err := hdkeychain.NewMaster(seed, &chaincfg.MainNetParams)
	must(err)
	var mgr *waddrmgr.Manager
	must(walletdb.Update(db, func(tx walletdb.ReadWriteTx) error {
		ns, err := tx.CreateTopLevelBucket(nsK)
		if err != nil {
			return err
		}
		if err := waddrmgr.Create(ns, root, pub, priv, &chaincfg.MainNetParams, &waddrmgr.FastScryptOptions, time.Time{}); err != nil {
			return err
		}
		mgr, err = waddrmgr.Open(ns, pub, &chaincfg.MainNetParams)
		return err
	}))
	sm, err := mgr.FetchScopedKeyManager(waddrmgr.KeyScopeBIP0084)
	must(err)

	// an xpub from a different seed: m/84'/0'/5'
	seed2 := make([]byte, 32)
	seed2[0] = 9
	root2, _ := hdkeychain.NewMaster(seed2, &chaincfg.MainNetParams)
	k, _ := root2.DeriveNonStandard(84 + hdkeychain.HardenedKeyStart)
	k, _ = k.DeriveNonStandard(hdkeychain.HardenedKeyStart)
	k, _ = k.DeriveNonStandard(5 + hdkeychain.HardenedKeyStart)
	xpub, _ := k.Neuter()

	fmt.Println("unlock:", upd(db, func(ns walletdb.ReadWriteBucket) error { return mgr.Unlock(ns, priv) }))
	var acct uint32
	fmt.Println("import xpub:", upd(db, func(ns walletdb.ReadWriteBucket) error {
		var err error
		acct, err = sm.NewAccountWatchingOnly(ns, "imp", xpub, 0xdeadbeef, nil)
		return err
	}), acct)

	// S3 default account
	fmt.Println("extend ext acct0 to 2 (unlocked):", upd(db, func(ns walletdb.ReadWriteBucket) error {
		return sm.ExtendExternalAddresses(ns, 0, 2)
	}))
	fmt.Println("next ext acct0 (unlocked):", upd(db, func(ns walletdb.ReadWriteBucket) error {
		as, err := sm.NextExternalAddresses(ns, 0, 1)
		if err != nil {
			return err
		}
		pk := as[0].(waddrmgr.ManagedPubKeyAddress)
		_, perr := pk.PrivKey()
		_, dp, _ := pk.DerivationInfo()
		fmt.Println("  next addr", as[0].Address(), dp, "priv err:", perr)
		// look up idx 0 via props
		return nil
	}))
	// find address index 0 via ForEachAccountAddress
	fmt.Println("scan:", upd(db, func(ns walletdb.ReadWriteBucket) error {
		var l []waddrmgr.ManagedAddress
		err := sm.ForEachAccountAddress(ns, 0, func(ma waddrmgr.ManagedAddress) error {
			l = append(l, ma)
			return nil
		})
		for _, ma := range l {
			pk := ma.(waddrmgr.ManagedPubKeyAddress)
			_, perr := pk.PrivKey()
			_, dp, _ := pk.DerivationInfo()
			fmt.Println("  addr", ma.Address(), dp, "priv err:", perr)
		}
		return err
	}))

	// imported account: next, then lock/unlock
	fmt.Println("next ext imported (unlocked):", upd(db, func(ns walletdb.ReadWriteBucket) error {
		as, err := sm.NextExternalAddresses(ns, acct, 1)
		if err != nil {
			return err
		}
		pk := as[0].(waddrmgr.ManagedPubKeyAddress)
		_, perr := pk.PrivKey()
		_, dp, _ := pk.DerivationInfo()
		fmt.Println("  next addr", as[0].Address(), dp, "priv err:", perr)
		return nil
	}))
	fmt.Println("extend ext imported to 3 (unlocked):", upd(db, func(ns walletdb.ReadWriteBucket) error {
		return sm.ExtendExternalAddresses(ns, acct, 3)
	}))
	fmt.Println("lock:", mgr.Lock())
	fmt.Println("extend ext imported to 3 (locked):", upd(db, func(ns walletdb.ReadWriteBucket) error {
		return sm.ExtendExternalAddresses(ns, acct, 3)
	}))
	fmt.Println("scan imported:", upd(db, func(ns walletdb.ReadWriteBucket) error {
		return sm.ForEachAccountAddress(ns, acct, func(ma waddrmgr.ManagedAddress) error {
			pk := ma.(waddrmgr.ManagedPubKeyAddress)
			_, dp, _ := pk.DerivationInfo()
			fmt.Println("  addr", ma.Address(), dp)
			return nil
		})
	}))
	fmt.Println("unlock again:", upd(db, func(ns walletdb.ReadWriteBucket) error { return mgr.Unlock(ns, priv) }))
	fmt.Println("locked now?", mgr.IsLocked())
	sm.InvalidateAccountCache(acct)
	fmt.Println("unlock after invalidate:", upd(db, func(ns walletdb.ReadWriteBucket) error { return mgr.Unlock(ns, priv) }))
	fmt.Println("locked now?", mgr.IsLocked())
}
