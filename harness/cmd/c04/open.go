package main

// Decrypt-and-classify: the harness holds every passphrase, so it can open
// every sealed value of the database.  After every commit (and after every
// failed call) every sealed blob found in the rows that changed - the fields
// the known layouts of waddrmgr name, plus anything that opens at a
// length-prefixed position or as a whole value in ANY bucket of ANY
// namespace - is opened with every key the harness can derive itself:
//
//	public chain   public passphrase -> master public key (parameters in
//	               main/mpub) -> crypto public key (main/cpub); and the
//	               all-zero key (no passphrase at all)
//	private chain  private passphrase -> master private key (main/mpriv) ->
//	               crypto private key (main/cpriv), stored script key
//	               (main/cscript); remembered after a conversion
//
// and the PLAINTEXT is classified by content against the needles (seed,
// extended private keys, private keys, secret scripts, passphrases, key
// material; extended public keys, public keys, address ids, public scripts).
// The property then reads directly on the observations:
//
//	A. no secret plaintext opens with a key of the public chain (any mode);
//	B. on a watching-only database no live row holds a blob that opens with a
//	   (remembered) key of the private chain to a secret plaintext.
//
// The facts (slot of the row, sealing key, plaintext class) are what the Coq
// model is compared with (Addr/TaintCorr.v).

import (
	"bytes"
	"encoding/base64"
	"encoding/binary"
	"fmt"
	"os"
	"sort"
	"strings"

	"github.com/btcsuite/btcwallet/snacl"
)

type c04Fact struct {
	Slot    string `json:"s"`           // mhdpriv ... scrscript_secret | extra:<path>
	Tag     int    `json:"t,omitempty"` // row type tag (account rows 0/1, address rows 1..4)
	Key     string `json:"k"`           // label of the key that opens the field (none: no key does)
	Content string `json:"c"`           // plaintext class by content
	PLen    int    `json:"n,omitempty"` // plaintext length (evidence only)
}

// ---- plaintext classes

// rank: lower = reported first when a plaintext holds several needles
var contentRank = []string{
	"passphrase", "seed", "master_xprv", "cointype_xprv", "account_xprv", "foreign_xprv", "privkey", "xprv_key",
	"crypto_key_priv", "crypto_key_script", "master_key_priv", "master_key_pub", "secret_script",
	"master_xpub", "cointype_xpub", "account_xpub", "imported_xpub", "public_script", "pubkey", "addr_id",
	"crypto_key_pub", "chaincode", "script_internal_key",
}

var secretContent = map[string]bool{
	"passphrase": true, "seed": true, "master_xprv": true, "cointype_xprv": true, "account_xprv": true,
	"foreign_xprv": true, "privkey": true, "xprv_key": true, "crypto_key_priv": true, "crypto_key_script": true,
	"master_key_priv": true, "secret_script": true,
}

// contentOfSite maps the category of a needle (its site without the encoding)
// to the plaintext class.
func contentOfSite(site string) string {
	cat := site
	if i := strings.IndexByte(cat, ':'); i >= 0 {
		cat = cat[:i]
	}
	for _, suf := range []string{"_string", "_raw78", "_wif"} {
		cat = strings.TrimSuffix(cat, suf)
	}
	switch {
	case cat == "seed", cat == "passphrase":
		return cat
	case strings.HasSuffix(cat, "_chaincode"):
		return "chaincode"
	case strings.HasSuffix(cat, "_internal_key"):
		return "script_internal_key"
	case strings.HasSuffix(cat, "xprv_key"):
		return "xprv_key"
	case strings.HasSuffix(cat, "xpub_key"):
		return "pubkey"
	case cat == "master_xprv", cat == "cointype_xprv", cat == "account_xprv",
		cat == "master_xpub", cat == "cointype_xpub", cat == "account_xpub", cat == "imported_xpub":
		return cat
	case cat == "foreign_account_xprv":
		return "foreign_xprv"
	case cat == "foreign_account_xpub":
		return "imported_xpub"
	case strings.HasSuffix(cat, "privkey"):
		return "privkey"
	case strings.HasSuffix(cat, "_hash160"), strings.HasSuffix(cat, "_hash160u"), strings.HasSuffix(cat, "_id"):
		return "addr_id"
	case strings.HasSuffix(cat, "pubkey"):
		return "pubkey"
	case cat == "secret_script", cat == "public_script":
		return cat
	case cat == "crypto_key_pub", cat == "crypto_key_priv", cat == "crypto_key_script",
		cat == "master_key_priv", cat == "master_key_pub":
		return cat
	}
	return ""
}

// classify returns the class of a plaintext: the best-ranked class among the
// needles it contains ("unknown": none).
func (r *run) contentClass(pt []byte) string {
	if len(pt) == 0 {
		return "empty"
	}
	found := map[string]bool{}
	for _, h := range r.sc.scan(pt) {
		if c := contentOfSite(h.Site); c != "" {
			found[c] = true
		}
	}
	for _, c := range contentRank {
		if found[c] {
			return c
		}
	}
	return "unknown"
}

// ---- key rings

var pubRing = []string{"cpub", "mpub", "zero"}
var privRing = []string{"cpriv", "mpriv", "cscript"}

func inRing(ring []string, lab string) bool {
	for _, l := range ring {
		if l == lab {
			return true
		}
	}
	return false
}

type opened struct {
	label   string
	pt      []byte
	content string
}

// open tries every key on the blob; the result is remembered per blob, but a
// plaintext that could not be classified yet is classified again (needles are
// registered as the run goes).
func (r *run) openBlob(blob []byte) *opened {
	if len(blob) < 40 {
		return nil
	}
	if o, ok := r.openMemo[string(blob)]; ok {
		if o != nil && (o.content == "unknown" || o.stamp != len(r.sc.needles)) {
			o.content = r.contentClass(o.pt)
			o.stamp = len(r.sc.needles)
		}
		if o == nil {
			return nil
		}
		return &o.opened
	}
	var res *openedMemo
	for _, lab := range sealOrder {
		k := r.sealKeys[lab]
		if k == nil {
			continue
		}
		if pt, err := k.Decrypt(blob); err == nil {
			res = &openedMemo{opened: opened{label: lab, pt: pt, content: r.contentClass(pt)}, stamp: len(r.sc.needles)}
			break
		}
	}
	// a key that was in force earlier (passphrase changes re-seal the crypto keys under new master keys)
	if res == nil {
		for _, ok := range r.oldKeys {
			if pt, err := ok.key.Decrypt(blob); err == nil {
				res = &openedMemo{opened: opened{label: ok.label, pt: pt, content: r.contentClass(pt)}, stamp: len(r.sc.needles)}
				break
			}
		}
	}
	r.openMemo[string(blob)] = res
	if res == nil {
		return nil
	}
	return &res.opened
}

type openedMemo struct {
	opened
	stamp int
}

type oldKey struct {
	label string
	key   *snacl.CryptoKey
}

// ---- discovery of sealed blobs the known layouts do not name

// discover opens v as a whole, at every position that carries a plausible
// 32-bit little-endian length prefix, and - for values of moderate size - as
// every suffix, every prefix, and at every offset with the plaintext lengths
// secrets have (32, 33, 64, 65, 78, 111 bytes).  skip lists the blobs
// already accounted for by the row's known layout.
func (r *run) discover(v []byte, skip map[string]bool) []*opened {
	var out []*opened
	try := func(b []byte) {
		if len(b) < 40 || skip[string(b)] {
			return
		}
		if o := r.openBlob(b); o != nil {
			skip[string(b)] = true
			out = append(out, o)
		}
	}
	if len(v) >= 40 && len(v) <= 4096 {
		try(v)
	}
	for o := 0; o+44 <= len(v); o++ {
		n := int(binary.LittleEndian.Uint32(v[o : o+4]))
		if n >= 40 && n <= 4096 && o+4+n <= len(v) {
			try(v[o+4 : o+4+n])
		}
	}
	if len(v) > 40 && len(v) <= 1024 {
		if key := string(v); !r.discMemo[key] {
			r.discMemo[key] = true
			for o := 1; o+40 <= len(v); o++ {
				try(v[o:])
				try(v[:len(v)-o])
				for _, l := range []int{32, 33, 64, 65, 78, 111} {
					if o+40+l < len(v) {
						try(v[o : o+40+l])
					}
				}
			}
		}
	}
	return out
}

// ---- judging one opened field

func (r *run) judge(f c04Fact, live bool) {
	if !secretContent[f.Content] {
		return
	}
	if inRing(pubRing, f.Key) {
		// A. readable without the private passphrase
		keyName := map[string]string{"cpub": "crypto_public_key", "mpub": "master_public_key", "zero": "all_zero_key"}[f.Key]
		r.viol("secret_readable_without_private_passphrase:"+f.Content, keyName+"@"+f.Slot)
	}
	if live && r.converted && (inRing(privRing, f.Key) || strings.HasPrefix(f.Key, "old_mpriv") || f.Key == "zero") {
		// B. private material still sealed in a live row of a watching-only database
		site := f.Slot
		if f.Tag != 0 {
			site = site + ":row_type_" + itoa(f.Tag)
		}
		r.viol("private_material_in_watching_only_row:"+f.Content, site)
	}
	if f.Content == "passphrase" || f.Content == "seed" {
		r.tag("observation:" + f.Content + "_stored_sealed_under_" + f.Key)
	}
}

func itoa(n int) string {
	if n == 0 {
		return "0"
	}
	neg := n < 0
	if neg {
		n = -n
	}
	var b []byte
	for n > 0 {
		b = append([]byte{byte('0' + n%10)}, b...)
		n /= 10
	}
	if neg {
		b = append([]byte{'-'}, b...)
	}
	return string(b)
}

// ---- base64 needles

// b64Forms returns the base64 renderings of b that are independent of what
// surrounds it: the three alignments, without the characters that also depend
// on neighbouring bytes, in the standard and the URL alphabet.
func b64Forms(b []byte) [][]byte {
	var out [][]byte
	seen := map[string]bool{}
	for s := 0; s < 3; s++ {
		buf := append(make([]byte, s), b...)
		for _, enc := range []*base64.Encoding{base64.RawStdEncoding, base64.RawURLEncoding} {
			e := enc.EncodeToString(buf)
			lead := []int{0, 2, 3}[s]
			if len(buf)%3 != 0 {
				e = e[:len(e)-1]
			}
			if lead >= len(e) {
				continue
			}
			e = e[lead:]
			if len(e) >= 12 && !seen[e] {
				seen[e] = true
				out = append(out, []byte(e))
			}
		}
	}
	return out
}

func (s *scanner) addB64(class, cat string, b []byte) {
	for i, f := range b64Forms(b) {
		s.add(class, cat+":base64/"+itoa(i), f)
	}
}

// ---- facts of one row (known layouts)

type sealedField struct {
	slot string
	tag  int
	blob []byte
}

func le32(b []byte) int { return int(binary.LittleEndian.Uint32(b)) }

// knownFields names the sealed fields of the rows of the address manager's
// namespace by their layout (db.go serialize*).  ok=false: the value does not
// parse (then only discovery applies).
func knownFields(path []string, k, v []byte) (out []sealedField, ok bool) {
	defer func() {
		if recover() != nil {
			out, ok = nil, false
		}
	}()
	last := path[len(path)-1]
	two := func(raw []byte, off int, s1, s2 string, tag int) {
		l1 := le32(raw[off : off+4])
		b1 := raw[off+4 : off+4+l1]
		o2 := off + 4 + l1
		l2 := le32(raw[o2 : o2+4])
		b2 := raw[o2+4 : o2+4+l2]
		if l1 > 0 {
			out = append(out, sealedField{s1, tag, b1})
		}
		if l2 > 0 {
			out = append(out, sealedField{s2, tag, b2})
		}
	}
	switch {
	case len(path) == 1 && last == "main":
		switch string(k) {
		case "cpub", "cpriv", "cscript", "mhdpriv", "mhdpub":
			out = append(out, sealedField{string(k), 0, v})
		}
	case len(path) == 2 && path[0] == "scope":
		if string(k) == "ctpub" || string(k) == "ctpriv" {
			out = append(out, sealedField{string(k), 0, v})
		}
	case len(path) == 3 && last == "acct":
		raw := v[5:]
		switch v[0] {
		case 0:
			two(raw, 0, "acctpub", "acctpriv", 0)
		case 1:
			l1 := le32(raw[0:4])
			if l1 > 0 {
				out = append(out, sealedField{"watchacctpub", 1, raw[4 : 4+l1]})
			}
		default:
			return nil, false
		}
	case len(path) == 3 && last == "addr":
		raw := v[18:]
		switch v[0] {
		case 0:
		case 1:
			two(raw, 0, "imppub", "imppriv", 1)
		case 2:
			two(raw, 0, "scrhash", "scrscript_secret", 2)
		case 3, 4:
			s2 := "scrscript_public"
			if raw[1] == 1 {
				s2 = "scrscript_secret"
			}
			two(raw, 2, "scrhash", s2, int(v[0]))
		default:
			return nil, false
		}
	}
	return out, true
}

// rowFacts opens every sealed blob of one row: the fields the layout names
// and whatever else opens.  known: facts in slots of the model; extra: the rest.
func (r *run) rowFacts(ns string, path []string, k, v []byte) (known, extra []c04Fact) {
	skip := map[string]bool{}
	if ns == string(c04NS) && len(path) > 0 {
		fs, _ := knownFields(path, k, v)
		for _, f := range fs {
			skip[string(f.blob)] = true
			o := r.openBlob(f.blob)
			if o == nil {
				known = append(known, c04Fact{Slot: f.slot, Tag: f.tag, Key: "none", Content: "unopened", PLen: len(f.blob) - 40})
				continue
			}
			if o.content == "unknown" && os.Getenv("C04_DEBUG") != "" {
				fmt.Fprintf(os.Stderr, "unknown plaintext in %s: %q\n", f.slot, o.pt)
			}
			known = append(known, c04Fact{Slot: f.slot, Tag: f.tag, Key: o.label, Content: o.content, PLen: len(o.pt)})
			r.rememberPrivate(f.blob, o, f.slot)
		}
	}
	// whatever else opens: only the stretches of the value that the known
	// fields do not cover can hide another sealed blob (40 bytes at least)
	for _, run := range clearRuns(v, skip) {
		for _, o := range r.discover(run, skip) {
			extra = append(extra, c04Fact{Slot: "extra:" + ns + "/" + strings.Join(path, "/"), Key: o.label, Content: o.content, PLen: len(o.pt)})
		}
	}
	return known, extra
}

// clearRuns cuts the known sealed blobs out of v and returns the remaining
// stretches that are long enough to hold a sealed blob.
func clearRuns(v []byte, blobs map[string]bool) [][]byte {
	type span struct{ a, b int }
	var cut []span
	for b := range blobs {
		if i := bytes.Index(v, []byte(b)); i >= 0 && len(b) > 0 {
			cut = append(cut, span{i, i + len(b)})
		}
	}
	sort.Slice(cut, func(i, j int) bool { return cut[i].a < cut[j].a })
	var out [][]byte
	pos := 0
	for _, c := range cut {
		if c.a-pos >= 40 {
			out = append(out, v[pos:c.a])
		}
		if c.b > pos {
			pos = c.b
		}
	}
	if len(v)-pos >= 40 {
		out = append(out, v[pos:])
	}
	return out
}

// rememberPrivate keeps the ciphertexts that open under the private chain
// (or hold a secret script under the all-zero key) for the residue report.
func (r *run) rememberPrivate(blob []byte, o *opened, slot string) {
	if inRing(privRing, o.label) || (o.label == "zero" && o.content == "secret_script") {
		r.privBlobs[string(blob)] = slot
	}
}

func sortFacts(fs []c04Fact) {
	sort.Slice(fs, func(i, j int) bool {
		a, b := fs[i], fs[j]
		if a.Slot != b.Slot {
			return a.Slot < b.Slot
		}
		if a.Tag != b.Tag {
			return a.Tag < b.Tag
		}
		if a.Key != b.Key {
			return a.Key < b.Key
		}
		return a.Content < b.Content
	})
}

func dedupFacts(fs []c04Fact) []c04Fact {
	sortFacts(fs)
	var out []c04Fact
	for i, f := range fs {
		f.PLen = 0
		if i > 0 {
			p := out[len(out)-1]
			if p == f {
				continue
			}
		}
		out = append(out, f)
	}
	return out
}

var _ = bytes.Equal
