// Command c04 drives the real waddrmgr (and, for the creation and
// watching-only conversion paths, the real wallet package) over a bbolt file
// and, after EVERY committed transaction, scans the whole file image - free
// pages included - for every secret the run has produced so far (raw, hex,
// base58/WIF and xprv/tprv string forms), for the passphrases, and (as no
// transaction is ever recorded in the manager-level runs) for every
// sensitive public item.  The secrets are obtained independently of what the
// manager stores: derived from the seed with hdkeychain (the legacy
// derivation the wallet uses) and, where the manager is unlocked, also asked
// from it.  It also walks the bucket tree and reports the shape of every row
// (which fields exist, how each is protected - the sealing key is found by
// trial decryption with keys the harness derives itself from the passphrases
// and the stored parameters - and plaintext lengths) for the comparison with
// the Coq model (Addr/TaintCorr.v).
package main

import (
	"bytes"
	"crypto/sha256"
	"encoding/binary"
	"encoding/hex"
	"encoding/json"
	"errors"
	"flag"
	"fmt"
	"os"
	"path/filepath"
	"runtime"
	"sort"
	"strings"
	"sync"
	"time"

	"github.com/btcsuite/btcd/btcec/v2"
	"github.com/btcsuite/btcd/btcec/v2/schnorr"
	"github.com/btcsuite/btcd/btcutil"
	"github.com/btcsuite/btcd/btcutil/base58"
	"github.com/btcsuite/btcd/btcutil/hdkeychain"
	"github.com/btcsuite/btcd/chaincfg"
	"github.com/btcsuite/btcd/txscript"
	"github.com/btcsuite/btcwallet/snacl"
	"github.com/btcsuite/btcwallet/waddrmgr"
	"github.com/btcsuite/btcwallet/walletdb"
	_ "github.com/btcsuite/btcwallet/walletdb/bdb"

	"verifharness/internal/core"
	"verifharness/internal/gen"
	"verifharness/internal/proxydb"
)

var (
	c04NS     = []byte("waddrmgr")
	c04Params = &chaincfg.RegressionNetParams
)

// ------------------------------------------------------------------ input

type c04AddrID struct {
	Kind     string `json:"kind"` // ch | imp | scr
	Purpose  uint32 `json:"p,omitempty"`
	Coin     uint32 `json:"c,omitempty"`
	Acct     uint32 `json:"acct,omitempty"`
	Internal bool   `json:"int,omitempty"`
	Idx      uint32 `json:"idx,omitempty"`
	N        int    `json:"n,omitempty"`
	HLen     int    `json:"hlen,omitempty"`
}

type c04Op struct {
	K        string     `json:"k"`
	Scope    [2]uint32  `json:"scope,omitempty"`
	Acct     uint32     `json:"acct,omitempty"`
	Internal bool       `json:"int,omitempty"`
	N        uint32     `json:"n,omitempty"`
	ID       int        `json:"id,omitempty"`
	Name     int        `json:"name,omitempty"`
	NameLen  int        `json:"nlen,omitempty"`
	Comp     bool       `json:"comp,omitempty"`
	SKind    string     `json:"skind,omitempty"` // p2sh | wsh | tr
	Secret   bool       `json:"secret,omitempty"`
	Len      int        `json:"len,omitempty"` // plaintext length of the stored script
	Private  bool       `json:"private,omitempty"`
	PassOK   bool       `json:"passok,omitempty"`
	Schema   bool       `json:"schema,omitempty"`
	Height   int32      `json:"height,omitempty"`
	Addr     *c04AddrID `json:"addr,omitempty"`
	WantTx   bool       `json:"wanttx,omitempty"` // wallet mode: record a transaction
	Accounts uint32     `json:"accounts,omitempty"`
	GivePriv bool       `json:"givepriv,omitempty"` // impxpub (replay only): hand the extended PRIVATE key to NewAccountWatchingOnly
}

type c04Input struct {
	Mode  string  `json:"mode"` // mgr | wallet
	Seed  string  `json:"seed"`
	Brute bool    `json:"brute,omitempty"` // try to open every offset of the converted image with the old keys
	Ops   []c04Op `json:"ops"`
}

// ----------------------------------------------------------------- output

type c04Hit struct {
	Class string `json:"class"` // secret | passphrase | sensitive
	Site  string `json:"site"`  // category:encoding
	Off   int    `json:"off"`
}

type c04OpObs struct {
	OK       bool        `json:"ok"`
	Err      string      `json:"err,omitempty"`
	Commits  int         `json:"commits"`
	NRows    int         `json:"nrows"`           // rows in all namespaces
	NChanged int         `json:"nchanged"`        // rows that changed, appeared or disappeared since the previous look
	Scanned  bool        `json:"scanned"`         // the image was scanned after this call (also after failed calls)
	Facts    []c04Fact   `json:"facts,omitempty"` // sealed fields (known slots) of the rows that changed
	Full     []c04Fact   `json:"full,omitempty"`  // ... of all rows (create, conversion, last look)
	HasFull  bool        `json:"hasfull"`
	Extra    []c04Fact   `json:"extra,omitempty"` // sealed blobs found outside the known layouts
	Opened   int         `json:"opened"`          // sealed fields opened and classified in this look
	WO       bool        `json:"wo"`
	Locked   bool        `json:"locked"`
	Hits     []c04Hit    `json:"hits,omitempty"`
	Needles  int         `json:"needles"`
	Image    int         `json:"image"`
	Canary   bool        `json:"canary"` // the scanner found the planted public items
	API      []string    `json:"api,omitempty"`
	APIRes   [][2]string `json:"apires,omitempty"` // (call, wo|locked|served|error) on the reopened watching-only manager
	Residue  *c04Residue `json:"residue,omitempty"`
	TxSeen   bool        `json:"txseen,omitempty"`
}

type c04Residue struct {
	LiveSealedPrivate int      `json:"live"` // sealed fields of live rows that open under a remembered private/script key
	LiveKinds         []string `json:"live_kinds,omitempty"`
	FreeCiphertexts   int      `json:"free"`                 // remembered private ciphertexts still somewhere in the file image
	FreeOpenable      int      `json:"free_openable"`        // ... that the remembered private keys open to a secret plaintext
	FreeKinds         []string `json:"free_kinds,omitempty"` // slot=content of those
	OldParams         bool     `json:"old_params"`
	// BruteOpens: number of offsets of the image at which a blob of a
	// plausible length opens under the remembered private crypto key or
	// master private key (-1: not run).  Finds ciphertexts the harness has
	// never seen in a row.
	BruteOpens    int `json:"brute_opens"`
	BruteExpected int `json:"brute_expected"` // occurrences of remembered ciphertexts that open under those keys
}

type c04Case struct {
	In     c04Input   `json:"in"`
	Obs    []c04OpObs `json:"obs"`
	Oracle []string   `json:"oracle"`
	Tags   []string   `json:"tags"`
	Site   string     `json:"site"`
	Sites  []string   `json:"sites,omitempty"`
	WallMS int64      `json:"wall_ms"`
}

// ---------------------------------------------------------------- scanner

type needle struct {
	class string
	site  string
	b     []byte
}

type scanner struct {
	needles []needle
	seen    map[string]bool
	index   map[uint32][]int
}

func newScanner() *scanner {
	return &scanner{seen: map[string]bool{}, index: map[uint32][]int{}}
}

func (s *scanner) add(class, site string, b []byte) {
	if len(b) < 8 {
		return
	}
	k := class + "\x00" + site + "\x00" + string(b)
	if s.seen[k] {
		return
	}
	s.seen[k] = true
	cp := append([]byte(nil), b...)
	s.needles = append(s.needles, needle{class, site, cp})
	key := binary.LittleEndian.Uint32(cp[:4])
	s.index[key] = append(s.index[key], len(s.needles)-1)
}

// addAll adds the byte string in the encodings a careless write could use.
func (s *scanner) addBytes(class, cat string, b []byte) {
	s.add(class, cat+":raw", b)
	h := hex.EncodeToString(b)
	s.add(class, cat+":hex", []byte(h))
	s.add(class, cat+":HEX", []byte(strings.ToUpper(h)))
	s.add(class, cat+":base58", []byte(base58.Encode(b)))
	if class == "secret" || class == "passphrase" {
		s.addB64(class, cat, b)
	}
}

func (s *scanner) scan(img []byte) []c04Hit {
	var hits []c04Hit
	got := map[int]bool{}
	for i := 0; i+4 <= len(img); i++ {
		key := binary.LittleEndian.Uint32(img[i : i+4])
		idxs, ok := s.index[key]
		if !ok {
			continue
		}
		for _, ni := range idxs {
			if got[ni] {
				continue
			}
			n := s.needles[ni]
			if i+len(n.b) <= len(img) && bytes.Equal(img[i:i+len(n.b)], n.b) {
				got[ni] = true
				hits = append(hits, c04Hit{Class: n.class, Site: n.site, Off: i})
			}
		}
	}
	return hits
}

// ---------------------------------------------------------------- the run

type addrRec struct {
	id      c04AddrID
	scope   waddrmgr.KeyScope
	addr    btcutil.Address
	addrID  []byte
	hasPriv bool // the wallet was given / can derive the private key
	secret  bool // secret script
	isScr   bool
	path    waddrmgr.DerivationPath
}

type run struct {
	dir, path string
	raw       walletdb.DB
	db        *proxydb.DB
	mgr       *waddrmgr.Manager
	seed      []byte
	root      *hdkeychain.ExtendedKey
	pubPass   []byte
	privPass  []byte
	oldPriv   [][]byte
	oldPub    [][]byte
	passGen   int
	sc        *scanner
	canary    *scanner
	addrs     []*addrRec
	byHash    map[[32]byte]c04AddrID
	names     map[string][2]int
	prev      map[string]walked
	sealKeys  map[string]*snacl.CryptoKey // label -> key (current)
	oldKeys   []oldKey                    // keys replaced by a passphrase change
	openMemo  map[string]*openedMemo
	discMemo  map[string]bool // values already searched exhaustively
	kdfMemo   map[string]*snacl.CryptoKey
	privBlobs map[string]string // remembered private ciphertexts -> slot
	oldParams [][]byte          // remembered mpriv parameter blobs
	commits   int
	converted bool
	tags      map[string]bool
	oracle    map[string]bool
	sites     map[string]bool
	unlocked  bool
	scopes    map[waddrmgr.KeyScope]waddrmgr.ScopeAddrSchema
	accts     map[string]acctRec // "p:c:acct" -> info
	impKeys   map[int]*btcec.PrivateKey
	brute     bool
	bruteDone bool
}

type acctRec struct {
	imported bool                    // imported xpub account (second seed)
	xpub     *hdkeychain.ExtendedKey // account public key
	xprv     *hdkeychain.ExtendedKey // nil for imported xpub accounts
	next     [2]uint32
}

func (r *run) tag(t string) { r.tags[t] = true }
func (r *run) viol(kind, site string) {
	r.oracle[kind] = true
	r.sites[kind+"@"+site] = true
}

func tmpBase() string {
	if st, err := os.Stat("/dev/shm"); err == nil && st.IsDir() {
		return "/dev/shm"
	}
	return ""
}

func newRun(seed []byte) (*run, error) {
	dir, err := os.MkdirTemp(tmpBase(), "vh-c04-")
	if err != nil {
		return nil, err
	}
	r := &run{dir: dir, path: filepath.Join(dir, "wallet.db"), seed: seed,
		sc: newScanner(), canary: newScanner(), byHash: map[[32]byte]c04AddrID{},
		names: map[string][2]int{}, prev: map[string]walked{},
		sealKeys: map[string]*snacl.CryptoKey{}, openMemo: map[string]*openedMemo{}, discMemo: map[string]bool{}, kdfMemo: map[string]*snacl.CryptoKey{},
		privBlobs: map[string]string{}, tags: map[string]bool{}, oracle: map[string]bool{},
		sites: map[string]bool{}, scopes: map[waddrmgr.KeyScope]waddrmgr.ScopeAddrSchema{},
		accts: map[string]acctRec{}, impKeys: map[int]*btcec.PrivateKey{}}
	r.names["default"] = [2]int{0, 7}
	r.names["imported"] = [2]int{1, 8}
	h := sha256.Sum256(append([]byte("c04-pass"), seed...))
	r.pubPass = []byte("pub-" + hex.EncodeToString(h[:6]))
	r.privPass = []byte("priv-" + hex.EncodeToString(h[6:14]))
	r.sealKeys["zero"] = &snacl.CryptoKey{}
	return r, nil
}

func (r *run) close() {
	if r.mgr != nil {
		r.mgr.Close()
	}
	if r.raw != nil {
		r.raw.Close()
	}
	os.RemoveAll(r.dir)
}

func (r *run) addPass(p []byte) {
	r.sc.add("passphrase", "passphrase:raw", p)
	r.sc.add("passphrase", "passphrase:hex", []byte(hex.EncodeToString(p)))
	r.sc.add("passphrase", "passphrase:HEX", []byte(strings.ToUpper(hex.EncodeToString(p))))
	r.sc.addB64("passphrase", "passphrase", p)
}

// extended key needles (independent of the manager: derived by the harness)
func (r *run) addXprv(cat string, k *hdkeychain.ExtendedKey) {
	str := k.String()
	r.sc.add("secret", cat+":base58", []byte(str))
	r.sc.addB64("secret", cat+"_string", []byte(str))
	rawk := base58.Decode(str)
	if len(rawk) >= 78 {
		r.sc.add("secret", cat+":raw78", rawk[:78])
		r.sc.add("secret", cat+":hex78", []byte(hex.EncodeToString(rawk[:78])))
		r.sc.addB64("secret", cat+"_raw78", rawk[:78])
	}
	if pk, err := k.ECPrivKey(); err == nil {
		r.sc.addBytes("secret", cat+"_key", pk.Serialize())
	}
	if pub, err := k.Neuter(); err == nil {
		r.addXpub(strings.Replace(cat, "xprv", "xpub", 1), pub)
	}
}

func (r *run) addXpub(cat string, k *hdkeychain.ExtendedKey) {
	str := k.String()
	r.sc.add("sensitive", cat+":base58", []byte(str))
	rawk := base58.Decode(str)
	if len(rawk) >= 78 {
		r.sc.add("sensitive", cat+":raw78", rawk[:78])
	}
	if pk, err := k.ECPubKey(); err == nil {
		r.sc.add("sensitive", cat+"_key:raw", pk.SerializeCompressed())
		r.sc.add("sensitive", cat+"_key:hex", []byte(hex.EncodeToString(pk.SerializeCompressed())))
	}
	r.sc.add("sensitive", cat+"_chaincode:raw", k.ChainCode())
}

func (r *run) addPrivKey(cat string, pk *btcec.PrivateKey) {
	r.sc.addBytes("secret", cat, pk.Serialize())
	for _, comp := range []bool{true, false} {
		if w, err := btcutil.NewWIF(pk, c04Params, comp); err == nil {
			r.sc.add("secret", cat+":wif", []byte(w.String()))
			r.sc.addB64("secret", cat+"_wif", []byte(w.String()))
		}
	}
}

func (r *run) addPubKey(cat string, pk *btcec.PublicKey) {
	r.sc.add("sensitive", cat+":compressed", pk.SerializeCompressed())
	r.sc.add("sensitive", cat+":uncompressed", pk.SerializeUncompressed())
	r.sc.add("sensitive", cat+":xonly", schnorr.SerializePubKey(pk))
	r.sc.add("sensitive", cat+":hex", []byte(hex.EncodeToString(pk.SerializeCompressed())))
	r.sc.add("sensitive", cat+"_hash160:raw", btcutil.Hash160(pk.SerializeCompressed()))
	r.sc.add("sensitive", cat+"_hash160u:raw", btcutil.Hash160(pk.SerializeUncompressed()))
}

func (r *run) addAddress(cat string, a btcutil.Address) {
	r.sc.add("sensitive", cat+"_id:raw", a.ScriptAddress())
	r.sc.add("sensitive", cat+"_id:hex", []byte(hex.EncodeToString(a.ScriptAddress())))
	r.sc.add("sensitive", cat+":string", []byte(a.EncodeAddress()))
	if pk, err := txscript.PayToAddrScript(a); err == nil {
		r.sc.add("sensitive", cat+"_pkscript:raw", pk)
	}
}

func scopeOf(s [2]uint32) waddrmgr.KeyScope { return waddrmgr.KeyScope{Purpose: s[0], Coin: s[1]} }

func acctKey(s waddrmgr.KeyScope, a uint32) string {
	return fmt.Sprintf("%d:%d:%d", s.Purpose, s.Coin, a)
}

// roundTrip is the key as the manager re-reads it from a stored string: the
// legacy child derivation (DeriveNonStandard) of a key whose private scalar
// has a leading zero byte differs between the in-memory key and the key
// decoded from its string (btcd issue 172), and the manager uses both: the
// first account of a scope comes from the in-memory coin-type key, later
// accounts from the stored one; addresses from the stored account key.
func roundTrip(k *hdkeychain.ExtendedKey) *hdkeychain.ExtendedKey {
	if rt, err := hdkeychain.NewKeyFromString(k.String()); err == nil {
		return rt
	}
	return k
}

// childVariants: every child the code could derive for (parent, idx); the
// first one is what the legacy in-memory derivation gives.
func childVariants(parent *hdkeychain.ExtendedKey, idx uint32) []*hdkeychain.ExtendedKey {
	var out []*hdkeychain.ExtendedKey
	seen := map[string]bool{}
	add := func(k *hdkeychain.ExtendedKey, err error) {
		if err == nil && !seen[k.String()] {
			seen[k.String()] = true
			out = append(out, k)
		}
	}
	add(parent.DeriveNonStandard(idx))            // nolint:staticcheck
	add(roundTrip(parent).DeriveNonStandard(idx)) // nolint:staticcheck
	add(parent.Derive(idx))
	return out
}

// deriveScope derives m/purpose'/coin' with the legacy rule the wallet uses.
func (r *run) deriveScope(s waddrmgr.KeyScope) (*hdkeychain.ExtendedKey, error) {
	p, err := r.root.DeriveNonStandard(s.Purpose + hdkeychain.HardenedKeyStart) // nolint:staticcheck
	if err != nil {
		return nil, err
	}
	return p.DeriveNonStandard(s.Coin + hdkeychain.HardenedKeyStart) // nolint:staticcheck
}

func (r *run) registerScope(s waddrmgr.KeyScope, schema waddrmgr.ScopeAddrSchema) error {
	r.scopes[s] = schema
	ct, err := r.deriveScope(s)
	if err != nil {
		return err
	}
	r.addXprv("cointype_xprv", ct)
	// the other derivations a regression could use must not appear either
	for _, p := range childVariants(r.root, s.Purpose+hdkeychain.HardenedKeyStart) {
		for _, c := range childVariants(p, s.Coin+hdkeychain.HardenedKeyStart) {
			r.addXprv("cointype_xprv", c)
		}
	}
	return r.registerAccount(s, 0, ct)
}

func (r *run) registerAccount(s waddrmgr.KeyScope, a uint32, ct *hdkeychain.ExtendedKey) error {
	if ct == nil {
		var err error
		if ct, err = r.deriveScope(s); err != nil {
			return err
		}
	}
	// account 0 is derived from the in-memory coin-type key (createManagerKeyScope),
	// later accounts from the stored one (newAccount)
	parent := ct
	if a != 0 {
		parent = roundTrip(ct)
	}
	ak, err := parent.DeriveNonStandard(a + hdkeychain.HardenedKeyStart) // nolint:staticcheck
	if err != nil {
		return err
	}
	r.addXprv("account_xprv", ak)
	for _, v := range childVariants(ct, a+hdkeychain.HardenedKeyStart) {
		r.addXprv("account_xprv", v)
	}
	pub, err := ak.Neuter()
	if err != nil {
		return err
	}
	// addresses are derived from the account key as stored
	r.accts[acctKey(s, a)] = acctRec{xpub: roundTrip(pub), xprv: roundTrip(ak)}
	return nil
}

// addressFor computes address and address id from a public key the way the
// scope's address type prescribes, without the manager.
func addressFor(t waddrmgr.AddressType, pk *btcec.PublicKey, compressed bool) (btcutil.Address, error) {
	ser := pk.SerializeCompressed()
	if !compressed {
		ser = pk.SerializeUncompressed()
	}
	switch t {
	case waddrmgr.PubKeyHash:
		return btcutil.NewAddressPubKeyHash(btcutil.Hash160(ser), c04Params)
	case waddrmgr.WitnessPubKey:
		return btcutil.NewAddressWitnessPubKeyHash(btcutil.Hash160(ser), c04Params)
	case waddrmgr.NestedWitnessPubKey:
		w, err := btcutil.NewAddressWitnessPubKeyHash(btcutil.Hash160(ser), c04Params)
		if err != nil {
			return nil, err
		}
		sc, err := txscript.PayToAddrScript(w)
		if err != nil {
			return nil, err
		}
		return btcutil.NewAddressScriptHash(sc, c04Params)
	case waddrmgr.TaprootPubKey:
		tk := txscript.ComputeTaprootKeyNoScript(pk)
		return btcutil.NewAddressTaproot(schnorr.SerializePubKey(tk), c04Params)
	}
	return nil, fmt.Errorf("address type %v", t)
}

func (r *run) remember(rec *addrRec) {
	rec.addrID = rec.addr.ScriptAddress()
	r.addrs = append(r.addrs, rec)
	r.byHash[sha256.Sum256(rec.addrID)] = rec.id
	r.canary.add("public", "addr_index_key", hashOf(rec.addrID))
}

func hashOf(b []byte) []byte { h := sha256.Sum256(b); return h[:] }

// ----------------------------------------------------------- seal labelling

// refreshSealKeys derives, from the passphrases the harness holds and the
// parameters stored in the database, every key of both chains.  A key that
// is replaced (passphrase change) is kept as an old key.
func (r *run) refreshSealKeys(ns walletdb.ReadBucket) {
	main := ns.NestedReadBucket([]byte("main"))
	if main == nil {
		return
	}
	set := func(lab string, k *snacl.CryptoKey) {
		if old := r.sealKeys[lab]; old != nil && *old != *k {
			r.oldKeys = append(r.oldKeys, oldKey{"old_" + lab, old})
		}
		r.sealKeys[lab] = k
	}
	derive := func(params []byte, pass []byte) *snacl.CryptoKey {
		if params == nil {
			return nil
		}
		mk := string(params) + "\x00" + string(pass)
		if k, ok := r.kdfMemo[mk]; ok {
			return k
		}
		var sk snacl.SecretKey
		if err := sk.Unmarshal(params); err != nil {
			return nil
		}
		p := append([]byte(nil), pass...)
		if err := sk.DeriveKey(&p); err != nil {
			r.kdfMemo[mk] = nil
			return nil
		}
		r.kdfMemo[mk] = sk.Key
		return sk.Key
	}
	crypto := func(master *snacl.CryptoKey, row, lab, cat string) {
		if pt, err := master.Decrypt(main.Get([]byte(row))); err == nil && len(pt) == 32 {
			var ck snacl.CryptoKey
			copy(ck[:], pt)
			set(lab, &ck)
			r.sc.addBytes("keymat", cat, pt)
		}
	}
	if k := derive(main.Get([]byte("mpub")), r.pubPass); k != nil {
		set("mpub", k)
		r.sc.addBytes("keymat", "master_key_pub", k[:])
		crypto(k, "cpub", "cpub", "crypto_key_pub")
	}
	if p := main.Get([]byte("mpriv")); p != nil {
		if len(r.oldParams) == 0 || !bytes.Equal(r.oldParams[len(r.oldParams)-1], p) {
			r.oldParams = append(r.oldParams, append([]byte(nil), p...))
		}
		if k := derive(p, r.privPass); k != nil {
			set("mpriv", k)
			r.sc.addBytes("keymat", "master_key_priv", k[:])
			crypto(k, "cpriv", "cpriv", "crypto_key_priv")
			crypto(k, "cscript", "cscript", "crypto_key_script")
		}
	}
}

// trial order: the crypto keys first (most fields), then the rest
var sealOrder = []string{"cpub", "cpriv", "zero", "cscript", "mpub", "mpriv"}

// --------------------------------------------------------------- row walk

func u32(b []byte) uint32 { return binary.LittleEndian.Uint32(b) }

type walked struct {
	ns   string
	path []string
	key  []byte
	rid  string
	val  []byte
}

func (r *run) walk(nsName string, b walletdb.ReadBucket, path []string, out *[]walked) {
	_ = b.ForEach(func(k, v []byte) error {
		if v == nil {
			name := string(k)
			if nsName == string(c04NS) {
				switch {
				case len(path) == 0 && name == "scope-schema":
					name = "schema"
				case len(path) == 1 && path[0] == "scope" && len(k) == 8:
					name = fmt.Sprintf("%d:%d", u32(k[0:4]), u32(k[4:8]))
				case len(path) == 3 && path[2] == "addracctidx" && len(k) == 4:
					name = fmt.Sprintf("acct:%d", u32(k))
				}
			}
			np := append(append([]string{}, path...), name)
			if nb := b.NestedReadBucket(k); nb != nil {
				r.walk(nsName, nb, np, out)
			}
			return nil
		}
		p := append([]string{}, path...)
		*out = append(*out, walked{ns: nsName, path: p, key: append([]byte(nil), k...),
			rid: nsName + "\x01" + strings.Join(path, "/") + "\x00" + string(k), val: append([]byte(nil), v...)})
		return nil
	})
}

// snapshot reads the file image, scans it, walks the rows of EVERY namespace,
// opens every sealed blob of the rows that changed (all rows when full) and
// diffs the rows against the previous look.
func (r *run) snapshot(obs *c04OpObs, full bool) {
	img, err := os.ReadFile(r.path)
	if err != nil {
		obs.Err += " image:" + err.Error()
		return
	}
	var rows []walked
	_ = walletdb.View(r.raw, func(tx walletdb.ReadTx) error {
		if ns := tx.ReadBucket(c04NS); ns != nil {
			r.refreshSealKeys(ns)
		}
		var names [][]byte
		_ = tx.ForEachBucket(func(k []byte) error {
			names = append(names, append([]byte(nil), k...))
			return nil
		})
		for _, n := range names {
			if b := tx.ReadBucket(n); b != nil {
				r.walk(string(n), b, nil, &rows)
			}
		}
		return nil
	})
	obs.Scanned = true
	obs.Image = len(img)
	obs.Needles = len(r.sc.needles)
	obs.Hits = append(obs.Hits, r.sc.scan(img)...)
	obs.Canary = len(r.canary.scan(img)) == len(r.canary.needles)
	obs.NRows = len(rows)
	cur := map[string]walked{}
	obs.Facts, obs.Full, obs.Extra = nil, nil, nil
	obs.NChanged = 0
	for _, w := range rows {
		cur[w.rid] = w
		old, had := r.prev[w.rid]
		changed := !had || !bytes.Equal(old.val, w.val)
		if changed {
			obs.NChanged++
		}
		if !changed && !full {
			continue
		}
		known, extra := r.rowFacts(w.ns, w.path, w.key, w.val)
		for _, f := range known {
			r.judge(f, true)
			obs.Opened++
			if changed {
				obs.Facts = append(obs.Facts, f)
			}
			if full {
				obs.Full = append(obs.Full, f)
			}
		}
		for _, f := range extra {
			r.judge(f, true)
			obs.Opened++
			obs.Extra = append(obs.Extra, f)
			r.tag("sealed_blob_outside_known_layout")
		}
	}
	for rid := range r.prev {
		if _, ok := cur[rid]; !ok {
			obs.NChanged++
		}
	}
	obs.Facts = dedupFacts(obs.Facts)
	obs.Full = dedupFacts(obs.Full)
	obs.Extra = dedupFacts(obs.Extra)
	obs.HasFull = full
	r.prev = cur
	if r.mgr != nil {
		obs.WO = r.mgr.WatchOnly()
		obs.Locked = r.mgr.IsLocked()
	}
	if r.converted {
		obs.Residue = r.residue(img, rows)
	}
}

// residue: what private ciphertext is still around after a conversion.
// Live rows are judged by rule B (judge); the rest of the image (pages bbolt
// has freed but not overwritten) is measured here.
func (r *run) residue(img []byte, rows []walked) *c04Residue {
	res := &c04Residue{}
	kinds := map[string]bool{}
	live := map[string]bool{}
	for _, w := range rows {
		for blob, kind := range r.privBlobs {
			if len(w.val) >= len(blob) && bytes.Contains(w.val, []byte(blob)) {
				res.LiveSealedPrivate++
				kinds[kind] = true
				live[blob] = true
			}
		}
	}
	for k := range kinds {
		res.LiveKinds = append(res.LiveKinds, k)
	}
	sort.Strings(res.LiveKinds)
	free := map[string]bool{}
	for blob, kind := range r.privBlobs {
		if !live[blob] && bytes.Contains(img, []byte(blob)) {
			res.FreeCiphertexts++
			// can a holder of the OLD private passphrase still open it?
			if o := r.openBlob([]byte(blob)); o != nil && secretContent[o.content] {
				res.FreeOpenable++
				free[kind+"="+o.content] = true
			}
		}
	}
	for k := range free {
		res.FreeKinds = append(res.FreeKinds, k)
	}
	sort.Strings(res.FreeKinds)
	for _, p := range r.oldParams {
		if len(p) >= 64 && bytes.Contains(img, p[:64]) {
			res.OldParams = true
		}
	}
	res.BruteOpens = -1
	if r.brute && !r.bruteDone {
		r.bruteDone = true
		res.BruteOpens = 0
		lens := map[int]bool{32: true, 111: true}
		for blob := range r.privBlobs {
			lens[len(blob)-40] = true
		}
		keys := []*snacl.CryptoKey{r.sealKeys["cpriv"], r.sealKeys["mpriv"]}
		for blob := range r.privBlobs {
			for _, k := range keys {
				if k == nil {
					continue
				}
				if _, err := k.Decrypt([]byte(blob)); err == nil {
					res.BruteExpected += bytes.Count(img, []byte(blob))
					break
				}
			}
		}
		for o := 0; o+72 <= len(img); o++ {
			for l := range lens {
				if l < 0 || o+40+l > len(img) {
					continue
				}
				for _, k := range keys {
					if k == nil {
						continue
					}
					if _, err := k.Decrypt(img[o : o+40+l]); err == nil {
						res.BruteOpens++
					}
				}
			}
		}
	}
	return res
}

// -------------------------------------------------------------- operations

func (r *run) update(f func(ns walletdb.ReadWriteBucket) error) error {
	return walletdb.Update(r.db, func(tx walletdb.ReadWriteTx) error {
		ns := tx.ReadWriteBucket(c04NS)
		if ns == nil {
			var err error
			if ns, err = tx.CreateTopLevelBucket(c04NS); err != nil {
				return err
			}
		}
		return f(ns)
	})
}

func (r *run) view(f func(ns walletdb.ReadBucket) error) error {
	return walletdb.View(r.db, func(tx walletdb.ReadTx) error { return f(tx.ReadBucket(c04NS)) })
}

func (r *run) open() error {
	if r.mgr != nil {
		r.mgr.Close()
		r.mgr = nil
	}
	r.unlocked = false
	return r.view(func(ns walletdb.ReadBucket) error {
		m, err := waddrmgr.Open(ns, r.pubPass, c04Params)
		r.mgr = m
		return err
	})
}

var errNoMgr = errors.New("no manager")

func (r *run) impKey(id int) *btcec.PrivateKey {
	if k, ok := r.impKeys[id]; ok {
		return k
	}
	h := sha256.Sum256(append([]byte(fmt.Sprintf("c04-imp-%d-", id)), r.seed...))
	k, _ := btcec.PrivKeyFromBytes(h[:])
	r.impKeys[id] = k
	return k
}

func (r *run) scriptBytes(id, n int) []byte {
	out := make([]byte, 0, n)
	ctr := 0
	for len(out) < n {
		h := sha256.Sum256(append([]byte(fmt.Sprintf("c04-scr-%d-%d-", id, ctr)), r.seed...))
		out = append(out, h[:]...)
		ctr++
	}
	return out[:n]
}

func (r *run) accountName(id, n int) string {
	base := fmt.Sprintf("a%d-", id)
	for len(base) < n {
		base += "x"
	}
	return base[:n]
}

// exec performs one operation inside its own transaction.
func (r *run) exec(op c04Op) error {
	if op.K != "create" && op.K != "reopen" && r.mgr == nil {
		return errNoMgr
	}
	s := scopeOf(op.Scope)
	switch op.K {
	case "create":
		root, err := hdkeychain.NewMaster(r.seed, c04Params)
		if err != nil {
			return err
		}
		if r.root != nil {
			// a second Create must be refused by the manager
			return r.update(func(ns walletdb.ReadWriteBucket) error {
				return waddrmgr.Create(ns, root, r.pubPass, r.privPass, c04Params, &waddrmgr.FastScryptOptions, time.Unix(1600000000, 0))
			})
		}
		r.sc.addBytes("secret", "seed", r.seed)
		r.addPass(r.pubPass)
		r.addPass(r.privPass)
		err = r.update(func(ns walletdb.ReadWriteBucket) error {
			return waddrmgr.Create(ns, root, r.pubPass, r.privPass, c04Params, &waddrmgr.FastScryptOptions, time.Unix(1600000000, 0))
		})
		if err != nil {
			return err
		}
		r.root = root
		r.addXprv("master_xprv", root)
		for sc, schema := range waddrmgr.ScopeAddrMap {
			if err := r.registerScope(sc, schema); err != nil {
				return err
			}
		}
		return nil
	case "reopen":
		if r.root == nil {
			return errors.New("nothing to open")
		}
		return r.open()
	case "unlock":
		pass := r.privPass
		if !op.PassOK {
			pass = []byte("wrong-" + string(r.privPass))
		}
		err := r.view(func(ns walletdb.ReadBucket) error { return r.mgr.Unlock(ns, pass) })
		r.unlocked = err == nil && !r.mgr.WatchOnly()
		if err != nil && !r.mgr.WatchOnly() {
			r.unlocked = false
		}
		return err
	case "lock":
		err := r.mgr.Lock()
		if err == nil {
			r.unlocked = false
		}
		return err
	case "newacct":
		sm, err := r.mgr.FetchScopedKeyManager(s)
		if err != nil {
			return err
		}
		name := r.accountName(op.Name, op.NameLen)
		var acct uint32
		err = r.update(func(ns walletdb.ReadWriteBucket) error {
			var err error
			acct, err = sm.NewAccount(ns, name)
			return err
		})
		if err != nil {
			return err
		}
		r.names[name] = [2]int{op.Name, op.NameLen}
		return r.registerAccount(s, acct, nil)
	case "newscope":
		schema := waddrmgr.ScopeAddrSchema{ExternalAddrType: waddrmgr.WitnessPubKey, InternalAddrType: waddrmgr.WitnessPubKey}
		err := r.update(func(ns walletdb.ReadWriteBucket) error {
			_, err := r.mgr.NewScopedKeyManager(ns, s, schema)
			return err
		})
		if err != nil {
			return err
		}
		return r.registerScope(s, schema)
	case "derive":
		sm, err := r.mgr.FetchScopedKeyManager(s)
		if err != nil {
			return err
		}
		var mas []waddrmgr.ManagedAddress
		err = r.update(func(ns walletdb.ReadWriteBucket) error {
			var err error
			if op.Internal {
				mas, err = sm.NextInternalAddresses(ns, op.Acct, op.N)
			} else {
				mas, err = sm.NextExternalAddresses(ns, op.Acct, op.N)
			}
			return err
		})
		if err != nil {
			return err
		}
		return r.recordDerived(s, op.Acct, op.Internal, mas)
	case "imppriv":
		sm, err := r.mgr.FetchScopedKeyManager(s)
		if err != nil {
			return err
		}
		pk := r.impKey(op.ID)
		r.addPrivKey("imported_privkey", pk)
		r.addPubKey("imported_pubkey", pk.PubKey())
		wif, err := btcutil.NewWIF(pk, c04Params, op.Comp)
		if err != nil {
			return err
		}
		var ma waddrmgr.ManagedPubKeyAddress
		err = r.update(func(ns walletdb.ReadWriteBucket) error {
			var err error
			ma, err = sm.ImportPrivateKey(ns, wif, &waddrmgr.BlockStamp{})
			return err
		})
		if err != nil {
			return err
		}
		want, err := addressFor(r.scopes[s].ExternalAddrType, pk.PubKey(), op.Comp)
		if err != nil {
			return err
		}
		if want.EncodeAddress() != ma.Address().EncodeAddress() {
			r.tag("oracle_address_mismatch")
		}
		r.addAddress("imported_address", want)
		r.remember(&addrRec{id: c04AddrID{Kind: "imp", N: impSym(op.ID, op.Comp)}, scope: s, addr: want, hasPriv: !r.mgr.WatchOnly()})
		return nil
	case "imppub":
		sm, err := r.mgr.FetchScopedKeyManager(s)
		if err != nil {
			return err
		}
		pk := r.impKey(op.ID)
		// the private half is never given to the wallet here, but it must not
		// appear either
		r.addPrivKey("imported_privkey", pk)
		r.addPubKey("imported_pubkey", pk.PubKey())
		err = r.update(func(ns walletdb.ReadWriteBucket) error {
			_, err := sm.ImportPublicKey(ns, pk.PubKey(), &waddrmgr.BlockStamp{})
			return err
		})
		if err != nil {
			return err
		}
		want, err := addressFor(r.scopes[s].ExternalAddrType, pk.PubKey(), true)
		if err != nil {
			return err
		}
		r.addAddress("imported_address", want)
		r.remember(&addrRec{id: c04AddrID{Kind: "imp", N: impSym(op.ID, true)}, scope: s, addr: want})
		return nil
	case "impscript":
		return r.importScript(s, op)
	case "impxpub":
		sm, err := r.mgr.FetchScopedKeyManager(s)
		if err != nil {
			return err
		}
		h := sha256.Sum256(append([]byte(fmt.Sprintf("c04-xpub-%d-", op.ID)), r.seed...))
		oroot, err := hdkeychain.NewMaster(h[:], c04Params)
		if err != nil {
			return err
		}
		ak, err := oroot.DeriveNonStandard(hdkeychain.HardenedKeyStart + 7) // nolint:staticcheck
		if err != nil {
			return err
		}
		apub, err := ak.Neuter()
		if err != nil {
			return err
		}
		r.addXpub("imported_xpub", apub)
		// the foreign private key is never handed over; it must not appear
		r.addXprv("foreign_account_xprv", ak)
		name := r.accountName(op.Name, op.NameLen)
		var schema *waddrmgr.ScopeAddrSchema
		if op.Schema {
			sc := r.scopes[s]
			schema = &sc
		}
		var acct uint32
		err = r.update(func(ns walletdb.ReadWriteBucket) error {
			var err error
			k := apub
			if op.GivePriv {
				k = ak
			}
			acct, err = sm.NewAccountWatchingOnly(ns, name, k, 0x01020304, schema)
			return err
		})
		if err != nil {
			return err
		}
		r.names[name] = [2]int{op.Name, op.NameLen}
		r.accts[acctKey(s, acct)] = acctRec{imported: true, xpub: apub}
		return nil
	case "rename":
		sm, err := r.mgr.FetchScopedKeyManager(s)
		if err != nil {
			return err
		}
		name := r.accountName(op.Name, op.NameLen)
		err = r.update(func(ns walletdb.ReadWriteBucket) error { return sm.RenameAccount(ns, op.Acct, name) })
		if err != nil {
			return err
		}
		r.names[name] = [2]int{op.Name, op.NameLen}
		return nil
	case "chpass":
		oldp := r.pubPass
		if op.Private {
			oldp = r.privPass
		}
		if !op.PassOK {
			oldp = []byte("wrong-" + string(oldp))
		}
		r.passGen++
		h := sha256.Sum256(append([]byte(fmt.Sprintf("c04-newpass-%d-", r.passGen)), r.seed...))
		newp := []byte(fmt.Sprintf("pass%d-%s", r.passGen, hex.EncodeToString(h[:7])))
		r.addPass(newp)
		err := r.update(func(ns walletdb.ReadWriteBucket) error {
			return r.mgr.ChangePassphrase(ns, oldp, newp, op.Private, &waddrmgr.FastScryptOptions)
		})
		if err != nil {
			return err
		}
		if op.Private {
			r.oldPriv = append(r.oldPriv, r.privPass)
			r.privPass = newp
		} else {
			r.oldPub = append(r.oldPub, r.pubPass)
			r.pubPass = newp
		}
		return nil
	case "markused":
		rec := r.findAddr(s, op.Addr)
		if rec == nil {
			return errors.New("unknown address in history")
		}
		return r.update(func(ns walletdb.ReadWriteBucket) error { return r.mgr.MarkUsed(ns, rec.addr) })
	case "syncto":
		var hsh [32]byte
		binary.LittleEndian.PutUint32(hsh[:], uint32(op.Height))
		bs := &waddrmgr.BlockStamp{Height: op.Height, Timestamp: time.Unix(1600000000+int64(op.Height), 0)}
		copy(bs.Hash[:], hsh[:])
		return r.update(func(ns walletdb.ReadWriteBucket) error { return r.mgr.SetSyncedTo(ns, bs) })
	case "neuter":
		return r.update(func(ns walletdb.ReadWriteBucket) error { return r.mgr.NeuterRootKey(ns) })
	case "convert":
		err := r.update(func(ns walletdb.ReadWriteBucket) error { return r.mgr.ConvertToWatchingOnly(ns) })
		if err == nil {
			r.converted = true
			r.unlocked = false
		}
		return err
	}
	return fmt.Errorf("unknown op %q", op.K)
}

// impSym is the symbolic id of an imported key AS SERIALISED: the same key
// imported compressed and uncompressed gives two different addresses (the
// manager accepts both), so the model's id is 2*key + (1 if uncompressed).
func impSym(id int, compressed bool) int {
	if compressed {
		return 2 * id
	}
	return 2*id + 1
}

func (r *run) findAddr(s waddrmgr.KeyScope, id *c04AddrID) *addrRec {
	if id == nil {
		return nil
	}
	for _, a := range r.addrs {
		if a.id == *id && a.scope == s {
			return a
		}
	}
	return nil
}

// recordDerived registers the addresses the manager issued, with keys
// derived independently from the seed (or from the imported xpub).
func (r *run) recordDerived(s waddrmgr.KeyScope, acct uint32, internal bool, mas []waddrmgr.ManagedAddress) error {
	ar, ok := r.accts[acctKey(s, acct)]
	if !ok {
		return fmt.Errorf("harness does not know account %s", acctKey(s, acct))
	}
	branch := uint32(0)
	t := r.scopes[s].ExternalAddrType
	if internal {
		branch = 1
		t = r.scopes[s].InternalAddrType
	}
	for _, ma := range mas {
		idx := ar.next[branch]
		ar.next[branch]++
		var pub *btcec.PublicKey
		if ar.xprv != nil {
			bk, err := ar.xprv.DeriveNonStandard(branch) // nolint:staticcheck
			if err != nil {
				return err
			}
			ck, err := bk.DeriveNonStandard(idx) // nolint:staticcheck
			if err != nil {
				return err
			}
			pk, err := ck.ECPrivKey()
			if err != nil {
				return err
			}
			r.addPrivKey("address_privkey", pk)
			pub = pk.PubKey()
		} else {
			bk, err := ar.xpub.DeriveNonStandard(branch) // nolint:staticcheck
			if err != nil {
				return err
			}
			ck, err := bk.DeriveNonStandard(idx) // nolint:staticcheck
			if err != nil {
				return err
			}
			if pub, err = ck.ECPubKey(); err != nil {
				return err
			}
		}
		r.addPubKey("address_pubkey", pub)
		want, err := addressFor(t, pub, true)
		if err != nil {
			return err
		}
		if want.EncodeAddress() != ma.Address().EncodeAddress() {
			r.tag("oracle_address_mismatch")
		}
		r.addAddress("address", want)
		// second source: ask the unlocked manager
		if pka, ok := ma.(waddrmgr.ManagedPubKeyAddress); ok && r.unlocked && ar.xprv != nil {
			if pk, err := pka.PrivKey(); err == nil {
				r.addPrivKey("address_privkey", pk)
				r.tag("privkey_from_manager")
			}
		}
		r.remember(&addrRec{id: c04AddrID{Kind: "ch", Purpose: s.Purpose, Coin: s.Coin, Acct: acct, Internal: internal, Idx: idx},
			scope: s, addr: want, hasPriv: ar.xprv != nil,
			path: waddrmgr.DerivationPath{InternalAccount: acct, Account: acct, Branch: branch, Index: idx}})
	}
	r.accts[acctKey(s, acct)] = ar
	return nil
}

func (r *run) importScript(s waddrmgr.KeyScope, op c04Op) error {
	sm, err := r.mgr.FetchScopedKeyManager(s)
	if err != nil {
		return err
	}
	class, cat := "secret", "secret_script"
	secret := op.Secret || op.SKind == "p2sh"
	if !secret {
		class, cat = "sensitive", "public_script"
	}
	var addr btcutil.Address
	hlen := 32
	switch op.SKind {
	case "p2sh":
		hlen = 20
		script := r.scriptBytes(op.ID, op.Len)
		r.sc.addBytes(class, cat, script)
		err = r.update(func(ns walletdb.ReadWriteBucket) error {
			ma, err := sm.ImportScript(ns, script, &waddrmgr.BlockStamp{})
			if err == nil {
				addr = ma.Address()
			}
			return err
		})
		if err == nil {
			want, _ := btcutil.NewAddressScriptHash(script, c04Params)
			if want.EncodeAddress() != addr.EncodeAddress() {
				r.tag("oracle_address_mismatch")
			}
			addr = want
		}
	case "wsh":
		script := r.scriptBytes(op.ID, op.Len)
		r.sc.addBytes(class, cat, script)
		err = r.update(func(ns walletdb.ReadWriteBucket) error {
			ma, err := sm.ImportWitnessScript(ns, script, &waddrmgr.BlockStamp{}, 0, op.Secret)
			if err == nil {
				addr = ma.Address()
			}
			return err
		})
		if err == nil {
			d := sha256.Sum256(script)
			want, _ := btcutil.NewAddressWitnessScriptHash(d[:], c04Params)
			if want.EncodeAddress() != addr.EncodeAddress() {
				r.tag("oracle_address_mismatch")
			}
			addr = want
		}
	case "tr":
		// stored plaintext = TLV(type, internal key, one leaf): 46 + len(leaf)
		leafLen := op.Len - 46
		if leafLen < 8 {
			return errors.New("taproot script too short for the harness")
		}
		leaf := txscript.NewBaseTapLeaf(r.scriptBytes(op.ID, leafLen))
		ik := r.impKey(100000 + op.ID).PubKey()
		r.sc.addBytes(class, cat, leaf.Script)
		r.sc.add(class, cat+"_internal_key:xonly", schnorr.SerializePubKey(ik))
		r.addPrivKey("foreign_internal_privkey", r.impKey(100000+op.ID))
		ts := &waddrmgr.Tapscript{Type: waddrmgr.TapscriptTypeFullTree,
			ControlBlock: &txscript.ControlBlock{InternalKey: ik}, Leaves: []txscript.TapLeaf{leaf}}
		err = r.update(func(ns walletdb.ReadWriteBucket) error {
			ma, err := sm.ImportTaprootScript(ns, ts, &waddrmgr.BlockStamp{}, 1, op.Secret)
			if err == nil {
				addr = ma.Address()
			}
			return err
		})
		if err == nil {
			tree := txscript.AssembleTaprootScriptTree(leaf)
			rh := tree.RootNode.TapHash()
			ok := txscript.ComputeTaprootOutputKey(ik, rh[:])
			want, _ := btcutil.NewAddressTaproot(schnorr.SerializePubKey(ok), c04Params)
			if want.EncodeAddress() != addr.EncodeAddress() {
				r.tag("oracle_address_mismatch")
			}
			addr = want
		}
	default:
		return fmt.Errorf("script kind %q", op.SKind)
	}
	if err != nil {
		return err
	}
	r.addAddress("script_address", addr)
	r.remember(&addrRec{id: c04AddrID{Kind: "scr", N: op.ID, HLen: hlen}, scope: s, addr: addr, isScr: true, secret: secret})
	return nil
}

// ------------------------------------------------------- watching-only API

// apiChecks probes a REOPENED watching-only manager: no passphrase unlocks
// it, no accessor returns private material, every address is still known.
func (r *run) apiChecks(obs *c04OpObs) {
	note := func(s string) { obs.API = append(obs.API, s) }
	isWO := func(err error) bool { return waddrmgr.IsError(err, waddrmgr.ErrWatchingOnly) }
	// answer class of one call, for the comparison with the model's [api]
	worst := map[string]string{}
	rank := map[string]int{"": 0, "wo": 1, "locked": 2, "error": 3, "served": 4}
	answer := func(call string, served bool, err error) {
		a := "error"
		switch {
		case served:
			a = "served"
		case isWO(err):
			a = "wo"
		case waddrmgr.IsError(err, waddrmgr.ErrLocked):
			a = "locked"
		}
		if rank[a] > rank[worst[call]] {
			worst[call] = a
		}
	}
	defer func() {
		var calls []string
		for c := range worst {
			calls = append(calls, c)
		}
		sort.Strings(calls)
		for _, c := range calls {
			obs.APIRes = append(obs.APIRes, [2]string{c, worst[c]})
		}
	}()
	var privBlob []byte
	for b, kind := range r.privBlobs {
		if kind == "acctpriv" || kind == "imppriv" || kind == "ctpriv" || kind == "mhdpriv" {
			privBlob = []byte(b)
			break
		}
	}
	var scriptBlob []byte
	for b, kind := range r.privBlobs {
		if kind == "scrscript_secret" {
			scriptBlob = []byte(b)
			break
		}
	}
	_ = r.view(func(ns walletdb.ReadBucket) error {
		type pp struct {
			name string
			p    []byte
		}
		passes := []pp{{"private", r.privPass}, {"public", r.pubPass}}
		for _, p := range r.oldPriv {
			passes = append(passes, pp{"old_private", p})
		}
		for _, p := range r.oldPub {
			passes = append(passes, pp{"old_public", p})
		}
		for _, p := range passes {
			err := r.mgr.Unlock(ns, p.p)
			if err == nil || !isWO(err) || !r.mgr.IsLocked() {
				r.viol("watching_only_unlocks", p.name)
			}
			answer("unlock", err == nil, err)
		}
		note(fmt.Sprintf("unlock_attempts=%d", len(passes)))
		nPriv, nScr, nDerive := 0, 0, 0
		for _, rec := range r.addrs {
			ma, err := r.mgr.Address(ns, rec.addr)
			if err != nil {
				r.viol("watching_only_forgot_address", rec.id.Kind)
				continue
			}
			switch a := ma.(type) {
			case waddrmgr.ManagedPubKeyAddress:
				nPriv++
				pk, err := a.PrivKey()
				if err == nil && pk != nil {
					r.viol("watching_only_returns_private", "PrivKey")
				}
				answer("privkey", err == nil && pk != nil, err)
				w, err := a.ExportPrivKey()
				if err == nil && w != nil {
					r.viol("watching_only_returns_private", "ExportPrivKey")
				}
				answer("exportprivkey", err == nil && w != nil, err)
			case waddrmgr.ManagedScriptAddress:
				if rec.secret {
					nScr++
					s, err := a.Script()
					if err == nil && len(s) > 0 {
						r.viol("watching_only_returns_private", "Script")
					}
					answer("secretscript", err == nil && len(s) > 0, err)
					if ta, ok := a.(waddrmgr.ManagedTaprootScriptAddress); ok {
						if ts, err := ta.TaprootScript(); err == nil && ts != nil {
							r.viol("watching_only_returns_private", "TaprootScript")
						}
					}
				}
			}
			if rec.id.Kind == "ch" {
				sm, err := r.mgr.FetchScopedKeyManager(rec.scope)
				if err != nil {
					continue
				}
				nDerive++
				if ma2, err := sm.DeriveFromKeyPath(ns, rec.path); err == nil {
					if pa, ok := ma2.(waddrmgr.ManagedPubKeyAddress); ok {
						if pk, err := pa.PrivKey(); err == nil && pk != nil {
							r.viol("watching_only_returns_private", "DeriveFromKeyPath")
						}
					}
				}
				if pk, err := sm.DeriveFromKeyPathCache(rec.path); err == nil && pk != nil {
					r.viol("watching_only_returns_private", "DeriveFromKeyPathCache")
				}
			}
		}
		note(fmt.Sprintf("addresses=%d privkey_probes=%d secret_script_probes=%d derive_probes=%d", len(r.addrs), nPriv, nScr, nDerive))
		if privBlob != nil {
			pt, err := r.mgr.Decrypt(waddrmgr.CKTPrivate, privBlob)
			if err == nil && len(pt) > 0 {
				r.viol("watching_only_returns_private", "Decrypt(CKTPrivate)")
			}
			answer("decryptprivate", err == nil && len(pt) > 0, err)
			note("decrypt_private_probe")
		}
		if scriptBlob != nil {
			pt, err := r.mgr.Decrypt(waddrmgr.CKTScript, scriptBlob)
			if err == nil && len(pt) > 0 {
				r.viol("watching_only_returns_private", "Decrypt(CKTScript)")
			}
			answer("decryptscript", err == nil && len(pt) > 0, err)
			note("decrypt_script_probe")
		}
		return nil
	})
	// calls that would write: each must be refused (its transaction is
	// rolled back because the closure returns the error)
	errRefused := errors.New("refused as expected")
	for sc := range r.scopes {
		sm, err := r.mgr.FetchScopedKeyManager(sc)
		if err != nil {
			continue
		}
		var callErr error
		err = r.update(func(ns walletdb.ReadWriteBucket) error {
			if _, err := sm.NewAccount(ns, "wo-probe"); err != nil {
				callErr = err
				return errRefused
			}
			return nil
		})
		if err == nil {
			r.viol("watching_only_returns_private", "NewAccount")
		}
		answer("newaccount", err == nil, callErr)
		break
	}
	var chErr error
	err := r.update(func(ns walletdb.ReadWriteBucket) error {
		if err := r.mgr.ChangePassphrase(ns, r.privPass, []byte("another-private-pass"), true, &waddrmgr.FastScryptOptions); err != nil {
			chErr = err
			return errRefused
		}
		return nil
	})
	if err == nil {
		r.viol("watching_only_unlocks", "ChangePassphrase(private)")
	}
	answer("changeprivatepassphrase", err == nil, chErr)
	note("new_account_probe change_private_passphrase_probe")
}

// ------------------------------------------------------------ one history

func (r *run) classify(obs *c04OpObs, txRecorded bool) {
	for _, h := range obs.Hits {
		switch h.Class {
		case "secret":
			r.viol("secret_in_file", h.Site)
		case "passphrase":
			r.viol("passphrase_in_file", h.Site)
		case "sensitive":
			if !txRecorded {
				r.viol("sensitive_in_file_before_tx", h.Site)
			}
		case "keymat":
			// bytes of a master or crypto key in the clear: outside the
			// property's list, reported as a broken correspondence
			r.tag("key_material_in_file:" + h.Site)
		}
	}
}

func runMgr(in c04Input) (c04Case, error) {
	cs := c04Case{In: in, Obs: []c04OpObs{}, Oracle: []string{}, Tags: []string{}}
	seed, err := hex.DecodeString(in.Seed)
	if err != nil {
		return cs, err
	}
	r, err := newRun(seed)
	if err != nil {
		return cs, err
	}
	defer r.close()
	raw, err := walletdb.Create("bdb", r.path, true, time.Minute, false)
	if err != nil {
		return cs, err
	}
	r.raw = raw
	r.brute = in.Brute
	r.db = proxydb.New(raw)
	r.db.SetHooks(&proxydb.Hooks{AfterCommit: func(tx *proxydb.TxInfo) { r.commits++ }})

	lastOK := -1
	for i, op := range in.Ops {
		obs := c04OpObs{}
		before := r.commits
		err := r.exec(op)
		obs.OK = err == nil
		if err != nil {
			obs.Err = err.Error()
			if err == errNoMgr && op.K != "create" {
				obs.Err = "no manager"
			}
		}
		obs.Commits = r.commits - before
		if obs.OK || r.root != nil {
			// after a committed call AND after a failed (rolled back) one
			full := obs.OK && (op.K == "create" || op.K == "convert" || i == len(in.Ops)-1)
			r.snapshot(&obs, full)
			r.classify(&obs, false)
			if !obs.Canary {
				r.tag("canary_missed")
			}
			if !obs.OK {
				r.tag("failed_call_scanned")
				if obs.NChanged != 0 || obs.Commits != 0 {
					r.tag("failed_call_changed_database:" + op.K)
				}
			}
		}
		if obs.OK {
			if op.K == "reopen" && r.mgr != nil && r.mgr.WatchOnly() {
				r.apiChecks(&obs)
				r.tag("api_checked")
			}
			lastOK = i
		}
		r.tag("op:" + op.K)
		if !obs.OK {
			r.tag("failed:" + op.K)
		}
		cs.Obs = append(cs.Obs, obs)
	}
	_ = lastOK
	// a last look at a consistent copy taken through the database API
	if r.root != nil {
		var buf bytes.Buffer
		if err := r.raw.Copy(&buf); err == nil {
			o := c04OpObs{Hits: r.sc.scan(buf.Bytes())}
			r.classify(&o, false)
			r.tag("copy_scanned")
		}
	}
	if r.converted {
		r.tag("converted")
		for _, o := range cs.Obs {
			if o.Residue != nil {
				if o.Residue.LiveSealedPrivate > 0 {
					r.tag("residue:live_sealed_private")
					for _, k := range o.Residue.LiveKinds {
						r.tag("residue_kind:" + k)
					}
				}
				if o.Residue.FreeCiphertexts > 0 {
					r.tag("residue:old_ciphertext_in_free_pages")
				}
				if o.Residue.FreeOpenable > 0 {
					r.tag("residue:old_ciphertext_in_free_pages_opens_with_old_private_passphrase")
					for _, k := range o.Residue.FreeKinds {
						r.tag("residue_free:" + k)
					}
				}
				if o.Residue.OldParams {
					r.tag("residue:old_master_params_in_free_pages")
				}
				if o.Residue.BruteOpens >= 0 {
					r.tag("brute_force_open_scan")
					if o.Residue.BruteOpens > o.Residue.BruteExpected {
						r.tag("residue:private_ciphertext_never_seen_in_a_row")
					}
				}
			}
		}
	}
	if len(r.addrs) > 0 {
		r.tag("has_addresses")
	}
	for k := range r.oracle {
		cs.Oracle = append(cs.Oracle, k)
	}
	sort.Strings(cs.Oracle)
	for k := range r.sites {
		cs.Sites = append(cs.Sites, k)
	}
	sort.Strings(cs.Sites)
	if len(cs.Sites) > 0 {
		cs.Site = strings.SplitN(cs.Sites[0], "@", 2)[1]
	}
	for k := range r.tags {
		cs.Tags = append(cs.Tags, k)
	}
	sort.Strings(cs.Tags)
	return cs, nil
}

// -------------------------------------------------------------- generator

var defaultScopes = [][2]uint32{{49, 0}, {84, 0}, {86, 0}, {44, 0}}

type genState struct {
	r        *gen.R
	unlocked bool
	wo       bool
	scopes   [][2]uint32
	accts    map[[2]uint32][]uint32
	last     map[[2]uint32]uint32
	addrs    []genAddr
	next     map[string]uint32
	nextID   int
	nextName int
	names    int
}

type genAddr struct {
	s  [2]uint32
	id c04AddrID
}

func (g *genState) scope() [2]uint32 { return g.scopes[g.r.Intn(len(g.scopes))] }

func (g *genState) name() (int, int) {
	g.nextName++
	return g.nextName + 1, g.r.Range(3, 12)
}

func c04Gen(r *gen.R, tier string) c04Input {
	in := c04Input{Mode: "mgr", Seed: hex.EncodeToString(r.Bytes(32))}
	g := &genState{r: r, scopes: append([][2]uint32{}, defaultScopes...), accts: map[[2]uint32][]uint32{},
		last: map[[2]uint32]uint32{}, next: map[string]uint32{}}
	for _, s := range g.scopes {
		g.accts[s] = []uint32{0}
	}
	ops := []c04Op{{K: "create"}, {K: "reopen"}}
	if r.Chance(9, 10) {
		ops = append(ops, c04Op{K: "unlock", PassOK: true})
		g.unlocked = true
	}
	emit := func(o c04Op) { ops = append(ops, o) }
	step := func() {
		s := g.scope()
		w := []int{10, 4, 5, 3, 6, 3, 2, 4, 2, 2, 3, 2, 1, 1, 1, 1}
		if g.wo {
			w = []int{10, 1, 3, 4, 4, 4, 2, 2, 0, 2, 3, 2, 0, 0, 1, 1}
		}
		switch r.Pick(w...) {
		case 0: // derive
			a := g.accts[s][r.Intn(len(g.accts[s]))]
			if r.Chance(1, 25) {
				a = 2147483647
			}
			internal := r.Chance(1, 3)
			n := uint32(r.Range(1, 3))
			emit(c04Op{K: "derive", Scope: s, Acct: a, Internal: internal, N: n})
			key := fmt.Sprintf("%v/%d/%v", s, a, internal)
			if a != 2147483647 {
				for i := uint32(0); i < n; i++ {
					g.addrs = append(g.addrs, genAddr{s, c04AddrID{Kind: "ch", Purpose: s[0], Coin: s[1], Acct: a, Internal: internal, Idx: g.next[key]}})
					g.next[key]++
				}
			}
		case 1: // new account
			id, l := g.name()
			emit(c04Op{K: "newacct", Scope: s, Name: id, NameLen: l})
			if g.unlocked && !g.wo {
				g.last[s]++
				g.accts[s] = append(g.accts[s], g.last[s])
			}
		case 2: // import private key
			g.nextID++
			id := g.nextID
			if r.Chance(1, 8) && g.nextID > 1 {
				id = r.Range(1, g.nextID-1) // duplicate or re-import
			}
			comp := true
			if s == [2]uint32{44, 0} {
				comp = r.Chance(2, 3)
			}
			emit(c04Op{K: "imppriv", Scope: s, ID: id, Comp: comp})
			if g.unlocked || g.wo {
				g.addrs = append(g.addrs, genAddr{s, c04AddrID{Kind: "imp", N: impSym(id, comp)}})
			}
		case 3: // import public key
			g.nextID++
			emit(c04Op{K: "imppub", Scope: s, ID: g.nextID})
			g.addrs = append(g.addrs, genAddr{s, c04AddrID{Kind: "imp", N: impSym(g.nextID, true)}})
		case 4: // import script
			g.nextID++
			kind := []string{"p2sh", "wsh", "tr"}[r.Pick(3, 4, 4)]
			secret := kind == "p2sh" || r.Chance(3, 5)
			if g.wo && r.Chance(3, 4) {
				secret = false
				if kind == "p2sh" {
					kind = "wsh"
				}
			}
			l := r.Range(20, 90)
			if kind == "tr" {
				l = 46 + r.Range(10, 80)
			}
			emit(c04Op{K: "impscript", Scope: s, ID: g.nextID, SKind: kind, Secret: secret, Len: l})
		case 5: // import xpub account
			g.nextID++
			id, l := g.name()
			emit(c04Op{K: "impxpub", Scope: s, ID: g.nextID, Name: id, NameLen: l, Schema: r.Chance(1, 2)})
			g.last[s]++
			g.accts[s] = append(g.accts[s], g.last[s])
		case 6: // rename
			a := g.accts[s][r.Intn(len(g.accts[s]))]
			id, l := g.name()
			emit(c04Op{K: "rename", Scope: s, Acct: a, Name: id, NameLen: l})
		case 7: // change passphrase
			emit(c04Op{K: "chpass", Private: r.Chance(1, 2), PassOK: r.Chance(9, 10)})
		case 8: // lock
			emit(c04Op{K: "lock"})
			if !g.wo {
				g.unlocked = false
			}
		case 9: // unlock
			ok := r.Chance(5, 6)
			emit(c04Op{K: "unlock", PassOK: ok})
			if !g.wo {
				g.unlocked = ok
			}
		case 10: // mark used
			if len(g.addrs) > 0 {
				a := g.addrs[r.Intn(len(g.addrs))]
				emit(c04Op{K: "markused", Scope: a.s, Addr: &a.id})
			} else {
				emit(c04Op{K: "syncto", Height: int32(r.Range(1, 50))})
			}
		case 11: // synced to
			h := int32(r.Range(1, 300))
			if r.Chance(1, 5) {
				h = int32(10000 + r.Range(1, 300))
			}
			emit(c04Op{K: "syncto", Height: h})
		case 12: // new scope
			ns := [2]uint32{uint32(1017 + r.Intn(2)), uint32(r.Intn(2))}
			emit(c04Op{K: "newscope", Scope: ns})
			if g.unlocked && !g.wo {
				known := false
				for _, x := range g.scopes {
					known = known || x == ns
				}
				if !known {
					g.scopes = append(g.scopes, ns)
					g.accts[ns] = []uint32{0}
					g.last[ns] = 0
				}
			}
		case 13:
			emit(c04Op{K: "neuter"})
		case 14:
			emit(c04Op{K: "reopen"})
			if !g.wo {
				g.unlocked = false
			}
		case 15:
			emit(c04Op{K: "create"})
		}
	}
	n := r.Range(4, 12)
	if tier == "thorough" {
		n = r.Range(4, 24)
	}
	for i := 0; i < n; i++ {
		step()
	}
	if r.Chance(7, 10) {
		emit(c04Op{K: "convert"})
		g.wo = true
		g.unlocked = false
		emit(c04Op{K: "reopen"})
		for i := r.Range(0, 4); i > 0; i-- {
			step()
		}
		if r.Chance(1, 3) {
			emit(c04Op{K: "reopen"})
		}
	}
	emit(c04Op{K: "syncto", Height: int32(r.Range(301, 400))})
	in.Ops = ops
	return in
}

// a fixed history that meets every operation once, then converts
func c04Systematic(seed []byte, taprootSecret bool) c04Input {
	s84, s44, s86, s49 := [2]uint32{84, 0}, [2]uint32{44, 0}, [2]uint32{86, 0}, [2]uint32{49, 0}
	a1 := c04AddrID{Kind: "ch", Purpose: 84, Coin: 0, Acct: 1, Idx: 1}
	ops := []c04Op{
		{K: "create"}, {K: "reopen"}, {K: "derive", Scope: s84, Acct: 0, N: 2}, {K: "unlock", PassOK: true},
		{K: "newacct", Scope: s84, Name: 2, NameLen: 6}, {K: "derive", Scope: s84, Acct: 1, N: 3},
		{K: "derive", Scope: s49, Acct: 0, N: 1}, {K: "derive", Scope: s49, Acct: 0, Internal: true, N: 1},
		{K: "derive", Scope: s86, Acct: 0, N: 2}, {K: "derive", Scope: s44, Acct: 0, Internal: true, N: 2},
		{K: "imppriv", Scope: s44, ID: 1, Comp: false}, {K: "imppriv", Scope: s84, ID: 2, Comp: true},
		{K: "imppriv", Scope: s86, ID: 3, Comp: true}, {K: "imppub", Scope: s49, ID: 4},
		{K: "impscript", Scope: s84, ID: 5, SKind: "p2sh", Secret: true, Len: 35},
		{K: "impscript", Scope: s84, ID: 6, SKind: "wsh", Secret: true, Len: 71},
		{K: "impscript", Scope: s84, ID: 7, SKind: "wsh", Secret: false, Len: 40},
		{K: "impscript", Scope: s86, ID: 8, SKind: "tr", Secret: false, Len: 46 + 30},
	}
	if taprootSecret {
		ops = append(ops, c04Op{K: "impscript", Scope: s86, ID: 9, SKind: "tr", Secret: true, Len: 46 + 24})
	}
	ops = append(ops, []c04Op{
		{K: "impxpub", Scope: s84, ID: 10, Name: 3, NameLen: 9, Schema: true}, {K: "derive", Scope: s84, Acct: 2, N: 2},
		{K: "rename", Scope: s84, Acct: 1, Name: 4, NameLen: 5}, {K: "markused", Scope: s84, Addr: &a1},
		{K: "chpass", Private: true, PassOK: true}, {K: "chpass", Private: false, PassOK: true},
		{K: "chpass", Private: true, PassOK: false}, {K: "newscope", Scope: [2]uint32{1017, 1}},
		{K: "derive", Scope: [2]uint32{1017, 1}, Acct: 0, N: 1}, {K: "syncto", Height: 7}, {K: "syncto", Height: 10007},
		{K: "lock"}, {K: "derive", Scope: s84, Acct: 1, Internal: true, N: 1}, {K: "unlock", PassOK: false},
		{K: "unlock", PassOK: true}, {K: "neuter"}, {K: "newscope", Scope: [2]uint32{1018, 0}},
		{K: "convert"}, {K: "reopen"}, {K: "derive", Scope: s84, Acct: 1, N: 1}, {K: "imppriv", Scope: s84, ID: 11, Comp: true},
		{K: "impscript", Scope: s84, ID: 12, SKind: "wsh", Secret: false, Len: 33},
		{K: "impscript", Scope: s84, ID: 13, SKind: "p2sh", Secret: true, Len: 33},
		{K: "chpass", Private: false, PassOK: true}, {K: "convert"}, {K: "reopen"}, {K: "syncto", Height: 10008},
	}...)
	return c04Input{Mode: "mgr", Seed: hex.EncodeToString(seed), Brute: true, Ops: ops}
}

func main() {
	probe := false
	core.Main("c04", func(fs *flag.FlagSet) {
		fs.BoolVar(&probe, "probe", false, "determine the regenerated facts by running the witness scenarios; print JSON")
	}, func(c *core.Common, out *core.Emitter) error {
		if probe {
			probeMain()
			return nil
		}
		// inputs are generated sequentially from the seed; the runs are
		// independent (own directory, own database) and executed by a pool
		// of workers; the cases are emitted in input order
		type job struct {
			in   c04Input
			tags []string
		}
		var jobs []job
		runOne := func(in c04Input, tags ...string) error {
			jobs = append(jobs, job{in, tags})
			return nil
		}
		flush := func() error {
			type res struct {
				cs  c04Case
				err error
			}
			results := make([]res, len(jobs))
			workers := runtime.NumCPU()
			if workers > 8 {
				workers = 8
			}
			if workers < 1 {
				workers = 1
			}
			var wg sync.WaitGroup
			next := make(chan int)
			for w := 0; w < workers; w++ {
				wg.Add(1)
				go func() {
					defer wg.Done()
					for i := range next {
						var cs c04Case
						var err error
						t0 := time.Now()
						if jobs[i].in.Mode == "wallet" {
							cs, err = runWallet(jobs[i].in)
						} else {
							cs, err = runMgr(jobs[i].in)
						}
						cs.Tags = append(cs.Tags, jobs[i].tags...)
						cs.WallMS = time.Since(t0).Milliseconds()
						results[i] = res{cs, err}
					}
				}()
			}
			for i := range jobs {
				next <- i
			}
			close(next)
			wg.Wait()
			for _, r := range results {
				if r.err != nil {
					return r.err
				}
				out.Emit(r.cs)
			}
			return nil
		}
		if c.Replay != "" {
			err := core.ReadReplay(c.Replay, func(raw json.RawMessage) error {
				var cs struct {
					In c04Input `json:"in"`
				}
				if err := json.Unmarshal(raw, &cs); err != nil {
					return err
				}
				return runOne(cs.In, "replay")
			})
			if err != nil {
				return err
			}
			return flush()
		}
		r := gen.New(c.Seed, 4)
		if err := runOne(c04Systematic(r.Bytes(32), true), "systematic"); err != nil {
			return err
		}
		if err := runOne(c04Systematic(r.Bytes(32), false), "systematic"); err != nil {
			return err
		}
		nWallet := 9
		if c.Tier == "thorough" {
			nWallet = 36
		}
		for i := 0; i < nWallet; i++ {
			if err := runOne(c04WalletGen(r, i), "wallet_level"); err != nil {
				return err
			}
		}
		for i := 0; i < c.N; i++ {
			in := c04Gen(r, c.Tier)
			in.Brute = i%20 == 0
			if err := runOne(in); err != nil {
				return err
			}
		}
		return flush()
	})
}
