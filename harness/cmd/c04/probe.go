package main

// Behavioural determination of the two facts lib/extract_c04.py regenerates
// (used only when the shape of the source is not recognised):
//
//	wo_strips_taproot          - does ConvertToWatchingOnly blank the script
//	                             field of a secret taproot script row?
//	unlock_decrypts_script_key - under which key is a secret script sealed
//	                             after Unlock: the key persisted as
//	                             main/cscript, or the all-zero key?
//
// Both are read off the rows of a real database after running the witness
// scenario of the fact on the code built from the repository; see
// probe_facts in lib/extract_c04.py for why the scenarios determine them.

import (
	"encoding/binary"
	"encoding/json"
	"fmt"
	"os"
	"path/filepath"
	"time"

	"github.com/btcsuite/btcd/btcec/v2"
	"github.com/btcsuite/btcd/btcutil/hdkeychain"
	"github.com/btcsuite/btcd/txscript"
	"github.com/btcsuite/btcwallet/snacl"
	"github.com/btcsuite/btcwallet/waddrmgr"
	"github.com/btcsuite/btcwallet/walletdb"
)

type probeResult struct {
	WoStripsTaproot         *bool    `json:"wo_strips_taproot"`
	UnlockDecryptsScriptKey *bool    `json:"unlock_decrypts_script_key"`
	Instances               int      `json:"instances"`
	Detail                  []string `json:"detail"`
	Errors                  []string `json:"errors"`
	// Sites: (operation, slot, label of the key that opens the field, class of
	// the plaintext) for every sealed field of every row each operation of
	// the systematic history wrote before the conversion - the behavioural
	// counterpart of the sealing table harness/cmd/extract-c04 reads off the source
	Sites [][4]string `json:"sites"`
}

type probeScript struct {
	typ    byte // address row type
	secret bool
	blob   []byte // sealed script field (empty = blanked)
}

// probeRows returns the script rows of every scope.
func probeRows(db walletdb.DB) ([]probeScript, map[string][]byte, error) {
	var out []probeScript
	main := map[string][]byte{}
	err := walletdb.View(db, func(tx walletdb.ReadTx) error {
		ns := tx.ReadBucket(c04NS)
		mb := ns.NestedReadBucket([]byte("main"))
		_ = mb.ForEach(func(k, v []byte) error {
			if v != nil {
				main[string(k)] = append([]byte(nil), v...)
			}
			return nil
		})
		sb := ns.NestedReadBucket([]byte("scope"))
		return sb.ForEach(func(sk, sv []byte) error {
			if sv != nil {
				return nil
			}
			ab := sb.NestedReadBucket(sk).NestedReadBucket([]byte("addr"))
			if ab == nil {
				return nil
			}
			return ab.ForEach(func(k, v []byte) error {
				if v == nil || len(v) < 18 {
					return nil
				}
				raw := v[18:]
				switch v[0] {
				case 2:
					hl := int(binary.LittleEndian.Uint32(raw[0:4]))
					sl := int(binary.LittleEndian.Uint32(raw[4+hl : 8+hl]))
					out = append(out, probeScript{typ: 2, secret: true, blob: append([]byte(nil), raw[8+hl:8+hl+sl]...)})
				case 3, 4:
					hl := int(binary.LittleEndian.Uint32(raw[2:6]))
					sl := int(binary.LittleEndian.Uint32(raw[6+hl : 10+hl]))
					out = append(out, probeScript{typ: v[0], secret: raw[1] == 1, blob: append([]byte(nil), raw[10+hl:10+hl+sl]...)})
				}
				return nil
			})
		})
	})
	return out, main, err
}

type probeWallet struct {
	dir  string
	db   walletdb.DB
	mgr  *waddrmgr.Manager
	r    *run
	pub  []byte
	priv []byte
}

func newProbeWallet(seedByte byte) (*probeWallet, error) {
	seed := make([]byte, 32)
	for i := range seed {
		seed[i] = seedByte + byte(i)
	}
	dir, err := os.MkdirTemp(tmpBase(), "vh-c04-probe-")
	if err != nil {
		return nil, err
	}
	db, err := walletdb.Create("bdb", filepath.Join(dir, "w.db"), true, time.Minute, false)
	if err != nil {
		os.RemoveAll(dir)
		return nil, err
	}
	w := &probeWallet{dir: dir, db: db, pub: []byte("probe-public-pass"), priv: []byte("probe-private-pass")}
	w.r = &run{seed: seed, impKeys: map[int]*btcec.PrivateKey{}}
	root, err := hdkeychain.NewMaster(seed, c04Params)
	if err != nil {
		w.close()
		return nil, err
	}
	err = walletdb.Update(db, func(tx walletdb.ReadWriteTx) error {
		ns, err := tx.CreateTopLevelBucket(c04NS)
		if err != nil {
			return err
		}
		return waddrmgr.Create(ns, root, w.pub, w.priv, c04Params, &waddrmgr.FastScryptOptions, time.Unix(1600000000, 0))
	})
	if err != nil {
		w.close()
		return nil, err
	}
	return w, w.open()
}

func (w *probeWallet) open() error {
	if w.mgr != nil {
		w.mgr.Close()
	}
	return walletdb.View(w.db, func(tx walletdb.ReadTx) error {
		m, err := waddrmgr.Open(tx.ReadBucket(c04NS), w.pub, c04Params)
		w.mgr = m
		return err
	})
}

func (w *probeWallet) unlock() error {
	return walletdb.View(w.db, func(tx walletdb.ReadTx) error { return w.mgr.Unlock(tx.ReadBucket(c04NS), w.priv) })
}

func (w *probeWallet) close() {
	if w.mgr != nil {
		w.mgr.Close()
	}
	if w.db != nil {
		w.db.Close()
	}
	os.RemoveAll(w.dir)
}

// imp imports one script; kind p2sh | wsh | tr.
func (w *probeWallet) imp(scope waddrmgr.KeyScope, id int, kind string, secret bool, n int) error {
	sm, err := w.mgr.FetchScopedKeyManager(scope)
	if err != nil {
		return err
	}
	script := w.r.scriptBytes(id, n)
	return walletdb.Update(w.db, func(tx walletdb.ReadWriteTx) error {
		ns := tx.ReadWriteBucket(c04NS)
		switch kind {
		case "p2sh":
			_, err := sm.ImportScript(ns, script, &waddrmgr.BlockStamp{})
			return err
		case "wsh":
			_, err := sm.ImportWitnessScript(ns, script, &waddrmgr.BlockStamp{}, 0, secret)
			return err
		}
		leaf := txscript.NewBaseTapLeaf(script)
		ts := &waddrmgr.Tapscript{Type: waddrmgr.TapscriptTypeFullTree,
			ControlBlock: &txscript.ControlBlock{InternalKey: w.r.impKey(100000 + id).PubKey()},
			Leaves:       []txscript.TapLeaf{leaf}}
		_, err := sm.ImportTaprootScript(ns, ts, &waddrmgr.BlockStamp{}, 1, secret)
		return err
	})
}

// storedScriptKey derives the key persisted as main/cscript from the private
// passphrase and the stored parameters.
func (w *probeWallet) storedScriptKey(main map[string][]byte) (*snacl.CryptoKey, error) {
	var sk snacl.SecretKey
	if err := sk.Unmarshal(main["mpriv"]); err != nil {
		return nil, err
	}
	p := append([]byte(nil), w.priv...)
	if err := sk.DeriveKey(&p); err != nil {
		return nil, err
	}
	pt, err := sk.Key.Decrypt(main["cscript"])
	if err != nil {
		return nil, err
	}
	var ck snacl.CryptoKey
	copy(ck[:], pt)
	return &ck, nil
}

func runProbe() probeResult {
	res := probeResult{Detail: []string{}, Errors: []string{}}
	fail := func(f string, a ...interface{}) { res.Errors = append(res.Errors, fmt.Sprintf(f, a...)) }
	scopes := []waddrmgr.KeyScope{waddrmgr.KeyScopeBIP0086, waddrmgr.KeyScopeBIP0084, waddrmgr.KeyScopeBIP0044}

	// ---- which key seals a secret script after Unlock
	zeroOpens, storedOpens, total := 0, 0, 0
	// ---- is a secret taproot script blanked by the conversion
	trBlank, trKept := 0, 0
	for inst := 0; inst < 3; inst++ {
		w, err := newProbeWallet(byte(17 + 40*inst))
		if err != nil {
			fail("instance %d: %v", inst, err)
			continue
		}
		func() {
			defer w.close()
			if err := w.unlock(); err != nil {
				fail("instance %d: unlock: %v", inst, err)
				return
			}
			if inst == 1 {
				// the same after a lock / unlock cycle
				if err := w.mgr.Lock(); err != nil {
					fail("instance %d: lock: %v", inst, err)
				}
				if err := w.unlock(); err != nil {
					fail("instance %d: unlock: %v", inst, err)
					return
				}
			}
			if inst == 2 {
				// the same on a manager opened from the file
				if err := w.open(); err != nil {
					fail("instance %d: reopen: %v", inst, err)
					return
				}
				if err := w.unlock(); err != nil {
					fail("instance %d: unlock: %v", inst, err)
					return
				}
			}
			id := 0
			for i, sc := range scopes {
				for _, k := range []struct {
					kind   string
					secret bool
					n      int
				}{{"p2sh", true, 25 + 3*i}, {"wsh", true, 34 + 5*i}, {"tr", true, 12 + 9*i}, {"tr", false, 30}, {"wsh", false, 28}} {
					id++
					if err := w.imp(sc, id, k.kind, k.secret, k.n); err != nil {
						fail("instance %d: import %s in %v: %v", inst, k.kind, sc, err)
					}
				}
			}
			rows, main, err := probeRows(w.db)
			if err != nil {
				fail("instance %d: %v", inst, err)
				return
			}
			stored, err := w.storedScriptKey(main)
			if err != nil {
				fail("instance %d: stored script key: %v", inst, err)
				return
			}
			var zero snacl.CryptoKey
			for _, r := range rows {
				if !r.secret {
					continue
				}
				total++
				_, ez := zero.Decrypt(r.blob)
				_, es := stored.Decrypt(r.blob)
				if ez == nil {
					zeroOpens++
				}
				if es == nil {
					storedOpens++
				}
			}
			before := len(rows)
			if inst == 1 {
				_ = w.mgr.Lock()
			}
			err = walletdb.Update(w.db, func(tx walletdb.ReadWriteTx) error {
				return w.mgr.ConvertToWatchingOnly(tx.ReadWriteBucket(c04NS))
			})
			if err != nil {
				fail("instance %d: convert: %v", inst, err)
				return
			}
			rows, _, err = probeRows(w.db)
			if err != nil || len(rows) != before {
				fail("instance %d: rows after conversion: %d (before %d) %v", inst, len(rows), before, err)
				return
			}
			for _, r := range rows {
				switch {
				case r.typ == 4 && r.secret:
					if len(r.blob) == 0 {
						trBlank++
					} else {
						trKept++
					}
				case (r.typ == 2 || r.typ == 3) && r.secret:
					// control: the row types every tree strips; if these are
					// kept the scenario says nothing about taproot rows alone
					if len(r.blob) != 0 {
						fail("instance %d: control row of type %d not blanked by the conversion", inst, r.typ)
					}
				case !r.secret:
					if len(r.blob) == 0 {
						fail("instance %d: public script row of type %d blanked by the conversion", inst, r.typ)
					}
				}
			}
			res.Instances++
		}()
	}
	res.Detail = append(res.Detail, fmt.Sprintf("secret script fields: %d, open under the all-zero key: %d, under the stored script key: %d",
		total, zeroOpens, storedOpens))
	res.Detail = append(res.Detail, fmt.Sprintf("secret taproot rows after conversion: blanked %d, kept %d", trBlank, trKept))
	t, f := true, false
	switch {
	case total == 0:
		fail("no secret script row was written")
	case zeroOpens == total && storedOpens == 0:
		res.UnlockDecryptsScriptKey = &f
	case storedOpens == total && zeroOpens == 0:
		res.UnlockDecryptsScriptKey = &t
	default:
		fail("secret scripts are not uniformly sealed (zero key %d, stored key %d of %d)", zeroOpens, storedOpens, total)
	}
	switch {
	case trBlank+trKept == 0:
		fail("no secret taproot row found after conversion")
	case trKept == 0:
		res.WoStripsTaproot = &t
	case trBlank == 0:
		res.WoStripsTaproot = &f
	default:
		fail("secret taproot rows are not treated uniformly (blanked %d, kept %d)", trBlank, trKept)
	}
	return res
}

// probeSites runs the systematic history (every operation once) on the built
// code and reports, per operation, the sealed fields it wrote: which key
// opens each and what the plaintext is.
func probeSites(res *probeResult) {
	seed := make([]byte, 32)
	for i := range seed {
		seed[i] = byte(201 + 3*i)
	}
	in := c04Systematic(seed, true)
	in.Brute = false
	cs, err := runMgr(in)
	if err != nil {
		res.Errors = append(res.Errors, "sites: "+err.Error())
		return
	}
	seen := map[[4]string]bool{}
	for i, op := range cs.In.Ops {
		if op.K == "convert" {
			break
		}
		if i >= len(cs.Obs) || !cs.Obs[i].OK {
			continue
		}
		name := op.K
		if op.K == "chpass" {
			name = "chpass_public"
			if op.Private {
				name = "chpass_private"
			}
		}
		for _, f := range cs.Obs[i].Facts {
			t := [4]string{name, f.Slot, f.Key, f.Content}
			if !seen[t] {
				seen[t] = true
				res.Sites = append(res.Sites, t)
			}
		}
	}
	if len(res.Sites) == 0 {
		res.Errors = append(res.Errors, "sites: the systematic history wrote no sealed field")
	}
}

func probeMain() {
	res := runProbe()
	probeSites(&res)
	b, _ := json.Marshal(res)
	os.Stdout.Write(append(b, '\n'))
}
