package main

// Wallet-level runs: the same scan after every commit of EVERY namespace
// (address manager and transaction store), driven through the real wallet
// package (wallet.Create, Open, Unlock, NewAddress, imports, passphrase
// changes, the watching-only conversion through InitAccounts, received
// transactions through the notification handler, SendOutputs through the
// create/sign/record/publish path, failed sends).  Until the first
// transaction is recorded no sensitive item may be in the clear either;
// afterwards output scripts and public keys are expected in the clear (the
// property's "until a transaction is recorded") and only the secrets are
// looked for - in the whole file, transaction store included.  No facts are
// compared with the model here: these cases are decided by the oracle only
// (byte scan + decrypt-and-classify of every sealed blob).

import (
	"encoding/hex"
	"errors"
	"fmt"
	"sort"
	"strings"
	"sync"
	"time"

	"github.com/btcsuite/btcd/btcjson"
	"github.com/btcsuite/btcd/btcutil"
	"github.com/btcsuite/btcd/btcutil/hdkeychain"
	"github.com/btcsuite/btcd/chaincfg/chainhash"
	"github.com/btcsuite/btcd/txscript"
	"github.com/btcsuite/btcd/wire"
	"github.com/btcsuite/btcwallet/chain"
	"github.com/btcsuite/btcwallet/waddrmgr"
	"github.com/btcsuite/btcwallet/wallet"
	"github.com/btcsuite/btcwallet/walletdb"
	"github.com/btcsuite/btcwallet/wtxmgr"

	"verifharness/internal/gen"
	"verifharness/internal/proxydb"
	"verifharness/internal/walletenv"
)

type c04Chain struct{}

var _ chain.Interface = (*c04Chain)(nil)

func (c04Chain) Start() error     { return nil }
func (c04Chain) Stop()            {}
func (c04Chain) WaitForShutdown() {}
func (c04Chain) GetBestBlock() (*chainhash.Hash, int32, error) {
	return c04Params.GenesisHash, 0, nil
}
func (c04Chain) GetBlock(*chainhash.Hash) (*wire.MsgBlock, error) {
	return c04Params.GenesisBlock, nil
}
func (c04Chain) GetBlockHash(int64) (*chainhash.Hash, error) { return c04Params.GenesisHash, nil }
func (c04Chain) GetBlockHeader(*chainhash.Hash) (*wire.BlockHeader, error) {
	return &c04Params.GenesisBlock.Header, nil
}
func (c04Chain) IsCurrent() bool { return true }
func (c04Chain) FilterBlocks(*chain.FilterBlocksRequest) (*chain.FilterBlocksResponse, error) {
	return nil, nil
}
func (c04Chain) BlockStamp() (*waddrmgr.BlockStamp, error) {
	return &waddrmgr.BlockStamp{Hash: *c04Params.GenesisHash, Timestamp: c04Params.GenesisBlock.Header.Timestamp}, nil
}
func (c04Chain) SendRawTransaction(tx *wire.MsgTx, _ bool) (*chainhash.Hash, error) {
	h := tx.TxHash()
	return &h, nil
}
func (c04Chain) Rescan(*chainhash.Hash, []btcutil.Address, map[wire.OutPoint]btcutil.Address) error {
	return nil
}
func (c04Chain) NotifyReceived([]btcutil.Address) error { return nil }
func (c04Chain) NotifyBlocks() error                    { return nil }
func (c04Chain) Notifications() <-chan interface{}      { return nil }
func (c04Chain) BackEnd() string                        { return "verif" }
func (c04Chain) TestMempoolAccept([]*wire.MsgTx, float64) ([]*btcjson.TestMempoolAcceptResult, error) {
	return nil, nil
}
func (c04Chain) MapRPCErr(err error) error { return err }

type wrun struct {
	*run
	mu         sync.Mutex
	cur        *c04OpObs
	w          *wallet.Wallet
	txRecorded bool
	txScript   []byte
	stray      c04OpObs
}

func (x *wrun) locked(f func()) {
	x.mu.Lock()
	defer x.mu.Unlock()
	f()
}

func (x *wrun) hook(tx *proxydb.TxInfo) {
	x.mu.Lock()
	defer x.mu.Unlock()
	x.commits++
	if x.cur != nil {
		x.cur.Commits++
		x.snap(x.cur)
	} else {
		// a commit of a background goroutine between two operations
		x.snap(&x.stray)
		x.tag("background_commit_scanned")
	}
}

// snap scans the current image into obs (hits are de-duplicated by site).
func (x *wrun) snap(obs *c04OpObs) {
	var o c04OpObs
	x.snapshot(&o, false)
	seen := map[string]bool{}
	for _, h := range obs.Hits {
		seen[h.Class+h.Site] = true
	}
	for _, h := range o.Hits {
		if !seen[h.Class+h.Site] {
			seen[h.Class+h.Site] = true
			obs.Hits = append(obs.Hits, h)
		}
	}
	obs.NRows, obs.Needles, obs.Image, obs.Canary, obs.Residue = o.NRows, o.Needles, o.Image, o.Canary, o.Residue
	obs.Scanned, obs.WO, obs.Locked = true, o.WO, o.Locked
	obs.Opened += o.Opened
	obs.NChanged += o.NChanged
	obs.Extra = dedupFacts(append(obs.Extra, o.Extra...))
	x.classify(&o, x.txRecorded)
	if !o.Canary {
		x.tag("canary_missed")
	}
}

func (x *wrun) openWallet() error {
	w, err := wallet.OpenWithRetry(x.db, x.pubPass, nil, c04Params, 0, 10*time.Millisecond)
	if err != nil {
		return err
	}
	x.w = w
	x.mgr = w.Manager
	w.Start()
	w.SynchronizeRPC(c04Chain{})
	return nil
}

func (x *wrun) stopWallet() {
	if x.w != nil {
		x.w.Stop()
		x.w.WaitForShutdown()
		x.w = nil
		x.mgr = nil
	}
}

func (x *wrun) derived(s waddrmgr.KeyScope, acct uint32, internal bool, a btcutil.Address) error {
	ma, err := x.w.AddressInfo(a)
	if err != nil {
		return err
	}
	var rerr error
	x.locked(func() { rerr = x.recordDerived(s, acct, internal, []waddrmgr.ManagedAddress{ma}) })
	return rerr
}

func (x *wrun) wexec(op c04Op) error {
	s := scopeOf(op.Scope)
	switch op.K {
	case "create":
		root, err := hdkeychain.NewMaster(x.seed, c04Params)
		if err != nil {
			return err
		}
		var rerr error
		x.locked(func() {
			// everything Create is about to write is known beforehand
			x.root = root
			x.sc.addBytes("secret", "seed", x.seed)
			x.addPass(x.pubPass)
			x.addPass(x.privPass)
			x.addXprv("master_xprv", root)
			for sc, schema := range waddrmgr.ScopeAddrMap {
				if err := x.registerScope(sc, schema); err != nil {
					rerr = err
				}
			}
		})
		if rerr != nil {
			return rerr
		}
		if err := wallet.Create(x.db, x.pubPass, x.privPass, root, c04Params, time.Unix(1600000000, 0)); err != nil {
			return err
		}
		if err := x.openWallet(); err != nil {
			return err
		}
		// what the first sync would have recorded (ImportPrivateKey needs it)
		return walletdb.Update(x.db, func(tx walletdb.ReadWriteTx) error {
			return x.w.Manager.SetBirthdayBlock(tx.ReadWriteBucket(c04NS), waddrmgr.BlockStamp{
				Hash: *c04Params.GenesisHash, Timestamp: c04Params.GenesisBlock.Header.Timestamp}, true)
		})
	case "reopen":
		x.stopWallet()
		x.locked(func() { x.unlocked = false })
		return x.openWallet()
	case "unlock":
		pass := x.privPass
		if !op.PassOK {
			pass = []byte("wrong-" + string(pass))
		}
		err := x.w.Unlock(pass, nil)
		x.locked(func() { x.unlocked = err == nil })
		return err
	case "lock":
		x.w.Lock()
		_ = x.w.Locked()
		x.locked(func() { x.unlocked = false })
		return nil
	case "derive":
		for i := uint32(0); i < op.N; i++ {
			var a btcutil.Address
			var err error
			if op.Internal {
				a, err = x.w.NewChangeAddress(op.Acct, s)
			} else {
				a, err = x.w.NewAddress(op.Acct, s)
			}
			if err != nil {
				return err
			}
			if err := x.derived(s, op.Acct, op.Internal, a); err != nil {
				return err
			}
		}
		return nil
	case "newacct":
		name := x.accountName(op.Name, op.NameLen)
		// the next account number is not known to the harness for sure:
		// register the candidates' keys before the call
		var rerr error
		x.locked(func() {
			for a := uint32(1); a <= 6; a++ {
				if _, ok := x.accts[acctKey(s, a)]; !ok {
					if err := x.registerAccount(s, a, nil); err != nil {
						rerr = err
					}
					delete(x.accts, acctKey(s, a))
				}
			}
		})
		if rerr != nil {
			return rerr
		}
		acct, err := x.w.NextAccount(s, name)
		if err != nil {
			return err
		}
		x.locked(func() {
			x.names[name] = [2]int{op.Name, op.NameLen}
			rerr = x.registerAccount(s, acct, nil)
		})
		return rerr
	case "imppriv":
		pk := x.impKey(op.ID)
		x.locked(func() {
			x.addPrivKey("imported_privkey", pk)
			x.addPubKey("imported_pubkey", pk.PubKey())
		})
		wif, err := btcutil.NewWIF(pk, c04Params, op.Comp)
		if err != nil {
			return err
		}
		if _, err := x.w.ImportPrivateKey(s, wif, &waddrmgr.BlockStamp{}, false); err != nil {
			return err
		}
		want, err := addressFor(x.scopes[s].ExternalAddrType, pk.PubKey(), op.Comp)
		if err != nil {
			return err
		}
		x.locked(func() {
			x.addAddress("imported_address", want)
			x.remember(&addrRec{id: c04AddrID{Kind: "imp", N: impSym(op.ID, op.Comp)}, scope: s, addr: want, hasPriv: true})
		})
		return nil
	case "impscript":
		switch op.SKind {
		case "p2sh":
			script := x.scriptBytes(op.ID, op.Len)
			x.locked(func() { x.sc.addBytes("secret", "secret_script", script) })
			a, err := x.w.ImportP2SHRedeemScript(script)
			if err != nil {
				return err
			}
			x.locked(func() {
				x.addAddress("script_address", a)
				x.remember(&addrRec{id: c04AddrID{Kind: "scr", N: op.ID, HLen: 20}, scope: waddrmgr.KeyScopeBIP0044,
					addr: a, isScr: true, secret: true})
			})
			return nil
		case "tr":
			leaf := txscript.NewBaseTapLeaf(x.scriptBytes(op.ID, op.Len-46))
			ik := x.impKey(100000 + op.ID).PubKey()
			class, cat := "secret", "secret_script"
			if !op.Secret {
				class, cat = "sensitive", "public_script"
			}
			x.locked(func() { x.sc.addBytes(class, cat, leaf.Script) })
			ts := &waddrmgr.Tapscript{Type: waddrmgr.TapscriptTypeFullTree,
				ControlBlock: &txscript.ControlBlock{InternalKey: ik}, Leaves: []txscript.TapLeaf{leaf}}
			ma, err := x.w.ImportTaprootScript(s, ts, &waddrmgr.BlockStamp{}, 1, op.Secret)
			if err != nil {
				return err
			}
			x.locked(func() {
				x.addAddress("script_address", ma.Address())
				x.remember(&addrRec{id: c04AddrID{Kind: "scr", N: op.ID, HLen: 32}, scope: s, addr: ma.Address(),
					isScr: true, secret: op.Secret})
			})
			return nil
		}
		return fmt.Errorf("wallet mode: script kind %q", op.SKind)
	case "chpass":
		var oldp, newp []byte
		x.locked(func() {
			oldp = x.pubPass
			if op.Private {
				oldp = x.privPass
			}
			if !op.PassOK {
				oldp = []byte("wrong-" + string(oldp))
			}
			x.passGen++
			newp = []byte(fmt.Sprintf("wallet-pass%d-%s", x.passGen, hex.EncodeToString(x.seed[:5])))
			x.addPass(newp)
		})
		var err error
		if op.Private {
			err = x.w.ChangePrivatePassphrase(oldp, newp)
		} else {
			err = x.w.ChangePublicPassphrase(oldp, newp)
		}
		if err != nil {
			return err
		}
		x.locked(func() {
			if op.Private {
				x.oldPriv = append(x.oldPriv, x.privPass)
				x.privPass = newp
			} else {
				x.oldPub = append(x.oldPub, x.pubPass)
				x.pubPass = newp
			}
		})
		return nil
	case "convert":
		sm, err := x.w.Manager.FetchScopedKeyManager(s)
		if err != nil {
			return err
		}
		var rerr error
		x.locked(func() {
			for a := uint32(1); a <= op.Accounts; a++ {
				if _, ok := x.accts[acctKey(s, a)]; !ok {
					if err := x.registerAccount(s, a, nil); err != nil {
						rerr = err
					}
				}
			}
		})
		if rerr != nil {
			return rerr
		}
		if err := x.w.InitAccounts(sm, true, op.Accounts); err != nil {
			return err
		}
		x.locked(func() { x.converted = true; x.unlocked = false })
		return nil
	case "receive":
		// a transaction paying one of the wallet's addresses arrives through
		// the notification handler (unmined, or mined in block 1)
		var target *addrRec
		n := 0
		for _, a := range x.addrs {
			if a.id.Kind == "ch" && a.scope == s {
				if n == int(op.N) || target == nil {
					target = a
				}
				n++
			}
		}
		if target == nil {
			return errors.New("no address to pay to")
		}
		pk, err := txscript.PayToAddrScript(target.addr)
		if err != nil {
			return err
		}
		tx := wire.NewMsgTx(2)
		tx.AddTxIn(wire.NewTxIn(&wire.OutPoint{Hash: chainhash.Hash{9, byte(op.ID)}, Index: uint32(op.ID)}, nil, nil))
		tx.AddTxOut(wire.NewTxOut(int64(op.Len)*100000+50000, pk))
		rec, err := wtxmgr.NewTxRecordFromMsgTx(tx, time.Unix(1600000200+int64(op.ID), 0))
		if err != nil {
			return err
		}
		x.locked(func() { x.txRecorded = true; x.txScript = pk })
		return x.w.VerifAddRelevantTx(rec, nil)
	case "send":
		// SendOutputs: coin selection, change address, signing with the
		// wallet's private keys, recording, publishing
		dest, err := btcutil.NewAddressWitnessPubKeyHash(btcutil.Hash160([]byte(fmt.Sprintf("c04-dest-%d", op.ID))), c04Params)
		if err != nil {
			return err
		}
		pk, err := txscript.PayToAddrScript(dest)
		if err != nil {
			return err
		}
		// the change address the send will issue is not known beforehand;
		// its keys are registered right after (a secret written by the send
		// itself would be an account or address key, all known already)
		amt := int64(op.Len) * 1000
		if amt == 0 {
			amt = 20000
		}
		x.locked(func() { x.txRecorded = true })
		_, err = x.w.SendOutputs([]*wire.TxOut{wire.NewTxOut(amt, pk)}, &s, op.Acct, 0, 2000, wallet.CoinSelectionLargest, "c04")
		// register the keys of every address the wallet now has in this account
		x.registerIssued(s, op.Acct)
		return err
	case "recordtx":
		var target *addrRec
		for _, a := range x.addrs {
			if a.id.Kind == "ch" {
				target = a
				break
			}
		}
		if target == nil {
			return errors.New("no address to pay to")
		}
		pk, err := txscript.PayToAddrScript(target.addr)
		if err != nil {
			return err
		}
		tx := wire.NewMsgTx(2)
		tx.AddTxIn(wire.NewTxIn(&wire.OutPoint{Hash: chainhash.Hash{1, 2, 3}, Index: 0}, nil, nil))
		tx.AddTxOut(wire.NewTxOut(50000, pk))
		rec, err := wtxmgr.NewTxRecordFromMsgTx(tx, time.Unix(1600000100, 0))
		if err != nil {
			return err
		}
		x.locked(func() { x.txRecorded = true; x.txScript = pk })
		return walletdb.Update(x.db, func(dbtx walletdb.ReadWriteTx) error {
			ns := dbtx.ReadWriteBucket([]byte("wtxmgr"))
			if err := x.w.TxStore.InsertTx(ns, rec, nil); err != nil {
				return err
			}
			return x.w.TxStore.AddCredit(ns, rec, nil, 0, false)
		})
	}
	return fmt.Errorf("wallet mode: unknown op %q", op.K)
}

func runWallet(in c04Input) (c04Case, error) {
	cs := c04Case{In: in, Obs: []c04OpObs{}, Oracle: []string{}, Tags: []string{}}
	seed, err := hex.DecodeString(in.Seed)
	if err != nil {
		return cs, err
	}
	walletenv.FastScrypt()
	r, err := newRun(seed)
	if err != nil {
		return cs, err
	}
	x := &wrun{run: r}
	defer func() {
		x.stopWallet()
		r.mgr = nil
		r.close()
	}()
	raw, err := walletdb.Create("bdb", r.path, true, time.Minute, false)
	if err != nil {
		return cs, err
	}
	r.raw = raw
	r.db = proxydb.New(raw)
	r.db.SetHooks(&proxydb.Hooks{AfterCommit: x.hook})

	for _, op := range in.Ops {
		obs := &c04OpObs{}
		x.locked(func() { x.cur = obs })
		err := x.wexec(op)
		x.locked(func() {
			obs.OK = err == nil
			if err != nil {
				obs.Err = err.Error()
				// a failed call is looked at too (whatever it committed on
				// the way was already scanned by the commit hook)
				x.snap(obs)
				x.tag("failed_call_scanned")
			}
			if obs.OK {
				x.snap(obs)
				if op.K == "recordtx" {
					found := false
					for _, h := range obs.Hits {
						found = found || strings.HasSuffix(h.Site, "_pkscript:raw")
					}
					obs.TxSeen = found
					if !found {
						x.tag("canary_missed")
					} else {
						x.tag("recorded_tx_script_visible_as_expected")
					}
				}
				if op.K == "reopen" && x.mgr != nil && x.mgr.WatchOnly() {
					if err := x.w.Unlock(x.privPass, nil); err == nil {
						x.viol("watching_only_unlocks", "wallet.Unlock")
					}
					x.cur = nil
					x.mu.Unlock()
					x.apiChecks(obs)
					x.mu.Lock()
					x.tag("api_checked")
				}
			}
			x.cur = nil
			x.tag("op:" + op.K)
			if !obs.OK {
				x.tag("failed:" + op.K)
			}
		})
		cs.Obs = append(cs.Obs, *obs)
	}
	x.mu.Lock()
	defer x.mu.Unlock()
	x.tag("wallet_mode")
	if x.converted {
		x.tag("converted")
	}
	if len(x.addrs) > 0 {
		x.tag("has_addresses")
	}
	for k := range x.oracle {
		cs.Oracle = append(cs.Oracle, k)
	}
	sort.Strings(cs.Oracle)
	for k := range x.sites {
		cs.Sites = append(cs.Sites, k)
	}
	sort.Strings(cs.Sites)
	if len(cs.Sites) > 0 {
		cs.Site = strings.SplitN(cs.Sites[0], "@", 2)[1]
	}
	for k := range x.tags {
		cs.Tags = append(cs.Tags, k)
	}
	sort.Strings(cs.Tags)
	return cs, nil
}

// registerIssued registers (keys, addresses) every chained address of the
// account that the wallet has issued by itself (change addresses of sends).
func (x *wrun) registerIssued(s waddrmgr.KeyScope, acct uint32) {
	props, err := x.w.AccountProperties(s, acct)
	if err != nil {
		return
	}
	x.locked(func() {
		ar, ok := x.accts[acctKey(s, acct)]
		if !ok {
			return
		}
		want := [2]uint32{props.ExternalKeyCount, props.InternalKeyCount}
		for branch := uint32(0); branch < 2; branch++ {
			for ar.next[branch] < want[branch] {
				idx := ar.next[branch]
				x.accts[acctKey(s, acct)] = ar
				bk, err := ar.xprv.DeriveNonStandard(branch) // nolint:staticcheck
				if err != nil {
					return
				}
				ck, err := bk.DeriveNonStandard(idx) // nolint:staticcheck
				if err != nil {
					return
				}
				pk, err := ck.ECPrivKey()
				if err != nil {
					return
				}
				x.addPrivKey("address_privkey", pk)
				x.addPubKey("address_pubkey", pk.PubKey())
				t := x.scopes[s].ExternalAddrType
				if branch == 1 {
					t = x.scopes[s].InternalAddrType
				}
				if a, err := addressFor(t, pk.PubKey(), true); err == nil {
					x.addAddress("address", a)
					x.remember(&addrRec{id: c04AddrID{Kind: "ch", Purpose: s.Purpose, Coin: s.Coin, Acct: acct, Internal: branch == 1, Idx: idx},
						scope: s, addr: a, hasPriv: true,
						path: waddrmgr.DerivationPath{InternalAccount: acct, Account: acct, Branch: branch, Index: idx}})
				}
				ar.next[branch]++
			}
		}
		x.accts[acctKey(s, acct)] = ar
	})
}

func c04WalletGen(r *gen.R, i int) c04Input {
	s84, s86, s49, s44 := [2]uint32{84, 0}, [2]uint32{86, 0}, [2]uint32{49, 0}, [2]uint32{44, 0}
	ops := []c04Op{{K: "create"}, {K: "unlock", PassOK: true}}
	for _, s := range [][2]uint32{s84, s86, s49, s44} {
		ops = append(ops, c04Op{K: "derive", Scope: s, Acct: 0, N: uint32(r.Range(1, 2)), Internal: r.Chance(1, 3)})
	}
	ops = append(ops, c04Op{K: "newacct", Scope: s84, Name: 2, NameLen: r.Range(4, 9)},
		c04Op{K: "derive", Scope: s84, Acct: 1, N: 2},
		c04Op{K: "imppriv", Scope: s84, ID: 1, Comp: true},
		c04Op{K: "imppriv", Scope: s44, ID: 2, Comp: r.Chance(1, 2)},
		c04Op{K: "impscript", ID: 3, SKind: "p2sh", Secret: true, Len: r.Range(25, 70)},
		c04Op{K: "impscript", Scope: s86, ID: 4, SKind: "tr", Secret: i%2 == 0, Len: 46 + r.Range(12, 60)},
		c04Op{K: "chpass", Private: true, PassOK: true})
	if r.Chance(1, 2) {
		ops = append(ops, c04Op{K: "chpass", Private: false, PassOK: true})
	}
	// failed calls: wrong passphrases, a duplicate import, a send without funds
	ops = append(ops, c04Op{K: "chpass", Private: true, PassOK: false}, c04Op{K: "imppriv", Scope: s84, ID: 1, Comp: true})
	if r.Chance(1, 2) {
		ops = append(ops, c04Op{K: "lock"}, c04Op{K: "derive", Scope: s84, Acct: 0, N: 1}, c04Op{K: "unlock", PassOK: false},
			c04Op{K: "unlock", PassOK: true})
	}
	if i%3 != 2 {
		// a wallet with a transaction history: receives in several scopes,
		// sends (signing with derived keys), a send that fails
		ops = append(ops, c04Op{K: "send", Scope: s84, Acct: 0, ID: 1, Len: 30}) // no funds yet: fails
		scopes := [][2]uint32{s84, s86, s49, s44}
		for k := 0; k < r.Range(2, 4); k++ {
			ops = append(ops, c04Op{K: "receive", Scope: scopes[r.Intn(4)], ID: 10 + k, N: uint32(r.Intn(2)), Len: r.Range(1, 9)})
		}
		ops = append(ops, c04Op{K: "receive", Scope: s84, ID: 20, Len: r.Range(2, 9)})
		for k := 0; k < r.Range(1, 3); k++ {
			ops = append(ops, c04Op{K: "send", Scope: s84, Acct: 0, ID: 30 + k, Len: r.Range(10, 60)})
		}
		ops = append(ops, c04Op{K: "send", Scope: s84, Acct: 0, ID: 40, Len: 90000000}) // more than the wallet has: fails
		if r.Chance(1, 2) {
			ops = append(ops, c04Op{K: "lock"}, c04Op{K: "send", Scope: s84, Acct: 0, ID: 41, Len: 11}, c04Op{K: "unlock", PassOK: true})
		}
		if r.Chance(1, 2) {
			ops = append(ops, c04Op{K: "reopen"}, c04Op{K: "unlock", PassOK: true}, c04Op{K: "derive", Scope: s84, Acct: 0, N: 1})
		}
	}
	if i%4 != 3 {
		ops = append(ops, c04Op{K: "convert", Scope: s84, Accounts: uint32(r.Range(0, 3))}, c04Op{K: "reopen"},
			c04Op{K: "derive", Scope: s84, Acct: 0, N: 1})
	}
	ops = append(ops, c04Op{K: "recordtx"})
	return c04Input{Mode: "wallet", Seed: hex.EncodeToString(r.Bytes(32)), Ops: ops}
}
