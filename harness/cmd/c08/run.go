package main

import (
	"errors"
	"fmt"
	"os"
	"path/filepath"
	"sort"

	"github.com/btcsuite/btcwallet/waddrmgr"
	"github.com/btcsuite/btcwallet/walletdb"

	"verifharness/internal/abortdb"
)

// ---------------------------------------------------------------- one history

const importedAcct = waddrmgr.ImportedAddrAccount

type runner struct {
	e  *env
	ws worlds2
	r  *inst // running manager
	// what the harness knows (for the query domain and the generator)
	issued  [2][][]uint32 // per scope: addresses returned by committed transactions
	heights map[int32]bool
	names   int // highest name id used so far
	div     divState
	seq     int
}

func (rn *runner) nscopes() int {
	if rn.ws[1] != nil {
		return 2
	}
	return 1
}

func (rn *runner) freshCopy() (*inst, string, error) {
	rn.seq++
	p := filepath.Join(rn.e.dir, fmt.Sprintf("fresh-%d.db", rn.seq))
	f, err := os.Create(p)
	if err != nil {
		return nil, "", err
	}
	if err := rn.r.db.Copy(f); err != nil {
		f.Close()
		return nil, "", err
	}
	if err := f.Close(); err != nil {
		return nil, "", err
	}
	// a restarted wallet brought to the lock state of the running one (what a
	// manager can say - IsWatchOnly of a default account, for one - depends
	// on it): a fresh Open is locked; unlocked if the running manager is
	in, err := openInst(p, rn.ws, !rn.r.mgr.IsLocked())
	return in, p, err
}

// queries builds the boundary query list from the FRESH manager's view of the
// database (what a restarted wallet knows) and the harness' record of issued
// addresses.
func (rn *runner) queries(fr *inst) ([]op, error) {
	var qs []op
	for sc := 0; sc < rn.nscopes(); sc++ {
		var last uint32
		nexts := map[[2]uint32]uint32{}
		err := walletdb.View(fr.db, func(tx walletdb.ReadTx) error {
			ns := tx.ReadBucket(nsKey)
			var err error
			last, err = fr.scoped(sc).LastAccount(ns)
			if err != nil {
				return err
			}
			for a := uint32(0); a <= last && a < maxAcct; a++ {
				p, err := fr.scoped(sc).AccountProperties(ns, a)
				if err != nil {
					continue
				}
				nexts[[2]uint32{a, 0}] = p.ExternalKeyCount
				nexts[[2]uint32{a, 1}] = p.InternalKeyCount
			}
			return nil
		})
		if err != nil {
			return nil, err
		}
		top := last + 1
		if top >= maxAcct {
			top = maxAcct - 1
		}
		for a := uint32(0); a <= top; a++ {
			qs = append(qs, op{K: "props", Acct: a, Sc: sc}, op{K: "acctname", Acct: a, Sc: sc},
				op{K: "last", Acct: a, Sc: sc}, op{K: "last", Acct: a, Int: true, Sc: sc})
		}
		qs = append(qs, op{K: "props", Acct: importedAcct, Sc: sc}, op{K: "acctname", Acct: importedAcct, Sc: sc},
			op{K: "lastacct", Sc: sc})
		for n := 0; n <= rn.names+1; n++ {
			qs = append(qs, op{K: "lookupname", Name: n, Sc: sc})
		}
		// issued by committed transactions (most recent 16)
		seen := map[[4]uint32]bool{}
		add := func(ref []uint32) {
			k := [4]uint32{ref[0], ref[1], ref[2], ref[3]}
			if seen[k] || (ref[0] == 0 && ref[3] >= maxIdx) {
				return
			}
			seen[k] = true
			qs = append(qs, op{K: "lookup", Addr: ref, Sc: sc})
		}
		iss := rn.issued[sc]
		from := 0
		if len(iss) > 16 {
			from = len(iss) - 16
		}
		for _, ref := range iss[from:] {
			add(ref)
		}
		// the last derived and the next three not-yet-issued indices per branch
		for a := uint32(0); a <= last && a < maxAcct; a++ {
			for b := uint32(0); b < 2; b++ {
				nx, ok := nexts[[2]uint32{a, b}]
				if !ok {
					continue
				}
				lo := nx
				if lo > 0 {
					lo--
				}
				for i := lo; i < nx+3; i++ {
					add([]uint32{0, a, b, i})
				}
			}
		}
		// the first indices of the first not-yet-created account
		if last+1 < maxAcct {
			add([]uint32{0, last + 1, 0, 0})
			add([]uint32{0, last + 1, 1, 0})
		}
		for i := 0; i < nKeys; i++ {
			add([]uint32{1, uint32(i), 0, 0})
		}
		for i := 0; i < nScripts; i++ {
			add([]uint32{2, uint32(i), 0, 0})
		}
	}
	qs = append(qs, op{K: "synced"}, op{K: "birthday"}, op{K: "bdayblock"})
	hs := []int{}
	for h := range rn.heights {
		hs = append(hs, int(h))
	}
	sort.Ints(hs)
	if len(hs) > 10 {
		hs = hs[len(hs)-10:]
	}
	for _, h := range hs {
		qs = append(qs, op{K: "blockhash", H: int32(h)})
	}
	return qs, nil
}

func (rn *runner) boundary() ([]qa, error) {
	fr, path, err := rn.freshCopy()
	if err != nil {
		return nil, fmt.Errorf("fresh open: %w", err)
	}
	defer func() { fr.close(); os.Remove(path) }()
	qs, err := rn.queries(fr)
	if err != nil {
		return nil, err
	}
	// make sure every chained address asked about is in the table
	for _, q := range qs {
		if q.K == "lookup" {
			if _, err := rn.ws.of(q.Sc).addrOf(q.Addr); err != nil {
				return nil, err
			}
		}
	}
	out := make([]qa, 0, len(qs))
	ra := make([]answer, len(qs))
	fa := make([]answer, len(qs))
	err = walletdb.View(rn.r.db, func(tx walletdb.ReadTx) error {
		ns := tx.ReadBucket(nsKey)
		for i, q := range qs {
			ra[i] = apply(rn.ws, rn.r, ns, nil, q)
		}
		return nil
	})
	if err != nil {
		return nil, err
	}
	err = walletdb.View(fr.db, func(tx walletdb.ReadTx) error {
		ns := tx.ReadBucket(nsKey)
		for i, q := range qs {
			fa[i] = apply(rn.ws, fr, ns, nil, q)
		}
		return nil
	})
	if err != nil {
		return nil, err
	}
	for i, q := range qs {
		e := qa{Q: q, R: ra[i]}
		if ra[i].key() != fa[i].key() {
			f := fa[i]
			e.F = &f
		}
		out = append(out, e)
	}
	return out, nil
}

func runHistory(e *env, in input) (*caseOut, error) {
	var ws worlds2
	var err error
	if ws[0], err = newWorld(e, in.Scope); err != nil {
		return nil, err
	}
	if in.Scope2 != 0 {
		if in.Scope2 == in.Scope || in.Wallet {
			return nil, fmt.Errorf("bad second scope")
		}
		if ws[1], err = newWorld(e, in.Scope2); err != nil {
			return nil, err
		}
	}
	path := filepath.Join(e.dir, "run.db")
	img := e.base[0]
	if in.Wallet {
		img = e.base[1]
	}
	if err := os.WriteFile(path, img, 0600); err != nil {
		return nil, err
	}
	var r *inst
	if in.Wallet {
		r, err = openWallet(path, ws[0].scope)
	} else {
		r, err = openInst(path, ws, true)
	}
	if err != nil {
		return nil, err
	}
	defer func() { r.close(); os.Remove(path) }()
	rn := &runner{e: e, ws: ws, r: r, heights: map[int32]bool{0: true}, names: 2, div: newDivState()}
	out := &caseOut{In: in, Oracle: []string{}, Findings: []finding{}, Tags: []string{}, Problems: []string{}}

	// initial state, as the implementation reports it
	bs := r.mgr.SyncedTo()
	out.Obs.Init = initObs{H: bs.Height, T: bs.Timestamp.Unix(), Birthday: r.mgr.Birthday().Unix(), Sch: ws[0].schema()}
	if ws[1] != nil {
		out.Obs.Init.Sch2 = ws[1].schema()
	}
	if hashID(bs.Hash) != 0 {
		return nil, fmt.Errorf("initial synced-to is not the genesis block")
	}

	q0, err := rn.boundary()
	if err != nil {
		return nil, err
	}
	out.Obs.Q0 = q0
	rn.record(out, -1, nil, nil, q0)

	for ti := range in.Txs {
		t := &in.Txs[ti]
		to := txObs{Outs: []answer{}}
		for _, o := range t.Ops {
			if o.K == "setsynced" {
				rn.heights[o.H] = true
				if o.H > waddrmgr.MaxReorgDepth {
					rn.heights[o.H-waddrmgr.MaxReorgDepth] = true
				}
				if o.H > 0 {
					rn.heights[o.H-1] = true
				}
			}
			if (o.K == "newacct" || o.K == "newacctwo" || o.K == "rename" || o.K == "lookupname") && o.Name > rn.names {
				rn.names = o.Name
			}
			if o.Sc != 0 && ws[1] == nil {
				return nil, fmt.Errorf("transaction %d: op for a second scope the history does not have", ti)
			}
		}
		if in.Wallet {
			if err := rn.walletTx(out, ti, t, &to); err != nil {
				return nil, err
			}
		} else {
			if t.Fate == "failcommit" {
				r.db.FailNextCommit()
			}
			uerr := walletdb.Update(r.db, func(tx walletdb.ReadWriteTx) error {
				ns := tx.ReadWriteBucket(nsKey)
				for _, o := range t.Ops {
					to.Outs = append(to.Outs, apply(ws, r, ns, ns, o))
				}
				switch t.Fate {
				case "abort":
					return abortdb.ErrCallerAbort
				case "dryrun":
					return walletdb.ErrDryRunRollBack
				}
				return nil
			})
			switch {
			case uerr == nil:
				to.Err = ""
			case errors.Is(uerr, abortdb.ErrCallerAbort):
				to.Err = "abort"
			case errors.Is(uerr, walletdb.ErrDryRunRollBack):
				to.Err = "dryrun"
			case errors.Is(uerr, abortdb.ErrCommitFailed):
				to.Err = "failcommit"
			default:
				to.Err = "other:" + uerr.Error()
			}
			want := map[string]string{"commit": "", "abort": "abort", "dryrun": "dryrun", "failcommit": "failcommit"}[t.Fate]
			if to.Err != want {
				return nil, fmt.Errorf("transaction %d: fate %q but Update returned %q", ti, t.Fate, to.Err)
			}
		}
		if t.Fate == "commit" {
			for i, o := range t.Ops {
				if o.K == "next" && to.Outs[i].K == "addrs" {
					for _, ref := range to.Outs[i].Addrs {
						// an address the table cannot place ([9,...]: the code
						// derived it from another key than the history says) is an
						// outcome the model will not agree with, not a query
						if len(ref) == 4 && ref[0] <= 2 {
							rn.issued[o.Sc] = append(rn.issued[o.Sc], ref)
						}
					}
				}
			}
		} else {
			rn.notePhantoms(t, to.Outs)
		}
		qas, err := rn.boundary()
		if err != nil {
			return nil, err
		}
		to.Q = qas
		rn.record(out, ti, t, to.Outs, qas)
		out.Obs.Txs = append(out.Obs.Txs, to)
	}
	out.Tags = tagsOf(in, out)
	return out, nil
}

// walletTx performs one wallet-mode transaction: the wallet API itself opens,
// commits or rolls back the database transaction.
func (rn *runner) walletTx(out *caseOut, ti int, t *txIn, to *txObs) error {
	r, w := rn.r, rn.ws[0]
	if len(t.Ops) == 0 {
		return fmt.Errorf("transaction %d: empty wallet-mode transaction", ti)
	}
	before := r.db.Commits
	switch via := t.Ops[0].Via; via {
	case "initwatch":
		// wallet.InitAccounts(scope, watchOnly=true, 0): the wallet's call site of
		// ConvertToWatchingOnly (no further accounts are created)
		if len(t.Ops) != 1 || t.Ops[0].K != "convert" || t.Fate != "commit" {
			return fmt.Errorf("transaction %d: bad initwatch transaction", ti)
		}
		if err := r.w.InitAccounts(r.sm, true, 0); err != nil {
			to.Outs = append(to.Outs, errAns(err))
		} else {
			to.Outs = append(to.Outs, answer{K: "ok"})
		}
		return nil
	case "importacct", "importdry":
		if (via == "importdry") != (t.Fate == "dryrun") || (via == "importacct" && t.Fate != "commit") {
			return fmt.Errorf("transaction %d: fate %q does not fit %s", ti, t.Fate, via)
		}
		outs, err := r.walletImport(w, t)
		if err != nil {
			return fmt.Errorf("transaction %d: %w", ti, err)
		}
		to.Outs = outs
		if len(outs) != len(t.Ops) {
			// the wallet call failed early: the remaining ops of the spelled-out
			// sequence did not run, the model would run them
			out.Problems = append(out.Problems, fmt.Sprintf(
				"wallet.%s failed (%v): the generated history no longer describes what the wallet did", via, outs[0]))
			for len(to.Outs) < len(t.Ops) {
				to.Outs = append(to.Outs, answer{K: "any"})
			}
		}
		if committed := r.db.Commits > before; committed != (t.Fate == "commit") && outs[0].K == "acct" {
			return fmt.Errorf("transaction %d: fate %q but the wallet committed=%v", ti, t.Fate, committed)
		}
		if t.Fate == "dryrun" {
			to.Err = "dryrun"
		}
		return nil
	}
	// one issuance per transaction, performed (and committed or rolled back)
	// by the wallet itself
	if len(t.Ops) != 1 || t.Ops[0].K != "next" || t.Ops[0].N != 1 ||
		(t.Fate == "dryrun") != (t.Ops[0].Via == "createtxdry") || (t.Fate != "commit" && t.Fate != "dryrun") {
		return fmt.Errorf("transaction %d: not a wallet-mode transaction", ti)
	}
	a := r.walletCall(w, t.Ops[0])
	to.Outs = append(to.Outs, a)
	committed := r.db.Commits > before
	if committed != (t.Fate == "commit") && a.K == "addrs" {
		return fmt.Errorf("transaction %d: fate %q but the wallet committed=%v", ti, t.Fate, committed)
	}
	if t.Fate == "dryrun" {
		to.Err = "dryrun"
	}
	if ti == 0 && a.K == "addrs" {
		ad, err := w.addrOf(a.Addrs[0])
		if err != nil {
			return nil // unplaceable address: reported through the outcome
		}
		if err := r.fund(ad); err != nil {
			return err
		}
	}
	return nil
}
