// Command c08 drives the REAL waddrmgr (and, in wallet mode, the real
// wallet.Wallet) through histories of database transactions (1-3 manager
// operations each; committed, aborted by the caller, aborted as a dry run, or
// with a failing commit; Lock / Unlock / InvalidateAccountCache in between)
// and, after EVERY transaction, copies the database file, opens the copy with
// a fresh waddrmgr.Open, brings it to the lock state of the running manager
// and asks the running and the fresh manager the same questions.
//
// Output: one JSON object per history
//
//	{"in": history, "obs": per-op outcomes + per-boundary (query, running, fresh),
//	 "oracle": ["kind@site", ...], "findings": [...], "tags": [...], "problems": [...]}
//
// The oracle is the property stated directly on the implementation: the running
// manager and a manager freshly opened on the same database answer alike.
//
// Files: main.go (history and answer types, address tables, opening managers
// and wallets, running one operation), run.go (one history: boundaries,
// queries), sites.go (the oracle: what diverges and at which site), gen.go
// (start-up probes, generators, the systematic histories, main).
package main

import (
	"bytes"
	"crypto/sha256"
	"encoding/binary"
	"encoding/json"
	"errors"
	"fmt"
	"os"
	"path/filepath"
	"time"

	"github.com/btcsuite/btcd/btcec/v2"
	"github.com/btcsuite/btcd/btcjson"
	"github.com/btcsuite/btcd/btcutil"
	"github.com/btcsuite/btcd/btcutil/hdkeychain"
	"github.com/btcsuite/btcd/chaincfg"
	"github.com/btcsuite/btcd/chaincfg/chainhash"
	"github.com/btcsuite/btcd/txscript"
	"github.com/btcsuite/btcd/wire"
	"github.com/btcsuite/btcwallet/chain"
	"github.com/btcsuite/btcwallet/waddrmgr"
	"github.com/btcsuite/btcwallet/wallet"
	"github.com/btcsuite/btcwallet/walletdb"
	_ "github.com/btcsuite/btcwallet/walletdb/bdb"
	"github.com/btcsuite/btcwallet/wtxmgr"

	"verifharness/internal/abortdb"
)

// ---------------------------------------------------------------- history

// op is one manager call.  Write ops: newacct newacctwo rename next extend
// markused setsynced setsyncednil setbirthday setbdayblock impkey impscript
// convert (ConvertToWatchingOnly); not database operations: lock unlock
// invalidate.  Read ops
// (also used as the boundary queries): lookup last props lookupname acctname
// lastacct synced blockhash birthday bdayblock.
type op struct {
	K    string   `json:"k"`
	Acct uint32   `json:"acct"`
	Name int      `json:"name"` // interned account name (0 "", 1 "imported", 2 "default", n "acct<n>")
	Int  bool     `json:"int"`  // internal branch
	N    uint32   `json:"n"`    // number of addresses (next) / last index (extend)
	Addr []uint32 `json:"addr"` // [0,acct,branch,index] chained | [1,k,0,0] imported key | [2,k,0,0] imported script
	H    int32    `json:"h"`
	Hash int      `json:"hash"`
	T    int64    `json:"t"`
	Ver  bool     `json:"ver"`
	Key  int      `json:"key"`
	Priv bool     `json:"priv"` // impkey through ImportPrivateKey instead of ImportPublicKey
	// newacctwo (NewAccountWatchingOnly): Key = index of the imported xpub,
	// Fp = master key fingerprint, Sch = nil or [external, internal] address
	// type overriding the scope's schema
	Fp  uint32   `json:"fp,omitempty"`
	Sch []uint32 `json:"sch,omitempty"`
	// wallet mode only: the wallet API that performs the operation -
	// newaddress | newchange | createtx | createtxdry (one issuance), or
	// importacct | importdry on the FIRST op of a transaction whose ops spell
	// out what wallet.ImportAccount / ImportAccountDryRun do to the manager
	Via string `json:"via,omitempty"`
	// Sc selects the key scope the op addresses in a two-scope history
	// (0: input.Scope, 1: input.Scope2); root-manager ops ignore it
	Sc int `json:"sc,omitempty"`
}

type txIn struct {
	Fate string `json:"fate"` // commit | abort | dryrun | failcommit
	Ops  []op   `json:"ops"`
}

type input struct {
	Scope uint32 `json:"scope"` // 84 or 44
	// Wallet: the history is driven through wallet.Wallet (NewAddress,
	// NewChangeAddress, CreateSimpleTx with and without dryRun) instead of
	// the address manager; every transaction then holds one issuance.
	Wallet bool `json:"wallet,omitempty"`
	// Scope2: a second key scope of the same manager (0: none); ops choose
	// with Sc.  Both scoped managers share the database transaction, the
	// root manager's sync state, birthday and lock state.
	Scope2 uint32 `json:"scope2,omitempty"`
	Txs    []txIn `json:"txs"`
}

// answer is the projected result of one call.
type answer struct {
	K        string     `json:"k"` // err ok acct addrs addr last props name stamp hash time bday
	Err      string     `json:"err"`
	Acct     uint32     `json:"acct"`
	Name     int        `json:"name"`
	Ext      uint32     `json:"ext"`
	IntN     uint32     `json:"intn"`
	Imp      uint32     `json:"imp"`
	Addrs    [][]uint32 `json:"addrs"`
	Ref      []uint32   `json:"ref"`
	Internal bool       `json:"internal"`
	Imported bool       `json:"imported"`
	Used     bool       `json:"used"`
	H        int32      `json:"h"`
	Hash     int        `json:"hash"`
	T        int64      `json:"t"`
	Ver      bool       `json:"ver"`
	// addr: AddrType() and DerivationInfo().MasterKeyFingerprint; props: the
	// same plus IsWatchOnly, the imported xpub (index) and AddrSchema
	Ty  uint32   `json:"ty"`
	Fp  uint32   `json:"fp"`
	WO  bool     `json:"wo"`
	Key int      `json:"key"`
	Sch []uint32 `json:"sch"`
	// addr / last: DerivationInfo() = (ok, key scope, full path) and the
	// serialized PubKey() of a ManagedPubKeyAddress.  Functions of the address
	// identity in the model; compared between running and restarted manager.
	DI   bool     `json:"di,omitempty"`
	Path []uint32 `json:"path,omitempty"` // purpose, coin, InternalAccount, Account, Branch, Index
	Pub  string   `json:"pub,omitempty"`
}

func (a answer) key() string { b, _ := json.Marshal(a); return string(b) }

type qa struct {
	Q op      `json:"q"`
	R answer  `json:"r"`           // running manager
	F *answer `json:"f,omitempty"` // fresh manager, omitted when equal to R
}

type txObs struct {
	Outs []answer `json:"outs"`
	Err  string   `json:"err"` // what walletdb.Update returned: "", abort, dryrun, failcommit, other:...
	Q    []qa     `json:"q"`
}

type initObs struct {
	H        int32     `json:"h"`
	T        int64     `json:"t"`
	Birthday int64     `json:"birthday"`
	Sch      [2]uint32 `json:"sch"`            // the scope's address schema: external, internal address type
	Sch2     [2]uint32 `json:"sch2,omitempty"` // ... of the second scope
}

type obsT struct {
	Init initObs `json:"init"`
	Q0   []qa    `json:"q0"` // boundary queries before the first transaction
	Txs  []txObs `json:"txs"`
}

type finding struct {
	Kind string `json:"kind"`
	Site string `json:"site"`
	Tx   int    `json:"tx"` // index of the transaction after which it first shows (-1: before any)
	Q    op     `json:"q"`
	R    answer `json:"r"`
	F    answer `json:"f"`
}

type caseOut struct {
	In       input     `json:"in"`
	Obs      obsT      `json:"obs"`
	Oracle   []string  `json:"oracle"`
	Findings []finding `json:"findings"`
	Tags     []string  `json:"tags"`
	// Problems: conditions under which this run cannot vouch for the tie
	// between model and code (never a tag: lib/c08.py fails the check on any)
	Problems []string `json:"problems"`
}

// ---------------------------------------------------------------- fixtures

var (
	params   = &chaincfg.MainNetParams
	seed     = bytes.Repeat([]byte{0x2a, 0x64, 0xdf, 0x08}, 8)
	pubPass  = []byte("c08-public")
	privPass = []byte("c08-private")
	nsKey    = []byte("waddrmgr")
	birthday = time.Unix(1600000000, 0)
)

const (
	nXpubs   = 5 // imported account keys, derived from other seeds
	nKeys    = 3
	nScripts = 2
	maxAcct  = 8
	maxIdx   = 96
)

func nameOf(id int) string {
	switch id {
	case 0:
		return ""
	case 1:
		return waddrmgr.ImportedAddrAccountName
	case 2:
		return "default"
	}
	return fmt.Sprintf("acct%d", id)
}

func nameID(s string) int {
	switch s {
	case "":
		return 0
	case waddrmgr.ImportedAddrAccountName:
		return 1
	case "default":
		return 2
	}
	var id int
	if _, err := fmt.Sscanf(s, "acct%d", &id); err == nil && nameOf(id) == s {
		return id
	}
	return -1
}

func hashOf(id int) chainhash.Hash {
	if id == 0 {
		return *params.GenesisHash
	}
	var h chainhash.Hash
	copy(h[:4], "C08H")
	binary.LittleEndian.PutUint32(h[4:8], uint32(id))
	return h
}

func hashID(h chainhash.Hash) int {
	if h == *params.GenesisHash {
		return 0
	}
	if string(h[:4]) == "C08H" {
		return int(binary.LittleEndian.Uint32(h[4:8]))
	}
	return -1
}

// world holds the address <-> path table of one scope, derived here from the
// seed (hdkeychain), independently of any manager instance.
type world struct {
	scope    waddrmgr.KeyScope
	byAddr   map[string][]uint32
	chain    map[[3]uint32]btcutil.Address
	keys     []*btcec.PrivateKey
	keyAddr  []btcutil.Address
	scripts  [][]byte
	scrAddr  []btcutil.Address
	acctKeys map[uint32]*hdkeychain.ExtendedKey
	coinKey  *hdkeychain.ExtendedKey
	xpubs    []*hdkeychain.ExtendedKey     // imported account keys (shared)
	xaddr    map[[4]uint32]btcutil.Address // (xpub, branch, index, type) -> address (shared memo)

	// per history: which account number is an imported (watch-only) account,
	// with which key and schema, and the addresses that follow from it
	wo       map[uint32]woAcct
	woByAddr map[string][]uint32
}

type woAcct struct {
	key int
	sch []uint32 // nil: the scope's schema
}

// schema returns the scope's address schema as waddrmgr.AddressType values.
func (w *world) schema() [2]uint32 {
	sc := waddrmgr.ScopeAddrMap[w.scope]
	return [2]uint32{uint32(sc.ExternalAddrType), uint32(sc.InternalAddrType)}
}

func typedAddr(pub []byte, ty uint32) (btcutil.Address, error) {
	h := btcutil.Hash160(pub)
	switch waddrmgr.AddressType(ty) {
	case waddrmgr.PubKeyHash:
		return btcutil.NewAddressPubKeyHash(h, params)
	case waddrmgr.WitnessPubKey:
		return btcutil.NewAddressWitnessPubKeyHash(h, params)
	case waddrmgr.NestedWitnessPubKey:
		wa, err := btcutil.NewAddressWitnessPubKeyHash(h, params)
		if err != nil {
			return nil, err
		}
		script, err := txscript.PayToAddrScript(wa)
		if err != nil {
			return nil, err
		}
		return btcutil.NewAddressScriptHash(script, params)
	}
	return nil, fmt.Errorf("unsupported address type %d", ty)
}

func (w *world) pkAddr(pub []byte) (btcutil.Address, error) {
	return typedAddr(pub, w.schema()[0])
}

// woAddr derives branch/index of an imported account key with the given type.
func (w *world) woAddr(key int, branch, idx, ty uint32) (btcutil.Address, error) {
	k := [4]uint32{uint32(key), branch, idx, ty}
	if a, ok := w.xaddr[k]; ok {
		return a, nil
	}
	bk, err := w.xpubs[key].DeriveNonStandard(branch) // nolint:staticcheck
	if err != nil {
		return nil, err
	}
	ck, err := bk.DeriveNonStandard(idx) // nolint:staticcheck
	if err != nil {
		return nil, err
	}
	pub, err := ck.ECPubKey()
	if err != nil {
		return nil, err
	}
	a, err := typedAddr(pub.SerializeCompressed(), ty)
	if err != nil {
		return nil, err
	}
	w.xaddr[k] = a
	return a, nil
}

func (w *world) woType(acct woAcct, branch uint32) uint32 {
	if acct.sch != nil {
		return acct.sch[branch]
	}
	return w.schema()[branch]
}

// setWO records that account number n is (now) an imported account; unsetWO
// that it is a default one.
func (w *world) setWO(n uint32, key int, sch []uint32) error {
	acct := woAcct{key: key, sch: sch}
	w.wo[n] = acct
	for b := uint32(0); b < 2; b++ {
		for i := uint32(0); i < maxIdx; i++ {
			a, err := w.woAddr(key, b, i, w.woType(acct, b))
			if err != nil {
				return err
			}
			w.woByAddr[a.EncodeAddress()] = []uint32{0, n, b, i}
		}
	}
	return nil
}

func (w *world) unsetWO(n uint32) { delete(w.wo, n) }

func (w *world) xpubIndex(k *hdkeychain.ExtendedKey) int {
	if k == nil {
		return -1
	}
	for i, x := range w.xpubs {
		if x.String() == k.String() {
			return i
		}
	}
	return -1
}

// newWorld returns the table of one scope (memoised, with every chained
// address of the small universe entered) with a fresh per-history overlay for
// imported accounts.
func newWorld(e *env, scope uint32) (*world, error) {
	base, err := e.baseWorld(scope)
	if err != nil {
		return nil, err
	}
	w := *base
	w.wo = map[uint32]woAcct{}
	w.woByAddr = map[string][]uint32{}
	return &w, nil
}

func (e *env) baseWorld(scope uint32) (*world, error) {
	if w, ok := e.worlds[scope]; ok {
		return w, nil
	}
	w, err := buildWorld(scope)
	if err != nil {
		return nil, err
	}
	for a := uint32(0); a < maxAcct; a++ {
		for b := uint32(0); b < 2; b++ {
			for i := uint32(0); i < maxIdx; i++ {
				if _, err := w.chainAddr(a, b, i); err != nil {
					return nil, err
				}
			}
		}
	}
	e.worlds[scope] = w
	return w, nil
}

func buildWorld(scope uint32) (*world, error) {
	w := &world{byAddr: map[string][]uint32{}, chain: map[[3]uint32]btcutil.Address{},
		acctKeys: map[uint32]*hdkeychain.ExtendedKey{}, xaddr: map[[4]uint32]btcutil.Address{}}
	switch scope {
	case 84:
		w.scope = waddrmgr.KeyScopeBIP0084
	case 44:
		w.scope = waddrmgr.KeyScopeBIP0044
	default:
		return nil, fmt.Errorf("unsupported scope %d", scope)
	}
	root, err := hdkeychain.NewMaster(seed, params)
	if err != nil {
		return nil, err
	}
	purpose, err := root.DeriveNonStandard(w.scope.Purpose + hdkeychain.HardenedKeyStart) // nolint:staticcheck
	if err != nil {
		return nil, err
	}
	w.coinKey, err = purpose.DeriveNonStandard(w.scope.Coin + hdkeychain.HardenedKeyStart) // nolint:staticcheck
	if err != nil {
		return nil, err
	}
	// imported account keys: m/purpose'/coin'/0' of other seeds, neutered
	for j := 0; j < nXpubs; j++ {
		other, err := hdkeychain.NewMaster(bytes.Repeat([]byte{byte(0xa0 + j)}, 32), params)
		if err != nil {
			return nil, err
		}
		k := other
		for _, c := range []uint32{w.scope.Purpose, w.scope.Coin, 0} {
			k, err = k.DeriveNonStandard(c + hdkeychain.HardenedKeyStart) // nolint:staticcheck
			if err != nil {
				return nil, err
			}
		}
		pub, err := k.Neuter()
		if err != nil {
			return nil, err
		}
		w.xpubs = append(w.xpubs, pub)
	}
	for i := 0; i < nKeys; i++ {
		d := sha256.Sum256([]byte(fmt.Sprintf("c08-key-%d", i)))
		priv, _ := btcec.PrivKeyFromBytes(d[:])
		a, err := w.pkAddr(priv.PubKey().SerializeCompressed())
		if err != nil {
			return nil, err
		}
		w.keys = append(w.keys, priv)
		w.keyAddr = append(w.keyAddr, a)
		w.byAddr[a.EncodeAddress()] = []uint32{1, uint32(i), 0, 0}
	}
	for i := 0; i < nScripts; i++ {
		s, err := txscript.NewScriptBuilder().AddInt64(int64(i + 2)).AddOp(txscript.OP_DROP).AddOp(txscript.OP_TRUE).Script()
		if err != nil {
			return nil, err
		}
		a, err := btcutil.NewAddressScriptHash(s, params)
		if err != nil {
			return nil, err
		}
		w.scripts = append(w.scripts, s)
		w.scrAddr = append(w.scrAddr, a)
		w.byAddr[a.EncodeAddress()] = []uint32{2, uint32(i), 0, 0}
	}
	return w, nil
}

// chainAddr derives m/purpose'/coin'/acct'/branch/index the way waddrmgr does
// (DeriveNonStandard at every level) and memoises the address.
func (w *world) chainAddr(acct, branch, idx uint32) (btcutil.Address, error) {
	k := [3]uint32{acct, branch, idx}
	if a, ok := w.chain[k]; ok {
		return a, nil
	}
	ak, ok := w.acctKeys[acct]
	if !ok {
		priv, err := w.coinKey.DeriveNonStandard(acct + hdkeychain.HardenedKeyStart) // nolint:staticcheck
		if err != nil {
			return nil, err
		}
		ak, err = priv.Neuter()
		if err != nil {
			return nil, err
		}
		w.acctKeys[acct] = ak
	}
	bk, err := ak.DeriveNonStandard(branch) // nolint:staticcheck
	if err != nil {
		return nil, err
	}
	ck, err := bk.DeriveNonStandard(idx) // nolint:staticcheck
	if err != nil {
		return nil, err
	}
	pub, err := ck.ECPubKey()
	if err != nil {
		return nil, err
	}
	a, err := w.pkAddr(pub.SerializeCompressed())
	if err != nil {
		return nil, err
	}
	w.chain[k] = a
	w.byAddr[a.EncodeAddress()] = []uint32{0, acct, branch, idx}
	return a, nil
}

func (w *world) addrOf(ref []uint32) (btcutil.Address, error) {
	if len(ref) != 4 {
		return nil, fmt.Errorf("bad address reference %v", ref)
	}
	switch ref[0] {
	case 0:
		if acct, ok := w.wo[ref[1]]; ok && ref[2] < 2 {
			return w.woAddr(acct.key, ref[2], ref[3], w.woType(acct, ref[2]))
		}
		return w.chainAddr(ref[1], ref[2], ref[3])
	case 1:
		if int(ref[1]) < len(w.keyAddr) {
			return w.keyAddr[ref[1]], nil
		}
	case 2:
		if int(ref[1]) < len(w.scrAddr) {
			return w.scrAddr[ref[1]], nil
		}
	}
	return nil, fmt.Errorf("bad address reference %v", ref)
}

// refOf projects a real address to its reference; chained addresses of the
// small universe are entered on demand.
func (w *world) refOf(a btcutil.Address) []uint32 {
	if r, ok := w.woByAddr[a.EncodeAddress()]; ok {
		if _, still := w.wo[r[1]]; still {
			return r
		}
	}
	if r, ok := w.byAddr[a.EncodeAddress()]; ok {
		return r
	}
	return []uint32{9, 0, 0, 0}
}

// ---------------------------------------------------------------- database

// env is what one worker runs histories in: its own scratch directory and its
// own address tables (they memoise on demand); the pristine database images
// are shared, read-only.
type env struct {
	dir    string
	base   map[uint32][]byte // pristine database image (one manager, all default scopes)
	worlds map[uint32]*world
}

// worker returns an env for another goroutine: same images, own directory and tables.
func (e *env) worker(i int) (*env, error) {
	dir := filepath.Join(e.dir, fmt.Sprintf("w%d", i))
	if err := os.MkdirAll(dir, 0700); err != nil {
		return nil, err
	}
	return &env{dir: dir, base: e.base, worlds: map[uint32]*world{}}, nil
}

func newEnv() (*env, error) {
	// scratch databases live in memory when the machine offers it: every
	// commit of bbolt is an fsync, thousands per run (durability is not what
	// this check is about - the database is fault-free here)
	scratch := ""
	if st, err := os.Stat("/dev/shm"); err == nil && st.IsDir() {
		scratch = "/dev/shm"
	}
	dir, err := os.MkdirTemp(scratch, "vh-c08-")
	if err != nil && scratch != "" {
		dir, err = os.MkdirTemp("", "vh-c08-")
	}
	if err != nil {
		return nil, err
	}
	e := &env{dir: dir, base: map[uint32][]byte{}, worlds: map[uint32]*world{}}
	path := filepath.Join(dir, "base.db")
	db, err := walletdb.Create("bdb", path, true, time.Minute, false)
	if err != nil {
		return nil, err
	}
	root, err := hdkeychain.NewMaster(seed, params)
	if err != nil {
		return nil, err
	}
	err = walletdb.Update(db, func(tx walletdb.ReadWriteTx) error {
		ns, err := tx.CreateTopLevelBucket(nsKey)
		if err != nil {
			return err
		}
		return waddrmgr.Create(ns, root, pubPass, privPass, params, &waddrmgr.FastScryptOptions, birthday)
	})
	if err != nil {
		return nil, err
	}
	if err := db.Close(); err != nil {
		return nil, err
	}
	img, err := os.ReadFile(path)
	if err != nil {
		return nil, err
	}
	e.base[0] = img

	// wallet template (same seed, so the address table is the same)
	wpath := filepath.Join(dir, "wbase.db")
	wdb, err := walletdb.Create("bdb", wpath, true, time.Minute, false)
	if err != nil {
		return nil, err
	}
	if err := wallet.Create(wdb, pubPass, privPass, root, params, birthday); err != nil {
		return nil, err
	}
	if err := wdb.Close(); err != nil {
		return nil, err
	}
	if e.base[1], err = os.ReadFile(wpath); err != nil {
		return nil, err
	}
	return e, nil
}

type inst struct {
	db  *abortdb.DB
	mgr *waddrmgr.Manager
	sm  *waddrmgr.ScopedKeyManager
	sm2 *waddrmgr.ScopedKeyManager // second scope of a two-scope history
	w   *wallet.Wallet             // wallet mode: the manager is the wallet's
}

func (in *inst) scoped(sc int) *waddrmgr.ScopedKeyManager {
	if sc == 1 && in.sm2 != nil {
		return in.sm2
	}
	return in.sm
}

// worlds2 are the address tables of the (one or two) scopes of a history.
type worlds2 [2]*world

func (ws worlds2) of(sc int) *world {
	if sc == 1 && ws[1] != nil {
		return ws[1]
	}
	return ws[0]
}

// fakeChain is the least chain backend CreateSimpleTx and NewAddress need.
type fakeChain struct{}

var _ chain.Interface = fakeChain{}

func (fakeChain) Start() error     { return nil }
func (fakeChain) Stop()            {}
func (fakeChain) WaitForShutdown() {}
func (fakeChain) GetBestBlock() (*chainhash.Hash, int32, error) {
	return &chainhash.Hash{}, 200, nil
}
func (fakeChain) GetBlock(*chainhash.Hash) (*wire.MsgBlock, error) {
	return nil, errors.New("no block")
}
func (fakeChain) GetBlockHash(int64) (*chainhash.Hash, error) { return nil, errors.New("no hash") }
func (fakeChain) GetBlockHeader(*chainhash.Hash) (*wire.BlockHeader, error) {
	return nil, errors.New("no header")
}
func (fakeChain) IsCurrent() bool { return true }
func (fakeChain) FilterBlocks(*chain.FilterBlocksRequest) (*chain.FilterBlocksResponse, error) {
	return nil, nil
}
func (fakeChain) BlockStamp() (*waddrmgr.BlockStamp, error) {
	return &waddrmgr.BlockStamp{Height: 200, Timestamp: time.Unix(1700000000, 0)}, nil
}
func (fakeChain) SendRawTransaction(*wire.MsgTx, bool) (*chainhash.Hash, error) {
	return nil, errors.New("not connected")
}
func (fakeChain) Rescan(*chainhash.Hash, []btcutil.Address, map[wire.OutPoint]btcutil.Address) error {
	return nil
}
func (fakeChain) NotifyReceived([]btcutil.Address) error { return nil }
func (fakeChain) NotifyBlocks() error                    { return nil }
func (fakeChain) Notifications() <-chan interface{}      { return nil }
func (fakeChain) BackEnd() string                        { return "verif" }
func (fakeChain) TestMempoolAccept([]*wire.MsgTx, float64) ([]*btcjson.TestMempoolAcceptResult, error) {
	return nil, nil
}
func (fakeChain) MapRPCErr(err error) error { return err }

// openWallet opens a real wallet.Wallet on the file (behind abortdb), attaches
// the fake chain WITHOUT starting the notification goroutines (verif hook) and
// unlocks it.
func openWallet(path string, scope waddrmgr.KeyScope) (*inst, error) {
	raw, err := walletdb.Open("bdb", path, true, time.Minute, false)
	if err != nil {
		return nil, err
	}
	in := &inst{db: abortdb.New(raw)}
	w, err := wallet.Open(in.db, pubPass, nil, params, 250)
	if err != nil {
		raw.Close()
		return nil, err
	}
	w.Start()
	w.VerifSetChainClient(fakeChain{})
	if err := w.Unlock(privPass, nil); err != nil {
		return nil, err
	}
	in.w, in.mgr = w, w.Manager
	in.sm, err = w.Manager.FetchScopedKeyManager(scope)
	if err != nil {
		return nil, err
	}
	return in, nil
}

// fund gives the wallet one confirmed output paying to addr (transaction
// store only; the address manager is not involved).
func (in *inst) fund(addr btcutil.Address) error {
	script, err := txscript.PayToAddrScript(addr)
	if err != nil {
		return err
	}
	tx := wire.NewMsgTx(2)
	tx.AddTxIn(&wire.TxIn{PreviousOutPoint: wire.OutPoint{Index: 7}})
	tx.AddTxOut(wire.NewTxOut(100000000, script))
	var b bytes.Buffer
	if err := tx.Serialize(&b); err != nil {
		return err
	}
	rec, err := wtxmgr.NewTxRecord(b.Bytes(), time.Unix(1650000000, 0))
	if err != nil {
		return err
	}
	blk := &wtxmgr.BlockMeta{Block: wtxmgr.Block{Hash: chainhash.Hash{1}, Height: 100}, Time: time.Unix(1650000000, 0)}
	return walletdb.Update(in.db, func(dbtx walletdb.ReadWriteTx) error {
		ns := dbtx.ReadWriteBucket([]byte("wtxmgr"))
		if err := in.w.TxStore.InsertTx(ns, rec, blk); err != nil {
			return err
		}
		return in.w.TxStore.AddCredit(ns, rec, blk, 0, false)
	})
}

// walletCall performs one issuance through the wallet API and returns the
// outcome in the shape of the corresponding manager op.
func (in *inst) walletCall(w *world, o op) answer {
	k := w.scope
	var addr btcutil.Address
	var err error
	switch o.Via {
	case "newaddress":
		addr, err = in.w.NewAddress(o.Acct, k)
	case "newchange":
		addr, err = in.w.NewChangeAddress(o.Acct, k)
	case "createtx", "createtxdry":
		pay, perr := txscript.PayToAddrScript(w.keyAddr[0])
		if perr != nil {
			return errAns(perr)
		}
		a, cerr := in.w.CreateSimpleTx(&k, o.Acct, []*wire.TxOut{wire.NewTxOut(10000, pay)}, 1, 2000,
			wallet.CoinSelectionLargest, o.Via == "createtxdry", wallet.WithCustomChangeScope(&k))
		err = cerr
		if err == nil {
			if a.ChangeIndex < 0 {
				return answer{K: "err", Err: "other:no change output"}
			}
			_, addrs, _, xerr := txscript.ExtractPkScriptAddrs(a.Tx.TxOut[a.ChangeIndex].PkScript, params)
			if xerr != nil || len(addrs) != 1 {
				return answer{K: "err", Err: "other:change script not understood"}
			}
			addr = addrs[0]
		}
	default:
		return answer{K: "err", Err: "other:unknown wallet call " + o.Via}
	}
	if err != nil {
		return errAns(err)
	}
	return answer{K: "addrs", Addrs: [][]uint32{w.refOf(addr)}}
}

func propsAns(w *world, p *waddrmgr.AccountProperties) answer {
	out := answer{K: "props", Name: nameID(p.AccountName), Ext: p.ExternalKeyCount,
		IntN: p.InternalKeyCount, Imp: p.ImportedKeyCount, WO: p.IsWatchOnly, Fp: p.MasterKeyFingerprint}
	if p.AddrSchema != nil {
		out.Sch = []uint32{uint32(p.AddrSchema.ExternalAddrType), uint32(p.AddrSchema.InternalAddrType)}
	}
	// imported account: its key is one of the xpubs the harness imports
	// (a default account reports its own account key: -1)
	out.Key = w.xpubIndex(p.AccountPubKey)
	return out
}

// walletImport performs wallet.ImportAccount / wallet.ImportAccountDryRun for
// a transaction whose ops spell out what these do to the address manager:
//
//	importacct: newacctwo, props                                        (committed)
//	importdry:  newacctwo, props, next ext N, next int N, props, invalidate  (always rolled back)
//
// and returns the outcomes the wallet lets a caller see ({"k":"any"} where it
// does not).  A shorter result means the call failed at its first step.
func (in *inst) walletImport(w *world, t *txIn) ([]answer, error) {
	o := t.Ops[0]
	any := answer{K: "any"}
	if o.K != "newacctwo" || o.Key < 0 || o.Key >= nXpubs || o.Sch != nil {
		return nil, fmt.Errorf("bad wallet import %+v", o)
	}
	at := waddrmgr.AddressType(w.schema()[0]) // WitnessPubKey: scope BIP0084, the scope's own schema
	switch o.Via {
	case "importacct":
		if len(t.Ops) != 2 || t.Ops[1].K != "props" {
			return nil, fmt.Errorf("bad importacct transaction")
		}
		p, err := in.w.ImportAccount(nameOf(o.Name), w.xpubs[o.Key], o.Fp, &at)
		if err != nil {
			return []answer{errAns(err)}, nil
		}
		if p.AccountNumber != t.Ops[1].Acct {
			return nil, fmt.Errorf("imported account got number %d, history says %d", p.AccountNumber, t.Ops[1].Acct)
		}
		if err := w.setWO(p.AccountNumber, o.Key, nil); err != nil {
			return nil, err
		}
		return []answer{{K: "acct", Acct: p.AccountNumber}, propsAns(w, p)}, nil
	case "importdry":
		if len(t.Ops) != 6 || t.Ops[1].K != "props" || t.Ops[2].K != "next" || t.Ops[2].Int ||
			t.Ops[3].K != "next" || !t.Ops[3].Int || t.Ops[2].N != t.Ops[3].N || t.Ops[4].K != "props" ||
			t.Ops[5].K != "invalidate" {
			return nil, fmt.Errorf("bad importdry transaction")
		}
		p, ext, int_, err := in.w.ImportAccountDryRun(nameOf(o.Name), w.xpubs[o.Key], o.Fp, &at, t.Ops[2].N)
		if err != nil {
			return []answer{errAns(err)}, nil
		}
		n := p.AccountNumber
		if n != t.Ops[1].Acct {
			return nil, fmt.Errorf("dry-run account got number %d, history says %d", n, t.Ops[1].Acct)
		}
		// the addresses are those of the imported key, whatever becomes of the number
		if err := w.setWO(n, o.Key, nil); err != nil {
			return nil, err
		}
		refs := func(mas []waddrmgr.ManagedAddress) answer {
			a := answer{K: "addrs", Addrs: [][]uint32{}}
			for _, ma := range mas {
				a.Addrs = append(a.Addrs, w.refOf(ma.Address()))
			}
			return a
		}
		outs := []answer{{K: "acct", Acct: n}, any, refs(ext), refs(int_), propsAns(w, p), any}
		w.unsetWO(n)
		return outs, nil
	}
	return nil, fmt.Errorf("unknown wallet import %q", o.Via)
}

func openInst(path string, ws worlds2, unlock bool) (*inst, error) {
	raw, err := walletdb.Open("bdb", path, true, time.Minute, false)
	if err != nil {
		return nil, err
	}
	in := &inst{db: abortdb.New(raw)}
	err = walletdb.View(in.db, func(tx walletdb.ReadTx) error {
		ns := tx.ReadBucket(nsKey)
		m, err := waddrmgr.Open(ns, pubPass, params)
		if err != nil {
			return err
		}
		in.mgr = m
		if unlock {
			if err := m.Unlock(ns, privPass); err != nil {
				return err
			}
		}
		in.sm, err = m.FetchScopedKeyManager(ws[0].scope)
		if err != nil {
			return err
		}
		if ws[1] != nil {
			in.sm2, err = m.FetchScopedKeyManager(ws[1].scope)
		}
		return err
	})
	if err != nil {
		raw.Close()
		return nil, err
	}
	return in, nil
}

func (in *inst) close() {
	if in.w != nil {
		in.w.Stop()
		in.w.WaitForShutdown()
		in.db.Close()
		return
	}
	if in.mgr != nil {
		in.mgr.Close()
	}
	in.db.Close()
}

// ---------------------------------------------------------------- running ops

func errCode(err error) string {
	if err == nil {
		return ""
	}
	var me waddrmgr.ManagerError
	if errors.As(err, &me) {
		return codeName(me.ErrorCode)
	}
	var pme *waddrmgr.ManagerError
	if errors.As(err, &pme) {
		return codeName(pme.ErrorCode)
	}
	return "other:" + err.Error()
}

// codeName names the error class (two codes have no entry in waddrmgr's
// string table).
func codeName(c waddrmgr.ErrorCode) string {
	switch c {
	case waddrmgr.ErrBirthdayBlockNotSet:
		return "ErrBirthdayBlockNotSet"
	case waddrmgr.ErrBlockNotFound:
		return "ErrBlockNotFound"
	}
	return c.String()
}

func errAns(err error) answer { return answer{K: "err", Err: errCode(err)} }

func stampOf(o op) waddrmgr.BlockStamp {
	return waddrmgr.BlockStamp{Height: o.H, Hash: hashOf(o.Hash), Timestamp: time.Unix(o.T, 0)}
}

// apply runs one op of the history against a manager inside an open
// transaction; rw is nil in a read transaction (write ops then fail).
func apply(ws worlds2, in *inst, rd walletdb.ReadBucket, rw walletdb.ReadWriteBucket, o op) (res answer) {
	// a panicking call is an outcome (one the model never predicts), not the
	// end of the history
	defer func() {
		if p := recover(); p != nil {
			res = answer{K: "err", Err: "panic"}
		}
	}()
	needW := func() *answer {
		if rw == nil {
			a := answer{K: "err", Err: "other:write op in read transaction"}
			return &a
		}
		return nil
	}
	w, sm, m := ws.of(o.Sc), in.scoped(o.Sc), in.mgr
	switch o.K {
	case "lock":
		if err := m.Lock(); err != nil {
			return errAns(err)
		}
		return answer{K: "ok"}
	case "unlock":
		if err := m.Unlock(rd, privPass); err != nil {
			return errAns(err)
		}
		return answer{K: "ok"}
	case "invalidate":
		sm.InvalidateAccountCache(o.Acct)
		return answer{K: "ok"}
	case "convert":
		if a := needW(); a != nil {
			return *a
		}
		if err := m.ConvertToWatchingOnly(rw); err != nil {
			return errAns(err)
		}
		return answer{K: "ok"}
	case "newacct":
		if a := needW(); a != nil {
			return *a
		}
		n, err := sm.NewAccount(rw, nameOf(o.Name))
		if err != nil {
			return errAns(err)
		}
		w.unsetWO(n)
		return answer{K: "acct", Acct: n}
	case "newacctwo":
		if a := needW(); a != nil {
			return *a
		}
		if o.Key < 0 || o.Key >= nXpubs || (o.Sch != nil && len(o.Sch) != 2) {
			return answer{K: "err", Err: "other:bad imported account"}
		}
		var sch *waddrmgr.ScopeAddrSchema
		if o.Sch != nil {
			sch = &waddrmgr.ScopeAddrSchema{ExternalAddrType: waddrmgr.AddressType(o.Sch[0]),
				InternalAddrType: waddrmgr.AddressType(o.Sch[1])}
		}
		n, err := sm.NewAccountWatchingOnly(rw, nameOf(o.Name), w.xpubs[o.Key], o.Fp, sch)
		if err != nil {
			return errAns(err)
		}
		if err := w.setWO(n, o.Key, o.Sch); err != nil {
			return errAns(err)
		}
		return answer{K: "acct", Acct: n}
	case "rename":
		if a := needW(); a != nil {
			return *a
		}
		if err := sm.RenameAccount(rw, o.Acct, nameOf(o.Name)); err != nil {
			return errAns(err)
		}
		return answer{K: "ok"}
	case "next":
		if a := needW(); a != nil {
			return *a
		}
		var mas []waddrmgr.ManagedAddress
		var err error
		if o.Int {
			mas, err = sm.NextInternalAddresses(rw, o.Acct, o.N)
		} else {
			mas, err = sm.NextExternalAddresses(rw, o.Acct, o.N)
		}
		if err != nil {
			return errAns(err)
		}
		out := answer{K: "addrs", Addrs: [][]uint32{}}
		for _, ma := range mas {
			// enter the expected window into the table first
			out.Addrs = append(out.Addrs, w.refOf(ma.Address()))
		}
		return out
	case "extend":
		if a := needW(); a != nil {
			return *a
		}
		var err error
		if o.Int {
			err = sm.ExtendInternalAddresses(rw, o.Acct, o.N)
		} else {
			err = sm.ExtendExternalAddresses(rw, o.Acct, o.N)
		}
		if err != nil {
			return errAns(err)
		}
		return answer{K: "ok"}
	case "markused":
		if a := needW(); a != nil {
			return *a
		}
		ad, err := w.addrOf(o.Addr)
		if err != nil {
			return errAns(err)
		}
		if err := sm.MarkUsed(rw, ad); err != nil {
			return errAns(err)
		}
		return answer{K: "ok"}
	case "setsynced":
		if a := needW(); a != nil {
			return *a
		}
		bs := stampOf(o)
		if err := m.SetSyncedTo(rw, &bs); err != nil {
			return errAns(err)
		}
		return answer{K: "ok"}
	case "setsyncednil":
		if a := needW(); a != nil {
			return *a
		}
		if err := m.SetSyncedTo(rw, nil); err != nil {
			return errAns(err)
		}
		return answer{K: "ok"}
	case "setbirthday":
		if a := needW(); a != nil {
			return *a
		}
		if err := m.SetBirthday(rw, time.Unix(o.T, 0)); err != nil {
			return errAns(err)
		}
		return answer{K: "ok"}
	case "setbdayblock":
		if a := needW(); a != nil {
			return *a
		}
		if err := m.SetBirthdayBlock(rw, stampOf(o), o.Ver); err != nil {
			return errAns(err)
		}
		return answer{K: "ok"}
	case "impkey":
		if a := needW(); a != nil {
			return *a
		}
		if o.Key < 0 || o.Key >= nKeys {
			return answer{K: "err", Err: "other:bad key"}
		}
		var bs *waddrmgr.BlockStamp
		if o.Hash >= 0 {
			s := stampOf(o)
			bs = &s
		}
		var ma waddrmgr.ManagedAddress
		var err error
		if o.Priv {
			wif, werr := btcutil.NewWIF(w.keys[o.Key], params, true)
			if werr != nil {
				return errAns(werr)
			}
			if bs == nil {
				s := stampOf(o)
				bs = &s
			}
			ma, err = sm.ImportPrivateKey(rw, wif, bs)
		} else {
			ma, err = sm.ImportPublicKey(rw, w.keys[o.Key].PubKey(), bs)
		}
		if err != nil {
			return errAns(err)
		}
		return answer{K: "addrs", Addrs: [][]uint32{w.refOf(ma.Address())}}
	case "impscript":
		if a := needW(); a != nil {
			return *a
		}
		if o.Key < 0 || o.Key >= nScripts {
			return answer{K: "err", Err: "other:bad script"}
		}
		bs := stampOf(o)
		ma, err := sm.ImportScript(rw, w.scripts[o.Key], &bs)
		if err != nil {
			return errAns(err)
		}
		return answer{K: "addrs", Addrs: [][]uint32{w.refOf(ma.Address())}}

	// ------------------------------------------------------------ reads
	case "lookup":
		ad, err := w.addrOf(o.Addr)
		if err != nil {
			return errAns(err)
		}
		ma, err := sm.Address(rd, ad)
		if err != nil {
			return errAns(err)
		}
		out := answer{K: "addr", Ref: w.refOf(ma.Address()), Acct: ma.InternalAccount(),
			Internal: ma.Internal(), Imported: ma.Imported(), Used: ma.Used(rd), Ty: uint32(ma.AddrType())}
		derivation(ma, &out)
		return out
	case "last":
		var ma waddrmgr.ManagedAddress
		var err error
		if o.Int {
			ma, err = sm.LastInternalAddress(rd, o.Acct)
		} else {
			ma, err = sm.LastExternalAddress(rd, o.Acct)
		}
		if err != nil {
			return errAns(err)
		}
		if ma == nil {
			return answer{K: "err", Err: "other:nil last address"}
		}
		out := answer{K: "last", Ref: w.refOf(ma.Address()), Ty: uint32(ma.AddrType())}
		derivation(ma, &out)
		return out
	case "props":
		p, err := sm.AccountProperties(rd, o.Acct)
		if err != nil {
			return errAns(err)
		}
		return propsAns(w, p)
	case "lookupname":
		n, err := sm.LookupAccount(rd, nameOf(o.Name))
		if err != nil {
			return errAns(err)
		}
		return answer{K: "acct", Acct: n}
	case "acctname":
		s, err := sm.AccountName(rd, o.Acct)
		if err != nil {
			return errAns(err)
		}
		return answer{K: "name", Name: nameID(s)}
	case "lastacct":
		n, err := sm.LastAccount(rd)
		if err != nil {
			return errAns(err)
		}
		return answer{K: "acct", Acct: n}
	case "synced":
		bs := m.SyncedTo()
		return answer{K: "stamp", H: bs.Height, Hash: hashID(bs.Hash), T: bs.Timestamp.Unix()}
	case "blockhash":
		h, err := m.BlockHash(rd, o.H)
		if err != nil {
			return errAns(err)
		}
		return answer{K: "hash", Hash: hashID(*h)}
	case "birthday":
		return answer{K: "time", T: m.Birthday().Unix()}
	case "bdayblock":
		bs, ver, err := m.BirthdayBlock(rd)
		if err != nil {
			return errAns(err)
		}
		return answer{K: "bday", H: bs.Height, Hash: hashID(bs.Hash), T: bs.Timestamp.Unix(), Ver: ver}
	}
	return answer{K: "err", Err: "other:unknown op " + o.K}
}

// derivation adds DerivationInfo() and PubKey() of a pubkey address.
func derivation(ma waddrmgr.ManagedAddress, out *answer) {
	pk, ok := ma.(waddrmgr.ManagedPubKeyAddress)
	if !ok {
		return
	}
	if ks, dp, ok := pk.DerivationInfo(); ok {
		out.DI = true
		out.Fp = dp.MasterKeyFingerprint
		out.Path = []uint32{ks.Purpose, ks.Coin, dp.InternalAccount, dp.Account, dp.Branch, dp.Index}
	}
	if k := pk.PubKey(); k != nil {
		out.Pub = fmt.Sprintf("%x", k.SerializeCompressed())
	}
}

func isRead(k string) bool {
	switch k {
	case "lookup", "last", "props", "lookupname", "acctname", "lastacct", "synced", "blockhash", "birthday", "bdayblock":
		return true
	}
	return false
}

// ---------------------------------------------------------------- one history
