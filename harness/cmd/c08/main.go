// Command c08 drives the REAL waddrmgr through random histories of database
// transactions (1-3 manager operations each; committed, aborted by the caller,
// aborted as a dry run, or with a failing commit) and, after EVERY
// transaction, copies the database file, opens the copy with a fresh
// waddrmgr.Open and asks the running and the fresh manager the same questions.
//
// Output: one JSON object per history
//
//	{"in": history, "obs": per-op outcomes + per-boundary (query, running, fresh),
//	 "oracle": ["kind@site", ...], "findings": [...], "tags": [...]}
//
// The oracle is the property stated directly on the implementation: the running
// manager and a manager freshly opened on the same database answer alike.
package main

import (
	"bytes"
	"crypto/sha256"
	"encoding/binary"
	"encoding/json"
	"errors"
	"fmt"
	"os"
	"path/filepath"
	"sort"
	"strings"
	"time"

	"github.com/btcsuite/btcd/btcec/v2"
	"github.com/btcsuite/btcd/btcjson"
	"github.com/btcsuite/btcd/btcutil"
	"github.com/btcsuite/btcd/btcutil/hdkeychain"
	"github.com/btcsuite/btcd/chaincfg"
	"github.com/btcsuite/btcd/chaincfg/chainhash"
	"github.com/btcsuite/btcd/txscript"
	"github.com/btcsuite/btcd/wire"
	"github.com/btcsuite/btcwallet/chain"
	"github.com/btcsuite/btcwallet/snacl"
	"github.com/btcsuite/btcwallet/waddrmgr"
	"github.com/btcsuite/btcwallet/wallet"
	"github.com/btcsuite/btcwallet/walletdb"
	_ "github.com/btcsuite/btcwallet/walletdb/bdb"
	"github.com/btcsuite/btcwallet/wtxmgr"

	"verifharness/internal/abortdb"
	"verifharness/internal/core"
	"verifharness/internal/gen"
)

// ---------------------------------------------------------------- history

// op is one manager call.  Write ops: newacct rename next extend markused
// setsynced setsyncednil setbirthday setbdayblock impkey impscript.  Read ops
// (also used as the boundary queries): lookup last props lookupname acctname
// lastacct synced blockhash birthday bdayblock.
type op struct {
	K    string   `json:"k"`
	Acct uint32   `json:"acct"`
	Name int      `json:"name"` // interned account name (0 "", 1 "imported", 2 "default", n "acct<n>")
	Int  bool     `json:"int"`  // internal branch
	N    uint32   `json:"n"`    // number of addresses (next) / last index (extend)
	Addr []uint32 `json:"addr"` // [0,acct,branch,index] chained | [1,k,0,0] imported key | [2,k,0,0] imported script
	H    int32    `json:"h"`
	Hash int      `json:"hash"`
	T    int64    `json:"t"`
	Ver  bool     `json:"ver"`
	Key  int      `json:"key"`
	Priv bool     `json:"priv"` // impkey through ImportPrivateKey instead of ImportPublicKey
	// newacctwo (NewAccountWatchingOnly): Key = index of the imported xpub,
	// Fp = master key fingerprint, Sch = nil or [external, internal] address
	// type overriding the scope's schema
	Fp  uint32   `json:"fp,omitempty"`
	Sch []uint32 `json:"sch,omitempty"`
	// wallet mode only: the wallet API that performs the issuance -
	// newaddress | newchange | createtx | createtxdry
	Via string `json:"via,omitempty"`
}

type txIn struct {
	Fate string `json:"fate"` // commit | abort | dryrun | failcommit
	Ops  []op   `json:"ops"`
}

type input struct {
	Scope uint32 `json:"scope"` // 84 or 44
	// Wallet: the history is driven through wallet.Wallet (NewAddress,
	// NewChangeAddress, CreateSimpleTx with and without dryRun) instead of
	// the address manager; every transaction then holds one issuance.
	Wallet bool   `json:"wallet,omitempty"`
	Txs    []txIn `json:"txs"`
}

// answer is the projected result of one call.
type answer struct {
	K        string     `json:"k"` // err ok acct addrs addr last props name stamp hash time bday
	Err      string     `json:"err"`
	Acct     uint32     `json:"acct"`
	Name     int        `json:"name"`
	Ext      uint32     `json:"ext"`
	IntN     uint32     `json:"intn"`
	Imp      uint32     `json:"imp"`
	Addrs    [][]uint32 `json:"addrs"`
	Ref      []uint32   `json:"ref"`
	Internal bool       `json:"internal"`
	Imported bool       `json:"imported"`
	Used     bool       `json:"used"`
	H        int32      `json:"h"`
	Hash     int        `json:"hash"`
	T        int64      `json:"t"`
	Ver      bool       `json:"ver"`
	// addr: AddrType() and DerivationInfo().MasterKeyFingerprint; props: the
	// same plus IsWatchOnly, the imported xpub (index) and AddrSchema
	Ty  uint32   `json:"ty"`
	Fp  uint32   `json:"fp"`
	WO  bool     `json:"wo"`
	Key int      `json:"key"`
	Sch []uint32 `json:"sch"`
}

func (a answer) key() string { b, _ := json.Marshal(a); return string(b) }

type qa struct {
	Q op      `json:"q"`
	R answer  `json:"r"`           // running manager
	F *answer `json:"f,omitempty"` // fresh manager, omitted when equal to R
}

type txObs struct {
	Outs []answer `json:"outs"`
	Err  string   `json:"err"` // what walletdb.Update returned: "", abort, dryrun, failcommit, other:...
	Q    []qa     `json:"q"`
}

type initObs struct {
	H        int32     `json:"h"`
	T        int64     `json:"t"`
	Birthday int64     `json:"birthday"`
	Sch      [2]uint32 `json:"sch"` // the scope's address schema: external, internal address type
}

type obsT struct {
	Init initObs `json:"init"`
	Q0   []qa    `json:"q0"` // boundary queries before the first transaction
	Txs  []txObs `json:"txs"`
}

type finding struct {
	Kind string `json:"kind"`
	Site string `json:"site"`
	Tx   int    `json:"tx"` // index of the transaction after which it first shows (-1: before any)
	Q    op     `json:"q"`
	R    answer `json:"r"`
	F    answer `json:"f"`
}

type caseOut struct {
	In       input     `json:"in"`
	Obs      obsT      `json:"obs"`
	Oracle   []string  `json:"oracle"`
	Findings []finding `json:"findings"`
	Tags     []string  `json:"tags"`
}

// ---------------------------------------------------------------- fixtures

var (
	params   = &chaincfg.MainNetParams
	seed     = bytes.Repeat([]byte{0x2a, 0x64, 0xdf, 0x08}, 8)
	pubPass  = []byte("c08-public")
	privPass = []byte("c08-private")
	nsKey    = []byte("waddrmgr")
	birthday = time.Unix(1600000000, 0)
)

const (
	nXpubs   = 5 // imported account keys, derived from other seeds
	nKeys    = 3
	nScripts = 2
	maxAcct  = 8
	maxIdx   = 96
)

func nameOf(id int) string {
	switch id {
	case 0:
		return ""
	case 1:
		return waddrmgr.ImportedAddrAccountName
	case 2:
		return "default"
	}
	return fmt.Sprintf("acct%d", id)
}

func nameID(s string) int {
	switch s {
	case "":
		return 0
	case waddrmgr.ImportedAddrAccountName:
		return 1
	case "default":
		return 2
	}
	var id int
	if _, err := fmt.Sscanf(s, "acct%d", &id); err == nil && nameOf(id) == s {
		return id
	}
	return -1
}

func hashOf(id int) chainhash.Hash {
	if id == 0 {
		return *params.GenesisHash
	}
	var h chainhash.Hash
	copy(h[:4], "C08H")
	binary.LittleEndian.PutUint32(h[4:8], uint32(id))
	return h
}

func hashID(h chainhash.Hash) int {
	if h == *params.GenesisHash {
		return 0
	}
	if string(h[:4]) == "C08H" {
		return int(binary.LittleEndian.Uint32(h[4:8]))
	}
	return -1
}

// world holds the address <-> path table of one scope, derived here from the
// seed (hdkeychain), independently of any manager instance.
type world struct {
	scope    waddrmgr.KeyScope
	byAddr   map[string][]uint32
	chain    map[[3]uint32]btcutil.Address
	keys     []*btcec.PrivateKey
	keyAddr  []btcutil.Address
	scripts  [][]byte
	scrAddr  []btcutil.Address
	acctKeys map[uint32]*hdkeychain.ExtendedKey
	coinKey  *hdkeychain.ExtendedKey
	xpubs    []*hdkeychain.ExtendedKey     // imported account keys (shared)
	xaddr    map[[4]uint32]btcutil.Address // (xpub, branch, index, type) -> address (shared memo)

	// per history: which account number is an imported (watch-only) account,
	// with which key and schema, and the addresses that follow from it
	wo       map[uint32]woAcct
	woByAddr map[string][]uint32
}

type woAcct struct {
	key int
	sch []uint32 // nil: the scope's schema
}

// schema returns the scope's address schema as waddrmgr.AddressType values.
func (w *world) schema() [2]uint32 {
	sc := waddrmgr.ScopeAddrMap[w.scope]
	return [2]uint32{uint32(sc.ExternalAddrType), uint32(sc.InternalAddrType)}
}

func typedAddr(pub []byte, ty uint32) (btcutil.Address, error) {
	h := btcutil.Hash160(pub)
	switch waddrmgr.AddressType(ty) {
	case waddrmgr.PubKeyHash:
		return btcutil.NewAddressPubKeyHash(h, params)
	case waddrmgr.WitnessPubKey:
		return btcutil.NewAddressWitnessPubKeyHash(h, params)
	case waddrmgr.NestedWitnessPubKey:
		wa, err := btcutil.NewAddressWitnessPubKeyHash(h, params)
		if err != nil {
			return nil, err
		}
		script, err := txscript.PayToAddrScript(wa)
		if err != nil {
			return nil, err
		}
		return btcutil.NewAddressScriptHash(script, params)
	}
	return nil, fmt.Errorf("unsupported address type %d", ty)
}

func (w *world) pkAddr(pub []byte) (btcutil.Address, error) {
	return typedAddr(pub, w.schema()[0])
}

// woAddr derives branch/index of an imported account key with the given type.
func (w *world) woAddr(key int, branch, idx, ty uint32) (btcutil.Address, error) {
	k := [4]uint32{uint32(key), branch, idx, ty}
	if a, ok := w.xaddr[k]; ok {
		return a, nil
	}
	bk, err := w.xpubs[key].DeriveNonStandard(branch) // nolint:staticcheck
	if err != nil {
		return nil, err
	}
	ck, err := bk.DeriveNonStandard(idx) // nolint:staticcheck
	if err != nil {
		return nil, err
	}
	pub, err := ck.ECPubKey()
	if err != nil {
		return nil, err
	}
	a, err := typedAddr(pub.SerializeCompressed(), ty)
	if err != nil {
		return nil, err
	}
	w.xaddr[k] = a
	return a, nil
}

func (w *world) woType(acct woAcct, branch uint32) uint32 {
	if acct.sch != nil {
		return acct.sch[branch]
	}
	return w.schema()[branch]
}

// setWO records that account number n is (now) an imported account; unsetWO
// that it is a default one.
func (w *world) setWO(n uint32, key int, sch []uint32) error {
	acct := woAcct{key: key, sch: sch}
	w.wo[n] = acct
	for b := uint32(0); b < 2; b++ {
		for i := uint32(0); i < maxIdx; i++ {
			a, err := w.woAddr(key, b, i, w.woType(acct, b))
			if err != nil {
				return err
			}
			w.woByAddr[a.EncodeAddress()] = []uint32{0, n, b, i}
		}
	}
	return nil
}

func (w *world) unsetWO(n uint32) { delete(w.wo, n) }

func (w *world) xpubIndex(k *hdkeychain.ExtendedKey) int {
	if k == nil {
		return -1
	}
	for i, x := range w.xpubs {
		if x.String() == k.String() {
			return i
		}
	}
	return -1
}

var worlds = map[uint32]*world{}

// newWorld returns the table of one scope (memoised, with every chained
// address of the small universe entered) with a fresh per-history overlay for
// imported accounts.
func newWorld(scope uint32) (*world, error) {
	base, err := baseWorld(scope)
	if err != nil {
		return nil, err
	}
	w := *base
	w.wo = map[uint32]woAcct{}
	w.woByAddr = map[string][]uint32{}
	return &w, nil
}

func baseWorld(scope uint32) (*world, error) {
	if w, ok := worlds[scope]; ok {
		return w, nil
	}
	w, err := buildWorld(scope)
	if err != nil {
		return nil, err
	}
	for a := uint32(0); a < maxAcct; a++ {
		for b := uint32(0); b < 2; b++ {
			for i := uint32(0); i < maxIdx; i++ {
				if _, err := w.chainAddr(a, b, i); err != nil {
					return nil, err
				}
			}
		}
	}
	worlds[scope] = w
	return w, nil
}

func buildWorld(scope uint32) (*world, error) {
	w := &world{byAddr: map[string][]uint32{}, chain: map[[3]uint32]btcutil.Address{},
		acctKeys: map[uint32]*hdkeychain.ExtendedKey{}, xaddr: map[[4]uint32]btcutil.Address{}}
	switch scope {
	case 84:
		w.scope = waddrmgr.KeyScopeBIP0084
	case 44:
		w.scope = waddrmgr.KeyScopeBIP0044
	default:
		return nil, fmt.Errorf("unsupported scope %d", scope)
	}
	root, err := hdkeychain.NewMaster(seed, params)
	if err != nil {
		return nil, err
	}
	purpose, err := root.DeriveNonStandard(w.scope.Purpose + hdkeychain.HardenedKeyStart) // nolint:staticcheck
	if err != nil {
		return nil, err
	}
	w.coinKey, err = purpose.DeriveNonStandard(w.scope.Coin + hdkeychain.HardenedKeyStart) // nolint:staticcheck
	if err != nil {
		return nil, err
	}
	// imported account keys: m/purpose'/coin'/0' of other seeds, neutered
	for j := 0; j < nXpubs; j++ {
		other, err := hdkeychain.NewMaster(bytes.Repeat([]byte{byte(0xa0 + j)}, 32), params)
		if err != nil {
			return nil, err
		}
		k := other
		for _, c := range []uint32{w.scope.Purpose, w.scope.Coin, 0} {
			k, err = k.DeriveNonStandard(c + hdkeychain.HardenedKeyStart) // nolint:staticcheck
			if err != nil {
				return nil, err
			}
		}
		pub, err := k.Neuter()
		if err != nil {
			return nil, err
		}
		w.xpubs = append(w.xpubs, pub)
	}
	for i := 0; i < nKeys; i++ {
		d := sha256.Sum256([]byte(fmt.Sprintf("c08-key-%d", i)))
		priv, _ := btcec.PrivKeyFromBytes(d[:])
		a, err := w.pkAddr(priv.PubKey().SerializeCompressed())
		if err != nil {
			return nil, err
		}
		w.keys = append(w.keys, priv)
		w.keyAddr = append(w.keyAddr, a)
		w.byAddr[a.EncodeAddress()] = []uint32{1, uint32(i), 0, 0}
	}
	for i := 0; i < nScripts; i++ {
		s, err := txscript.NewScriptBuilder().AddInt64(int64(i + 2)).AddOp(txscript.OP_DROP).AddOp(txscript.OP_TRUE).Script()
		if err != nil {
			return nil, err
		}
		a, err := btcutil.NewAddressScriptHash(s, params)
		if err != nil {
			return nil, err
		}
		w.scripts = append(w.scripts, s)
		w.scrAddr = append(w.scrAddr, a)
		w.byAddr[a.EncodeAddress()] = []uint32{2, uint32(i), 0, 0}
	}
	return w, nil
}

// chainAddr derives m/purpose'/coin'/acct'/branch/index the way waddrmgr does
// (DeriveNonStandard at every level) and memoises the address.
func (w *world) chainAddr(acct, branch, idx uint32) (btcutil.Address, error) {
	k := [3]uint32{acct, branch, idx}
	if a, ok := w.chain[k]; ok {
		return a, nil
	}
	ak, ok := w.acctKeys[acct]
	if !ok {
		priv, err := w.coinKey.DeriveNonStandard(acct + hdkeychain.HardenedKeyStart) // nolint:staticcheck
		if err != nil {
			return nil, err
		}
		ak, err = priv.Neuter()
		if err != nil {
			return nil, err
		}
		w.acctKeys[acct] = ak
	}
	bk, err := ak.DeriveNonStandard(branch) // nolint:staticcheck
	if err != nil {
		return nil, err
	}
	ck, err := bk.DeriveNonStandard(idx) // nolint:staticcheck
	if err != nil {
		return nil, err
	}
	pub, err := ck.ECPubKey()
	if err != nil {
		return nil, err
	}
	a, err := w.pkAddr(pub.SerializeCompressed())
	if err != nil {
		return nil, err
	}
	w.chain[k] = a
	w.byAddr[a.EncodeAddress()] = []uint32{0, acct, branch, idx}
	return a, nil
}

func (w *world) addrOf(ref []uint32) (btcutil.Address, error) {
	if len(ref) != 4 {
		return nil, fmt.Errorf("bad address reference %v", ref)
	}
	switch ref[0] {
	case 0:
		if acct, ok := w.wo[ref[1]]; ok && ref[2] < 2 {
			return w.woAddr(acct.key, ref[2], ref[3], w.woType(acct, ref[2]))
		}
		return w.chainAddr(ref[1], ref[2], ref[3])
	case 1:
		if int(ref[1]) < len(w.keyAddr) {
			return w.keyAddr[ref[1]], nil
		}
	case 2:
		if int(ref[1]) < len(w.scrAddr) {
			return w.scrAddr[ref[1]], nil
		}
	}
	return nil, fmt.Errorf("bad address reference %v", ref)
}

// refOf projects a real address to its reference; chained addresses of the
// small universe are entered on demand.
func (w *world) refOf(a btcutil.Address) []uint32 {
	if r, ok := w.woByAddr[a.EncodeAddress()]; ok {
		if _, still := w.wo[r[1]]; still {
			return r
		}
	}
	if r, ok := w.byAddr[a.EncodeAddress()]; ok {
		return r
	}
	return []uint32{9, 0, 0, 0}
}

// ---------------------------------------------------------------- database

type env struct {
	dir  string
	base map[uint32][]byte // pristine database image (one manager, all default scopes)
}

func newEnv() (*env, error) {
	dir, err := os.MkdirTemp("", "vh-c08-")
	if err != nil {
		return nil, err
	}
	e := &env{dir: dir, base: map[uint32][]byte{}}
	path := filepath.Join(dir, "base.db")
	db, err := walletdb.Create("bdb", path, true, time.Minute, false)
	if err != nil {
		return nil, err
	}
	root, err := hdkeychain.NewMaster(seed, params)
	if err != nil {
		return nil, err
	}
	err = walletdb.Update(db, func(tx walletdb.ReadWriteTx) error {
		ns, err := tx.CreateTopLevelBucket(nsKey)
		if err != nil {
			return err
		}
		return waddrmgr.Create(ns, root, pubPass, privPass, params, &waddrmgr.FastScryptOptions, birthday)
	})
	if err != nil {
		return nil, err
	}
	if err := db.Close(); err != nil {
		return nil, err
	}
	img, err := os.ReadFile(path)
	if err != nil {
		return nil, err
	}
	e.base[0] = img

	// wallet template (same seed, so the address table is the same)
	wpath := filepath.Join(dir, "wbase.db")
	wdb, err := walletdb.Create("bdb", wpath, true, time.Minute, false)
	if err != nil {
		return nil, err
	}
	if err := wallet.Create(wdb, pubPass, privPass, root, params, birthday); err != nil {
		return nil, err
	}
	if err := wdb.Close(); err != nil {
		return nil, err
	}
	if e.base[1], err = os.ReadFile(wpath); err != nil {
		return nil, err
	}
	return e, nil
}

type inst struct {
	db  *abortdb.DB
	mgr *waddrmgr.Manager
	sm  *waddrmgr.ScopedKeyManager
	w   *wallet.Wallet // wallet mode: the manager is the wallet's
}

// fakeChain is the least chain backend CreateSimpleTx and NewAddress need.
type fakeChain struct{}

var _ chain.Interface = fakeChain{}

func (fakeChain) Start() error     { return nil }
func (fakeChain) Stop()            {}
func (fakeChain) WaitForShutdown() {}
func (fakeChain) GetBestBlock() (*chainhash.Hash, int32, error) {
	return &chainhash.Hash{}, 200, nil
}
func (fakeChain) GetBlock(*chainhash.Hash) (*wire.MsgBlock, error) {
	return nil, errors.New("no block")
}
func (fakeChain) GetBlockHash(int64) (*chainhash.Hash, error) { return nil, errors.New("no hash") }
func (fakeChain) GetBlockHeader(*chainhash.Hash) (*wire.BlockHeader, error) {
	return nil, errors.New("no header")
}
func (fakeChain) IsCurrent() bool { return true }
func (fakeChain) FilterBlocks(*chain.FilterBlocksRequest) (*chain.FilterBlocksResponse, error) {
	return nil, nil
}
func (fakeChain) BlockStamp() (*waddrmgr.BlockStamp, error) {
	return &waddrmgr.BlockStamp{Height: 200, Timestamp: time.Unix(1700000000, 0)}, nil
}
func (fakeChain) SendRawTransaction(*wire.MsgTx, bool) (*chainhash.Hash, error) {
	return nil, errors.New("not connected")
}
func (fakeChain) Rescan(*chainhash.Hash, []btcutil.Address, map[wire.OutPoint]btcutil.Address) error {
	return nil
}
func (fakeChain) NotifyReceived([]btcutil.Address) error { return nil }
func (fakeChain) NotifyBlocks() error                    { return nil }
func (fakeChain) Notifications() <-chan interface{}      { return nil }
func (fakeChain) BackEnd() string                        { return "verif" }
func (fakeChain) TestMempoolAccept([]*wire.MsgTx, float64) ([]*btcjson.TestMempoolAcceptResult, error) {
	return nil, nil
}
func (fakeChain) MapRPCErr(err error) error { return err }

// openWallet opens a real wallet.Wallet on the file (behind abortdb), attaches
// the fake chain WITHOUT starting the notification goroutines (verif hook) and
// unlocks it.
func openWallet(path string, scope waddrmgr.KeyScope) (*inst, error) {
	raw, err := walletdb.Open("bdb", path, true, time.Minute, false)
	if err != nil {
		return nil, err
	}
	in := &inst{db: abortdb.New(raw)}
	w, err := wallet.Open(in.db, pubPass, nil, params, 250)
	if err != nil {
		raw.Close()
		return nil, err
	}
	w.Start()
	w.VerifSetChainClient(fakeChain{})
	if err := w.Unlock(privPass, nil); err != nil {
		return nil, err
	}
	in.w, in.mgr = w, w.Manager
	in.sm, err = w.Manager.FetchScopedKeyManager(scope)
	if err != nil {
		return nil, err
	}
	return in, nil
}

// fund gives the wallet one confirmed output paying to addr (transaction
// store only; the address manager is not involved).
func (in *inst) fund(addr btcutil.Address) error {
	script, err := txscript.PayToAddrScript(addr)
	if err != nil {
		return err
	}
	tx := wire.NewMsgTx(2)
	tx.AddTxIn(&wire.TxIn{PreviousOutPoint: wire.OutPoint{Index: 7}})
	tx.AddTxOut(wire.NewTxOut(100000000, script))
	var b bytes.Buffer
	if err := tx.Serialize(&b); err != nil {
		return err
	}
	rec, err := wtxmgr.NewTxRecord(b.Bytes(), time.Unix(1650000000, 0))
	if err != nil {
		return err
	}
	blk := &wtxmgr.BlockMeta{Block: wtxmgr.Block{Hash: chainhash.Hash{1}, Height: 100}, Time: time.Unix(1650000000, 0)}
	return walletdb.Update(in.db, func(dbtx walletdb.ReadWriteTx) error {
		ns := dbtx.ReadWriteBucket([]byte("wtxmgr"))
		if err := in.w.TxStore.InsertTx(ns, rec, blk); err != nil {
			return err
		}
		return in.w.TxStore.AddCredit(ns, rec, blk, 0, false)
	})
}

// walletCall performs one issuance through the wallet API and returns the
// outcome in the shape of the corresponding manager op.
func (in *inst) walletCall(w *world, o op) answer {
	k := w.scope
	var addr btcutil.Address
	var err error
	switch o.Via {
	case "newaddress":
		addr, err = in.w.NewAddress(o.Acct, k)
	case "newchange":
		addr, err = in.w.NewChangeAddress(o.Acct, k)
	case "createtx", "createtxdry":
		pay, perr := txscript.PayToAddrScript(w.keyAddr[0])
		if perr != nil {
			return errAns(perr)
		}
		a, cerr := in.w.CreateSimpleTx(&k, o.Acct, []*wire.TxOut{wire.NewTxOut(10000, pay)}, 1, 2000,
			wallet.CoinSelectionLargest, o.Via == "createtxdry", wallet.WithCustomChangeScope(&k))
		err = cerr
		if err == nil {
			if a.ChangeIndex < 0 {
				return answer{K: "err", Err: "other:no change output"}
			}
			_, addrs, _, xerr := txscript.ExtractPkScriptAddrs(a.Tx.TxOut[a.ChangeIndex].PkScript, params)
			if xerr != nil || len(addrs) != 1 {
				return answer{K: "err", Err: "other:change script not understood"}
			}
			addr = addrs[0]
		}
	default:
		return answer{K: "err", Err: "other:unknown wallet call " + o.Via}
	}
	if err != nil {
		return errAns(err)
	}
	return answer{K: "addrs", Addrs: [][]uint32{w.refOf(addr)}}
}

func openInst(path string, scope waddrmgr.KeyScope, unlock bool) (*inst, error) {
	raw, err := walletdb.Open("bdb", path, true, time.Minute, false)
	if err != nil {
		return nil, err
	}
	in := &inst{db: abortdb.New(raw)}
	err = walletdb.View(in.db, func(tx walletdb.ReadTx) error {
		ns := tx.ReadBucket(nsKey)
		m, err := waddrmgr.Open(ns, pubPass, params)
		if err != nil {
			return err
		}
		in.mgr = m
		if unlock {
			if err := m.Unlock(ns, privPass); err != nil {
				return err
			}
		}
		in.sm, err = m.FetchScopedKeyManager(scope)
		return err
	})
	if err != nil {
		raw.Close()
		return nil, err
	}
	return in, nil
}

func (in *inst) close() {
	if in.w != nil {
		in.w.Stop()
		in.w.WaitForShutdown()
		in.db.Close()
		return
	}
	if in.mgr != nil {
		in.mgr.Close()
	}
	in.db.Close()
}

// ---------------------------------------------------------------- running ops

func errCode(err error) string {
	if err == nil {
		return ""
	}
	var me waddrmgr.ManagerError
	if errors.As(err, &me) {
		return codeName(me.ErrorCode)
	}
	var pme *waddrmgr.ManagerError
	if errors.As(err, &pme) {
		return codeName(pme.ErrorCode)
	}
	return "other:" + err.Error()
}

// codeName names the error class (two codes have no entry in waddrmgr's
// string table).
func codeName(c waddrmgr.ErrorCode) string {
	switch c {
	case waddrmgr.ErrBirthdayBlockNotSet:
		return "ErrBirthdayBlockNotSet"
	case waddrmgr.ErrBlockNotFound:
		return "ErrBlockNotFound"
	}
	return c.String()
}

func errAns(err error) answer { return answer{K: "err", Err: errCode(err)} }

func stampOf(o op) waddrmgr.BlockStamp {
	return waddrmgr.BlockStamp{Height: o.H, Hash: hashOf(o.Hash), Timestamp: time.Unix(o.T, 0)}
}

// apply runs one op of the history against a manager inside an open
// transaction; rw is nil in a read transaction (write ops then fail).
func apply(w *world, in *inst, rd walletdb.ReadBucket, rw walletdb.ReadWriteBucket, o op) (res answer) {
	// a panicking call (ExtendAddresses on an imported account dereferences a
	// nil key - finding S3) is an outcome, not the end of the history
	defer func() {
		if p := recover(); p != nil {
			res = answer{K: "err", Err: "panic"}
		}
	}()
	needW := func() *answer {
		if rw == nil {
			a := answer{K: "err", Err: "other:write op in read transaction"}
			return &a
		}
		return nil
	}
	sm, m := in.sm, in.mgr
	switch o.K {
	case "newacct":
		if a := needW(); a != nil {
			return *a
		}
		n, err := sm.NewAccount(rw, nameOf(o.Name))
		if err != nil {
			return errAns(err)
		}
		w.unsetWO(n)
		return answer{K: "acct", Acct: n}
	case "newacctwo":
		if a := needW(); a != nil {
			return *a
		}
		if o.Key < 0 || o.Key >= nXpubs || (o.Sch != nil && len(o.Sch) != 2) {
			return answer{K: "err", Err: "other:bad imported account"}
		}
		var sch *waddrmgr.ScopeAddrSchema
		if o.Sch != nil {
			sch = &waddrmgr.ScopeAddrSchema{ExternalAddrType: waddrmgr.AddressType(o.Sch[0]),
				InternalAddrType: waddrmgr.AddressType(o.Sch[1])}
		}
		n, err := sm.NewAccountWatchingOnly(rw, nameOf(o.Name), w.xpubs[o.Key], o.Fp, sch)
		if err != nil {
			return errAns(err)
		}
		if err := w.setWO(n, o.Key, o.Sch); err != nil {
			return errAns(err)
		}
		return answer{K: "acct", Acct: n}
	case "rename":
		if a := needW(); a != nil {
			return *a
		}
		if err := sm.RenameAccount(rw, o.Acct, nameOf(o.Name)); err != nil {
			return errAns(err)
		}
		return answer{K: "ok"}
	case "next":
		if a := needW(); a != nil {
			return *a
		}
		var mas []waddrmgr.ManagedAddress
		var err error
		if o.Int {
			mas, err = sm.NextInternalAddresses(rw, o.Acct, o.N)
		} else {
			mas, err = sm.NextExternalAddresses(rw, o.Acct, o.N)
		}
		if err != nil {
			return errAns(err)
		}
		out := answer{K: "addrs", Addrs: [][]uint32{}}
		for _, ma := range mas {
			// enter the expected window into the table first
			out.Addrs = append(out.Addrs, w.refOf(ma.Address()))
		}
		return out
	case "extend":
		if a := needW(); a != nil {
			return *a
		}
		var err error
		if o.Int {
			err = sm.ExtendInternalAddresses(rw, o.Acct, o.N)
		} else {
			err = sm.ExtendExternalAddresses(rw, o.Acct, o.N)
		}
		if err != nil {
			return errAns(err)
		}
		return answer{K: "ok"}
	case "markused":
		if a := needW(); a != nil {
			return *a
		}
		ad, err := w.addrOf(o.Addr)
		if err != nil {
			return errAns(err)
		}
		if err := sm.MarkUsed(rw, ad); err != nil {
			return errAns(err)
		}
		return answer{K: "ok"}
	case "setsynced":
		if a := needW(); a != nil {
			return *a
		}
		bs := stampOf(o)
		if err := m.SetSyncedTo(rw, &bs); err != nil {
			return errAns(err)
		}
		return answer{K: "ok"}
	case "setsyncednil":
		if a := needW(); a != nil {
			return *a
		}
		if err := m.SetSyncedTo(rw, nil); err != nil {
			return errAns(err)
		}
		return answer{K: "ok"}
	case "setbirthday":
		if a := needW(); a != nil {
			return *a
		}
		if err := m.SetBirthday(rw, time.Unix(o.T, 0)); err != nil {
			return errAns(err)
		}
		return answer{K: "ok"}
	case "setbdayblock":
		if a := needW(); a != nil {
			return *a
		}
		if err := m.SetBirthdayBlock(rw, stampOf(o), o.Ver); err != nil {
			return errAns(err)
		}
		return answer{K: "ok"}
	case "impkey":
		if a := needW(); a != nil {
			return *a
		}
		if o.Key < 0 || o.Key >= nKeys {
			return answer{K: "err", Err: "other:bad key"}
		}
		var bs *waddrmgr.BlockStamp
		if o.Hash >= 0 {
			s := stampOf(o)
			bs = &s
		}
		var ma waddrmgr.ManagedAddress
		var err error
		if o.Priv {
			wif, werr := btcutil.NewWIF(w.keys[o.Key], params, true)
			if werr != nil {
				return errAns(werr)
			}
			if bs == nil {
				s := stampOf(o)
				bs = &s
			}
			ma, err = sm.ImportPrivateKey(rw, wif, bs)
		} else {
			ma, err = sm.ImportPublicKey(rw, w.keys[o.Key].PubKey(), bs)
		}
		if err != nil {
			return errAns(err)
		}
		return answer{K: "addrs", Addrs: [][]uint32{w.refOf(ma.Address())}}
	case "impscript":
		if a := needW(); a != nil {
			return *a
		}
		if o.Key < 0 || o.Key >= nScripts {
			return answer{K: "err", Err: "other:bad script"}
		}
		bs := stampOf(o)
		ma, err := sm.ImportScript(rw, w.scripts[o.Key], &bs)
		if err != nil {
			return errAns(err)
		}
		return answer{K: "addrs", Addrs: [][]uint32{w.refOf(ma.Address())}}

	// ------------------------------------------------------------ reads
	case "lookup":
		ad, err := w.addrOf(o.Addr)
		if err != nil {
			return errAns(err)
		}
		ma, err := sm.Address(rd, ad)
		if err != nil {
			return errAns(err)
		}
		out := answer{K: "addr", Ref: w.refOf(ma.Address()), Acct: ma.InternalAccount(),
			Internal: ma.Internal(), Imported: ma.Imported(), Used: ma.Used(rd), Ty: uint32(ma.AddrType())}
		if pk, ok := ma.(waddrmgr.ManagedPubKeyAddress); ok {
			if _, dp, ok := pk.DerivationInfo(); ok {
				out.Fp = dp.MasterKeyFingerprint
			}
		}
		return out
	case "last":
		var ma waddrmgr.ManagedAddress
		var err error
		if o.Int {
			ma, err = sm.LastInternalAddress(rd, o.Acct)
		} else {
			ma, err = sm.LastExternalAddress(rd, o.Acct)
		}
		if err != nil {
			return errAns(err)
		}
		return answer{K: "last", Ref: w.refOf(ma.Address())}
	case "props":
		p, err := sm.AccountProperties(rd, o.Acct)
		if err != nil {
			return errAns(err)
		}
		out := answer{K: "props", Name: nameID(p.AccountName), Ext: p.ExternalKeyCount,
			IntN: p.InternalKeyCount, Imp: p.ImportedKeyCount, WO: p.IsWatchOnly, Fp: p.MasterKeyFingerprint}
		if p.AddrSchema != nil {
			out.Sch = []uint32{uint32(p.AddrSchema.ExternalAddrType), uint32(p.AddrSchema.InternalAddrType)}
		}
		if p.IsWatchOnly {
			out.Key = w.xpubIndex(p.AccountPubKey)
		}
		return out
	case "lookupname":
		n, err := sm.LookupAccount(rd, nameOf(o.Name))
		if err != nil {
			return errAns(err)
		}
		return answer{K: "acct", Acct: n}
	case "acctname":
		s, err := sm.AccountName(rd, o.Acct)
		if err != nil {
			return errAns(err)
		}
		return answer{K: "name", Name: nameID(s)}
	case "lastacct":
		n, err := sm.LastAccount(rd)
		if err != nil {
			return errAns(err)
		}
		return answer{K: "acct", Acct: n}
	case "synced":
		bs := m.SyncedTo()
		return answer{K: "stamp", H: bs.Height, Hash: hashID(bs.Hash), T: bs.Timestamp.Unix()}
	case "blockhash":
		h, err := m.BlockHash(rd, o.H)
		if err != nil {
			return errAns(err)
		}
		return answer{K: "hash", Hash: hashID(*h)}
	case "birthday":
		return answer{K: "time", T: m.Birthday().Unix()}
	case "bdayblock":
		bs, ver, err := m.BirthdayBlock(rd)
		if err != nil {
			return errAns(err)
		}
		return answer{K: "bday", H: bs.Height, Hash: hashID(bs.Hash), T: bs.Timestamp.Unix(), Ver: ver}
	}
	return answer{K: "err", Err: "other:unknown op " + o.K}
}

func isRead(k string) bool {
	switch k {
	case "lookup", "last", "props", "lookupname", "acctname", "lastacct", "synced", "blockhash", "birthday", "bdayblock":
		return true
	}
	return false
}

// ---------------------------------------------------------------- one history

const importedAcct = waddrmgr.ImportedAddrAccount

type runner struct {
	e *env
	w *world
	r *inst // running manager
	// what the harness knows (for the query domain and the generator)
	issued  [][]uint32 // addresses returned by committed transactions
	heights map[int32]bool
	names   int // highest name id used so far
	seenDiv map[string]bool
	// site of the first divergence per subject
	subjSite map[string]string
	// address -> site of the rolled-back transaction that derived/imported it
	phantomSite map[string]string
	seq         int
}

func subjectOf(q op) string {
	switch q.K {
	case "props", "last", "acctname":
		return fmt.Sprintf("acct:%d", q.Acct)
	case "lookup":
		return fmt.Sprintf("addr:%v", q.Addr)
	case "synced", "blockhash":
		return "sync"
	}
	return q.K
}

func (rn *runner) freshCopy() (*inst, string, error) {
	rn.seq++
	p := filepath.Join(rn.e.dir, fmt.Sprintf("fresh-%d.db", rn.seq))
	f, err := os.Create(p)
	if err != nil {
		return nil, "", err
	}
	if err := rn.r.db.Copy(f); err != nil {
		f.Close()
		return nil, "", err
	}
	if err := f.Close(); err != nil {
		return nil, "", err
	}
	// a restarted AND unlocked wallet: AccountProperties().IsWatchOnly of a default
	// account depends on the lock state at the time the account was loaded
	in, err := openInst(p, rn.w.scope, true)
	return in, p, err
}

// queries builds the boundary query list from the FRESH manager's view of the
// database (what a restarted wallet knows) and the harness' record of issued
// addresses.
func (rn *runner) queries(fr *inst) ([]op, error) {
	var qs []op
	var last uint32
	nexts := map[[2]uint32]uint32{}
	err := walletdb.View(fr.db, func(tx walletdb.ReadTx) error {
		ns := tx.ReadBucket(nsKey)
		var err error
		last, err = fr.sm.LastAccount(ns)
		if err != nil {
			return err
		}
		for a := uint32(0); a <= last && a < maxAcct; a++ {
			p, err := fr.sm.AccountProperties(ns, a)
			if err != nil {
				continue
			}
			nexts[[2]uint32{a, 0}] = p.ExternalKeyCount
			nexts[[2]uint32{a, 1}] = p.InternalKeyCount
		}
		return nil
	})
	if err != nil {
		return nil, err
	}
	top := last + 1
	if top >= maxAcct {
		top = maxAcct - 1
	}
	for a := uint32(0); a <= top; a++ {
		qs = append(qs, op{K: "props", Acct: a}, op{K: "acctname", Acct: a},
			op{K: "last", Acct: a}, op{K: "last", Acct: a, Int: true})
	}
	qs = append(qs, op{K: "props", Acct: importedAcct}, op{K: "acctname", Acct: importedAcct}, op{K: "lastacct"})
	for n := 0; n <= rn.names+1; n++ {
		qs = append(qs, op{K: "lookupname", Name: n})
	}
	// issued by committed transactions (most recent 16)
	seen := map[[4]uint32]bool{}
	add := func(ref []uint32) {
		k := [4]uint32{ref[0], ref[1], ref[2], ref[3]}
		if seen[k] || (ref[0] == 0 && ref[3] >= maxIdx) {
			return
		}
		seen[k] = true
		qs = append(qs, op{K: "lookup", Addr: ref})
	}
	from := 0
	if len(rn.issued) > 16 {
		from = len(rn.issued) - 16
	}
	for _, ref := range rn.issued[from:] {
		add(ref)
	}
	// the last derived and the next three not-yet-issued indices per branch
	for a := uint32(0); a <= last && a < maxAcct; a++ {
		for b := uint32(0); b < 2; b++ {
			nx, ok := nexts[[2]uint32{a, b}]
			if !ok {
				continue
			}
			lo := nx
			if lo > 0 {
				lo--
			}
			for i := lo; i < nx+3; i++ {
				add([]uint32{0, a, b, i})
			}
		}
	}
	// the first indices of the first not-yet-created account
	if last+1 < maxAcct {
		add([]uint32{0, last + 1, 0, 0})
		add([]uint32{0, last + 1, 1, 0})
	}
	for i := 0; i < nKeys; i++ {
		add([]uint32{1, uint32(i), 0, 0})
	}
	for i := 0; i < nScripts; i++ {
		add([]uint32{2, uint32(i), 0, 0})
	}
	qs = append(qs, op{K: "synced"}, op{K: "birthday"}, op{K: "bdayblock"})
	hs := []int{}
	for h := range rn.heights {
		hs = append(hs, int(h))
	}
	sort.Ints(hs)
	if len(hs) > 10 {
		hs = hs[len(hs)-10:]
	}
	for _, h := range hs {
		qs = append(qs, op{K: "blockhash", H: int32(h)})
	}
	return qs, nil
}

func (rn *runner) boundary() ([]qa, [][2]answer, error) {
	fr, path, err := rn.freshCopy()
	if err != nil {
		return nil, nil, fmt.Errorf("fresh open: %w", err)
	}
	defer func() { fr.close(); os.Remove(path) }()
	qs, err := rn.queries(fr)
	if err != nil {
		return nil, nil, err
	}
	// make sure every chained address asked about is in the table
	for _, q := range qs {
		if q.K == "lookup" {
			if _, err := rn.w.addrOf(q.Addr); err != nil {
				return nil, nil, err
			}
		}
	}
	out := make([]qa, 0, len(qs))
	ra := make([]answer, len(qs))
	fa := make([]answer, len(qs))
	err = walletdb.View(rn.r.db, func(tx walletdb.ReadTx) error {
		ns := tx.ReadBucket(nsKey)
		for i, q := range qs {
			ra[i] = apply(rn.w, rn.r, ns, nil, q)
		}
		return nil
	})
	if err != nil {
		return nil, nil, err
	}
	err = walletdb.View(fr.db, func(tx walletdb.ReadTx) error {
		ns := tx.ReadBucket(nsKey)
		for i, q := range qs {
			fa[i] = apply(rn.w, fr, ns, nil, q)
		}
		return nil
	})
	if err != nil {
		return nil, nil, err
	}
	for i, q := range qs {
		e := qa{Q: q, R: ra[i]}
		if ra[i].key() != fa[i].key() {
			f := fa[i]
			e.F = &f
		}
		out = append(out, e)
	}
	return out, nil, nil
}

// divergence kinds: the violated clause, from the pair of answers.
func divKinds(q op, r, f answer) []string {
	var ks []string
	switch q.K {
	case "lookup":
		chained := len(q.Addr) == 4 && q.Addr[0] == 0
		switch {
		case r.K == "addr" && f.K != "addr":
			if chained {
				ks = append(ks, "phantom_address")
			} else {
				ks = append(ks, "phantom_imported_address")
			}
		case r.K != "addr" && f.K == "addr":
			ks = append(ks, "forgotten_address")
		case r.K == "addr" && f.K == "addr":
			if r.Used != f.Used {
				ks = append(ks, "used_flag")
			}
			r.Used, f.Used = false, false
			if r.key() != f.key() {
				ks = append(ks, "address_metadata")
			}
		default:
			ks = append(ks, "lookup_error")
		}
	case "props":
		switch {
		case r.K == "props" && f.K == "props":
			if r.Name != f.Name {
				ks = append(ks, "account_name")
			}
			if r.Ext != f.Ext || r.IntN != f.IntN {
				ks = append(ks, "next_index")
			}
			if r.Imp != f.Imp {
				ks = append(ks, "imported_count")
			}
			if r.WO != f.WO || r.Fp != f.Fp || r.Key != f.Key || fmt.Sprint(r.Sch) != fmt.Sprint(f.Sch) {
				ks = append(ks, "account_kind")
			}
		default:
			ks = append(ks, "account_existence")
		}
	case "last":
		if r.K == "last" && f.K == "last" || r.Err == "ErrAddressNotFound" || f.Err == "ErrAddressNotFound" {
			ks = append(ks, "last_address")
		} else {
			ks = append(ks, "account_existence")
		}
	case "synced":
		ks = append(ks, "synced_to")
	case "birthday":
		ks = append(ks, "birthday")
	default:
		ks = append(ks, "disk_read_"+q.K)
	}
	return ks
}

// siteOf names the op pattern of the transaction after which a divergence of
// the given kind first showed.
func siteOf(kind string, t *txIn) string {
	if t == nil {
		return "before-any-transaction"
	}
	where := "-in-aborted-tx"
	if t.Fate == "commit" {
		where = "-in-committed-tx"
	}
	has := func(k string) bool {
		for _, o := range t.Ops {
			if o.K == k {
				return true
			}
		}
		return false
	}
	// newacct followed by an op that loads the (uncommitted) account row into the cache
	newThenLoad := false
	nextThenExtend := false
	sawNew := false
	sawNext := map[[2]uint32]bool{}
	for _, o := range t.Ops {
		b := uint32(0)
		if o.Int {
			b = 1
		}
		switch o.K {
		case "newacct", "newacctwo":
			sawNew = true
		case "props", "last", "next", "extend", "lookup":
			if sawNew {
				newThenLoad = true
			}
		}
		if o.K == "next" {
			sawNext[[2]uint32{o.Acct, b}] = true
		}
		if o.K == "extend" && sawNext[[2]uint32{o.Acct, b}] {
			nextThenExtend = true
		}
	}
	pick := func(cands ...string) string {
		for _, c := range cands {
			switch c {
			case "NewAccount+cached-read":
				if newThenLoad {
					return c + where
				}
			case "NextAddresses+ExtendAddresses":
				if nextThenExtend {
					return c + where
				}
			case "RenameAccount":
				if has("rename") {
					return c + where
				}
			case "ExtendAddresses":
				if has("extend") {
					return c + where
				}
			case "NextAddresses":
				if has("next") {
					return c + where
				}
			case "SetSyncedTo":
				if has("setsynced") || has("setsyncednil") {
					return c + where
				}
			case "SetBirthday":
				if has("setbirthday") {
					return c + where
				}
			case "Import":
				if has("impkey") || has("impscript") {
					return c + where
				}
			}
		}
		// no known pattern: name the fate class and the write operations
		set := map[string]bool{}
		for _, o := range t.Ops {
			if !isRead(o.K) {
				set[o.K] = true
			}
		}
		ks := []string{}
		for k := range set {
			ks = append(ks, k)
		}
		sort.Strings(ks)
		if len(ks) == 0 {
			ks = []string{"reads-only"}
		}
		return "unexplained:" + strings.TrimPrefix(where, "-in-") + ":" + strings.Join(ks, "+")
	}
	aborted := t.Fate != "commit"
	switch kind {
	case "account_name":
		if aborted {
			return pick("RenameAccount", "NewAccount+cached-read")
		}
	case "next_index", "last_address":
		if aborted {
			return pick("ExtendAddresses", "NewAccount+cached-read")
		}
		return pick("NextAddresses+ExtendAddresses")
	case "phantom_address":
		if aborted {
			return pick("ExtendAddresses", "NextAddresses")
		}
	case "phantom_imported_address":
		if aborted {
			return pick("Import")
		}
	case "account_existence", "account_kind":
		if aborted {
			return pick("NewAccount+cached-read")
		}
	case "synced_to":
		if aborted {
			return pick("SetSyncedTo")
		}
		// SetSyncedTo(nil) copies the in-memory start block, whose time
		// stamp is not what the database holds
		if has("setsyncednil") {
			return "SetSyncedTo(nil)" + where
		}
	case "birthday":
		if aborted {
			return pick("SetBirthday")
		}
	}
	return pick()
}

func runHistory(e *env, in input) (*caseOut, error) {
	w, err := newWorld(in.Scope)
	if err != nil {
		return nil, err
	}
	path := filepath.Join(e.dir, "run.db")
	img := e.base[0]
	if in.Wallet {
		img = e.base[1]
	}
	if err := os.WriteFile(path, img, 0600); err != nil {
		return nil, err
	}
	var r *inst
	if in.Wallet {
		r, err = openWallet(path, w.scope)
	} else {
		r, err = openInst(path, w.scope, true)
	}
	if err != nil {
		return nil, err
	}
	defer func() { r.close(); os.Remove(path) }()
	rn := &runner{e: e, w: w, r: r, heights: map[int32]bool{0: true}, names: 2, seenDiv: map[string]bool{}, subjSite: map[string]string{}, phantomSite: map[string]string{}}
	out := &caseOut{In: in, Oracle: []string{}, Findings: []finding{}, Tags: []string{}}

	// initial state, as the implementation reports it
	bs := r.mgr.SyncedTo()
	out.Obs.Init = initObs{H: bs.Height, T: bs.Timestamp.Unix(), Birthday: r.mgr.Birthday().Unix(), Sch: w.schema()}
	if hashID(bs.Hash) != 0 {
		return nil, fmt.Errorf("initial synced-to is not the genesis block")
	}

	record := func(txi int, t *txIn, qas []qa) {
		for _, e := range qas {
			if e.F == nil {
				continue
			}
			for _, k := range divKinds(e.Q, e.R, *e.F) {
				qk, _ := json.Marshal(e.Q)
				id := k + "|" + string(qk)
				// a divergence is attributed to the first transaction after which
				// this (kind, query) pair differs
				if rn.seenDiv[id] {
					continue
				}
				rn.seenDiv[id] = true
				kind := "mem_disk_divergence:" + k
				site := siteOf(k, t)
				// a later symptom on a subject (account, address, sync state)
				// that already diverged at a named site is a consequence of
				// that divergence, not a new one
				subj := subjectOf(e.Q)
				// a phantom address may be probed for the first time long after
				// the rolled-back transaction that left it in the cache
				if k == "phantom_address" || k == "phantom_imported_address" {
					if s0, ok := rn.phantomSite[fmt.Sprint(e.Q.Addr)]; ok {
						site = s0
					}
				}
				if strings.HasPrefix(site, "unexplained:") {
					if s0, ok := rn.subjSite[subj]; ok {
						site = s0
					}
				} else if _, ok := rn.subjSite[subj]; !ok {
					rn.subjSite[subj] = site
				}
				tag := kind + "@" + site
				dup := false
				for _, o := range out.Oracle {
					if o == tag {
						dup = true
					}
				}
				if !dup {
					out.Oracle = append(out.Oracle, tag)
					out.Findings = append(out.Findings, finding{Kind: kind, Site: site, Tx: txi, Q: e.Q, R: e.R, F: *e.F})
				}
			}
		}
	}

	q0, _, err := rn.boundary()
	if err != nil {
		return nil, err
	}
	out.Obs.Q0 = q0
	record(-1, nil, q0)

	for ti := range in.Txs {
		t := &in.Txs[ti]
		to := txObs{Outs: []answer{}}
		for _, o := range t.Ops {
			if o.K == "setsynced" {
				rn.heights[o.H] = true
				if o.H > waddrmgr.MaxReorgDepth {
					rn.heights[o.H-waddrmgr.MaxReorgDepth] = true
				}
				if o.H > 0 {
					rn.heights[o.H-1] = true
				}
			}
			if (o.K == "newacct" || o.K == "newacctwo" || o.K == "rename" || o.K == "lookupname") && o.Name > rn.names {
				rn.names = o.Name
			}
		}
		if in.Wallet {
			// one issuance per transaction, performed (and committed or rolled
			// back) by the wallet itself
			if len(t.Ops) != 1 || t.Ops[0].K != "next" || t.Ops[0].N != 1 ||
				(t.Fate == "dryrun") != (t.Ops[0].Via == "createtxdry") || (t.Fate != "commit" && t.Fate != "dryrun") {
				return nil, fmt.Errorf("transaction %d: not a wallet-mode transaction", ti)
			}
			before := r.db.Commits
			a := r.walletCall(w, t.Ops[0])
			to.Outs = append(to.Outs, a)
			committed := r.db.Commits > before
			if committed != (t.Fate == "commit") && a.K == "addrs" {
				return nil, fmt.Errorf("transaction %d: fate %q but the wallet committed=%v", ti, t.Fate, committed)
			}
			if t.Fate == "dryrun" {
				to.Err = "dryrun"
			}
			if ti == 0 && a.K == "addrs" {
				ad, err := w.addrOf(a.Addrs[0])
				if err != nil {
					return nil, err
				}
				if err := r.fund(ad); err != nil {
					return nil, err
				}
			}
			if t.Fate == "commit" && a.K == "addrs" {
				rn.issued = append(rn.issued, a.Addrs...)
			}
			if t.Fate != "commit" && a.K == "addrs" {
				for _, ref := range a.Addrs {
					k := fmt.Sprint(ref)
					if _, ok := rn.phantomSite[k]; !ok {
						rn.phantomSite[k] = "NextAddresses-in-aborted-tx"
					}
				}
			}
			qas, _, err := rn.boundary()
			if err != nil {
				return nil, err
			}
			to.Q = qas
			record(ti, t, qas)
			out.Obs.Txs = append(out.Obs.Txs, to)
			continue
		}
		if t.Fate == "failcommit" {
			r.db.FailNextCommit()
		}
		uerr := walletdb.Update(r.db, func(tx walletdb.ReadWriteTx) error {
			ns := tx.ReadWriteBucket(nsKey)
			for _, o := range t.Ops {
				to.Outs = append(to.Outs, apply(w, r, ns, ns, o))
			}
			switch t.Fate {
			case "abort":
				return abortdb.ErrCallerAbort
			case "dryrun":
				return walletdb.ErrDryRunRollBack
			}
			return nil
		})
		switch {
		case uerr == nil:
			to.Err = ""
		case errors.Is(uerr, abortdb.ErrCallerAbort):
			to.Err = "abort"
		case errors.Is(uerr, walletdb.ErrDryRunRollBack):
			to.Err = "dryrun"
		case errors.Is(uerr, abortdb.ErrCommitFailed):
			to.Err = "failcommit"
		default:
			to.Err = "other:" + uerr.Error()
		}
		want := map[string]string{"commit": "", "abort": "abort", "dryrun": "dryrun", "failcommit": "failcommit"}[t.Fate]
		if to.Err != want {
			return nil, fmt.Errorf("transaction %d: fate %q but Update returned %q", ti, t.Fate, to.Err)
		}
		if t.Fate == "commit" {
			for i, o := range t.Ops {
				if o.K == "next" && to.Outs[i].K == "addrs" {
					rn.issued = append(rn.issued, to.Outs[i].Addrs...)
				}
			}
		} else {
			note := func(ref []uint32, site string) {
				k := fmt.Sprint(ref)
				if _, ok := rn.phantomSite[k]; !ok {
					rn.phantomSite[k] = site
				}
			}
			for i, o := range t.Ops {
				switch {
				case o.K == "next" && to.Outs[i].K == "addrs":
					for _, ref := range to.Outs[i].Addrs {
						if readBackCached {
							note(ref, "NextAddresses-in-aborted-tx")
						} else {
							// only an explicit lookup before the rollback caches it
							note(ref, "NextAddresses+Address-in-aborted-tx")
						}
					}
				case o.K == "extend" && to.Outs[i].K == "ok":
					b := uint32(0)
					if o.Int {
						b = 1
					}
					for idx := uint32(0); idx <= o.N && idx < maxIdx; idx++ {
						note([]uint32{0, o.Acct, b, idx}, "ExtendAddresses-in-aborted-tx")
					}
				case (o.K == "impkey" || o.K == "impscript") && to.Outs[i].K == "addrs":
					for _, ref := range to.Outs[i].Addrs {
						note(ref, "Import-in-aborted-tx")
					}
				}
			}
		}
		qas, _, err := rn.boundary()
		if err != nil {
			return nil, err
		}
		to.Q = qas
		record(ti, t, qas)
		out.Obs.Txs = append(out.Obs.Txs, to)
	}
	out.Tags = tagsOf(in, out)
	return out, nil
}

// readBackCached says whether the implementation under test puts the address
// nextAddresses reads back into the cache before commit (finding S4); it is
// measured once at start-up on a scratch database (probeReadBack) and only
// steers tags and site names - the Coq side takes the same fact from
// coq/Generated/AddrCache.v.
var readBackCached = true

func probeReadBack(e *env) (bool, error) {
	w, err := newWorld(84)
	if err != nil {
		return false, err
	}
	path := filepath.Join(e.dir, "probe.db")
	if err := os.WriteFile(path, e.base[0], 0600); err != nil {
		return false, err
	}
	r, err := openInst(path, w.scope, true)
	if err != nil {
		return false, err
	}
	defer func() { r.close(); os.Remove(path) }()
	var issued btcutil.Address
	uerr := walletdb.Update(r.db, func(tx walletdb.ReadWriteTx) error {
		ns := tx.ReadWriteBucket(nsKey)
		mas, err := r.sm.NextInternalAddresses(ns, 0, 1)
		if err != nil {
			return err
		}
		issued = mas[0].Address()
		return walletdb.ErrDryRunRollBack
	})
	if !errors.Is(uerr, walletdb.ErrDryRunRollBack) {
		return false, fmt.Errorf("probe: %v", uerr)
	}
	found := false
	err = walletdb.View(r.db, func(tx walletdb.ReadTx) error {
		_, err := r.sm.Address(tx.ReadBucket(nsKey), issued)
		found = err == nil
		return nil
	})
	return found, err
}

// extendWOPanics says whether ExtendAddresses on an imported account panics
// while the manager is unlocked (finding S3: inverted watch-only test, nil
// private key dereferenced).  The model transcribes the panic; if the source
// stops panicking the generator stops extending imported accounts (the model
// would then have to follow) and says so in a tag.
var extendWOPanics = true

func probeExtendWO(e *env) (bool, error) {
	w, err := newWorld(84)
	if err != nil {
		return false, err
	}
	path := filepath.Join(e.dir, "probe2.db")
	if err := os.WriteFile(path, e.base[0], 0600); err != nil {
		return false, err
	}
	r, err := openInst(path, w.scope, true)
	if err != nil {
		return false, err
	}
	defer func() { r.close(); os.Remove(path) }()
	var a1, a2 answer
	uerr := walletdb.Update(r.db, func(tx walletdb.ReadWriteTx) error {
		ns := tx.ReadWriteBucket(nsKey)
		a1 = apply(w, r, ns, ns, op{K: "newacctwo", Name: 5, Key: 0, Fp: 7})
		a2 = apply(w, r, ns, ns, op{K: "extend", Acct: a1.Acct, N: 2})
		return abortdb.ErrCallerAbort
	})
	if !errors.Is(uerr, abortdb.ErrCallerAbort) || a1.K != "acct" {
		return false, fmt.Errorf("probe extend: %v %v", uerr, a1)
	}
	return a2.K == "err" && a2.Err == "panic", nil
}

// ---------------------------------------------------------------- K (tags only)

// inK mirrors the decidable trigger pattern of coq/Addr/MemDisk.v (in_K): an
// aborted transaction containing an eagerly cached write, or a freshly created
// account read back before the abort; a committed transaction extending a
// branch after issuing from it.  Used for tags only - the Coq side decides.
func txInK(t txIn) bool {
	if t.Fate == "commit" {
		seen := map[[2]uint32]bool{}
		for _, o := range t.Ops {
			b := uint32(0)
			if o.Int {
				b = 1
			}
			if o.K == "next" {
				seen[[2]uint32{o.Acct, b}] = true
			}
			if o.K == "extend" && seen[[2]uint32{o.Acct, b}] {
				return true
			}
			if o.K == "setsyncednil" {
				return true
			}
		}
		return false
	}
	armed, issued := false, false
	for _, o := range t.Ops {
		switch o.K {
		case "rename", "extend", "setsynced", "setsyncednil", "setbirthday", "impkey", "impscript":
			return true
		case "next":
			if readBackCached || armed {
				return true
			}
			issued = true
		case "newacct", "newacctwo":
			armed = true
		case "lookup":
			if armed || issued {
				return true
			}
		case "props", "last":
			if armed {
				return true
			}
		}
	}
	return false
}

func tagsOf(in input, out *caseOut) []string {
	set := map[string]bool{}
	set[fmt.Sprintf("scope_%d", in.Scope)] = true
	set[fmt.Sprintf("read_back_cached_%v", readBackCached)] = true
	if !extendWOPanics {
		set["extend_on_imported_account_no_longer_panics_model_outdated"] = true
	}
	k := false
	onlyIssueAborted := true
	anyAbortedIssue := false
	for _, t := range in.Txs {
		set["fate_"+t.Fate] = true
		set[fmt.Sprintf("ops_per_tx_%d", len(t.Ops))] = true
		for _, o := range t.Ops {
			set["op_"+o.K] = true
			if t.Fate != "commit" {
				set["aborted_"+o.K] = true
				if o.K == "next" {
					anyAbortedIssue = true
				} else if !isRead(o.K) {
					onlyIssueAborted = false
				}
			}
		}
		if txInK(t) {
			k = true
		}
	}
	if k {
		set["in_K"] = true
	} else {
		set["outside_K"] = true
	}
	if anyAbortedIssue && onlyIssueAborted {
		set["dry_run_issuance_only"] = true
	}
	if len(out.Oracle) > 0 {
		set["diverged"] = true
	}
	tags := []string{}
	for t := range set {
		tags = append(tags, t)
	}
	sort.Strings(tags)
	return tags
}

// ---------------------------------------------------------------- generator

// genHistory draws a history.  The generator keeps a rough picture of the
// committed state (accounts, next indices) only to aim its choices; nothing
// depends on that picture being exact.
func genHistory(r *gen.R, tier string) input {
	in := input{Scope: 84}
	if r.Chance(1, 3) {
		in.Scope = 44
	}
	// mode: 0 wild, 1 only issuance (and reads) inside aborted transactions -
	// the dry-run scenario the property names, 2 clean: aborted transactions
	// hold only operations without eager memory updates
	mode := r.Pick(5, 3, 3)
	// half of the histories import xpub accounts (NewAccountWatchingOnly).  In
	// those, a rolled-back transaction never reads an account it has just
	// created: a later account could then reuse the number with another key,
	// and the model identifies a chained address with (account, branch, index)
	wo := r.Chance(1, 2)
	woAccts := map[uint32]bool{}
	// every xpub is imported at most once per history (the same key under two
	// account numbers would give both accounts the same addresses)
	freeKeys := r.Perm(nXpubs)
	ntx := r.Range(3, 8)
	if tier == "thorough" {
		ntx = r.Range(3, 12)
	}
	accts := uint32(1) // committed accounts 0..accts-1
	nextIdx := map[[2]uint32]uint32{}
	nameCtr := 3
	height := int32(0)
	if r.Chance(1, 6) {
		height = waddrmgr.MaxReorgDepth - int32(r.Range(0, 2))
	}
	hashCtr := 1
	var issued [][]uint32
	pickAcct := func() uint32 {
		if r.Chance(1, 12) {
			return accts // does not exist (yet)
		}
		return uint32(r.Intn(int(accts)))
	}
	pickAddr := func() []uint32 {
		switch r.Pick(5, 3, 1, 1) {
		case 0:
			if len(issued) > 0 {
				return issued[r.Intn(len(issued))]
			}
			fallthrough
		case 1:
			a := uint32(r.Intn(int(accts)))
			b := uint32(r.Intn(2))
			return []uint32{0, a, b, nextIdx[[2]uint32{a, b}] + uint32(r.Range(0, 2))}
		case 2:
			return []uint32{1, uint32(r.Intn(nKeys)), 0, 0}
		}
		return []uint32{2, uint32(r.Intn(nScripts)), 0, 0}
	}
	readOp := func() op {
		switch r.Pick(4, 2, 3, 1, 1, 1, 1, 1) {
		case 0:
			return op{K: "lookup", Addr: pickAddr()}
		case 1:
			return op{K: "last", Acct: pickAcct(), Int: r.Chance(1, 2)}
		case 2:
			return op{K: "props", Acct: pickAcct()}
		case 3:
			return op{K: "lookupname", Name: r.Range(2, nameCtr)}
		case 4:
			return op{K: "acctname", Acct: pickAcct()}
		case 5:
			return op{K: "synced"}
		case 6:
			return op{K: "blockhash", H: height}
		}
		return op{K: "bdayblock"}
	}
	for ti := 0; ti < ntx; ti++ {
		t := txIn{Fate: []string{"commit", "abort", "dryrun", "failcommit"}[r.Pick(10, 4, 3, 4)]}
		aborted := t.Fate != "commit"
		nops := r.Pick(0, 5, 3, 2)
		type pend struct {
			a, b, next uint32
		}
		var bump []pend
		newAccts := uint32(0)
		newWO := map[uint32]bool{}
		sawNew := false
		for oi := 0; oi < nops; oi++ {
			var o op
			kind := r.Pick(24, 6, 8, 9, 8, 9, 1, 3, 3, 4, 3, 18)
			if aborted && mode == 1 {
				kind = []int{0, 0, 0, 11}[r.Intn(4)]
			}
			if aborted && mode == 2 {
				kind = []int{2, 4, 8, 11, 11}[r.Intn(5)]
			}
			if wo && aborted && sawNew {
				kind = []int{4, 8, 12, 12}[r.Intn(4)]
			}
			switch kind {
			case 0:
				a := pickAcct()
				b := r.Chance(2, 5)
				o = op{K: "next", Acct: a, Int: b, N: uint32(r.Pick(0, 6, 3, 1))}
				bi := uint32(0)
				if b {
					bi = 1
				}
				if a < accts {
					k := [2]uint32{a, bi}
					if t.Fate == "commit" {
						for i := uint32(0); i < o.N; i++ {
							issued = append(issued, []uint32{0, a, bi, nextIdx[k] + i})
						}
					}
					bump = append(bump, pend{a, bi, nextIdx[k] + o.N})
				}
			case 1:
				a := pickAcct()
				b := r.Chance(2, 5)
				bi := uint32(0)
				if b {
					bi = 1
				}
				k := [2]uint32{a, bi}
				last := nextIdx[k] + uint32(r.Range(0, 5))
				if r.Chance(1, 6) && nextIdx[k] > 0 {
					last = nextIdx[k] - 1 // nothing to do
				}
				if (woAccts[a] || newWO[a]) && !extendWOPanics {
					a = 0 // the model transcribes the panic of the pinned code only
					k = [2]uint32{a, bi}
					last = nextIdx[k] + uint32(r.Range(0, 5))
				}
				o = op{K: "extend", Acct: a, Int: b, N: last}
				if a < accts && last >= nextIdx[k] && !woAccts[a] {
					bump = append(bump, pend{a, bi, last + 1})
				}
			case 2:
				nm := nameCtr
				nameCtr++
				switch r.Pick(12, 1, 1, 1) {
				case 1:
					nm = 0
				case 2:
					nm = 1
				case 3:
					nm = r.Range(2, nameCtr-1)
				}
				o = op{K: "newacct", Name: nm}
				sawNew = true
				if wo && len(freeKeys) > 0 && r.Chance(1, 2) {
					key := freeKeys[0]
					freeKeys = freeKeys[1:]
					o = op{K: "newacctwo", Name: nm, Key: key,
						Fp: []uint32{0, 0x11223344, 7}[r.Intn(3)]}
					switch r.Pick(3, 2, 1, 1, 1) {
					case 1:
						o.Sch = []uint32{3, 4} // BIP0049Plus
					case 2:
						o.Sch = []uint32{0, 0}
					case 3:
						o.Sch = []uint32{4, 4}
					case 4:
						o.Sch = []uint32{3, 3}
					}
				}
				if nm >= 3 && accts+newAccts < maxAcct-2 {
					if o.K == "newacctwo" {
						newWO[accts+newAccts] = true
					}
					newAccts++
				}
			case 3:
				nm := nameCtr
				nameCtr++
				switch r.Pick(12, 1, 1, 2) {
				case 1:
					nm = 0
				case 2:
					nm = 1
				case 3:
					nm = r.Range(2, nameCtr-1)
				}
				a := pickAcct()
				if r.Chance(1, 25) {
					a = importedAcct
				}
				o = op{K: "rename", Acct: a, Name: nm}
			case 4:
				o = op{K: "markused", Addr: pickAddr()}
			case 5:
				switch r.Pick(6, 2, 1) {
				case 0:
					height++
				case 1:
					if height > 0 {
						height -= int32(r.Range(0, 2))
					}
				case 2:
					height += int32(r.Range(2, 3)) // a gap
				}
				o = op{K: "setsynced", H: height, Hash: hashCtr, T: 1600000000 + int64(hashCtr)*600}
				hashCtr++
			case 6:
				o = op{K: "setsyncednil"}
			case 7:
				o = op{K: "setbirthday", T: 1500000000 + int64(r.Range(0, 1000))*3600}
			case 8:
				o = op{K: "setbdayblock", H: int32(r.Range(0, int(height)+1)), Hash: hashCtr, T: 1600000000 + int64(hashCtr)*600, Ver: r.Chance(1, 2)}
				hashCtr++
			case 9:
				o = op{K: "impkey", Key: r.Intn(nKeys), Priv: r.Chance(1, 2), H: int32(r.Range(0, 5)), Hash: hashCtr, T: 1600000000}
				if !o.Priv && r.Chance(1, 3) {
					o.Hash = -1 // nil block stamp
					o.H = 0
				} else {
					hashCtr++
				}
				if r.Chance(1, 8) {
					o.H = -1 // below the start block: the start block moves
				}
			case 10:
				o = op{K: "impscript", Key: r.Intn(nScripts), H: int32(r.Range(0, 5)), Hash: hashCtr, T: 1600000000}
				hashCtr++
				if r.Chance(1, 8) {
					o.H = -1
				}
			case 12:
				// a read that loads nothing into the caches
				switch r.Pick(1, 1, 1, 1, 1) {
				case 0:
					o = op{K: "lookupname", Name: r.Range(2, nameCtr)}
				case 1:
					o = op{K: "acctname", Acct: pickAcct()}
				case 2:
					o = op{K: "synced"}
				case 3:
					o = op{K: "blockhash", H: height}
				default:
					o = op{K: "bdayblock"}
				}
			default:
				o = readOp()
			}
			t.Ops = append(t.Ops, o)
		}
		if t.Fate == "commit" {
			for _, p := range bump {
				nextIdx[[2]uint32{p.a, p.b}] = p.next
			}
			for n := range newWO {
				woAccts[n] = true
			}
			accts += newAccts
		}
		in.Txs = append(in.Txs, t)
	}
	return in
}

// genWalletHistory draws a wallet-mode history: NewAddress first (the funded
// address), then issuance through NewAddress / NewChangeAddress /
// CreateSimpleTx, with CreateSimpleTx(dryRun=true) in between.
func genWalletHistory(r *gen.R) input {
	in := input{Scope: 84, Wallet: true}
	in.Txs = append(in.Txs, txIn{Fate: "commit", Ops: []op{{K: "next", Acct: 0, N: 1, Via: "newaddress"}}})
	n := r.Range(3, 7)
	for i := 0; i < n; i++ {
		switch r.Pick(4, 2, 2, 1) {
		case 0:
			in.Txs = append(in.Txs, txIn{Fate: "dryrun", Ops: []op{{K: "next", Acct: 0, Int: true, N: 1, Via: "createtxdry"}}})
		case 1:
			in.Txs = append(in.Txs, txIn{Fate: "commit", Ops: []op{{K: "next", Acct: 0, Int: true, N: 1, Via: "createtx"}}})
		case 2:
			in.Txs = append(in.Txs, txIn{Fate: "commit", Ops: []op{{K: "next", Acct: 0, Int: true, N: 1, Via: "newchange"}}})
		default:
			in.Txs = append(in.Txs, txIn{Fate: "commit", Ops: []op{{K: "next", Acct: 0, N: 1, Via: "newaddress"}}})
		}
	}
	return in
}

// systematic returns the fixed histories run before the random ones: every
// eager update inside every kind of aborted transaction, the dry-run
// issuance scenario, and the same-transaction patterns.
func systematic() []input {
	var out []input
	ab := []string{"abort", "dryrun", "failcommit"}
	writes := []op{
		{K: "next", Acct: 0, N: 2},
		{K: "next", Acct: 0, Int: true, N: 1},
		{K: "extend", Acct: 0, N: 4},
		{K: "rename", Acct: 0, Name: 7},
		{K: "newacct", Name: 8},
		{K: "markused", Addr: []uint32{0, 0, 0, 0}},
		{K: "setsynced", H: 1, Hash: 5, T: 1600000600},
		{K: "setsyncednil"},
		{K: "setbirthday", T: 1500003600},
		{K: "setbdayblock", H: 0, Hash: 6, T: 1600000700, Ver: true},
		{K: "impkey", Key: 0, Hash: -1},
		{K: "impkey", Key: 1, Priv: true, H: -1, Hash: 9, T: 1600000000},
		{K: "impscript", Key: 0, H: 2, Hash: 7, T: 1600000000},
	}
	warm := txIn{Fate: "commit", Ops: []op{{K: "next", Acct: 0, N: 1}, {K: "next", Acct: 0, Int: true, N: 1}}}
	for _, f := range ab {
		for _, wop := range writes {
			for _, warmed := range []bool{false, true} {
				h := input{Scope: 84}
				if warmed {
					h.Txs = append(h.Txs, warm)
				}
				h.Txs = append(h.Txs, txIn{Fate: f, Ops: []op{wop}})
				// the next committed request
				h.Txs = append(h.Txs, txIn{Fate: "commit", Ops: []op{{K: "next", Acct: 0, N: 1}, {K: "next", Acct: 0, Int: true, N: 1}}})
				out = append(out, h)
			}
		}
	}
	// imported xpub accounts (NewAccountWatchingOnly): created, cached, used,
	// renamed, extended; with and without schema override / fingerprint
	for _, imp := range []op{
		{K: "newacctwo", Name: 5, Key: 0, Fp: 0x11223344, Sch: []uint32{3, 4}},
		{K: "newacctwo", Name: 5, Key: 1, Fp: 0},
		{K: "newacctwo", Name: 5, Key: 2, Fp: 7, Sch: []uint32{0, 0}},
	} {
		for _, scope := range []uint32{84, 44} {
			use := txIn{Fate: "commit", Ops: []op{{K: "props", Acct: 1}, {K: "next", Acct: 1, N: 2}, {K: "next", Acct: 1, Int: true, N: 1}}}
			out = append(out,
				// the imported account is cached, then renamed in a COMMITTED transaction
				input{Scope: scope, Txs: []txIn{{Fate: "commit", Ops: []op{imp}}, use,
					{Fate: "commit", Ops: []op{{K: "rename", Acct: 1, Name: 6}}},
					{Fate: "commit", Ops: []op{{K: "next", Acct: 1, N: 1}, {K: "markused", Addr: []uint32{0, 1, 0, 0}}}}}},
				// renamed without having been cached; renamed in rolled-back transactions
				input{Scope: scope, Txs: []txIn{{Fate: "commit", Ops: []op{imp, {K: "rename", Acct: 1, Name: 6}}},
					{Fate: "failcommit", Ops: []op{{K: "rename", Acct: 1, Name: 7}}},
					{Fate: "commit", Ops: []op{{K: "rename", Acct: 1, Name: 8}, {K: "lookupname", Name: 6}}}}},
				// issuance from it in rolled-back transactions; a default account after it
				input{Scope: scope, Txs: []txIn{{Fate: "commit", Ops: []op{imp}},
					{Fate: "dryrun", Ops: []op{{K: "next", Acct: 1, Int: true, N: 2}}},
					{Fate: "commit", Ops: []op{{K: "newacct", Name: 9}, {K: "next", Acct: 1, Int: true, N: 1}, {K: "next", Acct: 2, N: 1}}},
					{Fate: "abort", Ops: []op{{K: "markused", Addr: []uint32{0, 1, 1, 0}}, {K: "lookup", Addr: []uint32{0, 1, 1, 0}}}}}},
				// its creation rolled back (not read back), the number reused by a default account
				input{Scope: scope, Txs: []txIn{{Fate: "abort", Ops: []op{imp}},
					{Fate: "commit", Ops: []op{{K: "newacct", Name: 9}, {K: "next", Acct: 1, N: 1}}},
					{Fate: "commit", Ops: []op{imp, {K: "next", Acct: 2, N: 1}}}}},
			)
			if extendWOPanics {
				out = append(out, input{Scope: scope, Txs: []txIn{{Fate: "commit", Ops: []op{imp}}, use,
					{Fate: "commit", Ops: []op{{K: "extend", Acct: 1, N: 5}, {K: "extend", Acct: 1, N: 0}}},
					{Fate: "commit", Ops: []op{{K: "next", Acct: 1, N: 1}}}}})
			}
		}
	}
	// same-transaction patterns
	out = append(out,
		input{Scope: 84, Txs: []txIn{{Fate: "commit", Ops: []op{{K: "next", Acct: 0, N: 1}, {K: "extend", Acct: 0, N: 4}}},
			{Fate: "commit", Ops: []op{{K: "next", Acct: 0, N: 1}}}}},
		input{Scope: 84, Txs: []txIn{{Fate: "commit", Ops: []op{{K: "extend", Acct: 0, N: 4}, {K: "next", Acct: 0, N: 1}}},
			{Fate: "commit", Ops: []op{{K: "next", Acct: 0, N: 1}}}}},
		input{Scope: 84, Txs: []txIn{{Fate: "commit", Ops: []op{{K: "next", Acct: 0, N: 2}, {K: "next", Acct: 0, N: 1}}},
			{Fate: "commit", Ops: []op{{K: "next", Acct: 0, N: 1}}}}},
		input{Scope: 44, Txs: []txIn{{Fate: "abort", Ops: []op{{K: "newacct", Name: 5}, {K: "props", Acct: 1}}},
			{Fate: "commit", Ops: []op{{K: "newacct", Name: 6}}}}},
		input{Scope: 44, Txs: []txIn{{Fate: "abort", Ops: []op{{K: "newacct", Name: 5}, {K: "next", Acct: 1, N: 1}}},
			{Fate: "commit", Ops: []op{{K: "newacct", Name: 6}, {K: "next", Acct: 1, N: 1}}}}},
		input{Scope: 44, Txs: []txIn{{Fate: "abort", Ops: []op{{K: "impkey", Key: 0, Hash: -1}}},
			{Fate: "commit", Ops: []op{{K: "impkey", Key: 0, Hash: -1}}}}},
		input{Scope: 84, Txs: []txIn{{Fate: "dryrun", Ops: []op{{K: "next", Acct: 0, Int: true, N: 1}, {K: "lookup", Addr: []uint32{0, 0, 1, 0}}}},
			{Fate: "commit", Ops: []op{{K: "next", Acct: 0, Int: true, N: 1}}}}},
		input{Scope: 84, Txs: []txIn{{Fate: "commit", Ops: []op{{K: "next", Acct: 0, N: 1}}},
			{Fate: "commit", Ops: []op{{K: "markused", Addr: []uint32{0, 0, 0, 0}}, {K: "lookup", Addr: []uint32{0, 0, 0, 0}}}},
			{Fate: "abort", Ops: []op{{K: "markused", Addr: []uint32{0, 0, 0, 1}}, {K: "lookup", Addr: []uint32{0, 0, 0, 0}}}}}},
	)
	return out
}

func main() {
	core.Main("c08", nil, func(c *core.Common, out *core.Emitter) error {
		// wallet.Create/Open use the default scrypt parameters (N=2^18);
		// the harness replaces the key generator by a fast one
		waddrmgr.SetSecretKeyGen(func(pass *[]byte, _ *waddrmgr.ScryptOptions) (*snacl.SecretKey, error) {
			return snacl.NewSecretKey(pass, 16, 8, 1)
		})
		e, err := newEnv()
		if err != nil {
			return err
		}
		defer os.RemoveAll(e.dir)
		readBackCached, err = probeReadBack(e)
		if err != nil {
			return err
		}
		extendWOPanics, err = probeExtendWO(e)
		if err != nil {
			return err
		}
		runOne := func(in input, extra ...string) error {
			co, err := runHistory(e, in)
			if err != nil {
				return err
			}
			co.Tags = append(co.Tags, extra...)
			out.Emit(co)
			return nil
		}
		if c.Replay != "" {
			return core.ReadReplay(c.Replay, func(raw json.RawMessage) error {
				var cs struct {
					In input `json:"in"`
				}
				if err := json.Unmarshal(raw, &cs); err != nil {
					return err
				}
				return runOne(cs.In, "replay")
			})
		}
		for _, h := range systematic() {
			if err := runOne(h, "systematic"); err != nil {
				return err
			}
		}
		// the full-wallet path: wallet.CreateSimpleTx(dryRun) and friends
		rw := gen.New(c.Seed, 88)
		nw := 12
		if c.Tier == "thorough" {
			nw = 150
		}
		for i := 0; i < nw; i++ {
			if err := runOne(genWalletHistory(rw), "wallet_api"); err != nil {
				return err
			}
		}
		r := gen.New(c.Seed, 8)
		for i := 0; i < c.N; i++ {
			if err := runOne(genHistory(r, c.Tier), "random"); err != nil {
				return err
			}
		}
		return nil
	})
}
