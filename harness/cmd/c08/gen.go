package main

import (
	"encoding/json"
	"errors"
	"fmt"
	"os"
	"path/filepath"
	"runtime"
	"sync"
	"sync/atomic"

	"github.com/btcsuite/btcd/btcutil"
	"github.com/btcsuite/btcwallet/snacl"
	"github.com/btcsuite/btcwallet/waddrmgr"
	"github.com/btcsuite/btcwallet/walletdb"

	"verifharness/internal/abortdb"
	"verifharness/internal/core"
	"verifharness/internal/gen"
)

// ---------------------------------------------------------------- probes
//
// Three facts about WHEN the code under test updates memory are measured once
// at start-up on scratch databases.  They steer only the harness' own labels
// (tags, site names of the oracle); the Coq side takes the same facts from
// coq/Generated/AddrCache.v (lib/extract_c08.py), and lib/c08.py FAILS the
// check if the two disagree: a harness that describes other code than the
// model does is a broken tie, not a tag.

// readBackCached: nextAddresses puts the address it reads back into the cache
// before commit (finding S4).
var readBackCached = true

// extendEager: extendAddresses advances the index in memory before commit (S10).
var extendEager = true

// renameEager: RenameAccount updates the cached name before commit (S11).
var renameEager = true

func probeInst(e *env, name string) (*inst, worlds2, func(), error) {
	w, err := newWorld(e, 84)
	if err != nil {
		return nil, worlds2{}, nil, err
	}
	ws := worlds2{w, nil}
	path := filepath.Join(e.dir, name)
	if err := os.WriteFile(path, e.base[0], 0600); err != nil {
		return nil, ws, nil, err
	}
	r, err := openInst(path, ws, true)
	if err != nil {
		return nil, ws, nil, err
	}
	return r, ws, func() { r.close(); os.Remove(path) }, nil
}

func probeReadBack(e *env) (bool, error) {
	r, _, done, err := probeInst(e, "probe.db")
	if err != nil {
		return false, err
	}
	defer done()
	var issued btcutil.Address
	uerr := walletdb.Update(r.db, func(tx walletdb.ReadWriteTx) error {
		ns := tx.ReadWriteBucket(nsKey)
		mas, err := r.sm.NextInternalAddresses(ns, 0, 1)
		if err != nil {
			return err
		}
		issued = mas[0].Address()
		return walletdb.ErrDryRunRollBack
	})
	if !errors.Is(uerr, walletdb.ErrDryRunRollBack) {
		return false, fmt.Errorf("probe: %v", uerr)
	}
	found := false
	err = walletdb.View(r.db, func(tx walletdb.ReadTx) error {
		_, err := r.sm.Address(tx.ReadBucket(nsKey), issued)
		found = err == nil
		return nil
	})
	return found, err
}

func probeExtendEager(e *env) (bool, error) {
	r, _, done, err := probeInst(e, "probe2.db")
	if err != nil {
		return false, err
	}
	defer done()
	uerr := walletdb.Update(r.db, func(tx walletdb.ReadWriteTx) error {
		if err := r.sm.ExtendExternalAddresses(tx.ReadWriteBucket(nsKey), 0, 2); err != nil {
			return err
		}
		return abortdb.ErrCallerAbort
	})
	if !errors.Is(uerr, abortdb.ErrCallerAbort) {
		return false, fmt.Errorf("probe extend: %v", uerr)
	}
	var n uint32
	err = walletdb.View(r.db, func(tx walletdb.ReadTx) error {
		p, err := r.sm.AccountProperties(tx.ReadBucket(nsKey), 0)
		if err != nil {
			return err
		}
		n = p.ExternalKeyCount
		return nil
	})
	if err != nil {
		return false, err
	}
	switch n {
	case 3:
		return true, nil
	case 0:
		return false, nil
	}
	return false, fmt.Errorf("probe extend: key count %d after a rolled-back extension to index 2", n)
}

func probeRenameEager(e *env) (bool, error) {
	r, _, done, err := probeInst(e, "probe3.db")
	if err != nil {
		return false, err
	}
	defer done()
	name := func() (s string, err error) {
		err = walletdb.View(r.db, func(tx walletdb.ReadTx) error {
			p, err := r.sm.AccountProperties(tx.ReadBucket(nsKey), 0)
			if err != nil {
				return err
			}
			s = p.AccountName
			return nil
		})
		return
	}
	if _, err := name(); err != nil { // caches the account
		return false, err
	}
	uerr := walletdb.Update(r.db, func(tx walletdb.ReadWriteTx) error {
		if err := r.sm.RenameAccount(tx.ReadWriteBucket(nsKey), 0, "probe"); err != nil {
			return err
		}
		return abortdb.ErrCallerAbort
	})
	if !errors.Is(uerr, abortdb.ErrCallerAbort) {
		return false, fmt.Errorf("probe rename: %v", uerr)
	}
	s, err := name()
	if err != nil {
		return false, err
	}
	switch s {
	case "probe":
		return true, nil
	case "default":
		return false, nil
	}
	return false, fmt.Errorf("probe rename: cached name %q after a rolled-back rename", s)
}

// ---------------------------------------------------------------- generator

// gscope is the generator's rough picture of the committed state of one scope
// (accounts, next indices); it only aims the choices, nothing depends on it
// being exact.
type gscope struct {
	accts    uint32 // committed accounts 0..accts-1
	nextIdx  map[[2]uint32]uint32
	issued   [][]uint32
	woAccts  map[uint32]bool
	freeKeys []int
}

// genHistory draws a history.
func genHistory(r *gen.R, tier string) input {
	in := input{Scope: 84}
	if r.Chance(1, 3) {
		in.Scope = 44
	}
	// one history in six addresses two key scopes of the manager
	two := r.Chance(1, 6)
	if two {
		in.Scope2 = 128 - in.Scope // 44 <-> 84
	}
	// mode: 0 wild, 1 only issuance (and reads) inside aborted transactions -
	// the dry-run scenario the property names, 2 clean: aborted transactions
	// hold only operations without eager memory updates
	mode := r.Pick(5, 3, 3)
	// half of the histories import xpub accounts (NewAccountWatchingOnly).  In
	// those, a rolled-back transaction never reads an account it has just
	// created: a later account could then reuse the number with another key,
	// and the model identifies a chained address with (account, branch, index)
	wo := r.Chance(1, 2)
	// a third of the histories lock and unlock the manager between (and inside)
	// transactions
	locking := r.Chance(1, 3)
	lockedNow := false
	// a fifth convert the manager to watching-only somewhere (afterwards it
	// refuses NewAccount, Lock, Unlock and issues from public keys)
	converting := r.Chance(1, 5)
	gs := [2]*gscope{}
	for i := range gs {
		// every xpub is imported at most once per history and scope (the same key
		// under two account numbers would give both accounts the same addresses)
		gs[i] = &gscope{accts: 1, nextIdx: map[[2]uint32]uint32{}, woAccts: map[uint32]bool{}, freeKeys: r.Perm(nXpubs)}
	}
	ntx := r.Range(3, 8)
	if tier == "thorough" {
		ntx = r.Range(3, 12)
	}
	nameCtr := 3
	height := int32(0)
	if r.Chance(1, 6) {
		height = waddrmgr.MaxReorgDepth - int32(r.Range(0, 2))
	}
	hashCtr := 1
	sc := 0
	g := gs[0]
	pickAcct := func() uint32 {
		if r.Chance(1, 12) {
			return g.accts // does not exist (yet)
		}
		return uint32(r.Intn(int(g.accts)))
	}
	pickAddr := func() []uint32 {
		switch r.Pick(5, 3, 1, 1) {
		case 0:
			if len(g.issued) > 0 {
				return g.issued[r.Intn(len(g.issued))]
			}
			fallthrough
		case 1:
			a := uint32(r.Intn(int(g.accts)))
			b := uint32(r.Intn(2))
			return []uint32{0, a, b, g.nextIdx[[2]uint32{a, b}] + uint32(r.Range(0, 2))}
		case 2:
			return []uint32{1, uint32(r.Intn(nKeys)), 0, 0}
		}
		return []uint32{2, uint32(r.Intn(nScripts)), 0, 0}
	}
	readOp := func() op {
		switch r.Pick(4, 2, 3, 1, 1, 1, 1, 1) {
		case 0:
			return op{K: "lookup", Addr: pickAddr()}
		case 1:
			return op{K: "last", Acct: pickAcct(), Int: r.Chance(1, 2)}
		case 2:
			return op{K: "props", Acct: pickAcct()}
		case 3:
			return op{K: "lookupname", Name: r.Range(2, nameCtr)}
		case 4:
			return op{K: "acctname", Acct: pickAcct()}
		case 5:
			return op{K: "synced"}
		case 6:
			return op{K: "blockhash", H: height}
		}
		return op{K: "bdayblock"}
	}
	for ti := 0; ti < ntx; ti++ {
		t := txIn{Fate: []string{"commit", "abort", "dryrun", "failcommit"}[r.Pick(10, 4, 3, 4)]}
		aborted := t.Fate != "commit"
		nops := r.Pick(0, 5, 3, 2)
		type pend struct {
			sc         int
			a, b, next uint32
		}
		var bump []pend
		newAccts := [2]uint32{}
		newWO := [2]map[uint32]bool{{}, {}}
		sawNew := false
		// accounts a closure is pending for in this transaction (an eviction of
		// such an account before the commit is not generated: see the model header)
		pendAcct := map[[2]uint32]bool{}
		for oi := 0; oi < nops; oi++ {
			sc = 0
			if two {
				sc = r.Intn(2)
			}
			g = gs[sc]
			var o op
			kind := r.Pick(24, 6, 8, 9, 8, 9, 1, 3, 3, 4, 3, 18, 0, 0, 0, 3, 1)
			if converting && r.Chance(1, 12) {
				kind = 16
			}
			if locking {
				switch {
				case lockedNow && r.Chance(1, 5):
					kind = 14
				case !lockedNow && r.Chance(1, 6):
					kind = 13
				case r.Chance(1, 40):
					kind = 13 + r.Intn(2) // lock while locked / unlock while unlocked
				}
			}
			if aborted && mode == 1 {
				kind = []int{0, 0, 0, 11}[r.Intn(4)]
			}
			if aborted && mode == 2 {
				kind = []int{2, 4, 8, 11, 11, 13, 14}[r.Intn(7)]
				if !locking && kind >= 13 {
					kind = 11
				}
			}
			if wo && aborted && sawNew {
				kind = []int{4, 8, 12, 12}[r.Intn(4)]
			}
			switch kind {
			case 0:
				a := pickAcct()
				b := r.Chance(2, 5)
				o = op{K: "next", Acct: a, Int: b, N: uint32(r.Pick(0, 6, 3, 1))}
				bi := branchOf(o)
				if a < g.accts {
					k := [2]uint32{a, bi}
					if t.Fate == "commit" {
						for i := uint32(0); i < o.N; i++ {
							g.issued = append(g.issued, []uint32{0, a, bi, g.nextIdx[k] + i})
						}
					}
					bump = append(bump, pend{sc, a, bi, g.nextIdx[k] + o.N})
				}
				pendAcct[[2]uint32{uint32(sc), a}] = true
			case 1:
				a := pickAcct()
				b := r.Chance(2, 5)
				bi := uint32(0)
				if b {
					bi = 1
				}
				k := [2]uint32{a, bi}
				last := g.nextIdx[k] + uint32(r.Range(0, 5))
				if r.Chance(1, 6) && g.nextIdx[k] > 0 {
					last = g.nextIdx[k] - 1 // nothing to do
				}
				o = op{K: "extend", Acct: a, Int: b, N: last}
				if a < g.accts && last >= g.nextIdx[k] {
					bump = append(bump, pend{sc, a, bi, last + 1})
				}
				if !extendEager {
					pendAcct[[2]uint32{uint32(sc), a}] = true
				}
			case 2:
				nm := nameCtr
				nameCtr++
				switch r.Pick(12, 1, 1, 1) {
				case 1:
					nm = 0
				case 2:
					nm = 1
				case 3:
					nm = r.Range(2, nameCtr-1)
				}
				o = op{K: "newacct", Name: nm}
				sawNew = true
				if wo && len(g.freeKeys) > 0 && r.Chance(1, 2) {
					key := g.freeKeys[0]
					g.freeKeys = g.freeKeys[1:]
					o = op{K: "newacctwo", Name: nm, Key: key,
						Fp: []uint32{0, 0x11223344, 7}[r.Intn(3)]}
					switch r.Pick(3, 2, 1, 1, 1) {
					case 1:
						o.Sch = []uint32{3, 4} // BIP0049Plus
					case 2:
						o.Sch = []uint32{0, 0}
					case 3:
						o.Sch = []uint32{4, 4}
					case 4:
						o.Sch = []uint32{3, 3}
					}
				}
				if nm >= 3 && g.accts+newAccts[sc] < maxAcct-2 && (o.K == "newacctwo" || !lockedNow) {
					if o.K == "newacctwo" {
						newWO[sc][g.accts+newAccts[sc]] = true
					}
					newAccts[sc]++
				}
			case 3:
				nm := nameCtr
				nameCtr++
				switch r.Pick(12, 1, 1, 2) {
				case 1:
					nm = 0
				case 2:
					nm = 1
				case 3:
					nm = r.Range(2, nameCtr-1)
				}
				a := pickAcct()
				if r.Chance(1, 25) {
					a = importedAcct
				}
				o = op{K: "rename", Acct: a, Name: nm}
			case 4:
				o = op{K: "markused", Addr: pickAddr()}
			case 5:
				switch r.Pick(6, 2, 1) {
				case 0:
					height++
				case 1:
					if height > 0 {
						height -= int32(r.Range(0, 2))
					}
				case 2:
					height += int32(r.Range(2, 3)) // a gap
				}
				o = op{K: "setsynced", H: height, Hash: hashCtr, T: 1600000000 + int64(hashCtr)*600}
				hashCtr++
			case 6:
				o = op{K: "setsyncednil"}
			case 7:
				o = op{K: "setbirthday", T: 1500000000 + int64(r.Range(0, 1000))*3600}
			case 8:
				o = op{K: "setbdayblock", H: int32(r.Range(0, int(height)+1)), Hash: hashCtr, T: 1600000000 + int64(hashCtr)*600, Ver: r.Chance(1, 2)}
				hashCtr++
			case 9:
				o = op{K: "impkey", Key: r.Intn(nKeys), Priv: r.Chance(1, 2), H: int32(r.Range(0, 5)), Hash: hashCtr, T: 1600000000}
				if !o.Priv && r.Chance(1, 3) {
					o.Hash = -1 // nil block stamp
					o.H = 0
				} else {
					hashCtr++
				}
				// below the start block: the start block (root manager, shared by
				// the scopes) moves
				if !two && r.Chance(1, 8) {
					o.H = -1
				}
			case 10:
				o = op{K: "impscript", Key: r.Intn(nScripts), H: int32(r.Range(0, 5)), Hash: hashCtr, T: 1600000000}
				hashCtr++
				if !two && r.Chance(1, 8) {
					o.H = -1
				}
			case 12:
				// a read that loads nothing into the caches
				switch r.Pick(1, 1, 1, 1, 1) {
				case 0:
					o = op{K: "lookupname", Name: r.Range(2, nameCtr)}
				case 1:
					o = op{K: "acctname", Acct: pickAcct()}
				case 2:
					o = op{K: "synced"}
				case 3:
					o = op{K: "blockhash", H: height}
				default:
					o = op{K: "bdayblock"}
				}
			case 13:
				o = op{K: "lock"}
				lockedNow = true
			case 14:
				o = op{K: "unlock"}
				lockedNow = false
			case 16:
				o = op{K: "convert"}
			case 15:
				a := pickAcct()
				if pendAcct[[2]uint32{uint32(sc), a}] && !aborted {
					o = op{K: "props", Acct: a}
				} else {
					o = op{K: "invalidate", Acct: a}
				}
			default:
				o = readOp()
			}
			o.Sc = sc
			t.Ops = append(t.Ops, o)
		}
		if t.Fate == "commit" {
			for _, p := range bump {
				gs[p.sc].nextIdx[[2]uint32{p.a, p.b}] = p.next
			}
			for s := 0; s < 2; s++ {
				for n := range newWO[s] {
					gs[s].woAccts[n] = true
				}
				gs[s].accts += newAccts[s]
			}
		}
		in.Txs = append(in.Txs, t)
	}
	return in
}

// genWalletHistory draws a wallet-mode history: NewAddress first (the funded
// address), then issuance through NewAddress / NewChangeAddress /
// CreateSimpleTx with CreateSimpleTx(dryRun=true) in between, and account
// imports through ImportAccount / ImportAccountDryRun (the wallet's own
// always-rolled-back transaction) followed by issuance from the imported
// accounts.
func genWalletHistory(r *gen.R) input {
	in := input{Scope: 84, Wallet: true}
	in.Txs = append(in.Txs, txIn{Fate: "commit", Ops: []op{{K: "next", Acct: 0, N: 1, Via: "newaddress"}}})
	n := r.Range(3, 7)
	accts := uint32(1) // committed accounts; 1.. are imported ones
	nameCtr := 3
	keys := r.Perm(nXpubs)
	acct := func() uint32 {
		if accts > 1 && r.Chance(1, 2) {
			return uint32(r.Range(1, int(accts)-1))
		}
		return 0
	}
	converted := false
	for i := 0; i < n; i++ {
		pick := r.Pick(4, 2, 2, 2, 3, 2, 1)
		if converted && (pick <= 1 || pick == 6) {
			pick = 2 + r.Intn(2) // a converted wallet cannot sign: no sends
		}
		switch pick {
		case 6:
			in.Txs = append(in.Txs, txIn{Fate: "commit", Ops: []op{{K: "convert", Via: "initwatch"}}})
			converted = true
		case 0:
			in.Txs = append(in.Txs, txIn{Fate: "dryrun", Ops: []op{{K: "next", Acct: 0, Int: true, N: 1, Via: "createtxdry"}}})
		case 1:
			in.Txs = append(in.Txs, txIn{Fate: "commit", Ops: []op{{K: "next", Acct: 0, Int: true, N: 1, Via: "createtx"}}})
		case 2:
			in.Txs = append(in.Txs, txIn{Fate: "commit", Ops: []op{{K: "next", Acct: acct(), Int: true, N: 1, Via: "newchange"}}})
		case 3:
			in.Txs = append(in.Txs, txIn{Fate: "commit", Ops: []op{{K: "next", Acct: acct(), N: 1, Via: "newaddress"}}})
		case 4:
			if len(keys) == 0 {
				continue
			}
			// the dry run leaves the key free: the real import may follow
			nm := nameCtr
			nameCtr++
			na := uint32(r.Range(1, 3))
			in.Txs = append(in.Txs, txIn{Fate: "dryrun", Ops: []op{
				{K: "newacctwo", Name: nm, Key: keys[0], Fp: []uint32{0, 0x11223344, 7}[r.Intn(3)], Via: "importdry"},
				{K: "props", Acct: accts}, {K: "next", Acct: accts, N: na}, {K: "next", Acct: accts, Int: true, N: na},
				{K: "props", Acct: accts}, {K: "invalidate", Acct: accts}}})
		default:
			if len(keys) == 0 || accts >= maxAcct-2 {
				continue
			}
			nm := nameCtr
			nameCtr++
			in.Txs = append(in.Txs, txIn{Fate: "commit", Ops: []op{
				{K: "newacctwo", Name: nm, Key: keys[0], Fp: []uint32{0, 0x11223344, 7}[r.Intn(3)], Via: "importacct"},
				{K: "props", Acct: accts}}})
			keys = keys[1:]
			accts++
		}
	}
	return in
}

// systematic returns the fixed histories run before the random ones: every
// eager update inside every kind of aborted transaction, the dry-run
// issuance scenario, the same-transaction patterns, imported accounts, the
// locked manager, cache eviction, two scopes.
func systematic() []input {
	var out []input
	ab := []string{"abort", "dryrun", "failcommit"}
	writes := []op{
		{K: "next", Acct: 0, N: 2},
		{K: "next", Acct: 0, Int: true, N: 1},
		{K: "extend", Acct: 0, N: 4},
		{K: "rename", Acct: 0, Name: 7},
		{K: "newacct", Name: 8},
		{K: "markused", Addr: []uint32{0, 0, 0, 0}},
		{K: "setsynced", H: 1, Hash: 5, T: 1600000600},
		{K: "setsyncednil"},
		{K: "setbirthday", T: 1500003600},
		{K: "setbdayblock", H: 0, Hash: 6, T: 1600000700, Ver: true},
		{K: "impkey", Key: 0, Hash: -1},
		{K: "impkey", Key: 1, Priv: true, H: -1, Hash: 9, T: 1600000000},
		{K: "impscript", Key: 0, H: 2, Hash: 7, T: 1600000000},
	}
	warm := txIn{Fate: "commit", Ops: []op{{K: "next", Acct: 0, N: 1}, {K: "next", Acct: 0, Int: true, N: 1}}}
	for _, f := range ab {
		for _, wop := range writes {
			for _, warmed := range []bool{false, true} {
				h := input{Scope: 84}
				if warmed {
					h.Txs = append(h.Txs, warm)
				}
				h.Txs = append(h.Txs, txIn{Fate: f, Ops: []op{wop}})
				// the next committed request
				h.Txs = append(h.Txs, txIn{Fate: "commit", Ops: []op{{K: "next", Acct: 0, N: 1}, {K: "next", Acct: 0, Int: true, N: 1}}})
				out = append(out, h)
			}
		}
	}
	// imported xpub accounts (NewAccountWatchingOnly): created, cached, used,
	// renamed, extended; with and without schema override / fingerprint
	for _, imp := range []op{
		{K: "newacctwo", Name: 5, Key: 0, Fp: 0x11223344, Sch: []uint32{3, 4}},
		{K: "newacctwo", Name: 5, Key: 1, Fp: 0},
		{K: "newacctwo", Name: 5, Key: 2, Fp: 7, Sch: []uint32{0, 0}},
	} {
		for _, scope := range []uint32{84, 44} {
			use := txIn{Fate: "commit", Ops: []op{{K: "props", Acct: 1}, {K: "next", Acct: 1, N: 2}, {K: "next", Acct: 1, Int: true, N: 1}}}
			out = append(out,
				// the imported account is cached, then renamed in a COMMITTED transaction
				input{Scope: scope, Txs: []txIn{{Fate: "commit", Ops: []op{imp}}, use,
					{Fate: "commit", Ops: []op{{K: "rename", Acct: 1, Name: 6}}},
					{Fate: "commit", Ops: []op{{K: "next", Acct: 1, N: 1}, {K: "markused", Addr: []uint32{0, 1, 0, 0}}}}}},
				// renamed without having been cached; renamed in rolled-back transactions
				input{Scope: scope, Txs: []txIn{{Fate: "commit", Ops: []op{imp, {K: "rename", Acct: 1, Name: 6}}},
					{Fate: "failcommit", Ops: []op{{K: "rename", Acct: 1, Name: 7}}},
					{Fate: "commit", Ops: []op{{K: "rename", Acct: 1, Name: 8}, {K: "lookupname", Name: 6}}}}},
				// issuance from it in rolled-back transactions; a default account after it
				input{Scope: scope, Txs: []txIn{{Fate: "commit", Ops: []op{imp}},
					{Fate: "dryrun", Ops: []op{{K: "next", Acct: 1, Int: true, N: 2}}},
					{Fate: "commit", Ops: []op{{K: "newacct", Name: 9}, {K: "next", Acct: 1, Int: true, N: 1}, {K: "next", Acct: 2, N: 1}}},
					{Fate: "abort", Ops: []op{{K: "markused", Addr: []uint32{0, 1, 1, 0}}, {K: "lookup", Addr: []uint32{0, 1, 1, 0}}}}}},
				// its creation rolled back (not read back), the number reused by a default account
				input{Scope: scope, Txs: []txIn{{Fate: "abort", Ops: []op{imp}},
					{Fate: "commit", Ops: []op{{K: "newacct", Name: 9}, {K: "next", Acct: 1, N: 1}}},
					{Fate: "commit", Ops: []op{imp, {K: "next", Acct: 2, N: 1}}}}},
				// extended in committed transactions (public derivation only): the
				// extended addresses are looked up in the running manager's cache
				// and in a restarted manager - derivation info included - then
				// issuance continues after the extended range
				input{Scope: scope, Txs: []txIn{{Fate: "commit", Ops: []op{imp}}, use,
					{Fate: "commit", Ops: []op{{K: "extend", Acct: 1, N: 5}, {K: "extend", Acct: 1, N: 0},
						{K: "lookup", Addr: []uint32{0, 1, 0, 3}}, {K: "last", Acct: 1}}},
					{Fate: "commit", Ops: []op{{K: "extend", Acct: 1, Int: true, N: 2}, {K: "next", Acct: 1, N: 1}}}}},
				// extended cold (never cached before), locked, and in a rolled-back transaction
				input{Scope: scope, Txs: []txIn{{Fate: "commit", Ops: []op{imp, {K: "lock"}}},
					{Fate: "commit", Ops: []op{{K: "extend", Acct: 1, Int: true, N: 1}}},
					{Fate: "failcommit", Ops: []op{{K: "extend", Acct: 1, N: 2}}},
					{Fate: "commit", Ops: []op{{K: "unlock"}, {K: "next", Acct: 1, N: 1}, {K: "next", Acct: 1, Int: true, N: 1}}}}},
			)
		}
	}
	// the locked manager: what it can say must be what a locked restart says
	for _, scope := range []uint32{84, 44} {
		out = append(out,
			// issuance, extension, last-address queries while locked; unlock
			input{Scope: scope, Txs: []txIn{{Fate: "commit", Ops: []op{{K: "next", Acct: 0, N: 2}, {K: "newacct", Name: 5}}},
				{Fate: "commit", Ops: []op{{K: "lock"}, {K: "last", Acct: 0}, {K: "last", Acct: 1, Int: true}}},
				{Fate: "commit", Ops: []op{{K: "next", Acct: 0, N: 1}, {K: "next", Acct: 1, Int: true, N: 2}, {K: "extend", Acct: 1, N: 3}}},
				{Fate: "dryrun", Ops: []op{{K: "next", Acct: 0, Int: true, N: 1}}},
				{Fate: "commit", Ops: []op{{K: "lookup", Addr: []uint32{0, 1, 0, 2}}, {K: "markused", Addr: []uint32{0, 0, 0, 0}}}},
				{Fate: "commit", Ops: []op{{K: "unlock"}, {K: "next", Acct: 0, N: 1}, {K: "next", Acct: 1, N: 1}}}}},
			// what a locked manager refuses; lock twice; unlock twice
			input{Scope: scope, Txs: []txIn{{Fate: "commit", Ops: []op{{K: "lock"}, {K: "lock"}}},
				{Fate: "commit", Ops: []op{{K: "newacct", Name: 5}, {K: "impkey", Key: 0, Priv: true, H: 1, Hash: 3, T: 1600000000},
					{K: "impscript", Key: 0, H: 1, Hash: 4, T: 1600000000}}},
				{Fate: "commit", Ops: []op{{K: "impkey", Key: 1, Hash: -1}, {K: "newacctwo", Name: 6, Key: 0, Fp: 9}, {K: "rename", Acct: 0, Name: 7}}},
				{Fate: "abort", Ops: []op{{K: "unlock"}, {K: "unlock"}, {K: "newacct", Name: 8}}},
				{Fate: "commit", Ops: []op{{K: "newacct", Name: 8}, {K: "next", Acct: 2, N: 1}}}}},
			// locked in a transaction that rolls back: the manager stays locked
			input{Scope: scope, Txs: []txIn{{Fate: "failcommit", Ops: []op{{K: "lock"}, {K: "props", Acct: 0}}},
				{Fate: "commit", Ops: []op{{K: "next", Acct: 0, N: 1}, {K: "newacct", Name: 5}}},
				{Fate: "commit", Ops: []op{{K: "unlock"}, {K: "newacct", Name: 5}}}}},
			// addresses wait for their keys; their account is evicted; Unlock loads it again
			input{Scope: scope, Txs: []txIn{{Fate: "commit", Ops: []op{{K: "newacct", Name: 5}, {K: "lock"}}},
				{Fate: "commit", Ops: []op{{K: "next", Acct: 1, N: 2}, {K: "extend", Acct: 0, Int: true, N: 1}}},
				{Fate: "commit", Ops: []op{{K: "invalidate", Acct: 1}, {K: "invalidate", Acct: 0}}},
				{Fate: "commit", Ops: []op{{K: "unlock"}}},
				{Fate: "abort", Ops: []op{{K: "rename", Acct: 1, Name: 6}}}}},
		)
	}
	// ConvertToWatchingOnly: every row is rewritten without its private parts;
	// next indices, names, addresses must be what they were - asked of the
	// running and of a restarted manager after the conversion and after
	// further issuance
	for _, scope := range []uint32{84, 44} {
		out = append(out,
			// different numbers of receiving and change addresses, two accounts, an imported one
			input{Scope: scope, Txs: []txIn{
				{Fate: "commit", Ops: []op{{K: "next", Acct: 0, N: 4}, {K: "next", Acct: 0, Int: true, N: 1}, {K: "newacct", Name: 5}}},
				{Fate: "commit", Ops: []op{{K: "extend", Acct: 1, Int: true, N: 2}, {K: "newacctwo", Name: 6, Key: 0, Fp: 7}, {K: "next", Acct: 2, N: 2}}},
				{Fate: "commit", Ops: []op{{K: "convert"}}},
				{Fate: "commit", Ops: []op{{K: "next", Acct: 0, N: 1}, {K: "next", Acct: 0, Int: true, N: 1}, {K: "next", Acct: 1, N: 1}}},
				{Fate: "commit", Ops: []op{{K: "extend", Acct: 2, Int: true, N: 1}, {K: "rename", Acct: 1, Name: 7}, {K: "convert"}}}}},
			// imported keys and scripts before; what the converted manager refuses and accepts
			input{Scope: scope, Txs: []txIn{
				{Fate: "commit", Ops: []op{{K: "impkey", Key: 0, Priv: true, H: 1, Hash: 3, T: 1600000000}, {K: "impkey", Key: 1, Hash: -1},
					{K: "impscript", Key: 0, H: 1, Hash: 4, T: 1600000000}}},
				{Fate: "commit", Ops: []op{{K: "next", Acct: 0, N: 2}, {K: "convert"}, {K: "next", Acct: 0, Int: true, N: 3}}},
				{Fate: "commit", Ops: []op{{K: "newacct", Name: 5}, {K: "unlock"}, {K: "lock"}}},
				{Fate: "commit", Ops: []op{{K: "impkey", Key: 2, Priv: true, H: 1, Hash: 5, T: 1600000000}, {K: "impscript", Key: 1, H: 1, Hash: 6, T: 1600000000},
					{K: "newacctwo", Name: 6, Key: 1, Fp: 0x11223344, Sch: []uint32{3, 4}}}},
				{Fate: "commit", Ops: []op{{K: "next", Acct: 1, N: 2}, {K: "markused", Addr: []uint32{0, 0, 0, 0}}, {K: "last", Acct: 0, Int: true}}}}},
			// converted while locked, after an eviction; cold caches afterwards
			input{Scope: scope, Txs: []txIn{
				{Fate: "commit", Ops: []op{{K: "next", Acct: 0, N: 3}, {K: "lock"}, {K: "next", Acct: 0, Int: true, N: 2}}},
				{Fate: "commit", Ops: []op{{K: "invalidate", Acct: 0}, {K: "convert"}}},
				{Fate: "commit", Ops: []op{{K: "props", Acct: 0}, {K: "next", Acct: 0, N: 1}}}}},
		)
		// the conversion rolled back: the running manager has made itself
		// watching-only (and locked) already
		for _, f := range ab {
			out = append(out, input{Scope: scope, Txs: []txIn{
				{Fate: "commit", Ops: []op{{K: "next", Acct: 0, N: 2}, {K: "next", Acct: 0, Int: true, N: 1}}},
				{Fate: f, Ops: []op{{K: "convert"}}},
				{Fate: "commit", Ops: []op{{K: "next", Acct: 0, N: 1}, {K: "newacct", Name: 5}, {K: "unlock"}}}}})
		}
	}
	// cache eviction.  What wallet.ImportAccountDryRun does to the manager:
	// create, read, issue, read, EVICT, roll back - no phantom account; the same
	// without the eviction leaves one (known finding); the number is reused
	dry := func(evict bool, fate string) txIn {
		t := txIn{Fate: fate, Ops: []op{{K: "newacctwo", Name: 5, Key: 0, Fp: 7}, {K: "props", Acct: 1},
			{K: "next", Acct: 1, N: 2}, {K: "next", Acct: 1, Int: true, N: 2}, {K: "props", Acct: 1}}}
		if evict {
			t.Ops = append(t.Ops, op{K: "invalidate", Acct: 1})
		}
		return t
	}
	for _, f := range ab {
		out = append(out, input{Scope: 84, Txs: []txIn{dry(true, f),
			{Fate: "commit", Ops: []op{{K: "newacct", Name: 6}, {K: "next", Acct: 1, N: 1}}}}})
	}
	out = append(out,
		input{Scope: 84, Txs: []txIn{dry(false, "dryrun")}},
		// eviction in committed transactions, before and (other account) after an issuance
		input{Scope: 84, Txs: []txIn{{Fate: "commit", Ops: []op{{K: "next", Acct: 0, N: 2}, {K: "newacct", Name: 5}}},
			{Fate: "commit", Ops: []op{{K: "invalidate", Acct: 0}, {K: "next", Acct: 0, N: 1}, {K: "invalidate", Acct: 1}}},
			{Fate: "commit", Ops: []op{{K: "invalidate", Acct: 0}, {K: "rename", Acct: 0, Name: 6}, {K: "extend", Acct: 0, N: 5}}}}},
		// eviction cures an eager update of a rolled-back transaction (index, name)
		input{Scope: 44, Txs: []txIn{{Fate: "abort", Ops: []op{{K: "extend", Acct: 0, N: 3}, {K: "rename", Acct: 0, Name: 5}}},
			{Fate: "commit", Ops: []op{{K: "invalidate", Acct: 0}}},
			{Fate: "commit", Ops: []op{{K: "next", Acct: 0, N: 1}}}}},
		// an evicted account read again inside the transaction that changed its row, then rolled back
		input{Scope: 84, Txs: []txIn{{Fate: "abort", Ops: []op{{K: "next", Acct: 0, N: 2}, {K: "invalidate", Acct: 0}, {K: "props", Acct: 0}}},
			{Fate: "commit", Ops: []op{{K: "next", Acct: 0, N: 1}}}}},
		// a rolled-back account that stayed in the cache is renamed: the rename fails (no row)
		input{Scope: 84, Txs: []txIn{{Fate: "abort", Ops: []op{{K: "newacct", Name: 5}, {K: "props", Acct: 1}}},
			{Fate: "abort", Ops: []op{{K: "rename", Acct: 1, Name: 6}}},
			{Fate: "commit", Ops: []op{{K: "rename", Acct: 1, Name: 7}, {K: "rename", Acct: 0, Name: 0}, {K: "rename", Acct: 0, Name: 2}}}}},
	)
	// two key scopes of one manager: one database transaction, one sync state
	s1 := func(o op) op { o.Sc = 1; return o }
	out = append(out,
		input{Scope: 84, Scope2: 44, Txs: []txIn{
			{Fate: "commit", Ops: []op{{K: "next", Acct: 0, N: 2}, s1(op{K: "next", Acct: 0, N: 1}), s1(op{K: "newacct", Name: 5})}},
			{Fate: "dryrun", Ops: []op{{K: "next", Acct: 0, Int: true, N: 1}, s1(op{K: "next", Acct: 1, Int: true, N: 2})}},
			{Fate: "commit", Ops: []op{s1(op{K: "rename", Acct: 0, Name: 6}), {K: "setsynced", H: 1, Hash: 5, T: 1600000600},
				{K: "newacctwo", Name: 7, Key: 0, Fp: 7}}},
			{Fate: "commit", Ops: []op{{K: "lock"}, s1(op{K: "next", Acct: 1, N: 1}), {K: "extend", Acct: 1, N: 2}}},
			{Fate: "commit", Ops: []op{{K: "unlock"}, s1(op{K: "impkey", Key: 0, Hash: -1}), {K: "impkey", Key: 0, Hash: -1}}}}},
		input{Scope: 44, Scope2: 84, Txs: []txIn{
			{Fate: "abort", Ops: []op{{K: "extend", Acct: 0, N: 2}, s1(op{K: "next", Acct: 0, N: 1})}},
			{Fate: "commit", Ops: []op{{K: "next", Acct: 0, N: 1}, s1(op{K: "next", Acct: 0, N: 1})}},
			{Fate: "failcommit", Ops: []op{s1(op{K: "rename", Acct: 0, Name: 5}), {K: "props", Acct: 0}}},
			{Fate: "commit", Ops: []op{{K: "rename", Acct: 0, Name: 5}, s1(op{K: "markused", Addr: []uint32{0, 0, 0, 0}})}}}},
	)
	// through the real wallet: ImportAccountDryRun (its own always-rolled-back
	// transaction, with the eviction), then the real import reusing the number,
	// issuance from the imported account, another dry run, a dry-run send
	wdry := func(name, key int, acct uint32, fp uint32, n uint32) txIn {
		return txIn{Fate: "dryrun", Ops: []op{{K: "newacctwo", Name: name, Key: key, Fp: fp, Via: "importdry"},
			{K: "props", Acct: acct}, {K: "next", Acct: acct, N: n}, {K: "next", Acct: acct, Int: true, N: n},
			{K: "props", Acct: acct}, {K: "invalidate", Acct: acct}}}
	}
	out = append(out,
		input{Scope: 84, Wallet: true, Txs: []txIn{
			{Fate: "commit", Ops: []op{{K: "next", Acct: 0, N: 1, Via: "newaddress"}}},
			wdry(5, 0, 1, 7, 2),
			{Fate: "commit", Ops: []op{{K: "newacctwo", Name: 6, Key: 1, Fp: 0x11223344, Via: "importacct"}, {K: "props", Acct: 1}}},
			{Fate: "commit", Ops: []op{{K: "next", Acct: 1, N: 1, Via: "newaddress"}}},
			wdry(7, 0, 2, 0, 1),
			{Fate: "dryrun", Ops: []op{{K: "next", Acct: 0, Int: true, N: 1, Via: "createtxdry"}}},
			{Fate: "commit", Ops: []op{{K: "next", Acct: 1, Int: true, N: 1, Via: "newchange"}}}}},
		// the wallet converts itself (InitAccounts with watchOnly) and goes on issuing
		input{Scope: 84, Wallet: true, Txs: []txIn{
			{Fate: "commit", Ops: []op{{K: "next", Acct: 0, N: 1, Via: "newaddress"}}},
			{Fate: "commit", Ops: []op{{K: "next", Acct: 0, N: 1, Via: "newaddress"}}},
			{Fate: "commit", Ops: []op{{K: "next", Acct: 0, N: 1, Via: "newaddress"}}},
			{Fate: "commit", Ops: []op{{K: "next", Acct: 0, Int: true, N: 1, Via: "newchange"}}},
			{Fate: "commit", Ops: []op{{K: "convert", Via: "initwatch"}}},
			{Fate: "commit", Ops: []op{{K: "next", Acct: 0, N: 1, Via: "newaddress"}}},
			{Fate: "commit", Ops: []op{{K: "newacctwo", Name: 5, Key: 0, Fp: 7, Via: "importacct"}, {K: "props", Acct: 1}}},
			{Fate: "commit", Ops: []op{{K: "next", Acct: 0, Int: true, N: 1, Via: "newchange"}}},
			{Fate: "commit", Ops: []op{{K: "next", Acct: 1, N: 1, Via: "newaddress"}}}}},
		input{Scope: 84, Wallet: true, Txs: []txIn{
			{Fate: "commit", Ops: []op{{K: "next", Acct: 0, N: 1, Via: "newaddress"}}},
			wdry(5, 2, 1, 0x11223344, 3), wdry(5, 2, 1, 0x11223344, 1),
			{Fate: "commit", Ops: []op{{K: "newacctwo", Name: 5, Key: 2, Fp: 0x11223344, Via: "importacct"}, {K: "props", Acct: 1}}}}},
	)
	// same-transaction patterns
	out = append(out,
		input{Scope: 84, Txs: []txIn{{Fate: "commit", Ops: []op{{K: "next", Acct: 0, N: 1}, {K: "extend", Acct: 0, N: 4}}},
			{Fate: "commit", Ops: []op{{K: "next", Acct: 0, N: 1}}}}},
		input{Scope: 84, Txs: []txIn{{Fate: "commit", Ops: []op{{K: "extend", Acct: 0, N: 4}, {K: "next", Acct: 0, N: 1}}},
			{Fate: "commit", Ops: []op{{K: "next", Acct: 0, N: 1}}}}},
		input{Scope: 84, Txs: []txIn{{Fate: "commit", Ops: []op{{K: "next", Acct: 0, N: 2}, {K: "next", Acct: 0, N: 1}}},
			{Fate: "commit", Ops: []op{{K: "next", Acct: 0, N: 1}}}}},
		input{Scope: 44, Txs: []txIn{{Fate: "abort", Ops: []op{{K: "newacct", Name: 5}, {K: "props", Acct: 1}}},
			{Fate: "commit", Ops: []op{{K: "newacct", Name: 6}}}}},
		input{Scope: 44, Txs: []txIn{{Fate: "abort", Ops: []op{{K: "newacct", Name: 5}, {K: "next", Acct: 1, N: 1}}},
			{Fate: "commit", Ops: []op{{K: "newacct", Name: 6}, {K: "next", Acct: 1, N: 1}}}}},
		input{Scope: 44, Txs: []txIn{{Fate: "abort", Ops: []op{{K: "impkey", Key: 0, Hash: -1}}},
			{Fate: "commit", Ops: []op{{K: "impkey", Key: 0, Hash: -1}}}}},
		input{Scope: 84, Txs: []txIn{{Fate: "dryrun", Ops: []op{{K: "next", Acct: 0, Int: true, N: 1}, {K: "lookup", Addr: []uint32{0, 0, 1, 0}}}},
			{Fate: "commit", Ops: []op{{K: "next", Acct: 0, Int: true, N: 1}}}}},
		input{Scope: 84, Txs: []txIn{{Fate: "commit", Ops: []op{{K: "next", Acct: 0, N: 1}}},
			{Fate: "commit", Ops: []op{{K: "markused", Addr: []uint32{0, 0, 0, 0}}, {K: "lookup", Addr: []uint32{0, 0, 0, 0}}}},
			{Fate: "abort", Ops: []op{{K: "markused", Addr: []uint32{0, 0, 0, 1}}, {K: "lookup", Addr: []uint32{0, 0, 0, 0}}}}}},
	)
	return out
}

func main() {
	core.Main("c08", nil, func(c *core.Common, out *core.Emitter) error {
		// wallet.Create/Open use the default scrypt parameters (N=2^18);
		// the harness replaces the key generator by a fast one
		waddrmgr.SetSecretKeyGen(func(pass *[]byte, _ *waddrmgr.ScryptOptions) (*snacl.SecretKey, error) {
			return snacl.NewSecretKey(pass, 16, 8, 1)
		})
		e, err := newEnv()
		if err != nil {
			return err
		}
		defer os.RemoveAll(e.dir)
		if readBackCached, err = probeReadBack(e); err != nil {
			return err
		}
		if extendEager, err = probeExtendEager(e); err != nil {
			return err
		}
		if renameEager, err = probeRenameEager(e); err != nil {
			return err
		}
		// the histories of this run (drawn before any of them runs: what is
		// drawn depends on the seed alone)
		type job struct {
			in  input
			tag string
		}
		var jobs []job
		if c.Replay != "" {
			err := core.ReadReplay(c.Replay, func(raw json.RawMessage) error {
				var cs struct {
					In input `json:"in"`
				}
				if err := json.Unmarshal(raw, &cs); err != nil {
					return err
				}
				jobs = append(jobs, job{cs.In, "replay"})
				return nil
			})
			if err != nil {
				return err
			}
		} else {
			for _, h := range systematic() {
				jobs = append(jobs, job{h, "systematic"})
			}
			// the full-wallet path: wallet.CreateSimpleTx(dryRun), ImportAccountDryRun and friends
			rw := gen.New(c.Seed, 88)
			nw := 12
			if c.Tier == "thorough" {
				nw = 150
			}
			for i := 0; i < nw; i++ {
				jobs = append(jobs, job{genWalletHistory(rw), "wallet_api"})
			}
			r := gen.New(c.Seed, 8)
			for i := 0; i < c.N; i++ {
				jobs = append(jobs, job{genHistory(r, c.Tier), "random"})
			}
		}
		// histories are independent (own database file, own manager): run them on
		// a few workers, emit in the order drawn
		nwork := runtime.NumCPU() / 2
		if nwork > 6 {
			nwork = 6
		}
		if nwork < 1 || len(jobs) < 4 {
			nwork = 1
		}
		results := make([]*caseOut, len(jobs))
		errs := make([]error, nwork)
		var next int64 = -1
		var wg sync.WaitGroup
		for wi := 0; wi < nwork; wi++ {
			we, err := e.worker(wi)
			if err != nil {
				return err
			}
			wg.Add(1)
			go func(wi int, we *env) {
				defer wg.Done()
				for {
					i := int(atomic.AddInt64(&next, 1))
					if i >= len(jobs) || errs[wi] != nil {
						return
					}
					co, err := runHistory(we, jobs[i].in)
					if err != nil {
						errs[wi] = fmt.Errorf("history %d: %w", i, err)
						return
					}
					co.Tags = append(co.Tags, jobs[i].tag)
					results[i] = co
				}
			}(wi, we)
		}
		wg.Wait()
		for _, err := range errs {
			if err != nil {
				return err
			}
		}
		for _, co := range results {
			out.Emit(co)
		}
		return nil
	})
}
