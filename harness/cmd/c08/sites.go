package main

import (
	"encoding/json"
	"fmt"
	"sort"
	"strings"
)

// ---------------------------------------------------------------- the oracle
//
// The property stated on the implementation: at every transaction boundary the
// running manager and a manager freshly opened on the same database (brought
// to the same lock state) answer alike.  A difference is reported as
//
//	mem_disk_divergence:<observable> @ <site>
//
// <observable> names WHAT differs (divKinds).  <site> names the specific
// failing history: the operation(s) of the transaction after which the
// difference first showed that touch the diverging subject (same scope,
// account, branch, address), each WITH ITS OUTCOME, and how the transaction
// ended relative to them:
//
//	RenameAccount=ok/rolled-back            the operation succeeded and a LATER event
//	                                        (caller error, dry run, failed commit) rolled
//	                                        the transaction back
//	RenameAccount=ErrDuplicateAccount/...   the operation's own failure
//	NextAddresses=ok,ExtendAddresses=ok/same-branch/committed
//	                                        the exact pair, in this order, in one
//	                                        committed transaction
//	after:<site>                            a later symptom on an account whose cache
//	                                        entry is the phantom left at <site>
//	unexplained:<fate>:<op=outcome,...>     no operation of the transaction accounts
//	                                        for the difference
//
// so that a known finding (known_findings.json lists (observable, site) pairs)
// absorbs exactly the history it describes: another observable, another
// outcome or another position at the same operation is a new violation.

// divKinds: the violated clause(s), from the pair of answers.
func divKinds(q op, r, f answer) []string {
	var ks []string
	switch q.K {
	case "lookup":
		chained := len(q.Addr) == 4 && q.Addr[0] == 0
		switch {
		case r.K == "addr" && f.K != "addr":
			if chained {
				ks = append(ks, "phantom_address")
			} else {
				ks = append(ks, "phantom_imported_address")
			}
		case r.K != "addr" && f.K == "addr":
			ks = append(ks, "forgotten_address")
		case r.K == "addr" && f.K == "addr":
			ks = append(ks, addrObjectKinds(r, f)...)
			if r.Used != f.Used {
				ks = append(ks, "used_flag")
			}
			if r.Acct != f.Acct || r.Internal != f.Internal || r.Imported != f.Imported || fmt.Sprint(r.Ref) != fmt.Sprint(f.Ref) {
				ks = append(ks, "address_metadata")
			}
		default:
			ks = append(ks, "lookup_error")
		}
	case "props":
		switch {
		case r.K == "props" && f.K == "props":
			if r.Name != f.Name {
				ks = append(ks, "account_name")
			}
			if r.Ext != f.Ext || r.IntN != f.IntN {
				ks = append(ks, "next_index")
			}
			if r.Imp != f.Imp {
				ks = append(ks, "imported_count")
			}
			if r.Fp != f.Fp || r.Key != f.Key || fmt.Sprint(r.Sch) != fmt.Sprint(f.Sch) {
				ks = append(ks, "account_kind")
			}
			if r.WO != f.WO {
				ks = append(ks, "account_watch_only")
			}
		default:
			ks = append(ks, "account_existence")
		}
	case "last":
		switch {
		case r.K == "last" && f.K == "last":
			if fmt.Sprint(r.Ref) != fmt.Sprint(f.Ref) {
				ks = append(ks, "last_address")
			} else {
				ks = append(ks, addrObjectKinds(r, f)...)
			}
		case r.Err == "ErrAccountNotFound" || f.Err == "ErrAccountNotFound":
			ks = append(ks, "account_existence")
		case r.Err == "ErrAddressNotFound" || f.Err == "ErrAddressNotFound":
			ks = append(ks, "last_address")
		default:
			ks = append(ks, "last_address_error")
		}
	case "synced":
		ks = append(ks, "synced_to")
	case "birthday":
		ks = append(ks, "birthday")
	default:
		ks = append(ks, "disk_read_"+q.K)
	}
	if len(ks) == 0 {
		ks = append(ks, "answer_"+q.K)
	}
	return ks
}

// addrObjectKinds compares what an address object recorded when it was built.
func addrObjectKinds(r, f answer) []string {
	var ks []string
	if r.Fp != f.Fp {
		ks = append(ks, "derivation_fingerprint")
	}
	if r.DI != f.DI || fmt.Sprint(r.Path) != fmt.Sprint(f.Path) {
		ks = append(ks, "derivation_path")
	}
	if r.Pub != f.Pub {
		ks = append(ks, "address_pubkey")
	}
	if r.Ty != f.Ty {
		ks = append(ks, "address_type")
	}
	return ks
}

// sigParts splits a divergence of a kind at a query into the components that
// are tracked separately (the two branches of the key counts) and gives each
// its signature: as long as that stays the same the divergence is the one
// already reported.
func sigParts(kind string, r, f answer) map[string]string {
	if kind == "next_index" {
		m := map[string]string{}
		if r.Ext != f.Ext {
			m["ext"] = fmt.Sprint(r.Ext, "/", f.Ext)
		}
		if r.IntN != f.IntN {
			m["int"] = fmt.Sprint(r.IntN, "/", f.IntN)
		}
		return m
	}
	return map[string]string{"": sigOf(kind, r, f)}
}

func sigOf(kind string, r, f answer) string {
	switch kind {
	case "account_name":
		return fmt.Sprint(r.Name, "/", f.Name)
	case "next_index":
		return fmt.Sprint(r.Ext, "/", f.Ext, ",", r.IntN, "/", f.IntN)
	case "imported_count":
		return fmt.Sprint(r.Imp, "/", f.Imp)
	case "account_kind":
		return fmt.Sprint(r.Fp, r.Key, r.Sch, "/", f.Fp, f.Key, f.Sch)
	case "account_watch_only":
		return fmt.Sprint(r.WO, "/", f.WO)
	case "account_existence":
		// which side knows the account, and under which name
		return fmt.Sprint(r.K, r.Err, r.Name, "/", f.K, f.Err, f.Name)
	case "phantom_address", "phantom_imported_address", "forgotten_address", "lookup_error":
		return fmt.Sprint(r.K, r.Err, "/", f.K, f.Err)
	case "last_address":
		return fmt.Sprint(r.K, r.Err, r.Ref, "/", f.K, f.Err, f.Ref)
	case "used_flag":
		return fmt.Sprint(r.Used, "/", f.Used)
	case "derivation_fingerprint":
		return fmt.Sprint(r.Fp, "/", f.Fp)
	case "derivation_path":
		return fmt.Sprint(r.DI, r.Path, "/", f.DI, f.Path)
	case "address_pubkey":
		return r.Pub + "/" + f.Pub
	case "address_type":
		return fmt.Sprint(r.Ty, "/", f.Ty)
	}
	return r.key() + "/" + f.key()
}

type divState struct {
	// id (kind | query) -> signature of the divergences at the previous boundary
	cur map[string]string
	// (scope, address) -> site of the rolled-back transaction that left the
	// address object in the cache (it may be probed for the first time much later)
	phantomSite map[string]string
	// account subject -> site at which a phantom cache entry for it was left
	subjRoot map[string]string
	// (scope, account, branch) -> site of a rolled-back eager extension whose
	// index is still ahead in memory.  It may show only later: while the
	// account exists in memory alone the key counts cannot be compared; they
	// can once a committed NewAccount reuses the number.  Dropped as soon as
	// both managers report the same count for the branch.
	extRolled map[string]string
}

func newDivState() divState {
	return divState{cur: map[string]string{}, phantomSite: map[string]string{}, subjRoot: map[string]string{},
		extRolled: map[string]string{}}
}

func acctSubject(sc int, a uint32) string { return fmt.Sprintf("%d:acct:%d", sc, a) }
func branchSubject(sc int, a uint32, internal bool) string {
	return fmt.Sprintf("%d:acct:%d:%v", sc, a, internal)
}
func addrSubject(sc int, ref []uint32) string {
	return fmt.Sprintf("%d:addr:%v", sc, ref)
}

func outName(a answer) string {
	if a.K == "err" {
		return a.Err
	}
	return "ok"
}

func isOK(a answer) bool { return a.K != "err" }

func branchOf(o op) uint32 {
	if o.Int {
		return 1
	}
	return 0
}

// loadsAcct: the op goes through loadAccountInfo for account a of scope sc.
func loadsAcct(o op, sc int, a uint32) bool {
	if o.Sc != sc {
		return false
	}
	switch o.K {
	case "props", "last", "next", "extend":
		return o.Acct == a
	case "lookup":
		return len(o.Addr) == 4 && o.Addr[0] == 0 && o.Addr[1] == a
	}
	return false
}

// loaded: the op (which loadsAcct) did get the account entry - it succeeded, or
// it is a last-address query that found the account but no address yet.
func loaded(o op, a answer) bool {
	return isOK(a) || (o.K == "last" && a.Err == "ErrAddressNotFound")
}

func refEq(a, b []uint32) bool { return fmt.Sprint(a) == fmt.Sprint(b) }

func describeTx(t *txIn, outs []answer) string {
	var parts []string
	for i, o := range t.Ops {
		if isRead(o.K) {
			continue
		}
		if i < len(outs) {
			parts = append(parts, o.K+"="+outName(outs[i]))
		} else {
			parts = append(parts, o.K)
		}
	}
	if len(parts) == 0 {
		parts = []string{"reads-only"}
	}
	return strings.Join(parts, ",")
}

// explain names the site of a divergence of the given kind at query q that
// first shows after transaction t (outs: the outcomes of its ops).
func (rn *runner) explain(kind, part string, q op, t *txIn, outs []answer) string {
	if t == nil {
		return "before-any-transaction"
	}
	aborted := t.Fate != "commit"
	end := "/committed"
	if aborted {
		end = "/rolled-back"
	}
	sc := q.Sc
	n := len(t.Ops)
	if len(outs) < n {
		n = len(outs)
	}
	// the last matching op that succeeded, else the last one that failed
	last := func(pred func(i int, o op) bool) int {
		failed := -1
		for i := n - 1; i >= 0; i-- {
			if pred(i, t.Ops[i]) {
				if isOK(outs[i]) {
					return i
				}
				if failed < 0 {
					failed = i
				}
			}
		}
		return failed
	}
	after := func(i int, pred func(j int, o op) bool) int {
		for j := i + 1; j < n; j++ {
			if pred(j, t.Ops[j]) {
				return j
			}
		}
		return -1
	}
	eq := func(i int, api string) string { return api + "=" + outName(outs[i]) }
	// ", cached-read" if the account is loaded (successfully) after op i, and
	// ",InvalidateAccountCache=ok" if it is evicted after the last such load
	readBack := func(i int, a uint32) string {
		s := ""
		l := -1
		for j := i + 1; j < n; j++ {
			if loadsAcct(t.Ops[j], sc, a) && loaded(t.Ops[j], outs[j]) {
				l = j
			}
		}
		if l >= 0 {
			s = ",cached-read"
			if after(l, func(_ int, o op) bool { return o.K == "invalidate" && o.Sc == sc && o.Acct == a }) >= 0 {
				s += ",InvalidateAccountCache=ok"
			}
		}
		return s
	}
	switch kind {
	case "account_name":
		if aborted {
			if i := last(func(_ int, o op) bool { return o.K == "rename" && o.Sc == sc && o.Acct == q.Acct }); i >= 0 {
				return eq(i, "RenameAccount") + readBack(i, q.Acct) + end
			}
		}
	case "next_index", "last_address":
		branchOK := func(o op) bool {
			if kind == "next_index" {
				return o.Int == (part == "int")
			}
			return o.Int == q.Int
		}
		if aborted {
			if i := last(func(_ int, o op) bool {
				return o.K == "extend" && o.Sc == sc && o.Acct == q.Acct && branchOK(o)
			}); i >= 0 {
				return eq(i, "ExtendAddresses") + end
			}
		} else {
			// an extension after an issuance on the same branch
			for i := n - 1; i >= 0; i-- {
				o := t.Ops[i]
				if o.K != "extend" || o.Sc != sc || o.Acct != q.Acct || !branchOK(o) {
					continue
				}
				for j := i - 1; j >= 0; j-- {
					p := t.Ops[j]
					if p.K == "next" && p.Sc == sc && p.Acct == o.Acct && p.Int == o.Int {
						return eq(j, "NextAddresses") + "," + eq(i, "ExtendAddresses") + "/same-branch" + end
					}
				}
			}
		}
		// the index an EARLIER rolled-back extension left ahead in memory
		internal := q.Int
		if kind == "next_index" {
			internal = part == "int"
		}
		if s, ok := rn.div.extRolled[branchSubject(sc, q.Acct, internal)]; ok {
			return s
		}
	case "phantom_address", "phantom_imported_address":
		if s, ok := rn.div.phantomSite[addrSubject(sc, q.Addr)]; ok {
			return s
		}
	case "account_existence", "account_kind", "account_watch_only":
		if kind == "account_watch_only" && aborted {
			// the manager marked itself watching-only before the conversion committed
			if i := last(func(_ int, o op) bool { return o.K == "convert" }); i >= 0 {
				return eq(i, "ConvertToWatchingOnly") + end
			}
		}
		if aborted {
			if i := last(func(i int, o op) bool {
				return (o.K == "newacct" || o.K == "newacctwo") && o.Sc == sc && outs[i].K == "acct" && outs[i].Acct == q.Acct
			}); i >= 0 {
				return "NewAccount=ok" + readBack(i, q.Acct) + end
			}
		}
		// an account only one side knows changes its name
		if i := last(func(_ int, o op) bool { return o.K == "rename" && o.Sc == sc && o.Acct == q.Acct }); i >= 0 && kind == "account_existence" {
			return eq(i, "RenameAccount") + readBack(i, q.Acct) + end
		}
	case "synced_to":
		if aborted {
			if i := last(func(_ int, o op) bool { return o.K == "setsynced" || o.K == "setsyncednil" }); i >= 0 {
				return eq(i, "SetSyncedTo") + end
			}
		} else if i := last(func(_ int, o op) bool { return o.K == "setsyncednil" }); i >= 0 {
			// SetSyncedTo(nil) copies the in-memory start block, whose time
			// stamp is not what the database holds
			return eq(i, "SetSyncedTo(nil)") + end
		}
	case "birthday":
		if aborted {
			if i := last(func(_ int, o op) bool { return o.K == "setbirthday" }); i >= 0 {
				return eq(i, "SetBirthday") + end
			}
		}
	case "derivation_fingerprint", "derivation_path", "address_pubkey", "address_type":
		// what an address OBJECT of the running manager records: the object
		// (cached address, or the account's last address) was built by an extension
		if i := last(func(_ int, o op) bool {
			if o.K != "extend" || o.Sc != sc {
				return false
			}
			switch {
			case q.K == "lookup" && len(q.Addr) == 4 && q.Addr[0] == 0:
				return o.Acct == q.Addr[1] && branchOf(o) == q.Addr[2] && o.N >= q.Addr[3]
			case q.K == "last":
				return o.Acct == q.Acct && o.Int == q.Int
			}
			return false
		}); i >= 0 {
			return eq(i, "ExtendAddresses") + end
		}
	}
	// the account's row was changed by this transaction, its cache entry
	// evicted and then loaded again - from the uncommitted row
	if aborted && (q.K == "props" || q.K == "last") {
		writes := func(o op) (string, bool) {
			if o.Sc != sc || o.Acct != q.Acct {
				return "", false
			}
			switch o.K {
			case "next":
				return "NextAddresses", true
			case "extend":
				return "ExtendAddresses", true
			case "rename":
				return "RenameAccount", true
			}
			return "", false
		}
		for l := n - 1; l >= 0; l-- {
			if !loadsAcct(t.Ops[l], sc, q.Acct) || !loaded(t.Ops[l], outs[l]) {
				continue
			}
			for e := l - 1; e >= 0; e-- {
				if t.Ops[e].K != "invalidate" || t.Ops[e].Sc != sc || t.Ops[e].Acct != q.Acct {
					continue
				}
				for w := e - 1; w >= 0; w-- {
					if api, ok := writes(t.Ops[w]); ok && isOK(outs[w]) {
						return api + "=ok,InvalidateAccountCache=ok,cached-read" + end
					}
				}
			}
			break
		}
	}
	// a later symptom on an account whose cache entry is a phantom (for an
	// address: one of that account, which only the phantom entry lets the
	// running manager build)
	switch q.K {
	case "props", "last":
		if s, ok := rn.div.subjRoot[acctSubject(sc, q.Acct)]; ok {
			return "after:" + s
		}
	case "lookup":
		if len(q.Addr) == 4 && q.Addr[0] == 0 {
			if s, ok := rn.div.subjRoot[acctSubject(sc, q.Addr[1])]; ok {
				return "after:" + s
			}
		}
	}
	return "unexplained:" + strings.TrimPrefix(end, "/") + ":" + describeTx(t, outs)
}

// notePhantoms records, for a rolled-back transaction, which address objects
// its operations may have left in the cache, and at which site.
func (rn *runner) notePhantoms(t *txIn, outs []answer) {
	note := func(sc int, ref []uint32, site string) {
		k := addrSubject(sc, ref)
		if _, ok := rn.div.phantomSite[k]; !ok {
			rn.div.phantomSite[k] = site
		}
	}
	lookedUp := func(i int, sc int, ref []uint32) (int, bool) {
		for j := i + 1; j < len(t.Ops) && j < len(outs); j++ {
			if t.Ops[j].K == "lookup" && t.Ops[j].Sc == sc && refEq(t.Ops[j].Addr, ref) {
				return j, true
			}
		}
		return -1, false
	}
	for i, o := range t.Ops {
		if i >= len(outs) {
			break
		}
		switch {
		case o.K == "next" && outs[i].K == "addrs":
			for _, ref := range outs[i].Addrs {
				if readBackCached {
					note(o.Sc, ref, "NextAddresses=ok/rolled-back")
				} else if j, ok := lookedUp(i, o.Sc, ref); ok {
					// only an explicit lookup before the rollback caches it
					note(o.Sc, ref, "NextAddresses=ok,Address="+outName(outs[j])+"/rolled-back")
				}
			}
		case o.K == "extend" && outs[i].K == "ok":
			b := branchOf(o)
			if extendEager {
				rn.div.extRolled[branchSubject(o.Sc, o.Acct, o.Int)] = "ExtendAddresses=ok/rolled-back"
			}
			for idx := uint32(0); idx <= o.N && idx < maxIdx; idx++ {
				ref := []uint32{0, o.Acct, b, idx}
				if extendEager {
					note(o.Sc, ref, "ExtendAddresses=ok/rolled-back")
				} else if j, ok := lookedUp(i, o.Sc, ref); ok {
					note(o.Sc, ref, "ExtendAddresses=ok,Address="+outName(outs[j])+"/rolled-back")
				}
			}
		case (o.K == "impkey" || o.K == "impscript") && outs[i].K == "addrs":
			for _, ref := range outs[i].Addrs {
				note(o.Sc, ref, "Import=ok/rolled-back")
			}
		}
	}
}

// record turns the differing answers of one boundary into findings.
func (rn *runner) record(out *caseOut, txi int, t *txIn, outs []answer, qas []qa) {
	now := map[string]string{}
	for _, e := range qas {
		// both managers report the key counts of the account: a branch on which
		// they agree has nothing left over from a rolled-back extension
		if f := e.F; e.Q.K == "props" && e.R.K == "props" && (f == nil || f.K == "props") {
			if f == nil || f.Ext == e.R.Ext {
				delete(rn.div.extRolled, branchSubject(e.Q.Sc, e.Q.Acct, false))
			}
			if f == nil || f.IntN == e.R.IntN {
				delete(rn.div.extRolled, branchSubject(e.Q.Sc, e.Q.Acct, true))
			}
		}
		if e.F == nil {
			continue
		}
		for _, k := range divKinds(e.Q, e.R, *e.F) {
			qk, _ := json.Marshal(e.Q)
			parts := sigParts(k, e.R, *e.F)
			names := []string{}
			for part := range parts {
				names = append(names, part)
			}
			sort.Strings(names)
			for _, part := range names {
				rn.recordOne(out, txi, t, outs, e, k, part, k+"|"+part+"|"+string(qk), parts[part], now)
			}
		}
	}
	rn.div.cur = now
}

func (rn *runner) recordOne(out *caseOut, txi int, t *txIn, outs []answer, e qa, k, part, id, sig string, now map[string]string) {
	{
		{
			now[id] = sig
			// the divergence already reported at an earlier boundary
			if prev, ok := rn.div.cur[id]; ok && prev == sig {
				return
			}
			kind := "mem_disk_divergence:" + k
			site := rn.explain(k, part, e.Q, t, outs)
			if k == "account_existence" && strings.HasPrefix(site, "NewAccount=ok,cached-read/") {
				subj := acctSubject(e.Q.Sc, e.Q.Acct)
				if _, ok := rn.div.subjRoot[subj]; !ok {
					rn.div.subjRoot[subj] = site
				}
			}
			tag := kind + "@" + site
			dup := false
			for _, o := range out.Oracle {
				if o == tag {
					dup = true
				}
			}
			if !dup {
				out.Oracle = append(out.Oracle, tag)
				out.Findings = append(out.Findings, finding{Kind: kind, Site: site, Tx: txi, Q: e.Q, R: e.R, F: *e.F})
			}
		}
	}
}

// ---------------------------------------------------------------- K (tags only)

// txInK mirrors the decidable trigger pattern of coq/Addr/MemDisk.v (tx_k).
// Used for tags only - the Coq side decides.
func txInK(t txIn) bool {
	if t.Fate == "commit" {
		pend := map[[3]uint32]bool{}
		for _, o := range t.Ops {
			k := [3]uint32{uint32(o.Sc), o.Acct, branchOf(o)}
			switch o.K {
			case "next":
				pend[k] = true
			case "extend":
				if extendEager {
					if pend[k] {
						return true
					}
				} else {
					pend[k] = true
				}
			case "invalidate":
				if pend[[3]uint32{uint32(o.Sc), o.Acct, 0}] || pend[[3]uint32{uint32(o.Sc), o.Acct, 1}] {
					return true
				}
			case "setsyncednil":
				return true
			}
		}
		return false
	}
	// per scope: armed, issued, tainted accounts
	type st struct {
		armed, issued bool
		taint         map[uint32]bool
	}
	ss := [2]*st{{taint: map[uint32]bool{}}, {taint: map[uint32]bool{}}}
	for _, o := range t.Ops {
		s := ss[o.Sc&1]
		load := func(a uint32) {
			if s.armed {
				s.taint[a] = true
			}
		}
		switch o.K {
		case "setsynced", "setsyncednil", "setbirthday", "impkey", "impscript", "convert":
			return true
		case "rename":
			if renameEager {
				return true
			}
			s.armed = true
		case "extend":
			if extendEager {
				return true
			}
			load(o.Acct)
			s.issued = true
		case "next":
			if readBackCached {
				return true
			}
			load(o.Acct)
			s.issued = true
		case "newacct", "newacctwo":
			s.armed = true
		case "lookup":
			if s.armed || s.issued {
				return true
			}
		case "props":
			if o.Acct != importedAcct {
				load(o.Acct)
			}
		case "last":
			load(o.Acct)
		case "unlock":
			if ss[0].armed || ss[1].armed {
				return true
			}
		case "invalidate":
			s.armed = true
			delete(s.taint, o.Acct)
		}
	}
	return len(ss[0].taint)+len(ss[1].taint) > 0
}

func tagsOf(in input, out *caseOut) []string {
	set := map[string]bool{}
	set[fmt.Sprintf("scope_%d", in.Scope)] = true
	if in.Scope2 != 0 {
		set["two_scopes"] = true
	}
	set[fmt.Sprintf("read_back_cached_%v", readBackCached)] = true
	set[fmt.Sprintf("extend_eager_%v", extendEager)] = true
	set[fmt.Sprintf("rename_eager_%v", renameEager)] = true
	k := false
	onlyIssueAborted := true
	anyAbortedIssue := false
	locked := false
	for _, t := range in.Txs {
		set["fate_"+t.Fate] = true
		set[fmt.Sprintf("ops_per_tx_%d", len(t.Ops))] = true
		for _, o := range t.Ops {
			set["op_"+o.K] = true
			if o.Via != "" {
				set["via_"+o.Via] = true
			}
			if o.K == "lock" {
				locked = true
			}
			if o.K == "unlock" {
				locked = false
			}
			if locked && !isRead(o.K) {
				set["locked_"+o.K] = true
			}
			if t.Fate != "commit" {
				set["aborted_"+o.K] = true
				if o.K == "next" {
					anyAbortedIssue = true
				} else if !isRead(o.K) {
					onlyIssueAborted = false
				}
			}
		}
		if txInK(t) {
			k = true
		}
	}
	if k {
		set["in_K"] = true
	} else {
		set["outside_K"] = true
	}
	if anyAbortedIssue && onlyIssueAborted {
		set["dry_run_issuance_only"] = true
	}
	if len(out.Oracle) > 0 {
		set["diverged"] = true
	}
	tags := []string{}
	for t := range set {
		tags = append(tags, t)
	}
	sort.Strings(tags)
	return tags
}
