package main

// Wallet-level cases of C07: the transaction is authored by a REAL wallet
// (wallet.Create/Open over bbolt, unlocked, attached to a simulated chain)
// through its entry points CreateSimpleTx (automatic and explicit selection),
// SendOutputs and FundPsbt (automatic selection and caller-supplied inputs).
// That runs wallet/createtx.go makeInputSource / constantInputSource, the
// change source of addrMgrWithChangeSource (declared script size per change
// scope), txauthor.RandomizeChangePosition and txrules.CheckOutput - none of
// which the txauthor-level cases reach.
//
// The oracle is stated on the SIGNED transaction and on the harness's own
// ledger of the coins it paid to the wallet (outpoint -> value), never on
// what the wallet reports about its inputs.

import (
	"bytes"
	"encoding/binary"
	"errors"
	"fmt"
	"sort"
	"strings"
	"time"

	"github.com/btcsuite/btcd/btcec/v2"
	"github.com/btcsuite/btcd/btcutil"
	"github.com/btcsuite/btcd/btcutil/hdkeychain"
	"github.com/btcsuite/btcd/btcutil/psbt"
	"github.com/btcsuite/btcd/chaincfg"
	"github.com/btcsuite/btcd/chaincfg/chainhash"
	"github.com/btcsuite/btcd/mempool"
	"github.com/btcsuite/btcd/txscript"
	"github.com/btcsuite/btcd/wire"
	"github.com/btcsuite/btcwallet/waddrmgr"
	"github.com/btcsuite/btcwallet/wallet"
	"github.com/btcsuite/btcwallet/wallet/txauthor"
	"github.com/btcsuite/btcwallet/walletdb"
	"github.com/btcsuite/btcwallet/wtxmgr"

	"verifharness/internal/gen"
	"verifharness/internal/simchain"
	"verifharness/internal/walletenv"
)

// wCoin is N identical coins of one kind paid to the wallet.
//
//	p2pkh np2wpkh p2wpkh p2tr   default account (0) of scope 44 / 49 / 84 / 86
//	p2pkh-u                     imported UNCOMPRESSED private key (scope 44)
//	p2pkh-i np2wpkh-i p2wpkh-i p2tr-i   imported compressed private keys
//	np2wpkh-w                   account "legacy49": a watch-only account of scope 49 with the
//	                            traditional BIP-49 schema (change is nested P2WPKH too); the
//	                            wallet does not sign for it, the harness holds its keys
type wCoin struct {
	K string `json:"k"`
	V int64  `json:"v"`
	N int    `json:"n"`
}

type wOutObs struct {
	L int   `json:"l"` // script length
	V int64 `json:"v"`
	N int   `json:"n"` // run length
}

const maxSatoshi = int64(btcutil.MaxSatoshi)

var wKinds = []string{"p2pkh", "np2wpkh", "p2wpkh", "p2tr"}

func baseKind(k string) string {
	if i := strings.IndexByte(k, '-'); i >= 0 {
		return k[:i]
	}
	return k
}

func importedKind(k string) bool { return strings.IndexByte(k, '-') >= 0 && k != "np2wpkh-w" }

// acctOfKind names the account a coin kind belongs to.
func acctOfKind(k string) string {
	switch {
	case k == "np2wpkh-w":
		return "legacy49"
	case importedKind(k):
		return "imported"
	}
	return "default"
}

// worstKind is the name under which specWorstVsize sizes the input.
func worstKind(k string) string {
	if k == "p2pkh-u" {
		return k
	}
	return baseKind(k)
}

var scopeByPurpose = map[int]waddrmgr.KeyScope{
	44: waddrmgr.KeyScopeBIP0044, 49: waddrmgr.KeyScopeBIP0049Plus,
	84: waddrmgr.KeyScopeBIP0084, 86: waddrmgr.KeyScopeBIP0086,
}

var purposeOfKind = map[string]int{"p2pkh": 44, "np2wpkh": 49, "p2wpkh": 84, "p2tr": 86}

// Independent reading of the documentation of CreateSimpleTx / FundPsbt /
// WithCustomChangeScope and of the BIP-44/49(+)/84/86 address schemas: the
// change script type for a request.  BIP0049Plus pays change to P2WPKH.
func expectedChangeType(scope, chscope int, acct string) string {
	if acct == "legacy49" && (chscope == 49 || (chscope == 0 && scope == 49)) {
		return "np2wpkh" // the account's own (traditional BIP-49) schema
	}
	s := chscope
	if s == 0 {
		s = scope
	}
	switch s {
	case 44:
		return "p2pkh"
	case 49, 84:
		return "p2wpkh"
	}
	return "p2tr" // 86 and "no scope at all"
}

type wenv struct {
	env     *walletenv.Env
	w       *wallet.Wallet
	ch      *simchain.Chain
	scripts map[string][]byte // coin kind -> pkScript
	ctr     uint32
	// the watch-only account with the traditional BIP-49 schema
	legacyAcct uint32
	ownKeys    map[string]*btcec.PrivateKey // address -> key the harness holds itself
}

func walletSeed() []byte {
	s := make([]byte, 32)
	for i := range s {
		s[i] = byte(17*i + 7)
	}
	return s
}

func newWenv() (*wenv, error) {
	env, err := walletenv.New(walletSeed(), time.Unix(1600000000, 0), 0, nil)
	if err != nil {
		return nil, err
	}
	e := &wenv{env: env, w: env.W, ch: simchain.New(env.Params), scripts: map[string][]byte{}}
	e.w.VerifSetChainClient(e.ch)
	e.w.SetChainSynced(true)
	if err := e.w.Unlock(walletenv.PrivPass, nil); err != nil {
		env.Close()
		return nil, err
	}
	// a wallet that has synced once knows its birthday block (ImportPrivateKey reads it)
	g := e.ch.At(0)
	err = walletdb.Update(e.w.Database(), func(tx walletdb.ReadWriteTx) error {
		return e.w.Manager.SetBirthdayBlock(tx.ReadWriteBucket([]byte("waddrmgr")),
			waddrmgr.BlockStamp{Hash: g.Hash, Height: 0, Timestamp: g.Time}, true)
	})
	if err != nil {
		env.Close()
		return nil, err
	}
	return e, nil
}

func (e *wenv) close() { e.env.Close() }

func (e *wenv) fresh() chainhash.Hash {
	e.ctr++
	var b [8]byte
	binary.BigEndian.PutUint32(b[:], e.ctr)
	copy(b[4:], "c07w")
	return chainhash.DoubleHashH(b[:])
}

// scriptFor returns (creating on first use) the wallet script coins of kind k
// are paid to: one address per kind.
func (e *wenv) scriptFor(k string) ([]byte, error) {
	if s, ok := e.scripts[k]; ok {
		return s, nil
	}
	scope := scopeByPurpose[purposeOfKind[baseKind(k)]]
	var addr btcutil.Address
	var err error
	if k == "np2wpkh-w" {
		addr, err = e.legacyAddress()
	} else if !importedKind(k) {
		addr, err = e.w.NewAddress(0, scope)
	} else {
		id := 9000 + len(e.scripts)
		wif, werr := btcutil.NewWIF(privKey(id), e.env.Params, k != "p2pkh-u")
		if werr != nil {
			return nil, werr
		}
		var s string
		s, err = e.w.ImportPrivateKey(scope, wif, nil, false)
		if err == nil {
			addr, err = btcutil.DecodeAddress(s, e.env.Params)
		}
	}
	if err != nil {
		return nil, fmt.Errorf("address for coin kind %s: %v", k, err)
	}
	s, err := txscript.PayToAddrScript(addr)
	if err != nil {
		return nil, err
	}
	e.scripts[k] = s
	return s, nil
}

// legacyAddress creates the watch-only account "legacy49" (account public key
// m/49'/coin'/7' of a second seed, schema override = nested P2WPKH on both
// branches) and returns its first external address; the harness keeps the
// private key of that address.
func (e *wenv) legacyAddress() (btcutil.Address, error) {
	master, err := hdkeychain.NewMaster(append([]byte{9}, walletSeed()...), e.env.Params)
	if err != nil {
		return nil, err
	}
	k := master
	for _, i := range []uint32{49, e.env.Params.HDCoinType, 7} {
		if k, err = k.Derive(hdkeychain.HardenedKeyStart + i); err != nil {
			return nil, err
		}
	}
	pub, err := k.Neuter()
	if err != nil {
		return nil, err
	}
	err = walletdb.Update(e.w.Database(), func(tx walletdb.ReadWriteTx) error {
		sm, err := e.w.Manager.FetchScopedKeyManager(waddrmgr.KeyScopeBIP0049Plus)
		if err != nil {
			return err
		}
		e.legacyAcct, err = sm.NewAccountWatchingOnly(tx.ReadWriteBucket([]byte("waddrmgr")), "legacy49", pub, 0,
			&waddrmgr.KeyScopeBIP0049AddrSchema)
		return err
	})
	if err != nil {
		return nil, err
	}
	addr, err := e.w.NewAddress(e.legacyAcct, waddrmgr.KeyScopeBIP0049Plus)
	if err != nil {
		return nil, err
	}
	// external branch, index 0
	ck := k
	for _, i := range []uint32{0, 0} {
		if ck, err = ck.Derive(i); err != nil {
			return nil, err
		}
	}
	priv, err := ck.ECPrivKey()
	if err != nil {
		return nil, err
	}
	wp, err := btcutil.NewAddressWitnessPubKeyHash(btcutil.Hash160(priv.PubKey().SerializeCompressed()), e.env.Params)
	if err != nil {
		return nil, err
	}
	prog, err := txscript.PayToAddrScript(wp)
	if err != nil {
		return nil, err
	}
	own, err := btcutil.NewAddressScriptHash(prog, e.env.Params)
	if err != nil {
		return nil, err
	}
	if own.EncodeAddress() != addr.EncodeAddress() {
		return nil, fmt.Errorf("harness: the wallet's legacy49 address %v is not the key the harness derived (%v)", addr, own)
	}
	e.ownKeys = map[string]*btcec.PrivateKey{addr.EncodeAddress(): priv}
	return addr, nil
}

type ledgerCoin struct {
	k      string
	v      int64
	script []byte
	op     wire.OutPoint
}

// fund pays the coins to the wallet in one confirmed block (transactions of
// at most 400 outputs) and returns the ledger in the order of the expanded
// coin list.
func (e *wenv) fund(coins []wCoin) ([]ledgerCoin, error) {
	var led []ledgerCoin
	var txs []*wire.MsgTx
	var cur *wire.MsgTx
	for _, c := range coins {
		s, err := e.scriptFor(c.K)
		if err != nil {
			return nil, err
		}
		n := c.N
		if n < 1 {
			n = 1
		}
		for i := 0; i < n; i++ {
			if cur == nil || len(cur.TxOut) >= 400 {
				cur = wire.NewMsgTx(2)
				h := e.fresh()
				cur.AddTxIn(wire.NewTxIn(&wire.OutPoint{Hash: h, Index: 0}, nil, nil))
				txs = append(txs, cur)
			}
			cur.AddTxOut(wire.NewTxOut(c.V, s))
			led = append(led, ledgerCoin{k: c.K, v: c.V, script: s, op: wire.OutPoint{Index: uint32(len(cur.TxOut) - 1)}})
		}
	}
	// outpoint hashes once the transactions are complete
	idx := 0
	for _, tx := range txs {
		h := tx.TxHash()
		for range tx.TxOut {
			led[idx].op.Hash = h
			idx++
		}
	}
	blk := e.ch.Extend(txs, nil)
	meta := blk.Meta()
	if err := e.w.VerifConnectBlock(meta); err != nil {
		return nil, err
	}
	for _, tx := range txs {
		rec, err := wtxmgr.NewTxRecordFromMsgTx(tx, blk.Time)
		if err != nil {
			return nil, err
		}
		if err := e.w.VerifAddRelevantTx(rec, &meta); err != nil {
			return nil, err
		}
	}
	return led, nil
}

// walletSecrets signs with the wallet's own keys through its public API
// (used for FundPsbt, which hands out an unsigned packet).
type walletSecrets struct {
	w      *wallet.Wallet
	params *chaincfg.Params
	own    map[string]*btcec.PrivateKey
}

func (s walletSecrets) GetKey(a btcutil.Address) (*btcec.PrivateKey, bool, error) {
	if k, ok := s.own[a.EncodeAddress()]; ok {
		return k, true, nil
	}
	k, err := s.w.PrivKeyForAddress(a)
	if err != nil {
		return nil, false, err
	}
	info, err := s.w.AddressInfo(a)
	if err != nil {
		return nil, false, err
	}
	return k, info.Compressed(), nil
}
func (s walletSecrets) GetScript(a btcutil.Address) ([]byte, error) {
	return nil, errors.New("no script for " + a.EncodeAddress())
}
func (s walletSecrets) ChainParams() *chaincfg.Params { return s.params }

func sortedDesc(cs []ledgerCoin) []ledgerCoin {
	out := append([]ledgerCoin{}, cs...)
	sort.SliceStable(out, func(i, j int) bool { return out[i].v > out[j].v })
	return out
}

func compressCoins(cs []ledgerCoin) []wCoin {
	var out []wCoin
	for _, c := range cs {
		if n := len(out); n > 0 && out[n-1].K == c.k && out[n-1].V == c.v {
			out[n-1].N++
		} else {
			out = append(out, wCoin{K: c.k, V: c.v, N: 1})
		}
	}
	if out == nil {
		out = []wCoin{}
	}
	return out
}

func wOutKey(v int64, s []byte) string { return fmt.Sprintf("%d:%x", v, s) }

// runWallet runs one wallet-level case on a fresh wallet.
func runWallet(in c07Input) (c07Obs, []string, error) {
	obs := c07Obs{ChangeIdx: -1, TotalIn: -1, InKinds: []string{}, SigLens: []int{}, PkLens: []int{},
		WIn: []wCoin{}, WOut: []wOutObs{}, Arr: []wCoin{}}
	var bad []string
	e, err := newWenv()
	if err != nil {
		return obs, nil, err
	}
	defer e.close()
	led, err := e.fund(in.WCoins)
	if err != nil {
		return obs, nil, err
	}
	byOp := map[wire.OutPoint]ledgerCoin{}
	for _, c := range led {
		byOp[c.op] = c
	}

	// what the request may spend, by an independent reading of the API
	account := uint32(0)
	switch in.Acct {
	case "imported":
		account = waddrmgr.ImportedAddrAccount
	case "legacy49":
		if _, err := e.scriptFor("np2wpkh-w"); err != nil {
			return obs, nil, err
		}
		account = e.legacyAcct
	}
	var eligible []ledgerCoin
	for _, c := range led {
		if acctOfKind(c.k) != in.Acct {
			continue
		}
		if in.Scope != 0 && purposeOfKind[baseKind(c.k)] != in.Scope {
			continue
		}
		eligible = append(eligible, c)
	}
	explicit := len(in.Sel) > 0
	var offered []ledgerCoin
	if explicit {
		for _, i := range in.Sel {
			if i < 0 || i >= len(led) {
				return obs, nil, fmt.Errorf("selection index %d out of range", i)
			}
			offered = append(offered, led[i])
		}
	} else {
		offered = sortedDesc(eligible)
	}
	// SendOutputs has no change-scope option
	if in.API == "send" {
		in.ChScope = 0
	}
	obs.ChKind = expectedChangeType(in.Scope, in.ChScope, in.Acct)

	outs := buildOuts(in)
	reqCopy := make([]wire.TxOut, len(outs))
	for i, o := range outs {
		reqCopy[i] = wire.TxOut{Value: o.Value, PkScript: append([]byte{}, o.PkScript...)}
	}
	var scopePtr *waddrmgr.KeyScope
	if in.Scope != 0 {
		s := scopeByPurpose[in.Scope]
		scopePtr = &s
	}
	var opts []wallet.TxCreateOption
	if in.ChScope != 0 {
		s := scopeByPurpose[in.ChScope]
		opts = append(opts, wallet.WithCustomChangeScope(&s))
	}
	var strat wallet.CoinSelectionStrategy = wallet.CoinSelectionLargest
	if in.Strategy == "random" {
		strat = wallet.CoinSelectionRandom
	}
	rate := btcutil.Amount(in.Rate)

	var tx *wire.MsgTx
	signed := false
	idxKnown := false
	switch in.API {
	case "create":
		if explicit {
			ops := make([]wire.OutPoint, len(offered))
			for i, c := range offered {
				ops[i] = c.op
			}
			opts = append(opts, wallet.WithCustomSelectUtxos(ops))
		}
		var atx *txauthor.AuthoredTx
		atx, err = e.w.CreateSimpleTx(scopePtr, account, outs, 1, rate, strat, false, opts...)
		if err == nil {
			tx, signed, idxKnown = atx.Tx, true, true
			obs.ChangeIdx = atx.ChangeIndex
			obs.TotalIn = int64(atx.TotalInput)
			// what the wallet reports about its inputs must be the ledger's
			if len(atx.PrevInputValues) != len(tx.TxIn) || len(atx.PrevScripts) != len(tx.TxIn) {
				bad = append(bad, "value_not_conserved")
			} else {
				for i, ti := range tx.TxIn {
					c, ok := byOp[ti.PreviousOutPoint]
					if !ok || int64(atx.PrevInputValues[i]) != c.v || !bytes.Equal(atx.PrevScripts[i], c.script) {
						bad = append(bad, "value_not_conserved")
						break
					}
				}
			}
		}
	case "send":
		if explicit {
			ops := make([]wire.OutPoint, len(offered))
			for i, c := range offered {
				ops[i] = c.op
			}
			tx, err = e.w.SendOutputsWithInput(outs, scopePtr, account, 1, rate, strat, "c07", ops)
		} else {
			tx, err = e.w.SendOutputs(outs, scopePtr, account, 1, rate, strat, "c07")
		}
		signed = err == nil
	case "fundpsbt":
		utx := wire.NewMsgTx(2)
		for _, o := range outs {
			utx.AddTxOut(o)
		}
		if explicit {
			for _, c := range offered {
				op := c.op
				utx.AddTxIn(wire.NewTxIn(&op, nil, nil))
			}
		}
		var packet *psbt.Packet
		packet, err = psbt.NewFromUnsignedTx(utx)
		if err != nil {
			return obs, nil, err
		}
		var ci int32
		ci, err = e.w.FundPsbt(packet, scopePtr, 1, account, rate, strat, opts...)
		if err == nil {
			tx, idxKnown = packet.UnsignedTx, true
			obs.ChangeIdx = int(ci)
		}
	default:
		return obs, nil, errors.New("unknown wallet api " + in.API)
	}

	var sumReq int64
	negOrHuge := false
	for _, o := range in.Outs {
		sumReq += o.V
		if o.V < 0 || o.V > maxSatoshi {
			negOrHuge = true
		}
	}
	outLens := outLensOf(in.Outs)
	chLen := outScriptLen(obs.ChKind)

	if err != nil {
		var ise txauthor.InputSourceError
		switch {
		case errors.As(err, &ise):
			obs.Err = "insufficient"
			// property: only when the offered coins cannot cover the outputs plus
			// the required fee (most lenient reading: every offered coin, the
			// worst-case size of the transaction spending all of them with a
			// change output, the fee rounded up)
			var sumAll int64
			kinds := make([]string, len(offered))
			for i, c := range offered {
				sumAll += c.v
				kinds[i] = worstKind(c.k)
			}
			need := sumReq + (in.Rate*specWorstVsize(upperKinds(kinds), outLens, chLen)+999)/1000
			if sumAll >= need && in.Strategy != "random" {
				bad = append(bad, "spurious_insufficient_funds")
			}
			obs.Arr = compressCoins(offered)
		case strings.Contains(err.Error(), "amount is negative"):
			obs.Err = "refused:negative"
		case strings.Contains(err.Error(), "exceeds maximum"):
			obs.Err = "refused:exceeds_max"
		case strings.Contains(err.Error(), "is dust"):
			obs.Err = "refused:dust"
		default:
			obs.Err = "other:" + err.Error()
			bad = append(bad, "unexpected_error")
		}
		return obs, bad, nil
	}

	// ---- the authored transaction, judged on the ledger
	obs.NIn, obs.NOut = len(tx.TxIn), len(tx.TxOut)
	seen := map[wire.OutPoint]bool{}
	var sumIn int64
	var ins []ledgerCoin
	okInputs := true
	for _, ti := range tx.TxIn {
		c, ok := byOp[ti.PreviousOutPoint]
		if !ok || seen[ti.PreviousOutPoint] {
			okInputs = false
			continue
		}
		seen[ti.PreviousOutPoint] = true
		sumIn += c.v
		ins = append(ins, c)
		obs.InKinds = append(obs.InKinds, baseKind(c.k))
	}
	obs.WIn = compressCoins(ins)
	var sumOut int64
	amountsOK := true
	for _, o := range tx.TxOut {
		if o.Value < 0 || o.Value > maxSatoshi {
			amountsOK = false
		}
		sumOut += o.Value
		if sumOut < 0 || sumOut > maxSatoshi {
			amountsOK = false
		}
		if n := len(obs.WOut); n > 0 && obs.WOut[n-1].L == len(o.PkScript) && obs.WOut[n-1].V == o.Value {
			obs.WOut[n-1].N++
		} else {
			obs.WOut = append(obs.WOut, wOutObs{L: len(o.PkScript), V: o.Value, N: 1})
		}
	}
	if !amountsOK || negOrHuge {
		bad = append(bad, "amount_out_of_range")
	}
	obs.Fee = sumIn - sumOut
	if !okInputs || obs.Fee < 0 || (obs.TotalIn >= 0 && obs.TotalIn != sumIn) {
		bad = append(bad, "value_not_conserved")
	}

	// every requested output exactly once (amount and script), at most one
	// further output: the change
	want := map[string]int{}
	for _, o := range reqCopy {
		want[wOutKey(o.Value, o.PkScript)]++
	}
	var extra []int
	for i, o := range tx.TxOut {
		k := wOutKey(o.Value, o.PkScript)
		if want[k] > 0 {
			want[k]--
		} else {
			extra = append(extra, i)
		}
	}
	changed := len(extra) > 1
	for _, n := range want {
		if n != 0 {
			changed = true
		}
	}
	for i := range outs {
		if outs[i].Value != reqCopy[i].Value || !bytes.Equal(outs[i].PkScript, reqCopy[i].PkScript) {
			changed = true // the caller's slice was modified
		}
	}
	changeAt := -1
	if len(extra) == 1 {
		changeAt = extra[0]
	}
	if idxKnown && obs.ChangeIdx != changeAt {
		// a change output identical to a requested output is found at another
		// index by elimination: accept the reported index if it holds an equal output
		ok := false
		if obs.ChangeIdx >= 0 && obs.ChangeIdx < len(tx.TxOut) && changeAt >= 0 {
			a, b := tx.TxOut[obs.ChangeIdx], tx.TxOut[changeAt]
			ok = a.Value == b.Value && bytes.Equal(a.PkScript, b.PkScript)
		}
		if ok {
			changeAt = obs.ChangeIdx
		} else {
			changed = true
		}
	}
	if !idxKnown {
		obs.ChangeIdx = changeAt
	}
	if changed {
		bad = append(bad, "outputs_changed")
	}
	if changeAt >= 0 {
		ch := tx.TxOut[changeAt]
		obs.ChangeAmt = ch.Value
		obs.ChLen = len(ch.PkScript)
		wit := txscript.IsWitnessProgram(ch.PkScript)
		if ch.Value <= 0 {
			bad = append(bad, "zero_change")
		} else if ch.Value < specDustThreshold(len(ch.PkScript), wit) {
			bad = append(bad, "dust_change")
		}
	}

	// the arrangement handed to the model
	switch {
	case explicit:
		obs.Arr = compressCoins(offered)
	case in.Strategy == "random":
		obs.Arr = compressCoins(ins) // the order is the selector's choice: the prefix it took
	default:
		obs.Arr = compressCoins(offered)
	}

	if !okInputs {
		return obs, bad, nil
	}
	// sign (FundPsbt hands out an unsigned packet), verify every input, measure
	prevScripts := make([][]byte, len(ins))
	prevVals := make([]btcutil.Amount, len(ins))
	for i, c := range ins {
		prevScripts[i], prevVals[i] = c.script, btcutil.Amount(c.v)
	}
	// (an entry point may hand out an unsigned transaction: FundPsbt always,
	// CreateSimpleTx for a watch-only account - and, before fix 7cd4d93, for
	// every spend from the imported-key account)
	for _, ti := range tx.TxIn {
		if len(ti.SignatureScript) == 0 && len(ti.Witness) == 0 {
			signed = false
		}
	}
	if !signed {
		if err := txauthor.AddAllInputScripts(tx, prevScripts, prevVals, walletSecrets{e.w, e.env.Params, e.ownKeys}); err != nil {
			return obs, bad, fmt.Errorf("signing the funded packet failed: %v", err)
		}
	}
	fetcher, err := txauthor.TXPrevOutFetcher(tx, prevScripts, prevVals)
	if err != nil {
		return obs, bad, err
	}
	hc := txscript.NewTxSigHashes(tx, fetcher)
	nUnc := int64(0)
	for i, ti := range tx.TxIn {
		vm, err := txscript.NewEngine(prevScripts[i], tx, i, txscript.StandardVerifyFlags, nil, hc, int64(prevVals[i]), fetcher)
		if err == nil {
			err = vm.Execute()
		}
		if err != nil {
			return obs, bad, fmt.Errorf("signed input %d does not verify: %v", i, err)
		}
		sl, pl := sigAndKeyLen(obs.InKinds[i], ti)
		obs.SigLens = append(obs.SigLens, sl)
		obs.PkLens = append(obs.PkLens, pl)
		if pl == 65 {
			nUnc++
		}
	}
	obs.RealVsize = mempool.GetTxVirtualSize(btcutil.NewTx(tx))
	bad = append(bad, feeRateKinds(in.Rate, obs.Fee, obs.RealVsize, nUnc)...)
	kinds := make([]string, len(ins))
	for i, c := range ins {
		kinds[i] = worstKind(c.k)
	}
	bl, bw := chLen, isWitnessType(obs.ChKind)
	if changeAt >= 0 {
		bl, bw = obs.ChLen, txscript.IsWitnessProgram(tx.TxOut[changeAt].PkScript)
	}
	if obs.Fee > in.Rate*specWorstVsize(upperKinds(kinds), outLens, bl)/1000+specDustThreshold(bl, bw) {
		bad = append(bad, "fee_above_bound")
	}
	return obs, bad, nil
}

// sigAndKeyLen reads the signature length (without the sighash byte for the
// ECDSA kinds) and the public key length of a signed input.
func sigAndKeyLen(kind string, ti *wire.TxIn) (int, int) {
	switch kind {
	case "p2pkh":
		// <sig+hashtype> <pubkey>
		s := ti.SignatureScript
		sl := int(s[0])
		return sl - 1, int(s[1+sl])
	case "p2wpkh", "np2wpkh":
		return len(ti.Witness[0]) - 1, len(ti.Witness[1])
	}
	return len(ti.Witness[0]), 0
}

// feeRateKinds: the fee must be no lower than the requested rate applied to
// the real signed virtual size (the rate is per 1000 vbytes, rounded down as
// every fee computation of the wallet rounds).  A shortfall that is explained
// by 32 bytes per input signed with an UNCOMPRESSED key (the size constants
// assume compressed keys; txauthor documents it under BUGS) is reported under
// its own kind.
func feeRateKinds(rate, fee, realVsize, nUnc int64) []string {
	if fee >= rate*realVsize/1000 {
		return nil
	}
	if nUnc > 0 && fee >= rate*(realVsize-32*nUnc)/1000 {
		return []string{"fee_below_rate_uncompressed_key"}
	}
	return []string{"fee_below_rate"}
}

// runChangeSource: the script size the wallet's change source declares to
// txauthor against the script it produces, for one change scope.
func runChangeSource(in c07Input) (c07Obs, []string, error) {
	obs := c07Obs{ChangeIdx: -1, TotalIn: -1, InKinds: []string{}, SigLens: []int{}, PkLens: []int{},
		WIn: []wCoin{}, WOut: []wOutObs{}, Arr: []wCoin{}}
	e, err := newWenv()
	if err != nil {
		return obs, nil, err
	}
	defer e.close()
	var sp *waddrmgr.KeyScope
	if in.ChScope != 0 {
		s := scopeByPurpose[in.ChScope]
		sp = &s
	}
	account := uint32(0)
	switch in.Acct {
	case "imported":
		account = waddrmgr.ImportedAddrAccount
	case "legacy49":
		if _, err := e.scriptFor("np2wpkh-w"); err != nil {
			return obs, nil, err
		}
		account = e.legacyAcct
	}
	size, script, err := e.w.VerifChangeSource(sp, account)
	if err != nil {
		obs.Err = "other:" + err.Error()
		return obs, []string{"unexpected_error"}, nil
	}
	obs.Val = int64(size)
	obs.ChLen = len(script)
	obs.ChKind = expectedChangeType(0, in.ChScope, in.Acct)
	var bad []string
	if len(script) > size {
		// the estimate is taken with the declared size: a longer real script
		// makes the signed transaction larger than estimated
		bad = append(bad, "change_script_longer_than_declared")
	}
	return obs, bad, nil
}

// ---------------------------------------------------------------- generators

var wApis = []string{"create", "send", "fundpsbt"}

func wcase(api string, coins []wCoin, outs []c07Out, rate int64, scope, chscope int, acct string) c07Input {
	if api == "send" {
		chscope = 0 // SendOutputs has no change-scope option
	}
	return c07Input{Kind: "wallet", API: api, WCoins: coins, Outs: outs, Rate: rate, Scope: scope, ChScope: chscope,
		Acct: acct, Strategy: "largest"}
}

func sumOuts(outs []c07Out) int64 {
	var s int64
	for _, o := range outs {
		s += o.V
	}
	return s
}

// distinctValues makes the values of different coin groups pairwise different
// (largest-first selection then has one arrangement up to identical coins).
func distinctValues(cs []wCoin) []wCoin {
	seen := map[int64]bool{}
	for i := range cs {
		for seen[cs[i].V] {
			cs[i].V++
		}
		seen[cs[i].V] = true
	}
	return cs
}

func expandKinds(cs []wCoin) []string {
	var ks []string
	for _, c := range cs {
		for i := 0; i < c.N; i++ {
			ks = append(ks, worstKind(c.K))
		}
	}
	return ks
}

// genWallet emits the wallet-level cases.
func genWallet(r *gen.R, thorough bool, n int, emit func(in c07Input, extra []string) error) error {
	one := func(k string, v int64) wCoin { return wCoin{K: k, V: v, N: 1} }
	// 1. every input kind alone under its own scope, every API
	for _, k := range wKinds {
		for _, api := range wApis {
			outs := pickOuts(r, r.Range(1, 3), 1000)
			in := wcase(api, []wCoin{one(k, sumOuts(outs)+int64(r.Range(3000, 90000)))}, outs, pickRate(r), purposeOfKind[k], 0, "default")
			if in.Rate > 20000 {
				in.Rate = 20000
			}
			if err := emit(in, []string{"systematic:kind-x-api"}); err != nil {
				return err
			}
		}
	}
	// 2. all kinds together, no coin scope, every change scope, every API
	for _, chs := range []int{0, 44, 49, 84, 86} {
		for _, api := range wApis {
			outs := pickOuts(r, r.Range(1, 4), 2000)
			coins := distinctValues([]wCoin{one("p2pkh", int64(r.Range(2000, 9000))), one("np2wpkh", int64(r.Range(2000, 9000))),
				one("p2wpkh", int64(r.Range(2000, 9000))), one("p2tr", int64(r.Range(2000, 9000))),
				{K: wKinds[r.Intn(4)], V: int64(r.Range(500, 1500)), N: r.Range(1, 4)}})
			in := wcase(api, coins, outs, int64(r.Range(1000, 4000)), 0, chs, "default")
			if err := emit(in, []string{"systematic:change-scope-x-api"}); err != nil {
				return err
			}
		}
	}
	// 2b. what the change source declares against what it produces
	for _, chs := range []int{0, 44, 49, 84, 86} {
		for _, acct := range []string{"default", "imported"} {
			if err := emit(c07Input{Kind: "changesrc", ChScope: chs, Acct: acct}, nil); err != nil {
				return err
			}
		}
	}
	// 2c. nested-P2WPKH change: the watch-only account with the traditional BIP-49 schema
	if err := emit(c07Input{Kind: "changesrc", ChScope: 49, Acct: "legacy49"}, nil); err != nil {
		return err
	}
	for i, api := range []string{"create", "fundpsbt", "create", "fundpsbt"} {
		outs := pickOuts(r, r.Range(1, 3), 1000)
		coins := []wCoin{{K: "np2wpkh-w", V: sumOuts(outs)/2 + int64(r.Range(3000, 40000)), N: 2}, one("np2wpkh", 90000)}
		in := wcase(api, coins, outs, int64(r.Range(1000, 6000)), 49, []int{0, 49, 0, 0}[i], "legacy49")
		if i >= 2 {
			in.Sel = []int{1, 0}
		}
		if err := emit(in, []string{"systematic:nested-change"}); err != nil {
			return err
		}
	}
	// 3. explicit selections (constantInputSource): more than needed, in the caller's order
	for i := 0; i < 12; i++ {
		api := wApis[i%3]
		coins := distinctValues([]wCoin{one(wKinds[r.Intn(4)], int64(r.Range(20000, 60000))), one(wKinds[r.Intn(4)], int64(r.Range(3000, 9000))),
			one(wKinds[r.Intn(4)], int64(r.Range(3000, 9000))), one(wKinds[r.Intn(4)], int64(r.Range(600, 2000)))})
		outs := pickOuts(r, r.Range(1, 3), 1000)
		in := wcase(api, coins, outs, int64(r.Range(1000, 5000)), 0, []int{0, 84, 86, 44}[r.Intn(4)], "default")
		in.Sel = r.Perm(4)[:r.Range(1, 4)]
		if i == 0 {
			in.Sel = []int{3, 0, 1, 2}
		}
		if err := emit(in, []string{"systematic:explicit-selection"}); err != nil {
			return err
		}
	}
	// 4. imported keys; the P2PKH coin of an UNCOMPRESSED key (known finding:
	// sized as if the key were compressed)
	for _, k := range []string{"p2pkh-i", "np2wpkh-i", "p2wpkh-i", "p2tr-i"} {
		for _, api := range []string{"create", "fundpsbt"} {
			outs := pickOuts(r, 1, 1000)
			scope := 0
			if r.Chance(1, 2) {
				scope = purposeOfKind[baseKind(k)]
			}
			in := wcase(api, []wCoin{one(k, sumOuts(outs)+int64(r.Range(3000, 90000))), one("p2wpkh", 70000)}, outs,
				int64(r.Range(1000, 5000)), scope, 0, "imported")
			if err := emit(in, []string{"systematic:imported-key"}); err != nil {
				return err
			}
		}
	}
	for i, api := range []string{"create", "create", "fundpsbt", "fundpsbt"} {
		outs := pickOuts(r, 1, 5000)
		coins := []wCoin{one("p2pkh-u", sumOuts(outs)+int64(r.Range(30000, 90000)))}
		scope := []int{44, 0, 44, 0}[i]
		if i == 1 {
			coins = distinctValues(append(coins, one("p2wpkh-i", 3000), one("p2pkh-u", 2500)))
			outs[0].V = coins[0].V + 2000
		}
		in := wcase(api, coins, outs, []int64{1000, 2500, 1000, 10000}[i], scope, 0, "imported")
		if i == 3 {
			in.Sel = []int{0}
		}
		if err := emit(in, []string{"systematic:uncompressed-key"}); err != nil {
			return err
		}
	}
	// 5. >= 253 inputs (the input-count compact-size grows) and the boundary itself
	big := []c07Input{}
	for _, nsel := range []int{252, 253, 254} {
		in := wcase("create", []wCoin{{K: "p2wpkh", V: 1500, N: 260}}, []c07Out{{T: "p2wpkh", V: 100000}}, 1000, 84, 0, "default")
		in.Sel = make([]int, nsel)
		for i := range in.Sel {
			in.Sel[i] = i
		}
		big = append(big, in)
	}
	big = append(big,
		wcase("send", []wCoin{{K: "p2tr", V: 1201, N: 90}, {K: "np2wpkh", V: 1200, N: 90}, {K: "p2wpkh", V: 1199, N: 90}, {K: "p2pkh", V: 1198, N: 60}},
			[]c07Out{{T: "p2tr", V: 150000}, {T: "p2pkh", V: 110000}}, 1000, 0, 0, "default"),
		wcase("create", []wCoin{{K: "p2wpkh", V: 1000, N: 300}}, []c07Out{{T: "p2tr", V: 200000}}, 1000, 84, 86, "default"),
		wcase("fundpsbt", []wCoin{{K: "p2pkh", V: 2000, N: 255}}, []c07Out{{T: "p2wsh", V: 200000}}, 2000, 44, 0, "default"))
	big[len(big)-1].Sel = make([]int, 255)
	for i := range big[len(big)-1].Sel {
		big[len(big)-1].Sel[i] = i
	}
	for _, in := range big {
		if err := emit(in, []string{"systematic:input-count-boundary"}); err != nil {
			return err
		}
	}
	// 6. 251..253 requested outputs (+ change) through the wallet
	for _, nOut := range []int{251, 252, 253} {
		for _, api := range []string{"create", "fundpsbt"} {
			outs := pickOuts(r, nOut, 600)
			t := outTypes[r.Intn(len(outTypes))]
			for i := range outs {
				outs[i].T, outs[i].V = t, outs[0].V
			}
			k := wKinds[r.Intn(4)]
			in := wcase(api, []wCoin{one(k, sumOuts(outs)+int64(r.Range(50000, 200000)))}, outs, 1000, purposeOfKind[k], []int{0, 86, 84}[r.Intn(3)], "default")
			if err := emit(in, []string{"systematic:output-count-boundary"}); err != nil {
				return err
			}
		}
	}
	// 7. refused outputs (txrules.CheckOutput guards SendOutputs and FundPsbt)
	for _, api := range []string{"send", "fundpsbt"} {
		for _, bad := range []c07Out{{T: "p2wpkh", V: -1}, {T: "p2pkh", V: maxSatoshi + 1}, {T: "p2wpkh", V: 293}, {T: "p2pkh", V: 545},
			{T: "p2wpkh", V: 294}, {T: "p2pkh", V: 546}, {T: "p2tr", V: 0}} {
			outs := append(pickOuts(r, r.Range(0, 2), 1000), bad)
			in := wcase(api, []wCoin{one("p2wpkh", 500000)}, outs, 1000, 0, 0, "default")
			if err := emit(in, []string{"systematic:check-output"}); err != nil {
				return err
			}
		}
	}
	// 8. random selector, clear margins
	for i := 0; i < 4; i++ {
		outs := pickOuts(r, r.Range(1, 3), 1000)
		coins := distinctValues([]wCoin{{K: wKinds[r.Intn(4)], V: int64(r.Range(20000, 30000)), N: r.Range(1, 3)},
			{K: wKinds[r.Intn(4)], V: int64(r.Range(20000, 30000)), N: r.Range(1, 3)}})
		in := wcase(wApis[i%3], coins, outs, int64(r.Range(1000, 3000)), 0, 0, "default")
		in.Strategy = "random"
		if i == 3 {
			in.Outs = []c07Out{{T: "p2wpkh", V: 10000000}} // beyond every coin together
		}
		if err := emit(in, []string{"selector:random"}); err != nil {
			return err
		}
	}
	// 9. amounts around the fee / dust boundaries: all the coins are needed and
	// their total is outputs + fee(all of them) + delta
	for i := 0; i < n; i++ {
		api := wApis[r.Intn(3)]
		chs := []int{0, 44, 49, 84, 86}[r.Intn(5)]
		scope := 0
		nc := r.Range(1, 5)
		var coins []wCoin
		pure := r.Chance(1, 3)
		pk := wKinds[r.Intn(4)]
		for j := 0; j < nc; j++ {
			k := wKinds[r.Intn(4)]
			if pure {
				k = pk
			}
			coins = append(coins, wCoin{K: k, V: int64(r.Range(2000, 30000)), N: 1})
		}
		if pure && r.Chance(1, 2) {
			scope = purposeOfKind[pk]
		}
		coins = distinctValues(coins)
		sort.SliceStable(coins, func(a, b int) bool { return coins[a].V > coins[b].V })
		outs := pickOuts(r, r.Range(1, 4), 700)
		rate := pickRate(r)
		if rate > 50000 {
			rate = int64(r.Range(1000, 50000))
		}
		if api == "send" {
			chs = 0
		}
		cht := expectedChangeType(scope, chs, "default")
		dust := specDustThreshold(outScriptLen(cht), isWitnessType(cht))
		deltas := []int64{-1, 0, 1, dust - 1, dust, dust + 1, 10 * dust, -dust, dust / 2, 3 * dust}
		d := deltas[i%len(deltas)]
		fee := rate * specWorstVsize(expandKinds(coins), outLensOf(outs), outScriptLen(cht)) / 1000
		var total int64
		for _, c := range coins {
			total += c.V
		}
		// the smallest coin absorbs the difference, staying the smallest
		want := fee + d + sumOuts(outs)
		diff := total - want
		if diff > 0 {
			outs[0].V += diff
		} else {
			coins[0].V += -diff
		}
		in := wcase(api, coins, outs, rate, scope, chs, "default")
		if r.Chance(1, 4) {
			in.Sel = r.Perm(nc)
		}
		if err := emit(in, []string{fmt.Sprintf("boundary:delta=%s", deltaName(d, dust))}); err != nil {
			return err
		}
	}
	return nil
}
