// Command c07 runs the REAL txauthor.NewUnsignedTransaction +
// txauthor.AddAllInputScripts (with real secp256k1 keys) and the real
// txsizes/txrules helpers on generated inputs, measures the signed virtual
// size with btcd's mempool.GetTxVirtualSize and prints one JSON object per case.
//
// Case kinds:
//
//	author  requested outputs, fee rate, arranged coins, change script type
//	fee     txrules.FeeForSerializeSize(rate, size)
//	est     txsizes.EstimateVirtualSize(counts, outputs, change script size)
//	dust    txrules.IsDustOutput(TxOut{value, script of a type}, DefaultRelayFeePerKb)
//
// The oracle (property C07 stated on what the implementation did) is written
// against an independent reading of the property (own size arithmetic, own dust
// threshold; nothing from txsizes/txrules).
package main

import (
	"bytes"
	"crypto/sha256"
	"encoding/binary"
	"encoding/json"
	"errors"
	"fmt"
	"sort"
	"strings"

	"github.com/btcsuite/btcd/btcec/v2"
	"github.com/btcsuite/btcd/btcec/v2/schnorr"
	"github.com/btcsuite/btcd/btcutil"
	"github.com/btcsuite/btcd/chaincfg"
	"github.com/btcsuite/btcd/chaincfg/chainhash"
	"github.com/btcsuite/btcd/mempool"
	"github.com/btcsuite/btcd/txscript"
	"github.com/btcsuite/btcd/wire"
	"github.com/btcsuite/btcwallet/wallet"
	"github.com/btcsuite/btcwallet/wallet/txauthor"
	"github.com/btcsuite/btcwallet/wallet/txrules"
	"github.com/btcsuite/btcwallet/wallet/txsizes"
	"github.com/btcsuite/btcwallet/wtxmgr"

	"verifharness/internal/core"
	"verifharness/internal/gen"
)

var params = &chaincfg.MainNetParams

var errLoop = errors.New("input source called more than len(coins)+3 times")

// ---------------------------------------------------------------- case types

type c07Out struct {
	T string `json:"t"` // p2pkh | p2sh | p2wpkh | p2wsh | p2tr
	V int64  `json:"v"`
}

type c07Coin struct {
	K   string `json:"k"` // p2pkh | p2tr | p2wpkh | np2wpkh | p2pkh-u (P2PKH of an UNCOMPRESSED key)
	V   int64  `json:"v"`
	Key int    `json:"key"` // private key = sha256("c07" || key)
}

type c07Input struct {
	Kind   string    `json:"kind"` // author | fee | est | dust | checkout | wallet | changesrc
	Outs   []c07Out  `json:"outs"`
	Rate   int64     `json:"rate"`
	Coins  []c07Coin `json:"coins"`
	Change string    `json:"change"` // script type of the change output ("" = size 0, est only)
	Size   int64     `json:"size"`   // fee
	Counts [4]int    `json:"counts"` // est: p2pkh, p2tr, p2wpkh, nested
	Value  int64     `json:"value"`  // dust, checkout
	// author: the input source is wallet.constantInputSource (an explicit
	// selection: always all the coins) instead of wallet.makeInputSource
	Fixed bool `json:"fixed,omitempty"`
	// wallet-level cases (wallet.go)
	API      string  `json:"api,omitempty"`      // create | send | fundpsbt
	WCoins   []wCoin `json:"wcoins,omitempty"`   // coins paid to the wallet
	Scope    int     `json:"scope,omitempty"`    // coin selection key scope purpose (0 = none)
	ChScope  int     `json:"chscope,omitempty"`  // custom change scope purpose (0 = none)
	Acct     string  `json:"acct,omitempty"`     // default | imported
	Strategy string  `json:"strategy,omitempty"` // largest | random
	Sel      []int   `json:"sel,omitempty"`      // explicit selection: indices into the expanded wcoins
}

type c07Obs struct {
	Err       string   `json:"err"` // "" | insufficient | other:<msg>
	Rounds    int      `json:"rounds"`
	NIn       int      `json:"nin"`
	InKinds   []string `json:"in_kinds"`
	SigLens   []int    `json:"sig_lens"`
	PkLens    []int    `json:"pk_lens"` // public key length per signed input (0 for P2TR)
	NOut      int      `json:"nout"`
	EstSize   int64    `json:"est_size"` // txsizes.EstimateVirtualSize for the inputs of the authored tx
	TotalIn   int64    `json:"total_in"`
	Fee       int64    `json:"fee"`
	ChangeIdx int      `json:"change_idx"`
	ChangeAmt int64    `json:"change_amt"`
	RealVsize int64    `json:"real_vsize"`
	Val       int64    `json:"val"`  // fee / est
	Flag      bool     `json:"flag"` // dust
	// wallet-level cases
	WIn    []wCoin   `json:"win"`    // inputs of the transaction, in order (run-length)
	WOut   []wOutObs `json:"wout"`   // outputs of the transaction, in order (run-length)
	Arr    []wCoin   `json:"arr"`    // the arrangement / selection offered to the authoring loop
	ChKind string    `json:"chkind"` // change script type the request asks for
	ChLen  int       `json:"chlen"`  // length of the change script in the transaction (0 if none)
}

type c07Case struct {
	In     c07Input `json:"in"`
	Obs    c07Obs   `json:"obs"`
	Oracle []string `json:"oracle"`
	Tags   []string `json:"tags"`
	Site   string   `json:"site"`
}

// ---------------------------------------------------------------- scripts and keys

var outTypes = []string{"p2pkh", "p2sh", "p2wpkh", "p2wsh", "p2tr"}
var coinKinds = []string{"p2pkh", "p2tr", "p2wpkh", "np2wpkh"}
var changeTypes = []string{"p2pkh", "np2wpkh", "p2wpkh", "p2tr"}

func outScriptLen(t string) int {
	switch t {
	case "p2pkh":
		return 25
	case "p2sh", "np2wpkh":
		return 23
	case "p2wpkh":
		return 22
	case "p2wsh", "p2tr":
		return 34
	case "":
		return 0
	}
	panic("script type " + t)
}

func isWitnessType(t string) bool { return t == "p2wpkh" || t == "p2wsh" || t == "p2tr" }

// outScript builds a standard pkScript of the given type whose hash bytes
// are derived from salt (requested outputs need not be spendable).
func outScript(t string, salt uint64) []byte {
	var seed [16]byte
	copy(seed[:], "c07out")
	binary.BigEndian.PutUint64(seed[8:], salt)
	h := sha256.Sum256(seed[:])
	b := txscript.NewScriptBuilder()
	switch t {
	case "p2pkh":
		b.AddOp(txscript.OP_DUP).AddOp(txscript.OP_HASH160).AddData(h[:20]).
			AddOp(txscript.OP_EQUALVERIFY).AddOp(txscript.OP_CHECKSIG)
	case "p2sh", "np2wpkh":
		b.AddOp(txscript.OP_HASH160).AddData(h[:20]).AddOp(txscript.OP_EQUAL)
	case "p2wpkh":
		b.AddOp(txscript.OP_0).AddData(h[:20])
	case "p2wsh":
		b.AddOp(txscript.OP_0).AddData(h[:32])
	case "p2tr":
		b.AddOp(txscript.OP_1).AddData(h[:32])
	default:
		panic("script type " + t)
	}
	s, err := b.Script()
	if err != nil {
		panic(err)
	}
	if len(s) != outScriptLen(t) {
		panic("script length")
	}
	return s
}

func privKey(id int) *btcec.PrivateKey {
	var seed [16]byte
	copy(seed[:], "c07key")
	binary.BigEndian.PutUint64(seed[8:], uint64(id))
	h := sha256.Sum256(seed[:])
	k, _ := btcec.PrivKeyFromBytes(h[:])
	return k
}

// secrets is the in-memory txauthor.SecretsSource: address -> key.
type secrets struct {
	keys         map[string]*btcec.PrivateKey
	uncompressed map[string]bool
}

func (s *secrets) GetKey(a btcutil.Address) (*btcec.PrivateKey, bool, error) {
	k, ok := s.keys[a.EncodeAddress()]
	if !ok {
		return nil, false, errors.New("no key for " + a.EncodeAddress())
	}
	return k, !s.uncompressed[a.EncodeAddress()], nil
}
func (s *secrets) GetScript(a btcutil.Address) ([]byte, error) {
	return nil, errors.New("no script for " + a.EncodeAddress())
}
func (s *secrets) ChainParams() *chaincfg.Params { return params }

// coinScript builds the pkScript of a coin of kind k owned by key and
// registers the key under the address the signer will look up.
func coinScript(k string, key *btcec.PrivateKey, sec *secrets) []byte {
	pub := key.PubKey()
	h160 := btcutil.Hash160(pub.SerializeCompressed())
	var addr btcutil.Address
	var err error
	switch k {
	case "p2pkh":
		addr, err = btcutil.NewAddressPubKeyHash(h160, params)
	case "p2pkh-u":
		addr, err = btcutil.NewAddressPubKeyHash(btcutil.Hash160(pub.SerializeUncompressed()), params)
		if err == nil {
			if sec.uncompressed == nil {
				sec.uncompressed = map[string]bool{}
			}
			sec.uncompressed[addr.EncodeAddress()] = true
		}
	case "p2wpkh":
		addr, err = btcutil.NewAddressWitnessPubKeyHash(h160, params)
	case "np2wpkh":
		var w btcutil.Address
		w, err = btcutil.NewAddressWitnessPubKeyHash(h160, params)
		if err == nil {
			var prog []byte
			prog, err = txscript.PayToAddrScript(w)
			if err == nil {
				addr, err = btcutil.NewAddressScriptHash(prog, params)
			}
		}
	case "p2tr":
		tk := txscript.ComputeTaprootKeyNoScript(pub)
		addr, err = btcutil.NewAddressTaproot(schnorr.SerializePubKey(tk), params)
	default:
		panic("coin kind " + k)
	}
	if err != nil {
		panic(err)
	}
	sec.keys[addr.EncodeAddress()] = key
	s, err := txscript.PayToAddrScript(addr)
	if err != nil {
		panic(err)
	}
	return s
}

// ---------------------------------------------------------------- independent spec arithmetic (oracle only)

func specVarint(n int64) int64 {
	switch {
	case n < 0xfd:
		return 1
	case n <= 0xffff:
		return 3
	case n <= 0xffffffff:
		return 5
	}
	return 9
}

func specOutSize(scriptLen int) int64 { return 8 + specVarint(int64(scriptLen)) + int64(scriptLen) }

// specWorstVsize: worst-case signed virtual size of a transaction spending the
// given kinds of inputs (72-byte DER signatures, 65-byte Schnorr signatures,
// compressed keys) with the requested outputs plus one change output.
func specWorstVsize(kinds []string, outLens []int, changeLen int) int64 {
	var base, wit int64
	nw := int64(0)
	base = 8 + specVarint(int64(len(kinds))) + specVarint(int64(len(outLens)+1))
	for _, l := range outLens {
		base += specOutSize(l)
	}
	base += specOutSize(changeLen)
	for _, k := range kinds {
		switch k {
		case "p2pkh":
			base += 32 + 4 + 1 + (1 + 73 + 1 + 33) + 4
		case "p2pkh-u":
			base += 32 + 4 + 1 + (1 + 73 + 1 + 65) + 4
		case "p2wpkh":
			base += 32 + 4 + 1 + 4
			wit += 1 + 1 + 73 + 1 + 33
			nw++
		case "np2wpkh":
			base += 32 + 4 + 1 + 23 + 4
			wit += 1 + 1 + 73 + 1 + 33
			nw++
		case "p2tr":
			base += 32 + 4 + 1 + 4
			wit += 1 + 1 + 65
			nw++
		}
	}
	if nw > 0 {
		// marker+flag and the allowance the estimator documents for the
		// witness-count field
		wit += 2 + specVarint(nw)
	}
	return base + (wit+3)/4
}

// upperKinds: for the UPPER bounds the oracle states (fee no higher than the
// rate applied to the worst-case size + one dust threshold; insufficient funds
// only if the coins cannot cover outputs + required fee) the worst case of a
// P2PKH input is the one signed with an uncompressed key - an estimator that
// sizes every P2PKH input for it stays within the property.
func upperKinds(kinds []string) []string {
	out := make([]string, len(kinds))
	for i, k := range kinds {
		if k == "p2pkh" {
			k = "p2pkh-u"
		}
		out[i] = k
	}
	return out
}

func specDustThreshold(scriptLen int, witness bool) int64 {
	t := specOutSize(scriptLen) + 41
	if witness {
		t += 107 / 4
	} else {
		t += 107
	}
	return 3 * t
}

// ---------------------------------------------------------------- running the implementation

type coinInfo struct {
	c      c07Coin
	script []byte
	op     wire.OutPoint
}

func buildCoins(in c07Input, sec *secrets) []coinInfo {
	out := make([]coinInfo, len(in.Coins))
	for i, c := range in.Coins {
		var h chainhash.Hash
		binary.BigEndian.PutUint32(h[:4], uint32(i+1))
		h[31] = 0xc7
		out[i] = coinInfo{c: c, script: coinScript(c.K, privKey(c.Key), sec), op: wire.OutPoint{Hash: h, Index: uint32(i % 3)}}
	}
	return out
}

// realSource is the wallet's own input source over the coins: makeInputSource
// (automatic selection over an arrangement) or constantInputSource (explicit
// selection), reached through the verif hooks of package wallet.  The wrapper
// only counts the calls and stops a loop that no longer makes progress.
func realSource(coins []coinInfo, fixed bool, rounds *int) txauthor.InputSource {
	var src txauthor.InputSource
	if fixed {
		credits := make([]wtxmgr.Credit, len(coins))
		for i, c := range coins {
			credits[i] = wtxmgr.Credit{OutPoint: c.op, Amount: btcutil.Amount(c.c.V), PkScript: c.script}
		}
		src = wallet.VerifConstantInputSource(credits)
	} else {
		wc := make([]wallet.Coin, len(coins))
		for i, c := range coins {
			wc[i] = wallet.Coin{TxOut: wire.TxOut{Value: c.c.V, PkScript: c.script}, OutPoint: c.op}
		}
		src = wallet.VerifMakeInputSource(wc)
	}
	return func(target btcutil.Amount) (btcutil.Amount, []*wire.TxIn, []btcutil.Amount, [][]byte, error) {
		*rounds++
		if *rounds > len(coins)+3 {
			// the property's loop needs at most len(coins)+1 rounds; stop a
			// loop that no longer makes progress instead of hanging
			return 0, nil, nil, nil, errLoop
		}
		return src(target)
	}
}

func buildOuts(in c07Input) []*wire.TxOut {
	outs := make([]*wire.TxOut, len(in.Outs))
	for i, o := range in.Outs {
		outs[i] = wire.NewTxOut(o.V, outScript(o.T, uint64(i)))
	}
	return outs
}

func countKinds(kinds []string) (p2pkh, p2tr, p2wpkh, nested int) {
	for _, k := range kinds {
		switch k {
		case "p2pkh", "p2pkh-u":
			p2pkh++
		case "p2tr":
			p2tr++
		case "p2wpkh":
			p2wpkh++
		case "np2wpkh":
			nested++
		}
	}
	return
}

func runAuthor(in c07Input) (c07Obs, []string, error) {
	obs := newObs()
	var bad []string
	sec := &secrets{keys: map[string]*btcec.PrivateKey{}}
	coins := buildCoins(in, sec)
	byOp := map[wire.OutPoint]coinInfo{}
	for _, c := range coins {
		byOp[c.op] = c
	}
	outs := buildOuts(in)
	reqCopy := make([]wire.TxOut, len(outs))
	for i, o := range outs {
		reqCopy[i] = wire.TxOut{Value: o.Value, PkScript: append([]byte{}, o.PkScript...)}
	}
	changeScript := outScript(in.Change, 1<<40)
	cs := &txauthor.ChangeSource{
		NewScript:  func() ([]byte, error) { return changeScript, nil },
		ScriptSize: len(changeScript),
	}
	atx, err := txauthor.NewUnsignedTransaction(outs, btcutil.Amount(in.Rate), realSource(coins, in.Fixed, &obs.Rounds), cs)

	var sumOut, sumAll int64
	for _, o := range in.Outs {
		sumOut += o.V
	}
	allKinds := make([]string, len(coins))
	for i, c := range coins {
		sumAll += c.c.V
		allKinds[i] = c.c.K
	}
	outLens := make([]int, len(in.Outs))
	for i, o := range in.Outs {
		outLens[i] = outScriptLen(o.T)
	}

	if err != nil {
		var ise txauthor.InputSourceError
		if errors.As(err, &ise) {
			obs.Err = "insufficient"
			// property: insufficient funds only when the offered coins cannot
			// cover the outputs plus the required fee (most lenient reading:
			// all offered coins, fee for the worst-case size of the
			// transaction spending all of them, with a change output).
			// (the fee rounded UP, so that a rounding choice is not demanded)
			need := sumOut + (in.Rate*specWorstVsize(upperKinds(allKinds), outLens, len(changeScript))+999)/1000
			if sumAll >= need {
				bad = append(bad, "spurious_insufficient_funds")
			}
		} else if errors.Is(err, errLoop) {
			obs.Err = "other:" + err.Error()
			bad = append(bad, "loop_not_terminating")
		} else {
			obs.Err = "other:" + err.Error()
			bad = append(bad, "unexpected_error")
		}
		return obs, bad, nil
	}

	tx := atx.Tx
	obs.NIn = len(tx.TxIn)
	obs.NOut = len(tx.TxOut)
	obs.ChangeIdx = atx.ChangeIndex
	obs.TotalIn = int64(atx.TotalInput)

	// inputs: distinct offered coins, reported values/scripts are theirs
	seen := map[wire.OutPoint]bool{}
	var sumIn int64
	var worstKinds []string
	okInputs := len(atx.PrevScripts) == len(tx.TxIn) && len(atx.PrevInputValues) == len(tx.TxIn)
	for i, ti := range tx.TxIn {
		c, ok := byOp[ti.PreviousOutPoint]
		if !ok || seen[ti.PreviousOutPoint] {
			okInputs = false
			continue
		}
		seen[ti.PreviousOutPoint] = true
		sumIn += c.c.V
		obs.InKinds = append(obs.InKinds, baseKind(c.c.K))
		worstKinds = append(worstKinds, c.c.K)
		if okInputs && (int64(atx.PrevInputValues[i]) != c.c.V || !bytes.Equal(atx.PrevScripts[i], c.script)) {
			okInputs = false
		}
	}
	var sumTxOut int64
	for _, o := range tx.TxOut {
		sumTxOut += o.Value
	}
	obs.Fee = sumIn - sumTxOut
	if !okInputs || sumIn != obs.TotalIn || obs.Fee < 0 {
		bad = append(bad, "value_not_conserved")
	}

	// requested outputs unchanged: removing the change output (if any) leaves
	// exactly the requested outputs (compared as a multiset: the property does
	// not fix positions; the position is compared with the model separately).
	rest := make([]*wire.TxOut, 0, len(tx.TxOut))
	changed := false
	switch {
	case atx.ChangeIndex < 0:
		rest = append(rest, tx.TxOut...)
	case atx.ChangeIndex >= len(tx.TxOut):
		changed = true
	default:
		ch := tx.TxOut[atx.ChangeIndex]
		obs.ChangeAmt = ch.Value
		if !bytes.Equal(ch.PkScript, changeScript) {
			changed = true
		}
		rest = append(rest, tx.TxOut[:atx.ChangeIndex]...)
		rest = append(rest, tx.TxOut[atx.ChangeIndex+1:]...)
	}
	if len(rest) != len(reqCopy) {
		changed = true
	} else {
		key := func(v int64, s []byte) string { return fmt.Sprintf("%020d:%x", v, s) }
		a := make([]string, len(rest))
		b := make([]string, len(rest))
		for i := range rest {
			a[i] = key(rest[i].Value, rest[i].PkScript)
			b[i] = key(reqCopy[i].Value, reqCopy[i].PkScript)
		}
		sort.Strings(a)
		sort.Strings(b)
		for i := range a {
			if a[i] != b[i] {
				changed = true
			}
		}
	}
	// the caller's slice itself must not have been modified either
	for i := range outs {
		if outs[i].Value != reqCopy[i].Value || !bytes.Equal(outs[i].PkScript, reqCopy[i].PkScript) {
			changed = true
		}
	}
	if changed {
		bad = append(bad, "outputs_changed")
	}

	// change never zero, never dust
	if atx.ChangeIndex >= 0 && atx.ChangeIndex < len(tx.TxOut) {
		if obs.ChangeAmt <= 0 {
			bad = append(bad, "zero_change")
		} else if obs.ChangeAmt < specDustThreshold(len(changeScript), isWitnessType(in.Change)) {
			bad = append(bad, "dust_change")
		}
	}

	// the implementation's own estimate for the inputs it chose
	p2pkh, p2tr, p2wpkh, nested := countKinds(obs.InKinds)
	obs.EstSize = int64(txsizes.EstimateVirtualSize(p2pkh, p2tr, p2wpkh, nested, outs, len(changeScript)))

	// sign with real keys, verify, measure
	if len(obs.InKinds) == len(tx.TxIn) {
		if err := atx.AddAllInputScripts(sec); err != nil {
			return obs, bad, fmt.Errorf("signing failed: %v", err)
		}
		fetcher, err := txauthor.TXPrevOutFetcher(tx, atx.PrevScripts, atx.PrevInputValues)
		if err != nil {
			return obs, bad, err
		}
		hc := txscript.NewTxSigHashes(tx, fetcher)
		nUnc := int64(0)
		for i, ti := range tx.TxIn {
			vm, err := txscript.NewEngine(atx.PrevScripts[i], tx, i, txscript.StandardVerifyFlags, nil, hc,
				int64(atx.PrevInputValues[i]), fetcher)
			if err == nil {
				err = vm.Execute()
			}
			if err != nil {
				return obs, bad, fmt.Errorf("signed input %d does not verify: %v", i, err)
			}
			sl, pl := sigAndKeyLen(obs.InKinds[i], ti)
			obs.SigLens = append(obs.SigLens, sl)
			obs.PkLens = append(obs.PkLens, pl)
			if pl == 65 {
				nUnc++
			}
		}
		obs.RealVsize = mempool.GetTxVirtualSize(btcutil.NewTx(tx))

		bad = append(bad, feeRateKinds(in.Rate, obs.Fee, obs.RealVsize, nUnc)...)
		bound := in.Rate*specWorstVsize(upperKinds(worstKinds), outLens, len(changeScript))/1000 +
			specDustThreshold(len(changeScript), isWitnessType(in.Change))
		if obs.Fee > bound {
			bad = append(bad, "fee_above_bound")
		}
	}
	return obs, bad, nil
}

func newObs() c07Obs {
	return c07Obs{ChangeIdx: -1, TotalIn: -1, InKinds: []string{}, SigLens: []int{}, PkLens: []int{},
		WIn: []wCoin{}, WOut: []wOutObs{}, Arr: []wCoin{}}
}

func runUnit(in c07Input) (c07Obs, error) {
	obs := newObs()
	switch in.Kind {
	case "fee":
		obs.Val = int64(txrules.FeeForSerializeSize(btcutil.Amount(in.Rate), int(in.Size)))
	case "est":
		outs := buildOuts(in)
		obs.Val = int64(txsizes.EstimateVirtualSize(in.Counts[0], in.Counts[1], in.Counts[2], in.Counts[3],
			outs, outScriptLen(in.Change)))
	case "dust":
		obs.Flag = txrules.IsDustOutput(wire.NewTxOut(in.Value, outScript(in.Change, 7)), txrules.DefaultRelayFeePerKb)
	case "checkout":
		switch err := txrules.CheckOutput(wire.NewTxOut(in.Value, outScript(in.Change, 7)), txrules.DefaultRelayFeePerKb); {
		case err == nil:
			obs.Val = 0
		case errors.Is(err, txrules.ErrAmountNegative):
			obs.Val = 1
		case errors.Is(err, txrules.ErrAmountExceedsMax):
			obs.Val = 2
		case errors.Is(err, txrules.ErrOutputIsDust):
			obs.Val = 3
		default:
			obs.Val = 4
		}
	default:
		return obs, errors.New("unknown case kind " + in.Kind)
	}
	return obs, nil
}

// ---------------------------------------------------------------- tags

func bucket(n int) string {
	switch {
	case n == 0:
		return "0"
	case n <= 3:
		return "1-3"
	case n <= 20:
		return "4-20"
	case n < 250:
		return "21-249"
	case n <= 255:
		return fmt.Sprint(n)
	}
	return ">255"
}

func tagsOf(in c07Input, obs c07Obs, extra []string) ([]string, string) {
	tags := append([]string{"kind:" + in.Kind}, extra...)
	site := in.Kind
	if in.Kind == "wallet" {
		return walletTags(in, obs, tags)
	}
	if in.Kind == "changesrc" {
		return append(tags, fmt.Sprintf("chscope:%d", in.ChScope), "acct:"+in.Acct), "changesrc"
	}
	if in.Kind != "author" {
		return tags, site
	}
	if in.Fixed {
		tags = append(tags, "source:constantInputSource")
	} else {
		tags = append(tags, "source:makeInputSource")
	}
	tags = append(tags, "nout:"+bucket(len(in.Outs)), "change:"+in.Change, fmt.Sprintf("ncoins:%s", bucket(len(in.Coins))))
	switch {
	case in.Rate == 1000:
		tags = append(tags, "rate:floor")
	case in.Rate < 10000:
		tags = append(tags, "rate:<1e4")
	case in.Rate < 100000:
		tags = append(tags, "rate:<1e5")
	default:
		tags = append(tags, "rate:>=1e5")
	}
	kinds := map[string]bool{}
	unc := false
	for _, c := range in.Coins {
		kinds[c.K] = true
		unc = unc || c.K == "p2pkh-u"
	}
	if len(kinds) > 1 {
		tags = append(tags, "coins:mixed")
	} else {
		for k := range kinds {
			tags = append(tags, "coins:pure-"+k)
		}
	}
	switch {
	case obs.Err == "insufficient":
		tags = append(tags, "outcome:insufficient")
	case obs.Err != "":
		tags = append(tags, "outcome:error")
	case obs.ChangeIdx >= 0:
		tags = append(tags, "outcome:change")
	default:
		tags = append(tags, "outcome:nochange")
	}
	tags = append(tags, fmt.Sprintf("rounds:%d", obs.Rounds))
	if obs.Err == "" {
		tags = append(tags, fmt.Sprintf("inputs_used:%s", bucket(obs.NIn)))
	}
	// site: what a recorded finding can key on
	site = "general"
	switch {
	case len(in.Outs) == 252:
		site = "outputs+change=253"
	case len(in.Outs) == 65535:
		site = "outputs+change=65536"
	case len(in.Coins) == 1 && in.Coins[0].K == "p2tr":
		site = "single-p2tr-coin"
	}
	if unc {
		tags = append(tags, "uncompressed-key-coin")
	}
	return tags, site
}

func walletTags(in c07Input, obs c07Obs, tags []string) ([]string, string) {
	sel := "auto-" + in.Strategy
	if len(in.Sel) > 0 {
		sel = "explicit"
	}
	tags = append(tags, "api:"+in.API, "select:"+sel, fmt.Sprintf("scope:%d", in.Scope), fmt.Sprintf("chscope:%d", in.ChScope),
		"acct:"+in.Acct, "change:"+obs.ChKind, "nout:"+bucket(len(in.Outs)))
	n := 0
	kinds := map[string]bool{}
	for _, c := range in.WCoins {
		n += c.N
		kinds["wcoin:"+c.K] = true
	}
	for k := range kinds {
		tags = append(tags, k)
	}
	tags = append(tags, "ncoins:"+bucket(n))
	switch {
	case obs.Err == "insufficient":
		tags = append(tags, "outcome:insufficient")
	case strings.HasPrefix(obs.Err, "refused:"):
		tags = append(tags, "outcome:"+obs.Err)
	case obs.Err != "":
		tags = append(tags, "outcome:error")
	case obs.ChangeIdx >= 0:
		tags = append(tags, "outcome:change", fmt.Sprintf("change_moved:%v", obs.ChangeIdx != len(in.Outs)))
	default:
		tags = append(tags, "outcome:nochange")
	}
	if obs.Err == "" {
		tags = append(tags, "inputs_used:"+bucket(obs.NIn))
		for _, p := range obs.PkLens {
			if p == 65 {
				tags = append(tags, "signed-with-uncompressed-key")
				break
			}
		}
	}
	return tags, "wallet:" + in.API
}

// ---------------------------------------------------------------- generators

func pickOuts(r *gen.R, n int, minV int64) []c07Out {
	outs := make([]c07Out, n)
	for i := range outs {
		outs[i] = c07Out{T: outTypes[r.Intn(len(outTypes))], V: minV + int64(r.Range(0, 5000))}
	}
	return outs
}

func outLensOf(outs []c07Out) []int {
	l := make([]int, len(outs))
	for i, o := range outs {
		l[i] = outScriptLen(o.T)
	}
	return l
}

func kindsOf(cs []c07Coin) []string {
	k := make([]string, len(cs))
	for i, c := range cs {
		k[i] = c.K
	}
	return k
}

func pickRate(r *gen.R) int64 {
	switch r.Pick(3, 3, 2, 2, 1) {
	case 0:
		return 1000
	case 1:
		return int64(r.Range(1000, 5000))
	case 2:
		return int64(r.Range(5000, 100000))
	case 3:
		return int64(r.Range(100000, 1000000))
	}
	return 1000000
}

// boundaryCase: n coins whose total is outputs + fee(all n coins) + delta, the
// first n-1 together staying below the outputs, so every coin is consumed.
func boundaryCase(r *gen.R, nOut, nCoins int, change string, rate int64, delta int64, keyBase *int) c07Input {
	coins := make([]c07Coin, nCoins)
	var pre int64
	for i := 0; i < nCoins-1; i++ {
		*keyBase++
		coins[i] = c07Coin{K: coinKinds[r.Intn(4)], V: int64(r.Range(600, 60000)), Key: *keyBase}
		pre += coins[i].V
	}
	*keyBase++
	coins[nCoins-1] = c07Coin{K: coinKinds[r.Intn(4)], Key: *keyBase}
	outs := pickOuts(r, nOut, 600)
	var sumOut int64
	for _, o := range outs {
		sumOut += o.V
	}
	if nOut > 0 && sumOut <= pre {
		outs[0].V += pre - sumOut + int64(r.Range(1, 5000))
		sumOut = 0
		for _, o := range outs {
			sumOut += o.V
		}
	}
	if nOut == 0 {
		// no requested outputs: a single coin pays only the fee
		coins = coins[nCoins-1:]
		pre = 0
	}
	fee := rate * specWorstVsize(kindsOf(coins), outLensOf(outs), outScriptLen(change)) / 1000
	last := sumOut + fee + delta - pre
	if last < 1 {
		last = 1
	}
	coins[len(coins)-1].V = last
	return c07Input{Kind: "author", Outs: outs, Rate: rate, Coins: coins, Change: change}
}

// ladderCase: every round of the loop pulls exactly one more coin: coin j+1
// lifts the total just above outputs + fee(first j coins) but (except for the
// last coin) not above outputs + fee(first j+1 coins).
func ladderCase(r *gen.R, nOut, nCoins int, change string, rate int64, last int64, keyBase *int) c07Input {
	outs := pickOuts(r, nOut, 600)
	var sumOut int64
	for _, o := range outs {
		sumOut += o.V
	}
	lens := outLensOf(outs)
	chl := outScriptLen(change)
	coins := make([]c07Coin, 0, nCoins)
	var total int64
	// target of the first round: the smallest single-input guess
	target := sumOut + rate*specWorstVsize([]string{"p2tr"}, lens, chl)/1000
	for j := 0; j < nCoins; j++ {
		*keyBase++
		k := coinKinds[r.Intn(4)]
		if j == 0 && k == "p2tr" {
			k = "p2wpkh"
		}
		coins = append(coins, c07Coin{K: k, Key: *keyBase})
		own := sumOut + rate*specWorstVsize(kindsOf(coins), lens, chl)/1000
		v := target - total
		if j == nCoins-1 {
			v = own - total + last
		} else if own-target > 1 {
			v += int64(r.Range(0, int(minI64(own-target-1, 50))))
		}
		if v < 0 {
			v = 0
		}
		coins[j].V = v
		total += v
		target = own
	}
	return c07Input{Kind: "author", Outs: outs, Rate: rate, Coins: coins, Change: change}
}

func minI64(a, b int64) int64 {
	if a < b {
		return a
	}
	return b
}

func randomCase(r *gen.R, keyBase *int) c07Input {
	nOut := []int{0, 1, 1, 2, 2, 3, 5, 8, 13, 30}[r.Intn(10)]
	outs := pickOuts(r, nOut, int64(r.Range(300, 3000)))
	nCoins := r.Range(0, 12)
	coins := make([]c07Coin, nCoins)
	pure := r.Chance(1, 4)
	pk := coinKinds[r.Intn(4)]
	for i := range coins {
		*keyBase++
		k := coinKinds[r.Intn(4)]
		if pure {
			k = pk
		}
		var v int64
		switch r.Pick(4, 3, 2, 1) {
		case 0:
			v = int64(r.Range(200, 3000))
		case 1:
			v = int64(r.Range(3000, 30000))
		case 2:
			v = int64(r.Range(30000, 3000000))
		case 3:
			v = int64(r.Range(0, 300))
		}
		coins[i] = c07Coin{K: k, V: v, Key: *keyBase}
	}
	return c07Input{Kind: "author", Outs: outs, Rate: pickRate(r), Coins: coins, Change: changeTypes[r.Intn(4)]}
}

func main() {
	core.Main("c07", nil, func(c *core.Common, out *core.Emitter) error {
		emit := func(in c07Input, extra []string) error {
			if in.Outs == nil {
				in.Outs = []c07Out{}
			}
			if in.Coins == nil {
				in.Coins = []c07Coin{}
			}
			var obs c07Obs
			var bad []string
			var err error
			switch in.Kind {
			case "author":
				obs, bad, err = runAuthor(in)
			case "wallet":
				obs, bad, err = runWallet(in)
			case "changesrc":
				obs, bad, err = runChangeSource(in)
			default:
				obs, err = runUnit(in)
				// no negative and no overflowing amount passes the guard of the entry points
				if err == nil && in.Kind == "checkout" && obs.Val == 0 && (in.Value < 0 || in.Value > maxSatoshi) {
					bad = append(bad, "amount_out_of_range")
				}
			}
			if err != nil {
				return err
			}
			tags, site := tagsOf(in, obs, extra)
			out.Emit(c07Case{In: in, Obs: obs, Oracle: append([]string{}, bad...), Tags: tags, Site: site})
			return nil
		}
		if c.Replay != "" {
			return core.ReadReplay(c.Replay, func(raw json.RawMessage) error {
				var cs struct {
					In c07Input `json:"in"`
				}
				if err := json.Unmarshal(raw, &cs); err != nil {
					return err
				}
				if cs.In.Outs == nil {
					cs.In.Outs = []c07Out{}
				}
				if cs.In.Coins == nil {
					cs.In.Coins = []c07Coin{}
				}
				return emit(cs.In, []string{"replay"})
			})
		}
		thorough := c.Tier == "thorough"
		r := gen.New(c.Seed, 7)
		keyBase := 0

		// 1. compact-size boundary of the output count, every change type,
		// every input kind, the relay floor and one higher rate.
		for _, nOut := range []int{0, 1, 2, 3, 251, 252, 253, 254} {
			for _, ch := range changeTypes {
				for _, ck := range coinKinds {
					for _, rate := range []int64{1000, pickRate(r)} {
						outs := pickOuts(r, nOut, 600)
						if nOut >= 250 && !thorough {
							// keep the quick tier small: equal outputs in a big case (the
							// mixed-kind cases of 1b and the thorough tier mix them)
							t := outTypes[r.Intn(len(outTypes))]
							for i := range outs {
								outs[i].T = t
								outs[i].V = outs[0].V
							}
						}
						var sumOut int64
						for _, o := range outs {
							sumOut += o.V
						}
						keyBase++
						in := c07Input{Kind: "author", Outs: outs, Rate: rate, Change: ch,
							Coins: []c07Coin{{K: ck, V: sumOut + 2000*rate + int64(r.Range(0, 100000)), Key: keyBase}}}
						if err := emit(in, []string{"systematic:count-boundary"}); err != nil {
							return err
						}
					}
				}
			}
		}
		// 1b. the same boundary with several coins of mixed kinds
		for _, nOut := range []int{251, 252, 253} {
			for i := 0; i < 4; i++ {
				in := boundaryCase(r, nOut, r.Range(2, 5), changeTypes[i], pickRate(r), int64(r.Range(1000, 100000)), &keyBase)
				if err := emit(in, []string{"systematic:count-boundary-mixed"}); err != nil {
					return err
				}
			}
		}
		if thorough {
			// 65535 requested outputs + change = 65536 (second compact-size boundary)
			for _, nOut := range []int{65534, 65535} {
				outs := make([]c07Out, nOut)
				var sumOut int64
				for i := range outs {
					outs[i] = c07Out{T: "p2wpkh", V: 600}
					sumOut += 600
				}
				keyBase++
				in := c07Input{Kind: "author", Outs: outs, Rate: 1000, Change: "p2wpkh",
					Coins: []c07Coin{{K: "p2wpkh", V: sumOut + 10000000, Key: keyBase}}}
				if err := emit(in, []string{"systematic:count-boundary-65536"}); err != nil {
					return err
				}
			}
		}
		// 2. amounts around the fee / dust boundaries
		nb := c.N / 3
		for i := 0; i < nb; i++ {
			ch := changeTypes[r.Intn(4)]
			dust := specDustThreshold(outScriptLen(ch), isWitnessType(ch))
			deltas := []int64{-1, 0, 1, dust - 1, dust, dust + 1, 10 * dust, -dust, dust / 2}
			d := deltas[i%len(deltas)]
			nOut := []int{0, 1, 1, 2, 3, 6}[r.Intn(6)]
			in := boundaryCase(r, nOut, r.Range(1, 7), ch, pickRate(r), d, &keyBase)
			if err := emit(in, []string{fmt.Sprintf("boundary:delta=%s", deltaName(d, dust))}); err != nil {
				return err
			}
		}
		// 2b. a single coin of each kind in the window between the fee for
		// its own transaction and the fee of the initial (one P2WPKH input) guess
		for _, ck := range coinKinds {
			for _, ch := range changeTypes {
				for _, rate := range []int64{1000, 25000} {
					outs := pickOuts(r, r.Range(1, 3), 1000)
					var sumOut int64
					for _, o := range outs {
						sumOut += o.V
					}
					own := rate * specWorstVsize([]string{ck}, outLensOf(outs), outScriptLen(ch)) / 1000
					keyBase++
					in := c07Input{Kind: "author", Outs: outs, Rate: rate, Change: ch,
						Coins: []c07Coin{{K: ck, V: sumOut + own + int64(r.Range(0, 3)), Key: keyBase}}}
					if err := emit(in, []string{"boundary:single-coin-own-fee"}); err != nil {
						return err
					}
				}
			}
		}
		// 2c. ladders: one more coin per round
		nl := c.N / 6
		for i := 0; i < nl; i++ {
			ch := changeTypes[r.Intn(4)]
			dust := specDustThreshold(outScriptLen(ch), isWitnessType(ch))
			last := []int64{-1, 0, dust - 1, dust, 5 * dust}[i%5]
			in := ladderCase(r, []int{0, 1, 2, 4}[r.Intn(4)], r.Range(2, 6), ch, pickRate(r), last, &keyBase)
			if err := emit(in, []string{"ladder"}); err != nil {
				return err
			}
		}
		// 3. random
		for i := 0; i < c.N-nb-nl; i++ {
			if err := emit(randomCase(r, &keyBase), []string{"random"}); err != nil {
				return err
			}
		}
		// 3b. the same authoring loop over the wallet's OTHER input source
		// (constantInputSource: an explicit selection is spent whole), and coins
		// held by an uncompressed key
		for i := 0; i < c.N/8; i++ {
			in := randomCase(r, &keyBase)
			in.Fixed = true
			if len(in.Coins) > 6 {
				in.Coins = in.Coins[:6]
			}
			if err := emit(in, []string{"random-fixed"}); err != nil {
				return err
			}
		}
		for i := 0; i < 6; i++ {
			ch := changeTypes[r.Intn(4)]
			in := boundaryCase(r, r.Range(1, 3), r.Range(1, 3), ch, []int64{1000, 1000, 5000}[i%3], int64(r.Range(1000, 50000)), &keyBase)
			in.Coins[len(in.Coins)-1].K = "p2pkh-u"
			in.Coins[len(in.Coins)-1].V += 40 * in.Rate / 1000 * int64(len(in.Coins))
			if i%2 == 1 {
				for j := range in.Coins {
					if in.Coins[j].K == "p2pkh" {
						in.Coins[j].K = "p2pkh-u"
					}
				}
			}
			in.Fixed = i >= 4
			if err := emit(in, []string{"systematic:uncompressed-key"}); err != nil {
				return err
			}
		}
		// 3c. wallet-level cases (wallet.go)
		nw := c.N / 8
		if err := genWallet(gen.New(c.Seed, 77), thorough, nw, emit); err != nil {
			return err
		}
		// 4. unit cases of the helpers
		nu := c.N
		for i := 0; i < nu; i++ {
			switch i % 4 {
			case 0:
				size := int64(r.Range(0, 400))
				if r.Chance(1, 4) {
					size = int64(r.Range(400, 120000))
				}
				rate := pickRate(r)
				if r.Chance(1, 6) {
					rate = int64(r.Range(0, 999))
				}
				if r.Chance(1, 30) {
					rate = 2100000000000000/maxI64(size, 1) + int64(r.Range(-3, 3))
				}
				if err := emit(c07Input{Kind: "fee", Rate: rate, Size: size}, nil); err != nil {
					return err
				}
			case 1:
				var cnt [4]int
				for j := range cnt {
					cnt[j] = []int{0, 0, 1, 2, 3, 5}[r.Intn(6)]
				}
				if r.Chance(1, 10) {
					cnt[r.Intn(4)] = r.Range(250, 256)
				}
				nOut := []int{0, 1, 2, 5, 251, 252, 253}[r.Intn(7)]
				ch := append([]string{""}, changeTypes...)[r.Intn(5)]
				if err := emit(c07Input{Kind: "est", Counts: cnt, Outs: pickOuts(r, nOut, 0), Change: ch}, nil); err != nil {
					return err
				}
			case 2:
				ch := append([]string{"p2wsh", "p2sh"}, changeTypes...)[r.Intn(6)]
				dust := specDustThreshold(outScriptLen(ch), isWitnessType(ch))
				v := dust + int64(r.Range(-3, 3))
				if r.Chance(1, 4) {
					v = int64(r.Range(0, 2000))
				}
				if err := emit(c07Input{Kind: "dust", Value: v, Change: ch}, nil); err != nil {
					return err
				}
			case 3:
				ch := append([]string{"p2wsh", "p2sh"}, changeTypes...)[r.Intn(6)]
				dust := specDustThreshold(outScriptLen(ch), isWitnessType(ch))
				v := dust + int64(r.Range(-3, 3))
				switch r.Pick(4, 2, 2, 2) {
				case 1:
					v = int64(r.Range(-5, 5))
				case 2:
					v = maxSatoshi + int64(r.Range(-3, 3))
				case 3:
					v = int64(r.Range(0, 100000))
				}
				if err := emit(c07Input{Kind: "checkout", Value: v, Change: ch}, nil); err != nil {
					return err
				}
			}
		}
		return nil
	})
}

func deltaName(d, dust int64) string {
	switch {
	case d == -dust:
		return "-dust"
	case d == -1:
		return "-1"
	case d == 0:
		return "0"
	case d == 1:
		return "+1"
	case d == dust/2:
		return "dust/2"
	case d == dust-1:
		return "dust-1"
	case d == dust:
		return "dust"
	case d == dust+1:
		return "dust+1"
	}
	return "10dust"
}

func maxI64(a, b int64) int64 {
	if a > b {
		return a
	}
	return b
}
