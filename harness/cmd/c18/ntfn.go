// Wallet-side notification server (wallet/notifications.go) under a slow
// consumer and bursts.  It is NOT a queue: every notify* function sends on the
// clients' UNBUFFERED channels while holding the server mutex (and, for block
// notifications, inside the wallet's database write transaction), so the
// hand-over is a rendezvous.  What the harness judges is therefore only
// the part of C18 that can hold for it - order, nothing lost, nothing
// duplicated, per client, and that Done() closes the client's channel; how
// long the producer waited for the consumer is RECORDED
// (completed_without_consumer, max_send_us) but is no oracle kind: property
// C18 is about the chain backends' queues.
//
// Driving: a real wallet (internal/walletenv); the producer goroutine
// processes BlockConnected notifications for heights 1..N exactly as
// handleChainNotifications does (wallet.VerifConnectBlock = one
// walletdb.Update around connectBlock, which calls notifyAttachedBlock);
// one or two clients registered through the public
// NtfnServer.TransactionNotifications() read with seeded pauses; client 0
// may call Done() in the middle of the burst.
package main

import (
	"encoding/binary"
	"fmt"
	"runtime"
	"sync"
	"time"

	"github.com/btcsuite/btcwallet/wallet"
	"github.com/btcsuite/btcwallet/wtxmgr"

	"verifharness/internal/gen"
	"verifharness/internal/walletenv"
)

const ntfnNoConsumerWait = 25 * time.Millisecond

// ntfnRunCase returns one observation per client.
func ntfnRunCase(in c18Input) []c18Obs {
	nclients := in.Clients
	if nclients < 1 {
		nclients = 1
	}
	obs := make([]c18Obs, nclients)
	fail := func(err error) []c18Obs {
		obs[0].StartErr = err.Error()
		return obs[:1]
	}
	seed := make([]byte, 32)
	binary.BigEndian.PutUint64(seed, uint64(in.DSeed)+1)
	binary.BigEndian.PutUint64(seed[8:], 0x633138)
	env, err := walletenv.New(seed, time.Unix(1500000000, 0), 0, nil)
	if err != nil {
		return fail(err)
	}
	defer env.Close()
	w := env.W

	clients := make([]wallet.TransactionNotificationsClient, nclients)
	for i := range clients {
		clients[i] = w.NtfnServer.TransactionNotifications()
	}
	logs := make([]*c18Log, nclients)
	for i := range logs {
		logs[i] = &c18Log{}
	}
	var mu sync.Mutex // one lock for all logs: a send is logged in every client's log
	sawClosed := make([]bool, nclients)
	logAll := func(e byte, v int) {
		for i, l := range logs {
			if !sawClosed[i] { // a client whose channel is closed is no longer part of the hand-over
				l.add(e, v)
			}
		}
	}

	var wg sync.WaitGroup
	var blocked bool
	var sendErr error
	var maxSend int64
	var completed int // sends that returned
	startConsumers := make(chan struct{})
	pr := gen.New(in.DSeed, 1821)
	pause := func(g *gen.R, max int) {
		if max <= 0 {
			return
		}
		switch g.Intn(3) {
		case 0:
		case 1:
			runtime.Gosched()
		default:
			time.Sleep(time.Duration(g.Range(1, max)) * time.Microsecond)
		}
	}
	wg.Add(1)
	go func() { // producer: the wallet's chain-notification handler
		defer wg.Done()
		for h := 1; h <= in.N; h++ {
			pause(pr, in.PD)
			bm := wtxmgr.BlockMeta{
				Block: wtxmgr.Block{Hash: *sqHash(int32(in.Base + h)), Height: int32(h)},
				Time:  time.Unix(1600000000+int64(h), 0),
			}
			mu.Lock()
			logAll('s', in.Base+h)
			mu.Unlock()
			t0 := time.Now()
			var err error
			if !within(sqLongWait, func() { err = w.VerifConnectBlock(bm) }) {
				blocked = true
				return
			}
			if err != nil {
				sendErr = err
				return
			}
			mu.Lock()
			completed++
			if d := time.Since(t0).Microseconds(); d > maxSend {
				maxSend = d
			}
			mu.Unlock()
		}
	}()
	// burst with no consumer: how many hand-overs complete?
	time.Sleep(ntfnNoConsumerWait)
	mu.Lock()
	noConsumer := completed
	mu.Unlock()
	close(startConsumers)

	for ci := range clients {
		wg.Add(1)
		go func(ci int) {
			defer wg.Done()
			<-startConsumers
			cr := gen.New(in.DSeed, int64(1822+ci))
			o, lg := &obs[ci], logs[ci]
			cd := in.CD
			if ci == 1 {
				cd = in.CD2
			}
			doneCalled := false
			for got := 0; got < in.N || doneCalled; {
				pause(cr, cd)
				t := time.NewTimer(sqLongWait)
				select {
				case n, ok := <-clients[ci].C:
					t.Stop()
					mu.Lock()
					if !ok {
						lg.add('z', 0)
						sawClosed[ci] = true
						mu.Unlock()
						return
					}
					v := -2
					if n != nil && len(n.AttachedBlocks) == 1 && n.AttachedBlocks[0].Hash != nil {
						h := int(n.AttachedBlocks[0].Height)
						if *n.AttachedBlocks[0].Hash == *sqHash(int32(in.Base + h)) {
							v = in.Base + h
						}
					}
					if v >= 0 {
						lg.add('r', v)
					} else {
						lg.add('u', v)
					}
					got++
					if doneCalled {
						o.PostStop++
					}
					mu.Unlock()
					if ci == 0 && in.StopAt > 0 && got == in.StopAt && !doneCalled {
						mu.Lock()
						lg.add('x', 0)
						o.StopPend = 1 // at least the hand-over in flight may be pending
						mu.Unlock()
						clients[ci].Done()
						doneCalled = true
					}
				case <-t.C:
					if doneCalled {
						o.Leak = true // Done() was called, the channel was never closed
					} else {
						o.RecvTimeout = true
					}
					return
				}
			}
		}(ci)
	}
	wg.Wait()
	for ci := range obs {
		o := &obs[ci]
		o.Ev, o.Val = string(logs[ci].ev), logs[ci].val
		o.Blocked = blocked
		o.MaxSendUs = maxSend
		o.NoConsumerDone = &noConsumer
		o.MaxPend = 1
		if sendErr != nil {
			o.StartErr = fmt.Sprintf("connectBlock: %v", sendErr)
		}
	}
	// client(s) still registered: Done() must close the channel
	for ci := range clients {
		if ci == 0 && in.StopAt > 0 {
			continue
		}
		clients[ci].Done()
		// Done() drains concurrently; the closure must become visible
		ok := within(sqLongWait, func() {
			for range clients[ci].C {
			}
		})
		mu.Lock()
		if ok {
			sawClosed[ci] = true
			logs[ci].add('x', 0)
			logs[ci].add('z', 0)
			obs[ci].Ev, obs[ci].Val = string(logs[ci].ev), logs[ci].val
		} else {
			obs[ci].Leak = true
		}
		mu.Unlock()
	}
	return obs
}

func ntfnOracle(o c18Obs) []string {
	// sends that were begun but not received because the client said Done are
	// not lost; everything else is the slice-queue oracle
	return sqOracle(o)
}

func ntfnTags(in c18Input, o c18Obs, ci int, extra ...string) []string {
	tags := append([]string{}, extra...)
	tags = append(tags, "queue=ntfn", fmt.Sprintf("mode=ntfn/clients=%d", in.Clients), fmt.Sprintf("ntfn_client=%d", ci))
	if o.NoConsumerDone != nil {
		if *o.NoConsumerDone == 0 && in.N > 0 {
			tags = append(tags, "ntfn_producer_waits_for_consumer")
		} else if in.N > 0 {
			tags = append(tags, "ntfn_producer_ran_ahead")
		}
	}
	if in.StopAt > 0 {
		tags = append(tags, "ntfn_done_mid_burst")
	}
	return tags
}

func ntfnSystematic() []c18Input {
	return []c18Input{
		{Q: "ntfn", Mode: "concurrent", Base: 100, N: 1, Clients: 1, DSeed: 1},
		{Q: "ntfn", Mode: "concurrent", Base: 200, N: 12, Clients: 1, CD: 300, DSeed: 2},
		{Q: "ntfn", Mode: "concurrent", Base: 300, N: 12, Clients: 1, PD: 300, DSeed: 3},
		{Q: "ntfn", Mode: "concurrent", Base: 400, N: 12, Clients: 2, CD: 300, CD2: 0, DSeed: 4},
		{Q: "ntfn", Mode: "concurrent", Base: 500, N: 12, Clients: 2, CD: 0, CD2: 200, DSeed: 5, StopAt: 5},
		{Q: "ntfn", Mode: "concurrent", Base: 600, N: 10, Clients: 1, CD: 100, DSeed: 6, StopAt: 4},
	}
}

func ntfnRandom(r *gen.R, n int) []c18Input {
	var ins []c18Input
	for i := 0; i < n; i++ {
		in := c18Input{Q: "ntfn", Mode: "concurrent", Base: r.Range(1, 9) * 1000, N: r.Range(1, 30),
			Clients: r.Range(1, 2), DSeed: int64(r.Intn(1 << 30))}
		switch r.Pick(3, 3, 2) {
		case 0:
			in.CD, in.CD2 = r.Range(20, 400), r.Range(0, 100)
		case 1:
			in.PD = r.Range(20, 400)
		default:
			in.PD, in.CD, in.CD2 = r.Range(0, 100), r.Range(0, 100), r.Range(0, 200)
		}
		if r.Chance(1, 3) {
			in.StopAt = r.Range(1, in.N)
		}
		ins = append(ins, in)
	}
	return ins
}
