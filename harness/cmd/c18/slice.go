// Slice-queue part of the C18 harness: drives the REAL inline notification
// queues of the btcd backend (chain.RPCClient.handler, chain/btcd.go) and of
// the neutrino backend (chain.NeutrinoClient.notificationHandler,
// chain/neutrino.go).
//
// How the loops are started (nothing of them is copied or simulated):
//
//   - btcd: handler() begins with c.GetBestBlock(); without a connection
//     rpcclient answers ErrClientNotConnected and handler() logs, calls Stop
//     and returns BEFORE its loop, and the loop is inline in handler(), so it
//     cannot be entered through a hook either.  The harness therefore runs a
//     minimal btcd stand-in on the loopback interface of this process (a
//     websocket JSON-RPC endpoint that answers getcurrentnet and getbestblock,
//     see fakeBtcd) and calls the real chain.NewRPCClient + Start(): Connect,
//     the network check, `go c.handler()`, GetBestBlock and the loop are the
//     production path.  rpcclient delivers ClientConnected through the real
//     OnClientConnected callback.
//   - neutrino: NeutrinoClient.CS is the exported interface
//     chain.NeutrinoChainService; a stub (only Start, Stop, BestBlock,
//     IsCurrent are ever called on this path) lets the real Start() launch the
//     real notificationHandler() and the real ClientConnected goroutine.
//
// Notifications are handed over through the backends' own callbacks
// (onBlockConnected / onBlockDisconnected, exported under the verif tag by
// /repo/chain/verif_hooks_c18.go): `select { case enqueueNotification <- n:
// case <-quit: }`, so the harness knows when a hand-over has completed.
// In the btcd "wire" mode they travel as JSON notifications through the
// websocket and rpcclient's dispatcher instead.
//
// A panic inside a handler goroutine kills the process; the slice cases are
// therefore run in a child process (same binary, -slice-child), and the
// parent attributes a crash to the input the child was running.
package main

import (
	"bufio"
	"bytes"
	"encoding/json"
	"fmt"
	"io"
	"net"
	"net/http"
	"os"
	"os/exec"
	"runtime"
	"strings"
	"sync"
	"sync/atomic"
	"time"

	"github.com/btcsuite/btcd/chaincfg"
	"github.com/btcsuite/btcd/chaincfg/chainhash"
	"github.com/btcsuite/btcwallet/chain"
	"github.com/btcsuite/websocket"
	"github.com/lightninglabs/neutrino/headerfs"

	"verifharness/internal/gen"
)

const (
	sqLongWait  = 10 * time.Second      // a wait that must succeed
	sqShortWait = 12 * time.Millisecond // a wait that must not succeed
)

// ---------------------------------------------------------------- backends

type sqBackend interface {
	start(b0 int32) error
	send(kind byte, v int32) // returns when the callback returned
	out() <-chan interface{}
	blockStamp() (int32, error)
	stop()
	wait()
}

func sqHash(v int32) *chainhash.Hash {
	h := chainhash.HashH([]byte(fmt.Sprintf("c18-block-%d", v)))
	return &h
}

// within runs f in its own goroutine and reports whether it finished in time.
func within(d time.Duration, f func()) bool {
	done := make(chan struct{})
	go func() { f(); close(done) }()
	t := time.NewTimer(d)
	defer t.Stop()
	select {
	case <-done:
		return true
	case <-t.C:
		return false
	}
}

// ---- btcd stand-in

type fakeBtcd struct {
	ln   net.Listener
	best int32 // atomic
	mu   sync.Mutex
	conn *websocket.Conn // the connection of the client of the current case
	wmu  sync.Mutex      // serialises writes on conn
}

var theFakeBtcd *fakeBtcd
var fakeBtcdOnce sync.Once

func getFakeBtcd() *fakeBtcd {
	fakeBtcdOnce.Do(func() {
		ln, err := net.Listen("tcp", "127.0.0.1:0")
		if err != nil {
			fmt.Fprintln(os.Stderr, "c18: cannot listen on loopback:", err)
			os.Exit(3)
		}
		f := &fakeBtcd{ln: ln}
		mux := http.NewServeMux()
		mux.HandleFunc("/ws", f.serveWS)
		go http.Serve(ln, mux)
		theFakeBtcd = f
	})
	return theFakeBtcd
}

func (f *fakeBtcd) write(conn *websocket.Conn, s string) error {
	f.wmu.Lock()
	defer f.wmu.Unlock()
	return conn.WriteMessage(websocket.TextMessage, []byte(s))
}

func (f *fakeBtcd) serveWS(w http.ResponseWriter, r *http.Request) {
	conn, err := websocket.Upgrade(w, r, nil, 0, 0)
	if err != nil {
		http.Error(w, "400 Bad Request.", http.StatusBadRequest)
		return
	}
	f.mu.Lock()
	f.conn = conn
	f.mu.Unlock()
	defer conn.Close()
	for {
		_, msg, err := conn.ReadMessage()
		if err != nil {
			return
		}
		var req struct {
			ID     json.RawMessage `json:"id"`
			Method string          `json:"method"`
		}
		if json.Unmarshal(msg, &req) != nil {
			continue
		}
		id := string(req.ID)
		if id == "" {
			id = "null"
		}
		var res string
		switch req.Method {
		case "getcurrentnet":
			res = fmt.Sprintf("%d", uint32(chaincfg.SimNetParams.Net))
		case "getbestblock":
			b := atomic.LoadInt32(&f.best)
			res = fmt.Sprintf(`{"hash":"%s","height":%d}`, sqHash(b).String(), b)
		default:
			res = "null"
		}
		if f.write(conn, fmt.Sprintf(`{"result":%s,"error":null,"id":%s}`, res, id)) != nil {
			return
		}
	}
}

// notify sends a btcd websocket notification to the connected client.
func (f *fakeBtcd) notify(method string, v int32) error {
	f.mu.Lock()
	conn := f.conn
	f.mu.Unlock()
	if conn == nil {
		return fmt.Errorf("no client connection")
	}
	return f.write(conn, fmt.Sprintf(`{"jsonrpc":"1.0","method":"%s","params":["%s",%d,%d],"id":null}`,
		method, sqHash(v).String(), v, 1600000000+int64(v)))
}

type btcdBackend struct {
	srv *fakeBtcd
	c   *chain.RPCClient
}

func (b *btcdBackend) start(b0 int32) error {
	b.srv = getFakeBtcd()
	atomic.StoreInt32(&b.srv.best, b0)
	b.srv.mu.Lock()
	b.srv.conn = nil
	b.srv.mu.Unlock()
	c, err := chain.NewRPCClient(&chaincfg.SimNetParams, b.srv.ln.Addr().String(), "u", "p", nil, true, 3)
	if err != nil {
		return err
	}
	b.c = c
	return c.Start()
}

func (b *btcdBackend) send(kind byte, v int32) {
	t := time.Unix(1600000000+int64(v), 0)
	if kind == 'c' {
		b.c.VerifC18OnBlockConnected(sqHash(v), v, t)
	} else if kind == 'g' {
		// a *RescanProgress: for the queue an item like any other (it does
		// not move the best block, like a BlockDisconnected; logged as 's')
		b.c.VerifC18OnRescanProgress(sqHash(v), v, t)
	} else {
		b.c.VerifC18OnBlockDisconnected(sqHash(v), v, t)
	}
}
func (b *btcdBackend) out() <-chan interface{} { return b.c.Notifications() }
func (b *btcdBackend) blockStamp() (int32, error) {
	bs, err := b.c.BlockStamp()
	if err != nil {
		return -1, err
	}
	return bs.Height, nil
}
func (b *btcdBackend) stop() { b.c.Stop() }
func (b *btcdBackend) wait() { b.c.WaitForShutdown() }

// ---- neutrino

// stubCS is the chain service of the neutrino cases.  The embedded interface
// is nil: any method other than the four below would panic (none is called on
// the paths the harness uses).
type stubCS struct {
	chain.NeutrinoChainService
	best int32
}

func (s *stubCS) Start() error { return nil }
func (s *stubCS) Stop() error  { return nil }
func (s *stubCS) IsCurrent() bool {
	return false
}
func (s *stubCS) BestBlock() (*headerfs.BlockStamp, error) {
	return &headerfs.BlockStamp{Height: s.best, Hash: *sqHash(s.best)}, nil
}

type neutrinoBackend struct {
	c *chain.NeutrinoClient
}

func (b *neutrinoBackend) start(b0 int32) error {
	b.c = &chain.NeutrinoClient{CS: &stubCS{best: b0}}
	return b.c.Start()
}
func (b *neutrinoBackend) send(kind byte, v int32) {
	// startTime is the zero time, so every block is "after the birthday":
	// onBlockConnected takes its BlockConnected branch.
	t := time.Unix(1600000000+int64(v), 0)
	if kind == 'c' {
		b.c.VerifC18OnBlockConnected(sqHash(v), v, t)
	} else {
		b.c.VerifC18OnBlockDisconnected(sqHash(v), v, t)
	}
}
func (b *neutrinoBackend) out() <-chan interface{} { return b.c.Notifications() }
func (b *neutrinoBackend) blockStamp() (int32, error) {
	bs, err := b.c.BlockStamp()
	if err != nil {
		return -1, err
	}
	return bs.Height, nil
}
func (b *neutrinoBackend) stop() { b.c.Stop() }
func (b *neutrinoBackend) wait() { b.c.WaitForShutdown() }

func sqNewBackend(q string) sqBackend {
	if q == "neutrino" {
		return &neutrinoBackend{}
	}
	return &btcdBackend{}
}

// ---------------------------------------------------------------- running

// sqDecode classifies a delivered notification: 'r' = other kind (value =
// height; ClientConnected = 0), 'R' = BlockConnected (height), 'u' = anything
// else (-1 = nil interface, -2 = unexpected type).
func sqDecode(x interface{}, want *chainhash.Hash) (byte, int) {
	switch n := x.(type) {
	case nil:
		return 'u', -1
	case chain.ClientConnected:
		return 'r', 0
	case chain.BlockConnected:
		if n.Hash != *sqHash(n.Height) {
			return 'u', -2
		}
		return 'R', int(n.Height)
	case chain.BlockDisconnected:
		if n.Hash != *sqHash(n.Height) {
			return 'u', -2
		}
		return 'r', int(n.Height)
	case *chain.RescanProgress:
		if n.Hash != *sqHash(n.Height) {
			return 'u', -2
		}
		return 'r', int(n.Height)
	}
	return 'u', -2
}

type sqRun struct {
	be          sqBackend
	lg          *c18Log
	obs         *c18Obs
	outstanding int
	sawClosed   bool
}

func (r *sqRun) noteSent() {
	r.outstanding++
	if r.outstanding > r.obs.MaxPend {
		r.obs.MaxPend = r.outstanding
	}
}

// recvOne waits for one delivery (or the closure of the channel).
// returns false on a timeout.
func (r *sqRun) recvOne(d time.Duration, locked bool) (got bool, closed bool) {
	t := time.NewTimer(d)
	defer t.Stop()
	select {
	case y, ok := <-r.be.out():
		if !locked {
			r.lg.mu.Lock()
			defer r.lg.mu.Unlock()
		}
		if !ok {
			r.lg.add('z', 0)
			r.sawClosed = true
			return true, true
		}
		e, v := sqDecode(y, nil)
		r.lg.add(e, v)
		return true, false
	case <-t.C:
		return false, false
	}
}

// stopSeq: log the stop, call Stop, wait for the handler, then read the
// output channel until it reports closed.
func (r *sqRun) stopSeq() {
	r.lg.mu.Lock()
	r.obs.StopPend = r.outstanding
	r.lg.add('x', 0)
	r.lg.mu.Unlock()
	stopped := within(sqLongWait, r.be.stop)
	if !stopped || !within(sqLongWait, r.be.wait) {
		r.obs.Leak = true // the handler goroutine did not end
		return
	}
	for i := 0; !r.sawClosed && i < r.obs.StopPend+4; i++ {
		got, closed := r.recvOne(sqLongWait, false)
		if !got {
			r.obs.Leak = true // the channel is neither delivering nor closed
			return
		}
		if !closed {
			r.obs.PostStop++
			r.outstanding--
		}
	}
}

// probeExtra: nothing is outstanding, so nothing may arrive.
func (r *sqRun) probeExtra() {
	r.obs.Probed = true
	r.recvOne(sqShortWait, false)
}

// prelude: the backend's own ClientConnected notification comes first.
func (r *sqRun) prelude() bool {
	r.lg.add('s', 0)
	r.noteSent()
	got, closed := r.recvOne(sqLongWait, false)
	if !got {
		r.obs.RecvTimeout = true
		return false
	}
	if closed {
		return false
	}
	r.outstanding--
	return true
}

func sqRunCase(in c18Input) (obs c18Obs) {
	lg := &c18Log{}
	r := &sqRun{be: sqNewBackend(in.Q), lg: lg, obs: &obs}
	defer func() { obs.Ev, obs.Val = string(lg.ev), lg.val }()
	var serr error
	if !within(sqLongWait, func() { serr = r.be.start(int32(in.B0)) }) || serr != nil {
		obs.StartErr = fmt.Sprintf("start: %v", serr)
		return
	}
	if !r.prelude() {
		r.stopSeq()
		return
	}
	switch in.Mode {
	case "concurrent":
		sqConcurrent(in, r)
	case "wire":
		sqWire(in, r)
	default:
		sqScript(in, r)
	}
	return
}

func sqScript(in c18Input, r *sqRun) {
	obs, lg := r.obs, r.lg
	next := int32(in.Base)
	plan := in.Plan
	if !strings.Contains(plan, "x") {
		plan += "x"
	}
	for _, op := range plan {
		switch op {
		case 's', 'c', 'g':
			next++
			t0 := time.Now()
			if !within(sqLongWait, func() { r.be.send(byte(op), next) }) {
				obs.Blocked = true
				r.stopSeq()
				return
			}
			if d := time.Since(t0).Microseconds(); d > obs.MaxSendUs {
				obs.MaxSendUs = d
			}
			if op == 'g' {
				op = 's' // the model knows two kinds of items: moving the best block or not
			}
			lg.add(byte(op), int(next))
			r.noteSent()
		case 'r':
			if r.outstanding == 0 {
				continue
			}
			got, closed := r.recvOne(sqLongWait, false)
			if !got {
				obs.RecvTimeout = true
				r.stopSeq()
				return
			}
			if closed {
				return
			}
			r.outstanding--
		case 'b':
			var h int32
			var err error
			if !within(sqLongWait, func() { h, err = r.be.blockStamp() }) || err != nil {
				obs.BSFail = true
				continue
			}
			lg.add('b', int(h))
		case 'p':
			runtime.Gosched()
			time.Sleep(c18Pause)
		case 'x':
			if r.outstanding == 0 {
				r.probeExtra()
			}
			r.stopSeq()
			return
		}
	}
}

// sqConcurrent: a producer and a consumer goroutine with seeded pauses.  With
// StopAt > 0 the producer calls Stop right after its StopAt-th hand-over while
// the consumer is still reading (quit in the middle of a burst); the consumer
// then reads on until the channel reports closed.
func sqConcurrent(in c18Input, r *sqRun) {
	obs, lg := r.obs, r.lg
	pr := gen.New(in.DSeed, 1811)
	cr := gen.New(in.DSeed, 1812)
	kr := gen.New(in.DSeed, 1813)
	pause := func(g *gen.R, max int) {
		if max <= 0 {
			return
		}
		switch g.Intn(3) {
		case 0:
		case 1:
			runtime.Gosched()
		default:
			time.Sleep(time.Duration(g.Range(1, max)) * time.Microsecond)
		}
	}
	nsend := in.N
	if in.StopAt > 0 && in.StopAt < nsend {
		nsend = in.StopAt
	}
	nrecv := nsend
	if in.Pend && nsend > 1 {
		nrecv = nsend / 2
	}
	var wg sync.WaitGroup
	var blocked, rtimeout, stopCalled bool
	var nsent, nrecvd int
	abort := make(chan struct{})
	var abortOnce sync.Once
	wg.Add(2)
	go func() { // producer
		defer wg.Done()
		for i := 1; i <= nsend; i++ {
			pause(pr, in.PD)
			kind := byte('s')
			if kr.Chance(1, 2) {
				kind = 'c'
			}
			v := int32(in.Base + i)
			lg.mu.Lock()
			t0 := time.Now()
			if !within(sqLongWait, func() { r.be.send(kind, v) }) {
				blocked = true
				lg.mu.Unlock()
				abortOnce.Do(func() { close(abort) })
				return
			}
			if d := time.Since(t0).Microseconds(); d > obs.MaxSendUs {
				obs.MaxSendUs = d
			}
			lg.add(kind, int(v))
			nsent++
			lg.mu.Unlock()
		}
		if in.StopAt > 0 {
			lg.mu.Lock()
			stopCalled = true
			obs.StopPend = nsent - nrecvd
			lg.add('x', 0)
			lg.mu.Unlock()
			if !within(sqLongWait, r.be.stop) {
				obs.Leak = true
			}
		}
	}()
	go func() { // consumer
		defer wg.Done()
		for i := 0; in.StopAt > 0 || i < nrecv; i++ {
			pause(cr, in.CD)
			t := time.NewTimer(sqLongWait)
			select {
			case y, ok := <-r.be.out():
				t.Stop()
				lg.mu.Lock()
				if !ok {
					lg.add('z', 0)
					r.sawClosed = true
					lg.mu.Unlock()
					return
				}
				e, v := sqDecode(y, nil)
				lg.add(e, v)
				nrecvd++
				if stopCalled {
					obs.PostStop++
				}
				lg.mu.Unlock()
				if in.StopAt > 0 && !stopCalled && in.Pend && nrecvd >= nrecv {
					// slow down: let the stop overtake the consumer
					time.Sleep(200 * time.Microsecond)
				}
			case <-abort:
				t.Stop()
				return
			case <-t.C:
				rtimeout = true
				return
			}
		}
	}()
	wg.Wait()
	obs.Blocked = blocked
	sent, recvd := 0, 0
	for _, e := range lg.ev[2:] { // after the prelude
		switch e {
		case 's', 'c':
			sent++
		case 'r', 'R', 'u':
			recvd++
		}
		if sent-recvd > obs.MaxPend {
			obs.MaxPend = sent - recvd
		}
	}
	r.outstanding = sent - recvd
	if stopCalled {
		if rtimeout {
			obs.Leak = true // stopped, yet the channel neither delivers nor closes
		}
		if !within(sqLongWait, r.be.wait) {
			obs.Leak = true
		}
		if !r.sawClosed && !rtimeout {
			r.recvOne(sqLongWait, false)
		}
		return
	}
	obs.RecvTimeout = rtimeout && !blocked
	if r.outstanding == 0 && !blocked && !rtimeout {
		r.probeExtra()
	}
	r.stopSeq()
}

// sqWire (btcd only): N block notifications are written to the websocket by
// the stand-in server; rpcclient parses them and calls the callbacks that
// NewRPCClient registered (the production wiring).  When a hand-over completes
// is not observable here, so the script claims "all sent, then all received",
// which is a possible order of the same observations: the consumer starts
// reading only after the last notification was written, and the loop accepts
// any burst without a consumer.
func sqWire(in c18Input, r *sqRun) {
	obs, lg := r.obs, r.lg
	b, ok := r.be.(*btcdBackend)
	if !ok {
		obs.StartErr = "wire mode is btcd only"
		return
	}
	kr := gen.New(in.DSeed, 1814)
	for i := 1; i <= in.N; i++ {
		v := int32(in.Base + i)
		kind, method := byte('s'), "blockdisconnected"
		if kr.Chance(1, 2) {
			kind, method = 'c', "blockconnected"
		}
		if err := b.srv.notify(method, v); err != nil {
			obs.StartErr = "wire: " + err.Error()
			break
		}
		lg.add(kind, int(v))
		r.noteSent()
	}
	for r.outstanding > 0 {
		got, closed := r.recvOne(sqLongWait, false)
		if !got {
			obs.RecvTimeout = true
			break
		}
		if closed {
			return
		}
		r.outstanding--
	}
	if r.outstanding == 0 {
		r.probeExtra()
	}
	r.stopSeq()
}

// ---------------------------------------------------------------- oracle

// sqOracle: the property on what was observed.  The events are mapped onto
// the oracle of the ConcurrentQueue cases (one key per (kind, value)).
func sqOracle(o c18Obs) []string {
	var p c18Obs = o
	ev := make([]byte, 0, len(o.Ev))
	val := make([]int, 0, len(o.Val))
	closedAt := -1
	afterClose := false
	for i := 0; i < len(o.Ev); i++ {
		e, v := o.Ev[i], o.Val[i]
		switch e {
		case 's':
			ev, val = append(ev, 's'), append(val, 2*v)
		case 'c':
			ev, val = append(ev, 's'), append(val, 2*v+1)
		case 'r':
			ev, val = append(ev, 'r'), append(val, 2*v)
		case 'R':
			ev, val = append(ev, 'r'), append(val, 2*v+1)
		case 'u':
			ev, val = append(ev, 'r'), append(val, -1000+v)
		case 'z':
			closedAt = i
		}
		if closedAt >= 0 && i > closedAt && (e == 'r' || e == 'R' || e == 'u') {
			afterClose = true
		}
	}
	p.Ev, p.Val = string(ev), val
	out := c18Oracle(p)
	if afterClose {
		out = append(out, "phantom_item")
	}
	if o.Panic != "" {
		out = append(out, "worker_panicked")
	}
	return out
}

func sqTags(in c18Input, o c18Obs, extra ...string) []string {
	tags := append([]string{}, extra...)
	tags = append(tags, "queue="+in.Q, "mode="+in.Q+"/"+in.Mode)
	if o.MaxPend >= 2 {
		tags = append(tags, "slice_backlog>=2")
	}
	if o.MaxPend >= 20 {
		tags = append(tags, "slice_backlog>=20")
	}
	if o.StopPend > 0 {
		tags = append(tags, "stop_with_outstanding")
	} else {
		tags = append(tags, "drained_before_stop")
	}
	if o.PostStop > 0 {
		tags = append(tags, "delivered_after_stop")
	}
	if strings.Contains(o.Ev, "b") {
		tags = append(tags, "blockstamp_read")
	}
	if strings.Contains(o.Ev, "z") {
		tags = append(tags, "saw_channel_closed")
	}
	if in.StopAt > 0 {
		tags = append(tags, "quit_mid_burst")
	}
	return tags
}

func sqCase(in c18Input, obs c18Obs, extra ...string) c18Case {
	site := "chain/btcd.go"
	if in.Q == "neutrino" {
		site = "chain/neutrino.go"
	}
	return c18Case{In: in, Obs: obs, Oracle: sqOracle(obs), Tags: sqTags(in, obs, extra...), Site: site}
}

// ---------------------------------------------------------------- generation

// sqGenPlan: like c18GenPlan, with the two kinds of sends and BlockStamp reads.
func sqGenPlan(r *gen.R) string {
	var b strings.Builder
	outstanding := 0
	send := func() {
		if r.Chance(1, 2) {
			b.WriteByte('c')
		} else if r.Chance(1, 3) {
			b.WriteByte('g') // a rescan-progress item (btcd; the neutrino callbacks take it as 's')
		} else {
			b.WriteByte('s')
		}
		outstanding++
	}
	phases := r.Range(1, 5)
	for p := 0; p < phases; p++ {
		var psend int
		switch r.Pick(4, 3, 3) {
		case 0:
			psend = 88
		case 1:
			psend = 12
		default:
			psend = 50
		}
		n := r.Range(3, 14)
		if r.Chance(1, 6) {
			n = r.Range(5, 40)
			psend = 100
		}
		for i := 0; i < n; i++ {
			if r.Chance(1, 14) {
				b.WriteByte('p')
			}
			if r.Chance(1, 7) {
				b.WriteByte('b')
			}
			if outstanding == 0 || r.Intn(100) < psend {
				send()
			} else {
				b.WriteByte('r')
				outstanding--
			}
		}
	}
	if r.Chance(3, 5) {
		for ; outstanding > 0; outstanding-- {
			b.WriteByte('r')
			if r.Chance(1, 5) {
				b.WriteByte('b')
			}
		}
	} else if r.Chance(1, 2) {
		b.WriteByte('p')
	}
	b.WriteByte('x')
	return b.String()
}

func sqSystematic() []c18Input {
	rep := func(ch string, n int) string { return strings.Repeat(ch, n) }
	plans := []string{
		"x",                    // stop at once
		"bx",                   // best block before anything was delivered
		"srx", "crbx", "ssrrx", // the smallest queues: empty -> 1 -> empty, 2 -> empty
		"scbrbrbx",                                // bookkeeping follows DELIVERY, not enqueueing
		rep("sc", 3) + rep("r", 6) + "x",          // burst with no consumer, then drain
		rep("cs", 30) + "p" + rep("rb", 60) + "x", // long burst
		rep("c", 4) + "px", rep("s", 4) + "x",     // stop with a backlog
		rep("sr", 8) + "x", rep("cbrb", 6) + "x", // fast consumer: the queue empties after every item
		"ssr" + "csr" + "ssr" + "rrr" + "x",             // slow consumer falling behind
		"sr" + "p" + "ccr" + "r" + "p" + "sssrrr" + "x", // empties and refills repeatedly
		"cgggrrrrx", "gcggcgg" + rep("r", 7) + "x", // back-to-back rescan-progress items behind a backlog
	}
	var ins []c18Input
	for _, q := range []string{"btcd", "neutrino"} {
		for i, p := range plans {
			ins = append(ins, c18Input{Q: q, Mode: "script", Base: 100 * (i + 1), B0: 7 + i, Plan: p})
		}
		for i, n := range []int{6, 25} {
			ins = append(ins,
				c18Input{Q: q, Mode: "concurrent", Base: 5000 + 100*i, B0: 3, N: n, PD: 0, CD: 150, DSeed: int64(40 + i)},
				c18Input{Q: q, Mode: "concurrent", Base: 6000 + 100*i, B0: 3, N: n, PD: 150, CD: 0, DSeed: int64(50 + i)},
				c18Input{Q: q, Mode: "concurrent", Base: 7000 + 100*i, B0: 3, N: n, PD: 0, CD: 60, DSeed: int64(60 + i), StopAt: n/2 + 1},
			)
		}
	}
	ins = append(ins, c18Input{Q: "btcd", Mode: "wire", Base: 9000, B0: 11, N: 12, DSeed: 5})
	return ins
}

func sqRandom(r *gen.R, n int) []c18Input {
	var ins []c18Input
	for i := 0; i < n; i++ {
		in := c18Input{Q: "btcd", Base: r.Range(1, 9) * 1000, B0: r.Range(0, 900)}
		if r.Chance(1, 2) {
			in.Q = "neutrino"
		}
		switch {
		case in.Q == "btcd" && r.Chance(1, 12):
			in.Mode = "wire"
			in.N = r.Range(1, 40)
			in.DSeed = int64(r.Intn(1 << 30))
		case r.Chance(2, 5):
			in.Mode = "concurrent"
			in.N = r.Range(1, 60)
			in.DSeed = int64(r.Intn(1 << 30))
			switch r.Pick(3, 3, 2) {
			case 0:
				in.PD, in.CD = 0, r.Range(20, 300)
			case 1:
				in.PD, in.CD = r.Range(20, 300), 0
			default:
				in.PD, in.CD = r.Range(0, 100), r.Range(0, 100)
			}
			switch r.Pick(2, 1, 1) {
			case 1:
				in.Pend = true
			case 2:
				in.StopAt = r.Range(1, in.N)
			}
		default:
			in.Mode = "script"
			in.Plan = sqGenPlan(r)
		}
		ins = append(ins, in)
	}
	return ins
}

// ---------------------------------------------------------------- child / parent

// sqChildMain: read inputs (JSON lines) from stdin, run each, write the
// observation as one JSON line to stdout at once.
func sqChildMain() error {
	sc := bufio.NewScanner(os.Stdin)
	sc.Buffer(make([]byte, 1<<20), 1<<26)
	w := os.Stdout
	for sc.Scan() {
		var in c18Input
		if err := json.Unmarshal(sc.Bytes(), &in); err != nil {
			return err
		}
		var obs []c18Obs
		if in.Q == "ntfn" {
			obs = ntfnRunCase(in)
		} else {
			obs = []c18Obs{sqRunCase(in)}
		}
		b, err := json.Marshal(obs)
		if err != nil {
			return err
		}
		if _, err := w.Write(append(b, '\n')); err != nil {
			return err
		}
	}
	return sc.Err()
}

// sqRunAll runs the inputs in child processes and calls emit for each, in
// order.  A child that dies is blamed on the input it was running.
//
// Cases in which a wait that must succeed timed out cost >= 10 s each: after
// sqMaxSlow of them (over all batches) the child is killed and no further
// slice case is started (the violation has been reported four times by then).
var sqSlow int

const sqMaxSlow = 4

func sqRunAll(ins []c18Input, emit func(in c18Input, obs c18Obs, idx int)) error {
	crashes := 0
	if sqSlow >= sqMaxSlow {
		return nil
	}
	for start := 0; start < len(ins); {
		cmd := exec.Command(os.Args[0], "-slice-child")
		stdin, err := cmd.StdinPipe()
		if err != nil {
			return err
		}
		stdout, err := cmd.StdoutPipe()
		if err != nil {
			return err
		}
		var stderr bytes.Buffer
		cmd.Stderr = &stderr
		if err := cmd.Start(); err != nil {
			return err
		}
		batch := ins[start:]
		go func() {
			w := bufio.NewWriter(stdin)
			for _, in := range batch {
				b, _ := json.Marshal(in)
				w.Write(append(b, '\n'))
			}
			w.Flush()
			stdin.Close()
		}()
		rd := bufio.NewReaderSize(stdout, 1<<20)
		done := 0
		for done < len(batch) {
			line, err := rd.ReadBytes('\n')
			if err != nil {
				break
			}
			var obs []c18Obs
			if err := json.Unmarshal(line, &obs); err != nil {
				return fmt.Errorf("child output: %v", err)
			}
			slow := false
			for i, o := range obs {
				if o.StartErr != "" {
					cmd.Process.Kill()
					cmd.Wait()
					return fmt.Errorf("case %+v could not be run: %s", batch[done], o.StartErr)
				}
				slow = slow || o.Blocked || o.RecvTimeout || o.Leak
				emit(batch[done], o, i)
			}
			done++
			if slow {
				sqSlow++
				if sqSlow >= sqMaxSlow {
					fmt.Fprintln(os.Stderr, "c18: stopping the slice-queue cases after 4 cases with timeouts")
					cmd.Process.Kill()
					cmd.Wait()
					return nil
				}
			}
		}
		io.Copy(io.Discard, rd)
		werr := cmd.Wait()
		start += done
		if done < len(batch) {
			// the child died while running batch[done]
			msg := stderr.String()
			if i := strings.Index(msg, "panic:"); i >= 0 {
				msg = msg[i:]
			} else if i := strings.Index(msg, "fatal error:"); i >= 0 {
				msg = msg[i:]
			} else {
				return fmt.Errorf("slice child ended early (%v): %s", werr, tail(msg, 600))
			}
			lines := strings.Split(msg, "\n")
			keep := []string{lines[0]}
			for _, l := range lines[1:] {
				if strings.Contains(l, "btcwallet/chain.") || strings.Contains(l, "btcwallet/wallet.") {
					keep = append(keep, strings.TrimSpace(l))
					if len(keep) >= 3 {
						break
					}
				}
			}
			emit(batch[done], c18Obs{Panic: strings.Join(keep, " | "), Val: []int{}}, 0)
			start++
			crashes++
			if crashes >= 3 {
				fmt.Fprintln(os.Stderr, "c18: stopping the slice-queue cases after 3 crashed children")
				return nil
			}
		}
	}
	return nil
}

func tail(s string, n int) string {
	if len(s) > n {
		return s[len(s)-n:]
	}
	return s
}
