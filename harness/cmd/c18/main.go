// Command c18 drives the REAL chain.ConcurrentQueue (chain/queue.go) and
// reports, per case, the externally visible actions it performed in the order
// it performed them (send completed / value received / Stop returned) together
// with the property oracle of C18 evaluated on them.
//
// Two ways of running a case:
//
//   - mode "script": ONE goroutine performs the plan op by op, so the order of
//     the script is the real order.  's' = send the next value into ChanIn
//     (must complete within the timeout although nobody may be receiving: a
//     timeout is the observable "producer blocked"), 'r' = receive from
//     ChanOut (only planned when something is outstanding; a timeout means
//     an item was lost), 'p' = pause (lets the worker settle; not an event),
//     'x' = Stop, then wait for the worker goroutine to disappear (goroutine
//     count back to the baseline of the case), then drain what is left in the
//     buffered ChanOut without blocking.  Before 'x', when nothing is
//     outstanding, a short wait checks that no extra item shows up.
//   - mode "concurrent": a producer goroutine and a consumer goroutine run
//     concurrently with pseudo-random pauses (slow or fast consumer); events
//     are logged under a mutex (a send is logged after it completed and before
//     the lock is released, so "send x" always precedes "recv x" in the log).
//
// Waits that must succeed use a long timeout (failure = alarm); waits that
// must NOT succeed use a short one (an arrival = alarm).  Neither direction
// can raise a false alarm because of a slow machine short of a multi-second
// stall.
package main

import (
	"encoding/json"
	"flag"
	"fmt"
	"os"
	"runtime"
	"strings"
	"sync"
	"time"

	"github.com/btcsuite/btcwallet/chain"

	"verifharness/internal/core"
	"verifharness/internal/gen"
)

const (
	c18LongWait  = 5 * time.Second       // a wait that must succeed
	c18ShortWait = 12 * time.Millisecond // a wait that must not succeed
	c18Pause     = 150 * time.Microsecond
)

type c18Input struct {
	Cap  int    `json:"cap"`
	Mode string `json:"mode"` // script | concurrent
	Base int    `json:"base"` // values sent are base+1, base+2, ...
	Plan string `json:"plan"` // script mode: ops s r p x
	// concurrent mode
	N     int   `json:"n"`     // items
	PD    int   `json:"pd"`    // producer: max pause in microseconds (0 = none)
	CD    int   `json:"cd"`    // consumer: max pause in microseconds (0 = none)
	DSeed int64 `json:"dseed"` // seed of the pauses
	Pend  bool  `json:"pend"`  // consumer stops early: Stop with items outstanding
	// slice-queue cases (slice.go): which real loop is driven
	Q      string `json:"q,omitempty"`       // "" = ConcurrentQueue | btcd | neutrino
	B0     int    `json:"b0,omitempty"`      // best-block height the backend reports at start
	StopAt int    `json:"stop_at,omitempty"` // concurrent mode: the producer calls Stop after this many sends
	// wallet notification server cases (ntfn.go), q = "ntfn"
	Clients int `json:"clients,omitempty"` // registered TransactionNotifications clients (1 or 2)
	CD2     int `json:"cd2,omitempty"`     // second client: max pause in microseconds
}

type c18Obs struct {
	Ev          string `json:"ev"`  // one char per event: s r x
	Val         []int  `json:"val"` // value of the event (0 for x)
	Blocked     bool   `json:"producer_timeout"`
	RecvTimeout bool   `json:"recv_timeout"`
	Leak        bool   `json:"worker_alive_after_stop"`
	MaxPend     int    `json:"max_outstanding"`
	StopPend    int    `json:"outstanding_at_stop"`
	Probed      bool   `json:"extra_item_probe_done"`
	PostStop    int    `json:"drained_after_stop"`
	MaxSendUs   int64  `json:"max_send_us"`
	// slice-queue cases only
	BSFail   bool   `json:"blockstamp_failed,omitempty"`
	Panic    string `json:"worker_panic,omitempty"`
	StartErr string `json:"start_error,omitempty"`
	// notification-server cases: hand-overs completed while nobody was reading
	NoConsumerDone *int `json:"completed_without_consumer,omitempty"`
}

type c18Case struct {
	In     c18Input `json:"in"`
	Obs    c18Obs   `json:"obs"`
	Oracle []string `json:"oracle"`
	Tags   []string `json:"tags"`
	Site   string   `json:"site"`
}

type c18Log struct {
	mu  sync.Mutex
	ev  []byte
	val []int
}

func (l *c18Log) add(e byte, v int) {
	l.ev = append(l.ev, e)
	l.val = append(l.val, v)
}

func c18Value(x interface{}) int {
	if v, ok := x.(int); ok {
		return v
	}
	return -1
}

// c18WaitGoroutines waits until the goroutine count is back to base.
func c18WaitGoroutines(base int) bool {
	deadline := time.Now().Add(c18LongWait)
	for {
		if runtime.NumGoroutine() <= base {
			return true
		}
		if time.Now().After(deadline) {
			return false
		}
		runtime.Gosched()
		time.Sleep(100 * time.Microsecond)
	}
}

// c18Stop calls Stop, probes for the worker goroutine and drains what the
// buffered output channel still holds (without blocking).
func c18Stop(q *chain.ConcurrentQueue, base int, lg *c18Log, obs *c18Obs, outstanding int) {
	obs.StopPend = outstanding
	q.Stop()
	lg.add('x', 0)
	if !c18WaitGoroutines(base) {
		obs.Leak = true
	}
	limit := outstanding + 4
	for i := 0; i < limit; i++ {
		select {
		case y := <-q.ChanOut():
			lg.add('r', c18Value(y))
			obs.PostStop++
		default:
			return
		}
	}
}

// c18ProbeExtra: nothing is outstanding, so nothing may arrive.
func c18ProbeExtra(q *chain.ConcurrentQueue, lg *c18Log, obs *c18Obs) {
	obs.Probed = true
	t := time.NewTimer(c18ShortWait)
	defer t.Stop()
	select {
	case y := <-q.ChanOut():
		lg.add('r', c18Value(y))
	case <-t.C:
	}
}

func c18RunScript(in c18Input) c18Obs {
	var obs c18Obs
	lg := &c18Log{}
	base := runtime.NumGoroutine()
	q := chain.NewConcurrentQueue(in.Cap)
	q.Start()
	timer := time.NewTimer(time.Hour)
	defer timer.Stop()
	arm := func(d time.Duration) {
		if !timer.Stop() {
			select {
			case <-timer.C:
			default:
			}
		}
		timer.Reset(d)
	}
	next, outstanding, stopped := in.Base, 0, false
	plan := in.Plan
	if !strings.Contains(plan, "x") {
		plan += "x"
	}
loop:
	for _, op := range plan {
		switch op {
		case 's':
			next++
			arm(c18LongWait)
			t0 := time.Now()
			select {
			case q.ChanIn() <- next:
				if d := time.Since(t0).Microseconds(); d > obs.MaxSendUs {
					obs.MaxSendUs = d
				}
				lg.add('s', next)
				outstanding++
				if outstanding > obs.MaxPend {
					obs.MaxPend = outstanding
				}
			case <-timer.C:
				obs.Blocked = true
				break loop
			}
		case 'r':
			if outstanding == 0 {
				continue
			}
			arm(c18LongWait)
			select {
			case y := <-q.ChanOut():
				lg.add('r', c18Value(y))
				outstanding--
			case <-timer.C:
				obs.RecvTimeout = true
				break loop
			}
		case 'p':
			runtime.Gosched()
			time.Sleep(c18Pause)
		case 'x':
			if outstanding == 0 {
				c18ProbeExtra(q, lg, &obs)
			}
			c18Stop(q, base, lg, &obs, outstanding)
			stopped = true
			break loop
		}
	}
	if !stopped {
		c18Stop(q, base, lg, &obs, outstanding)
	}
	obs.Ev, obs.Val = string(lg.ev), lg.val
	return obs
}

func c18RunConcurrent(in c18Input) c18Obs {
	var obs c18Obs
	lg := &c18Log{}
	base := runtime.NumGoroutine()
	q := chain.NewConcurrentQueue(in.Cap)
	q.Start()
	pr := gen.New(in.DSeed, 1801)
	cr := gen.New(in.DSeed, 1802)
	pause := func(r *gen.R, max int) {
		if max <= 0 {
			return
		}
		switch r.Intn(3) {
		case 0:
		case 1:
			runtime.Gosched()
		default:
			time.Sleep(time.Duration(r.Range(1, max)) * time.Microsecond)
		}
	}
	nrecv := in.N
	if in.Pend && in.N > 1 {
		nrecv = in.N / 2
	}
	var wg sync.WaitGroup
	var blocked, rtimeout bool
	var maxSend int64
	abort := make(chan struct{})
	var abortOnce sync.Once
	wg.Add(2)
	go func() { // producer
		defer wg.Done()
		for i := 1; i <= in.N; i++ {
			pause(pr, in.PD)
			t := time.NewTimer(c18LongWait)
			lg.mu.Lock()
			t0 := time.Now()
			select {
			case q.ChanIn() <- in.Base + i:
				if d := time.Since(t0).Microseconds(); d > maxSend {
					maxSend = d
				}
				lg.add('s', in.Base+i)
				lg.mu.Unlock()
				t.Stop()
			case <-t.C:
				blocked = true
				lg.mu.Unlock()
				abortOnce.Do(func() { close(abort) })
				return
			}
		}
	}()
	go func() { // consumer
		defer wg.Done()
		for i := 0; i < nrecv; i++ {
			pause(cr, in.CD)
			t := time.NewTimer(c18LongWait)
			select {
			case y := <-q.ChanOut():
				t.Stop()
				lg.mu.Lock()
				lg.add('r', c18Value(y))
				lg.mu.Unlock()
			case <-abort:
				t.Stop()
				return
			case <-t.C:
				rtimeout = true
				return
			}
		}
	}()
	wg.Wait()
	obs.Blocked, obs.RecvTimeout, obs.MaxSendUs = blocked, rtimeout && !blocked, maxSend
	sent, recvd := 0, 0
	for _, e := range lg.ev {
		if e == 's' {
			sent++
		} else if e == 'r' {
			recvd++
		}
		if sent-recvd > obs.MaxPend {
			obs.MaxPend = sent - recvd
		}
	}
	// the two helper goroutines are gone (or about to be): base+1 = worker only
	c18WaitGoroutines(base + 1)
	outstanding := sent - recvd
	if outstanding == 0 && !blocked && !rtimeout {
		c18ProbeExtra(q, lg, &obs)
	}
	c18Stop(q, base, lg, &obs, outstanding)
	obs.Ev, obs.Val = string(lg.ev), lg.val
	return obs
}

// c18Oracle states the property directly on what was observed.
func c18Oracle(o c18Obs) []string {
	kinds := map[string]bool{}
	everRecv := map[int]bool{}
	for i, e := range o.Ev {
		if e == 'r' {
			everRecv[o.Val[i]] = true
		}
	}
	var outstanding []int
	sent := map[int]bool{}
	got := map[int]bool{}
	for i, e := range o.Ev {
		v := o.Val[i]
		switch e {
		case 's':
			outstanding = append(outstanding, v)
			sent[v] = true
		case 'r':
			if len(outstanding) > 0 && outstanding[0] == v {
				outstanding = outstanding[1:]
				got[v] = true
				continue
			}
			switch {
			case got[v]:
				kinds["duplicated_item"] = true
			case !sent[v]:
				kinds["phantom_item"] = true
			default:
				idx := -1
				for j, w := range outstanding {
					if w == v {
						idx = j
						break
					}
				}
				if idx < 0 {
					kinds["duplicated_item"] = true
					continue
				}
				for _, w := range outstanding[:idx] {
					if everRecv[w] {
						kinds["reordered"] = true
					} else {
						kinds["lost_item"] = true
					}
				}
				// the skipped items stay outstanding; v is consumed
				outstanding = append(append([]int{}, outstanding[:idx]...), outstanding[idx+1:]...)
				got[v] = true
			}
		}
	}
	if o.RecvTimeout {
		kinds["lost_item"] = true
	}
	if o.Blocked {
		kinds["producer_blocked"] = true
	}
	if o.Leak {
		kinds["worker_not_terminated"] = true
	}
	out := []string{}
	for _, k := range []string{"lost_item", "duplicated_item", "reordered", "phantom_item",
		"producer_blocked", "worker_not_terminated"} {
		if kinds[k] {
			out = append(out, k)
		}
	}
	return out
}

func c18Run(in c18Input) c18Obs {
	if in.Mode == "concurrent" {
		return c18RunConcurrent(in)
	}
	return c18RunScript(in)
}

func c18Tags(in c18Input, o c18Obs, extra ...string) []string {
	tags := append([]string{}, extra...)
	tags = append(tags, fmt.Sprintf("cap=%d", in.Cap), "mode="+in.Mode)
	if o.MaxPend > in.Cap {
		tags = append(tags, "overflow_used")
	}
	if o.MaxPend >= in.Cap+3 {
		tags = append(tags, "burst_ge_cap+3")
	}
	if o.StopPend > 0 {
		tags = append(tags, "stop_with_outstanding")
	} else {
		tags = append(tags, "drained_before_stop")
	}
	if o.PostStop > 0 {
		tags = append(tags, "drained_after_stop")
	}
	switch n := len(o.Ev); {
	case n <= 10:
		tags = append(tags, "events<=10")
	case n <= 50:
		tags = append(tags, "events<=50")
	case n <= 150:
		tags = append(tags, "events<=150")
	default:
		tags = append(tags, "events>150")
	}
	return tags
}

var c18Caps = []int{0, 1, 2, 5, 20}

// c18GenPlan: phases of mostly-sends / mostly-receives / balanced.
func c18GenPlan(r *gen.R, cap int) string {
	var b strings.Builder
	outstanding := 0
	phases := r.Range(1, 5)
	for p := 0; p < phases; p++ {
		var psend int // out of 100
		switch r.Pick(4, 3, 3) {
		case 0:
			psend = 88
		case 1:
			psend = 12
		default:
			psend = 50
		}
		n := r.Range(3, 12+2*cap)
		if r.Chance(1, 6) {
			n = r.Range(cap+3, 3*cap+12) // a burst surely larger than the buffer
			psend = 100
		}
		for i := 0; i < n; i++ {
			if r.Chance(1, 14) {
				b.WriteByte('p')
			}
			if outstanding == 0 || r.Intn(100) < psend {
				b.WriteByte('s')
				outstanding++
			} else {
				b.WriteByte('r')
				outstanding--
			}
		}
	}
	if r.Chance(3, 5) {
		if r.Chance(1, 2) {
			b.WriteByte('p')
		}
		for ; outstanding > 0; outstanding-- {
			b.WriteByte('r')
		}
	} else if r.Chance(1, 2) {
		b.WriteByte('p') // let the worker settle before Stop
	}
	b.WriteByte('x')
	return b.String()
}

func main() {
	child := false
	core.Main("c18", func(fs *flag.FlagSet) {
		fs.BoolVar(&child, "slice-child", false, "internal: run slice-queue inputs read from stdin")
	}, func(c *core.Common, out *core.Emitter) error {
		if child {
			return sqChildMain()
		}
		timeouts := 0
		emitSlice := func(extra string) func(in c18Input, obs c18Obs, idx int) {
			return func(in c18Input, obs c18Obs, idx int) {
				if obs.Blocked || obs.RecvTimeout || obs.Leak {
					timeouts++
				}
				if in.Q == "ntfn" {
					out.Emit(c18Case{In: in, Obs: obs, Oracle: ntfnOracle(obs),
						Tags: ntfnTags(in, obs, idx, extra), Site: "wallet/notifications.go"})
					return
				}
				out.Emit(sqCase(in, obs, extra))
			}
		}
		runOne := func(in c18Input, extra ...string) {
			obs := c18Run(in)
			if obs.Blocked || obs.RecvTimeout || obs.Leak {
				timeouts++
			}
			out.Emit(c18Case{In: in, Obs: obs, Oracle: c18Oracle(obs),
				Tags: c18Tags(in, obs, extra...), Site: "chain/queue.go"})
		}
		if c.Replay != "" {
			return core.ReadReplay(c.Replay, func(raw json.RawMessage) error {
				var cs struct {
					In c18Input `json:"in"`
				}
				if err := json.Unmarshal(raw, &cs); err != nil {
					return err
				}
				if cs.In.Q != "" {
					return sqRunAll([]c18Input{cs.In}, emitSlice("replay"))
				}
				runOne(cs.In, "replay")
				return nil
			})
		}
		rep := func(ch string, n int) string { return strings.Repeat(ch, n) }
		// Systematic part, every capacity.
		for _, k := range c18Caps {
			plans := []string{
				"x",                                 // stop at once (worker idle in select A)
				rep("s", k+3) + rep("r", k+3) + "x", // burst of cap+3 with no consumer, then drain
				rep("s", k+3) + "p" + rep("r", k+3) + "x",
				rep("s", k+3) + "px", // stop with the overflow list non-empty (select B)
				rep("s", k+3) + "x",
				rep("s", 3*k+40) + rep("r", 3*k+40) + "x",
				rep("sr", k+5) + "x",    // fast consumer
				rep("s", k) + "p" + "x", // exactly full buffer, then stop
				rep("s", k+1) + "p" + rep("r", k+1) + rep("s", k+2) + "p" + rep("r", k+2) + "x", // overflow used, emptied, used again
				rep("ssr", 2*k+6) + rep("r", 2*k+6) + "x",                                       // slow consumer: falls behind steadily
			}
			for i, p := range plans {
				if timeouts >= 4 {
					break
				}
				runOne(c18Input{Cap: k, Mode: "script", Base: 100 * i, Plan: p}, "systematic")
			}
		}
		r := gen.New(c.Seed, 18)
		for i := 0; i < c.N && timeouts < 4; i++ {
			k := c18Caps[r.Intn(len(c18Caps))]
			in := c18Input{Cap: k, Base: r.Range(0, 9) * 1000}
			if r.Chance(1, 4) {
				in.Mode = "concurrent"
				in.N = r.Range(1, 3*k+40)
				in.DSeed = int64(r.Intn(1 << 30))
				switch r.Pick(3, 3, 2) {
				case 0: // slow consumer
					in.PD, in.CD = 0, r.Range(20, 300)
				case 1: // fast consumer
					in.PD, in.CD = r.Range(20, 300), 0
				default:
					in.PD, in.CD = r.Range(0, 100), r.Range(0, 100)
				}
				in.Pend = r.Chance(1, 3)
			} else {
				in.Mode = "script"
				in.Plan = c18GenPlan(r, k)
			}
			runOne(in, "random")
		}
		if timeouts >= 4 {
			fmt.Fprintln(os.Stderr, "c18: stopping early after 4 cases with timeouts")
			return nil
		}
		// The inline slice queues of the btcd and neutrino backends (slice.go).
		if err := sqRunAll(sqSystematic(), emitSlice("systematic")); err != nil {
			return err
		}
		if err := sqRunAll(sqRandom(gen.New(c.Seed, 1818), c.N/2), emitSlice("random")); err != nil {
			return err
		}
		// The wallet's notification server (ntfn.go): a rendezvous, not a queue.
		if err := sqRunAll(ntfnSystematic(), emitSlice("systematic")); err != nil {
			return err
		}
		return sqRunAll(ntfnRandom(gen.New(c.Seed, 1819), c.N/15), emitSlice("random"))
	})
}
