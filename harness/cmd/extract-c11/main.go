// extract-c11 reads walletdb/bdb/db.go and walletdb/interface.go (go/ast, no
// type checking, nothing is compiled) and prints, as one JSON object, the
// control-flow skeleton of the managed calls that the C11 theorems take as
// premises (Generated/TxFlow.v):
//
//	for db.Update and db.View, and for each way the closure f can end
//	(returns nil / returns a non-nil error / panics):
//	  end  which call on the transaction ends it first: "commit", "rollback",
//	       or "leak" when neither happens on that path
//	  ret  how the method ends for its caller: "nil", "err" (the value f
//	       returned), "panic" (f's panic continues), "other"
//
// It is found by executing the method body symbolically, once per way of
// ending, over a small abstract domain (nil / the transaction / the closure's
// error / some other non-nil error): the begin call yields (transaction, nil);
// f(tx) yields nil or the closure's error, or unwinds; tx.Commit() and
// tx.Rollback() are recorded and yield nil; `x == nil`, `x != nil`, `!`, `&&`,
// `||` are decided on the abstract values; deferred function literals and
// deferred calls run at every exit, in reverse order, over the same variables
// (so a named result that is still nil when f panicked is seen as nil);
// convertErr(x) is x for nil and for the closure's error.  Every path of the
// body is followed for the way of ending at hand, so "rollback on every
// non-nil error path" is a statement about the code, not about one test error.
//
// Understood: assignments and definitions from these calls, from nil and from
// variables; if / else with the conditions above (with an init statement);
// return with zero or one result; defer of a function literal or of a call on
// the transaction; calls of the reset parameter.  Anything else - a helper
// method that takes the closure, a recover(), a loop - is refused, per method,
// with the reason ({"ok":false,"why":...}); lib/extract_c11.py then determines
// the facts by running the code (c11 -flow-probe).  Nothing is guessed.
//
// Also reported (informational, and required for "source" to count): the
// package-level walletdb.View / Update / Batch pass f through unchanged, and
// db.Batch hands bbolt's Batch a closure that returns f's result unchanged.
//
//	usage: extract-c11 <repo>
package main

import (
	"encoding/json"
	"fmt"
	"go/ast"
	"go/parser"
	"go/token"
	"os"
	"path/filepath"
)

type fact struct {
	End string `json:"end"`
	Ret string `json:"ret"`
}

type method struct {
	OK    bool            `json:"ok"`
	Why   string          `json:"why,omitempty"`
	Facts map[string]fact `json:"facts,omitempty"` // nil / err / panic
	Where string          `json:"where,omitempty"`
}

type report struct {
	Update  method `json:"update"`
	View    method `json:"view"`
	Batch   method `json:"batch"`   // OK = delegates to bbolt's Batch passing f's result through
	Helpers method `json:"helpers"` // OK = walletdb.View/Update/Batch pass f through
}

type refuse struct{ msg string }

func refusef(format string, a ...interface{}) { panic(refuse{fmt.Sprintf(format, a...)}) }

// ---------------------------------------------------------------- abstract values

type val int

const (
	vNil val = iota
	vTx
	vErrClosure
	vErrOther
	vFunc // a function value (the closure f, reset)
)

func (v val) String() string {
	return [...]string{"nil", "the transaction", "the closure's error", "another error", "a function"}[v]
}

// unwinding marks a panic of the closure travelling up.
type unwinding struct{}

// returning marks a return statement travelling up to the function boundary.
type returning struct{}

type machine struct {
	fset     *token.FileSet
	scenario string // nil | err | panic
	env      map[string]val
	fname    string // the closure parameter
	reset    string // the reset parameter ("" if none)
	recv     string // the receiver
	result   string // named result ("" if none)
	retVal   val
	writable *bool // set by the begin call
	end      string
	defers   []func()
	called   int // how many times f was called
}

func (m *machine) pos(n ast.Node) string { return m.fset.Position(n.Pos()).String() }

func (m *machine) effect(what string) {
	if m.end == "" {
		m.end = what
	}
}

func isIdent(e ast.Expr, name string) bool {
	id, ok := e.(*ast.Ident)
	return ok && id.Name == name
}

// call evaluates a call expression; returns its results.
func (m *machine) call(c *ast.CallExpr) []val {
	switch fn := c.Fun.(type) {
	case *ast.Ident:
		switch {
		case fn.Name == m.fname:
			if len(c.Args) != 1 || m.eval(c.Args[0]) != vTx {
				refusef("%s: the closure is not called on the transaction", m.pos(c))
			}
			m.called++
			switch m.scenario {
			case "nil":
				return []val{vNil}
			case "err":
				return []val{vErrClosure}
			}
			panic(unwinding{})
		case m.reset != "" && fn.Name == m.reset && len(c.Args) == 0:
			return nil
		case fn.Name == "convertErr" && len(c.Args) == 1:
			// maps bbolt's error values to walletdb's, everything else (nil, the
			// closure's error) to itself
			return []val{m.eval(c.Args[0])}
		case fn.Name == "recover":
			refusef("%s: recover()", m.pos(c))
		}
	case *ast.SelectorExpr:
		if x, ok := fn.X.(*ast.Ident); ok {
			switch {
			case x.Name == m.recv && len(c.Args) == 0 && (fn.Sel.Name == "BeginReadWriteTx" || fn.Sel.Name == "BeginReadTx"):
				w := fn.Sel.Name == "BeginReadWriteTx"
				m.writable = &w
				return []val{vTx, vNil}
			case x.Name == m.recv && fn.Sel.Name == "beginTx" && len(c.Args) == 1:
				if a, ok := c.Args[0].(*ast.Ident); ok && (a.Name == "true" || a.Name == "false") {
					w := a.Name == "true"
					m.writable = &w
					return []val{vTx, vNil}
				}
			case len(c.Args) == 0 && (fn.Sel.Name == "Commit" || fn.Sel.Name == "Rollback"):
				if v, ok := m.env[x.Name]; ok {
					if v != vTx {
						refusef("%s: %s on %s", m.pos(c), fn.Sel.Name, v)
					}
					if fn.Sel.Name == "Commit" {
						m.effect("commit")
					} else {
						m.effect("rollback")
					}
					return []val{vNil} // the call is assumed to succeed
				}
			}
		}
	}
	refusef("%s: call not understood", m.pos(c))
	return nil
}

func (m *machine) eval(e ast.Expr) val {
	switch x := e.(type) {
	case *ast.ParenExpr:
		return m.eval(x.X)
	case *ast.Ident:
		if x.Name == "nil" {
			return vNil
		}
		if v, ok := m.env[x.Name]; ok {
			return v
		}
		refusef("%s: variable %s not understood", m.pos(e), x.Name)
	case *ast.CallExpr:
		r := m.call(x)
		if len(r) != 1 {
			refusef("%s: call used as a single value", m.pos(e))
		}
		return r[0]
	}
	refusef("%s: expression not understood", m.pos(e))
	return vNil
}

func (m *machine) cond(e ast.Expr) bool {
	switch x := e.(type) {
	case *ast.ParenExpr:
		return m.cond(x.X)
	case *ast.UnaryExpr:
		if x.Op == token.NOT {
			return !m.cond(x.X)
		}
	case *ast.BinaryExpr:
		switch x.Op {
		case token.LAND:
			return m.cond(x.X) && m.cond(x.Y)
		case token.LOR:
			return m.cond(x.X) || m.cond(x.Y)
		case token.EQL, token.NEQ:
			var v val
			switch {
			case isIdent(x.Y, "nil"):
				v = m.eval(x.X)
			case isIdent(x.X, "nil"):
				v = m.eval(x.Y)
			default:
				refusef("%s: comparison not understood", m.pos(e))
			}
			if v == vFunc {
				refusef("%s: comparison of a function", m.pos(e))
			}
			return (v == vNil) == (x.Op == token.EQL)
		}
	}
	refusef("%s: condition not understood", m.pos(e))
	return false
}

func (m *machine) assign(lhs []ast.Expr, vals []val, at ast.Node) {
	if len(lhs) != len(vals) {
		refusef("%s: assignment count", m.pos(at))
	}
	for i, l := range lhs {
		id, ok := l.(*ast.Ident)
		if !ok {
			refusef("%s: assignment target not understood", m.pos(at))
		}
		if id.Name != "_" {
			m.env[id.Name] = vals[i]
		}
	}
}

func (m *machine) block(stmts []ast.Stmt) {
	for _, s := range stmts {
		m.stmt(s)
	}
}

func (m *machine) stmt(s ast.Stmt) {
	switch x := s.(type) {
	case *ast.EmptyStmt:
	case *ast.BlockStmt:
		m.block(x.List)
	case *ast.ExprStmt:
		c, ok := x.X.(*ast.CallExpr)
		if !ok {
			refusef("%s: statement not understood", m.pos(s))
		}
		m.call(c)
	case *ast.AssignStmt:
		if x.Tok != token.ASSIGN && x.Tok != token.DEFINE {
			refusef("%s: assignment operator", m.pos(s))
		}
		var vals []val
		if len(x.Rhs) == 1 {
			if c, ok := x.Rhs[0].(*ast.CallExpr); ok {
				vals = m.call(c)
			} else {
				vals = []val{m.eval(x.Rhs[0])}
			}
		} else {
			for _, r := range x.Rhs {
				vals = append(vals, m.eval(r))
			}
		}
		m.assign(x.Lhs, vals, s)
	case *ast.DeclStmt:
		gd, ok := x.Decl.(*ast.GenDecl)
		if !ok || gd.Tok != token.VAR {
			refusef("%s: declaration not understood", m.pos(s))
		}
		for _, sp := range gd.Specs {
			vs := sp.(*ast.ValueSpec)
			for i, n := range vs.Names {
				if len(vs.Values) == 0 {
					m.env[n.Name] = vNil
				} else if len(vs.Values) == len(vs.Names) {
					m.env[n.Name] = m.eval(vs.Values[i])
				} else {
					refusef("%s: declaration not understood", m.pos(s))
				}
			}
		}
	case *ast.IfStmt:
		if x.Init != nil {
			m.stmt(x.Init)
		}
		if m.cond(x.Cond) {
			m.block(x.Body.List)
		} else if x.Else != nil {
			m.stmt(x.Else)
		}
	case *ast.ReturnStmt:
		switch len(x.Results) {
		case 0:
			if m.result == "" {
				refusef("%s: bare return without a named result", m.pos(s))
			}
		case 1:
			v := m.eval(x.Results[0])
			if m.result != "" {
				m.env[m.result] = v
			} else {
				m.retVal = v
			}
		default:
			refusef("%s: return of several values", m.pos(s))
		}
		panic(returning{})
	case *ast.DeferStmt:
		switch fn := x.Call.Fun.(type) {
		case *ast.FuncLit:
			if len(x.Call.Args) != 0 || fn.Type.Params.NumFields() != 0 {
				refusef("%s: deferred function with arguments", m.pos(s))
			}
			body := fn.Body.List
			m.defers = append(m.defers, func() { m.deferredBody(body) })
		default:
			call := x.Call
			// receiver and arguments are evaluated now; only calls on the
			// transaction are understood, whose receiver is a variable
			if sel, ok := call.Fun.(*ast.SelectorExpr); !ok || len(call.Args) != 0 ||
				(sel.Sel.Name != "Rollback" && sel.Sel.Name != "Commit") {
				refusef("%s: deferred call not understood", m.pos(s))
			} else if id, ok := sel.X.(*ast.Ident); !ok || m.env[id.Name] != vTx {
				refusef("%s: deferred call not on the transaction", m.pos(s))
			}
			what := "rollback"
			if call.Fun.(*ast.SelectorExpr).Sel.Name == "Commit" {
				what = "commit"
			}
			m.defers = append(m.defers, func() { m.effect(what) })
		}
	default:
		refusef("%s: statement not understood", m.pos(s))
	}
}

// deferredBody runs the body of a deferred function literal: a return inside
// it ends that function only.
func (m *machine) deferredBody(body []ast.Stmt) {
	savedResult, savedRet := m.result, m.retVal
	defer func() {
		if p := recover(); p != nil {
			if _, ok := p.(returning); !ok {
				panic(p)
			}
		}
		m.retVal = savedRet
		m.result = savedResult
	}()
	// inside the literal a bare `return` is fine and a `return x` is not a
	// result of the method
	m.result = "\x00deferred"
	m.block(body)
}

// run executes the method once; returns (end, ret).
func (m *machine) run(body []ast.Stmt) (end, ret string) {
	panicking := false
	func() {
		defer func() {
			if p := recover(); p != nil {
				switch p.(type) {
				case returning:
				case unwinding:
					panicking = true
				default:
					panic(p)
				}
			}
		}()
		m.block(body)
		// fell off the end
		if m.result == "" {
			refusef("method body ends without a return")
		}
	}()
	for i := len(m.defers) - 1; i >= 0; i-- {
		func() {
			defer func() {
				if p := recover(); p != nil {
					if _, ok := p.(unwinding); ok {
						refusef("the closure is called from a deferred function")
					}
					panic(p)
				}
			}()
			m.defers[i]()
		}()
	}
	end = m.end
	if end == "" {
		end = "leak"
	}
	if panicking {
		return end, "panic"
	}
	v := m.retVal
	if m.result != "" {
		v = m.env[m.result]
	}
	switch v {
	case vNil:
		return end, "nil"
	case vErrClosure:
		return end, "err"
	}
	return end, "other"
}

// ---------------------------------------------------------------- reading the files

func parseFile(fset *token.FileSet, path string) *ast.File {
	f, err := parser.ParseFile(fset, path, nil, 0)
	if err != nil {
		refusef("parse %s: %v", path, err)
	}
	return f
}

func findMethod(f *ast.File, recvType, name string) *ast.FuncDecl {
	for _, d := range f.Decls {
		fd, ok := d.(*ast.FuncDecl)
		if !ok || fd.Name.Name != name || fd.Body == nil {
			continue
		}
		if recvType == "" {
			if fd.Recv == nil {
				return fd
			}
			continue
		}
		if fd.Recv == nil || len(fd.Recv.List) != 1 {
			continue
		}
		t := fd.Recv.List[0].Type
		if st, ok := t.(*ast.StarExpr); ok {
			t = st.X
		}
		if isIdent(t, recvType) {
			return fd
		}
	}
	return nil
}

func guard(fn func()) (why string) {
	defer func() {
		if p := recover(); p != nil {
			if r, ok := p.(refuse); ok {
				why = r.msg
				return
			}
			panic(p)
		}
	}()
	fn()
	return ""
}

func paramNames(fd *ast.FuncDecl) []string {
	var out []string
	for _, p := range fd.Type.Params.List {
		for _, n := range p.Names {
			out = append(out, n.Name)
		}
	}
	return out
}

func skeleton(fset *token.FileSet, f *ast.File, name string, wantWritable bool) method {
	var m method
	m.Why = guard(func() {
		fd := findMethod(f, "db", name)
		if fd == nil {
			refusef("method (*db).%s not found", name)
		}
		m.Where = fmt.Sprintf("%s (*db).%s", fset.Position(fd.Pos()), name)
		ps := paramNames(fd)
		if len(ps) < 1 || len(ps) > 2 || fd.Recv.List[0].Names == nil {
			refusef("%s: parameters not understood", m.Where)
		}
		result := ""
		if fd.Type.Results != nil && len(fd.Type.Results.List) == 1 && len(fd.Type.Results.List[0].Names) == 1 {
			result = fd.Type.Results.List[0].Names[0].Name
		} else if fd.Type.Results == nil || fd.Type.Results.NumFields() != 1 {
			refusef("%s: results not understood", m.Where)
		}
		m.Facts = map[string]fact{}
		for _, sc := range []string{"nil", "err", "panic"} {
			mc := &machine{fset: fset, scenario: sc, env: map[string]val{}, fname: ps[0], recv: fd.Recv.List[0].Names[0].Name, result: result}
			mc.env[ps[0]] = vFunc
			if len(ps) == 2 {
				mc.reset = ps[1]
				mc.env[ps[1]] = vFunc
			}
			if result != "" {
				mc.env[result] = vNil
			}
			end, ret := mc.run(fd.Body.List)
			if mc.called != 1 {
				refusef("%s: the closure is called %d times on the path of a closure ending in %s", m.Where, mc.called, sc)
			}
			if mc.writable == nil || *mc.writable != wantWritable {
				refusef("%s: does not begin a %s transaction", m.Where, map[bool]string{true: "read-write", false: "read-only"}[wantWritable])
			}
			m.Facts[sc] = fact{End: end, Ret: ret}
		}
	})
	m.OK = m.Why == ""
	if !m.OK {
		m.Facts = nil
	}
	return m
}

// batchShape: return [convertErr(] (*bbolt.DB)(db).Batch(func(btx *bbolt.Tx) error { ...; return f(<tx>) }) [)]
func batchShape(fset *token.FileSet, f *ast.File) method {
	var m method
	m.Why = guard(func() {
		fd := findMethod(f, "db", "Batch")
		if fd == nil {
			refusef("method (*db).Batch not found")
		}
		m.Where = fmt.Sprintf("%s (*db).Batch", fset.Position(fd.Pos()))
		ps := paramNames(fd)
		if len(ps) != 1 || len(fd.Body.List) != 1 {
			refusef("%s: shape not understood", m.Where)
		}
		rs, ok := fd.Body.List[0].(*ast.ReturnStmt)
		if !ok || len(rs.Results) != 1 {
			refusef("%s: not a single return", m.Where)
		}
		e := rs.Results[0]
		if c, ok := e.(*ast.CallExpr); ok && isIdent(c.Fun, "convertErr") && len(c.Args) == 1 {
			e = c.Args[0]
		}
		c, ok := e.(*ast.CallExpr)
		if !ok || len(c.Args) != 1 {
			refusef("%s: not a call of Batch", m.Where)
		}
		sel, ok := c.Fun.(*ast.SelectorExpr)
		if !ok || sel.Sel.Name != "Batch" {
			refusef("%s: not a call of Batch", m.Where)
		}
		lit, ok := c.Args[0].(*ast.FuncLit)
		if !ok || len(lit.Body.List) == 0 {
			refusef("%s: Batch is not given a function literal", m.Where)
		}
		// the literal: local definitions without calls, then `return f(x)`
		for _, s := range lit.Body.List[:len(lit.Body.List)-1] {
			as, ok := s.(*ast.AssignStmt)
			if !ok || as.Tok != token.DEFINE {
				refusef("%s: statement in the batch closure not understood", fset.Position(s.Pos()))
			}
			for _, r := range as.Rhs {
				ast.Inspect(r, func(n ast.Node) bool {
					if _, ok := n.(*ast.CallExpr); ok {
						refusef("%s: call in the batch closure", fset.Position(n.Pos()))
					}
					return true
				})
			}
		}
		last, ok := lit.Body.List[len(lit.Body.List)-1].(*ast.ReturnStmt)
		if !ok || len(last.Results) != 1 {
			refusef("%s: the batch closure does not end in a return", m.Where)
		}
		fc, ok := last.Results[0].(*ast.CallExpr)
		if !ok || !isIdent(fc.Fun, ps[0]) || len(fc.Args) != 1 {
			refusef("%s: the batch closure does not return f's result", m.Where)
		}
	})
	m.OK = m.Why == ""
	return m
}

// helpers: walletdb.View / Update / Batch pass f through.
func helperShapes(fset *token.FileSet, f *ast.File) method {
	var m method
	m.Why = guard(func() {
		for _, name := range []string{"View", "Update", "Batch"} {
			fd := findMethod(f, "", name)
			if fd == nil {
				refusef("function walletdb.%s not found", name)
			}
			ps := paramNames(fd)
			if len(ps) != 2 {
				refusef("walletdb.%s: parameters not understood", name)
			}
			// the last statement returns <x>.<name>(f, ...) ; before it only the
			// type assertion of Batch and its `if !ok { return <error> }`
			last, ok := fd.Body.List[len(fd.Body.List)-1].(*ast.ReturnStmt)
			if !ok || len(last.Results) != 1 {
				refusef("walletdb.%s does not end in a return", name)
			}
			c, ok := last.Results[0].(*ast.CallExpr)
			if !ok || len(c.Args) < 1 || !isIdent(c.Args[0], ps[1]) {
				refusef("walletdb.%s does not pass f on", name)
			}
			sel, ok := c.Fun.(*ast.SelectorExpr)
			if !ok || sel.Sel.Name != name {
				refusef("walletdb.%s does not call the database's %s", name, name)
			}
			for _, s := range fd.Body.List[:len(fd.Body.List)-1] {
				switch x := s.(type) {
				case *ast.AssignStmt:
					if _, ok := x.Rhs[0].(*ast.TypeAssertExpr); !ok || len(x.Rhs) != 1 {
						refusef("walletdb.%s: statement not understood", name)
					}
				case *ast.IfStmt:
					if x.Else != nil || len(x.Body.List) != 1 {
						refusef("walletdb.%s: statement not understood", name)
					}
					if _, ok := x.Body.List[0].(*ast.ReturnStmt); !ok {
						refusef("walletdb.%s: statement not understood", name)
					}
				default:
					refusef("walletdb.%s: statement not understood", name)
				}
			}
		}
	})
	m.OK = m.Why == ""
	return m
}

func main() {
	if len(os.Args) != 2 {
		fmt.Fprintln(os.Stderr, "usage: extract-c11 <repo>")
		os.Exit(2)
	}
	repo := os.Args[1]
	fset := token.NewFileSet()
	var rep report
	var dbf, ifc *ast.File
	if why := guard(func() {
		dbf = parseFile(fset, filepath.Join(repo, "walletdb", "bdb", "db.go"))
		ifc = parseFile(fset, filepath.Join(repo, "walletdb", "interface.go"))
	}); why != "" {
		rep.Update.Why, rep.View.Why, rep.Batch.Why, rep.Helpers.Why = why, why, why, why
	} else {
		rep.Update = skeleton(fset, dbf, "Update", true)
		rep.View = skeleton(fset, dbf, "View", false)
		rep.Batch = batchShape(fset, dbf)
		rep.Helpers = helperShapes(fset, ifc)
	}
	out, _ := json.Marshal(rep)
	fmt.Println(string(out))
}
