// Command vh is the implementation-side half of the correspondence checks: each
// sub-command runs the real btcwallet code (built from /repo's working tree
// through the replace directives of this module) on generated or replayed
// cases and prints one JSON object per case on stdout.
package main

import (
	"bufio"
	"encoding/json"
	"flag"
	"fmt"
	"os"
)

type cmdFn func(args []string, out *emitter) error

var commands = map[string]cmdFn{}

type emitter struct{ w *bufio.Writer }

func (e *emitter) emit(v interface{}) {
	b, err := json.Marshal(v)
	if err != nil {
		panic(err)
	}
	e.w.Write(b)
	e.w.WriteByte('\n')
}

func main() {
	if len(os.Args) < 2 {
		fmt.Fprintln(os.Stderr, "usage: vh <cmd> [flags]")
		os.Exit(2)
	}
	fn, ok := commands[os.Args[1]]
	if !ok {
		fmt.Fprintln(os.Stderr, "unknown command", os.Args[1])
		os.Exit(2)
	}
	out := &emitter{bufio.NewWriterSize(os.Stdout, 1<<20)}
	err := fn(os.Args[2:], out)
	out.w.Flush()
	if err != nil {
		fmt.Fprintln(os.Stderr, "vh:", err)
		os.Exit(3)
	}
}

// common flags
type common struct {
	n      int
	seed   int64
	replay string
}

func parseCommon(name string, args []string, extra func(fs *flag.FlagSet)) (*common, error) {
	fs := flag.NewFlagSet(name, flag.ContinueOnError)
	c := &common{}
	fs.IntVar(&c.n, "n", 100, "number of generated cases")
	fs.Int64Var(&c.seed, "seed", 1, "seed")
	fs.StringVar(&c.replay, "replay", "", "replay file (JSON lines of case inputs)")
	if extra != nil {
		extra(fs)
	}
	if err := fs.Parse(args); err != nil {
		return nil, err
	}
	return c, nil
}

// readReplay reads JSON-lines inputs from a file.
func readReplay(path string, each func(raw json.RawMessage) error) error {
	f, err := os.Open(path)
	if err != nil {
		return err
	}
	defer f.Close()
	sc := bufio.NewScanner(f)
	sc.Buffer(make([]byte, 1<<20), 1<<28)
	for sc.Scan() {
		line := sc.Bytes()
		if len(line) == 0 {
			continue
		}
		cp := make([]byte, len(line))
		copy(cp, line)
		if err := each(json.RawMessage(cp)); err != nil {
			return err
		}
	}
	return sc.Err()
}
