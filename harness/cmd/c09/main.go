// c09 drives the real wallet.Wallet (on a bbolt file, through the proxydb
// wrapper) with concurrent address-issuing calls under a deterministic script
// of call starts and commit-handler gate releases, and reports per scenario
// the addresses obtained, the observed transaction life-cycle events (the
// schedule) and the property oracle: duplicate_address, index_gap,
// memory_disk_disagree.
package main

import (
	"bytes"
	"encoding/json"
	"errors"
	"flag"
	"fmt"
	"os"
	"path/filepath"
	"runtime"
	"sort"
	"strconv"
	"strings"
	"sync"
	"time"

	"github.com/btcsuite/btcd/btcec/v2"
	"github.com/btcsuite/btcd/btcjson"
	"github.com/btcsuite/btcd/btcutil"
	"github.com/btcsuite/btcd/btcutil/hdkeychain"
	"github.com/btcsuite/btcd/btcutil/psbt"
	"github.com/btcsuite/btcd/chaincfg"
	"github.com/btcsuite/btcd/chaincfg/chainhash"
	"github.com/btcsuite/btcd/txscript"
	"github.com/btcsuite/btcd/wire"
	"github.com/btcsuite/btcwallet/chain"
	"github.com/btcsuite/btcwallet/snacl"
	"github.com/btcsuite/btcwallet/waddrmgr"
	"github.com/btcsuite/btcwallet/wallet"
	"github.com/btcsuite/btcwallet/walletdb"
	_ "github.com/btcsuite/btcwallet/walletdb/bdb"
	"github.com/btcsuite/btcwallet/wtxmgr"

	"verifharness/internal/core"
	"verifharness/internal/gen"
	"verifharness/internal/proxydb"
)

// ------------------------------------------------------------------ inputs

type callSpec struct {
	// NewAddress NewChangeAddress CurrentAddress CreateSimpleTx CreateSimpleTxDry FundPsbt
	// (on Account), and SpendImported SpendImportedDry FundPsbtImported: the same
	// spends with inputs owned by an imported private key
	// (account = waddrmgr.ImportedAddrAccount), whose change is created on account 0.
	API     string `json:"api"`
	Scope   string `json:"scope"`             // "84" | "86" | "49"
	Account uint32 `json:"account,omitempty"` // 0 (default) or 1 (scope 84 only)
	Gate    bool   `json:"gate"`              // park this call between its commit and its commit handlers
}

type stepSpec struct {
	Op   string `json:"op"` // start | release | start_all
	Call int    `json:"call"`
}

type scenario struct {
	Pre      []callSpec `json:"pre"`       // sequential warm-up requests (vary the start index)
	MarkUsed bool       `json:"mark_used"` // mark the last external address of scope 84 used first
	Warm     bool       `json:"warm"`      // read AccountProperties of every scope first (account cached)
	Calls    []callSpec `json:"calls"`
	Script   []stepSpec `json:"script"`
	Kind     string     `json:"kind"` // window | chain | random | stress (documentation + tags)
}

// ------------------------------------------------------------ observations

type callObs struct {
	API     string `json:"api"`
	Site    string `json:"site"`    // the wallet function whose Update issues (site table name)
	Scope   string `json:"scope"`   // scope of the branch this call draws from
	Account uint32 `json:"account"` // account whose counter this call draws from
	Branch  uint32 `json:"branch"`  // 0 external, 1 internal
	Addr    string `json:"addr"`
	Index   int64  `json:"index"`   // derivation index of Addr, -1 if none / not found
	Err     string `json:"err"`     // error returned by the API
	N       int    `json:"n"`       // derivations requested by its transaction: OnCommit registrations (one per nextAddresses call); 1 if it wrote without registering any
	Writes  int    `json:"writes"`  // mutating database calls of its transaction
	Commits bool   `json:"commits"` // its transaction committed
	Blocked bool   `json:"blocked"` // found blocked (not begun) right after its start while another call was parked
	Tx      bool   `json:"tx"`      // a write transaction was observed for it
}

type event struct {
	Ev   string `json:"ev"` // start begin commit rollback callbacks return release blocked
	Call int    `json:"call"`
}

type branchObs struct {
	Scope     string  `json:"scope"`
	Account   uint32  `json:"account"`
	Branch    uint32  `json:"branch"`
	N0        uint32  `json:"n0"`         // key count on disk before the concurrent phase
	Cached    bool    `json:"cached"`     // the account was loaded into memory before the concurrent phase
	Issued    []int64 `json:"issued"`     // indices obtained by committed calls, in call order
	MemAfter  uint32  `json:"mem_after"`  // key count the running wallet reports afterwards
	DiskAfter uint32  `json:"disk_after"` // key count a fresh waddrmgr.Open on a copy of the file reports
}

type obs struct {
	Calls    []callObs   `json:"calls"`
	Events   []event     `json:"events"`
	Branches []branchObs `json:"branches"`
	Notes    []string    `json:"notes"`
}

type caseOut struct {
	In     scenario `json:"in"`
	Obs    obs      `json:"obs"`
	Oracle []string `json:"oracle"`
	Tags   []string `json:"tags"`
	Site   string   `json:"site"`
}

// --------------------------------------------------------------- constants

var (
	params   = &chaincfg.TestNet3Params
	pubPass  = []byte("public")
	privPass = []byte("private")
	scopes   = map[string]waddrmgr.KeyScope{
		"84": waddrmgr.KeyScopeBIP0084,
		"86": waddrmgr.KeyScopeBIP0086,
		"49": waddrmgr.KeyScopeBIP0049Plus,
	}
	scopeNames = []string{"49", "84", "86"}
	// the index counters observed: account 0 of every scope, account 1 of scope 84
	counters   = []ctr{{"49", 0}, {"84", 0}, {"84", 1}, {"86", 0}}
	fundHash   chainhash.Hash // txid of the funding transaction of the template
	fundScript []byte         // pays external address 0 of account 0, scope 84 (output 0)
)

// outputs of the funding transaction
const (
	fundOutAcct0    = 0
	fundOutAcct1    = 1
	fundOutImported = 2
)

type ctr struct {
	scope   string
	account uint32
}

func (c ctr) String() string { return fmt.Sprintf("%s/%d", c.scope, c.account) }

func isImportedSpend(api string) bool {
	return api == "SpendImported" || api == "SpendImportedDry" || api == "FundPsbtImported"
}

// counterOf is the (scope, account) whose next index the call advances: a
// spend from the imported account creates its change on account 0.
func counterOf(c callSpec) ctr {
	if isImportedSpend(c.API) {
		return ctr{c.Scope, 0}
	}
	return ctr{c.Scope, c.Account}
}

const fundAmount = 100000000

// siteOf maps an API call to the wallet function that opens the issuing
// transaction (the name used in the generated site table).
func siteOf(api string) string {
	switch api {
	case "CreateSimpleTx", "CreateSimpleTxDry", "SpendImported", "SpendImportedDry":
		return "txToOutputs"
	case "FundPsbtImported":
		return "FundPsbt"
	default:
		return api
	}
}

func branchOf(api string) uint32 {
	switch api {
	case "NewAddress", "CurrentAddress":
		return waddrmgr.ExternalBranch
	}
	return waddrmgr.InternalBranch
}

// --------------------------------------------------------- fake chain client

type fakeChain struct{}

var _ chain.Interface = (*fakeChain)(nil)

func (fakeChain) Start() error     { return nil }
func (fakeChain) Stop()            {}
func (fakeChain) WaitForShutdown() {}
func (fakeChain) GetBestBlock() (*chainhash.Hash, int32, error) {
	return &chainhash.Hash{}, 200, nil
}
func (fakeChain) GetBlock(*chainhash.Hash) (*wire.MsgBlock, error) {
	return nil, errors.New("no block")
}
func (fakeChain) GetBlockHash(int64) (*chainhash.Hash, error) { return nil, errors.New("no hash") }
func (fakeChain) GetBlockHeader(*chainhash.Hash) (*wire.BlockHeader, error) {
	return nil, errors.New("no header")
}
func (fakeChain) IsCurrent() bool { return true }
func (fakeChain) FilterBlocks(*chain.FilterBlocksRequest) (*chain.FilterBlocksResponse, error) {
	return nil, nil
}
func (fakeChain) BlockStamp() (*waddrmgr.BlockStamp, error) {
	return &waddrmgr.BlockStamp{Height: 200, Timestamp: time.Unix(1700000000, 0)}, nil
}
func (fakeChain) SendRawTransaction(*wire.MsgTx, bool) (*chainhash.Hash, error) {
	return nil, errors.New("not connected")
}
func (fakeChain) Rescan(*chainhash.Hash, []btcutil.Address, map[wire.OutPoint]btcutil.Address) error {
	return nil
}
func (fakeChain) NotifyReceived([]btcutil.Address) error { return nil }
func (fakeChain) NotifyBlocks() error                    { return nil }
func (fakeChain) Notifications() <-chan interface{}      { return nil }
func (fakeChain) BackEnd() string                        { return "verif" }
func (fakeChain) TestMempoolAccept([]*wire.MsgTx, float64) ([]*btcjson.TestMempoolAcceptResult, error) {
	return nil, nil
}
func (fakeChain) MapRPCErr(err error) error { return err }

// ------------------------------------------------------------- goroutine ids

func goid() int64 {
	var buf [64]byte
	n := runtime.Stack(buf[:], false)
	f := strings.Fields(string(buf[:n]))
	if len(f) < 2 {
		return -1
	}
	id, _ := strconv.ParseInt(f[1], 10, 64)
	return id
}

// goStates returns goroutine id -> wait state, and the id of the goroutine
// whose stack contains marker (or -1).
func goStates(marker string) (map[int64]string, int64) {
	buf := make([]byte, 1<<20)
	for {
		n := runtime.Stack(buf, true)
		if n < len(buf) {
			buf = buf[:n]
			break
		}
		buf = make([]byte, 2*len(buf))
	}
	st := map[int64]string{}
	found := int64(-1)
	for _, blk := range strings.Split(string(buf), "\n\n") {
		if !strings.HasPrefix(blk, "goroutine ") {
			continue
		}
		head := blk
		if i := strings.IndexByte(blk, '\n'); i >= 0 {
			head = blk[:i]
		}
		f := strings.Fields(head)
		if len(f) < 3 {
			continue
		}
		id, _ := strconv.ParseInt(f[1], 10, 64)
		s := head[strings.IndexByte(head, '[')+1:]
		if i := strings.IndexAny(s, ",]"); i >= 0 {
			s = s[:i]
		}
		st[id] = s
		if marker != "" && strings.Contains(blk, marker) {
			found = id
		}
	}
	return st, found
}

func blockedState(s string) bool {
	switch {
	case strings.HasPrefix(s, "sync."), strings.HasPrefix(s, "semacquire"),
		strings.HasPrefix(s, "chan "), s == "select", s == "select (no cases)":
		return true
	}
	return false
}

// ------------------------------------------------------------------ wallet

type env struct {
	dir      string
	template string
	seq      int
}

func fastKeyGen(passphrase *[]byte, _ *waddrmgr.ScryptOptions) (*snacl.SecretKey, error) {
	return snacl.NewSecretKey(passphrase, 16, 8, 1)
}

type opened struct {
	path  string
	real  walletdb.DB
	proxy *proxydb.DB
	w     *wallet.Wallet
}

func (e *env) open(path string) (*opened, error) {
	db, err := walletdb.Open("bdb", path, true, time.Minute, false)
	if err != nil {
		return nil, err
	}
	p := proxydb.New(db)
	w, err := wallet.Open(p, pubPass, nil, params, 250)
	if err != nil {
		db.Close()
		return nil, err
	}
	w.Start()
	w.SynchronizeRPC(fakeChain{})
	if err := w.Unlock(privPass, nil); err != nil {
		return nil, err
	}
	return &opened{path: path, real: db, proxy: p, w: w}, nil
}

func (o *opened) close() {
	o.proxy.SetHooks(nil)
	o.w.Stop()
	o.w.WaitForShutdown()
	o.real.Close()
}

// makeTemplate creates the wallet file every scenario starts from: fixed
// seed, account 1 in scope 84, one imported private key (scope 84), and one
// confirmed transaction paying 1 BTC each to external address 0 of account 0,
// external address 0 of account 1 and the imported key's address.
func (e *env) makeTemplate() error {
	e.template = filepath.Join(e.dir, "template.db")
	db, err := walletdb.Create("bdb", e.template, true, time.Minute, false)
	if err != nil {
		return err
	}
	seed := bytes.Repeat([]byte{0x5a}, hdkeychain.RecommendedSeedLen)
	root, err := hdkeychain.NewMaster(seed, params)
	if err != nil {
		return err
	}
	if err := wallet.Create(db, pubPass, privPass, root, params, time.Unix(1600000000, 0)); err != nil {
		return err
	}
	if err := db.Close(); err != nil {
		return err
	}
	o, err := e.open(e.template)
	if err != nil {
		return err
	}
	defer o.close()
	addr, err := o.w.CurrentAddress(0, waddrmgr.KeyScopeBIP0084)
	if err != nil {
		return err
	}
	fundScript, err = txscript.PayToAddrScript(addr)
	if err != nil {
		return err
	}
	acct1, err := o.w.NextAccount(waddrmgr.KeyScopeBIP0084, "acct1")
	if err != nil {
		return err
	}
	if acct1 != 1 {
		return fmt.Errorf("second account has number %d", acct1)
	}
	addr1, err := o.w.CurrentAddress(1, waddrmgr.KeyScopeBIP0084)
	if err != nil {
		return err
	}
	script1, err := txscript.PayToAddrScript(addr1)
	if err != nil {
		return err
	}
	priv, _ := btcec.PrivKeyFromBytes(bytes.Repeat([]byte{0x37}, 32))
	wif, err := btcutil.NewWIF(priv, params, true)
	if err != nil {
		return err
	}
	var addrI btcutil.Address
	err = walletdb.Update(o.w.Database(), func(dbtx walletdb.ReadWriteTx) error {
		sm, err := o.w.Manager.FetchScopedKeyManager(waddrmgr.KeyScopeBIP0084)
		if err != nil {
			return err
		}
		ma, err := sm.ImportPrivateKey(dbtx.ReadWriteBucket([]byte("waddrmgr")), wif, nil)
		if err != nil {
			return err
		}
		addrI = ma.Address()
		return nil
	})
	if err != nil {
		return fmt.Errorf("import private key: %w", err)
	}
	scriptI, err := txscript.PayToAddrScript(addrI)
	if err != nil {
		return err
	}
	tx := wire.NewMsgTx(2)
	tx.AddTxIn(&wire.TxIn{PreviousOutPoint: wire.OutPoint{Index: 7}})
	tx.AddTxOut(wire.NewTxOut(fundAmount, fundScript))
	tx.AddTxOut(wire.NewTxOut(fundAmount, script1))
	tx.AddTxOut(wire.NewTxOut(fundAmount, scriptI))
	var b bytes.Buffer
	if err := tx.Serialize(&b); err != nil {
		return err
	}
	rec, err := wtxmgr.NewTxRecord(b.Bytes(), time.Unix(1650000000, 0))
	if err != nil {
		return err
	}
	fundHash = rec.Hash
	blk := &wtxmgr.BlockMeta{Block: wtxmgr.Block{Hash: chainhash.Hash{1}, Height: 100}, Time: time.Unix(1650000000, 0)}
	return walletdb.Update(o.w.Database(), func(dbtx walletdb.ReadWriteTx) error {
		ns := dbtx.ReadWriteBucket([]byte("wtxmgr"))
		if err := o.w.TxStore.InsertTx(ns, rec, blk); err != nil {
			return err
		}
		for i := uint32(0); i < 3; i++ {
			if err := o.w.TxStore.AddCredit(ns, rec, blk, i, false); err != nil {
				return err
			}
		}
		return nil
	})
}

func copyFile(src, dst string) error {
	b, err := os.ReadFile(src)
	if err != nil {
		return err
	}
	return os.WriteFile(dst, b, 0600)
}

// diskCounts opens a COPY of the database with a fresh address manager and
// returns scope -> (external, internal) key counts of account 0.
func (e *env) diskCounts(db walletdb.DB) (map[string][2]uint32, error) {
	e.seq++
	cp := filepath.Join(e.dir, fmt.Sprintf("copy%d.db", e.seq))
	f, err := os.Create(cp)
	if err != nil {
		return nil, err
	}
	if err := db.Copy(f); err != nil {
		f.Close()
		return nil, err
	}
	f.Close()
	defer os.Remove(cp)
	cdb, err := walletdb.Open("bdb", cp, true, time.Minute, true)
	if err != nil {
		return nil, err
	}
	defer cdb.Close()
	out := map[string][2]uint32{}
	err = walletdb.View(cdb, func(tx walletdb.ReadTx) error {
		ns := tx.ReadBucket([]byte("waddrmgr"))
		mgr, err := waddrmgr.Open(ns, pubPass, params)
		if err != nil {
			return err
		}
		defer mgr.Close()
		for _, c := range counters {
			sm, err := mgr.FetchScopedKeyManager(scopes[c.scope])
			if err != nil {
				return err
			}
			p, err := sm.AccountProperties(ns, c.account)
			if err != nil {
				return err
			}
			out[c.String()] = [2]uint32{p.ExternalKeyCount, p.InternalKeyCount}
		}
		return nil
	})
	return out, err
}

func memCounts(w *wallet.Wallet) (map[string][2]uint32, error) {
	out := map[string][2]uint32{}
	for _, c := range counters {
		p, err := w.AccountProperties(scopes[c.scope], c.account)
		if err != nil {
			return nil, err
		}
		out[c.String()] = [2]uint32{p.ExternalKeyCount, p.InternalKeyCount}
	}
	return out, nil
}

// ---------------------------------------------------------------- one run

type txState struct{ call int }

type run struct {
	o  *opened
	sc scenario

	mu        sync.Mutex // the log lock: also held around real commits/rollbacks
	gidCall   map[int64]int
	creator   int64    // goroutine id of wallet.txCreator
	creatorTx *txState // the write transaction currently open in txCreator
	started   []bool
	returned  []bool
	parked    []bool
	release   []chan struct{}
	released  []bool
	gids      []int64
	results   []callObs
	notes     []string
	wg        sync.WaitGroup
	order     []logItem
}

// logItem is either a harness-level event (st == nil) or a transaction event
// whose owner is resolved when the scenario is over.
type logItem struct {
	ev   string
	call int
	st   *txState
}

func (r *run) hooks() *proxydb.Hooks {
	return &proxydb.Hooks{
		OnBegin: func(tx *proxydb.TxInfo) {
			if !tx.Writable {
				return
			}
			g := goid()
			r.mu.Lock()
			st := &txState{call: -1}
			if c, ok := r.gidCall[g]; ok {
				st.call = c
			} else if g == r.creator {
				r.creatorTx = st
			}
			tx.User = st
			r.order = append(r.order, logItem{ev: "begin", st: st})
			r.mu.Unlock()
		},
		AroundCommit: func(tx *proxydb.TxInfo, commit func() error) error {
			st := tx.User.(*txState)
			r.mu.Lock()
			err := commit()
			if err == nil {
				r.order = append(r.order, logItem{ev: "commit", st: st})
			} else {
				r.order = append(r.order, logItem{ev: "rollback", st: st})
			}
			if st.call >= 0 {
				r.record(st.call, tx, err == nil)
			}
			r.mu.Unlock()
			return err
		},
		AroundRollback: func(tx *proxydb.TxInfo, rollback func() error) error {
			st := tx.User.(*txState)
			r.mu.Lock()
			err := rollback()
			r.order = append(r.order, logItem{ev: "rollback", st: st})
			if st.call >= 0 {
				r.record(st.call, tx, false)
			}
			r.mu.Unlock()
			return err
		},
		AfterCommit: func(tx *proxydb.TxInfo) {
			st := tx.User.(*txState)
			if st.call < 0 || !r.sc.Calls[st.call].Gate {
				return
			}
			r.mu.Lock()
			if r.released[st.call] {
				r.mu.Unlock()
				return
			}
			r.parked[st.call] = true
			ch := r.release[st.call]
			r.mu.Unlock()
			<-ch
			r.mu.Lock()
			r.parked[st.call] = false
			r.mu.Unlock()
		},
		AfterCallbacks: func(tx *proxydb.TxInfo) {
			st := tx.User.(*txState)
			r.mu.Lock()
			r.order = append(r.order, logItem{ev: "callbacks", st: st})
			r.mu.Unlock()
		},
	}
}

// record notes what the proxy saw of call i's transaction (r.mu held).
func (r *run) record(i int, tx *proxydb.TxInfo, committed bool) {
	res := &r.results[i]
	res.N = tx.Callbacks
	res.Writes = tx.Writes
	if tx.Callbacks == 0 && tx.Writes > 0 {
		// the address requests under test write only when they derive
		res.N = 1
		r.notes = append(r.notes, fmt.Sprintf("call %d wrote to the database without registering a commit handler", i))
	}
	res.Commits = committed
	res.Tx = true
}

// ownCreatorTx is called (through the UTXO filter) inside the transaction
// that wallet.txCreator runs for call i.
func (r *run) ownCreatorTx(i int) {
	if goid() != r.creator {
		return
	}
	r.mu.Lock()
	if r.creatorTx != nil && r.creatorTx.call < 0 {
		r.creatorTx.call = i
	}
	r.mu.Unlock()
}

func txOutputs() []*wire.TxOut {
	return []*wire.TxOut{wire.NewTxOut(10000, fundScript)}
}

// invoke performs one API call and returns what it obtained.
func (r *run) invoke(i int, c callSpec) callObs {
	w := r.o.w
	sc := scopes[c.Scope]
	res := callObs{API: c.API, Site: siteOf(c.API), Scope: c.Scope, Account: counterOf(c).account,
		Branch: branchOf(c.API), Index: -1}
	if c.Account > 1 || (c.Account == 1 && c.Scope != "84") {
		res.Err = "harness: account 1 exists in scope 84 only"
		return res
	}
	var addr btcutil.Address
	var err error
	filter := wallet.WithUtxoFilter(func(wtxmgr.Credit) bool {
		if i >= 0 {
			r.ownCreatorTx(i)
		}
		return true
	})
	changeAddr := func(tx *wire.MsgTx, idx int) (btcutil.Address, error) {
		if idx < 0 {
			return nil, nil
		}
		_, addrs, _, err := txscript.ExtractPkScriptAddrs(tx.TxOut[idx].PkScript, params)
		if err != nil || len(addrs) != 1 {
			return nil, fmt.Errorf("change script not understood: %v", err)
		}
		return addrs[0], nil
	}
	k84 := waddrmgr.KeyScopeBIP0084
	switch c.API {
	case "NewAddress":
		addr, err = w.NewAddress(c.Account, sc)
	case "NewChangeAddress":
		addr, err = w.NewChangeAddress(c.Account, sc)
	case "CurrentAddress":
		addr, err = w.CurrentAddress(c.Account, sc)
	case "CreateSimpleTx", "CreateSimpleTxDry", "SpendImported", "SpendImportedDry":
		// coins are selected among the outputs of the spending account in
		// scope 84; a spend from the imported account takes the coin of the
		// imported key and creates its change on account 0
		from := c.Account
		if isImportedSpend(c.API) {
			from = waddrmgr.ImportedAddrAccount
		}
		atx, e2 := w.CreateSimpleTx(&k84, from, txOutputs(), 1, 2000, wallet.CoinSelectionLargest,
			strings.HasSuffix(c.API, "Dry"), wallet.WithCustomChangeScope(&sc), filter)
		err = e2
		if err == nil {
			addr, err = changeAddr(atx.Tx, atx.ChangeIndex)
		}
	case "FundPsbt", "FundPsbtImported":
		from, coin := c.Account, uint32(fundOutAcct0)
		if c.Account == 1 {
			coin = fundOutAcct1
		}
		if isImportedSpend(c.API) {
			from, coin = waddrmgr.ImportedAddrAccount, fundOutImported
		}
		utx := wire.NewMsgTx(2)
		utx.AddTxIn(&wire.TxIn{PreviousOutPoint: wire.OutPoint{Hash: fundHash, Index: coin}})
		for _, o := range txOutputs() {
			utx.AddTxOut(o)
		}
		pkt, e2 := psbt.NewFromUnsignedTx(utx)
		if e2 != nil {
			err = e2
			break
		}
		idx, e2 := w.FundPsbt(pkt, &k84, 1, from, 2000, wallet.CoinSelectionLargest, wallet.WithCustomChangeScope(&sc))
		err = e2
		if err == nil {
			addr, err = changeAddr(pkt.UnsignedTx, int(idx))
		}
	default:
		err = fmt.Errorf("unknown api %q", c.API)
	}
	if err != nil {
		res.Err = err.Error()
		return res
	}
	if addr != nil {
		res.Addr = addr.EncodeAddress()
	}
	return res
}

// resolve fills scope/branch/index of the address a call obtained.
func (r *run) resolve(res *callObs) {
	if res.Addr == "" {
		return
	}
	a, err := btcutil.DecodeAddress(res.Addr, params)
	if err != nil {
		r.notes = append(r.notes, "decode "+res.Addr+": "+err.Error())
		return
	}
	ma, err := r.o.w.AddressInfo(a)
	if err != nil {
		// dry runs: the address was rolled back
		return
	}
	pk, ok := ma.(waddrmgr.ManagedPubKeyAddress)
	if !ok {
		return
	}
	ks, path, ok := pk.DerivationInfo()
	if !ok {
		return
	}
	for n, s := range scopes {
		if s == ks {
			res.Scope = n
		}
	}
	res.Account = path.InternalAccount
	res.Branch = path.Branch
	res.Index = int64(path.Index)
}

func (r *run) startCall(i int) {
	r.mu.Lock()
	r.started[i] = true
	r.order = append(r.order, logItem{ev: "start", call: i})
	r.mu.Unlock()
	ready := make(chan struct{})
	r.wg.Add(1)
	go func() {
		defer r.wg.Done()
		g := goid()
		r.mu.Lock()
		r.gidCall[g] = i
		r.gids[i] = g
		r.mu.Unlock()
		close(ready)
		res := r.invoke(i, r.sc.Calls[i])
		r.mu.Lock()
		// keep what the hooks recorded
		res.N, res.Commits, res.Tx, res.Blocked = r.results[i].N, r.results[i].Commits, r.results[i].Tx, r.results[i].Blocked
		res.Writes = r.results[i].Writes
		r.results[i] = res
		r.returned[i] = true
		r.order = append(r.order, logItem{ev: "return", call: i})
		r.mu.Unlock()
	}()
	<-ready
}

// settle waits until no started call can make progress on its own: each one
// has returned, is parked at its gate, or its goroutine (and wallet.txCreator
// for the calls it serves) sits in a blocking state, with no new event over
// consecutive polls.
func (r *run) settle() {
	deadline := time.Now().Add(3 * time.Second)
	stable, last := 0, -1
	for {
		time.Sleep(300 * time.Microsecond)
		r.mu.Lock()
		n := len(r.order)
		var waiting []int
		needCreator := false
		for i := range r.started {
			if r.started[i] && !r.returned[i] {
				if !r.parked[i] {
					waiting = append(waiting, i)
				}
				if siteOf(r.sc.Calls[i].API) == "txToOutputs" {
					needCreator = true
				}
			}
		}
		gids := append([]int64{}, r.gids...)
		r.mu.Unlock()
		busy := false
		if len(waiting) > 0 || needCreator {
			st, _ := goStates("")
			for _, i := range waiting {
				if !blockedState(st[gids[i]]) {
					busy = true
				}
			}
			if needCreator && !blockedState(st[r.creator]) {
				busy = true
			}
		}
		if !busy && n == last {
			stable++
		} else {
			stable = 0
		}
		last = n
		if stable >= 3 {
			return
		}
		if time.Now().After(deadline) {
			r.mu.Lock()
			r.notes = append(r.notes, "settle timeout")
			r.mu.Unlock()
			return
		}
	}
}

func (r *run) doRelease(i int) {
	r.mu.Lock()
	if !r.released[i] {
		r.released[i] = true
		close(r.release[i])
		r.order = append(r.order, logItem{ev: "release", call: i})
	}
	r.mu.Unlock()
}

// errStuck is returned (together with what was observed so far) when requests
// do not return although every gate is open: the wallet under test is wedged
// (for instance a lock-order inversion introduced by an edit) and the process
// cannot go on.
var errStuck = errors.New("requests never returned; wallet wedged")

func (e *env) runScenario(sc scenario) (obs, error) {
	var out obs
	e.seq++
	path := filepath.Join(e.dir, fmt.Sprintf("w%d.db", e.seq))
	if err := copyFile(e.template, path); err != nil {
		return out, err
	}
	defer os.Remove(path)
	o, err := e.open(path)
	if err != nil {
		return out, err
	}
	stuck := false
	defer func() {
		if !stuck {
			o.close()
		}
	}()
	n := len(sc.Calls)
	r := &run{o: o, sc: sc, gidCall: map[int64]int{}, started: make([]bool, n), returned: make([]bool, n),
		parked: make([]bool, n), release: make([]chan struct{}, n), released: make([]bool, n),
		gids: make([]int64, n), results: make([]callObs, n)}
	for i := range r.release {
		r.release[i] = make(chan struct{})
	}
	_, r.creator = goStates("wallet.(*Wallet).txCreator")
	if r.creator < 0 {
		return out, errors.New("wallet.txCreator goroutine not found")
	}

	// warm-up, sequential, no hooks
	cached := map[string]bool{}
	for _, c := range sc.Pre {
		res := r.invoke(-1, c)
		if res.Err != "" {
			return out, fmt.Errorf("warm-up %s failed: %s", c.API, res.Err)
		}
		cached[counterOf(c).String()] = true
		if siteOf(c.API) == "txToOutputs" || siteOf(c.API) == "FundPsbt" {
			cached["84/0"] = true
		}
	}
	if sc.MarkUsed {
		a, err := o.w.CurrentAddress(0, waddrmgr.KeyScopeBIP0084)
		if err != nil {
			return out, err
		}
		err = walletdb.Update(o.w.Database(), func(tx walletdb.ReadWriteTx) error {
			return o.w.Manager.MarkUsed(tx.ReadWriteBucket([]byte("waddrmgr")), a)
		})
		if err != nil {
			return out, err
		}
		cached["84/0"] = true
	}
	if sc.Warm {
		if _, err := memCounts(o.w); err != nil {
			return out, err
		}
		for _, c := range counters {
			cached[c.String()] = true
		}
	}
	before, err := e.diskCounts(o.proxy)
	if err != nil {
		return out, err
	}

	// concurrent phase
	o.proxy.SetHooks(r.hooks())
	for _, st := range sc.Script {
		switch st.Op {
		case "start":
			if st.Call < 0 || st.Call >= n || r.started[st.Call] {
				return out, fmt.Errorf("bad script step %+v", st)
			}
			anyParked := false
			r.mu.Lock()
			for i := range r.parked {
				anyParked = anyParked || r.parked[i]
			}
			r.mu.Unlock()
			r.startCall(st.Call)
			r.settle()
			r.mu.Lock()
			if anyParked && !r.returned[st.Call] && !r.parked[st.Call] && !r.results[st.Call].Tx {
				// it has not even begun its transaction while another call
				// sits between commit and handlers: it is waiting for the mutex
				r.results[st.Call].Blocked = true
				r.order = append(r.order, logItem{ev: "blocked", call: st.Call})
			}
			r.mu.Unlock()
		case "release":
			if st.Call < 0 || st.Call >= n {
				return out, fmt.Errorf("bad script step %+v", st)
			}
			r.doRelease(st.Call)
			r.settle()
		case "start_all":
			for i := 0; i < n; i++ {
				if !r.started[i] {
					r.startCall(i)
				}
			}
		default:
			return out, fmt.Errorf("bad script op %q", st.Op)
		}
	}
	// drain: start what the script forgot, open every gate
	for i := 0; i < n; i++ {
		if !r.started[i] {
			r.startCall(i)
		}
	}
	done := make(chan struct{})
	go func() { r.wg.Wait(); close(done) }()
	drainDeadline := time.Now().Add(10 * time.Second)
	for open := false; !open; {
		if time.Now().After(drainDeadline) {
			stuck = true
			break
		}
		select {
		case <-done:
			open = true
		case <-time.After(2 * time.Millisecond):
			r.settle()
			r.mu.Lock()
			for i := 0; i < n; i++ {
				if r.parked[i] && !r.released[i] {
					r.released[i] = true
					close(r.release[i])
					r.order = append(r.order, logItem{ev: "release", call: i})
					break // one at a time, in call order
				}
			}
			r.mu.Unlock()
		}
	}
	if stuck {
		st, _ := goStates("")
		r.mu.Lock()
		for i := 0; i < n; i++ {
			if !r.returned[i] {
				r.notes = append(r.notes, fmt.Sprintf("call %d (%s) never returned; goroutine state %q, wallet.txCreator %q",
					i, sc.Calls[i].API, st[r.gids[i]], st[r.creator]))
			}
		}
		out.Calls = append([]callObs{}, r.results...)
		for _, it := range r.order {
			c := it.call
			if it.st != nil {
				c = it.st.call
			}
			out.Events = append(out.Events, event{Ev: it.ev, Call: c})
		}
		out.Notes = r.notes
		out.Branches = []branchObs{}
		r.mu.Unlock()
		return out, errStuck
	}
	o.proxy.SetHooks(nil)

	// observations
	for i := range r.results {
		r.resolve(&r.results[i])
	}
	out.Calls = r.results
	for _, it := range r.order {
		c := it.call
		if it.st != nil {
			c = it.st.call
			if c < 0 {
				r.notes = append(r.notes, "write transaction not attributed to a call: "+it.ev)
			}
		}
		out.Events = append(out.Events, event{Ev: it.ev, Call: c})
	}
	after, err := e.diskCounts(o.proxy)
	if err != nil {
		return out, err
	}
	mem, err := memCounts(o.w)
	if err != nil {
		return out, err
	}
	for _, ct := range counters {
		k := ct.String()
		for br := uint32(0); br < 2; br++ {
			b := branchObs{Scope: ct.scope, Account: ct.account, Branch: br, N0: before[k][br], Cached: cached[k],
				MemAfter: mem[k][br], DiskAfter: after[k][br], Issued: []int64{}}
			for _, c := range r.results {
				if c.Err == "" && c.Commits && c.N > 0 && c.Index >= 0 && c.Scope == ct.scope &&
					c.Account == ct.account && c.Branch == br {
					b.Issued = append(b.Issued, c.Index)
				}
			}
			out.Branches = append(out.Branches, b)
		}
	}
	out.Notes = r.notes
	if out.Notes == nil {
		out.Notes = []string{}
	}
	return out, nil
}

// oracle states the property on what the implementation did.
func oracle(o obs) []string {
	bad := map[string]bool{}
	seen := map[string]int{}
	for i, c := range o.Calls {
		// only requests that derived something and committed issue an
		// address (CurrentAddress answering with the existing unused address
		// and dry runs do not)
		if c.Err != "" || !c.Commits || c.N == 0 || c.Addr == "" {
			continue
		}
		if _, dup := seen[c.Addr]; dup {
			bad["duplicate_address"] = true
		}
		seen[c.Addr] = i
	}
	for _, b := range o.Branches {
		set := map[int64]bool{}
		for _, x := range b.Issued {
			set[x] = true
		}
		for k := 0; k < len(set); k++ {
			if !set[int64(b.N0)+int64(k)] {
				bad["index_gap"] = true
			}
		}
		if b.MemAfter != b.DiskAfter {
			bad["memory_disk_disagree"] = true
		}
		// every index the database says was handed out went to a call
		if int64(b.DiskAfter) != int64(b.N0)+int64(len(set)) {
			bad["index_gap"] = true
		}
	}
	var out []string
	for k := range bad {
		out = append(out, k)
	}
	sort.Strings(out)
	return out
}

// ------------------------------------------------------------- generation

var apis = []string{"NewAddress", "NewChangeAddress", "CurrentAddress", "CreateSimpleTx", "CreateSimpleTxDry", "FundPsbt"}

// all request kinds of the random scripts: the above plus the spends whose
// inputs belong to the imported account (change lands on account 0)
var allAPIs = append(append([]string{}, apis...), "SpendImported", "SpendImportedDry", "FundPsbtImported")

func tagsOf(sc scenario, o obs) []string {
	t := map[string]bool{"kind_" + sc.Kind: true, fmt.Sprintf("calls_%d", len(sc.Calls)): true}
	for _, c := range sc.Calls {
		t["api_"+c.API] = true
		if isImportedSpend(c.API) {
			t["imported_account_spend"] = true
		}
		if c.Account == 1 {
			t["account_1"] = true
		}
		if c.Gate {
			t["gated"] = true
		}
	}
	for _, c := range o.Calls {
		if c.Blocked {
			t["blocked_on_mutex_while_other_parked"] = true
		}
		if c.Err != "" {
			t["call_error"] = true
		}
		if c.Tx && !c.Commits {
			t["rolled_back"] = true
		}
		if c.Tx && c.Commits && c.N == 0 {
			t["committed_without_derivation"] = true
		}
	}
	for _, b := range o.Branches {
		if len(b.Issued) >= 2 {
			t["branch_with_2plus_issued"] = true
		}
		if !b.Cached && len(b.Issued) > 0 {
			t["uncached_account"] = true
		}
	}
	if sc.MarkUsed {
		t["used_tip"] = true
	}
	if len(o.Notes) > 0 {
		t["notes"] = true
	}
	var out []string
	for k := range t {
		out = append(out, k)
	}
	sort.Strings(out)
	return out
}

func windowScenario(a, b callSpec, markUsed bool, pre int) scenario {
	a.Gate = true
	sc := scenario{Kind: "window", MarkUsed: markUsed, Calls: []callSpec{a, b},
		Script: []stepSpec{{"start", 0}, {"start", 1}, {"release", 0}, {"release", 1}}}
	for i := 0; i < pre; i++ {
		sc.Pre = append(sc.Pre, callSpec{API: []string{"NewAddress", "NewChangeAddress"}[i%2], Scope: "84"})
	}
	if sc.Pre == nil {
		sc.Pre = []callSpec{}
	}
	return sc
}

func randomScenario(r *gen.R) scenario {
	sc := scenario{Pre: []callSpec{}}
	n := r.Range(2, 8)
	kind := r.Pick(3, 4, 2)
	sc.Kind = []string{"chain", "random", "stress"}[kind]
	if sc.Kind == "stress" {
		n = r.Range(6, 16)
	}
	for i := r.Pick(3, 2, 1, 1); i > 0; i-- {
		sc.Pre = append(sc.Pre, callSpec{API: apis[r.Pick(3, 3, 1, 1, 0, 0)], Scope: []string{"84", "86", "49"}[r.Pick(4, 1, 1)]})
	}
	sc.MarkUsed = r.Chance(1, 4)
	sc.Warm = r.Chance(1, 3)
	creators := 0
	for i := 0; i < n; i++ {
		c := callSpec{API: allAPIs[r.Pick(5, 5, 3, 2, 2, 2, 2, 1, 1)], Scope: []string{"84", "86", "49"}[r.Pick(6, 2, 1)]}
		if c.Scope == "84" && !isImportedSpend(c.API) && r.Chance(1, 5) {
			c.Account = 1
		}
		if siteOf(c.API) == "txToOutputs" {
			// wallet.txCreator serves one request at a time; more than one
			// in flight cannot be told apart at Begin, keep it to two
			if creators >= 2 {
				c.API = "NewChangeAddress"
			}
			creators++
		}
		switch sc.Kind {
		case "chain":
			c.Gate = true
		case "random":
			c.Gate = r.Chance(2, 3)
		}
		sc.Calls = append(sc.Calls, c)
	}
	switch sc.Kind {
	case "stress":
		sc.Script = []stepSpec{{"start_all", 0}}
	case "chain":
		// start everything (the first parks, with the mutex the rest queue),
		// then release in a random order
		for _, i := range r.Perm(n) {
			sc.Script = append(sc.Script, stepSpec{"start", i})
		}
		for _, i := range r.Perm(n) {
			sc.Script = append(sc.Script, stepSpec{"release", i})
		}
	default:
		// random interleaving of starts and releases (release after start)
		started := []int{}
		order := r.Perm(n)
		pendingRel := []int{}
		for len(order) > 0 || len(pendingRel) > 0 {
			if len(order) > 0 && (len(pendingRel) == 0 || r.Chance(3, 5)) {
				i := order[0]
				order = order[1:]
				started = append(started, i)
				sc.Script = append(sc.Script, stepSpec{"start", i})
				if sc.Calls[i].Gate {
					pendingRel = append(pendingRel, i)
				}
			} else {
				k := r.Intn(len(pendingRel))
				sc.Script = append(sc.Script, stepSpec{"release", pendingRel[k]})
				pendingRel = append(pendingRel[:k], pendingRel[k+1:]...)
			}
		}
	}
	return sc
}

func main() {
	var stressOnly bool
	core.Main("c09", func(fs *flag.FlagSet) {
		fs.BoolVar(&stressOnly, "stress-only", false, "only ungated stress scenarios")
	}, func(c *core.Common, out *core.Emitter) error {
		waddrmgr.SetSecretKeyGen(fastKeyGen)
		dir, err := os.MkdirTemp("", "vh-c09-")
		if err != nil {
			return err
		}
		defer os.RemoveAll(dir)
		e := &env{dir: dir}
		if err := e.makeTemplate(); err != nil {
			return fmt.Errorf("template wallet: %w", err)
		}
		runOne := func(sc scenario, extra ...string) error {
			if sc.Pre == nil {
				sc.Pre = []callSpec{}
			}
			o, err := e.runScenario(sc)
			if errors.Is(err, errStuck) {
				// report what was seen, then stop: the process cannot continue
				out.Emit(caseOut{In: sc, Obs: o, Oracle: []string{}, Tags: append(tagsOf(sc, o), "stuck"), Site: "*"})
				return fmt.Errorf("%w: %s", err, strings.Join(o.Notes, "; "))
			}
			if err != nil {
				return err
			}
			tags := append(tagsOf(sc, o), extra...)
			site := "*"
			// the site named in a finding: the first call involved in a duplicate
			seen := map[string]bool{}
			for _, cl := range o.Calls {
				if cl.Err == "" && cl.Commits && cl.N > 0 && cl.Addr != "" {
					if seen[cl.Addr] {
						site = cl.Site
						break
					}
					seen[cl.Addr] = true
				}
			}
			out.Emit(caseOut{In: sc, Obs: o, Oracle: append([]string{}, oracle(o)...), Tags: tags, Site: site})
			return nil
		}
		if c.Replay != "" {
			return core.ReadReplay(c.Replay, func(raw json.RawMessage) error {
				var cs struct {
					In scenario `json:"in"`
				}
				if err := json.Unmarshal(raw, &cs); err != nil {
					return err
				}
				return runOne(cs.In, "replay")
			})
		}
		if !stressOnly {
			// systematic: B's whole request placed between A's commit and A's
			// commit handlers, for every ordered pair of APIs on scope 84
			// (CurrentAddress on an unused and on a used tip)
			type v struct {
				api  string
				used bool
			}
			var vs []v
			for _, a := range apis {
				vs = append(vs, v{a, false})
			}
			vs = append(vs, v{"CurrentAddress", true})
			k := 0
			for _, a := range vs {
				for _, b := range vs {
					if a.api == "CurrentAddress" && b.api == "CurrentAddress" && a.used != b.used {
						continue
					}
					sc := windowScenario(callSpec{API: a.api, Scope: "84"}, callSpec{API: b.api, Scope: "84"}, a.used || b.used, k%3)
					sc.Warm = k%2 == 0
					k++
					if err := runOne(sc, "systematic"); err != nil {
						return err
					}
				}
			}
		}
		if !stressOnly {
			// systematic, continued: spends whose inputs belong to the imported
			// account create their change on ACCOUNT 0, so they compete with
			// every account-0 request on the internal branch; and requests on
			// account 1, which has its own counters (no interference expected)
			w := func(a, b callSpec, k int) error {
				sc := windowScenario(a, b, false, k%3)
				sc.Warm = k%2 == 0
				return runOne(sc, "systematic")
			}
			k := 0
			partners := []string{"NewChangeAddress", "NewAddress", "CurrentAddress", "CreateSimpleTx", "FundPsbt",
				"SpendImported", "SpendImportedDry"}
			for _, imp := range []string{"SpendImported", "FundPsbtImported"} {
				for _, p := range partners {
					a, b := callSpec{API: imp, Scope: "84"}, callSpec{API: p, Scope: "84"}
					if err := w(a, b, k); err != nil {
						return err
					}
					k++
					if p != imp {
						if err := w(b, a, k); err != nil {
							return err
						}
						k++
					}
				}
			}
			others := []callSpec{{API: "NewChangeAddress", Scope: "84"}, {API: "CreateSimpleTx", Scope: "84"},
				{API: "SpendImported", Scope: "84"}, {API: "NewChangeAddress", Scope: "84", Account: 1}}
			for _, a1 := range []string{"CreateSimpleTx", "NewChangeAddress", "FundPsbt"} {
				for _, b := range others {
					a := callSpec{API: a1, Scope: "84", Account: 1}
					if err := w(a, b, k); err != nil {
						return err
					}
					k++
					if err := w(b, a, k); err != nil {
						return err
					}
					k++
				}
			}
		}
		r := gen.New(c.Seed, 9)
		for i := 0; i < c.N; i++ {
			sc := randomScenario(r)
			if stressOnly && sc.Kind != "stress" {
				i--
				continue
			}
			if err := runOne(sc); err != nil {
				return err
			}
		}
		return nil
	})
}
