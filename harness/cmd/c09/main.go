// c09 drives the real wallet.Wallet (on a bbolt file, through the proxydb
// wrapper) with concurrent address-issuing calls under a deterministic script
// of call starts and commit-handler gate releases, and reports per scenario
// the addresses obtained, the observed transaction life-cycle events (the
// schedule) and the property oracle: duplicate_address, index_gap,
// memory_disk_disagree, last_address_disagree,
// cached_address_unknown_to_database, restart_reissues_address,
// recovered_address_reissued.
//
// Besides the wallet's own address requests it drives: ImportAccountDryRun
// (a dry run deriving n addresses per branch of a throw-away account),
// recovery (wallet.recovery through the VerifRecovery hook with a chain that
// reports one index as found: Extend{External,Internal}Addresses), and - as a
// NEGATIVE CONTROL and as a stand-in for an issuing site outside package wallet
// that the table extractor reports - an issuer that goes through
// w.Manager directly without the wallet's address mutex (RawNext*).
//
// Two database modes: the default one (proxydb runs the OnCommit handlers
// itself after the real commit: every placement of the window is scriptable)
// and "native" (the handlers are forwarded to bdb/bbolt, which runs them in
// its own Commit after releasing the writer lock: the real commit ordering;
// the gate is then itself the first commit handler).
package main

import (
	"bytes"
	"encoding/binary"
	"encoding/json"
	"errors"
	"flag"
	"fmt"
	"os"
	"os/exec"
	"path/filepath"
	"runtime"
	"regexp"
	"sort"
	"strconv"
	"strings"
	"sync"
	"sync/atomic"
	"time"

	"github.com/btcsuite/btcd/btcec/v2"
	"github.com/btcsuite/btcd/btcjson"
	"github.com/btcsuite/btcd/btcutil"
	"github.com/btcsuite/btcd/btcutil/hdkeychain"
	"github.com/btcsuite/btcd/btcutil/psbt"
	"github.com/btcsuite/btcd/chaincfg"
	"github.com/btcsuite/btcd/chaincfg/chainhash"
	"github.com/btcsuite/btcd/txscript"
	"github.com/btcsuite/btcd/wire"
	"github.com/btcsuite/btcwallet/chain"
	"github.com/btcsuite/btcwallet/snacl"
	"github.com/btcsuite/btcwallet/waddrmgr"
	"github.com/btcsuite/btcwallet/wallet"
	"github.com/btcsuite/btcwallet/walletdb"
	_ "github.com/btcsuite/btcwallet/walletdb/bdb"
	"github.com/btcsuite/btcwallet/wtxmgr"

	"verifharness/internal/core"
	"verifharness/internal/gen"
	"verifharness/internal/proxydb"
)

// ------------------------------------------------------------------ inputs

type callSpec struct {
	// NewAddress NewChangeAddress CurrentAddress CreateSimpleTx CreateSimpleTxDry FundPsbt
	// (on Account), and SpendImported SpendImportedDry FundPsbtImported: the same
	// spends with inputs owned by an imported private key
	// (account = waddrmgr.ImportedAddrAccount), whose change is created on account 0.
	API     string `json:"api"`
	Scope   string `json:"scope"`             // "84" | "86" | "49"
	Account uint32 `json:"account,omitempty"` // 0 (default) or 1 (scope 84 only)
	Gate    bool   `json:"gate"`              // park this call between its commit and its commit handlers
	// RawNextExternal / RawNextInternal / ImportAccountDryRun: addresses derived
	// per branch by the one transaction (default 1)
	N uint32 `json:"n,omitempty"`
	// RecoverExternal / RecoverInternal (account 0): the chain reports index
	// (key count of the branch before the concurrent phase) + Ahead as found
	Ahead uint32 `json:"ahead,omitempty"`
}

type stepSpec struct {
	Op   string `json:"op"` // start | release | start_all
	Call int    `json:"call"`
}

type scenario struct {
	Pre      []callSpec `json:"pre"`       // sequential warm-up requests (vary the start index)
	MarkUsed bool       `json:"mark_used"` // mark the last external address of scope 84 used first
	Warm     bool       `json:"warm"`      // read AccountProperties of every scope first (account cached)
	Calls    []callSpec `json:"calls"`
	Script   []stepSpec `json:"script"`
	Kind     string     `json:"kind"` // window | chain | random | stress | recovery | control (documentation + tags)
	// sequential requests made after the concurrent phase is over (what does
	// the wallet hand out NEXT)
	Post []callSpec `json:"post,omitempty"`
	// the OnCommit handlers are run by bdb/bbolt itself (real commit ordering)
	Native bool `json:"native,omitempty"`
	// the RawNext* calls of this scenario stand for this issuing site found in
	// the source (not drivable by name); empty: they are a negative control
	StandIn string `json:"stand_in,omitempty"`
}

// ------------------------------------------------------------ observations

type callObs struct {
	API     string `json:"api"`
	Site    string `json:"site"`    // the wallet function whose Update issues (site table name)
	Scope   string `json:"scope"`   // scope of the branch this call draws from
	Account uint32 `json:"account"` // account whose counter this call draws from
	Branch  uint32 `json:"branch"`  // 0 external, 1 internal
	Addr    string `json:"addr"`
	Addrs   []string `json:"addrs"`  // every address the call returned (Addr is the first)
	Indices []int64  `json:"indices"` // their derivation indices on (Scope, Account, Branch); -1 = elsewhere / unknown
	Stack   []string `json:"stack"`  // repository functions on the stack when its write transaction began, innermost first
	Found   int64  `json:"found"`   // Recover*: the index reported as found, else -1
	Index   int64  `json:"index"`   // derivation index of Addr, -1 if none / not found
	Err     string `json:"err"`     // error returned by the API
	N       int    `json:"n"`       // derivations requested by its transaction: OnCommit registrations (one per nextAddresses call); 1 if it wrote without registering any
	Derived int    `json:"derived"` // addresses its transaction derives from the counter it draws from (RawNext*: n; else N)
	Writes  int    `json:"writes"`  // mutating database calls of its transaction
	Commits bool   `json:"commits"` // its transaction committed
	Blocked bool   `json:"blocked"` // found blocked (not begun) right after its start while another call was parked
	Tx      bool   `json:"tx"`      // a write transaction was observed for it
}

type event struct {
	Ev   string `json:"ev"` // start begin commit rollback callbacks return release blocked
	Call int    `json:"call"`
}

type branchObs struct {
	Scope     string  `json:"scope"`
	Account   uint32  `json:"account"`
	Branch    uint32  `json:"branch"`
	N0        uint32  `json:"n0"`         // key count on disk before the concurrent phase
	Cached    bool    `json:"cached"`     // the account was loaded into memory before the concurrent phase
	Issued    []int64 `json:"issued"`     // indices obtained by committed calls (concurrent, then post), in call order
	Extended  []int64 `json:"extended"`   // highest index a committed recovery of this scenario extended this branch through (one per recovery)
	MemAfter  uint32  `json:"mem_after"`  // key count the running wallet reports afterwards
	DiskAfter uint32  `json:"disk_after"` // key count a fresh waddrmgr.Open on a copy of the file reports
	// the account's last address of this branch (what the commit handler also
	// writes): as the running manager answers, and as a restarted one does;
	// given as (branch, index) of the returned address, index -1 = not a chained address of this account
	LastMem  [2]int64 `json:"last_mem"`
	LastDisk [2]int64 `json:"last_disk"`
	// indices >= N0 on this branch of the addresses found in the running
	// manager's address cache right after the scenario
	Cache []int64 `json:"cache"`
	// the address a restarted manager hands out next on this branch
	RestartNext      string `json:"restart_next"`
	RestartNextIndex int64  `json:"restart_next_index"`
}

type obs struct {
	Calls    []callObs   `json:"calls"`
	Post     []callObs   `json:"post"`
	Events   []event     `json:"events"`
	Branches []branchObs `json:"branches"`
	Notes    []string    `json:"notes"`
	// addresses in the running manager's cache that a restarted manager does not know
	CachePhantoms []string `json:"cache_phantoms"`
	// violation kinds seen in a negative-control scenario (they are expected there)
	Control []string `json:"control"`
	Native  bool     `json:"native"`
}

type caseOut struct {
	In     scenario `json:"in"`
	Obs    obs      `json:"obs"`
	Oracle []string `json:"oracle"`
	Tags   []string `json:"tags"`
	Site   string   `json:"site"`
}

// --------------------------------------------------------------- constants

var (
	params   = &chaincfg.TestNet3Params
	pubPass  = []byte("public")
	privPass = []byte("private")
	scopes   = map[string]waddrmgr.KeyScope{
		"84": waddrmgr.KeyScopeBIP0084,
		"86": waddrmgr.KeyScopeBIP0086,
		"49": waddrmgr.KeyScopeBIP0049Plus,
	}
	scopeNames = []string{"49", "84", "86"}
	// the index counters observed: account 0 of every scope, account 1 of scope 84
	counters   = []ctr{{"49", 0}, {"84", 0}, {"84", 1}, {"86", 0}}
	dryXpub    *hdkeychain.ExtendedKey // account public key (another seed) for ImportAccountDryRun
	fundHash   chainhash.Hash // txid of the funding transaction of the template
	fundScript []byte         // pays external address 0 of account 0, scope 84 (output 0)
)

// outputs of the funding transaction
const (
	fundOutAcct0    = 0
	fundOutAcct1    = 1
	fundOutImported = 2
)

type ctr struct {
	scope   string
	account uint32
}

func (c ctr) String() string { return fmt.Sprintf("%s/%d", c.scope, c.account) }

func isImportedSpend(api string) bool {
	return api == "SpendImported" || api == "SpendImportedDry" || api == "FundPsbtImported"
}

// viaCreator: requests that wallet.CreateSimpleTx hands to the wallet's
// transaction-creator goroutine (their write transaction is not opened by the
// calling goroutine).
func viaCreator(api string) bool {
	switch api {
	case "CreateSimpleTx", "CreateSimpleTxDry", "SpendImported", "SpendImportedDry":
		return true
	}
	return false
}

func isFund(api string) bool { return api == "FundPsbt" || api == "FundPsbtImported" }

// isRaw: an issuer that calls the scoped manager directly inside its own
// walletdb.Update, WITHOUT the wallet's address mutex (what a function outside
// package wallet - or one that forgot the lock - does).
func isRaw(api string) bool { return api == "RawNextExternal" || api == "RawNextInternal" }

func isRecover(api string) bool { return api == "RecoverExternal" || api == "RecoverInternal" }

// isReader: a request that only READS the address manager's account state
// (no write transaction): what a balance / account listing RPC does while
// addresses are being issued.  It is no thread of the model; it is there for
// the race detector.
func isReader(api string) bool { return api == "ReadAccount" }

// counterOf is the (scope, account) whose next index the call advances: a
// spend from the imported account creates its change on account 0; recovery
// extends account 0; the dry-run import works on an account of its own that
// never exists outside its rolled-back transaction.
func counterOf(c callSpec) ctr {
	switch {
	case isImportedSpend(c.API), isRecover(c.API):
		return ctr{c.Scope, 0}
	case c.API == "ImportAccountDryRun":
		return ctr{"dry", 0}
	}
	return ctr{c.Scope, c.Account}
}

const fundAmount = 100000000

func branchOf(api string) uint32 {
	switch api {
	case "NewAddress", "CurrentAddress", "RawNextExternal", "RecoverExternal":
		return waddrmgr.ExternalBranch
	}
	return waddrmgr.InternalBranch
}

// ------------------------------------------------------------- call sites

const modPrefix = "github.com/btcsuite/btcwallet/"

var closureSuffix = regexp.MustCompile(`(\.(func|gowrap|deferwrap)\d+(\.\d+)*)+$`)

// repoStack returns the functions of the repository under test on the
// current goroutine's stack, innermost first, without the walletdb packages
// and with closures folded into the function that contains them.  The first
// entry is the function that opened the transaction: the name the site table
// generated from the source uses (package path relative to the module, e.g.
// "wallet.(*Wallet).NewAddress").  Nothing here knows a function by name.
func repoStack() []string {
	pcs := make([]uintptr, 96)
	n := runtime.Callers(2, pcs)
	frames := runtime.CallersFrames(pcs[:n])
	var out []string
	for {
		f, more := frames.Next()
		if strings.HasPrefix(f.Function, modPrefix) {
			rel := f.Function[len(modPrefix):]
			if !strings.HasPrefix(rel, "walletdb.") && !strings.HasPrefix(rel, "walletdb/") {
				for {
					r2 := closureSuffix.ReplaceAllString(rel, "")
					if r2 == rel {
						break
					}
					rel = r2
				}
				if len(out) == 0 || out[len(out)-1] != rel {
					out = append(out, rel)
				}
			}
		}
		if !more {
			break
		}
	}
	return out
}

// --------------------------------------------------------- fake chain client

type fakeChain struct{}

var _ chain.Interface = (*fakeChain)(nil)

func (fakeChain) Start() error     { return nil }
func (fakeChain) Stop()            {}
func (fakeChain) WaitForShutdown() {}
func (fakeChain) GetBestBlock() (*chainhash.Hash, int32, error) {
	return &chainhash.Hash{}, 200, nil
}
func (fakeChain) GetBlock(*chainhash.Hash) (*wire.MsgBlock, error) {
	return nil, errors.New("no block")
}
func (fakeChain) GetBlockHash(int64) (*chainhash.Hash, error) { return nil, errors.New("no hash") }
func (fakeChain) GetBlockHeader(*chainhash.Hash) (*wire.BlockHeader, error) {
	return nil, errors.New("no header")
}
func (fakeChain) IsCurrent() bool { return true }
func (fakeChain) FilterBlocks(*chain.FilterBlocksRequest) (*chain.FilterBlocksResponse, error) {
	return nil, nil
}
func (fakeChain) BlockStamp() (*waddrmgr.BlockStamp, error) {
	return &waddrmgr.BlockStamp{Height: 200, Timestamp: time.Unix(1700000000, 0)}, nil
}
func (fakeChain) SendRawTransaction(*wire.MsgTx, bool) (*chainhash.Hash, error) {
	return nil, errors.New("not connected")
}
func (fakeChain) Rescan(*chainhash.Hash, []btcutil.Address, map[wire.OutPoint]btcutil.Address) error {
	return nil
}
func (fakeChain) NotifyReceived([]btcutil.Address) error { return nil }
func (fakeChain) NotifyBlocks() error                    { return nil }
func (fakeChain) Notifications() <-chan interface{}      { return nil }
func (fakeChain) BackEnd() string                        { return "verif" }
func (fakeChain) TestMempoolAccept([]*wire.MsgTx, float64) ([]*btcjson.TestMempoolAcceptResult, error) {
	return nil, nil
}
func (fakeChain) MapRPCErr(err error) error { return err }

// recChain is the chain backend handed to wallet.recovery: two blocks above
// the wallet's sync point, the first of which pays to ONE wallet address (scope,
// branch, index found); the second FilterBlocks request finds nothing more.
type recChain struct {
	fakeChain
	start, best int32
	scope       waddrmgr.KeyScope
	internal    bool
	found       uint32
	calls       int32
}

func (c *recChain) hash(h int32) chainhash.Hash {
	return chainhash.Hash{0xec, byte(h), byte(h >> 8), byte(h >> 16)}
}
func (c *recChain) GetBestBlock() (*chainhash.Hash, int32, error) {
	h := c.hash(c.best)
	return &h, c.best, nil
}
func (c *recChain) GetBlockHash(h int64) (*chainhash.Hash, error) {
	x := c.hash(int32(h))
	return &x, nil
}
func (c *recChain) GetBlockHeader(*chainhash.Hash) (*wire.BlockHeader, error) {
	return &wire.BlockHeader{Timestamp: time.Unix(1700000100, 0)}, nil
}
func (c *recChain) FilterBlocks(req *chain.FilterBlocksRequest) (*chain.FilterBlocksResponse, error) {
	if atomic.AddInt32(&c.calls, 1) > 1 || len(req.Blocks) == 0 {
		return nil, nil
	}
	m := map[waddrmgr.KeyScope]map[uint32]struct{}{c.scope: {c.found: {}}}
	resp := &chain.FilterBlocksResponse{BatchIndex: 0, BlockMeta: req.Blocks[0]}
	if c.internal {
		resp.FoundInternalAddrs = m
	} else {
		resp.FoundExternalAddrs = m
	}
	return resp, nil
}

// ------------------------------------------------------------- goroutine ids

func goid() int64 {
	var buf [64]byte
	n := runtime.Stack(buf[:], false)
	f := strings.Fields(string(buf[:n]))
	if len(f) < 2 {
		return -1
	}
	id, _ := strconv.ParseInt(f[1], 10, 64)
	return id
}

// goStates returns goroutine id -> wait state, and the id of the goroutine
// whose stack contains marker (or -1).
func goStates(marker string) (map[int64]string, int64) {
	buf := make([]byte, 1<<20)
	for {
		n := runtime.Stack(buf, true)
		if n < len(buf) {
			buf = buf[:n]
			break
		}
		buf = make([]byte, 2*len(buf))
	}
	st := map[int64]string{}
	found := int64(-1)
	for _, blk := range strings.Split(string(buf), "\n\n") {
		if !strings.HasPrefix(blk, "goroutine ") {
			continue
		}
		head := blk
		if i := strings.IndexByte(blk, '\n'); i >= 0 {
			head = blk[:i]
		}
		f := strings.Fields(head)
		if len(f) < 3 {
			continue
		}
		id, _ := strconv.ParseInt(f[1], 10, 64)
		s := head[strings.IndexByte(head, '[')+1:]
		if i := strings.IndexAny(s, ",]"); i >= 0 {
			s = s[:i]
		}
		st[id] = s
		if marker != "" && strings.Contains(blk, marker) {
			found = id
		}
	}
	return st, found
}

func blockedState(s string) bool {
	switch {
	case strings.HasPrefix(s, "sync."), strings.HasPrefix(s, "semacquire"),
		strings.HasPrefix(s, "chan "), s == "select", s == "select (no cases)":
		return true
	}
	return false
}

// ------------------------------------------------------------------ wallet

type env struct {
	dir      string
	template string
	seq      int
}

func fastKeyGen(passphrase *[]byte, _ *waddrmgr.ScryptOptions) (*snacl.SecretKey, error) {
	return snacl.NewSecretKey(passphrase, 16, 8, 1)
}

// look-ahead of the recovery runs (the found index is at most a few above the
// key count; a small window keeps the horizon expansion cheap)
const recoveryWindow = 8

type opened struct {
	path  string
	real  walletdb.DB
	proxy *proxydb.DB
	w     *wallet.Wallet
}

func (e *env) open(path string) (*opened, error) {
	db, err := walletdb.Open("bdb", path, true, time.Minute, false)
	if err != nil {
		return nil, err
	}
	p := proxydb.New(db)
	w, err := wallet.Open(p, pubPass, nil, params, recoveryWindow)
	if err != nil {
		db.Close()
		return nil, err
	}
	w.Start()
	w.SynchronizeRPC(fakeChain{})
	if err := w.Unlock(privPass, nil); err != nil {
		return nil, err
	}
	return &opened{path: path, real: db, proxy: p, w: w}, nil
}

func (o *opened) close() {
	o.proxy.SetHooks(nil)
	o.w.Stop()
	o.w.WaitForShutdown()
	o.real.Close()
}

// makeTemplate creates the wallet file every scenario starts from: fixed
// seed, account 1 in scope 84, one imported private key (scope 84), and one
// confirmed transaction paying 1 BTC each to external address 0 of account 0,
// external address 0 of account 1 and the imported key's address.
func (e *env) makeTemplate() error {
	e.template = filepath.Join(e.dir, "template.db")
	db, err := walletdb.Create("bdb", e.template, true, time.Minute, false)
	if err != nil {
		return err
	}
	seed := bytes.Repeat([]byte{0x5a}, hdkeychain.RecommendedSeedLen)
	root, err := hdkeychain.NewMaster(seed, params)
	if err != nil {
		return err
	}
	if err := wallet.Create(db, pubPass, privPass, root, params, time.Unix(1600000000, 0)); err != nil {
		return err
	}
	if err := db.Close(); err != nil {
		return err
	}
	// m/84'/1'/5' of an unrelated seed, as a testnet BIP-0084 account public key
	other, err := hdkeychain.NewMaster(bytes.Repeat([]byte{0x3c}, hdkeychain.RecommendedSeedLen), params)
	if err != nil {
		return err
	}
	k := other
	for _, i := range []uint32{84, 1, 5} {
		if k, err = k.Derive(hdkeychain.HardenedKeyStart + i); err != nil {
			return err
		}
	}
	if k, err = k.Neuter(); err != nil {
		return err
	}
	var ver [4]byte
	binary.BigEndian.PutUint32(ver[:], uint32(waddrmgr.HDVersionTestNetBIP0084))
	if dryXpub, err = k.CloneWithVersion(ver[:]); err != nil {
		return err
	}
	o, err := e.open(e.template)
	if err != nil {
		return err
	}
	defer o.close()
	addr, err := o.w.CurrentAddress(0, waddrmgr.KeyScopeBIP0084)
	if err != nil {
		return err
	}
	fundScript, err = txscript.PayToAddrScript(addr)
	if err != nil {
		return err
	}
	acct1, err := o.w.NextAccount(waddrmgr.KeyScopeBIP0084, "acct1")
	if err != nil {
		return err
	}
	if acct1 != 1 {
		return fmt.Errorf("second account has number %d", acct1)
	}
	addr1, err := o.w.CurrentAddress(1, waddrmgr.KeyScopeBIP0084)
	if err != nil {
		return err
	}
	script1, err := txscript.PayToAddrScript(addr1)
	if err != nil {
		return err
	}
	priv, _ := btcec.PrivKeyFromBytes(bytes.Repeat([]byte{0x37}, 32))
	wif, err := btcutil.NewWIF(priv, params, true)
	if err != nil {
		return err
	}
	var addrI btcutil.Address
	err = walletdb.Update(o.w.Database(), func(dbtx walletdb.ReadWriteTx) error {
		sm, err := o.w.Manager.FetchScopedKeyManager(waddrmgr.KeyScopeBIP0084)
		if err != nil {
			return err
		}
		ma, err := sm.ImportPrivateKey(dbtx.ReadWriteBucket([]byte("waddrmgr")), wif, nil)
		if err != nil {
			return err
		}
		addrI = ma.Address()
		return nil
	})
	if err != nil {
		return fmt.Errorf("import private key: %w", err)
	}
	scriptI, err := txscript.PayToAddrScript(addrI)
	if err != nil {
		return err
	}
	tx := wire.NewMsgTx(2)
	tx.AddTxIn(&wire.TxIn{PreviousOutPoint: wire.OutPoint{Index: 7}})
	tx.AddTxOut(wire.NewTxOut(fundAmount, fundScript))
	tx.AddTxOut(wire.NewTxOut(fundAmount, script1))
	tx.AddTxOut(wire.NewTxOut(fundAmount, scriptI))
	var b bytes.Buffer
	if err := tx.Serialize(&b); err != nil {
		return err
	}
	rec, err := wtxmgr.NewTxRecord(b.Bytes(), time.Unix(1650000000, 0))
	if err != nil {
		return err
	}
	fundHash = rec.Hash
	blk := &wtxmgr.BlockMeta{Block: wtxmgr.Block{Hash: chainhash.Hash{1}, Height: 100}, Time: time.Unix(1650000000, 0)}
	return walletdb.Update(o.w.Database(), func(dbtx walletdb.ReadWriteTx) error {
		ns := dbtx.ReadWriteBucket([]byte("wtxmgr"))
		if err := o.w.TxStore.InsertTx(ns, rec, blk); err != nil {
			return err
		}
		for i := uint32(0); i < 3; i++ {
			if err := o.w.TxStore.AddCredit(ns, rec, blk, i, false); err != nil {
				return err
			}
		}
		return nil
	})
}

func copyFile(src, dst string) error {
	b, err := os.ReadFile(src)
	if err != nil {
		return err
	}
	return os.WriteFile(dst, b, 0600)
}

// addrLoc is where a chained address sits: (scope name, account, branch, index).
type addrLoc struct {
	scope   string
	account uint32
	branch  uint32
	index   uint32
}

func locOf(ma waddrmgr.ManagedAddress) *addrLoc {
	pk, ok := ma.(waddrmgr.ManagedPubKeyAddress)
	if !ok {
		return nil
	}
	ks, path, ok := pk.DerivationInfo()
	if !ok {
		return nil
	}
	l := &addrLoc{account: path.InternalAccount, branch: path.Branch, index: path.Index}
	for n, s := range scopes {
		if s == ks {
			l.scope = n
		}
	}
	return l
}

// lastOf renders a "last address" answer as (branch, index) if it is a chained
// address of counter c, (-2, -2) if the manager says there is none yet (key
// count 0), else (-1, -1).
func lastOf(ma waddrmgr.ManagedAddress, err error, c ctr) [2]int64 {
	if err != nil {
		return [2]int64{-2, -2}
	}
	l := locOf(ma)
	if l == nil || l.scope != c.scope || l.account != c.account {
		return [2]int64{-1, -1}
	}
	return [2]int64{int64(l.branch), int64(l.index)}
}

// mgrState is what one address manager (the running one, or a fresh one
// opened on a copy of the file) answers for the observed counters.
type mgrState struct {
	counts map[string][2]uint32
	last   map[string][2][2]int64 // counter -> branch -> (branch, index) of the last address
	// disk side only
	known map[string]*addrLoc // probed address -> location, nil = unknown to the database
	next  map[string][2]string
	nextI map[string][2]int64
}

var errRollback = errors.New("harness: roll back")

// diskState opens a COPY of the database with a fresh address manager (what a
// restart sees) and returns the key counts, the last addresses, where each of
// the probed addresses is (nil = the database does not know it) and, if
// withNext, the address it would hand out next on every observed branch
// (derived inside a transaction that is rolled back).
func (e *env) diskState(db walletdb.DB, probe []string, withNext bool) (*mgrState, error) {
	e.seq++
	cp := filepath.Join(e.dir, fmt.Sprintf("copy%d.db", e.seq))
	f, err := os.Create(cp)
	if err != nil {
		return nil, err
	}
	if err := db.Copy(f); err != nil {
		f.Close()
		return nil, err
	}
	f.Close()
	defer os.Remove(cp)
	cdb, err := walletdb.Open("bdb", cp, true, time.Minute, !withNext)
	if err != nil {
		return nil, err
	}
	defer cdb.Close()
	out := &mgrState{counts: map[string][2]uint32{}, last: map[string][2][2]int64{},
		known: map[string]*addrLoc{}, next: map[string][2]string{}, nextI: map[string][2]int64{}}
	read := func(ns walletdb.ReadBucket, mgr *waddrmgr.Manager) error {
		for _, c := range counters {
			sm, err := mgr.FetchScopedKeyManager(scopes[c.scope])
			if err != nil {
				return err
			}
			p, err := sm.AccountProperties(ns, c.account)
			if err != nil {
				return err
			}
			out.counts[c.String()] = [2]uint32{p.ExternalKeyCount, p.InternalKeyCount}
			le, err := sm.LastExternalAddress(ns, c.account)
			if err != nil && !waddrmgr.IsError(err, waddrmgr.ErrAddressNotFound) {
				return err
			}
			li, err2 := sm.LastInternalAddress(ns, c.account)
			if err2 != nil && !waddrmgr.IsError(err2, waddrmgr.ErrAddressNotFound) {
				return err2
			}
			out.last[c.String()] = [2][2]int64{lastOf(le, err, c), lastOf(li, err2, c)}
		}
		for _, a := range probe {
			addr, err := btcutil.DecodeAddress(a, params)
			if err != nil {
				return err
			}
			ma, err := mgr.Address(ns, addr)
			if err != nil {
				out.known[a] = nil
				continue
			}
			if l := locOf(ma); l != nil {
				out.known[a] = l
			} else {
				// known to the database, not a chained address (imported key, script)
				out.known[a] = &addrLoc{scope: "not-chained"}
			}
		}
		return nil
	}
	if !withNext {
		err = walletdb.View(cdb, func(tx walletdb.ReadTx) error {
			ns := tx.ReadBucket([]byte("waddrmgr"))
			mgr, err := waddrmgr.Open(ns, pubPass, params)
			if err != nil {
				return err
			}
			defer mgr.Close()
			return read(ns, mgr)
		})
		return out, err
	}
	err = walletdb.Update(cdb, func(tx walletdb.ReadWriteTx) error {
		ns := tx.ReadWriteBucket([]byte("waddrmgr"))
		mgr, err := waddrmgr.Open(ns, pubPass, params)
		if err != nil {
			return err
		}
		defer mgr.Close()
		if err := read(ns, mgr); err != nil {
			return err
		}
		for _, c := range counters {
			sm, err := mgr.FetchScopedKeyManager(scopes[c.scope])
			if err != nil {
				return err
			}
			var nx [2]string
			ex, err := sm.NextExternalAddresses(ns, c.account, 1)
			if err != nil {
				return fmt.Errorf("restarted manager, next external of %s: %w", c, err)
			}
			in, err := sm.NextInternalAddresses(ns, c.account, 1)
			if err != nil {
				return fmt.Errorf("restarted manager, next internal of %s: %w", c, err)
			}
			nx[0], nx[1] = ex[0].Address().EncodeAddress(), in[0].Address().EncodeAddress()
			out.next[c.String()] = nx
			ni := [2]int64{-1, -1}
			if l := locOf(ex[0]); l != nil {
				ni[0] = int64(l.index)
			}
			if l := locOf(in[0]); l != nil {
				ni[1] = int64(l.index)
			}
			out.nextI[c.String()] = ni
		}
		return errRollback
	})
	if err == errRollback {
		err = nil
	}
	return out, err
}

// memState asks the running wallet the same questions.
func memState(w *wallet.Wallet) (*mgrState, error) {
	out := &mgrState{counts: map[string][2]uint32{}, last: map[string][2][2]int64{}}
	for _, c := range counters {
		p, err := w.AccountProperties(scopes[c.scope], c.account)
		if err != nil {
			return nil, err
		}
		out.counts[c.String()] = [2]uint32{p.ExternalKeyCount, p.InternalKeyCount}
	}
	err := walletdb.View(w.Database(), func(tx walletdb.ReadTx) error {
		ns := tx.ReadBucket([]byte("waddrmgr"))
		for _, c := range counters {
			sm, err := w.Manager.FetchScopedKeyManager(scopes[c.scope])
			if err != nil {
				return err
			}
			le, err := sm.LastExternalAddress(ns, c.account)
			if err != nil && !waddrmgr.IsError(err, waddrmgr.ErrAddressNotFound) {
				return err
			}
			li, err2 := sm.LastInternalAddress(ns, c.account)
			if err2 != nil && !waddrmgr.IsError(err2, waddrmgr.ErrAddressNotFound) {
				return err2
			}
			out.last[c.String()] = [2][2]int64{lastOf(le, err, c), lastOf(li, err2, c)}
		}
		return nil
	})
	return out, err
}

// cachedAddresses lists the addresses currently in the scoped managers'
// address caches (the map the commit handler of nextAddresses fills), through
// the verif-only enumeration of clear-text buffers: one "privKeyCT:<scope>:<address>"
// entry per cached chained address.
func cachedAddresses(w *wallet.Wallet) []string {
	var out []string
	for _, b := range w.Manager.VerifSecretBuffers() {
		if strings.HasPrefix(b.Name, "privKeyCT:") {
			if i := strings.LastIndexByte(b.Name, ':'); i > 0 {
				out = append(out, b.Name[i+1:])
			}
		}
	}
	sort.Strings(out)
	return out
}

// ---------------------------------------------------------------- one run

type txState struct {
	call  int
	gid   int64
	stack []string
}

type run struct {
	o  *opened
	sc scenario

	mu       sync.Mutex // the log lock: also held around real commits/rollbacks (default database mode)
	gidCall  map[int64]int
	creator  int64              // goroutine id of the wallet's transaction-creator goroutine (-1: not known yet)
	openTx   map[int64]*txState // goroutine id -> its open write transaction
	started  []bool
	returned []bool
	parked   []bool
	release  []chan struct{}
	released []bool
	gids     []int64
	results  []callObs
	notes    []string
	wg       sync.WaitGroup
	order    []logItem
	before   *mgrState
}

// logItem is either a harness-level event (st == nil) or a transaction event
// whose owner is resolved when the scenario is over.
type logItem struct {
	ev   string
	call int
	st   *txState
}

func (r *run) hooks() *proxydb.Hooks {
	// r.mu held
	ended := func(tx *proxydb.TxInfo, st *txState, committed bool) {
		if committed {
			r.order = append(r.order, logItem{ev: "commit", st: st})
		} else {
			r.order = append(r.order, logItem{ev: "rollback", st: st})
		}
		if st.call >= 0 {
			r.record(st.call, tx, st, committed)
		}
		if r.openTx[st.gid] == st {
			delete(r.openTx, st.gid)
		}
	}
	return &proxydb.Hooks{
		OnBegin: func(tx *proxydb.TxInfo) {
			if !tx.Writable {
				return
			}
			g := goid()
			stack := repoStack()
			r.mu.Lock()
			st := &txState{call: -1, gid: g, stack: stack}
			if c, ok := r.gidCall[g]; ok {
				st.call = c
			}
			r.openTx[g] = st
			tx.User = st
			r.order = append(r.order, logItem{ev: "begin", st: st})
			r.mu.Unlock()
		},
		AroundCommit: func(tx *proxydb.TxInfo, commit func() error) error {
			st := tx.User.(*txState)
			if tx.Native {
				// the backend runs the handlers (and our gate) inside commit:
				// the commit event is logged by AfterCommit, the first handler
				err := commit()
				if err != nil {
					r.mu.Lock()
					ended(tx, st, false)
					r.mu.Unlock()
				}
				return err
			}
			r.mu.Lock()
			err := commit()
			ended(tx, st, err == nil)
			r.mu.Unlock()
			return err
		},
		AroundRollback: func(tx *proxydb.TxInfo, rollback func() error) error {
			st := tx.User.(*txState)
			r.mu.Lock()
			err := rollback()
			ended(tx, st, false)
			r.mu.Unlock()
			return err
		},
		AfterCommit: func(tx *proxydb.TxInfo) {
			st := tx.User.(*txState)
			if tx.Native {
				r.mu.Lock()
				ended(tx, st, true)
				r.mu.Unlock()
			}
			if st.call < 0 || !r.sc.Calls[st.call].Gate {
				return
			}
			r.mu.Lock()
			if r.released[st.call] {
				r.mu.Unlock()
				return
			}
			r.parked[st.call] = true
			ch := r.release[st.call]
			r.mu.Unlock()
			<-ch
			r.mu.Lock()
			r.parked[st.call] = false
			r.mu.Unlock()
		},
		AfterCallbacks: func(tx *proxydb.TxInfo) {
			st := tx.User.(*txState)
			r.mu.Lock()
			r.order = append(r.order, logItem{ev: "callbacks", st: st})
			r.mu.Unlock()
		},
	}
}

// record notes what the proxy saw of call i's transaction (r.mu held).
func (r *run) record(i int, tx *proxydb.TxInfo, st *txState, committed bool) {
	res := &r.results[i]
	if res.Tx && isRecover(r.sc.Calls[i].API) {
		r.notes = append(r.notes, fmt.Sprintf("call %d (recovery) opened more than one write transaction", i))
	}
	res.N = tx.Callbacks
	res.Writes = tx.Writes
	res.Stack = st.stack
	if tx.Callbacks == 0 && tx.Writes > 0 && !isRecover(r.sc.Calls[i].API) {
		// the address requests under test write only when they derive
		res.N = 1
		r.notes = append(r.notes, fmt.Sprintf("call %d wrote to the database without registering a commit handler", i))
	}
	res.Commits = committed
	res.Tx = true
}

// ownCreatorTx is called (through the UTXO filter) inside the transaction
// that the wallet's transaction-creator goroutine runs for call i.
func (r *run) ownCreatorTx(i int) {
	g := goid()
	r.mu.Lock()
	if _, mine := r.gidCall[g]; !mine {
		if st := r.openTx[g]; st != nil && st.call < 0 {
			st.call = i
		}
		if r.creator < 0 {
			r.creator = g
		}
	}
	r.mu.Unlock()
}

func txOutputs() []*wire.TxOut {
	return []*wire.TxOut{wire.NewTxOut(10000, fundScript)}
}

// invoke performs one API call and returns what it obtained.
func (r *run) invoke(i int, c callSpec) callObs {
	w := r.o.w
	sc := scopes[c.Scope]
	res := callObs{API: c.API, Scope: c.Scope, Account: counterOf(c).account,
		Branch: branchOf(c.API), Index: -1, Found: -1, Addrs: []string{}, Indices: []int64{}, Stack: []string{}}
	if c.Account > 1 || (c.Account == 1 && c.Scope != "84") {
		res.Err = "harness: account 1 exists in scope 84 only"
		return res
	}
	var addrs []btcutil.Address
	var err error
	filter := wallet.WithUtxoFilter(func(wtxmgr.Credit) bool {
		if i >= 0 {
			r.ownCreatorTx(i)
		}
		return true
	})
	one := func(a btcutil.Address, e error) {
		err = e
		if e == nil && a != nil {
			addrs = []btcutil.Address{a}
		}
	}
	changeAddr := func(tx *wire.MsgTx, idx int) (btcutil.Address, error) {
		if idx < 0 {
			return nil, nil
		}
		_, as, _, err := txscript.ExtractPkScriptAddrs(tx.TxOut[idx].PkScript, params)
		if err != nil || len(as) != 1 {
			return nil, fmt.Errorf("change script not understood: %v", err)
		}
		return as[0], nil
	}
	n := c.N
	if n == 0 {
		n = 1
	}
	k84 := waddrmgr.KeyScopeBIP0084
	switch c.API {
	case "NewAddress":
		one(w.NewAddress(c.Account, sc))
	case "NewChangeAddress":
		one(w.NewChangeAddress(c.Account, sc))
	case "CurrentAddress":
		one(w.CurrentAddress(c.Account, sc))
	case "CreateSimpleTx", "CreateSimpleTxDry", "SpendImported", "SpendImportedDry":
		// coins are selected among the outputs of the spending account in
		// scope 84; a spend from the imported account takes the coin of the
		// imported key and creates its change on account 0
		from := c.Account
		if isImportedSpend(c.API) {
			from = waddrmgr.ImportedAddrAccount
		}
		atx, e2 := w.CreateSimpleTx(&k84, from, txOutputs(), 1, 2000, wallet.CoinSelectionLargest,
			strings.HasSuffix(c.API, "Dry"), wallet.WithCustomChangeScope(&sc), filter)
		err = e2
		if err == nil {
			one(changeAddr(atx.Tx, atx.ChangeIndex))
		}
	case "FundPsbt", "FundPsbtImported":
		from, coin := c.Account, uint32(fundOutAcct0)
		if c.Account == 1 {
			coin = fundOutAcct1
		}
		if isImportedSpend(c.API) {
			from, coin = waddrmgr.ImportedAddrAccount, fundOutImported
		}
		utx := wire.NewMsgTx(2)
		utx.AddTxIn(&wire.TxIn{PreviousOutPoint: wire.OutPoint{Hash: fundHash, Index: coin}})
		for _, o := range txOutputs() {
			utx.AddTxOut(o)
		}
		pkt, e2 := psbt.NewFromUnsignedTx(utx)
		if e2 != nil {
			err = e2
			break
		}
		idx, e2 := w.FundPsbt(pkt, &k84, 1, from, 2000, wallet.CoinSelectionLargest, wallet.WithCustomChangeScope(&sc))
		err = e2
		if err == nil {
			one(changeAddr(pkt.UnsignedTx, int(idx)))
		}
	case "ImportAccountDryRun":
		at := waddrmgr.WitnessPubKey
		_, ex, in, e2 := w.ImportAccountDryRun(fmt.Sprintf("dry%d", i), dryXpub, 0, &at, n)
		err = e2
		for _, a := range append(ex, in...) {
			addrs = append(addrs, a.Address())
		}
	case "RawNextExternal", "RawNextInternal":
		// what an issuing function outside package wallet does: the scoped
		// manager inside its own Update, no wallet-level mutex
		err = walletdb.Update(w.Database(), func(tx walletdb.ReadWriteTx) error {
			sm, err := w.Manager.FetchScopedKeyManager(sc)
			if err != nil {
				return err
			}
			ns := tx.ReadWriteBucket([]byte("waddrmgr"))
			var mas []waddrmgr.ManagedAddress
			if c.API == "RawNextExternal" {
				mas, err = sm.NextExternalAddresses(ns, c.Account, n)
			} else {
				mas, err = sm.NextInternalAddresses(ns, c.Account, n)
			}
			for _, ma := range mas {
				addrs = append(addrs, ma.Address())
			}
			return err
		})
	case "ReadAccount":
		for k := 0; k < 3 && err == nil; k++ {
			_, err = w.AccountProperties(sc, c.Account)
			if err == nil {
				err = walletdb.View(w.Database(), func(tx walletdb.ReadTx) error {
					sm, err := w.Manager.FetchScopedKeyManager(sc)
					if err != nil {
						return err
					}
					ns := tx.ReadBucket([]byte("waddrmgr"))
					if _, err := sm.LastExternalAddress(ns, c.Account); err != nil && !waddrmgr.IsError(err, waddrmgr.ErrAddressNotFound) {
						return err
					}
					if _, err := sm.LastInternalAddress(ns, c.Account); err != nil && !waddrmgr.IsError(err, waddrmgr.ErrAddressNotFound) {
						return err
					}
					return nil
				})
			}
			runtime.Gosched()
		}
	case "RecoverExternal", "RecoverInternal":
		if r.before == nil {
			err = errors.New("harness: recovery outside the concurrent phase")
			break
		}
		br := branchOf(c.API)
		found := r.before.counts[ctr{c.Scope, 0}.String()][br] + c.Ahead
		res.Found = int64(found)
		start := w.Manager.SyncedTo().Height + 1
		rc := &recChain{start: start, best: start + 1, scope: sc, internal: br == waddrmgr.InternalBranch, found: found}
		err = w.VerifRecovery(rc, &waddrmgr.BlockStamp{Height: start, Hash: rc.hash(start), Timestamp: time.Unix(1700000100, 0)})
	default:
		err = fmt.Errorf("unknown api %q", c.API)
	}
	if err != nil {
		res.Err = err.Error()
		return res
	}
	for _, a := range addrs {
		res.Addrs = append(res.Addrs, a.EncodeAddress())
	}
	if len(res.Addrs) > 0 {
		res.Addr = res.Addrs[0]
	}
	return res
}

// resolve fills scope/account/branch/index of the addresses a call obtained,
// as the RESTARTED manager (known: the database's view) places them.
func (r *run) resolve(res *callObs, known map[string]*addrLoc) {
	res.Indices = []int64{}
	for k, a := range res.Addrs {
		l := known[a]
		if k == 0 && l != nil {
			// the branch the address really is on (a request can obtain an
			// address of another branch than its API draws from only if the
			// code is wrong; the comparison with the model then fails)
			res.Scope, res.Account, res.Branch, res.Index = l.scope, l.account, l.branch, int64(l.index)
		}
		if l != nil && l.scope == res.Scope && l.account == res.Account && l.branch == res.Branch {
			res.Indices = append(res.Indices, int64(l.index))
		} else {
			res.Indices = append(res.Indices, -1)
		}
	}
}

func (r *run) startCall(i int) {
	r.mu.Lock()
	r.started[i] = true
	r.order = append(r.order, logItem{ev: "start", call: i})
	r.mu.Unlock()
	ready := make(chan struct{})
	r.wg.Add(1)
	go func() {
		defer r.wg.Done()
		g := goid()
		r.mu.Lock()
		r.gidCall[g] = i
		r.gids[i] = g
		r.mu.Unlock()
		close(ready)
		res := r.invoke(i, r.sc.Calls[i])
		r.mu.Lock()
		// keep what the hooks recorded
		res.N, res.Commits, res.Tx, res.Blocked = r.results[i].N, r.results[i].Commits, r.results[i].Tx, r.results[i].Blocked
		res.Writes = r.results[i].Writes
		if r.results[i].Stack != nil {
			res.Stack = r.results[i].Stack
		}
		r.results[i] = res
		r.returned[i] = true
		r.order = append(r.order, logItem{ev: "return", call: i})
		r.mu.Unlock()
	}()
	<-ready
}

// settle waits until no started call can make progress on its own: each one
// has returned, is parked at its gate, or its goroutine (and wallet.txCreator
// for the calls it serves) sits in a blocking state, with no new event over
// consecutive polls.
func (r *run) settle() {
	deadline := time.Now().Add(3 * time.Second)
	stable, last := 0, -1
	for {
		time.Sleep(300 * time.Microsecond)
		r.mu.Lock()
		n := len(r.order)
		var waiting []int
		needCreator := false
		for i := range r.started {
			if r.started[i] && !r.returned[i] {
				if !r.parked[i] {
					waiting = append(waiting, i)
				}
				if viaCreator(r.sc.Calls[i].API) {
					needCreator = true
				}
			}
		}
		gids := append([]int64{}, r.gids...)
		creator := r.creator
		r.mu.Unlock()
		busy := false
		if len(waiting) > 0 || needCreator {
			st, _ := goStates("")
			for _, i := range waiting {
				if !blockedState(st[gids[i]]) {
					busy = true
				}
			}
			if needCreator && !blockedState(st[creator]) {
				busy = true
			}
		}
		if !busy && n == last {
			stable++
		} else {
			stable = 0
		}
		last = n
		if stable >= 3 {
			return
		}
		if time.Now().After(deadline) {
			r.mu.Lock()
			r.notes = append(r.notes, "settle timeout")
			r.mu.Unlock()
			return
		}
	}
}

func (r *run) doRelease(i int) {
	r.mu.Lock()
	if !r.released[i] {
		r.released[i] = true
		close(r.release[i])
		r.order = append(r.order, logItem{ev: "release", call: i})
	}
	r.mu.Unlock()
}

// errStuck is returned (together with what was observed so far) when requests
// do not return although every gate is open: the wallet under test is wedged
// (for instance a lock-order inversion introduced by an edit) and the process
// cannot go on.
var errStuck = errors.New("requests never returned; wallet wedged")

func (e *env) runScenario(sc scenario) (obs, error) {
	var out obs
	e.seq++
	path := filepath.Join(e.dir, fmt.Sprintf("w%d.db", e.seq))
	if err := copyFile(e.template, path); err != nil {
		return out, err
	}
	defer os.Remove(path)
	o, err := e.open(path)
	if err != nil {
		return out, err
	}
	stuck := false
	defer func() {
		if !stuck {
			o.close()
		}
	}()
	n := len(sc.Calls)
	r := &run{o: o, sc: sc, gidCall: map[int64]int{}, started: make([]bool, n), returned: make([]bool, n),
		parked: make([]bool, n), release: make([]chan struct{}, n), released: make([]bool, n),
		gids: make([]int64, n), results: make([]callObs, n)}
	for i := range r.release {
		r.release[i] = make(chan struct{})
	}
	r.openTx = map[int64]*txState{}
	needCreator := false
	for _, c := range append(append([]callSpec{}, sc.Calls...), sc.Pre...) {
		needCreator = needCreator || viaCreator(c.API)
	}
	cached := map[string]bool{}
	// the goroutine that serves CreateSimpleTx: found by the name of its
	// function if it still has that name, else by a dry run whose UTXO filter
	// reports the goroutine it runs in (that also loads account 84/0)
	_, r.creator = goStates("wallet.(*Wallet).txCreator")
	if r.creator < 0 && needCreator {
		var g int64 = -1
		k84, s84 := waddrmgr.KeyScopeBIP0084, waddrmgr.KeyScopeBIP0084
		_, err := o.w.CreateSimpleTx(&k84, 0, txOutputs(), 1, 2000, wallet.CoinSelectionLargest, true,
			wallet.WithCustomChangeScope(&s84), wallet.WithUtxoFilter(func(wtxmgr.Credit) bool { g = goid(); return true }))
		if err != nil || g < 0 {
			return out, fmt.Errorf("the goroutine serving CreateSimpleTx was not found (%v)", err)
		}
		r.creator = g
		cached["84/0"] = true
	}

	// warm-up, sequential, no hooks
	for _, c := range sc.Pre {
		res := r.invoke(-1, c)
		if res.Err != "" {
			return out, fmt.Errorf("warm-up %s failed: %s", c.API, res.Err)
		}
		cached[counterOf(c).String()] = true
		if viaCreator(c.API) || isFund(c.API) {
			cached["84/0"] = true
		}
	}
	if sc.MarkUsed {
		a, err := o.w.CurrentAddress(0, waddrmgr.KeyScopeBIP0084)
		if err != nil {
			return out, err
		}
		err = walletdb.Update(o.w.Database(), func(tx walletdb.ReadWriteTx) error {
			return o.w.Manager.MarkUsed(tx.ReadWriteBucket([]byte("waddrmgr")), a)
		})
		if err != nil {
			return out, err
		}
		cached["84/0"] = true
	}
	if sc.Warm {
		if _, err := memState(o.w); err != nil {
			return out, err
		}
		for _, c := range counters {
			cached[c.String()] = true
		}
	}
	before, err := e.diskState(o.proxy, nil, false)
	if err != nil {
		return out, err
	}
	r.before = before
	out.Native = sc.Native
	o.proxy.SetNative(sc.Native)

	// concurrent phase
	o.proxy.SetHooks(r.hooks())
	for _, st := range sc.Script {
		switch st.Op {
		case "start":
			if st.Call < 0 || st.Call >= n || r.started[st.Call] {
				return out, fmt.Errorf("bad script step %+v", st)
			}
			anyParked := false
			r.mu.Lock()
			for i := range r.parked {
				anyParked = anyParked || r.parked[i]
			}
			r.mu.Unlock()
			r.startCall(st.Call)
			r.settle()
			r.mu.Lock()
			if anyParked && !r.returned[st.Call] && !r.parked[st.Call] && !r.results[st.Call].Tx {
				// it has not even begun its transaction while another call
				// sits between commit and handlers: it is waiting for the mutex
				r.results[st.Call].Blocked = true
				r.order = append(r.order, logItem{ev: "blocked", call: st.Call})
			}
			r.mu.Unlock()
		case "release":
			if st.Call < 0 || st.Call >= n {
				return out, fmt.Errorf("bad script step %+v", st)
			}
			r.doRelease(st.Call)
			r.settle()
		case "start_all":
			for i := 0; i < n; i++ {
				if !r.started[i] {
					r.startCall(i)
				}
			}
		default:
			return out, fmt.Errorf("bad script op %q", st.Op)
		}
	}
	// drain: start what the script forgot, open every gate
	for i := 0; i < n; i++ {
		if !r.started[i] {
			r.startCall(i)
		}
	}
	done := make(chan struct{})
	go func() { r.wg.Wait(); close(done) }()
	drainDeadline := time.Now().Add(10 * time.Second)
	for open := false; !open; {
		if time.Now().After(drainDeadline) {
			stuck = true
			break
		}
		select {
		case <-done:
			open = true
		case <-time.After(2 * time.Millisecond):
			r.settle()
			r.mu.Lock()
			for i := 0; i < n; i++ {
				if r.parked[i] && !r.released[i] {
					r.released[i] = true
					close(r.release[i])
					r.order = append(r.order, logItem{ev: "release", call: i})
					break // one at a time, in call order
				}
			}
			r.mu.Unlock()
		}
	}
	if stuck {
		st, _ := goStates("")
		r.mu.Lock()
		for i := 0; i < n; i++ {
			if !r.returned[i] {
				r.notes = append(r.notes, fmt.Sprintf("call %d (%s) never returned; goroutine state %q, wallet.txCreator %q",
					i, sc.Calls[i].API, st[r.gids[i]], st[r.creator]))
			}
		}
		out.Calls = append([]callObs{}, r.results...)
		for _, it := range r.order {
			c := it.call
			if it.st != nil {
				c = it.st.call
			}
			out.Events = append(out.Events, event{Ev: it.ev, Call: c})
		}
		out.Notes = r.notes
		out.Branches = []branchObs{}
		r.mu.Unlock()
		return out, errStuck
	}
	o.proxy.SetHooks(nil)
	o.proxy.SetNative(false)

	// what does the wallet hand out next (sequential requests)
	out.Post = []callObs{}
	for _, c := range sc.Post {
		if c.API != "NewAddress" && c.API != "NewChangeAddress" {
			return out, fmt.Errorf("post request %s: only NewAddress / NewChangeAddress", c.API)
		}
		var stack []string
		me := goid()
		o.proxy.SetHooks(&proxydb.Hooks{OnBegin: func(tx *proxydb.TxInfo) {
			if tx.Writable && goid() == me && stack == nil {
				stack = repoStack()
			}
		}})
		res := r.invoke(-1, c)
		o.proxy.SetHooks(nil)
		res.Commits, res.Tx = res.Err == "", true
		if res.Commits {
			res.N, res.Derived = 1, 1
		}
		if stack != nil {
			res.Stack = stack
		}
		out.Post = append(out.Post, res)
	}

	// observations
	cache := cachedAddresses(o.w)
	for i := range r.results {
		res := &r.results[i]
		res.Derived = res.N
		if isRaw(res.API) && res.N > 0 {
			res.Derived = len(res.Addrs)
			if sc.Calls[i].N > 0 {
				res.Derived = int(sc.Calls[i].N)
			}
		}
		if res.Stack == nil {
			res.Stack = []string{}
		}
		res.Site = "harness." + res.API
		if len(res.Stack) > 0 {
			res.Site = res.Stack[0]
		}
	}
	for i := range out.Post {
		out.Post[i].Site = "post." + out.Post[i].API
		if len(out.Post[i].Stack) > 0 {
			out.Post[i].Site = out.Post[i].Stack[0]
		}
	}
	probe := append([]string{}, cache...)
	for _, c := range append(append([]callObs{}, r.results...), out.Post...) {
		probe = append(probe, c.Addrs...)
	}
	after, err := e.diskState(o.proxy, probe, true)
	if err != nil {
		return out, err
	}
	for i := range r.results {
		r.resolve(&r.results[i], after.known)
	}
	for i := range out.Post {
		r.resolve(&out.Post[i], after.known)
	}
	out.Calls = r.results
	for _, it := range r.order {
		c := it.call
		if it.st != nil {
			c = it.st.call
			if c < 0 {
				r.notes = append(r.notes, "write transaction not attributed to a call: "+it.ev+" "+strings.Join(it.st.stack, "<"))
			}
		}
		out.Events = append(out.Events, event{Ev: it.ev, Call: c})
	}
	mem, err := memState(o.w)
	if err != nil {
		return out, err
	}
	out.CachePhantoms = []string{}
	for _, a := range cache {
		if after.known[a] == nil {
			out.CachePhantoms = append(out.CachePhantoms, a)
		}
	}
	for _, ct := range counters {
		k := ct.String()
		for br := uint32(0); br < 2; br++ {
			b := branchObs{Scope: ct.scope, Account: ct.account, Branch: br, N0: before.counts[k][br], Cached: cached[k],
				MemAfter: mem.counts[k][br], DiskAfter: after.counts[k][br], Issued: []int64{}, Extended: []int64{},
				Cache: []int64{}}
			// (assigned through locals: with go1.23.5 -race the composite literal
			// `LastMem: mem.last[k][br]` of a map[string][2][2]int64 yields garbage)
			lm, ld, nx, ni := mem.last[k], after.last[k], after.next[k], after.nextI[k]
			b.LastMem, b.LastDisk = lm[br], ld[br]
			b.RestartNext, b.RestartNextIndex = nx[br], ni[br]
			for _, c := range append(append([]callObs{}, r.results...), out.Post...) {
				if c.Err != "" || !c.Commits {
					continue
				}
				if isRecover(c.API) {
					if c.Scope == ct.scope && ct.account == 0 && c.Branch == br && c.Found >= int64(b.N0) {
						b.Extended = append(b.Extended, c.Found)
					}
					continue
				}
				if c.N > 0 && c.Scope == ct.scope && c.Account == ct.account && c.Branch == br {
					for _, x := range c.Indices {
						if x >= 0 {
							b.Issued = append(b.Issued, x)
						}
					}
				}
			}
			for _, a := range cache {
				if l := after.known[a]; l != nil && l.scope == ct.scope && l.account == ct.account &&
					l.branch == br && l.index >= b.N0 {
					b.Cache = append(b.Cache, int64(l.index))
				}
			}
			sort.Slice(b.Cache, func(i, j int) bool { return b.Cache[i] < b.Cache[j] })
			out.Branches = append(out.Branches, b)
		}
	}
	out.Notes = r.notes
	if out.Notes == nil {
		out.Notes = []string{}
	}
	out.Control = []string{}
	return out, nil
}

// oracle states the property on what the implementation did.
func oracle(o obs) []string {
	bad := map[string]bool{}
	seen := map[string]bool{}
	all := append(append([]callObs{}, o.Calls...), o.Post...)
	for _, c := range all {
		// only requests that derived something and committed issue
		// addresses (CurrentAddress answering with the existing unused address
		// and dry runs do not)
		if c.Err != "" || !c.Commits || c.N == 0 || isRecover(c.API) {
			continue
		}
		for _, a := range c.Addrs {
			if seen[a] {
				bad["duplicate_address"] = true
			}
			seen[a] = true
		}
	}
	// position of the events, to tell what began after a recovery committed
	pos := map[[2]interface{}]int{}
	for k, e := range o.Events {
		key := [2]interface{}{e.Ev, e.Call}
		if _, ok := pos[key]; !ok {
			pos[key] = k
		}
	}
	for _, b := range o.Branches {
		// indices consumed on the branch: handed out to a call, or derived by
		// a recovery that extended the branch through a found index
		set := map[int64]bool{}
		for _, x := range b.Issued {
			set[x] = true
		}
		for _, f := range b.Extended {
			for x := int64(b.N0); x <= f; x++ {
				set[x] = true
			}
		}
		for k := 0; k < len(set); k++ {
			if !set[int64(b.N0)+int64(k)] {
				bad["index_gap"] = true
			}
		}
		if b.MemAfter != b.DiskAfter {
			bad["memory_disk_disagree"] = true
		}
		// every index the database says is consumed went to a call or a recovery, and vice versa
		if int64(b.DiskAfter) != int64(b.N0)+int64(len(set)) {
			bad["index_gap"] = true
		}
		// the last address of the branch: memory and a restarted manager agree
		if b.LastMem != b.LastDisk {
			bad["last_address_disagree"] = true
		}
		// after a restart the next address is none of those handed out
		if b.RestartNext != "" && seen[b.RestartNext] {
			bad["restart_reissues_address"] = true
		}
	}
	// a request that began after a recovery had committed must not obtain an
	// index the recovery extended the branch through
	for ri, rc := range o.Calls {
		if !isRecover(rc.API) || rc.Err != "" || !rc.Commits {
			continue
		}
		rp, ok := pos[[2]interface{}{"commit", ri}]
		if !ok {
			continue
		}
		later := func(c callObs) bool {
			if c.Err != "" || !c.Commits || c.N == 0 || isRecover(c.API) ||
				c.Scope != rc.Scope || c.Account != 0 || c.Branch != rc.Branch {
				return false
			}
			for _, x := range c.Indices {
				if x >= 0 && x <= rc.Found {
					return true
				}
			}
			return false
		}
		for ci, c := range o.Calls {
			if bp, ok := pos[[2]interface{}{"begin", ci}]; ok && bp > rp && later(c) {
				bad["recovered_address_reissued"] = true
			}
		}
		for _, c := range o.Post {
			if later(c) {
				bad["recovered_address_reissued"] = true
			}
		}
	}
	if len(o.CachePhantoms) > 0 {
		bad["cached_address_unknown_to_database"] = true
	}
	var out []string
	for k := range bad {
		out = append(out, k)
	}
	sort.Strings(out)
	return out
}

// ------------------------------------------------------------- generation

var apis = []string{"NewAddress", "NewChangeAddress", "CurrentAddress", "CreateSimpleTx", "CreateSimpleTxDry", "FundPsbt"}

// all request kinds of the random scripts: the above plus the spends whose
// inputs belong to the imported account (change lands on account 0) and the
// dry-run account import
var allAPIs = append(append([]string{}, apis...), "SpendImported", "SpendImportedDry", "FundPsbtImported", "ImportAccountDryRun")

func hasRaw(sc scenario) bool {
	for _, c := range sc.Calls {
		if isRaw(c.API) {
			return true
		}
	}
	return false
}

func tagsOf(sc scenario, o obs) []string {
	t := map[string]bool{"kind_" + sc.Kind: true, fmt.Sprintf("calls_%d", len(sc.Calls)): true}
	if sc.Native {
		t["db_native_commit_order"] = true
	} else {
		t["db_proxy_runs_handlers"] = true
	}
	if len(sc.Post) > 0 {
		t["post_requests"] = true
	}
	if hasRaw(sc) {
		if sc.StandIn != "" {
			t["stand_in_for_source_site"] = true
		} else {
			t["negative_control"] = true
		}
	}
	counters := map[string]bool{}
	for _, c := range sc.Calls {
		t["api_"+c.API] = true
		if isImportedSpend(c.API) {
			t["imported_account_spend"] = true
		}
		if c.Account == 1 {
			t["account_1"] = true
		}
		if c.Gate {
			t["gated"] = true
		}
		if c.N > 1 {
			t["request_deriving_2plus"] = true
		}
		if isRecover(c.API) {
			t["recovery"] = true
		}
		counters[fmt.Sprintf("%s/%d", counterOf(c), branchOf(c.API))] = true
	}
	if len(counters) >= 3 {
		t["counters_3plus"] = true
	}
	for _, c := range o.Calls {
		if c.Blocked {
			t["blocked_on_mutex_while_other_parked"] = true
		}
		if c.Err != "" {
			t["call_error"] = true
		}
		if c.Tx && !c.Commits {
			t["rolled_back"] = true
		}
		if c.Tx && c.Commits && c.N == 0 && !isRecover(c.API) {
			t["committed_without_derivation"] = true
		}
		if c.Tx && c.Commits && c.Derived > 1 {
			t["committed_deriving_2plus"] = true
		}
	}
	for _, b := range o.Branches {
		if len(b.Issued) >= 2 {
			t["branch_with_2plus_issued"] = true
		}
		if !b.Cached && len(b.Issued) > 0 {
			t["uncached_account"] = true
		}
		if len(b.Extended) > 0 {
			t["branch_extended_by_recovery"] = true
		}
	}
	if sc.MarkUsed {
		t["used_tip"] = true
	}
	if len(o.Notes) > 0 {
		t["notes"] = true
	}
	var out []string
	for k := range t {
		out = append(out, k)
	}
	sort.Strings(out)
	return out
}

func windowScenario(a, b callSpec, markUsed bool, pre int) scenario {
	a.Gate = true
	sc := scenario{Kind: "window", MarkUsed: markUsed, Calls: []callSpec{a, b},
		Script: []stepSpec{{"start", 0}, {"start", 1}, {"release", 0}, {"release", 1}}}
	for i := 0; i < pre; i++ {
		sc.Pre = append(sc.Pre, callSpec{API: []string{"NewAddress", "NewChangeAddress"}[i%2], Scope: "84"})
	}
	if sc.Pre == nil {
		sc.Pre = []callSpec{}
	}
	return sc
}

func postFor(branch uint32, k int) []callSpec {
	api := "NewAddress"
	if branch == waddrmgr.InternalBranch {
		api = "NewChangeAddress"
	}
	var out []callSpec
	for i := 0; i < k; i++ {
		out = append(out, callSpec{API: api, Scope: "84"})
	}
	return out
}

// systematicExtra: the scenarios added in review round 3.
func systematicExtra() []scenario {
	var out []scenario
	k := 0
	add := func(sc scenario, kind string) {
		if kind != "" {
			sc.Kind = kind
		}
		sc.Warm = k%2 == 0
		k++
		out = append(out, sc)
	}
	c := func(api string) callSpec { return callSpec{API: api, Scope: "84"} }
	// (a) recovery: a request parked between its commit and its handlers while
	// recovery extends the same branch; the reverse order; then what the
	// wallet hands out next
	type pr struct{ req, rec string }
	for _, p := range []pr{{"NewAddress", "RecoverExternal"}, {"CurrentAddress", "RecoverExternal"},
		{"NewChangeAddress", "RecoverInternal"}, {"CreateSimpleTx", "RecoverInternal"}, {"FundPsbt", "RecoverInternal"},
		{"SpendImported", "RecoverInternal"}} {
		for _, native := range []bool{false, true} {
			rec := c(p.rec)
			rec.Ahead = uint32(2 + k%3)
			sc := windowScenario(c(p.req), rec, p.req == "CurrentAddress", k%3)
			sc.Native = native
			sc.Post = postFor(branchOf(p.rec), 2)
			add(sc, "recovery")
		}
		// recovery first (parked after its commit), the request in its window
		rec := c(p.rec)
		rec.Ahead = uint32(1 + k%3)
		sc := windowScenario(rec, c(p.req), p.req == "CurrentAddress", k%3)
		sc.Post = postFor(branchOf(p.rec), 1)
		add(sc, "recovery")
	}
	// recovery that finds nothing new (found index below the key count) next to a request
	{
		rec := c("RecoverExternal")
		sc := windowScenario(c("NewAddress"), rec, false, 2)
		sc.Calls[1].Ahead = 0
		sc.Post = postFor(0, 1)
		add(sc, "recovery")
	}
	// (b) negative controls: an issuer that does not take the wallet's address
	// mutex (several addresses per transaction) against the wallet's requests
	for _, p := range [][2]string{{"RawNextExternal", "NewAddress"}, {"NewAddress", "RawNextExternal"},
		{"RawNextInternal", "NewChangeAddress"}, {"FundPsbt", "RawNextInternal"}, {"RawNextInternal", "CreateSimpleTx"},
		{"RawNextExternal", "RawNextExternal"}} {
		for _, native := range []bool{false, true} {
			a, b := c(p[0]), c(p[1])
			if isRaw(a.API) {
				a.N = uint32(2 + k%2)
			}
			if isRaw(b.API) {
				b.N = uint32(1 + k%3)
			}
			sc := windowScenario(a, b, false, k%3)
			sc.Native = native
			sc.Post = postFor(branchOf(p[0]), 1)
			add(sc, "control")
		}
	}
	// (c) the dry-run account import (n addresses per branch of an account that
	// never exists outside its rolled-back transaction)
	for _, req := range []string{"NewAddress", "NewChangeAddress", "FundPsbt", "CreateSimpleTx"} {
		imp := c("ImportAccountDryRun")
		imp.N = uint32(1 + k%4)
		sc := windowScenario(c(req), imp, false, k%3)
		sc.Native = k%2 == 1
		add(sc, "")
		sc = windowScenario(imp, c(req), false, k%3)
		add(sc, "")
	}
	// (d) the real commit ordering for the window placements of every API
	for _, a := range []string{"NewAddress", "NewChangeAddress", "CurrentAddress", "CreateSimpleTx", "FundPsbt", "SpendImported", "FundPsbtImported"} {
		for _, b := range []string{"NewAddress", "NewChangeAddress", "FundPsbt"} {
			sc := windowScenario(c(a), c(b), a == "CurrentAddress", k%3)
			sc.Native = true
			add(sc, "")
		}
	}
	// (e) everything interleaved: both branches, two accounts, three scopes,
	// all request kinds, one parked after the other
	mixed := []callSpec{c("NewAddress"), c("NewChangeAddress"), c("CurrentAddress"), c("FundPsbt"),
		{API: "ImportAccountDryRun", Scope: "84", N: 3}, {API: "NewAddress", Scope: "84", Account: 1},
		{API: "NewAddress", Scope: "86"}, {API: "NewChangeAddress", Scope: "49"}, c("CreateSimpleTx"),
		{API: "NewChangeAddress", Scope: "84", Account: 1}, c("SpendImported"), {API: "FundPsbt", Scope: "86"}}
	for v := 0; v < 4; v++ {
		sc := scenario{Kind: "chain", Native: v%2 == 1, MarkUsed: v >= 2, Pre: []callSpec{}}
		n := len(mixed)
		for i := 0; i < n; i++ {
			cs := mixed[(i*(2*v+1)+v)%n]
			cs.Gate = true
			sc.Calls = append(sc.Calls, cs)
		}
		for i := 0; i < n; i++ {
			sc.Script = append(sc.Script, stepSpec{"start", i})
		}
		for i := 0; i < n; i++ {
			sc.Script = append(sc.Script, stepSpec{"release", (i*5 + v) % n})
		}
		sc.Post = append(postFor(0, 1), postFor(1, 1)...)
		add(sc, "")
	}
	return out
}

func randomScenario(r *gen.R) scenario {
	sc := scenario{Pre: []callSpec{}}
	n := r.Range(2, 8)
	kind := r.Pick(3, 4, 2)
	sc.Kind = []string{"chain", "random", "stress"}[kind]
	if sc.Kind == "stress" {
		n = r.Range(6, 16)
	}
	for i := r.Pick(3, 2, 1, 1); i > 0; i-- {
		sc.Pre = append(sc.Pre, callSpec{API: apis[r.Pick(3, 3, 1, 1, 0, 0)], Scope: []string{"84", "86", "49"}[r.Pick(4, 1, 1)]})
	}
	sc.MarkUsed = r.Chance(1, 4)
	sc.Warm = r.Chance(1, 3)
	sc.Native = r.Chance(2, 5)
	creators := 0
	for i := 0; i < n; i++ {
		c := callSpec{API: allAPIs[r.Pick(5, 5, 3, 2, 2, 2, 2, 1, 1, 1)], Scope: []string{"84", "86", "49"}[r.Pick(6, 2, 1)]}
		if c.Scope == "84" && !isImportedSpend(c.API) && c.API != "ImportAccountDryRun" && r.Chance(1, 5) {
			c.Account = 1
		}
		if c.API == "ImportAccountDryRun" {
			c.N = uint32(r.Range(1, 4))
		}
		if viaCreator(c.API) {
			// the wallet serves CreateSimpleTx requests one at a time; more
			// than one in flight cannot be told apart at Begin, keep it to two
			if creators >= 2 {
				c.API = "NewChangeAddress"
			}
			creators++
		}
		switch sc.Kind {
		case "chain":
			c.Gate = true
		case "random":
			c.Gate = r.Chance(2, 3)
		}
		sc.Calls = append(sc.Calls, c)
	}
	if sc.Kind == "stress" {
		for k := r.Range(1, 4); k > 0; k-- {
			sc.Calls = append(sc.Calls, callSpec{API: "ReadAccount", Scope: []string{"84", "86", "49"}[r.Pick(6, 2, 1)]})
			n++
		}
	}
	if sc.Kind != "stress" && r.Chance(1, 6) {
		// one recovery among the scripted requests (never in an unscripted
		// run: it takes no mutex, the observed event order would not determine
		// what it read)
		rec := callSpec{API: []string{"RecoverExternal", "RecoverInternal"}[r.Intn(2)], Scope: []string{"84", "86", "49"}[r.Pick(6, 2, 1)],
			Ahead: uint32(r.Range(0, 4)), Gate: r.Chance(1, 2)}
		sc.Calls = append(sc.Calls, rec)
		n++
	}
	for i := r.Pick(3, 2, 1); i > 0; i-- {
		sc.Post = append(sc.Post, callSpec{API: []string{"NewAddress", "NewChangeAddress"}[r.Intn(2)], Scope: []string{"84", "86", "49"}[r.Pick(6, 2, 1)]})
	}
	switch sc.Kind {
	case "stress":
		sc.Script = []stepSpec{{"start_all", 0}}
	case "chain":
		// start everything (the first parks, with the mutex the rest queue),
		// then release in a random order
		for _, i := range r.Perm(n) {
			sc.Script = append(sc.Script, stepSpec{"start", i})
		}
		for _, i := range r.Perm(n) {
			sc.Script = append(sc.Script, stepSpec{"release", i})
		}
	default:
		// random interleaving of starts and releases (release after start)
		order := r.Perm(n)
		pendingRel := []int{}
		for len(order) > 0 || len(pendingRel) > 0 {
			if len(order) > 0 && (len(pendingRel) == 0 || r.Chance(3, 5)) {
				i := order[0]
				order = order[1:]
				sc.Script = append(sc.Script, stepSpec{"start", i})
				if sc.Calls[i].Gate {
					pendingRel = append(pendingRel, i)
				}
			} else {
				k := r.Intn(len(pendingRel))
				sc.Script = append(sc.Script, stepSpec{"release", pendingRel[k]})
				pendingRel = append(pendingRel[:k], pendingRel[k+1:]...)
			}
		}
	}
	return sc
}

type standIn struct {
	Site   string `json:"site"`   // the issuing site found in the source that the harness cannot call by name
	Branch string `json:"branch"` // "external" | "internal" | "both"
}

// calibration: which function of the repository opens the write transaction
// of each request kind (as the running code reports it: nothing here or in the
// table extractor knows those functions by name), which branch it draws from
// and whether the wallet's transaction-creator goroutine serves it.
type calibEntry struct {
	Stack      []string `json:"stack"`
	Branch     string   `json:"branch"` // "E" | "I" | "" (dry-run import: an account of its own)
	ViaCreator bool     `json:"via_creator"`
	Commits    bool     `json:"commits"`
	Err        string   `json:"err,omitempty"`
}

func runCalibration(out *core.Emitter) error {
	waddrmgr.SetSecretKeyGen(fastKeyGen)
	dir, err := os.MkdirTemp("", "vh-c09-cal-")
	if err != nil {
		return err
	}
	defer os.RemoveAll(dir)
	e := &env{dir: dir}
	if err := e.makeTemplate(); err != nil {
		return fmt.Errorf("template wallet: %w", err)
	}
	res := map[string]calibEntry{}
	for _, api := range append(append([]string{}, allAPIs...), "RecoverExternal", "RecoverInternal") {
		sc := scenario{Kind: "calibrate", Pre: []callSpec{}, MarkUsed: api == "CurrentAddress",
			Calls: []callSpec{{API: api, Scope: "84", Ahead: 1, N: 1}}, Script: []stepSpec{{"start", 0}}}
		o, err := e.runScenario(sc)
		if err != nil {
			return fmt.Errorf("calibration of %s: %w", api, err)
		}
		c := o.Calls[0]
		ent := calibEntry{Stack: c.Stack, ViaCreator: viaCreator(api), Commits: c.Commits, Err: c.Err}
		if api != "ImportAccountDryRun" {
			ent.Branch = []string{"E", "I"}[branchOf(api)]
		}
		res[api] = ent
	}
	out.Emit(map[string]interface{}{"calibration": res})
	return nil
}

type job struct {
	sc    scenario
	extra []string
}

// jobs lists the scenarios of a run, in a fixed order for a given seed.
func jobs(c *core.Common, stressOnly bool, standIns string) ([]job, error) {
	var out []job
	add := func(sc scenario, extra ...string) { out = append(out, job{sc, extra}) }
	if standIns != "" {
		var list []standIn
		if err := json.Unmarshal([]byte(standIns), &list); err != nil {
			return nil, fmt.Errorf("-standin: %w", err)
		}
		k := 0
		for _, si := range list {
			for _, br := range []string{"external", "internal"} {
				if si.Branch != br && si.Branch != "both" {
					continue
				}
				raw, req := "RawNextExternal", "NewAddress"
				if br == "internal" {
					raw, req = "RawNextInternal", "NewChangeAddress"
				}
				for _, first := range []bool{true, false} {
					a, b := callSpec{API: raw, Scope: "84"}, callSpec{API: req, Scope: "84"}
					if !first {
						a, b = b, a
					}
					sc := windowScenario(a, b, false, k%3)
					sc.StandIn, sc.Kind, sc.Warm = si.Site, "standin", k%2 == 0
					k++
					add(sc, "systematic")
				}
			}
		}
	}
	if !stressOnly {
		// systematic: B's whole request placed between A's commit and A's
		// commit handlers, for every ordered pair of APIs on scope 84
		// (CurrentAddress on an unused and on a used tip)
		type v struct {
			api  string
			used bool
		}
		var vs []v
		for _, a := range apis {
			vs = append(vs, v{a, false})
		}
		vs = append(vs, v{"CurrentAddress", true})
		k := 0
		for _, a := range vs {
			for _, b := range vs {
				if a.api == "CurrentAddress" && b.api == "CurrentAddress" && a.used != b.used {
					continue
				}
				sc := windowScenario(callSpec{API: a.api, Scope: "84"}, callSpec{API: b.api, Scope: "84"}, a.used || b.used, k%3)
				sc.Warm = k%2 == 0
				k++
				add(sc, "systematic")
			}
		}
		// systematic, continued: spends whose inputs belong to the imported
		// account create their change on ACCOUNT 0, so they compete with
		// every account-0 request on the internal branch; and requests on
		// account 1, which has its own counters (no interference expected)
		w := func(a, b callSpec, k int) {
			sc := windowScenario(a, b, false, k%3)
			sc.Warm = k%2 == 0
			add(sc, "systematic")
		}
		k = 0
		partners := []string{"NewChangeAddress", "NewAddress", "CurrentAddress", "CreateSimpleTx", "FundPsbt",
			"SpendImported", "SpendImportedDry"}
		for _, imp := range []string{"SpendImported", "FundPsbtImported"} {
			for _, p := range partners {
				a, b := callSpec{API: imp, Scope: "84"}, callSpec{API: p, Scope: "84"}
				w(a, b, k)
				k++
				if p != imp {
					w(b, a, k)
					k++
				}
			}
		}
		others := []callSpec{{API: "NewChangeAddress", Scope: "84"}, {API: "CreateSimpleTx", Scope: "84"},
			{API: "SpendImported", Scope: "84"}, {API: "NewChangeAddress", Scope: "84", Account: 1}}
		for _, a1 := range []string{"CreateSimpleTx", "NewChangeAddress", "FundPsbt"} {
			for _, b := range others {
				a := callSpec{API: a1, Scope: "84", Account: 1}
				w(a, b, k)
				k++
				w(b, a, k)
				k++
			}
		}
		for _, sc := range systematicExtra() {
			add(sc, "systematic")
		}
	}
	r := gen.New(c.Seed, 9)
	for i := 0; i < c.N; i++ {
		sc := randomScenario(r)
		if stressOnly && sc.Kind != "stress" {
			i--
			continue
		}
		add(sc)
	}
	return out, nil
}

// fanOut runs the job list in `procs` child processes (child k runs the jobs
// whose position is k modulo procs; every scenario has its own wallet file and
// goroutines are inspected per process, so the scenarios do not interact) and
// emits the cases in job order.
// raceReports splits a child's stderr into the data-race reports of the Go
// race detector, each attributed to the scenario that was running (the child
// prints a marker line before every scenario).
func raceReports(stderr string) map[int][]string {
	out := map[int][]string{}
	cur := -1
	var blk []string
	in := false
	for _, line := range strings.Split(stderr, "\n") {
		if strings.HasPrefix(line, "C09-SCENARIO ") {
			fmt.Sscanf(line, "C09-SCENARIO %d", &cur)
			continue
		}
		if strings.HasPrefix(line, "WARNING: DATA RACE") {
			in, blk = true, []string{line}
			continue
		}
		if in {
			if strings.HasPrefix(line, "==================") {
				out[cur] = append(out[cur], strings.Join(blk, "\n"))
				in = false
				continue
			}
			blk = append(blk, line)
		}
	}
	return out
}

// onManagerState: does the race report involve the code under test's address
// manager / wallet (as opposed to the harness's own bookkeeping)
func onManagerState(report string) bool {
	return strings.Contains(report, modPrefix+"waddrmgr.") || strings.Contains(report, modPrefix+"wallet.")
}

var childExe string

func fanOut(procs, total int, out *core.Emitter) error {
	type line struct {
		K    int             `json:"_k"`
		Case json.RawMessage `json:"case"`
	}
	results := make([][]line, procs)
	errs := make([]error, procs)
	stderrs := make([]bytes.Buffer, procs)
	var wg sync.WaitGroup
	for p := 0; p < procs; p++ {
		wg.Add(1)
		go func(p int) {
			defer wg.Done()
			args := append(append([]string{}, os.Args[1:]...), "-shard", fmt.Sprintf("%d/%d", p, procs))
			exe := os.Args[0]
			if childExe != "" {
				exe = childExe
			}
			cmd := exec.Command(exe, args...)
			cmd.Env = append(os.Environ(), "GORACE=halt_on_error=0 exitcode=0")
			cmd.Stderr = &stderrs[p]
			b, err := cmd.Output()
			errs[p] = err
			for _, l := range bytes.Split(b, []byte("\n")) {
				if len(bytes.TrimSpace(l)) == 0 {
					continue
				}
				var x line
				if e := json.Unmarshal(l, &x); e != nil {
					errs[p] = fmt.Errorf("child %d: %v", p, e)
					continue
				}
				results[p] = append(results[p], x)
			}
		}(p)
	}
	wg.Wait()
	byK := map[int]json.RawMessage{}
	for _, rs := range results {
		for _, x := range rs {
			byK[x.K] = x.Case
		}
	}
	// data races reported by a race-built child: an oracle kind of the
	// scenario that was running when the report was printed
	races := map[int][]string{}
	for p := range stderrs {
		for k, reps := range raceReports(stderrs[p].String()) {
			races[k] = append(races[k], reps...)
		}
	}
	for k := 0; k < total; k++ {
		c, ok := byK[k]
		if !ok {
			continue
		}
		if reps := races[k]; len(reps) > 0 || childExe != "" {
			var m map[string]interface{}
			if err := json.Unmarshal(c, &m); err == nil {
				if childExe != "" {
					tags, _ := m["tags"].([]interface{})
					m["tags"] = append(tags, "run_under_race_detector")
				}
				if len(reps) == 0 {
					out.Emit(m)
					continue
				}
				onMgr := false
				var short []string
				for _, rp := range reps {
					onMgr = onMgr || onManagerState(rp)
					if len(rp) > 1800 {
						rp = rp[:1800]
					}
					short = append(short, rp)
				}
				if obs, ok := m["obs"].(map[string]interface{}); ok {
					obs["race_reports"] = short
				}
				tags, _ := m["tags"].([]interface{})
				if onMgr {
					orc, _ := m["oracle"].([]interface{})
					m["oracle"] = append(orc, "data_race")
					m["tags"] = append(tags, "race_on_manager_state")
				} else {
					m["tags"] = append(tags, "race_in_harness_only")
				}
				out.Emit(m)
				continue
			}
		}
		out.Emit(c)
	}
	for p, err := range errs {
		os.Stderr.Write(bytes.ReplaceAll(stderrs[p].Bytes(), []byte("C09-SCENARIO "), []byte("scenario ")))
		if err != nil {
			return fmt.Errorf("child process %d: %v", p, err)
		}
	}
	return nil
}

func main() {
	var stressOnly, calibrate bool
	var standIns, shard string
	var procs int
	core.Main("c09", func(fs *flag.FlagSet) {
		fs.BoolVar(&stressOnly, "stress-only", false, "only ungated stress scenarios")
		fs.StringVar(&standIns, "standin", "", `JSON list [{"site":..,"branch":..}] of issuing sites found in the source without the address mutex that cannot be called by name: an issuer of the same shape is run in their place`)
		fs.BoolVar(&calibrate, "calibrate", false, "run every drivable request once and print which repository functions open its write transaction")
		fs.IntVar(&procs, "procs", 4, "child processes the scenarios are spread over (1 = run in this process)")
		fs.StringVar(&shard, "shard", "", "internal: k/n, run the jobs at positions k modulo n and tag the output lines")
		fs.StringVar(&childExe, "child-exe", "", "run the scenarios in child processes of THIS executable (one built with -race): data races it reports become the oracle kind data_race of the scenario that was running")
	}, func(c *core.Common, out *core.Emitter) error {
		var list []job
		if calibrate {
			return runCalibration(out)
		}
		if c.Replay == "" {
			var err error
			if list, err = jobs(c, stressOnly, standIns); err != nil {
				return err
			}
			if shard == "" && (childExe != "" || (procs > 1 && len(list) >= 2*procs)) {
				if procs < 1 {
					procs = 1
				}
				return fanOut(procs, len(list), out)
			}
		}
		shardK, shardN := 0, 1
		if shard != "" {
			if _, err := fmt.Sscanf(shard, "%d/%d", &shardK, &shardN); err != nil || shardN < 1 {
				return fmt.Errorf("-shard %q", shard)
			}
		}
		waddrmgr.SetSecretKeyGen(fastKeyGen)
		dir, err := os.MkdirTemp("", "vh-c09-")
		if err != nil {
			return err
		}
		defer os.RemoveAll(dir)
		e := &env{dir: dir}
		if err := e.makeTemplate(); err != nil {
			return fmt.Errorf("template wallet: %w", err)
		}
		pos := -1
		emit := func(co caseOut) {
			if shard != "" {
				out.Emit(struct {
					K    int     `json:"_k"`
					Case caseOut `json:"case"`
				}{pos, co})
				return
			}
			out.Emit(co)
		}
		runOne := func(sc scenario, extra ...string) error {
			if sc.Pre == nil {
				sc.Pre = []callSpec{}
			}
			t0 := time.Now()
			o, err := e.runScenario(sc)
			if os.Getenv("C09_TIMING") != "" {
				fmt.Fprintf(os.Stderr, "timing %s calls=%d native=%v ms=%d\n", sc.Kind, len(sc.Calls), sc.Native, time.Since(t0).Milliseconds())
			}
			if errors.Is(err, errStuck) {
				// report what was seen, then stop: the process cannot continue
				emit(caseOut{In: sc, Obs: o, Oracle: []string{}, Tags: append(tagsOf(sc, o), "stuck"), Site: "*"})
				return fmt.Errorf("%w: %s", err, strings.Join(o.Notes, "; "))
			}
			if err != nil {
				return err
			}
			tags := append(tagsOf(sc, o), extra...)
			site := "*"
			// the site named in a finding: the recovery if one ran, the
			// source site a stand-in issuer represents, else the first call
			// involved in a duplicate
			seen := map[string]bool{}
			for _, cl := range append(append([]callObs{}, o.Calls...), o.Post...) {
				if cl.Err == "" && cl.Commits && cl.N > 0 && !isRecover(cl.API) {
					dup := false
					for _, a := range cl.Addrs {
						dup = dup || seen[a]
						seen[a] = true
					}
					if dup && site == "*" {
						site = cl.Site
					}
				}
			}
			for _, cl := range o.Calls {
				if isRecover(cl.API) {
					site = cl.Site
				}
			}
			if sc.StandIn != "" {
				site = sc.StandIn
			}
			orc := append([]string{}, oracle(o)...)
			if hasRaw(sc) && sc.StandIn == "" {
				// negative control: the violation is the expected outcome
				o.Control, orc = orc, []string{}
				if sc.Kind == "control" {
					found := false
					for _, k := range o.Control {
						found = found || k == "duplicate_address"
					}
					if !found {
						orc = []string{"harness_negative_control_silent"}
					}
				}
			}
			emit(caseOut{In: sc, Obs: o, Oracle: orc, Tags: tags, Site: site})
			return nil
		}
		if c.Replay != "" {
			return core.ReadReplay(c.Replay, func(raw json.RawMessage) error {
				var cs struct {
					In scenario `json:"in"`
				}
				if err := json.Unmarshal(raw, &cs); err != nil {
					return err
				}
				return runOne(cs.In, "replay")
			})
		}
		for k, j := range list {
			if k%shardN != shardK {
				continue
			}
			pos = k
			if shard != "" {
				fmt.Fprintf(os.Stderr, "C09-SCENARIO %d\n", k)
			}
			if err := runOne(j.sc, j.extra...); err != nil {
				return err
			}
		}
		return nil
	})
}
