// Command c14 runs the real wtxmgr.DependencySort and Store.UnminedTxs on
// generated spend graphs of real wire.MsgTx and prints, per graph, the graph
// (hashes interned to small ids), the orders observed, and the property
// oracle evaluated directly on those orders.
//
// In the store part some outside parents are real transactions mined in the
// store (coinbase or ordinary, with credits), and a history of confirm/abandon
// steps is applied after the members were inserted unmined. "Every
// unconfirmed transaction" is judged against the harness's own ledger of
// inserted-and-not-removed members (c14Ledger), never against what the store
// itself lists (Store.UnminedTxHashes is recorded and tagged only).
package main

import (
	"crypto/sha256"
	"encoding/binary"
	"encoding/json"
	"fmt"
	"os"
	"path/filepath"
	"sort"
	"time"

	"github.com/btcsuite/btcd/chaincfg"
	"github.com/btcsuite/btcd/chaincfg/chainhash"
	"github.com/btcsuite/btcd/wire"
	"github.com/btcsuite/btcwallet/walletdb"
	_ "github.com/btcsuite/btcwallet/walletdb/bdb"
	"github.com/btcsuite/btcwallet/wtxmgr"

	"verifharness/internal/core"
	"verifharness/internal/gen"
)

// c14Tx is one member of the set: ID is the model id of its hash; Ins lists
// (model id of the previous transaction, output index). Previous ids that are
// not the id of a member refer to transactions outside the set.
type c14Tx struct {
	ID  int      `json:"id"`
	Ins [][2]int `json:"ins"`
}

// c14Mined makes the outside parent ID (>= 1000, not a member) a REAL
// transaction that is mined in the store at height H before the members are
// inserted (a coinbase when Coinbase is set), with a credit for each output.
type c14Mined struct {
	ID       int  `json:"id"`
	Coinbase bool `json:"coinbase"`
	H        int  `json:"h"`
}

// c14Op is one step of the history applied to the store after the members
// were inserted unmined: "confirm" (the member is mined at height H) or
// "abandon" (Store.RemoveUnminedTx).
type c14Op struct {
	K  string `json:"k"`
	ID int    `json:"id"`
	H  int    `json:"h,omitempty"`
}

type c14Input struct {
	Txs   []c14Tx    `json:"txs"`
	Runs  int        `json:"runs"`  // calls of DependencySort (maps rebuilt in a fresh insertion order each time)
	Store bool       `json:"store"` // also insert into a real Store and call UnminedTxs
	Mined []c14Mined `json:"mined,omitempty"`
	Ops   []c14Op    `json:"ops,omitempty"`
}

type c14Obs struct {
	Sort       [][]int `json:"sort"`  // distinct orders returned by DependencySort
	Store      [][]int `json:"store"` // distinct orders returned by Store.UnminedTxs
	SortRuns   int     `json:"sort_runs"`
	StoreRuns  int     `json:"store_runs"`
	Ledger     []int   `json:"ledger"`                 // the harness's own record of the unconfirmed members (never read from the store)
	HashList   []int   `json:"unmined_hashes"`         // Store.UnminedTxHashes, as ids, sorted (observation only)
	HashesEq   bool    `json:"store_hashes_eq_ledger"` // UnminedTxHashes is exactly the ledger
	OpsApplied int     `json:"ops_applied"`
	OpsSkipped int     `json:"ops_skipped"`
	StoreError string  `json:"store_error,omitempty"`
}

type c14Case struct {
	In     c14Input `json:"in"`
	Obs    c14Obs   `json:"obs"`
	Oracle []string `json:"oracle"`
	Tags   []string `json:"tags"`
	Site   string   `json:"site"`
}

const foreignID = -1

// ---------------------------------------------------------------- building

func outsideHash(id int) chainhash.Hash {
	var b [16]byte
	copy(b[:], "c14-outside-")
	binary.BigEndian.PutUint32(b[12:], uint32(id))
	return chainhash.Hash(sha256.Sum256(b[:]))
}

// c14Build turns the model graph into real transactions. Hashes of members
// depend on the hashes of the members they spend, so members are built parents
// first (depth-first); a cyclic input cannot be realised and is an error.
//
// Outside parents listed in mined are real transactions too (built first, no
// member input): a coinbase (one input with the null previous outpoint and an
// 8 byte signature script, so that blockchain.IsCoinBaseTx holds) or an
// ordinary transaction spending a synthetic outpoint. Members that spend them
// reference their real hash.
func c14Build(txs []c14Tx, mined []c14Mined) (map[int]*wire.MsgTx, map[chainhash.Hash]int, map[int]*wire.MsgTx, error) {
	byID := map[int]*c14Tx{}
	for i := range txs {
		if _, dup := byID[txs[i].ID]; dup {
			return nil, nil, nil, fmt.Errorf("duplicate id %d", txs[i].ID)
		}
		byID[txs[i].ID] = &txs[i]
	}
	nOut := map[int]int{}
	for _, t := range txs {
		for _, in := range t.Ins {
			if in[1]+1 > nOut[in[0]] {
				nOut[in[0]] = in[1] + 1
			}
		}
	}
	outputs := func(m *wire.MsgTx, id int) {
		n := nOut[id]
		if n == 0 {
			n = 1
		}
		for o := 0; o < n; o++ {
			pk := []byte{0x6a, 8, 0, 0, 0, 0, 0, 0, 0, 0}
			binary.BigEndian.PutUint32(pk[2:], uint32(id))
			binary.BigEndian.PutUint32(pk[6:], uint32(o))
			m.AddTxOut(wire.NewTxOut(int64(1000+o), pk))
		}
	}
	built := map[int]*wire.MsgTx{}
	hashes := map[int]chainhash.Hash{}
	minedTx := map[int]*wire.MsgTx{}
	for _, mp := range mined {
		if _, member := byID[mp.ID]; member {
			return nil, nil, nil, fmt.Errorf("mined parent %d is a member of the set", mp.ID)
		}
		if _, dup := minedTx[mp.ID]; dup {
			return nil, nil, nil, fmt.Errorf("duplicate mined parent %d", mp.ID)
		}
		m := wire.NewMsgTx(wire.TxVersion)
		if mp.Coinbase {
			sig := make([]byte, 8)
			binary.BigEndian.PutUint32(sig[0:], uint32(mp.H))
			binary.BigEndian.PutUint32(sig[4:], uint32(mp.ID))
			m.AddTxIn(wire.NewTxIn(wire.NewOutPoint(&chainhash.Hash{}, wire.MaxPrevOutIndex), sig, nil))
		} else {
			h := outsideHash(mp.ID)
			m.AddTxIn(wire.NewTxIn(wire.NewOutPoint(&h, 7), nil, nil))
		}
		outputs(m, mp.ID)
		minedTx[mp.ID] = m
		hashes[mp.ID] = m.TxHash()
	}
	state := map[int]int{} // 1 = in progress, 2 = done
	var build func(id int) error
	build = func(id int) error {
		switch state[id] {
		case 2:
			return nil
		case 1:
			return fmt.Errorf("cyclic spend graph at id %d: not realisable with real hashes", id)
		}
		state[id] = 1
		t := byID[id]
		m := wire.NewMsgTx(wire.TxVersion)
		for _, in := range t.Ins {
			var h chainhash.Hash
			if _, member := byID[in[0]]; member {
				if err := build(in[0]); err != nil {
					return err
				}
				h = hashes[in[0]]
			} else if mh, isMined := hashes[in[0]]; isMined && minedTx[in[0]] != nil {
				h = mh
			} else {
				h = outsideHash(in[0])
			}
			m.AddTxIn(wire.NewTxIn(wire.NewOutPoint(&h, uint32(in[1])), nil, nil))
		}
		if len(t.Ins) == 0 {
			return fmt.Errorf("id %d has no input (not serialisable)", id)
		}
		outputs(m, id)
		built[id] = m
		hashes[id] = m.TxHash()
		state[id] = 2
		return nil
	}
	ids := make([]int, 0, len(txs))
	for _, t := range txs {
		ids = append(ids, t.ID)
	}
	sort.Ints(ids)
	for _, id := range ids {
		if err := build(id); err != nil {
			return nil, nil, nil, err
		}
	}
	idOf := map[chainhash.Hash]int{}
	for id, h := range hashes {
		idOf[h] = id
	}
	return built, idOf, minedTx, nil
}

// ---------------------------------------------------------------- oracle

// c14Oracle states the property directly on one returned order.
func c14Oracle(txs []c14Tx, order []int) []string {
	member := map[int]*c14Tx{}
	for i := range txs {
		member[txs[i].ID] = &txs[i]
	}
	var bad []string
	seen := map[int]bool{}
	exact := len(order) == len(txs)
	for _, id := range order {
		if _, ok := member[id]; !ok || seen[id] {
			exact = false
		}
		seen[id] = true
	}
	if !exact {
		bad = append(bad, "missing_or_duplicate_tx")
	}
	pos := map[int]int{}
	for i, id := range order {
		if _, ok := pos[id]; !ok {
			pos[id] = i
		}
	}
	early := false
	for _, id := range order {
		t, ok := member[id]
		if !ok {
			continue
		}
		for _, in := range t.Ins {
			if _, isMember := member[in[0]]; !isMember {
				continue
			}
			pp, emitted := pos[in[0]]
			if emitted && pp > pos[id] {
				early = true // parent is offered, but after the child
			}
		}
	}
	if early {
		bad = append(bad, "child_before_parent")
	}
	return bad
}

// ---------------------------------------------------------------- running

func orderKey(o []int) string { return fmt.Sprint(o) }

type runner struct {
	db    walletdb.DB
	nsSeq int
	r     *gen.R
}

func (ru *runner) sortOnce(built map[int]*wire.MsgTx, idOf map[chainhash.Hash]int, ids []int) (order []int, kind string) {
	perm := ru.r.Perm(len(ids))
	m := make(map[chainhash.Hash]*wire.MsgTx, len(ids))
	for _, p := range perm {
		tx := built[ids[p]]
		m[tx.TxHash()] = tx
	}
	type res struct {
		out []*wire.MsgTx
		pan interface{}
	}
	ch := make(chan res, 1)
	go func() {
		defer func() {
			if p := recover(); p != nil {
				ch <- res{nil, p}
			}
		}()
		ch <- res{wtxmgr.DependencySort(m), nil}
	}()
	select {
	case x := <-ch:
		if x.pan != nil {
			return nil, "panic"
		}
		return toIDs(x.out, idOf), ""
	case <-time.After(20 * time.Second):
		return nil, "does_not_terminate"
	}
}

func toIDs(out []*wire.MsgTx, idOf map[chainhash.Hash]int) []int {
	order := make([]int, 0, len(out))
	for _, tx := range out {
		if tx == nil {
			order = append(order, foreignID)
			continue
		}
		if id, ok := idOf[tx.TxHash()]; ok {
			order = append(order, id)
		} else {
			order = append(order, foreignID)
		}
	}
	return order
}

// ---------------------------------------------------------------- ledger

// c14Ledger is the harness's own record of which members are unconfirmed
// transactions of the wallet: inserted unmined and neither mined since nor
// removed. It is computed from the input alone and never reads the store.
//
//	confirm id: id leaves (it is mined); every ledger member that spends an
//	            outpoint id spends can never confirm any more (double spend of
//	            a mined transaction) and leaves with everything that
//	            transitively spends its outputs
//	            (insertMinedTx -> removeDoubleSpends -> removeConflict);
//	abandon id: id leaves with everything that transitively spends its outputs
//	            (RemoveUnminedTx -> removeConflict).
type c14Ledger struct {
	byID     map[int]*c14Tx
	in       map[int]bool
	children map[int][]int    // member id -> members spending one of its outputs
	spenders map[[2]int][]int // outpoint -> members spending it
}

func newLedger(txs []c14Tx) *c14Ledger {
	l := &c14Ledger{byID: map[int]*c14Tx{}, in: map[int]bool{}, children: map[int][]int{}, spenders: map[[2]int][]int{}}
	for i := range txs {
		l.byID[txs[i].ID] = &txs[i]
	}
	for _, t := range txs {
		seenP, seenO := map[int]bool{}, map[[2]int]bool{}
		for _, in := range t.Ins {
			if _, member := l.byID[in[0]]; member && !seenP[in[0]] {
				seenP[in[0]] = true
				l.children[in[0]] = append(l.children[in[0]], t.ID)
			}
			if !seenO[in] {
				seenO[in] = true
				l.spenders[in] = append(l.spenders[in], t.ID)
			}
		}
	}
	return l
}

func (l *c14Ledger) ids() []int {
	out := make([]int, 0, len(l.in))
	for id := range l.in {
		out = append(out, id)
	}
	sort.Ints(out)
	return out
}

// removeTree removes id and every ledger member that transitively spends an
// output of a removed member; it returns how many left.
func (l *c14Ledger) removeTree(id int) int {
	if !l.in[id] {
		return 0
	}
	delete(l.in, id)
	n := 1
	for _, c := range l.children[id] {
		n += l.removeTree(c)
	}
	return n
}

func (l *c14Ledger) hasLedgerChild(id int) bool {
	for _, c := range l.children[id] {
		if l.in[c] {
			return true
		}
	}
	return false
}

// canConfirm: a chain never confirms a child before its parent, so every
// in-set parent must have been confirmed already (a parent that was removed
// took the child with it; hence: no parent is in the ledger). A member whose
// input is spent by a confirmed member left the ledger at that confirmation.
func (l *c14Ledger) canConfirm(id int) bool {
	if !l.in[id] {
		return false
	}
	for _, in := range l.byID[id].Ins {
		if l.in[in[0]] {
			return false
		}
	}
	return true
}

// conflicts lists the ledger members other than id that spend an outpoint id spends.
func (l *c14Ledger) conflicts(id int) []int {
	var out []int
	seen := map[int]bool{}
	for _, in := range l.byID[id].Ins {
		for _, s := range l.spenders[in] {
			if s != id && l.in[s] && !seen[s] {
				seen[s] = true
				out = append(out, s)
			}
		}
	}
	return out
}

func (l *c14Ledger) confirm(id int) (conflicts, withDesc int) {
	cs := l.conflicts(id)
	delete(l.in, id)
	for _, s := range cs {
		if k := l.removeTree(s); k > 0 {
			conflicts++
			if k > 1 {
				withDesc++
			}
		}
	}
	return
}

func (l *c14Ledger) abandon(id int) (descendants int) { return l.removeTree(id) - 1 }

func blockMeta(h int) *wtxmgr.BlockMeta {
	var b [12]byte
	copy(b[:], "c14-blk-")
	binary.BigEndian.PutUint32(b[8:], uint32(h))
	return &wtxmgr.BlockMeta{
		Block: wtxmgr.Block{Hash: chainhash.Hash(sha256.Sum256(b[:])), Height: int32(h)},
		Time:  time.Unix(1500000000+int64(h)*600, 0),
	}
}

type storeResult struct {
	orders   [][]int
	ledger   []int
	hashList []int
	hashesEq bool
	inserted int
	applied  int
	skipped  int
	tags     []string
}

// storeRuns inserts the mined parents (mined, with credits), then the members
// (unmined), applies the history, and calls UnminedTxs. The ledger it returns
// is maintained here from the calls made, not from anything the store says.
func (ru *runner) storeRuns(in c14Input, built map[int]*wire.MsgTx, minedTx map[int]*wire.MsgTx, idOf map[chainhash.Hash]int, ids []int, runs int) (res storeResult, err error) {
	ru.nsSeq++
	nsKey := []byte(fmt.Sprintf("c14-%d", ru.nsSeq))
	led := newLedger(in.Txs)
	tagSet := map[string]bool{}
	recOf := func(id int, k int) (*wtxmgr.TxRecord, error) {
		return wtxmgr.NewTxRecordFromMsgTx(built[id], time.Unix(1600000000+int64(k), 0))
	}
	var s *wtxmgr.Store
	err = walletdb.Update(ru.db, func(tx walletdb.ReadWriteTx) error {
		ns, err := tx.CreateTopLevelBucket(nsKey)
		if err != nil {
			return err
		}
		if err := wtxmgr.Create(ns); err != nil {
			return err
		}
		s, err = wtxmgr.Open(ns, &chaincfg.TestNet3Params)
		if err != nil {
			return err
		}
		for _, mp := range in.Mined {
			rec, err := wtxmgr.NewTxRecordFromMsgTx(minedTx[mp.ID], time.Unix(1500000000+int64(mp.H)*600, 0))
			if err != nil {
				return err
			}
			bm := blockMeta(mp.H)
			if err := s.InsertTx(ns, rec, bm); err != nil {
				return err
			}
			for o := range rec.MsgTx.TxOut {
				if err := s.AddCredit(ns, rec, bm, uint32(o), false); err != nil {
					return err
				}
			}
		}
		for _, p := range ru.r.Perm(len(ids)) {
			rec, err := recOf(ids[p], p)
			if err != nil {
				return err
			}
			if err := s.InsertTx(ns, rec, nil); err != nil {
				return err
			}
			led.in[ids[p]] = true
		}
		return nil
	})
	if err != nil {
		return res, err
	}
	res.inserted = len(led.in)
	for k, op := range in.Ops {
		valid := false
		switch op.K {
		case "confirm":
			valid = led.canConfirm(op.ID)
		case "abandon":
			valid = led.in[op.ID]
		}
		if !valid {
			// (a shrunk or hand-written history may name a member that left)
			res.skipped++
			tagSet["op_skipped"] = true
			continue
		}
		err = walletdb.Update(ru.db, func(tx walletdb.ReadWriteTx) error {
			ns := tx.ReadWriteBucket(nsKey)
			rec, err := recOf(op.ID, 1000+k)
			if err != nil {
				return err
			}
			if op.K == "confirm" {
				return s.InsertTx(ns, rec, blockMeta(op.H))
			}
			return s.RemoveUnminedTx(ns, rec)
		})
		if err != nil {
			return res, fmt.Errorf("op %d (%s %d): %v", k, op.K, op.ID, err)
		}
		res.applied++
		if op.K == "confirm" {
			tagSet["op_confirm"] = true
			c, wd := led.confirm(op.ID)
			if c > 0 {
				tagSet["confirm_removes_conflict"] = true
			}
			if wd > 0 {
				tagSet["confirm_removes_conflict_with_descendants"] = true
			}
		} else {
			tagSet["op_abandon"] = true
			if led.abandon(op.ID) > 0 {
				tagSet["op_abandon_with_descendants"] = true
			}
		}
	}
	res.ledger = led.ids()
	if len(res.ledger) < res.inserted {
		tagSet["ledger_smaller_than_inserted"] = true
	}
	if len(res.ledger) == 0 {
		tagSet["ledger_empty"] = true
	}
	err = walletdb.View(ru.db, func(tx walletdb.ReadTx) error {
		ns := tx.ReadBucket(nsKey)
		hs, err := s.UnminedTxHashes(ns)
		if err != nil {
			return err
		}
		res.hashList = []int{}
		for _, h := range hs {
			if id, ok := idOf[*h]; ok {
				res.hashList = append(res.hashList, id)
			} else {
				res.hashList = append(res.hashList, foreignID)
			}
		}
		sort.Ints(res.hashList)
		res.hashesEq = orderKey(res.hashList) == orderKey(res.ledger)
		for i := 0; i < runs; i++ {
			out, err := s.UnminedTxs(ns)
			if err != nil {
				return err
			}
			res.orders = append(res.orders, toIDs(out, idOf))
		}
		return nil
	})
	for t := range tagSet {
		res.tags = append(res.tags, t)
	}
	sort.Strings(res.tags)
	if err != nil {
		return res, err
	}
	err = walletdb.Update(ru.db, func(tx walletdb.ReadWriteTx) error {
		return tx.DeleteTopLevelBucket(nsKey)
	})
	return res, err
}

// restrict gives the members that are in the ledger, inputs unchanged: members
// that left count as transactions outside the set.
func restrict(txs []c14Tx, ledger []int) []c14Tx {
	in := map[int]bool{}
	for _, id := range ledger {
		in[id] = true
	}
	out := []c14Tx{}
	for _, t := range txs {
		if in[t.ID] {
			out = append(out, t)
		}
	}
	return out
}

func (ru *runner) runCase(in c14Input, tags []string, out *core.Emitter) (fatal bool, err error) {
	if in.Txs == nil {
		in.Txs = []c14Tx{}
	}
	for i := range in.Txs {
		if in.Txs[i].Ins == nil {
			in.Txs[i].Ins = [][2]int{}
		}
	}
	built, idOf, minedTx, err := c14Build(in.Txs, in.Mined)
	if err != nil {
		return false, err
	}
	ids := make([]int, 0, len(in.Txs))
	for _, t := range in.Txs {
		ids = append(ids, t.ID)
	}
	cs := c14Case{In: in, Oracle: []string{}, Site: "wtxmgr.DependencySort"}
	cs.Obs.Sort, cs.Obs.Store, cs.Obs.Ledger, cs.Obs.HashList = [][]int{}, [][]int{}, []int{}, []int{}
	kinds := map[string]bool{}
	site := ""
	note := func(ks []string, where string) {
		for _, k := range ks {
			if !kinds[k] {
				kinds[k] = true
				cs.Oracle = append(cs.Oracle, k)
			}
			if site == "" {
				site = where
			}
		}
	}
	seen := map[string]bool{}
	runs := in.Runs
	if runs <= 0 {
		runs = 1
	}
	for i := 0; i < runs; i++ {
		order, kind := ru.sortOnce(built, idOf, ids)
		cs.Obs.SortRuns++
		if kind != "" {
			note([]string{kind}, "wtxmgr.DependencySort")
			if kind == "does_not_terminate" {
				fatal = true
				break
			}
			continue
		}
		note(c14Oracle(in.Txs, order), "wtxmgr.DependencySort")
		if k := orderKey(order); !seen[k] {
			seen[k] = true
			cs.Obs.Sort = append(cs.Obs.Sort, order)
		}
	}
	if in.Store && !fatal {
		sruns := runs / 3
		if sruns < 2 {
			sruns = 2
		}
		res, err := ru.storeRuns(in, built, minedTx, idOf, ids, sruns)
		if res.ledger != nil {
			cs.Obs.Ledger = res.ledger
		}
		if res.hashList != nil {
			cs.Obs.HashList = res.hashList
		}
		cs.Obs.HashesEq = res.hashesEq
		cs.Obs.OpsApplied, cs.Obs.OpsSkipped = res.applied, res.skipped
		if err != nil {
			cs.Obs.StoreError = err.Error()
			note([]string{"store_error"}, "wtxmgr.Store.UnminedTxs")
		}
		// "every unconfirmed transaction" = the harness's ledger. The order is
		// judged over the ledger-restricted graph (members that were mined or
		// removed count as outside parents). What UnminedTxHashes says is
		// recorded and tagged only: the rebroadcast list is UnminedTxs.
		live := restrict(in.Txs, res.ledger)
		sseen := map[string]bool{}
		for _, order := range res.orders {
			cs.Obs.StoreRuns++
			note(c14Oracle(live, order), "wtxmgr.Store.UnminedTxs")
			if k := orderKey(order); !sseen[k] {
				sseen[k] = true
				cs.Obs.Store = append(cs.Obs.Store, order)
			}
		}
		tags = append(tags, "store")
		if err == nil && !res.hashesEq {
			tags = append(tags, "hash_list_differs_from_ledger")
		}
		tags = append(tags, res.tags...)
		tags = append(tags, c14MinedFeatures(in, res.ledger)...)
	}
	if site != "" {
		cs.Site = site
	}
	if len(cs.Obs.Sort) >= 2 {
		tags = append(tags, "orders_varied")
	}
	cs.Tags = append(tags, c14Features(in.Txs)...)
	out.Emit(cs)
	return fatal, nil
}

// c14MinedFeatures measures how the mined parents are used.
func c14MinedFeatures(in c14Input, ledger []int) []string {
	if len(in.Mined) == 0 {
		return nil
	}
	cb := map[int]bool{}
	anyCB := false
	for _, mp := range in.Mined {
		cb[mp.ID] = mp.Coinbase
		anyCB = anyCB || mp.Coinbase
	}
	live := map[int]bool{}
	for _, id := range ledger {
		live[id] = true
	}
	tags := []string{"mined_parent"}
	if anyCB {
		tags = append(tags, "mined_coinbase_parent")
	}
	first, firstLive, firstOrd := false, false, false
	for _, t := range in.Txs {
		if len(t.Ins) == 0 {
			continue
		}
		isCB, isMined := cb[t.Ins[0][0]]
		if isMined && isCB {
			first = true
			if live[t.ID] {
				firstLive = true
			}
		}
		if isMined && !isCB {
			firstOrd = true
		}
	}
	if first {
		tags = append(tags, "first_input_spends_mined_coinbase")
	}
	if firstLive {
		tags = append(tags, "first_input_spends_mined_coinbase_in_ledger")
	}
	if firstOrd {
		tags = append(tags, "first_input_spends_mined_ordinary")
	}
	return tags
}

// ---------------------------------------------------------------- features (measured)

func c14Features(txs []c14Tx) []string {
	n := len(txs)
	idx := map[int]int{}
	for i, t := range txs {
		idx[t.ID] = i
	}
	var tags []string
	switch {
	case n <= 4:
		tags = append(tags, "n_le4")
	case n <= 12:
		tags = append(tags, "n_5_12")
	case n <= 24:
		tags = append(tags, "n_13_24")
	default:
		tags = append(tags, "n_25_40")
	}
	parents := make([][]int, n) // distinct in-set parents
	edges, multi, outside, dupIn, conflict := 0, false, false, false, false
	spentBy := map[[2]int]int{}
	for i, t := range txs {
		cnt := map[int]int{}
		own := map[[2]int]bool{}
		for _, in := range t.Ins {
			if own[in] {
				dupIn = true
			}
			own[in] = true
			if p, ok := idx[in[0]]; ok {
				cnt[p]++
				edges++
			} else {
				outside = true
			}
		}
		for op := range own {
			if prev, ok := spentBy[op]; ok && prev != t.ID {
				conflict = true
			}
			spentBy[op] = t.ID
		}
		for p, c := range cnt {
			parents[i] = append(parents[i], p)
			if c >= 2 {
				multi = true
			}
		}
		sort.Ints(parents[i])
	}
	// ancestors and depth by memoised DFS (input is acyclic: it was built)
	anc := make([]map[int]bool, n)
	depth := make([]int, n)
	var visit func(i int)
	visit = func(i int) {
		if anc[i] != nil {
			return
		}
		anc[i] = map[int]bool{}
		for _, p := range parents[i] {
			visit(p)
			anc[i][p] = true
			for a := range anc[p] {
				anc[i][a] = true
			}
			if depth[p]+1 > depth[i] {
				depth[i] = depth[p] + 1
			}
		}
	}
	maxDepth, fanIn, diamond, transitive := 0, false, false, false
	for i := 0; i < n; i++ {
		visit(i)
		if depth[i] > maxDepth {
			maxDepth = depth[i]
		}
		if len(parents[i]) >= 2 {
			fanIn = true
			for a := 0; a < len(parents[i]); a++ {
				for b := a + 1; b < len(parents[i]); b++ {
					pa, pb := parents[i][a], parents[i][b]
					if anc[pa][pb] || anc[pb][pa] {
						transitive = true
					}
					for x := range anc[pa] {
						if anc[pb][x] {
							diamond = true
						}
					}
				}
			}
		}
	}
	// weakly connected components
	comp := make([]int, n)
	for i := range comp {
		comp[i] = i
	}
	var find func(i int) int
	find = func(i int) int {
		for comp[i] != i {
			comp[i] = comp[comp[i]]
			i = comp[i]
		}
		return i
	}
	for i := 0; i < n; i++ {
		for _, p := range parents[i] {
			comp[find(i)] = find(p)
		}
	}
	roots := map[int]bool{}
	for i := 0; i < n; i++ {
		roots[find(i)] = true
	}
	if edges == 0 {
		tags = append(tags, "no_edges_shortcut")
	}
	if multi {
		tags = append(tags, "multi_edge")
	}
	if fanIn {
		tags = append(tags, "fan_in")
	}
	if diamond {
		tags = append(tags, "diamond")
	}
	if transitive {
		tags = append(tags, "transitive_edge")
	}
	if maxDepth >= 3 {
		tags = append(tags, "chain_ge3")
	}
	if maxDepth >= 8 {
		tags = append(tags, "chain_ge8")
	}
	if len(roots) >= 2 && edges > 0 {
		tags = append(tags, "components_ge2")
	}
	if conflict {
		tags = append(tags, "conflicting_siblings")
	}
	if outside {
		tags = append(tags, "outside_parent")
	}
	if dupIn {
		tags = append(tags, "dup_input")
	}
	return tags
}

// ---------------------------------------------------------------- generators

// relabel gives the members ids that do not follow the construction order and
// shuffles the list, so that nothing correlates with a topological order.
func relabel(r *gen.R, txs []c14Tx) []c14Tx {
	n := len(txs)
	perm := r.Perm(n)
	newID := func(old int) int {
		if old >= 1 && old <= n {
			return perm[old-1] + 1
		}
		return old
	}
	out := make([]c14Tx, n)
	for i, t := range txs {
		nt := c14Tx{ID: newID(t.ID), Ins: make([][2]int, len(t.Ins))}
		for j, in := range t.Ins {
			nt.Ins[j] = [2]int{newID(in[0]), in[1]}
		}
		out[i] = nt
	}
	r.Shuffle(n, func(i, j int) { out[i], out[j] = out[j], out[i] })
	return out
}

// c14Random builds a random DAG on ids 1..n in construction order (inputs only
// refer to smaller ids or to outside ids >= 1000).
func c14Random(r *gen.R) []c14Tx {
	var n int
	switch r.Pick(3, 4, 3) {
	case 0:
		n = r.Range(1, 6)
	case 1:
		n = r.Range(7, 20)
	default:
		n = r.Range(21, 40)
	}
	ncomp := r.Pick(5, 3, 2, 1) + 1
	noEdges := r.Chance(1, 15)
	chainy := r.Chance(1, 3)
	compOf := make([]int, n+1)
	for i := 1; i <= n; i++ {
		compOf[i] = r.Intn(ncomp)
	}
	nextOutside := 1000
	type op = [2]int
	var spent []op // outpoints already spent by someone (for conflicts)
	txs := make([]c14Tx, 0, n)
	for i := 1; i <= n; i++ {
		t := c14Tx{ID: i, Ins: [][2]int{}}
		var cands []int
		for j := 1; j < i; j++ {
			if compOf[j] == compOf[i] {
				cands = append(cands, j)
			}
		}
		k := 0
		if !noEdges && len(cands) > 0 {
			k = []int{0, 1, 1, 1, 2, 2, 3, 4}[r.Intn(8)]
			if chainy && k == 0 {
				k = 1
			}
		}
		used := map[op]bool{}
		add := func(o op) {
			if used[o] {
				return
			}
			used[o] = true
			t.Ins = append(t.Ins, o)
		}
		for e := 0; e < k; e++ {
			var p int
			if chainy && r.Chance(2, 3) {
				p = cands[len(cands)-1]
			} else {
				p = cands[r.Intn(len(cands))]
			}
			if len(spent) > 0 && r.Chance(1, 6) {
				// conflict: spend an outpoint someone else already spends
				o := spent[r.Intn(len(spent))]
				if o[0] >= 1000 || (o[0] < i && compOf[o[0]] == compOf[i] && !noEdges) {
					add(o)
					continue
				}
			}
			add(op{p, r.Intn(4)})
			if r.Chance(1, 4) { // parallel edge to the same parent
				add(op{p, r.Intn(4)})
			}
		}
		if len(t.Ins) == 0 || r.Chance(1, 4) {
			if r.Chance(1, 3) && nextOutside > 1000 {
				add(op{1000 + r.Intn(nextOutside-1000), r.Intn(2)}) // shared outside parent
			} else {
				add(op{nextOutside, r.Intn(2)})
				nextOutside++
			}
		}
		if r.Chance(1, 150) { // the same outpoint twice in one transaction
			t.Ins = append(t.Ins, t.Ins[r.Intn(len(t.Ins))])
		}
		r.Shuffle(len(t.Ins), func(a, b int) { t.Ins[a], t.Ins[b] = t.Ins[b], t.Ins[a] })
		spent = append(spent, t.Ins...)
		txs = append(txs, t)
	}
	return txs
}

// c14Shaped builds the classic shapes at a random size.
func c14Shaped(r *gen.R) ([]c14Tx, string) {
	root := func(id int) c14Tx { return c14Tx{ID: id, Ins: [][2]int{{1000 + id, 0}}} }
	switch r.Intn(5) {
	case 0: // chain
		n := r.Range(2, 40)
		txs := []c14Tx{root(1)}
		for i := 2; i <= n; i++ {
			txs = append(txs, c14Tx{ID: i, Ins: [][2]int{{i - 1, 0}}})
		}
		return txs, "shape_chain"
	case 1: // wide diamond: 1 -> 2..k+1 -> k+2, with parallel edges
		k := r.Range(2, 30)
		txs := []c14Tx{root(1)}
		sink := c14Tx{ID: k + 2}
		for i := 2; i <= k+1; i++ {
			t := c14Tx{ID: i, Ins: [][2]int{{1, i - 2}}}
			if r.Chance(1, 3) {
				t.Ins = append(t.Ins, [2]int{1, i - 2 + k})
			}
			txs = append(txs, t)
			sink.Ins = append(sink.Ins, [2]int{i, 0})
			if r.Chance(1, 3) {
				sink.Ins = append(sink.Ins, [2]int{i, 1})
			}
		}
		return append(txs, sink), "shape_diamond"
	case 2: // binary fan-out tree
		n := r.Range(3, 40)
		txs := []c14Tx{root(1)}
		for i := 2; i <= n; i++ {
			txs = append(txs, c14Tx{ID: i, Ins: [][2]int{{i / 2, i % 2}}})
		}
		return txs, "shape_tree"
	case 3: // late parent: a child of a root and of the end of a chain (released early by a wrong in-degree)
		d := r.Range(2, 12)
		txs := []c14Tx{root(1), root(2)}
		for i := 3; i < 3+d; i++ {
			prev := i - 1
			txs = append(txs, c14Tx{ID: i, Ins: [][2]int{{prev, 0}}})
		}
		last := 2 + d
		child := c14Tx{ID: last + 1, Ins: [][2]int{{1, 0}, {last, 0}}}
		if r.Chance(1, 2) {
			child.Ins = append(child.Ins, [2]int{1, 1})
		}
		txs = append(txs, child, c14Tx{ID: last + 2, Ins: [][2]int{{last + 1, 0}}})
		return txs, "shape_late_parent"
	default: // many conflicting siblings of one outpoint, each with a descendant
		k := r.Range(2, 15)
		txs := []c14Tx{root(1)}
		for i := 0; i < k; i++ {
			a, b := 2+2*i, 3+2*i
			txs = append(txs, c14Tx{ID: a, Ins: [][2]int{{1, 0}}}, c14Tx{ID: b, Ins: [][2]int{{a, 0}, {1, 0}}})
		}
		return txs, "shape_conflicts"
	}
}

// c14Systematic enumerates every DAG on n <= 4 nodes with edge multiplicities
// 0, 1, 2 between each ordered pair i < j (node j spends 0, 1 or 2 outputs of
// node i); roots get an outside input.
func c14Systematic(each func(txs []c14Tx) error) error {
	for n := 1; n <= 4; n++ {
		type pair struct{ i, j int }
		var pairs []pair
		for j := 2; j <= n; j++ {
			for i := 1; i < j; i++ {
				pairs = append(pairs, pair{i, j})
			}
		}
		total := 1
		for range pairs {
			total *= 3
		}
		for code := 0; code < total; code++ {
			txs := make([]c14Tx, n)
			for i := range txs {
				txs[i] = c14Tx{ID: i + 1, Ins: [][2]int{}}
			}
			c := code
			for _, p := range pairs {
				m := c % 3
				c /= 3
				for e := 0; e < m; e++ {
					txs[p.j-1].Ins = append(txs[p.j-1].Ins, [2]int{p.i, 2*(p.j-1) + e})
				}
			}
			for i := range txs {
				if len(txs[i].Ins) == 0 {
					txs[i].Ins = append(txs[i].Ins, [2]int{1000 + i, 0})
				}
			}
			if err := each(txs); err != nil {
				return err
			}
		}
	}
	return nil
}

// c14History draws, for a graph, which outside parents are real mined
// transactions (coinbase or ordinary) and a history of confirm/abandon steps
// that is valid for the ledger semantics (a member is confirmed only when none
// of its in-set parents is still unconfirmed). The choices lean towards the
// situations the ledger clause is about: a member whose FIRST input spends a
// mined coinbase output, a confirmation that evicts a conflicting sibling with
// descendants, an abandoned member with descendants.
func c14History(r *gen.R, txs []c14Tx) ([]c14Mined, []c14Op) {
	member := map[int]bool{}
	for _, t := range txs {
		member[t.ID] = true
	}
	var outs, firstOuts []int
	seenOut := map[int]bool{}
	for _, t := range txs {
		for k, in := range t.Ins {
			if member[in[0]] {
				continue
			}
			if !seenOut[in[0]] {
				seenOut[in[0]] = true
				outs = append(outs, in[0])
			}
			if k == 0 {
				firstOuts = append(firstOuts, in[0])
			}
		}
	}
	sort.Ints(outs)
	var mined []c14Mined
	if !r.Chance(1, 5) {
		chosen := map[int]*c14Mined{}
		for _, id := range outs {
			if r.Chance(1, 2) {
				chosen[id] = &c14Mined{ID: id, Coinbase: r.Chance(2, 3), H: r.Range(100, 150)}
			}
		}
		if len(firstOuts) > 0 && r.Chance(3, 4) {
			id := firstOuts[r.Intn(len(firstOuts))]
			chosen[id] = &c14Mined{ID: id, Coinbase: true, H: r.Range(100, 150)}
		}
		for _, id := range outs {
			if m := chosen[id]; m != nil {
				mined = append(mined, *m)
			}
		}
	}
	var ops []c14Op
	if r.Chance(1, 5) {
		return mined, ops
	}
	led := newLedger(txs)
	for _, t := range txs {
		led.in[t.ID] = true
	}
	nops := r.Range(1, 6)
	if lim := 1 + len(txs)/3; nops > lim {
		nops = lim
	}
	h := 200
	pick := func(l []int) int { return l[r.Intn(len(l))] }
	for k := 0; k < nops && len(led.in) > 0; k++ {
		live := led.ids()
		var ready, readyConf, readyConfDesc, withDesc []int
		for _, id := range live {
			if led.hasLedgerChild(id) {
				withDesc = append(withDesc, id)
			}
			if !led.canConfirm(id) {
				continue
			}
			ready = append(ready, id)
			cs := led.conflicts(id)
			if len(cs) > 0 {
				readyConf = append(readyConf, id)
				for _, c := range cs {
					if led.hasLedgerChild(c) {
						readyConfDesc = append(readyConfDesc, id)
						break
					}
				}
			}
		}
		if len(ready) > 0 && r.Chance(3, 5) {
			var id int
			switch {
			case len(readyConfDesc) > 0 && r.Chance(2, 3):
				id = pick(readyConfDesc)
			case len(readyConf) > 0 && r.Chance(1, 2):
				id = pick(readyConf)
			default:
				id = pick(ready)
			}
			h += r.Range(0, 2)
			ops = append(ops, c14Op{K: "confirm", ID: id, H: h})
			led.confirm(id)
		} else {
			id := pick(live)
			if len(withDesc) > 0 && r.Chance(2, 3) {
				id = pick(withDesc)
			}
			ops = append(ops, c14Op{K: "abandon", ID: id})
			led.abandon(id)
		}
	}
	return mined, ops
}

func hasDupInput(txs []c14Tx) bool {
	for _, t := range txs {
		own := map[[2]int]bool{}
		for _, in := range t.Ins {
			if own[in] {
				return true
			}
			own[in] = true
		}
	}
	return false
}

func main() {
	core.Main("c14", nil, func(c *core.Common, out *core.Emitter) error {
		dir, err := os.MkdirTemp("", "vh-c14-")
		if err != nil {
			return err
		}
		defer os.RemoveAll(dir)
		db, err := walletdb.Create("bdb", filepath.Join(dir, "c14.db"), true, time.Minute, false)
		if err != nil {
			return err
		}
		defer db.Close()
		ru := &runner{db: db, r: gen.New(c.Seed, 1401)}

		if c.Replay != "" {
			return core.ReadReplay(c.Replay, func(raw json.RawMessage) error {
				var cs struct {
					In c14Input `json:"in"`
				}
				if err := json.Unmarshal(raw, &cs); err != nil {
					return err
				}
				if cs.In.Runs < 40 {
					cs.In.Runs = 40
				}
				_, err := ru.runCase(cs.In, []string{"replay"}, out)
				return err
			})
		}

		thorough := c.Tier == "thorough"
		// systematic part
		sysRuns := 4
		if thorough {
			sysRuns = 12
		}
		stop := false
		sysIdx := 0
		rs := gen.New(c.Seed, 1403)
		err = c14Systematic(func(txs []c14Tx) error {
			if stop {
				return nil
			}
			in := c14Input{Txs: txs, Runs: sysRuns, Store: true}
			sysIdx++
			if sysIdx%2 == 0 { // every other graph also gets mined parents and a history
				in.Mined, in.Ops = c14History(rs, txs)
			}
			fatal, err := ru.runCase(in, []string{"systematic"}, out)
			stop = stop || fatal
			return err
		})
		if err != nil || stop {
			return err
		}
		// random part
		r := gen.New(c.Seed, 14)
		rh := gen.New(c.Seed, 1402) // mined parents and confirm/abandon histories
		runs := 20
		if thorough {
			runs = 30
		}
		for i := 0; i < c.N; i++ {
			var txs []c14Tx
			tags := []string{"random"}
			if r.Chance(1, 4) {
				var shape string
				txs, shape = c14Shaped(r)
				tags = []string{"shaped", shape}
			} else {
				txs = c14Random(r)
			}
			txs = relabel(r, txs)
			in := c14Input{Txs: txs, Runs: runs, Store: !hasDupInput(txs)}
			if in.Store {
				in.Mined, in.Ops = c14History(rh, txs)
			}
			fatal, err := ru.runCase(in, tags, out)
			if err != nil || fatal {
				return err
			}
		}
		return nil
	})
}
