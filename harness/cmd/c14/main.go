// Command c14 runs the real wtxmgr.DependencySort and Store.UnminedTxs on
// generated spend graphs of real wire.MsgTx and prints, per graph, the graph
// (hashes interned to small ids), the orders observed, and the property
// oracle evaluated directly on those orders.
package main

import (
	"crypto/sha256"
	"encoding/binary"
	"encoding/json"
	"fmt"
	"os"
	"path/filepath"
	"sort"
	"time"

	"github.com/btcsuite/btcd/chaincfg"
	"github.com/btcsuite/btcd/chaincfg/chainhash"
	"github.com/btcsuite/btcd/wire"
	"github.com/btcsuite/btcwallet/walletdb"
	_ "github.com/btcsuite/btcwallet/walletdb/bdb"
	"github.com/btcsuite/btcwallet/wtxmgr"

	"verifharness/internal/core"
	"verifharness/internal/gen"
)

// c14Tx is one member of the set: ID is the model id of its hash; Ins lists
// (model id of the previous transaction, output index). Previous ids that are
// not the id of a member refer to transactions outside the set.
type c14Tx struct {
	ID  int      `json:"id"`
	Ins [][2]int `json:"ins"`
}

type c14Input struct {
	Txs   []c14Tx `json:"txs"`
	Runs  int     `json:"runs"`  // calls of DependencySort (maps rebuilt in a fresh insertion order each time)
	Store bool    `json:"store"` // also insert into a real Store and call UnminedTxs
}

type c14Obs struct {
	Sort       [][]int `json:"sort"`  // distinct orders returned by DependencySort
	Store      [][]int `json:"store"` // distinct orders returned by Store.UnminedTxs
	SortRuns   int     `json:"sort_runs"`
	StoreRuns  int     `json:"store_runs"`
	StoreKept  bool    `json:"store_kept_all"` // the store's unmined set equals the inserted set
	StoreError string  `json:"store_error,omitempty"`
}

type c14Case struct {
	In     c14Input `json:"in"`
	Obs    c14Obs   `json:"obs"`
	Oracle []string `json:"oracle"`
	Tags   []string `json:"tags"`
	Site   string   `json:"site"`
}

const foreignID = -1

// ---------------------------------------------------------------- building

func outsideHash(id int) chainhash.Hash {
	var b [16]byte
	copy(b[:], "c14-outside-")
	binary.BigEndian.PutUint32(b[12:], uint32(id))
	return chainhash.Hash(sha256.Sum256(b[:]))
}

// c14Build turns the model graph into real transactions. Hashes of members
// depend on the hashes of the members they spend, so members are built parents
// first (depth-first); a cyclic input cannot be realised and is an error.
func c14Build(txs []c14Tx) (map[int]*wire.MsgTx, map[chainhash.Hash]int, error) {
	byID := map[int]*c14Tx{}
	for i := range txs {
		if _, dup := byID[txs[i].ID]; dup {
			return nil, nil, fmt.Errorf("duplicate id %d", txs[i].ID)
		}
		byID[txs[i].ID] = &txs[i]
	}
	nOut := map[int]int{}
	for _, t := range txs {
		for _, in := range t.Ins {
			if in[1]+1 > nOut[in[0]] {
				nOut[in[0]] = in[1] + 1
			}
		}
	}
	built := map[int]*wire.MsgTx{}
	hashes := map[int]chainhash.Hash{}
	state := map[int]int{} // 1 = in progress, 2 = done
	var build func(id int) error
	build = func(id int) error {
		switch state[id] {
		case 2:
			return nil
		case 1:
			return fmt.Errorf("cyclic spend graph at id %d: not realisable with real hashes", id)
		}
		state[id] = 1
		t := byID[id]
		m := wire.NewMsgTx(wire.TxVersion)
		for _, in := range t.Ins {
			var h chainhash.Hash
			if _, member := byID[in[0]]; member {
				if err := build(in[0]); err != nil {
					return err
				}
				h = hashes[in[0]]
			} else {
				h = outsideHash(in[0])
			}
			m.AddTxIn(wire.NewTxIn(wire.NewOutPoint(&h, uint32(in[1])), nil, nil))
		}
		if len(t.Ins) == 0 {
			return fmt.Errorf("id %d has no input (not serialisable)", id)
		}
		n := nOut[id]
		if n == 0 {
			n = 1
		}
		for o := 0; o < n; o++ {
			pk := []byte{0x6a, 8, 0, 0, 0, 0, 0, 0, 0, 0}
			binary.BigEndian.PutUint32(pk[2:], uint32(id))
			binary.BigEndian.PutUint32(pk[6:], uint32(o))
			m.AddTxOut(wire.NewTxOut(int64(1000+o), pk))
		}
		built[id] = m
		hashes[id] = m.TxHash()
		state[id] = 2
		return nil
	}
	ids := make([]int, 0, len(txs))
	for _, t := range txs {
		ids = append(ids, t.ID)
	}
	sort.Ints(ids)
	for _, id := range ids {
		if err := build(id); err != nil {
			return nil, nil, err
		}
	}
	idOf := map[chainhash.Hash]int{}
	for id, h := range hashes {
		idOf[h] = id
	}
	return built, idOf, nil
}

// ---------------------------------------------------------------- oracle

// c14Oracle states the property directly on one returned order.
func c14Oracle(txs []c14Tx, order []int) []string {
	member := map[int]*c14Tx{}
	for i := range txs {
		member[txs[i].ID] = &txs[i]
	}
	var bad []string
	seen := map[int]bool{}
	exact := len(order) == len(txs)
	for _, id := range order {
		if _, ok := member[id]; !ok || seen[id] {
			exact = false
		}
		seen[id] = true
	}
	if !exact {
		bad = append(bad, "missing_or_duplicate_tx")
	}
	pos := map[int]int{}
	for i, id := range order {
		if _, ok := pos[id]; !ok {
			pos[id] = i
		}
	}
	early := false
	for _, id := range order {
		t, ok := member[id]
		if !ok {
			continue
		}
		for _, in := range t.Ins {
			if _, isMember := member[in[0]]; !isMember {
				continue
			}
			pp, emitted := pos[in[0]]
			if emitted && pp > pos[id] {
				early = true // parent is offered, but after the child
			}
		}
	}
	if early {
		bad = append(bad, "child_before_parent")
	}
	return bad
}

// ---------------------------------------------------------------- running

func orderKey(o []int) string { return fmt.Sprint(o) }

type runner struct {
	db    walletdb.DB
	nsSeq int
	r     *gen.R
}

func (ru *runner) sortOnce(built map[int]*wire.MsgTx, idOf map[chainhash.Hash]int, ids []int) (order []int, kind string) {
	perm := ru.r.Perm(len(ids))
	m := make(map[chainhash.Hash]*wire.MsgTx, len(ids))
	for _, p := range perm {
		tx := built[ids[p]]
		m[tx.TxHash()] = tx
	}
	type res struct {
		out []*wire.MsgTx
		pan interface{}
	}
	ch := make(chan res, 1)
	go func() {
		defer func() {
			if p := recover(); p != nil {
				ch <- res{nil, p}
			}
		}()
		ch <- res{wtxmgr.DependencySort(m), nil}
	}()
	select {
	case x := <-ch:
		if x.pan != nil {
			return nil, "panic"
		}
		return toIDs(x.out, idOf), ""
	case <-time.After(20 * time.Second):
		return nil, "does_not_terminate"
	}
}

func toIDs(out []*wire.MsgTx, idOf map[chainhash.Hash]int) []int {
	order := make([]int, 0, len(out))
	for _, tx := range out {
		if tx == nil {
			order = append(order, foreignID)
			continue
		}
		if id, ok := idOf[tx.TxHash()]; ok {
			order = append(order, id)
		} else {
			order = append(order, foreignID)
		}
	}
	return order
}

func (ru *runner) storeRuns(built map[int]*wire.MsgTx, idOf map[chainhash.Hash]int, ids []int, runs int) (orders [][]int, kept bool, err error) {
	ru.nsSeq++
	nsKey := []byte(fmt.Sprintf("c14-%d", ru.nsSeq))
	var s *wtxmgr.Store
	err = walletdb.Update(ru.db, func(tx walletdb.ReadWriteTx) error {
		ns, err := tx.CreateTopLevelBucket(nsKey)
		if err != nil {
			return err
		}
		if err := wtxmgr.Create(ns); err != nil {
			return err
		}
		s, err = wtxmgr.Open(ns, &chaincfg.TestNet3Params)
		if err != nil {
			return err
		}
		for _, p := range ru.r.Perm(len(ids)) {
			rec, err := wtxmgr.NewTxRecordFromMsgTx(built[ids[p]], time.Unix(1600000000+int64(p), 0))
			if err != nil {
				return err
			}
			if err := s.InsertTx(ns, rec, nil); err != nil {
				return err
			}
		}
		return nil
	})
	if err != nil {
		return nil, false, err
	}
	err = walletdb.View(ru.db, func(tx walletdb.ReadTx) error {
		ns := tx.ReadBucket(nsKey)
		hs, err := s.UnminedTxHashes(ns)
		if err != nil {
			return err
		}
		have := map[int]bool{}
		for _, h := range hs {
			if id, ok := idOf[*h]; ok {
				have[id] = true
			}
		}
		kept = len(hs) == len(ids) && len(have) == len(ids)
		for i := 0; i < runs; i++ {
			out, err := s.UnminedTxs(ns)
			if err != nil {
				return err
			}
			orders = append(orders, toIDs(out, idOf))
		}
		return nil
	})
	if err != nil {
		return nil, kept, err
	}
	err = walletdb.Update(ru.db, func(tx walletdb.ReadWriteTx) error {
		return tx.DeleteTopLevelBucket(nsKey)
	})
	return orders, kept, err
}

func (ru *runner) runCase(in c14Input, tags []string, out *core.Emitter) (fatal bool, err error) {
	if in.Txs == nil {
		in.Txs = []c14Tx{}
	}
	for i := range in.Txs {
		if in.Txs[i].Ins == nil {
			in.Txs[i].Ins = [][2]int{}
		}
	}
	built, idOf, err := c14Build(in.Txs)
	if err != nil {
		return false, err
	}
	ids := make([]int, 0, len(in.Txs))
	for _, t := range in.Txs {
		ids = append(ids, t.ID)
	}
	cs := c14Case{In: in, Oracle: []string{}, Site: "wtxmgr.DependencySort"}
	cs.Obs.Sort, cs.Obs.Store = [][]int{}, [][]int{}
	kinds := map[string]bool{}
	site := ""
	note := func(ks []string, where string) {
		for _, k := range ks {
			if !kinds[k] {
				kinds[k] = true
				cs.Oracle = append(cs.Oracle, k)
			}
			if site == "" {
				site = where
			}
		}
	}
	seen := map[string]bool{}
	runs := in.Runs
	if runs <= 0 {
		runs = 1
	}
	for i := 0; i < runs; i++ {
		order, kind := ru.sortOnce(built, idOf, ids)
		cs.Obs.SortRuns++
		if kind != "" {
			note([]string{kind}, "wtxmgr.DependencySort")
			if kind == "does_not_terminate" {
				fatal = true
				break
			}
			continue
		}
		note(c14Oracle(in.Txs, order), "wtxmgr.DependencySort")
		if k := orderKey(order); !seen[k] {
			seen[k] = true
			cs.Obs.Sort = append(cs.Obs.Sort, order)
		}
	}
	if in.Store && !fatal {
		sruns := runs / 3
		if sruns < 2 {
			sruns = 2
		}
		orders, kept, err := ru.storeRuns(built, idOf, ids, sruns)
		cs.Obs.StoreKept = kept
		if err != nil {
			cs.Obs.StoreError = err.Error()
			note([]string{"store_error"}, "wtxmgr.Store.UnminedTxs")
		}
		sseen := map[string]bool{}
		for _, order := range orders {
			cs.Obs.StoreRuns++
			// the set the store holds is the inserted set when kept; when the
			// store dropped members on insertion the comparison against the
			// inserted set would blame UnminedTxs for it, so it is skipped
			// and only tagged.
			if kept {
				note(c14Oracle(in.Txs, order), "wtxmgr.Store.UnminedTxs")
			}
			if k := orderKey(order); !sseen[k] && kept {
				sseen[k] = true
				cs.Obs.Store = append(cs.Obs.Store, order)
			}
		}
		if kept {
			tags = append(tags, "store")
		} else {
			tags = append(tags, "store_dropped_members")
		}
	}
	if site != "" {
		cs.Site = site
	}
	if len(cs.Obs.Sort) >= 2 {
		tags = append(tags, "orders_varied")
	}
	cs.Tags = append(tags, c14Features(in.Txs)...)
	out.Emit(cs)
	return fatal, nil
}

// ---------------------------------------------------------------- features (measured)

func c14Features(txs []c14Tx) []string {
	n := len(txs)
	idx := map[int]int{}
	for i, t := range txs {
		idx[t.ID] = i
	}
	var tags []string
	switch {
	case n <= 4:
		tags = append(tags, "n_le4")
	case n <= 12:
		tags = append(tags, "n_5_12")
	case n <= 24:
		tags = append(tags, "n_13_24")
	default:
		tags = append(tags, "n_25_40")
	}
	parents := make([][]int, n) // distinct in-set parents
	edges, multi, outside, dupIn, conflict := 0, false, false, false, false
	spentBy := map[[2]int]int{}
	for i, t := range txs {
		cnt := map[int]int{}
		own := map[[2]int]bool{}
		for _, in := range t.Ins {
			if own[in] {
				dupIn = true
			}
			own[in] = true
			if p, ok := idx[in[0]]; ok {
				cnt[p]++
				edges++
			} else {
				outside = true
			}
		}
		for op := range own {
			if prev, ok := spentBy[op]; ok && prev != t.ID {
				conflict = true
			}
			spentBy[op] = t.ID
		}
		for p, c := range cnt {
			parents[i] = append(parents[i], p)
			if c >= 2 {
				multi = true
			}
		}
		sort.Ints(parents[i])
	}
	// ancestors and depth by memoised DFS (input is acyclic: it was built)
	anc := make([]map[int]bool, n)
	depth := make([]int, n)
	var visit func(i int)
	visit = func(i int) {
		if anc[i] != nil {
			return
		}
		anc[i] = map[int]bool{}
		for _, p := range parents[i] {
			visit(p)
			anc[i][p] = true
			for a := range anc[p] {
				anc[i][a] = true
			}
			if depth[p]+1 > depth[i] {
				depth[i] = depth[p] + 1
			}
		}
	}
	maxDepth, fanIn, diamond, transitive := 0, false, false, false
	for i := 0; i < n; i++ {
		visit(i)
		if depth[i] > maxDepth {
			maxDepth = depth[i]
		}
		if len(parents[i]) >= 2 {
			fanIn = true
			for a := 0; a < len(parents[i]); a++ {
				for b := a + 1; b < len(parents[i]); b++ {
					pa, pb := parents[i][a], parents[i][b]
					if anc[pa][pb] || anc[pb][pa] {
						transitive = true
					}
					for x := range anc[pa] {
						if anc[pb][x] {
							diamond = true
						}
					}
				}
			}
		}
	}
	// weakly connected components
	comp := make([]int, n)
	for i := range comp {
		comp[i] = i
	}
	var find func(i int) int
	find = func(i int) int {
		for comp[i] != i {
			comp[i] = comp[comp[i]]
			i = comp[i]
		}
		return i
	}
	for i := 0; i < n; i++ {
		for _, p := range parents[i] {
			comp[find(i)] = find(p)
		}
	}
	roots := map[int]bool{}
	for i := 0; i < n; i++ {
		roots[find(i)] = true
	}
	if edges == 0 {
		tags = append(tags, "no_edges_shortcut")
	}
	if multi {
		tags = append(tags, "multi_edge")
	}
	if fanIn {
		tags = append(tags, "fan_in")
	}
	if diamond {
		tags = append(tags, "diamond")
	}
	if transitive {
		tags = append(tags, "transitive_edge")
	}
	if maxDepth >= 3 {
		tags = append(tags, "chain_ge3")
	}
	if maxDepth >= 8 {
		tags = append(tags, "chain_ge8")
	}
	if len(roots) >= 2 && edges > 0 {
		tags = append(tags, "components_ge2")
	}
	if conflict {
		tags = append(tags, "conflicting_siblings")
	}
	if outside {
		tags = append(tags, "outside_parent")
	}
	if dupIn {
		tags = append(tags, "dup_input")
	}
	return tags
}

// ---------------------------------------------------------------- generators

// relabel gives the members ids that do not follow the construction order and
// shuffles the list, so that nothing correlates with a topological order.
func relabel(r *gen.R, txs []c14Tx) []c14Tx {
	n := len(txs)
	perm := r.Perm(n)
	newID := func(old int) int {
		if old >= 1 && old <= n {
			return perm[old-1] + 1
		}
		return old
	}
	out := make([]c14Tx, n)
	for i, t := range txs {
		nt := c14Tx{ID: newID(t.ID), Ins: make([][2]int, len(t.Ins))}
		for j, in := range t.Ins {
			nt.Ins[j] = [2]int{newID(in[0]), in[1]}
		}
		out[i] = nt
	}
	r.Shuffle(n, func(i, j int) { out[i], out[j] = out[j], out[i] })
	return out
}

// c14Random builds a random DAG on ids 1..n in construction order (inputs only
// refer to smaller ids or to outside ids >= 1000).
func c14Random(r *gen.R) []c14Tx {
	var n int
	switch r.Pick(3, 4, 3) {
	case 0:
		n = r.Range(1, 6)
	case 1:
		n = r.Range(7, 20)
	default:
		n = r.Range(21, 40)
	}
	ncomp := r.Pick(5, 3, 2, 1) + 1
	noEdges := r.Chance(1, 15)
	chainy := r.Chance(1, 3)
	compOf := make([]int, n+1)
	for i := 1; i <= n; i++ {
		compOf[i] = r.Intn(ncomp)
	}
	nextOutside := 1000
	type op = [2]int
	var spent []op // outpoints already spent by someone (for conflicts)
	txs := make([]c14Tx, 0, n)
	for i := 1; i <= n; i++ {
		t := c14Tx{ID: i, Ins: [][2]int{}}
		var cands []int
		for j := 1; j < i; j++ {
			if compOf[j] == compOf[i] {
				cands = append(cands, j)
			}
		}
		k := 0
		if !noEdges && len(cands) > 0 {
			k = []int{0, 1, 1, 1, 2, 2, 3, 4}[r.Intn(8)]
			if chainy && k == 0 {
				k = 1
			}
		}
		used := map[op]bool{}
		add := func(o op) {
			if used[o] {
				return
			}
			used[o] = true
			t.Ins = append(t.Ins, o)
		}
		for e := 0; e < k; e++ {
			var p int
			if chainy && r.Chance(2, 3) {
				p = cands[len(cands)-1]
			} else {
				p = cands[r.Intn(len(cands))]
			}
			if len(spent) > 0 && r.Chance(1, 6) {
				// conflict: spend an outpoint someone else already spends
				o := spent[r.Intn(len(spent))]
				if o[0] >= 1000 || (o[0] < i && compOf[o[0]] == compOf[i] && !noEdges) {
					add(o)
					continue
				}
			}
			add(op{p, r.Intn(4)})
			if r.Chance(1, 4) { // parallel edge to the same parent
				add(op{p, r.Intn(4)})
			}
		}
		if len(t.Ins) == 0 || r.Chance(1, 4) {
			if r.Chance(1, 3) && nextOutside > 1000 {
				add(op{1000 + r.Intn(nextOutside-1000), r.Intn(2)}) // shared outside parent
			} else {
				add(op{nextOutside, r.Intn(2)})
				nextOutside++
			}
		}
		if r.Chance(1, 150) { // the same outpoint twice in one transaction
			t.Ins = append(t.Ins, t.Ins[r.Intn(len(t.Ins))])
		}
		r.Shuffle(len(t.Ins), func(a, b int) { t.Ins[a], t.Ins[b] = t.Ins[b], t.Ins[a] })
		spent = append(spent, t.Ins...)
		txs = append(txs, t)
	}
	return txs
}

// c14Shaped builds the classic shapes at a random size.
func c14Shaped(r *gen.R) ([]c14Tx, string) {
	root := func(id int) c14Tx { return c14Tx{ID: id, Ins: [][2]int{{1000 + id, 0}}} }
	switch r.Intn(5) {
	case 0: // chain
		n := r.Range(2, 40)
		txs := []c14Tx{root(1)}
		for i := 2; i <= n; i++ {
			txs = append(txs, c14Tx{ID: i, Ins: [][2]int{{i - 1, 0}}})
		}
		return txs, "shape_chain"
	case 1: // wide diamond: 1 -> 2..k+1 -> k+2, with parallel edges
		k := r.Range(2, 30)
		txs := []c14Tx{root(1)}
		sink := c14Tx{ID: k + 2}
		for i := 2; i <= k+1; i++ {
			t := c14Tx{ID: i, Ins: [][2]int{{1, i - 2}}}
			if r.Chance(1, 3) {
				t.Ins = append(t.Ins, [2]int{1, i - 2 + k})
			}
			txs = append(txs, t)
			sink.Ins = append(sink.Ins, [2]int{i, 0})
			if r.Chance(1, 3) {
				sink.Ins = append(sink.Ins, [2]int{i, 1})
			}
		}
		return append(txs, sink), "shape_diamond"
	case 2: // binary fan-out tree
		n := r.Range(3, 40)
		txs := []c14Tx{root(1)}
		for i := 2; i <= n; i++ {
			txs = append(txs, c14Tx{ID: i, Ins: [][2]int{{i / 2, i % 2}}})
		}
		return txs, "shape_tree"
	case 3: // late parent: a child of a root and of the end of a chain (released early by a wrong in-degree)
		d := r.Range(2, 12)
		txs := []c14Tx{root(1), root(2)}
		for i := 3; i < 3+d; i++ {
			prev := i - 1
			txs = append(txs, c14Tx{ID: i, Ins: [][2]int{{prev, 0}}})
		}
		last := 2 + d
		child := c14Tx{ID: last + 1, Ins: [][2]int{{1, 0}, {last, 0}}}
		if r.Chance(1, 2) {
			child.Ins = append(child.Ins, [2]int{1, 1})
		}
		txs = append(txs, child, c14Tx{ID: last + 2, Ins: [][2]int{{last + 1, 0}}})
		return txs, "shape_late_parent"
	default: // many conflicting siblings of one outpoint, each with a descendant
		k := r.Range(2, 15)
		txs := []c14Tx{root(1)}
		for i := 0; i < k; i++ {
			a, b := 2+2*i, 3+2*i
			txs = append(txs, c14Tx{ID: a, Ins: [][2]int{{1, 0}}}, c14Tx{ID: b, Ins: [][2]int{{a, 0}, {1, 0}}})
		}
		return txs, "shape_conflicts"
	}
}

// c14Systematic enumerates every DAG on n <= 4 nodes with edge multiplicities
// 0, 1, 2 between each ordered pair i < j (node j spends 0, 1 or 2 outputs of
// node i); roots get an outside input.
func c14Systematic(each func(txs []c14Tx) error) error {
	for n := 1; n <= 4; n++ {
		type pair struct{ i, j int }
		var pairs []pair
		for j := 2; j <= n; j++ {
			for i := 1; i < j; i++ {
				pairs = append(pairs, pair{i, j})
			}
		}
		total := 1
		for range pairs {
			total *= 3
		}
		for code := 0; code < total; code++ {
			txs := make([]c14Tx, n)
			for i := range txs {
				txs[i] = c14Tx{ID: i + 1, Ins: [][2]int{}}
			}
			c := code
			for _, p := range pairs {
				m := c % 3
				c /= 3
				for e := 0; e < m; e++ {
					txs[p.j-1].Ins = append(txs[p.j-1].Ins, [2]int{p.i, 2*(p.j-1) + e})
				}
			}
			for i := range txs {
				if len(txs[i].Ins) == 0 {
					txs[i].Ins = append(txs[i].Ins, [2]int{1000 + i, 0})
				}
			}
			if err := each(txs); err != nil {
				return err
			}
		}
	}
	return nil
}

func hasDupInput(txs []c14Tx) bool {
	for _, t := range txs {
		own := map[[2]int]bool{}
		for _, in := range t.Ins {
			if own[in] {
				return true
			}
			own[in] = true
		}
	}
	return false
}

func main() {
	core.Main("c14", nil, func(c *core.Common, out *core.Emitter) error {
		dir, err := os.MkdirTemp("", "vh-c14-")
		if err != nil {
			return err
		}
		defer os.RemoveAll(dir)
		db, err := walletdb.Create("bdb", filepath.Join(dir, "c14.db"), true, time.Minute, false)
		if err != nil {
			return err
		}
		defer db.Close()
		ru := &runner{db: db, r: gen.New(c.Seed, 1401)}

		if c.Replay != "" {
			return core.ReadReplay(c.Replay, func(raw json.RawMessage) error {
				var cs struct {
					In c14Input `json:"in"`
				}
				if err := json.Unmarshal(raw, &cs); err != nil {
					return err
				}
				if cs.In.Runs < 40 {
					cs.In.Runs = 40
				}
				_, err := ru.runCase(cs.In, []string{"replay"}, out)
				return err
			})
		}

		thorough := c.Tier == "thorough"
		// systematic part
		sysRuns := 4
		if thorough {
			sysRuns = 12
		}
		stop := false
		err = c14Systematic(func(txs []c14Tx) error {
			if stop {
				return nil
			}
			fatal, err := ru.runCase(c14Input{Txs: txs, Runs: sysRuns, Store: true}, []string{"systematic"}, out)
			stop = stop || fatal
			return err
		})
		if err != nil || stop {
			return err
		}
		// random part
		r := gen.New(c.Seed, 14)
		runs := 20
		if thorough {
			runs = 30
		}
		for i := 0; i < c.N; i++ {
			var txs []c14Tx
			tags := []string{"random"}
			if r.Chance(1, 4) {
				var shape string
				txs, shape = c14Shaped(r)
				tags = []string{"shaped", shape}
			} else {
				txs = c14Random(r)
			}
			txs = relabel(r, txs)
			fatal, err := ru.runCase(c14Input{Txs: txs, Runs: runs, Store: !hasDupInput(txs)}, tags, out)
			if err != nil || fatal {
				return err
			}
		}
		return nil
	})
}
